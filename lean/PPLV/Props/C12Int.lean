import PPLV.Props.C12
import PPLV.Interval.ProofsInt5
import PPLV.Interval.ProofsInt6
import PPLV.Interval.ProofsInt7
/-!
# C12 — interval arithmetic over native bounded integers encloses every concrete result

`Interval<int8_t … uint64_t, Native_Integer_Box_Interval_Info>` (`Int8_Box … Uint64_Box` of
`/repo/interfaces/interfaced_boxes.hh`): a boundary is a native integer; a boundary computation is a
checked operation of `checked_int_inlines.hh` (destination policy `Check_Overflow_Policy<T>`) with the
rounding direction of the side, followed by `Boundary_NS::adjust_boundary`, which maps the returned
`Result` code to the OPEN bit and — when the checked layer reported an overflow towards the infinity of the
side without storing anything (`V_GT_MINUS_INFINITY | V_UNREPRESENTABLE`, `V_LT_PLUS_INFINITY |
V_UNREPRESENTABLE`) — to the SPECIAL bit (the side becomes unbounded).

* `PPLV/Interval/IntModel.lean`: `adjustBoundary` (code-shaped `adjust_boundary`, both halves, case by
  case), the native boundary functions `nbAssign … nbDivZ` = *the C11 model's operation* (`PPLV.Checked`,
  property C11) + `adjustBoundary`, and the rounding instance `Rounding.native ty` = C11 conversion of the
  exact rational with the direction of the side + `adjustBoundary`.
* here: the instance satisfies the soundness hypothesis `Rounding.Sound` of every C12 theorem
  (`int_rounding_sound`), hence all enclosure theorems of `Props/C12.lean` hold for native-integer
  intervals (`int_*_encloses`, emptiness); `adjust_boundary_spec` (soundness of `adjust_boundary` for the
  meaning of every result code the checked layer returns, quantified over the C11 model's outputs);
  `int_boundary_refines` (the C12 model under `Rounding.native ty` computes, at every boundary, exactly
  what C11 arithmetic + `adjust_boundary` compute); `int_native_closed` (native intervals are closed under
  the operations, so the correspondence holds along chains).

All for every width and signedness (`ty.bits` is a variable) and every interval policy that stores
SPECIAL (the only kind the library instantiates for a native integer boundary).  `mul_assign` is the
code with the chosen candidate's bits copied (`d3 = false`: /repo since 10f5984).
-/
set_option linter.unusedVariables false
namespace C12
open PPLV.Interval PPLV.Interval.Native
open PPLV.Interval.ExtRat (ninf fin pinf)
open PPLV.Checked (IntTy Result Dir OKQ)

/-! ## the rounding instance -/

/-- **`Rounding.native ty`** — the conversion `assign_r(T&, mpq_class, dir)` of the verified
checked-integer model with the direction of the side, followed by `adjust_boundary` — **satisfies the
soundness hypothesis of the C12 theorems**, for every width and signedness. -/
theorem int_rounding_sound (ty : IntTy) (hb : 1 ≤ ty.bits) : Rounding.Sound (Rounding.native ty) :=
  native_sound hb

example : Rounding.Sound (Rounding.native (tyOfBits 8 true)) := int_rounding_sound _ (by decide)
example : Rounding.Sound (Rounding.native (tyOfBits 64 false)) := int_rounding_sound _ (by decide)

/-- explicitly: floor saturated at the maximum and `−∞` below the minimum; ceiling saturated at the
minimum and `+∞` above the maximum -/
theorem int_rounding_is_floor_ceil (ty : IntTy) (hb : 1 ≤ ty.bits) (q : Rat) :
    (Rounding.native ty).down q =
      (if q.floor < ty.cmin then ninf else if ty.cmax < q.floor then fin (ty.cmax : Rat) else fin (q.floor : Rat)) ∧
    (Rounding.native ty).up q =
      (if ty.cmax < q.ceil then pinf else if q.ceil < ty.cmin then fin (ty.cmin : Rat) else fin (q.ceil : Rat)) :=
  ⟨native_down hb q, native_up hb q⟩

example : (Rounding.native (tyOfBits 8 true)).down (-257 / 2) = ninf ∧ (Rounding.native (tyOfBits 8 true)).up (-257 / 2) = fin (-128)
    ∧ (Rounding.native (tyOfBits 8 true)).down 200 = fin 127 ∧ (Rounding.native (tyOfBits 8 true)).up 200 = pinf
    ∧ (Rounding.native (tyOfBits 8 false)).down (7 / 2) = fin 3 ∧ (Rounding.native (tyOfBits 8 false)).up (7 / 2) = fin 4 := by
  decide +kernel

/-- while nothing overflows, a native integer boundary is rounded exactly like an `mpz_class` boundary
(`Rounding.int`, the instance of `Z_Box`): precision is lost only through saturation / unboundedness -/
theorem int_rounding_eq_mpz_in_range (ty : IntTy) (hb : 1 ≤ ty.bits) (q : Rat)
    (h1 : ty.cmin ≤ q.floor) (h2 : q.floor ≤ ty.cmax) (h3 : ty.cmin ≤ q.ceil) (h4 : q.ceil ≤ ty.cmax) :
    (Rounding.native ty).down q = Rounding.int.down q ∧ (Rounding.native ty).up q = Rounding.int.up q := by
  rw [native_down hb, native_up hb]
  unfold downSpec upSpec Rounding.int
  have a : ¬ q.floor < ty.cmin := by omega
  have b : ¬ ty.cmax < q.floor := by omega
  have c : ¬ ty.cmax < q.ceil := by omega
  have d : ¬ q.ceil < ty.cmin := by omega
  simp [a, b, c, d]

/-! ## `adjust_boundary` -/

/-- **`adjust_boundary` is sound for every result code of the checked layer.**  Let `(stored, code)` be
ANY outcome of a checked operation with the direction of side `t` for which the clauses of property C11
hold w.r.t. the exact value `e` (`OKQ`: `C11.op_holds` proves them of every operation of the checked
model), and let `adjust_boundary` take one of its case labels.  Then the boundary it sets
(1) accepts every number that the exact bound `(e, open)` accepts — lower: stored ≤ e, upper: stored ≥ e,
    with the strictness the OPEN bit claims;
(2) is unbounded (SPECIAL) exactly when the code is of an infinity class (an overflow towards the
    infinity of the side);
(3) carries OPEN only if the caller asked for it, or the side is unbounded, or the stored value is
    strictly on the safe side of the exact value. -/
theorem adjust_boundary_spec (ty : IntTy) (p : Policy) (hp : p.storeSpecial = true) (t : BT) (opn : Bool)
    (out : Int × Result) (e : Rat) (hq : OKQ ty cop (dirOf t) out (.fin e)) (nb : NB) (r' : Result)
    (h : adjustBoundary p t { raw := out.1 } opn out.2 = some (nb, r')) :
    (∀ a, sideOkV t (fin e) opn a → sideOk p t (nb.toBound t) a) ∧
    (nb.special = true ↔ out.2.cls ≠ .normal) ∧
    (nb.open = true → opn = true ∨ nb.special = true ∨
      (match t with | .lower => (nb.raw : Rat) < e | .upper => e < (nb.raw : Rat))) := by
  cases t
  · exact adjustBoundary_spec_lower p hp opn out e hq nb r' h
  · exact adjustBoundary_spec_upper p hp opn out e hq nb r' h

/-- non-vacuity of the hypothesis: the outcome of `-100 + -100` on `int8_t`, rounding down, satisfies the C11
clauses w.r.t. the exact value −200 (by the C11 lemmas `add_tri`, `tri_ok`) … -/
example : OKQ (tyOfBits 8 true) cop (dirOf .lower)
    (PPLV.Checked.add (tyOfBits 8 true) cop 85 (-100) (-100) .down) (.fin (((-100 + -100 : Int)) : Rat)) :=
  PPLV.Checked.ok_toQ (e := .fin (-100 + -100))
    (PPLV.Checked.tri_ok (wf_cop (by decide)) (show _ ∧ _ by decide)
      (PPLV.Checked.add_tri (wf_cop (by decide)) (tyOK_of 8 true (by decide)).larger rfl .down (show _ ∧ _ by decide)
        (finite_cop.mpr (by decide)) (show _ ∧ _ by decide)))

/-- … and LOWER: `-100 + -100` on `int8_t` rounding down returns `V_GT_MINUS_INFINITY |
V_UNREPRESENTABLE` with the destination untouched; `adjust_boundary` makes the bound SPECIAL -/
example : chk (tyOfBits 8 true) .add .lower 85 (-100) (-100) = (85, PPLV.Checked.Result.V_GT_MINUS_INFINITY.orUnrep) ∧
    adjustBoundary Policy.integer .lower { raw := 85 } false PPLV.Checked.Result.V_GT_MINUS_INFINITY.orUnrep
      = some ({ raw := 85, special := true }, PPLV.Checked.Result.V_EQ) := by decide
/-- … and `100 + 100` rounding down saturates: stored 127 with `V_GT | V_OVERFLOW`, the bound stays finite -/
example : chk (tyOfBits 8 true) .add .lower 85 100 100 = (127, PPLV.Checked.Result.V_GT_SUP) ∧
    adjustBoundary Policy.integer .lower { raw := 127 } false PPLV.Checked.Result.V_GT_SUP
      = some ({ raw := 127 }, PPLV.Checked.Result.V_GT) := by decide
/-- the `default: PPL_UNREACHABLE` label: an UPPER-side code on the LOWER side -/
example : adjustBoundary Policy.integer .lower { raw := 0 } false PPLV.Checked.Result.V_LT_PLUS_INFINITY = none := by decide

/-! ## the C12 model under `Rounding.native` is C11 arithmetic + `adjust_boundary` -/

/-- **Every boundary function of the C12 model, instantiated with `Rounding.native ty`, computes exactly
what the checked operation of the C11 model followed by `adjust_boundary` computes** (`nbF`), on
boundaries of the type: value, SPECIAL (as the infinity of the side) and OPEN bit; in particular
`adjust_boundary` never reaches its `default:` label after `assign_r`, `neg_assign_r`, `add_assign_r`,
`sub_assign_r`, `mul_assign_r`, `div_assign_r` (all divisors ≠ 0, `min / -1` included). -/
theorem int_boundary_refines {ty : IntTy} {p : Policy} (ok : TyOK ty) (hp : p.storeSpecial = true)
    (tt t1 t2 : BT) {x1 x2 : NB} (h1 : x1.WF ty) (h2 : x2.WF ty) (s : Bool) (s1 s2 : Int) {to0 : Int}
    (h0 : ty.inRange to0) :
    let R := Rounding.native ty
    (nbAssign ty p tt t1 x1 s to0).map (NB.toBound tt) = some (bAssign p R tt p t1 (x1.toBound t1) s) ∧
    (nbNeg ty p tt t1 x1 to0).map (NB.toBound tt) = some (bNeg p R tt p t1 (x1.toBound t1)) ∧
    (nbAdd ty p tt t1 x1 t2 x2 to0).map (NB.toBound tt) = some (bAdd p R tt p t1 (x1.toBound t1) p t2 (x2.toBound t2)) ∧
    (nbSub ty p tt t1 x1 t2 x2 to0).map (NB.toBound tt) = some (bSub p R tt p t1 (x1.toBound t1) p t2 (x2.toBound t2)) ∧
    (nbMul ty p tt t1 x1 t2 x2 to0).map (NB.toBound tt) = some (bMul p R tt p t1 (x1.toBound t1) p t2 (x2.toBound t2)) ∧
    (nbMulZ ty p tt t1 x1 s1 t2 x2 s2 to0).map (NB.toBound tt)
      = some (bMulZ p R tt p t1 (x1.toBound t1) s1 p t2 (x2.toBound t2) s2) ∧
    (nbSetZero ty p tt s to0).map (NB.toBound tt) = some (setZero p R tt s) ∧
    ((x2.special = false → x2.raw ≠ 0) →
      (nbDiv ty p tt t1 x1 t2 x2 to0).map (NB.toBound tt) = some (bDiv p R tt p t1 (x1.toBound t1) p t2 (x2.toBound t2)) ∧
      (nbDivZ ty p tt t1 x1 s1 t2 x2 s2 to0).map (NB.toBound tt)
        = some (bDivZ p R tt p t1 (x1.toBound t1) s1 p t2 (x2.toBound t2) s2)) ∧
    (x1.special = false →
      (nbComplement ty p tt t1 x1 to0).map (NB.toBound tt) = some (bComplement p R tt p t1 (x1.toBound t1))) :=
  ⟨nbAssign_refines ok hp tt t1 h1 s h0, nbNeg_refines ok hp tt t1 h1 h0, nbAdd_refines ok hp tt t1 t2 h1 h2 h0,
   nbSub_refines ok hp tt t1 t2 h1 h2 h0, nbMul_refines ok hp tt t1 t2 h1 h2 h0,
   nbMulZ_refines ok hp tt t1 t2 h1 h2 s1 s2 h0, nbSetZero_refines ok hp tt s h0,
   fun hnz => ⟨nbDiv_refines ok hp tt t1 t2 h1 h2 hnz h0, nbDivZ_refines ok hp tt t1 t2 h1 h2 s1 s2 (fun _ => hnz) h0⟩,
   fun hsp => nbComplement_refines ok hp tt t1 h1 hsp h0⟩

/-- the native types of the library satisfy the standing assumption -/
theorem int_types_ok (bits : Nat) (signed : Bool) (h : 1 ≤ bits) : TyOK (tyOfBits bits signed) := tyOK_of bits signed h

example : TyOK (tyOfBits 8 true) ∧ TyOK (tyOfBits 64 false) ∧ (⟨-128, false, false⟩ : NB).WF (tyOfBits 8 true) :=
  ⟨int_types_ok 8 true (by decide), int_types_ok 64 false (by decide), show _ ∧ _ by decide⟩
example : nbDiv (tyOfBits 8 true) Policy.integer .lower .lower { raw := -128 } .upper { raw := -1 }
    = some { raw := 127 } := by decide
example : nbMul (tyOfBits 8 true) Policy.integer .upper .lower { raw := -128 } .lower { raw := -1 }
    = some { raw := 0, special := true } := by decide

/-- a native bound of the model comes from a native boundary: with `NB.ofBound`, the correspondence above
speaks about every bound that occurs in a computation on native intervals -/
theorem int_bound_is_native (ty : IntTy) (t : BT) (b : Bound) (h : NatB ty t b) :
    (NB.ofBound b).toBound t = b ∧ (NB.ofBound b).WF ty := ofBound_toBound h

/-- **native intervals are closed** under `assign`, `neg_assign`, `add_assign`, `sub_assign`, `mul_assign`,
`div_assign`, `join_assign`, `intersect_assign` of the model with `Rounding.native ty` -/
theorem int_native_closed {ty : IntTy} {p : Policy} (c : NatCfg ty p) (I J : Iv) (hI : NatIv ty I) (hJ : NatIv ty J) :
    let R := Rounding.native ty
    NatIv ty (assign p R p I) ∧ NatIv ty (negAssign p R I) ∧ NatIv ty (addAssign p R I J) ∧ NatIv ty (subAssign p R I J)
      ∧ NatIv ty (mulAssign false p R I J) ∧ NatIv ty (divAssign p R I J) ∧ NatIv ty (joinAssign p R I J)
      ∧ NatIv ty (intersectAssign p R I J) :=
  ⟨assign_native c hI, negAssign_native c hI, addAssign_native c hI hJ, subAssign_native c hI hJ,
   mulAssign_native c hI hJ, divAssign_native c hI hJ, joinAssign_native c hI hJ, intersectAssign_native c hI hJ⟩

example : NatCfg (tyOfBits 8 true) Policy.integer := ⟨by decide, by decide, rfl, rfl⟩

/-- **interval level**: `Interval::add_assign` / `sub_assign` / `neg_assign` of the model on non-empty native
intervals are, bound by bound, the checked operation of the C11 model on the stored integers followed by
`adjust_boundary` (the product and the quotient go through the sign tables of `Interval::mul_assign` /
`div_assign`, whose every entry is `mul_assign_z` / `div_assign_z`: `int_boundary_refines`). -/
theorem int_add_sub_neg_are_checked_arith {ty : IntTy} {p : Policy} (ok : TyOK ty) (c : NatCfg ty p) (I J : Iv)
    (hI : NatIv ty I) (hJ : NatIv ty J) (hIe : checkEmptyArg p I = false) (hJe : checkEmptyArg p J = false) :
    let R := Rounding.native ty
    (∃ l u, nbAdd ty p .lower .lower (NB.ofBound I.lo) .lower (NB.ofBound J.lo) = some l ∧
            nbAdd ty p .upper .upper (NB.ofBound I.hi) .upper (NB.ofBound J.hi) = some u ∧
            addAssign p R I J = ⟨l.toBound .lower, u.toBound .upper⟩) ∧
    (∃ l u, nbSub ty p .lower .lower (NB.ofBound I.lo) .upper (NB.ofBound J.hi) = some l ∧
            nbSub ty p .upper .upper (NB.ofBound I.hi) .lower (NB.ofBound J.lo) = some u ∧
            subAssign p R I J = ⟨l.toBound .lower, u.toBound .upper⟩) ∧
    (∃ l u, nbNeg ty p .lower .upper (NB.ofBound I.hi) = some l ∧ nbNeg ty p .upper .lower (NB.ofBound I.lo) = some u ∧
            negAssign p R I = ⟨l.toBound .lower, u.toBound .upper⟩) := by
  intro R
  obtain ⟨eIl, wIl⟩ := ofBound_toBound hI.1
  obtain ⟨eIu, wIu⟩ := ofBound_toBound hI.2
  obtain ⟨eJl, wJl⟩ := ofBound_toBound hJ.1
  obtain ⟨eJu, wJu⟩ := ofBound_toBound hJ.2
  have h0 : ty.inRange 0 := by
    have := cmin_le_cmax c.bits; exact this
  have hp := c.special
  refine ⟨?_, ?_, ?_⟩
  · have a := nbAdd_refines ok hp .lower .lower .lower wIl wJl h0
    have b := nbAdd_refines ok hp .upper .upper .upper wIu wJu h0
    rw [eIl, eJl] at a; rw [eIu, eJu] at b
    obtain ⟨l, hl, el⟩ := Option.map_eq_some_iff.mp a
    obtain ⟨u, hu, eu⟩ := Option.map_eq_some_iff.mp b
    refine ⟨l, u, hl, hu, ?_⟩
    simp [addAssign, hIe, hJe, infinitySign_zero c.noInf, el, eu, R]
  · have a := nbSub_refines ok hp .lower .lower .upper wIl wJu h0
    have b := nbSub_refines ok hp .upper .upper .lower wIu wJl h0
    rw [eIl, eJu] at a; rw [eIu, eJl] at b
    obtain ⟨l, hl, el⟩ := Option.map_eq_some_iff.mp a
    obtain ⟨u, hu, eu⟩ := Option.map_eq_some_iff.mp b
    refine ⟨l, u, hl, hu, ?_⟩
    simp [subAssign, hIe, hJe, infinitySign_zero c.noInf, el, eu, R]
  · have a := nbNeg_refines ok hp .lower .upper wIu h0
    have b := nbNeg_refines ok hp .upper .lower wIl h0
    rw [eIu] at a; rw [eIl] at b
    obtain ⟨l, hl, el⟩ := Option.map_eq_some_iff.mp a
    obtain ⟨u, hu, eu⟩ := Option.map_eq_some_iff.mp b
    refine ⟨l, u, hl, hu, ?_⟩
    simp [negAssign, hIe, el, eu, R]

/-! ## enclosure: every theorem of `Props/C12.lean` with `R := Rounding.native ty` -/

/-- negation, sum, difference, product, quotient of native-integer intervals enclose the exact result of
every pair of (rational) members -/
theorem int_op_encloses (ty : IntTy) (hb : 1 ≤ ty.bits) (pol : Policy) (op : IvOp) (I J : Iv) (a b : Rat)
    (ha : I.mem pol a) (hb' : J.mem pol b) (hd : defined op a b) :
    (IvOp.run false pol (Rounding.native ty) op I J).mem pol (op.exact a b) :=
  op_encloses pol _ (int_rounding_sound ty hb) op I J a b ha hb' hd

theorem int_neg_encloses (ty : IntTy) (hb : 1 ≤ ty.bits) (pol : Policy) (I : Iv) (a : Rat) (ha : I.mem pol a) :
    (negAssign pol (Rounding.native ty) I).mem pol (-a) :=
  int_op_encloses ty hb pol .neg I I a a ha ha trivial

theorem int_add_encloses (ty : IntTy) (hb : 1 ≤ ty.bits) (pol : Policy) (I J : Iv) (a b : Rat)
    (ha : I.mem pol a) (hb' : J.mem pol b) : (addAssign pol (Rounding.native ty) I J).mem pol (a + b) :=
  int_op_encloses ty hb pol .add I J a b ha hb' trivial

theorem int_sub_encloses (ty : IntTy) (hb : 1 ≤ ty.bits) (pol : Policy) (I J : Iv) (a b : Rat)
    (ha : I.mem pol a) (hb' : J.mem pol b) : (subAssign pol (Rounding.native ty) I J).mem pol (a - b) :=
  int_op_encloses ty hb pol .sub I J a b ha hb' trivial

theorem int_mul_encloses (ty : IntTy) (hb : 1 ≤ ty.bits) (pol : Policy) (I J : Iv) (a b : Rat)
    (ha : I.mem pol a) (hb' : J.mem pol b) : (mulAssign false pol (Rounding.native ty) I J).mem pol (a * b) :=
  int_op_encloses ty hb pol .mul I J a b ha hb' trivial

theorem int_div_encloses (ty : IntTy) (hb : 1 ≤ ty.bits) (pol : Policy) (I J : Iv) (a b : Rat)
    (ha : I.mem pol a) (hb' : J.mem pol b) (h0 : b ≠ 0) : (divAssign pol (Rounding.native ty) I J).mem pol (a / b) :=
  int_op_encloses ty hb pol .div I J a b ha hb' h0

theorem int_assign_encloses (ty : IntTy) (hb : 1 ≤ ty.bits) (pol : Policy) (I : Iv) (a : Rat) (h : I.mem pol a) :
    (assign pol (Rounding.native ty) pol I).mem pol a :=
  assign_copy_encloses pol _ (int_rounding_sound ty hb) I a h

theorem int_join_encloses (ty : IntTy) (hb : 1 ≤ ty.bits) (pol : Policy) (I J : Iv) (a : Rat)
    (h : I.mem pol a ∨ J.mem pol a) : (joinAssign pol (Rounding.native ty) I J).mem pol a :=
  join_encloses pol _ (int_rounding_sound ty hb) I J a h

theorem int_intersect_encloses (ty : IntTy) (hb : 1 ≤ ty.bits) (pol : Policy) (I J : Iv) (a : Rat)
    (hI : I.mem pol a) (hJ : J.mem pol a) : (intersectAssign pol (Rounding.native ty) I J).mem pol a :=
  intersect_encloses pol _ (int_rounding_sound ty hb) I J a hI hJ

theorem int_difference_encloses (ty : IntTy) (hb : 1 ≤ ty.bits) (pol : Policy) (I J : Iv) (a : Rat)
    (hI : I.mem pol a) (hJ : ¬ J.mem pol a) : (differenceAssign pol (Rounding.native ty) I J).mem pol a :=
  difference_encloses pol _ (int_rounding_sound ty hb) I J a hI hJ

theorem int_refine_existential_encloses (ty : IntTy) (hb : 1 ≤ ty.bits) (pol : Policy) (I J : Iv) (rel : Rel)
    (a b : Rat) (ha : I.mem pol a) (hb' : J.mem pol b) (hrel : rel.holds a b) :
    (refineExistential pol (Rounding.native ty) I rel J).mem pol a :=
  refine_existential_encloses pol _ (int_rounding_sound ty hb) I J rel a b ha hb' hrel

/-- emptiness: an empty operand gives the empty result, non-empty operands a non-empty one, and
`is_empty()` is decided by the bounds alone (`C12.is_empty_iff` does not depend on the rounding) -/
theorem int_op_empty (ty : IntTy) (pol : Policy) (op : IvOp) (I J : Iv) (hpe : pol.mayBeEmpty = true)
    (hI : I.lo.value ≠ pinf ∧ I.hi.value ≠ ninf) (hJ : J.lo.value ≠ pinf ∧ J.hi.value ≠ ninf)
    (h : (∀ a, ¬ I.mem pol a) ∨ (op ≠ .neg ∧ ∀ b, ¬ J.mem pol b)) :
    ∀ c, ¬ (IvOp.run false pol (Rounding.native ty) op I J).mem pol c :=
  op_empty pol _ false op I J hpe hI hJ h

theorem int_op_nonempty (ty : IntTy) (hb : 1 ≤ ty.bits) (pol : Policy) (op : IvOp) (I J : Iv) (a b : Rat)
    (ha : I.mem pol a) (hb' : J.mem pol b) (hd : defined op a b) :
    isEmpty pol (IvOp.run false pol (Rounding.native ty) op I J) = false :=
  op_nonempty pol _ (int_rounding_sound ty hb) op I J a b ha hb' hd

/-! ## non-vacuity on `int8_t` / `uint8_t` with the policy of `interfaced_boxes.hh` -/

/-- `[100,100] + [100,100]` on `int8_t`: the lower bound saturates at 127, the upper bound overflows to `+∞` -/
example : addAssign Policy.integer (Rounding.native (tyOfBits 8 true)) (Iv.closed 100 100) (Iv.closed 100 100)
    = ⟨⟨fin 127, false⟩, ⟨pinf, false⟩⟩ := by decide +kernel

example : (addAssign Policy.integer (Rounding.native (tyOfBits 8 true)) (Iv.closed 100 100) (Iv.closed 100 100)).mem
    Policy.integer (100 + 100) :=
  int_add_encloses (tyOfBits 8 true) (by decide) Policy.integer (Iv.closed 100 100) (Iv.closed 100 100) 100 100
    (by simp [Iv.mem, Iv.closed, lowerOk, upperOk, getOpen, Policy.integer])
    (by simp [Iv.mem, Iv.closed, lowerOk, upperOk, getOpen, Policy.integer])

/-- `[0,100] × [-100,-3]·2`: the image of seeded change S-C03-3 — `[-100,-3] * [2,2]` on `int8_t` is
`(-∞, -6]` -/
example : mulAssign false Policy.integer (Rounding.native (tyOfBits 8 true)) (Iv.closed (-100) (-3)) (Iv.closed 2 2)
    = ⟨⟨ninf, false⟩, ⟨fin (-6), false⟩⟩ := by decide +kernel

/-- `[3,3] - [5,5]` on `uint8_t` is `(-∞, 0]`; `[7,7] / [2,2]` is `[3,4]`; `[-128,-128] / [-1,-1]` on `int8_t`
is `[127, +∞)` -/
example : subAssign Policy.integer (Rounding.native (tyOfBits 8 false)) (Iv.closed 3 3) (Iv.closed 5 5)
    = ⟨⟨ninf, false⟩, ⟨fin 0, false⟩⟩ := by decide +kernel
example : divAssign Policy.integer (Rounding.native (tyOfBits 8 false)) (Iv.closed 7 7) (Iv.closed 2 2)
    = ⟨⟨fin 3, false⟩, ⟨fin 4, false⟩⟩ := by decide +kernel
example : divAssign Policy.integer (Rounding.native (tyOfBits 8 true)) (Iv.closed (-128) (-128)) (Iv.closed (-1) (-1))
    = ⟨⟨fin 127, false⟩, ⟨pinf, false⟩⟩ := by decide +kernel

end C12
