import PPLV.COTree.ProofsRowOnTreeFinal
import PPLV.COTree.ProofsRebSlot
import PPLV.Props.C16

/-!
# C16 stage 2c — `Sparse_Row` on the real tree denotes the abstract sparse row of stage 1

Model `PPLV/COTree/RowOnTree.lean`: `Sparse_Row` = `size_` + `CO_Tree`; its element operations
(Sparse_Row_inlines.hh:95-360, Sparse_Row.cc:128-210) are code-shaped compositions of the verified
tree operations (`insert`, hinted `insert`, `erase(key)`, `erase(iterator)`, `bisect`,
`bisect_near`, the key-shifting loops of CO_Tree.cc:178-215).
-/
namespace C16
open PPLV.COTree

/-- **bridge stage 1 ↔ stage 2.**  For every row whose tree is empty or satisfies the full tree
invariant, with all keys below `size()`: each of `insert(i,x)`, `insert(itr,i,x)`, `insert(i)`,
`insert(itr,i)`, `reset(i)`, `reset(iterator)`, `find` / `lower_bound` (with ANY valid hint),
`reset_after`, `add_zeroes_and_shift`, `delete_element_and_shift`, `swap_coefficients` run on the
real tree layout terminates, keeps validity, and the row it leaves (`TRow.toSRow` = `size_` + the
in-order listing of the tree) is exactly what the abstract operation of stage 1 (`RowOp.sparse`)
gives; the observers return what `SMap.find?` / `SMap.lowerBound` / `SMap.next` say. -/
theorem sparse_row_on_tree_refines : SparseRowOnTreeSpec := sparseRowOnTreeSpec

/-- the iterator returned by every insertion is on a slot `1 … reserved_size` of the result, never
on one of the two markers (callers such as `swap_coefficients` write through it) -/
theorem insert_returns_slot : InsertSlotSpec := insertSlotSpec

/-- a valid row on the tree is a well-formed abstract row -/
theorem tree_row_wf (r : TRow) (hv : r.Valid) : r.toSRow.WF := by
  obtain ⟨h, hb⟩ := hv
  refine ⟨?_, hb⟩
  rcases h with h | h
  · show SMap.Sorted r.tree.toList
    rw [h]; exact (SMap.sortedB_iff _).mp (by decide)
  · exact h.1.sorted

/-- **… hence dense ≡ sparse holds for the row on the real tree**: whenever a tree-level
operation realises the abstract operation `f`, reading the resulting tree densely is running the
dense algorithm on the dense reading of the old tree (stage 1 `dense_sparse_equiv` transported). -/
theorem tree_row_dense (r r' : TRow) (f : RowOp) (hv : r.Valid) (hp : f.pre r.toSRow)
    (h : r'.toSRow = f.sparse r.toSRow) : toDense r'.toSRow = f.dense (toDense r.toSRow) := by
  rw [h]; exact dense_sparse_equiv f _ (tree_row_wf r hv) hp

/-- non-vacuity: the empty row of size 6 is valid; so is the row after `insert(3, -6)` (by the theorem) -/
example : (⟨6, init 0⟩ : TRow).Valid := ⟨Or.inl rfl, fun p hp => by simp [Tree.toList, Tree.listRange, init] at hp⟩
example : ∃ r' it, (⟨6, init 0⟩ : TRow).insert 3 (-6) = some (r', it) ∧ r'.Valid ∧
    r'.toSRow = RowOp.sparse (⟨6, init 0⟩ : TRow).toSRow (.set 3 (-6)) := by
  obtain ⟨r', it, h1, h2, h3, _⟩ := sparse_row_on_tree_refines.1 ⟨6, init 0⟩ 3 (-6)
    ⟨Or.inl rfl, fun p hp => by simp [Tree.toList, Tree.listRange, init] at hp⟩ (by decide)
  exact ⟨r', it, h1, h2, h3⟩

end C16
