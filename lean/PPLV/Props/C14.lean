import PPLV.Alloc.ProofsFuel
import PPLV.Alloc.Precond

/-!
# C14 — exceptional exits are clean

Property theorems only.  `Run.<machine> … pre k` is `runWithFaultAt`: the protocol run on a heap
with `pre` older live blocks and the `k`-th allocation event failing, unwound, and every surviving
object destroyed; `initialLive pre` is the live set before the call.

A machine without suffix follows the code with the repairs of `/verif/fixes/fix_c14_*.diff`; the
`…AsWritten` machines are the historical witnesses of the code as it was found.

* proved for every input and every `k` (full strength): the copy constructor and `operator=` of
  `CO_Tree` (`init` + `copy_data_from`; `operator=` also leaves a valid tree), `CO_Tree(Iterator, n)`
  with its handler, `Dense_Row` copy / `resize` / assignment from a sparse row (copy aside and
  swap), `Swapping_Vector::push_back`, the `Safe_Ptr`-guarded clone of a PIP solution tree,
  `MIP_Problem::add_constraint`, the `MIP_Problem` constructors with their handler;
* historical witnesses (`_as_written_fails` on a concrete input, `_as_written_partial` under the
  exact side condition, exact count of the leaked blocks): `CO_Tree(Iterator, n)` without handler,
  the `MIP_Problem` constructors that call `add_constraint_helper` from their body, `CO_Tree::init`
  leaving the cached end iterators dangling, `Dense_Row::operator=(const Sparse_Row&)` releasing
  its vector twice.
-/

namespace C14
open PPLV.Alloc

/-! ## CO_Tree -/

/-- `CO_Tree(const CO_Tree&)` = `init` + `copy_data_from`: for every source tree and every failing
event nothing leaks, nothing is freed twice. -/
theorem no_leak_cotree_copy (x : List Bool) (pre k : Nat) :
    (Run.cotreeCopy x pre k).live = initialLive pre ∧ (Run.cotreeCopy x pre k).bad = 0
      ∧ (Run.cotreeCopy x pre k).valid = true := by
  have := cotreeCopy_clean x (Tracks.ofStart pre k)
  exact ⟨this.1.live, this.1.bad, this.2⟩

example : (Run.cotreeCopy [true, false, true, true] 3 3).thrown = true
    ∧ (Run.cotreeCopy [true, false, true, true] 3 3).live = [2, 1, 0] := by decide

/-- `CO_Tree::operator=`: no leak and no bad free for every receiver, source and `k`. -/
theorem no_leak_cotree_assign_as_written (m : Nat) (x : List Bool) (pre k : Nat) :
    (Run.cotreeAssignAsWritten m x pre k).live = initialLive pre ∧ (Run.cotreeAssignAsWritten m x pre k).bad = 0 := by
  have := cotreeAssignAsWritten_clean m x (Tracks.ofStart pre k)
  exact ⟨this.live, this.bad⟩

example : (Run.cotreeAssignAsWritten 2 [true, true] 1 3).thrown = true ∧ (Run.cotreeAssignAsWritten 2 [true, true] 1 3).live = [0] := by decide

/-- `CO_Tree::operator=` with the repaired `init` (fix_c14_cotree_init_cached_iterators): no leak,
no bad free **and a valid tree** for every receiver, every source and every `k`. -/
theorem no_leak_cotree_assign (m : Nat) (x : List Bool) (pre k : Nat) :
    (Run.cotreeAssign m x pre k).live = initialLive pre ∧ (Run.cotreeAssign m x pre k).bad = 0
      ∧ (Run.cotreeAssign m x pre k).valid = true := by
  have := cotreeAssign_clean m x (Tracks.ofStart pre k)
  exact ⟨this.live, this.bad, cotreeAssign_valid _ x _⟩

example : (Run.cotreeAssign 1 [true] 0 0).thrown = true ∧ (Run.cotreeAssign 1 [true] 0 0).valid = true := by decide

/-- Historical witness — as written, when `init` throws, `refresh_cached_iterators()` is not reached: the now empty tree keeps
end iterators into the array `destroy()` has just released (`begin() != end()` on an empty tree). -/
theorem valid_cotree_assign_as_written_fails : ¬ (∀ m x pre k, (Run.cotreeAssignAsWritten m x pre k).valid = true) := by
  intro h; have := h 1 [true] 0 0; revert this; decide

/-- Validity holds when the receiver was the empty tree (its cached iterators are null already). -/
theorem valid_cotree_assign_as_written_partial (x : List Bool) (pre k : Nat) :
    (Run.cotreeAssignAsWritten 0 x pre k).valid = true := by
  unfold Run.cotreeAssignAsWritten
  simp only [buildTree, if_true]
  exact cotreeAssignAsWritten_valid_of_empty x _

/-- `CO_Tree::insert` (fix_c14_cotree_insert_atomic: build the element first, count it afterwards):
no leak, no bad free, and a valid tree when the copy of the new element throws. -/
theorem no_leak_cotree_insert (m pre k : Nat) (hm : m ≠ 0) :
    (Run.cotreeInsert m pre k).live = initialLive pre ∧ (Run.cotreeInsert m pre k).bad = 0
      ∧ (Run.cotreeInsert m pre k).valid = true := by
  have := cotreeInsert_clean m hm (Tracks.ofStart pre k)
  exact ⟨this.1.live, this.1.bad, this.2⟩

example : (Run.cotreeInsert 3 1 0).thrown = true ∧ (Run.cotreeInsert 3 1 0).valid = true := by decide

/-- Historical witness — as written `++size_` preceded the construction: after a failed copy the
tree counts an element it does not have (the root of the double frees and crashes observed under
`Grid`, `Polyhedron`, `MIP_Problem` and `CO_Tree` itself). -/
theorem valid_cotree_insert_as_written_fails :
    ¬ (∀ m pre k, m ≠ 0 → (Run.cotreeInsertAsWritten m pre k).valid = true) := by
  intro h; have := h 3 0 0 (by decide); revert this; decide

/-- `CO_Tree(Iterator, n)` **leaks as written**: one element, the copy of that element fails
(events 0 and 1 are the two arrays of `init`): both arrays stay allocated. -/
theorem no_leak_cotree_iter_as_written_fails :
    ¬ (∀ n pre k, (Run.cotreeIterAsWritten n pre k).live = initialLive pre) := by
  intro h; have := h 1 0 2; revert this; decide

/-- Exactly: a fault in one of the `n` element copies leaks the two arrays and the `k - 2`
elements built so far — `k` blocks. -/
theorem cotree_iter_as_written_leaks_exactly (n pre k : Nat) (h2 : 2 ≤ k) (hk : k < n + 2) :
    (Run.cotreeIterAsWritten n pre k).thrown = true ∧ (Run.cotreeIterAsWritten n pre k).live.length = pre + k
      ∧ (Run.cotreeIterAsWritten n pre k).bad = 0 :=
  cotreeIterAsWritten_leaks n pre k h2 hk

/-- Outside that window (`n = 0`, fault inside `init`, or no fault) the constructor is clean.
Missing for the full statement: the fill loop has no handler (see `_guarded`). -/
theorem no_leak_cotree_iter_as_written_partial (n pre k : Nat) (hside : n = 0 ∨ k < 2 ∨ n + 2 ≤ k) :
    (Run.cotreeIterAsWritten n pre k).live = initialLive pre ∧ (Run.cotreeIterAsWritten n pre k).bad = 0 := by
  have t := Tracks.ofStart pre k
  by_cases hn : n = 0
  · subst hn
    have := cotreeIterAsWritten_clean_of_not_thrown 0 t (by simp [cotreeIterAsWritten, Outcome.ofHeap])
    exact ⟨this.live, this.bad⟩
  · rcases hside with h0 | hlt | hge
    · exact absurd h0 hn
    · have := cotreeIterAsWritten_clean_of_init_throws n t (cotInit_throws_lt2 n pre k hn hlt)
      exact ⟨this.live, this.bad⟩
    · have := cotreeIterAsWritten_clean_of_not_thrown n t (cotreeIterAsWritten_not_thrown n pre k hge)
      exact ⟨this.live, this.bad⟩

example : (Run.cotreeIterAsWritten 3 2 1).thrown = true ∧ (Run.cotreeIterAsWritten 3 2 1).live = [1, 0] := by decide

/-- With the handler `copy_data_from` has, the same constructor is clean for every `n`, `k`. -/
theorem no_leak_cotree_iter (n pre k : Nat) :
    (Run.cotreeIter n pre k).live = initialLive pre ∧ (Run.cotreeIter n pre k).bad = 0 := by
  have := cotreeIter_clean n (Tracks.ofStart pre k)
  exact ⟨this.live, this.bad⟩

example : (Run.cotreeIter 3 2 3).thrown = true ∧ (Run.cotreeIter 3 2 3).live = [1, 0] := by decide

/-! ## Dense_Row, Swapping_Vector -/

theorem no_leak_dense_copy (m cap pre k : Nat) :
    (Run.denseCopy m cap pre k).live = initialLive pre ∧ (Run.denseCopy m cap pre k).bad = 0 := by
  have := denseCopy_clean m cap (Tracks.ofStart pre k)
  exact ⟨this.live, this.bad⟩

example : (Run.denseCopy 3 5 2 2).thrown = true ∧ (Run.denseCopy 3 5 2 2).live = [1, 0] := by decide

theorem no_leak_dense_resize (m cap newSize pre k : Nat) :
    (Run.denseResize m cap newSize pre k).live = initialLive pre ∧ (Run.denseResize m cap newSize pre k).bad = 0 := by
  have := denseResize_clean m cap newSize (Tracks.ofStart pre k)
  exact ⟨this.live, this.bad⟩

example : (Run.denseResize 2 2 6 1 2).thrown = true ∧ (Run.denseResize 2 2 6 1 2).live = [0] := by decide

/-- `Dense_Row::operator=(const Sparse_Row&)`, reallocation branch, **frees twice as written**: the
allocation of `init` fails (`k = 0`) after `destroy()` has released the vector without resetting the
pointer; `~Impl()` releases it again. -/
theorem no_double_free_dense_assign_sparse_as_written_fails :
    ¬ (∀ m0 cap m pre k, (Run.denseAssignSparseAsWritten m0 cap m pre k).bad = 0) := by
  intro h; have := h 3 3 12 0 0; revert this; decide

/-- After fix_c14_dense_row_assign_sparse_double_free (`Dense_Row tmp(row); m_swap(tmp);`) the
reallocation branch is clean at full strength. -/
theorem no_double_free_dense_assign_sparse (m0 cap m pre k : Nat) :
    (Run.denseAssignSparse m0 cap m pre k).live = initialLive pre ∧ (Run.denseAssignSparse m0 cap m pre k).bad = 0 := by
  have := denseAssignSparse_clean m0 cap m (Tracks.ofStart pre k)
  exact ⟨this.live, this.bad⟩

example : (Run.denseAssignSparse 3 3 12 1 0).thrown = true ∧ (Run.denseAssignSparse 3 3 12 1 0).bad = 0
    ∧ (Run.denseAssignSparse 3 3 12 1 0).live = [0] := by decide

/-- …and is clean for every later fault position (and every shape of the two rows).  Missing for
the full statement: `destroy()` should null `impl.vec` (or `init` should run before `destroy`). -/
theorem no_double_free_dense_assign_sparse_as_written_partial (m0 cap m pre k : Nat) (hcap : cap ≠ 0) (hk : k ≠ 0) :
    (Run.denseAssignSparseAsWritten m0 cap m pre k).live = initialLive pre ∧ (Run.denseAssignSparseAsWritten m0 cap m pre k).bad = 0 := by
  have := denseAssignSparseAsWritten_clean_of_alloc m0 cap m (Tracks.ofStart pre k) hcap (by
    intro h1 hcd _
    rw [alloc_ok (Or.inr (by rw [hcd]; simpa [Heap.start] using hk))]
    simp)
  exact ⟨this.live, this.bad⟩

example : (Run.denseAssignSparseAsWritten 3 3 12 1 0).thrown = true ∧ (Run.denseAssignSparseAsWritten 3 3 12 1 0).bad = 1
    ∧ (Run.denseAssignSparseAsWritten 3 3 12 1 4).bad = 0 ∧ (Run.denseAssignSparseAsWritten 3 3 12 1 4).live = [0] := by decide

theorem no_leak_swapvec_push (m cap pre k : Nat) :
    (Run.svecPush m cap pre k).live = initialLive pre ∧ (Run.svecPush m cap pre k).bad = 0 := by
  have := svecPush_clean m cap (Tracks.ofStart pre k)
  exact ⟨this.live, this.bad⟩

example : (Run.svecPush 3 3 1 2).thrown = true ∧ (Run.svecPush 3 3 1 2).live = [0] := by decide

/-! ## PIP tree guard -/

/-- The `Safe_Ptr` guard: cloning any solution tree is clean for every failing event. -/
theorem no_leak_pip_clone (t : PNode) (pre k : Nat) :
    (Run.pipClone true t pre k).live = initialLive pre ∧ (Run.pipClone true t pre k).bad = 0 := by
  have := pipClone_clean t (Tracks.ofStart pre k)
  exact ⟨this.live, this.bad⟩

/-- Without the guard the first clone leaks when the second one throws (what the guard is for). -/
theorem no_leak_pip_clone_unguarded_fails :
    ¬ (∀ t pre k, (Run.pipClone false t pre k).live = initialLive pre) := by
  intro h; have := h (.dec .sol .sol) 0 4; revert this; decide

example : (Run.pipClone true (.dec .sol .sol) 0 4).thrown = true ∧ (Run.pipClone true (.dec .sol .sol) 0 4).live = [] := by decide

/-! ## MIP_Problem -/

/-- `add_constraint` on a live problem (the helper reserves before it allocates the copy). -/
theorem no_leak_mip_add (m cap pre k : Nat) :
    (Run.mipAdd m cap pre k).live = initialLive pre ∧ (Run.mipAdd m cap pre k).bad = 0 := by
  have := mipAdd_clean m cap (Tracks.ofStart pre k)
  exact ⟨this.live, this.bad⟩

example : (Run.mipAdd 2 2 1 1).thrown = true ∧ (Run.mipAdd 2 2 1 1).live = [0] := by decide

/-- `MIP_Problem(dim, cs, obj, mode)` **leaks as written**: the helper is called from the
constructor body, so the constraints copied before the failing one are never deleted
(two constraints; events: buffer, first copy, second copy — the second copy fails). -/
theorem no_leak_mip_ctor_as_written_fails : ¬ (∀ n pre k, (Run.mipCtorAsWritten n pre k).live = initialLive pre) := by
  intro h; have := h 2 0 2; revert this; decide

/-- The constructor is clean whenever it does not throw.  Missing for the full statement:
`~MIP_Problem()` does not run for a throwing constructor and nothing else deletes the copies. -/
theorem no_leak_mip_ctor_as_written_partial (n pre k : Nat) (hside : (Run.mipCtorAsWritten n pre k).thrown = false) :
    (Run.mipCtorAsWritten n pre k).live = initialLive pre ∧ (Run.mipCtorAsWritten n pre k).bad = 0 := by
  have := mipCtorAsWritten_clean_of_not_thrown n (Tracks.ofStart pre k) hside
  exact ⟨this.live, this.bad⟩

theorem no_leak_mip_ctor (n pre k : Nat) :
    (Run.mipCtor n pre k).live = initialLive pre ∧ (Run.mipCtor n pre k).bad = 0 := by
  have := mipCtor_clean n (Tracks.ofStart pre k)
  exact ⟨this.live, this.bad⟩

/-- The repaired copy constructor (fix_c14_mip_ctor_constraint_leak) is clean for every `n`, `k`. -/
theorem no_leak_mip_copy (n pre k : Nat) :
    (Run.mipCopy n pre k).live = initialLive pre ∧ (Run.mipCopy n pre k).bad = 0 := by
  have := mipCopy_clean n (Tracks.ofStart pre k)
  exact ⟨this.live, this.bad⟩

example : (Run.mipCopy 2 0 2).thrown = true ∧ (Run.mipCopy 2 0 2).live = [] := by decide

/-- Historical witness — the copy constructor had the same defect (one reservation, then `n` copies). -/
theorem no_leak_mip_copy_as_written_fails : ¬ (∀ n pre k, (Run.mipCopyAsWritten n pre k).live = initialLive pre) := by
  intro h; have := h 2 0 2; revert this; decide

theorem no_leak_mip_copy_as_written_partial (n pre k : Nat) (hside : (Run.mipCopyAsWritten n pre k).thrown = false) :
    (Run.mipCopyAsWritten n pre k).live = initialLive pre ∧ (Run.mipCopyAsWritten n pre k).bad = 0 := by
  have := mipCopyAsWritten_clean_of_not_thrown n (Tracks.ofStart pre k) hside
  exact ⟨this.live, this.bad⟩

example : (Run.mipCtorAsWritten 3 1 9).thrown = false ∧ (Run.mipCtorAsWritten 3 1 9).live = [0] := by decide

/-! ## rejected calls -/

/-- A call the precondition table rejects leaves the model pool unchanged and reports the
table's exception class (this is what the harness tests the library against). -/
theorem rejected_unchanged (op : Op) (a : Args) (pool : Pool) (e : ErrClass)
    (h : precond op a pool = .error e) : step op a pool = (.error e, pool) := by
  simp [step, h]

/-- An accepted call is not reported as rejected. -/
theorem accepted_runs (op : Op) (a : Args) (pool : Pool) (h : precond op a pool = .ok ()) :
    step op a pool = (.ok (), apply op a pool) := by
  simp [step, h]

/-- System overloads (`add_constraints(cs)`, `add_generators(gs)`, `add_congruences(cgs)`, … of every
domain): one ill-formed element **at any position** makes the model reject the call and leave the
receiver unchanged — whatever the elements before it would have done. -/
theorem rejected_unchanged_system {σ : Type} (applyAll : List ElemKind → σ → σ) (d : DomKind) (op : SysOp)
    (before after : List ElemKind) (e : ElemKind) (r : σ) (h : elemBad d op e = true) :
    stepSystem applyAll d op (before ++ e :: after) r = (.error .invalidArgument, r) := by
  have : precondSystem d op (before ++ e :: after) = .error .invalidArgument := by
    simp [precondSystem, bad, h]
  simp [stepSystem, this]

/-- …and a system without ill-formed element is applied. -/
theorem accepted_runs_system {σ : Type} (applyAll : List ElemKind → σ → σ) (d : DomKind) (op : SysOp)
    (es : List ElemKind) (r : σ) (h : ∀ e ∈ es, elemBad d op e = false) :
    stepSystem applyAll d op es r = (.ok (), applyAll es r) := by
  have : precondSystem d op es = .ok () := by
    have hany : es.any (elemBad d op) = false := by
      rw [List.any_eq_false]; intro e he; simp [h e he]
    simp [precondSystem, bad, hany]
  simp [stepSystem, this]

/-- What each repaired domain rejects in a constraint system (`add_constraints`, `add_recycled_constraints`). -/
theorem rejected_constraint_kinds (k : ElemKind) :
    (elemBad .bds .addConstraints k = true ↔ k = .strict ∨ k = .unsupported ∨ k = .dimIncompatible) ∧
    (elemBad .oct .addConstraints k = true ↔ k = .strict ∨ k = .unsupported ∨ k = .dimIncompatible) ∧
    (elemBad .box .addConstraints k = true ↔ k = .unsupported ∨ k = .dimIncompatible) ∧
    (elemBad .grid .addConstraints k = true ↔ k = .inequality ∨ k = .dimIncompatible) ∧
    (elemBad .polyC .addConstraints k = true ↔ k = .strict ∨ k = .dimIncompatible) ∧
    (elemBad .polyNNC .addConstraints k = true ↔ k = .dimIncompatible) := by
  cases k <;> decide

/-- …and in a congruence system: a proper congruence everywhere but in a grid. -/
theorem rejected_congruence_kinds (k : ElemKind) :
    (elemBad .bds .addCongruences k = true ↔ k = .proper ∨ k = .dimIncompatible) ∧
    (elemBad .oct .addCongruences k = true ↔ k = .proper ∨ k = .dimIncompatible) ∧
    (elemBad .box .addCongruences k = true ↔ k = .proper ∨ k = .dimIncompatible) ∧
    (elemBad .grid .addCongruences k = true ↔ k = .dimIncompatible) ∧
    (elemBad .polyC .addCongruences k = true ↔ k = .proper ∨ k = .dimIncompatible) := by
  cases k <;> decide

/-- BD shapes, octagons, boxes and grids **as repaired** (validate first: bcff4db, d118ccd, 2c68c03,
7218b6b): an unsupported / strict / proper / dimension-incompatible element at any position rejects
the call and nothing has been applied. -/
theorem rejected_unchanged_system_weakly_relational {σ : Type} (apply1 : ElemKind → σ → σ)
    (d : DomKind) (hd : d = .bds ∨ d = .oct ∨ d = .box ∨ d = .grid)
    (op : SysOp) (before after : List ElemKind) (e : ElemKind) (r : σ) (h : elemBad d op e = true) :
    stepSystem (applyEach apply1) d op (before ++ e :: after) r = (.error .invalidArgument, r) := by
  have _ := hd
  exact rejected_unchanged_system (applyEach apply1) d op before after e r h

/-- Historical witness: checking each element when it is met (the code as found) changes the
receiver before it throws, as soon as an accepted element precedes the offender. -/
theorem rejected_unchanged_system_as_written_fails :
    ¬ (∀ (d : DomKind) (op : SysOp) (es : List ElemKind) (r : Nat),
        (stepSystemAsWritten (fun _ n => n + 1) d op es r).1 = .error .invalidArgument →
        (stepSystemAsWritten (fun _ n => n + 1) d op es r).2 = r) := by
  intro h
  have := h .bds .addConstraints [.ok, .unsupported] 0 rfl
  revert this; decide

/-- The as-written overloads are clean exactly when the offender comes first (what the products still do
with their two components in sequence). -/
theorem rejected_unchanged_system_as_written_partial {σ : Type} (apply1 : ElemKind → σ → σ) (d : DomKind)
    (op : SysOp) (e : ElemKind) (after : List ElemKind) (r : σ) (h : elemBad d op e = true) :
    stepSystemAsWritten apply1 d op (e :: after) r = (.error .invalidArgument, r) := by
  simp [stepSystemAsWritten, h]

example : precondSystem .bds .addConstraints [.ok, .ok, .unsupported] = .error .invalidArgument := rfl
example : precondSystem .box .addConstraints [.ok, .strict, .ok] = .ok () := rfl
example : precondSystem .grid .refine [.ok, .dimIncompatible] = .error .invalidArgument := rfl
example : stepSystemAsWritten (fun _ n => n + 1) .oct .addCongruences [.ok, .ok, .proper] 0 = (.error .invalidArgument, 2) := rfl

example : precondSystem .polyC .addCongruences [.ok, .ok, .proper] = .error .invalidArgument := rfl
example : precondSystem .polyC .addCongruences [.proper, .ok, .ok] = .error .invalidArgument := rfl
example : precondSystem .polyNNC .addConstraints [.ok, .strict, .ok] = .ok () := rfl
example : precondSystem .grid .addConstraints [.ok, .inequality] = .error .invalidArgument := rfl

example : step .addConstraint { recv := 0, adim := 4 } [⟨.c, 3, false⟩] = (.error .invalidArgument, [⟨.c, 3, false⟩]) := rfl
example : step .addConstraint { recv := 0, adim := 3, strict := true } [⟨.c, 3, false⟩] = (.error .invalidArgument, [⟨.c, 3, false⟩]) := rfl
example : step .addSpaceDims { recv := 0, adim := 2 } [⟨.nnc, 3, false⟩] = (.ok (), [⟨.nnc, 5, false⟩]) := rfl
example : step .addSpaceDims { recv := 0, overflow := true } [⟨.nnc, 3, false⟩] = (.error .lengthError, [⟨.nnc, 3, false⟩]) := rfl
example : step .addGenerator { recv := 0, adim := 2, hasPoint := false } [⟨.c, 2, true⟩] = (.error .invalidArgument, [⟨.c, 2, true⟩]) := rfl

end C14
