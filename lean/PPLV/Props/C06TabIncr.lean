import PPLV.Solver.PendingProofsIncr
import PPLV.Props.C06Tab

/-!
# C06 stage 3 — the incremental call of `process_pending_constraints` (`solve; add_constraint; solve`)

What is proved: the whole chain AFTER the set-up, for any call (`lp_incremental_correct_partial`); that a complete
solve re-establishes the starting invariant of the next call (`solve_keeps_ready`); and the row-level facts the
incremental set-up relies on (`combine_against_base_keeps_solutions`, `split_columns_stay_opposite`,
`merge_split_keeps_projection`, `remove_column_is_zero_insertion`).
What is NOT proved (the exact gap): that the set-up of an incremental call (`first_pending > 0`: old canonical rows
padded with the new columns, re-merged variables, new rows combined against the base, flags computed at the
recomputed `last_generator`, artificial columns also for the rows made unfeasible by re-merging) produces
`Phase1Start`, `SetupGood` and a mapping laid out before the artificial columns — the three hypotheses of
`lp_incremental_correct_partial`, which are theorems for a fresh problem.  The exact replay covers this path
empirically (0 mismatches in 400 000 cases, ≈ half of the set-up calls incremental).
-/
namespace C06
open PPLV.Lin PPLV.Solver PPLV.Solver.Tab PPLV.Solver.Pend

/-- **the LP answers after any call of `process_pending_constraints`, given the hand-over facts of its set-up.**
    `_partial`: for an incremental call the hypotheses `hP`, `hG`, `hmap` are not derived from the state before the
    call (see the header); with them: the call ends UNSATISFIABLE and no point satisfies the constraints, or it ends
    SATISFIABLE, some point does, and `second_phase()` ends OPTIMIZED / UNBOUNDED with `last_generator` a point of the
    solution set that nothing beats / with arbitrarily good points. -/
theorem lp_incremental_correct_partial (fc : Chooser) (hfc : ChooserOK fc) (f1 f2 : Nat) (s sR s' : LPState) (b e : Nat)
    (hsetup : ppcSetup s = .phase1 s' b e) (hP : Phase1Start s' b e)
    (hG : SetupGood s.input_cs s.external_space_dim s' b)
    (hmap : ∃ nn j, MapOK s'.mapping nn s.external_space_dim j ∧ 1 + j ≤ artStart b s'.numCols)
    (hn : 0 < s.external_space_dim) (hl : ∀ c ∈ s.input_cs, c.coeffs.length ≤ s.external_space_dim)
    (hobj : s.obj.coeffs.length ≤ s.external_space_dim)
    (h : processPendingConstraints fc f1 s = some sR) :
    (sR.status = .UNSATISFIABLE ∧ ∀ x, ¬ Sat s.problem.cs x) ∨
    (sR.status = .SATISFIABLE ∧ (∃ x, Sat s.problem.cs x) ∧
      ∀ s2, secondPhase fc f2 sR = some s2 →
        (s2.status = .OPTIMIZED ∨ s2.status = .UNBOUNDED) ∧
        0 < s2.last_generator.den ∧ Sat s.problem.cs s2.last_generator.val ∧
        (s2.status = .OPTIMIZED → ∀ x, Sat s.problem.cs x →
          ¬ Better s.problem (s.problem.objVal x) (s.problem.objVal s2.last_generator.val)) ∧
        (s2.status = .UNBOUNDED → ∀ M : Rat, ∃ x, Sat s.problem.cs x ∧ Better s.problem (s.problem.objVal x) M)) := by
  have hsem : ∀ x, Sat s.problem.cs x ↔ csSem s.input_cs x := fun x => (csSem_iff_Sat s.input_cs x).symm
  rcases lp_incremental_chain fc hfc f1 f2 s sR s' b e hsetup hP hG hmap hn hl hobj h with ⟨a1, a2⟩ | ⟨a1, ⟨x0, hx0⟩, a3⟩
  · exact Or.inl ⟨a1, fun x hx => a2 x ((hsem x).mp hx)⟩
  · refine Or.inr ⟨a1, ⟨x0, (hsem x0).mpr hx0⟩, fun s2 h2 => ?_⟩
    obtain ⟨w1, w2, w3, w4, w5⟩ := a3 s2 h2
    exact ⟨w1, w2, (hsem _).mpr w3, fun hopt x hx => w4 hopt x ((hsem x).mp hx),
      fun hunb M => by obtain ⟨x, x1, x2⟩ := w5 hunb M; exact ⟨x, (hsem x).mpr x1, x2⟩⟩

-- the hypotheses are satisfiable: for a fresh problem they are theorems
example : ∃ s' b e, ppcSetup exFresh = .phase1 s' b e ∧ Phase1Start s' b e ∧
    SetupGood exFresh.input_cs exFresh.external_space_dim s' b := by
  have hF : Fresh exFresh := ⟨rfl, rfl, rfl, rfl, rfl, rfl, by decide, by decide⟩
  have h : ppcSetup exFresh = .phase1 (match ppcSetup exFresh with | .phase1 s' _ _ => s' | .done s' => s') 5 6 := rfl
  exact ⟨_, 5, 6, h, setup_phase1_canon exFresh hF rfl _ 5 6 h, (tableau_setup_solutions exFresh hF).2.1 _ 5 6 h⟩

/-- **a complete solve re-establishes the starting point of the next incremental call**: after `second_phase()`
    the state is still `Ready` (feasible basis; non-negative solutions = encodings of the solution set). -/
theorem solve_keeps_ready (fc : Chooser) (hfc : ChooserOK fc) (fuel : Nat) (cs : List ICon) (n : Nat)
    (s1 s2 : LPState) (hst : s1.status = .SATISFIABLE) (hR : Ready cs n s1)
    (hobj : s1.obj.coeffs.length ≤ n) (h : secondPhase fc fuel s1 = some s2) : Ready cs n s2 :=
  ready_after_secondPhase fc hfc fuel cs n s1 s2 hst hR hobj h

/-- the loop at :896–:900: combining a new row against the rows whose basic variable it mentions does not change
    where the new row vanishes, on the valuations satisfying those rows -/
theorem combine_against_base_keeps_solutions (T : List Row) (base : List Nat) (k m : Nat) (row : Row) (y : Val)
    (hold : ∀ j, j < m → j ≠ k → base.getD j 0 ≠ 0 → rowVal (T.getD j []) y = 0)
    (hnz : ∀ j, j < m → j ≠ k → base.getD j 0 ≠ 0 → (T.getD j []).get (base.getD j 0) ≠ 0) :
    rowVal (revFold m (fun j (row : Row) =>
      let bj := base.getD j 0
      if k != j && bj != 0 && row.get bj != 0 then linearCombine row (T.getD j []) bj else row) row) y = 0 ↔
    rowVal row y = 0 :=
  combine_against_base_solutions T base k m row y hold hnz

example : rowVal (linearCombine [-2, 1, 1, 0] [-4, 1, 0, 1] 1) (fun j => if j = 0 then 1 else if j = 1 then 4 else if j = 2 then -2 else 0) = 0 := by
  have : linearCombine [-2, 1, 1, 0] [-4, 1, 0, 1] 1 = [-2, 0, -1, 1] := by decide
  rw [this]; simp [rowVal, dot, Val.tail]

/-- the two columns of a split variable stay opposite in every row through `linear_combine` and `pivot` -/
theorem split_columns_stay_opposite (T : List Row) (e r p q : Nat) (x y : Row) (k : Nat)
    (hx : SplitPair x p q) (hy : SplitPair y p q) (h : ∀ i, i < T.length → SplitPair (T.getD i []) p q) :
    SplitPair (linearCombine x y k) p q ∧ ∀ i, i < (pivotRows T e r).length → SplitPair ((pivotRows T e r).getD i []) p q :=
  ⟨linearCombine_splitPair x y k p q hx hy, pivotRows_splitPair T e r p q h⟩

example : SplitPair [3, 2, -2, 1] 1 2 ∧ SplitPair (linearCombine [3, 2, -2, 1] [1, 1, -1, 0] 1) 1 2 := by
  constructor <;> (unfold SplitPair; decide)

/-- `merge_split_variable` loses no projected solution: with opposite columns `p`, `q`, replacing `(y_p, y_q)` by
    `(y_p − y_q, 0)` keeps the value of the row (and `y_p − y_q`, the projected coordinate) -/
theorem merge_split_keeps_projection (r : Row) (p q : Nat) (hpq : p ≠ q) (h : SplitPair r p q) (y : Val) :
    rowVal r ((y.update p (y p - y q)).update q 0) = rowVal r y :=
  split_collapse r p q hpq h y

/-- `remove_column(q)`: the shortened row evaluates like the row at the valuation with 0 inserted at `q` -/
theorem remove_column_is_zero_insertion (r : Row) (q : Nat) (y : Val) :
    rowVal (r.eraseIdx q) y = rowVal r (insertZero q y) :=
  rowVal_eraseIdx r q y

example : ([3, 2, -2, 1] : Row).eraseIdx 2 = [3, 2, 1] := rfl

end C06
