import PPLV.Solver.PendingProofsProto2
import PPLV.Props.C06Tab

/-!
# C06 stage 3 — the incremental call of `process_pending_constraints` (`solve; add_constraint; solve`)

`incremental_setup_hands_over`: the set-up of an incremental call (`first_pending > 0`: old canonical rows padded with
the new columns, re-merged variables, new rows combined against the base, flags computed at the recomputed
`last_generator`, artificial columns also for the rows made unfeasible by re-merging) produces `Phase1Start`,
`SetupGood` and a mapping laid out before the artificial columns — derived from the state before the call.
`lp_incremental_correct`: hence the whole incremental call and the following `second_phase()` answer correctly, and
re-establish the invariant `ReadyS` for the next incremental call.
`status_sound`: the full status protocol (invariant `ProtoInv`: solved status ⇒ nothing pending, truthful answers,
feasible canonical basis encoding the processed constraints), kept by the mutators and both solvers.
`solve_keeps_ready` and the row-level facts (`combine_against_base_keeps_solutions`, `split_columns_stay_opposite`,
`merge_split_keeps_projection`, `remove_column_is_zero_insertion`) are kept from the earlier stage.
Restriction: no space dimension added between the two solves (`internal_space_dim = external_space_dim`), at least
one variable.  Not covered: termination (fuel hypotheses).
-/
namespace C06
open PPLV.Lin PPLV.Solver PPLV.Solver.Tab PPLV.Solver.Pend

/-- **the set-up of an incremental call hands over what the first phase needs** — the three facts that were the
    hypotheses `hP`, `hG`, `hmap` of the former `lp_incremental_correct_partial`, now derived from the state BEFORE
    the call (`IncrStart s`: some variables, no new space dimension, the first `first_pending` constraints processed
    with `ReadyS`, i.e. canonical feasible tableau whose non-negative solutions are the encodings of their solution
    set): the tableau with the first-phase cost row is canonical and feasible (`Phase1Start`), the mapping lies
    before the artificial columns, and the non-negative solutions with artificials 0 are exactly the encodings of
    the solutions of ALL constraints (`SetupGood`).  Covers: recomputed `last_generator` and the "already satisfied"
    flags, `parse_constraints` on an old mapping, re-merging of split variables (rows made unfeasible get the first
    artificial columns), the old sign column turned into the first new column, new rows combined against the base,
    sign normalisation, artificial columns, the cost row re-expressed. -/
theorem incremental_setup_hands_over (s : LPState) (hS : IncrStart s) (s' : LPState) (b e : Nat)
    (h : ppcSetup s = .phase1 s' b e) :
    Phase1Start s' b e ∧
    (∃ nn j, MapOK s'.mapping nn s.external_space_dim j ∧ 1 + j ≤ artStart b s'.numCols) ∧
    SetupGood s.input_cs s.external_space_dim s' b :=
  let ⟨a, b', c, _⟩ := incr_setup s hS s' b e h
  ⟨a, b', c⟩

/-- **the LP answers after an INCREMENTAL call of `process_pending_constraints`** (`solve; add_constraint …;
    solve`), hypotheses about the state before the call only (`IncrStart s`, objective no longer than the space
    dimension, the fuel sufficed): the call ends UNSATISFIABLE and no point satisfies the constraints, or it does not,
    some point does, the invariant `ReadyS` holds again (so the next incremental call is covered too), and
    `second_phase()` ends OPTIMIZED / UNBOUNDED with `last_generator` a point of the solution set that nothing
    beats / with arbitrarily good points, again with `ReadyS`.
    Restriction (stated in `IncrStart`): no space dimension added since the last solve
    (`internal_space_dim = external_space_dim`) and at least one variable. -/
theorem lp_incremental_correct (fc : Chooser) (hfc : ChooserOK fc) (f1 f2 : Nat) (s sR : LPState) (hS : IncrStart s)
    (hobj : s.obj.coeffs.length ≤ s.external_space_dim)
    (h : processPendingConstraints fc f1 s = some sR) :
    (sR.status = .UNSATISFIABLE ∧ ∀ x, ¬ Sat s.problem.cs x) ∨
    (sR.status ≠ .UNSATISFIABLE ∧ (∃ x, Sat s.problem.cs x) ∧ ReadyS s.input_cs s.external_space_dim sR ∧
      ∀ s2, secondPhase fc f2 sR = some s2 →
        (s2.status = .OPTIMIZED ∨ s2.status = .UNBOUNDED) ∧
        0 < s2.last_generator.den ∧ Sat s.problem.cs s2.last_generator.val ∧
        (s2.status = .OPTIMIZED → ∀ x, Sat s.problem.cs x →
          ¬ Better s.problem (s.problem.objVal x) (s.problem.objVal s2.last_generator.val)) ∧
        (s2.status = .UNBOUNDED → ∀ M : Rat, ∃ x, Sat s.problem.cs x ∧ Better s.problem (s.problem.objVal x) M) ∧
        ReadyS s.input_cs s.external_space_dim s2) := by
  have hsem : ∀ x, Sat s.problem.cs x ↔ csSem s.input_cs x := fun x => (csSem_iff_Sat s.input_cs x).symm
  rcases Pend.lp_incremental_correct fc hfc f1 f2 s sR hS hobj h with ⟨a1, a2⟩ | ⟨a1, ⟨x0, hx0⟩, a3, a4⟩
  · exact Or.inl ⟨a1, fun x hx => a2 x ((hsem x).mp hx)⟩
  · refine Or.inr ⟨a1, ⟨x0, (hsem x0).mpr hx0⟩, a3, fun s2 h2 => ?_⟩
    obtain ⟨⟨w1, w2, w3, w4, w5⟩, w6⟩ := a4 s2 h2
    exact ⟨w1, w2, (hsem _).mpr w3, fun hopt x hx => w4 hopt x ((hsem x).mp hx),
      fun hunb M => by obtain ⟨x, x1, x2⟩ := w5 hunb M; exact ⟨x, (hsem x).mpr x1, x2⟩, w6⟩

/-- a state satisfying `IncrStart`: `x₀ + 1 ≥ 0` processed (x₀ split into columns 1, 2; the NEGATIVE part basic), and
    `x₀ ≥ 0` pending — the incremental call has to re-merge x₀, which makes row 0 unfeasible -/
def exIncr : LPState := { MergeExample.st with input_cs := MergeExample.cs0 ++ [⟨[1], 0, false⟩] }

theorem exIncr_start : IncrStart exIncr := by
  refine ⟨by decide, rfl, ?_, ?_⟩
  · intro c hc
    simp only [exIncr, MergeExample.cs0, List.cons_append, List.nil_append, List.mem_cons, List.not_mem_nil,
      or_false] at hc
    rcases hc with rfl | rfl <;> decide
  · have R := MergeExample.readyS
    exact ⟨⟨R.ready.tb, R.ready.map, R.ready.sound, R.ready.complete⟩, R.ncols, R.completeS⟩

-- the hypotheses are satisfiable, and the model really re-merges on this state
example : IncrStart exIncr ∧ (∃ s' b e, ppcSetup exIncr = .phase1 s' b e ∧ s'.mapping = [(0, 0), (1, 0)]) := by
  refine ⟨exIncr_start, ?_⟩
  have h : ppcSetup exIncr = .phase1 (match ppcSetup exIncr with | .phase1 s' _ _ => s' | .done s' => s') 3 4 := rfl
  exact ⟨_, 3, 4, h, rfl⟩

/-- **a complete solve re-establishes the starting point of the next incremental call**: after `second_phase()`
    the state is still `Ready` (feasible basis; non-negative solutions = encodings of the solution set). -/
theorem solve_keeps_ready (fc : Chooser) (hfc : ChooserOK fc) (fuel : Nat) (cs : List ICon) (n : Nat)
    (s1 s2 : LPState) (hst : s1.status = .SATISFIABLE) (hR : Ready cs n s1)
    (hobj : s1.obj.coeffs.length ≤ n) (h : secondPhase fc fuel s1 = some s2) : Ready cs n s2 :=
  ready_after_secondPhase fc hfc fuel cs n s1 s2 hst hR hobj h

/-- the loop at :896–:900: combining a new row against the rows whose basic variable it mentions does not change
    where the new row vanishes, on the valuations satisfying those rows -/
theorem combine_against_base_keeps_solutions (T : List Row) (base : List Nat) (k m : Nat) (row : Row) (y : Val)
    (hold : ∀ j, j < m → j ≠ k → base.getD j 0 ≠ 0 → rowVal (T.getD j []) y = 0)
    (hnz : ∀ j, j < m → j ≠ k → base.getD j 0 ≠ 0 → (T.getD j []).get (base.getD j 0) ≠ 0) :
    rowVal (revFold m (fun j (row : Row) =>
      let bj := base.getD j 0
      if k != j && bj != 0 && row.get bj != 0 then linearCombine row (T.getD j []) bj else row) row) y = 0 ↔
    rowVal row y = 0 :=
  combine_against_base_solutions T base k m row y hold hnz

example : rowVal (linearCombine [-2, 1, 1, 0] [-4, 1, 0, 1] 1) (fun j => if j = 0 then 1 else if j = 1 then 4 else if j = 2 then -2 else 0) = 0 := by
  have : linearCombine [-2, 1, 1, 0] [-4, 1, 0, 1] 1 = [-2, 0, -1, 1] := by decide
  rw [this]; simp [rowVal, dot, Val.tail]

/-- the two columns of a split variable stay opposite in every row through `linear_combine` and `pivot` -/
theorem split_columns_stay_opposite (T : List Row) (e r p q : Nat) (x y : Row) (k : Nat)
    (hx : SplitPair x p q) (hy : SplitPair y p q) (h : ∀ i, i < T.length → SplitPair (T.getD i []) p q) :
    SplitPair (linearCombine x y k) p q ∧ ∀ i, i < (pivotRows T e r).length → SplitPair ((pivotRows T e r).getD i []) p q :=
  ⟨linearCombine_splitPair x y k p q hx hy, pivotRows_splitPair T e r p q h⟩

example : SplitPair [3, 2, -2, 1] 1 2 ∧ SplitPair (linearCombine [3, 2, -2, 1] [1, 1, -1, 0] 1) 1 2 := by
  constructor <;> (unfold SplitPair; decide)

/-- `merge_split_variable` loses no projected solution: with opposite columns `p`, `q`, replacing `(y_p, y_q)` by
    `(y_p − y_q, 0)` keeps the value of the row (and `y_p − y_q`, the projected coordinate) -/
theorem merge_split_keeps_projection (r : Row) (p q : Nat) (hpq : p ≠ q) (h : SplitPair r p q) (y : Val) :
    rowVal r ((y.update p (y p - y q)).update q 0) = rowVal r y :=
  split_collapse r p q hpq h y

/-- `remove_column(q)`: the shortened row evaluates like the row at the valuation with 0 inserted at `q` -/
theorem remove_column_is_zero_insertion (r : Row) (q : Nat) (y : Val) :
    rowVal (r.eraseIdx q) y = rowVal r (insertZero q y) :=
  rowVal_eraseIdx r q y

example : ([3, 2, -2, 1] : Row).eraseIdx 2 = [3, 2, 1] := rfl

/-- **the status protocol, in full** (`ProtoInv s`, `PPLV/Solver/PendingProofsProto.lean`): between calls,
    (i) a status SATISFIABLE / UNBOUNDED / OPTIMIZED promises that nothing is pending, (ii) the constraints fit the
    space dimension, (iii) UNSATISFIABLE is truthful (no point satisfies the constraints), (iv) OPTIMIZED / UNBOUNDED
    is truthful (`last_generator` is a point of the solution set that nothing beats / there are arbitrarily good
    points), and (v) unless UNSATISFIABLE the problem was never solved, or the first `first_pending` constraints are
    processed with a canonical FEASIBLE basis whose non-negative solutions are the encodings of their solution set
    (`ReadyS`) — the link "solved status ⇒ the basis is feasible" beyond the status transitions of `C06.status_transitions`.
    The invariant holds for `MIP_Problem(m)`; every mutator keeps it (`add_constraint` / `set_objective_function`
    for arguments within the space dimension); `is_lp_satisfiable()` keeps it, answers `false` only with
    UNSATISFIABLE and an empty solution set, `true` only with a solved status, a non-empty solution set and `ReadyS`
    for ALL constraints — whether this is the first solve or an incremental one; `second_phase()` keeps it and ends
    OPTIMIZED / UNBOUNDED truthfully.
    Hypotheses of the two solver clauses: at least one variable, the objective fits, the fuel sufficed, and — for
    `is_lp_satisfiable()` — no space dimension was added since the last solve (`NoNewDims`). -/
theorem status_sound (fc : Chooser) (hfc : ChooserOK fc) : ProtoSpec fc := protoSpec fc hfc

-- the hypotheses of the solver clauses are satisfiable: a never-solved problem with one constraint …
example : ProtoInv (addConstraint (LPState.new 1) ⟨[1], 1, false⟩) ∧
    NoNewDims (addConstraint (LPState.new 1) ⟨[1], 1, false⟩) :=
  ⟨((proto_mutators _ (proto_new 1) ⟨[1], 1, false⟩ ⟨[], 0⟩ true 0 .TEXTBOOK).1 (by decide)),
    Or.inl (mutators_untouched _ (new_untouched 1) ⟨[1], 1, false⟩ ⟨[], 0⟩ true 0 .TEXTBOOK).1⟩
-- … and a solved one with a pending constraint (`exIncr`: third alternative of the invariant)
example : 0 < exIncr.internal_space_dim ∧ exIncr.internal_space_dim ≤ exIncr.external_space_dim ∧
    ReadyS (exIncr.input_cs.take exIncr.first_pending) exIncr.internal_space_dim exIncr :=
  ⟨by decide, by decide, exIncr_start.ready⟩

end C06
