import PPLV.WR.Trans2LhsProofsPre
import PPLV.WR.Trans2LhsProofsRefineVar
import PPLV.WR.TransOct2LhsProofsPre
import Mathlib.Tactic.IntervalCases
import Mathlib.Tactic.NormNum
/-!
# C03 — `generalized_affine_image(lhs, relsym, rhs)`, `generalized_affine_preimage(lhs, relsym, rhs)` of
`BD_Shape<T>` and `Octagonal_Shape<T>`, and `BD_Shape`'s private `refine(var, relsym, expr, den)`

Statements about the code-shaped models of `PPLV/WR/Trans2Lhs.lean` (`/repo/src/BD_Shape_templates.hh:5974,
6254, 3645`) and `PPLV/WR/TransOct2Lhs.lean` (`/repo/src/Octagonal_Shape_templates.hh:6533, 7116`), for every
bound type: an arbitrary `R : Rnd` with `R.Sound`.  `lhs(y) = linEval el y n + bl`, `rhs(y) = linEval er y n + br`.

The specification is the one of PPL and of the K1 reference operators `RefPoly.genAffineImage2`,
`RefPoly.genAffinePreimage2` (`PPLV/Lin/Ops.lean`, `generalized_affine_image2_spec`,
`generalized_affine_preimage2_spec` in `Props/C02.lean`):

* image: every `x'` that agrees with a point `x` of the shape on the variables NOT occurring in `lhs` and has
  `lhs(x') relsym rhs(x)` is in the result;
* preimage: every `x` for which some point `x'` of the shape agrees with it off the variables of `lhs` and has
  `lhs(x') relsym rhs(x)` is in the result.

Side conditions (`_partial`), ONLY those of the delegates:
* `t_lhs == 1` (`lhs == a*v + b`): `CoeffExact R er` (the delegate converts the coefficients of `rhs`); for the
  preimage also `|a|` representable (`hcd` of stage 3's `generalized_affine_preimage_sound_partial`);
* preimage, `lhs` general and sharing a variable with `rhs` (additional dimension, `affine_image(new_var, lhs)`):
  `CoeffExact R el`;
* octagons: `HalfFiniteOn R.up` of the closed matrix where a delegate halves unary cells; and, for the
  preimage with `t_lhs == 1`, the hypothesis `lhsOctDelegateOK` INHERITED from the delegate
  `generalized_affine_preimage(v, relsym', rhs - b_lhs, a)`: the private `Octagonal_Shape::refine` writes the wrong
  cell in its `GREATER_OR_EQUAL`, `pinf_count == 1`, `pinf_index > var`, coefficient `== denominator` branch
  (`Octagonal_Shape_templates.hh:5111`, open finding KF-C03-75/76, sub-worker A's `octGenAffinePreimage_sound`).
The constant case, the disjoint case and the simplified `#if 1` computation need NO side condition
(`_special`).  `hel`/`her` (coefficients beyond the space dimension are zero) is the encoding convention,
it is what the dimension check of the code enforces.
-/
set_option linter.unusedVariables false
set_option linter.unnecessarySeqFocus false
set_option linter.unusedTactic false
set_option linter.unreachableTactic false
namespace C03
open PPLV.WR
open PPLV.WR.ExtRat (fin pinf)

/-- `lhs` has exactly one variable (`t_lhs == 1`) -/
abbrev lhsT (el : ℕ → ℤ) (n : ℕ) : ℕ := exprT el (lastNonzero el n)
/-- `lhs` and `rhs` share a variable, as the code decides it -/
abbrev lhsCommon (el er : ℕ → ℤ) (n : ℕ) : Bool :=
  lhsHaveCommonVar el er (min (lhsSpaceDim el n) (lhsSpaceDim er n))
/-- `|a_lhs|` is representable in `T` (the side condition `hcd` of stage 3's preimage theorems) -/
abbrev lhsDenExact (R : Rnd) (el : ℕ → ℤ) (n : ℕ) : Prop :=
  R.up ((absI (el (lastNonzero el n - 1)) : ℤ) : ℚ) = fin ((absI (el (lastNonzero el n - 1)) : ℤ) : ℚ)

/-! ## `BD_Shape<T>::generalized_affine_image(lhs, relsym, rhs)` -/

theorem bds_generalized_affine_image_lhs_sound_partial (R : Rnd) (hR : R.Sound) {n : ℕ} (m : DBM n)
    (closed : Bool) (rel : RelSym) (el : ℕ → ℤ) (bl : ℤ) (er : ℕ → ℤ) (br : ℤ)
    (hc : lhsT el n = 1 → CoeffExact R er) :
    ∀ x ∈ DBM.γ m, ∀ x' : ℕ → ℚ, (∀ i, i < n → el i = 0 → x' i = x i) →
      RelSym.holds rel (linEval el x' n + bl) (linEval er x n + br) →
      ∃ m', bdsLhsGenAffineImage R closed rel el bl er br m = some m' ∧ x' ∈ γB n m' :=
  fun x hx x' hag hrel => bdsLhsGenAffineImage_sound hR m closed rel bl br hc hx hag hrel

/-- `lhs` constant or with at least two variables (disjoint from `rhs` or not): no side condition -/
theorem bds_generalized_affine_image_lhs_sound_special (R : Rnd) (hR : R.Sound) {n : ℕ} (m : DBM n)
    (closed : Bool) (rel : RelSym) (el : ℕ → ℤ) (bl : ℤ) (er : ℕ → ℤ) (br : ℤ) (ht : lhsT el n ≠ 1) :
    ∀ x ∈ DBM.γ m, ∀ x' : ℕ → ℚ, (∀ i, i < n → el i = 0 → x' i = x i) →
      RelSym.holds rel (linEval el x' n + bl) (linEval er x n + br) →
      ∃ m', bdsLhsGenAffineImage R closed rel el bl er br m = some m' ∧ x' ∈ γB n m' :=
  bds_generalized_affine_image_lhs_sound_partial R hR m closed rel el bl er br (fun h => absurd h ht)

theorem bds_generalized_affine_image_lhs_sound_mpq {n : ℕ} (m : DBM n) (closed : Bool) (rel : RelSym)
    (el : ℕ → ℤ) (bl : ℤ) (er : ℕ → ℤ) (br : ℤ) :
    ∀ x ∈ DBM.γ m, ∀ x' : ℕ → ℚ, (∀ i, i < n → el i = 0 → x' i = x i) →
      RelSym.holds rel (linEval el x' n + bl) (linEval er x n + br) →
      ∃ m', bdsLhsGenAffineImage Rnd.exact closed rel el bl er br m = some m' ∧ x' ∈ γB n m' :=
  bds_generalized_affine_image_lhs_sound_partial _ Rnd.exact_sound m closed rel el bl er br
    (fun _ => Rnd.exact_coeff er)

theorem bds_generalized_affine_image_lhs_sound_mpz {n : ℕ} (m : DBM n) (closed : Bool) (rel : RelSym)
    (el : ℕ → ℤ) (bl : ℤ) (er : ℕ → ℤ) (br : ℤ) :
    ∀ x ∈ DBM.γ m, ∀ x' : ℕ → ℚ, (∀ i, i < n → el i = 0 → x' i = x i) →
      RelSym.holds rel (linEval el x' n + bl) (linEval er x n + br) →
      ∃ m', bdsLhsGenAffineImage Rnd.ceil closed rel el bl er br m = some m' ∧ x' ∈ γB n m' :=
  bds_generalized_affine_image_lhs_sound_partial _ Rnd.ceil_sound m closed rel el bl er br
    (fun _ => Rnd.ceil_coeff er)

/-! ## `BD_Shape<T>::generalized_affine_preimage(lhs, relsym, rhs)` -/

theorem bds_generalized_affine_preimage_lhs_sound_partial (R : Rnd) (hR : R.Sound) {n : ℕ} (m : DBM n)
    (closed : Bool) (rel : RelSym) (el : ℕ → ℤ) (bl : ℤ) (er : ℕ → ℤ) (br : ℤ)
    (hel : ∀ i, n ≤ i → el i = 0) (her : ∀ i, n ≤ i → er i = 0)
    (hc1 : lhsT el n = 1 → CoeffExact R er ∧ lhsDenExact R el n)
    (hc2 : lhsT el n = 2 → lhsCommon el er n = true → CoeffExact R el) :
    ∀ x x' : ℕ → ℚ, x' ∈ DBM.γ m → (∀ i, i < n → el i = 0 → x' i = x i) →
      RelSym.holds rel (linEval el x' n + bl) (linEval er x n + br) →
      ∃ m', bdsLhsGenAffinePreimage R closed rel el bl er br m = some m' ∧ x ∈ γB n m' :=
  fun x x' hx' hag hrel => bdsLhsGenAffinePreimage_sound hR m closed rel bl br hel her hc1 hc2 hx' hag hrel

/-- `lhs` constant, or general with variables disjoint from `rhs`: no side condition -/
theorem bds_generalized_affine_preimage_lhs_sound_special (R : Rnd) (hR : R.Sound) {n : ℕ} (m : DBM n)
    (closed : Bool) (rel : RelSym) (el : ℕ → ℤ) (bl : ℤ) (er : ℕ → ℤ) (br : ℤ)
    (hel : ∀ i, n ≤ i → el i = 0) (her : ∀ i, n ≤ i → er i = 0)
    (ht : lhsT el n = 0 ∨ (lhsT el n = 2 ∧ lhsCommon el er n = false)) :
    ∀ x x' : ℕ → ℚ, x' ∈ DBM.γ m → (∀ i, i < n → el i = 0 → x' i = x i) →
      RelSym.holds rel (linEval el x' n + bl) (linEval er x n + br) →
      ∃ m', bdsLhsGenAffinePreimage R closed rel el bl er br m = some m' ∧ x ∈ γB n m' :=
  bds_generalized_affine_preimage_lhs_sound_partial R hR m closed rel el bl er br hel her
    (fun h => by rcases ht with h0 | ⟨h2, _⟩ <;> omega)
    (fun h hcm => by
      rcases ht with h0 | ⟨_, hf⟩
      · omega
      · rw [hf] at hcm; exact absurd hcm (by decide))

theorem bds_generalized_affine_preimage_lhs_sound_mpq {n : ℕ} (m : DBM n) (closed : Bool) (rel : RelSym)
    (el : ℕ → ℤ) (bl : ℤ) (er : ℕ → ℤ) (br : ℤ)
    (hel : ∀ i, n ≤ i → el i = 0) (her : ∀ i, n ≤ i → er i = 0) :
    ∀ x x' : ℕ → ℚ, x' ∈ DBM.γ m → (∀ i, i < n → el i = 0 → x' i = x i) →
      RelSym.holds rel (linEval el x' n + bl) (linEval er x n + br) →
      ∃ m', bdsLhsGenAffinePreimage Rnd.exact closed rel el bl er br m = some m' ∧ x ∈ γB n m' :=
  bds_generalized_affine_preimage_lhs_sound_partial _ Rnd.exact_sound m closed rel el bl er br hel her
    (fun _ => ⟨Rnd.exact_coeff er, rfl⟩) (fun _ _ => Rnd.exact_coeff el)

theorem bds_generalized_affine_preimage_lhs_sound_mpz {n : ℕ} (m : DBM n) (closed : Bool) (rel : RelSym)
    (el : ℕ → ℤ) (bl : ℤ) (er : ℕ → ℤ) (br : ℤ)
    (hel : ∀ i, n ≤ i → el i = 0) (her : ∀ i, n ≤ i → er i = 0) :
    ∀ x x' : ℕ → ℚ, x' ∈ DBM.γ m → (∀ i, i < n → el i = 0 → x' i = x i) →
      RelSym.holds rel (linEval el x' n + bl) (linEval er x n + br) →
      ∃ m', bdsLhsGenAffinePreimage Rnd.ceil closed rel el bl er br m = some m' ∧ x ∈ γB n m' :=
  bds_generalized_affine_preimage_lhs_sound_partial _ Rnd.ceil_sound m closed rel el bl er br hel her
    (fun _ => ⟨Rnd.ceil_coeff er, by show upCeil _ = _; simp only [upCeil]; rw [Rat.ceil_intCast]⟩)
    (fun _ _ => Rnd.ceil_coeff el)

/-! ## the private `BD_Shape<T>::refine(var, relsym, expr, den)` -/

/-- precondition of the code: `expr.coefficient(var) == 0`.  Every point of the matrix with
`x_var relsym expr(x)/den` stays. -/
theorem bds_refine_var_sound_partial (R : Rnd) (hR : R.Sound) {n : ℕ} (m : Mat) (var : ℕ) (hvar : var < n)
    (rel : RelSym) (e : ℕ → ℤ) (b den : ℤ) (hden : den ≠ 0) (hev : e var = 0) (hc : CoeffExact R e) :
    ∀ x ∈ γB n m, RelSym.holds rel (x var) ((linEval e x n + b) / den) →
      x ∈ γB n (bdsRefineVar R n var rel e b den m) :=
  fun x hx ht => bdsRefineVar_sound hR hvar hc hev hden hx rel ht

/-- `expr == b` or `expr == den*w + b`: only `add_dbm_constraint` writes — entries only decrease -/
theorem bds_refine_var_entries_decrease_special (R : Rnd) (n var : ℕ) (rel : RelSym) (e : ℕ → ℤ) (b den : ℤ)
    (m : Mat) (hsp : exprT e (lastNonzero e n) = 0 ∨
      (exprT e (lastNonzero e n) = 1 ∧ e (lastNonzero e n - 1) = den)) :
    MLe (bdsRefineVar R n var rel e b den m) m :=
  bdsRefineVar_mle_special R n var rel e b den m hsp

/-- in the general case "entries only decrease" is FALSE: `deduce_v_minus_u_bounds` overwrites the cell of
`x₀ - x₁ ≤ 0` by `10` (`refine(x₀, ≤, x₁ + x₂, 1)` on `0 ≤ xᵢ ≤ 10, x₀ ≤ x₁`).  No point satisfying the
relation is lost (`bds_refine_var_sound_partial`), and the only caller forgets `var` right afterwards. -/
theorem bds_refine_var_entries_decrease_fails :
    ¬ (∀ (R : Rnd) (n var : ℕ) (rel : RelSym) (e : ℕ → ℤ) (b den : ℤ) (m : Mat),
        MLe (bdsRefineVar R n var rel e b den m) m) := by
  intro h
  have := h Rnd.exact 3 0 .le (fun i => if i = 1 ∨ i = 2 then 1 else 0) 0 1 lhsExLoose.e 2 1
  rw [bdsRefineVar_not_decreasing.1, bdsRefineVar_not_decreasing.2] at this
  exact absurd (ExtRat.fin_le_fin.1 this) (by norm_num)

/-! ## `Octagonal_Shape<T>`: the branches without a delegate (no side condition) -/

theorem oct_generalized_affine_image_lhs_sound_special (R : Rnd) (hR : R.Sound) {n : ℕ} (m : OctM n)
    (closed : Bool) (rel : RelSym) (el : ℕ → ℤ) (bl : ℤ) (er : ℕ → ℤ) (br : ℤ) (ht : lhsT el n ≠ 1) :
    ∀ x ∈ OctM.γ m, ∀ x' : ℕ → ℚ, (∀ i, i < n → el i = 0 → x' i = x i) →
      RelSym.holds rel (linEval el x' n + bl) (linEval er x n + br) →
      ∃ m', octLhsGenAffineImage R closed rel el bl er br m = some m' ∧ x' ∈ γO n m' := by
  intro x hx x' hag hrel
  obtain ⟨m1, h1, hx1⟩ := octCloseFirst_sound hR.up_le closed m hx
  have key : ∃ m', octLhsGenAffineImageCore R n rel el bl er br m1 = some m' ∧ x' ∈ γO n m' := by
    by_cases h0 : exprT el (lastNonzero el n) = 0
    · exact octLhsImage_t0_sound hR rel bl br h0 hx1 hag hrel
    · exact octLhsImage_t2_sound hR rel bl br h0 ht hx1 hag hrel
  obtain ⟨m', hm', hx'⟩ := key
  exact ⟨m', by simp [octLhsGenAffineImage, h1, hm'], hx'⟩

theorem oct_generalized_affine_preimage_lhs_sound_special (R : Rnd) (hR : R.Sound) {n : ℕ} (m : OctM n)
    (closed : Bool) (rel : RelSym) (el : ℕ → ℤ) (bl : ℤ) (er : ℕ → ℤ) (br : ℤ)
    (ht : lhsT el n = 0 ∨ (lhsT el n = 2 ∧ lhsCommon el er n = false)) :
    ∀ x x' : ℕ → ℚ, x' ∈ OctM.γ m → (∀ i, i < n → el i = 0 → x' i = x i) →
      RelSym.holds rel (linEval el x' n + bl) (linEval er x n + br) →
      ∃ m', octLhsGenAffinePreimage R closed rel el bl er br m = some m' ∧ x ∈ γO n m' := by
  intro x x' hx' hag hrel
  obtain ⟨m1, h1, hx1⟩ := octCloseFirst_sound hR.up_le closed m hx'
  have key : ∃ m', octLhsGenAffinePreimageCore R n rel el bl er br m1 = some m' ∧ x ∈ γO n m' := by
    rcases ht with h0 | ⟨h2, hcom⟩
    · exact octLhsPre_t0_sound hR rel bl br h0 hx1 hag hrel
    · exact octLhsPre_disjoint_sound hR rel bl br (by unfold lhsT at h2; omega) (by unfold lhsT at h2; omega)
        hcom hx1 hag hrel
  obtain ⟨m', hm', hx2⟩ := key
  exact ⟨m', by simp [octLhsGenAffinePreimage, h1, hm'], hx2⟩

/-! ## `Octagonal_Shape<T>`: all branches -/

/-- the side condition of sub-worker A's `octGenAffinePreimage_sound` for the delegate call
`generalized_affine_preimage(v, relsym', rhs - b_lhs, a)`: it excludes the open finding KF-C03-75/76
(`Octagonal_Shape_templates.hh:5111`) -/
abbrev lhsOctDelegateOK (rel : RelSym) (el er : ℕ → ℤ) (n : ℕ) : Prop :=
  lhsNewRelSym rel (el (lastNonzero el n - 1)) ≠ .ge ∨
    ∀ u, lastNonzero el n - 1 < u → er u ≠ el (lastNonzero el n - 1)

theorem oct_generalized_affine_image_lhs_sound_partial (R : Rnd) (hR : R.Sound) {n : ℕ} (m : OctM n)
    (closed : Bool) (rel : RelSym) (el : ℕ → ℤ) (bl : ℤ) (er : ℕ → ℤ) (br : ℤ)
    (hc : lhsT el n = 1 → CoeffExact R er)
    (hh : lhsT el n = 1 → ∀ m', octCloseFirst R.up closed m = some m' → HalfFiniteOn R.up m') :
    ∀ x ∈ OctM.γ m, ∀ x' : ℕ → ℚ, (∀ i, i < n → el i = 0 → x' i = x i) →
      RelSym.holds rel (linEval el x' n + bl) (linEval er x n + br) →
      ∃ m', octLhsGenAffineImage R closed rel el bl er br m = some m' ∧ x' ∈ γO n m' :=
  fun x hx x' hag hrel => octLhsGenAffineImage_sound hR m closed rel bl br hc hh hx hag hrel

theorem oct_generalized_affine_image_lhs_sound_mpq {n : ℕ} (m : OctM n) (closed : Bool) (rel : RelSym)
    (el : ℕ → ℤ) (bl : ℤ) (er : ℕ → ℤ) (br : ℤ) :
    ∀ x ∈ OctM.γ m, ∀ x' : ℕ → ℚ, (∀ i, i < n → el i = 0 → x' i = x i) →
      RelSym.holds rel (linEval el x' n + bl) (linEval er x n + br) →
      ∃ m', octLhsGenAffineImage Rnd.exact closed rel el bl er br m = some m' ∧ x' ∈ γO n m' :=
  oct_generalized_affine_image_lhs_sound_partial _ Rnd.exact_sound m closed rel el bl er br
    (fun _ => Rnd.exact_coeff er) (fun _ m' _ => halfFiniteOn_exact m')

theorem oct_generalized_affine_image_lhs_sound_mpz {n : ℕ} (m : OctM n) (closed : Bool) (rel : RelSym)
    (el : ℕ → ℤ) (bl : ℤ) (er : ℕ → ℤ) (br : ℤ) :
    ∀ x ∈ OctM.γ m, ∀ x' : ℕ → ℚ, (∀ i, i < n → el i = 0 → x' i = x i) →
      RelSym.holds rel (linEval el x' n + bl) (linEval er x n + br) →
      ∃ m', octLhsGenAffineImage Rnd.ceil closed rel el bl er br m = some m' ∧ x' ∈ γO n m' :=
  oct_generalized_affine_image_lhs_sound_partial _ Rnd.ceil_sound m closed rel el bl er br
    (fun _ => Rnd.ceil_coeff er) (fun _ m' _ => halfFiniteOn_ceil m')

theorem oct_generalized_affine_preimage_lhs_sound_partial (R : Rnd) (hR : R.Sound) {n : ℕ} (m : OctM n)
    (closed : Bool) (rel : RelSym) (el : ℕ → ℤ) (bl : ℤ) (er : ℕ → ℤ) (br : ℤ)
    (hel : ∀ i, n ≤ i → el i = 0) (her : ∀ i, n ≤ i → er i = 0)
    (hc1 : lhsT el n = 1 → CoeffExact R er ∧ lhsDenExact R el n ∧ lhsOctDelegateOK rel el er n)
    (hc2 : lhsT el n = 2 → lhsCommon el er n = true → CoeffExact R el)
    (hh : lhsT el n = 1 ∨ (lhsT el n = 2 ∧ lhsCommon el er n = true) →
      ∀ m', octCloseFirst R.up closed m = some m' → HalfFiniteOn R.up m') :
    ∀ x x' : ℕ → ℚ, x' ∈ OctM.γ m → (∀ i, i < n → el i = 0 → x' i = x i) →
      RelSym.holds rel (linEval el x' n + bl) (linEval er x n + br) →
      ∃ m', octLhsGenAffinePreimage R closed rel el bl er br m = some m' ∧ x ∈ γO n m' :=
  fun x x' hx' hag hrel => octLhsGenAffinePreimage_sound hR m closed rel bl br hel her hc1 hc2 hh hx' hag hrel

/-- `Octagonal_Shape<mpz_class>`: only the inherited exclusion of KF-C03-75/76 remains -/
theorem oct_generalized_affine_preimage_lhs_sound_mpz_partial {n : ℕ} (m : OctM n) (closed : Bool) (rel : RelSym)
    (el : ℕ → ℤ) (bl : ℤ) (er : ℕ → ℤ) (br : ℤ)
    (hel : ∀ i, n ≤ i → el i = 0) (her : ∀ i, n ≤ i → er i = 0)
    (hok : lhsT el n = 1 → lhsOctDelegateOK rel el er n) :
    ∀ x x' : ℕ → ℚ, x' ∈ OctM.γ m → (∀ i, i < n → el i = 0 → x' i = x i) →
      RelSym.holds rel (linEval el x' n + bl) (linEval er x n + br) →
      ∃ m', octLhsGenAffinePreimage Rnd.ceil closed rel el bl er br m = some m' ∧ x ∈ γO n m' :=
  oct_generalized_affine_preimage_lhs_sound_partial _ Rnd.ceil_sound m closed rel el bl er br hel her
    (fun h => ⟨Rnd.ceil_coeff er, by show upCeil _ = _; simp only [upCeil]; rw [Rat.ceil_intCast], hok h⟩)
    (fun _ _ => Rnd.ceil_coeff el) (fun _ m' _ => halfFiniteOn_ceil m')

theorem oct_generalized_affine_preimage_lhs_sound_mpq_partial {n : ℕ} (m : OctM n) (closed : Bool) (rel : RelSym)
    (el : ℕ → ℤ) (bl : ℤ) (er : ℕ → ℤ) (br : ℤ)
    (hel : ∀ i, n ≤ i → el i = 0) (her : ∀ i, n ≤ i → er i = 0)
    (hok : lhsT el n = 1 → lhsOctDelegateOK rel el er n) :
    ∀ x x' : ℕ → ℚ, x' ∈ OctM.γ m → (∀ i, i < n → el i = 0 → x' i = x i) →
      RelSym.holds rel (linEval el x' n + bl) (linEval er x n + br) →
      ∃ m', octLhsGenAffinePreimage Rnd.exact closed rel el bl er br m = some m' ∧ x ∈ γO n m' :=
  oct_generalized_affine_preimage_lhs_sound_partial _ Rnd.exact_sound m closed rel el bl er br hel her
    (fun h => ⟨Rnd.exact_coeff er, rfl, hok h⟩)
    (fun _ _ => Rnd.exact_coeff el) (fun _ m' _ => halfFiniteOn_exact m')

/-! ## non-vacuity: `0 ≤ x₀ ≤ 3`, `x₁ - x₀ ≤ 1`, `x₁ ≥ 0`, the point `(1, 2)` -/

def lhsExT : DBM 2 := DBM.ofLists 2
  [[pinf, fin 3, pinf],
   [fin 0, pinf, fin 1],
   [fin 0, pinf, pinf]]

def lhsPtT : ℕ → ℚ := fun i => if i = 0 then 1 else 2

theorem lhsPtT_mem : lhsPtT ∈ DBM.γ lhsExT := by
  intro i j hi hj
  interval_cases i <;> interval_cases j <;>
    simp [lhsExT, DBM.ofLists, Mat.diagDown_apply, Mat.ofLists, DBM.val, lhsPtT] <;> norm_num

/-- `x₀ + x₁` -/
def lhsE01 : ℕ → ℤ := fun i => if i < 2 then 1 else 0
/-- `x₀` -/
def lhsE0 : ℕ → ℤ := fun i => if i = 0 then 1 else 0
/-- `2·x₁` -/
def lhsE1x2 : ℕ → ℤ := fun i => if i = 1 then 2 else 0

theorem lhsE01_t : lhsT lhsE01 2 = 2 := by decide +kernel
theorem lhsE1x2_t : lhsT lhsE1x2 2 = 1 := by decide +kernel

-- the `Constraint` object `-2·x₀ - 2·x₁ == 4·x₀ + 2`: `-6·x₀ - 2·x₁ - 2 = 0` is divided by the gcd and
-- sign-normalised to `3·x₀ + x₁ + 1 = 0`
example : (let c := lhsRelConstraint .eq 2 (fun i => if i < 2 then -2 else 0) 0 1 (fun i => if i = 0 then 4 else 0) 2
    (c.1, c.2.1 0, c.2.1 1, c.2.2.1, c.2.2.2)) = (2, 3, 1, 1, CKind.eq) := by decide +kernel

-- image, `lhs` general sharing `x₀` with `rhs` (`#if 1`: forget only): `x₀' + x₁' ≤ x₀ + 2` from `(1, 2)` to `(0, 1)`
example : ∃ m', bdsLhsGenAffineImage Rnd.ceil false .le lhsE01 0 lhsE0 2 lhsExT = some m' ∧
    (fun i => if i = 0 then (0 : ℚ) else 1) ∈ γB 2 m' :=
  bds_generalized_affine_image_lhs_sound_special _ Rnd.ceil_sound lhsExT false .le lhsE01 0 lhsE0 2
    (by rw [lhsE01_t]; decide) lhsPtT lhsPtT_mem _
    (by intro i hi h; interval_cases i <;> simp [lhsE01] at h)
    (by simp [RelSym.holds, linEval, lhsE01, lhsE0, lhsPtT])

-- image, `lhs == 2·x₁ - 1` (delegate with denominator 2): `2·x₁' - 1 ≥ x₀ + 1` from `(1, 2)` to `(1, 5)`
example : ∃ m', bdsLhsGenAffineImage Rnd.ceil false .ge lhsE1x2 (-1) lhsE0 1 lhsExT = some m' ∧
    (fun i => if i = 0 then (1 : ℚ) else 5) ∈ γB 2 m' :=
  bds_generalized_affine_image_lhs_sound_mpz lhsExT false .ge lhsE1x2 (-1) lhsE0 1 lhsPtT lhsPtT_mem _
    (by intro i hi h; interval_cases i <;> simp [lhsE1x2, lhsPtT] at h ⊢)
    (by simp [RelSym.holds, linEval, lhsE1x2, lhsE0, lhsPtT] <;> norm_num)

-- the delegate over the integers: `2·x₁' ≤ x₀ + 2` with `x₀ ≤ 3` gives `x₁' ≤ ⌈5/2⌉ = 3`
example : ((bdsLhsGenAffineImage Rnd.ceil false .le lhsE1x2 0 lhsE0 2 lhsExT).map fun m => m 0 2) = some (fin 3) := by
  decide +kernel

-- preimage through the additional dimension: `x₀' + x₁' ≤ x₀ + 2` with `x' = (1, 2)` in the shape: `x = (1, 7)`
example : ∃ m', bdsLhsGenAffinePreimage Rnd.ceil false .le lhsE01 0 lhsE0 2 lhsExT = some m' ∧
    (fun i => if i = 0 then (1 : ℚ) else 7) ∈ γB 2 m' :=
  bds_generalized_affine_preimage_lhs_sound_mpz lhsExT false .le lhsE01 0 lhsE0 2
    (by intro i hi; simp [lhsE01]; omega) (by intro i hi; simp [lhsE0]; omega) _ lhsPtT lhsPtT_mem
    (by intro i hi h; interval_cases i <;> simp [lhsE01] at h)
    (by simp [RelSym.holds, linEval, lhsE01, lhsE0, lhsPtT] <;> norm_num)

-- the result of that preimage: `x₀ ≥ -2` (the minimum of `x₀' + x₁'` on the shape is `0`), nothing else
example : ((bdsLhsGenAffinePreimage Rnd.exact false .le lhsE01 0 lhsE0 2 lhsExT).map fun m => (m 1 0, m 0 1)) =
    some (fin 2, pinf) := by decide +kernel

-- `refine(x₁, ≥, x₀ - 1, 1)` keeps `(1, 2)`
example : lhsPtT ∈ γB 2 (bdsRefineVar Rnd.ceil 2 1 .ge lhsE0 (-1) 1 lhsExT.e) :=
  bds_refine_var_sound_partial _ Rnd.ceil_sound lhsExT.e 1 (by norm_num) .ge lhsE0 (-1) 1 (by norm_num)
    (by simp [lhsE0]) (Rnd.ceil_coeff _) lhsPtT (by rw [← DBM.γ_eq]; exact lhsPtT_mem)
    (by simp [RelSym.holds, linEval, lhsE0, lhsPtT] <;> norm_num)

/-! ### octagon: `x₀ + x₁ ≤ 3`, `x₀ - x₁ ≤ 0`, the point `(3/2, 3/2)` -/

def lhsExOc : OctM 2 := OctM.ofLists 2
  [[pinf, pinf],
   [pinf, pinf],
   [fin 0, pinf, pinf, pinf],
   [fin 3, pinf, pinf, pinf]]

def lhsPtOc : ℕ → ℚ := fun _ => 3/2

theorem lhsPtOc_mem : lhsPtOc ∈ OctM.γ lhsExOc := by
  intro i j hi hj
  interval_cases i <;> simp only [rowSize] at hj <;> interval_cases j <;>
    simp [lhsExOc, OctM.ofLists, Mat.diagUp_apply, Mat.ofLists, OctM.oval, lhsPtOc] <;> norm_num

example : ∃ m', octLhsGenAffineImage Rnd.ceil false .le lhsE01 0 lhsE0 2 lhsExOc = some m' ∧
    (fun i => if i = 0 then (0 : ℚ) else 1) ∈ γO 2 m' :=
  oct_generalized_affine_image_lhs_sound_special _ Rnd.ceil_sound lhsExOc false .le lhsE01 0 lhsE0 2
    (by rw [lhsE01_t]; decide) lhsPtOc lhsPtOc_mem _
    (by intro i hi h; interval_cases i <;> simp [lhsE01] at h)
    (by simp [RelSym.holds, linEval, lhsE01, lhsE0, lhsPtOc] <;> norm_num)

-- the delegate: `2·x₁' - 1 ≥ x₀ + 1` from `(3/2, 3/2)` to `(3/2, 5)`
example : ∃ m', octLhsGenAffineImage Rnd.ceil false .ge lhsE1x2 (-1) lhsE0 1 lhsExOc = some m' ∧
    (fun i => if i = 0 then (3/2 : ℚ) else 5) ∈ γO 2 m' :=
  oct_generalized_affine_image_lhs_sound_mpz lhsExOc false .ge lhsE1x2 (-1) lhsE0 1 lhsPtOc lhsPtOc_mem _
    (by intro i hi h; interval_cases i <;> simp [lhsE1x2, lhsPtOc] at h ⊢)
    (by simp [RelSym.holds, linEval, lhsE1x2, lhsE0, lhsPtOc] <;> norm_num)

-- preimage through the additional dimension: `x₀' + x₁' ≤ x₀ + 2` with `x' = (3/2, 3/2)`: `x = (1, 7)`
example : ∃ m', octLhsGenAffinePreimage Rnd.ceil false .le lhsE01 0 lhsE0 2 lhsExOc = some m' ∧
    (fun i => if i = 0 then (1 : ℚ) else 7) ∈ γO 2 m' :=
  oct_generalized_affine_preimage_lhs_sound_mpz_partial lhsExOc false .le lhsE01 0 lhsE0 2
    (by intro i hi; simp [lhsE01]; omega) (by intro i hi; simp [lhsE0]; omega)
    (by intro h; rw [lhsE01_t] at h; exact absurd h (by decide)) _ lhsPtOc lhsPtOc_mem
    (by intro i hi h; interval_cases i <;> simp [lhsE01] at h)
    (by simp [RelSym.holds, linEval, lhsE01, lhsE0, lhsPtOc] <;> norm_num)

-- the delegate of the preimage: `2·x₁' ≤ x₀ + 2` with `x' = (3/2, 3/2)`: `x = (3/2, -4)`; `relsym' = ≤`
example : ∃ m', octLhsGenAffinePreimage Rnd.ceil false .le lhsE1x2 0 lhsE0 2 lhsExOc = some m' ∧
    (fun i => if i = 0 then (3/2 : ℚ) else -4) ∈ γO 2 m' :=
  oct_generalized_affine_preimage_lhs_sound_mpz_partial lhsExOc false .le lhsE1x2 0 lhsE0 2
    (by intro i hi; simp [lhsE1x2]; omega) (by intro i hi; simp [lhsE0]; omega)
    (by intro _; left; decide +kernel) _ lhsPtOc lhsPtOc_mem
    (by intro i hi h; interval_cases i <;> simp [lhsE1x2, lhsPtOc] at h ⊢)
    (by simp [RelSym.holds, linEval, lhsE1x2, lhsE0, lhsPtOc] <;> norm_num)

end C03
