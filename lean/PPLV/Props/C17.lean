import PPLV.Wrap.ProofsBoxDom
import PPLV.Wrap.ProofsInterval
import PPLV.Wrap.ProofsBox
import PPLV.Wrap.ProofsInteger

/-!
# C17 — integer-aware operators never discard an integer point of the concrete semantics

`Pt = ℕ → ℚ`.  `Spec.wrapImages cfg v` is the set of wrapped images of the point `v` (integer on the
wrapped dimensions): wrapped coordinates when overflow wraps, the coordinate itself if in range and any
in-range integer otherwise when overflow is undefined, the point itself if in range when overflow is
impossible; the guard `cs_p` is applied to the image.  `Dom` is the interface the template
`Implementation::wrap_assign<PSET>` (src/wrap_assign.hh) is written against, with one soundness
hypothesis per member function; `wrapAssignG fix d cfg P` transliterates `wrap_assign`, `wrap_assign_ind`,
`wrap_assign_col`.

* `wrap_sound` is stated for `wrapAssign`, the code with the repair of KF-C17-3 (`goto set_full_range` for
  the variable at which collective wrapping becomes too complex; fixes/fix_c17_wrap_collective_too_complex.diff).
  The variant before the repair (`wrapAssignBeforeFix`: that variable is neither recorded nor given the
  full range) is kept as a named historical witness: `wrap_sound_before_fix_fails` (concrete witness on
  rational boxes), `wrap_sound_before_fix_partial` (every run in which the branch is not executed — ghost
  flag `wrapTrips`), `…_individually_partial`, `…_notWraps_partial`.  Which variant the library implements
  is measured by the check on every run: the symbolic traces of the real template equal one of the two.
* `Interval::wrap_assign` (hence `Box::wrap_assign`): `interval_wrap_sound` for the code (the comparison
  `u >= lower()` since the fix of defect 12 in /repo, 7a40b81); `interval_wrap_defect12_before_fix`
  (`[0,256]` to unsigned 8 bits gave `{0}`) and `interval_wrap_sound_before_fix_partial` document the repaired defect.
* `Box::wrap_assign` without guard: `box_wrap_sound` for the code with the repair of KF-C17-10;
  `box_wrap_sound_before_fix_partial` / `_fails` (`Z_Box`, overflow undefined, upper boundary `max + 1`) for
  the variant before it; the check measures the variant.
* `drop_sound`: the clause the harness judges `drop_some_non_integer_points` with, and the two
  tightening steps of `Polyhedron::drop_some_non_integer_points` satisfy it.
* `containsIntegerPointRef_sound`: the reference for `contains_integer_point()`.
-/
namespace C17
open PPLV.Lin PPLV.Wrap

/-- the wrapped images of `v` -/
def Spec.wrapImages (cfg : WrapCfg) (v : Pt) : Set Pt := {v' | PPLV.Wrap.Spec.WrapImage cfg v v'}

/-- the concretisation as a set of points -/
abbrev _root_.PPLV.Wrap.Dom.γs (d : Dom) (P : d.D) : Set Pt := {v | d.γ P v}

/-! ## the generic algorithm -/

/-- **wrap_sound** (Appendix B): for every abstract domain, width, signedness, overflow mode, guard,
threshold, individual/collective wrapping, every wrapped image of an integer point of the argument lies
in the concretisation of the result.  `wrapAssign` is the code with the repair of KF-C17-3; the check
measures on every run (symbolic traces of the real template) whether the library is this variant. -/
theorem wrap_sound (d : Dom) (P : d.D) (cfg : WrapCfg) (v : Pt) (hv : v ∈ d.γs P)
    (_hint : ∀ i ∈ cfg.vars, isInt (v i)) :
    ∀ v' ∈ Spec.wrapImages cfg v, v' ∈ d.γs (wrapAssign d cfg P) := by
  intro v' hv'
  apply wrapAssignG_sound hv' true P hv
  unfold wrapAssignG
  simp only []
  split
  · rfl
  · split
    · rfl
    · simp only []; rw [foldl_tripped_fix]; rfl

/-- the variant before the repair, every run that does not execute the unrepaired branch (the ghost
flag `wrapTrips`).  Missing for full strength: the runs of `wrap_sound_before_fix_fails`. -/
theorem wrap_sound_before_fix_partial (d : Dom) (P : d.D) (cfg : WrapCfg) (v : Pt) (hv : v ∈ d.γs P)
    (_hint : ∀ i ∈ cfg.vars, isInt (v i)) (htrip : wrapTrips d cfg P = false) :
    ∀ v' ∈ Spec.wrapImages cfg v, v' ∈ d.γs (wrapAssignBeforeFix d cfg P) :=
  fun _ hv' => wrapAssignG_sound hv' false P hv htrip

/-- before the repair: individual wrapping never executes the unrepaired branch -/
theorem wrap_sound_before_fix_individually_partial (d : Dom) (P : d.D) (cfg : WrapCfg) (v : Pt)
    (hv : v ∈ d.γs P) (hint : ∀ i ∈ cfg.vars, isInt (v i)) (hind : cfg.individually = true) :
    ∀ v' ∈ Spec.wrapImages cfg v, v' ∈ d.γs (wrapAssignBeforeFix d cfg P) := by
  apply wrap_sound_before_fix_partial d P cfg v hv hint
  unfold wrapTrips wrapAssignG
  simp only []
  split
  · rfl
  · split
    · rfl
    · simp only []; rw [foldl_tripped_ind false hind]; rfl

/-- before the repair: `OVERFLOW_UNDEFINED` and `OVERFLOW_IMPOSSIBLE` never execute the unrepaired branch -/
theorem wrap_sound_before_fix_notWraps_partial (d : Dom) (P : d.D) (cfg : WrapCfg) (v : Pt)
    (hv : v ∈ d.γs P) (hint : ∀ i ∈ cfg.vars, isInt (v i)) (ho : cfg.o ≠ .wraps) :
    ∀ v' ∈ Spec.wrapImages cfg v, v' ∈ d.γs (wrapAssignBeforeFix d cfg P) := by
  apply wrap_sound_before_fix_partial d P cfg v hv hint
  unfold wrapTrips wrapAssignG
  simp only []
  split
  · rfl
  · split
    · rfl
    · simp only []; rw [foldl_tripped_notWraps false ho]; rfl

namespace Witness
open PPLV.Wrap.BoxDom

/-- both variables to unsigned 8 bits, collectively, threshold 4 -/
def cfg : WrapCfg := ⟨[0, 1], 8, .unsigned, .wraps, none, 4, false⟩
/-- `A ∈ [0,600]` (3 quadrants), `B ∈ [300,1000]` (3 quadrants): `3·3 > 4` trips at `B` -/
def P : Bx := some [⟨some 0, some 600⟩, ⟨some 300, some 1000⟩]
def v : Pt := fun i => if i = 1 then 300 else 0
def v' : Pt := fun i => if i = 1 then 44 else 0

theorem v_mem : gamma P v := by decide +kernel
theorem img_not_mem : ¬ gamma (wrapAssignBeforeFix boxDom cfg P) v' := by decide +kernel
theorem trips : wrapTrips boxDom cfg P = true := by decide +kernel

theorem img_is_image : PPLV.Wrap.Spec.WrapImage cfg v v' := by
  refine ⟨?_, ?_, ?_⟩
  · intro i hi
    have h0 : i ≠ 0 := fun h => hi (by simp [cfg, h])
    have h1 : i ≠ 1 := fun h => hi (by simp [cfg, h])
    simp [v, v', h1]
  · intro i hi
    simp only [cfg, List.mem_cons, List.mem_nil_iff, or_false] at hi
    rcases hi with rfl | rfl
    · exact ⟨0, by simp [v], by simp [cfg, v', wrapR, wrapU, pow2]⟩
    · exact ⟨300, by simp [v], by simp [cfg, v', wrapR, wrapU, pow2]⟩
  · intro cs hcs; simp [cfg] at hcs

end Witness

/-- **KF-C17-3, the historical witness**: before the repair, `A ∈ [0,600]`, `B ∈ [300,1000]` wrapped
collectively to unsigned 8 bits with threshold 4 keeps `B ∈ [300,1000]`; the point `(0,300)` wraps to
`(0,44)`, which is lost.  (A library without the repair returns exactly this on `C_Polyhedron`: case `p4`
of the harness; the check then reports KF-C17-3 and `kf3_measured = true`.) -/
theorem wrap_sound_before_fix_fails :
    ¬ ∀ (d : Dom) (P : d.D) (cfg : WrapCfg) (v : Pt), v ∈ d.γs P → (∀ i ∈ cfg.vars, isInt (v i)) →
      ∀ v' ∈ Spec.wrapImages cfg v, v' ∈ d.γs (wrapAssignBeforeFix d cfg P) := by
  intro h
  have := h BoxDom.boxDom Witness.P Witness.cfg Witness.v Witness.v_mem ?_ Witness.v' Witness.img_is_image
  · exact Witness.img_not_mem this
  · intro i hi
    simp only [Witness.cfg, List.mem_cons, List.mem_nil_iff, or_false] at hi
    rcases hi with rfl | rfl
    · exact ⟨0, by simp [Witness.v]⟩
    · exact ⟨300, by simp [Witness.v]⟩

/-- non-vacuity: the repaired code keeps the image that the code before the repair loses, and the theorems
apply to a concrete domain (every hypothesis field of `Dom` is proved for rational boxes) -/
example : Witness.v' ∈ BoxDom.boxDom.γs (wrapAssign BoxDom.boxDom Witness.cfg Witness.P) :=
  wrap_sound BoxDom.boxDom Witness.P Witness.cfg Witness.v Witness.v_mem
    (by intro i hi
        simp only [Witness.cfg, List.mem_cons, List.mem_nil_iff, or_false] at hi
        rcases hi with rfl | rfl
        · exact ⟨0, by simp [Witness.v]⟩
        · exact ⟨300, by simp [Witness.v]⟩) Witness.v' Witness.img_is_image

example : Witness.v' ∈ BoxDom.boxDom.γs (wrapAssignBeforeFix BoxDom.boxDom { Witness.cfg with individually := true } Witness.P) := by
  apply wrap_sound_before_fix_individually_partial BoxDom.boxDom Witness.P _ Witness.v Witness.v_mem _ rfl
  · exact Witness.img_is_image
  · intro i hi
    simp only [Witness.cfg, List.mem_cons, List.mem_nil_iff, or_false] at hi
    rcases hi with rfl | rfl
    · exact ⟨0, by simp [Witness.v]⟩
    · exact ⟨300, by simp [Witness.v]⟩

/-- the executable image test of the driver is the specification -/
theorem coordImageB_iff (cfg : WrapCfg) (z z' : Int) :
    coordImageB cfg z z' = true ↔ PPLV.Wrap.Spec.CoordImage cfg (z : Rat) (z' : Rat) :=
  PPLV.Wrap.coordImageB_iff cfg z z'

/-- the key lemma of the quadrant loops: `quadrant x = ⌊(x − min)/2ʷ⌋` and `x − quadrant·2ʷ = wrap x` -/
theorem wrap_eq_translate (r : Repn) (w : Nat) (z : Int) :
    quadrant r w z = (z - minValue r w) / 2 ^ w ∧ z - quadrant r w z * 2 ^ w = wrapR r w z ∧
    inRange r w (wrapR r w z) :=
  ⟨rfl, by rw [wrapR_eq_sub]; rfl, wrapR_inRange r w z⟩

example : wrapU 8 300 = 44 ∧ wrapS 8 200 = -56 ∧ wrapS 8 (-129) = 127 ∧ quadrant .signed 8 200 = 1 := by decide

/-! ## `Interval::wrap_assign` -/

/-- the clause for one interval: every integer of `I` whose wrapped value lies in the refinement
interval is, wrapped, in the result (`strictTest = false`: the code; `true`: the comparison `u > lower()`
it had before the fix of defect 12) -/
def IntervalWrapSound (strictTest : Bool) (I : Itv) (w : Nat) (r : Repn) (ref : Itv) : Prop :=
  ∀ z : Int, I.mem (z : Rat) → ref.mem ((wrapR r w z : Int) : Rat) →
    (ivWrap strictTest I w r ref).mem ((wrapR r w z : Int) : Rat)

/-- **interval_wrap_sound**: `Interval::wrap_assign` (comparison `u >= lower()`, /repo 7a40b81) never loses
a wrapped value, for every interval (open, closed, unbounded, empty), width, signedness, refinement -/
theorem interval_wrap_sound (I : Itv) (w : Nat) (r : Repn) (ref : Itv) :
    IntervalWrapSound false I w r ref :=
  fun z hz hr => ivWrap_sound false I w r ref (Or.inl rfl) z hz hr

/-- **defect 12** (repaired in /repo by 7a40b81; kept so that a regression is recognised — the driver reports
which comparison explains the real result): with `u > lower()`, `[0,256]` wrapped to unsigned 8 bits
inside `[0,255]` is `{0}`; `5` is lost -/
theorem interval_wrap_defect12_before_fix :
    ¬ ∀ (I : Itv) (w : Nat) (r : Repn) (ref : Itv), IntervalWrapSound true I w r ref := by
  intro h
  have := h ⟨some (0, false), some (256, false)⟩ 8 .unsigned (rangeItv .unsigned 8) 5
    (by decide +kernel) (by decide +kernel)
  revert this
  decide +kernel

/-- the comparison before the fix was sound exactly off the width `2ʷ` -/
theorem interval_wrap_sound_before_fix_partial (I : Itv) (w : Nat) (r : Repn) (ref : Itv)
    (hnarrow : ∀ l lo u uo, I.lo = some (l, lo) → I.hi = some (u, uo) → u - l ≠ ((2 : Int) ^ w : Int)) :
    IntervalWrapSound true I w r ref :=
  fun z hz hr => ivWrap_sound true I w r ref (Or.inr hnarrow) z hz hr

example : (ivWrap false ⟨some (0, false), some (256, false)⟩ 8 .unsigned (rangeItv .unsigned 8)).mem 5 := by
  decide +kernel
example : (ivWrap false ⟨some (200, false), some (300, false)⟩ 8 .unsigned (rangeItv .unsigned 8)).mem 44 := by
  decide +kernel

/-! ## `Box::wrap_assign` (branch without guard) -/

/-- the clause for a box: `boxWrap strictTest storeOpen kf10 cfg B` transliterates the three loops of the
`cs_p == nullptr` branch of `Box::wrap_assign` on a non-empty box `B` (`strictTest = false`: the interval
comparison of the code); `storeOpen` says whether the interval type can store open boundaries; `kf10 = false`
is the quadrant test with the repair of KF-C17-10 (fixes/fix_c17_box_wrap_undefined_closed_bounds.diff),
`kf10 = true` the test before it.  The check measures on every run which variant the library implements. -/
def BoxWrapSound (strictTest storeOpen kf10 : Bool) (cfg : WrapCfg) (B : List Itv) : Prop :=
  ∀ v v' : Pt, boxMem B v → v' ∈ Spec.wrapImages cfg v → boxMem (boxWrap strictTest storeOpen kf10 cfg B) v'

/-- **box_wrap_sound**: `Box::wrap_assign` (with the repair of KF-C17-10) never loses a wrapped image, for
every box, interval type, width, signedness and overflow mode -/
theorem box_wrap_sound (storeOpen : Bool) (cfg : WrapCfg) (B : List Itv) :
    BoxWrapSound false storeOpen false cfg B :=
  fun v v' hB himg => boxWrap_sound false storeOpen false cfg B v v' himg (Or.inl rfl) (fun _ => Or.inr rfl) hB

/-- before the repair of KF-C17-10: sound for `OVERFLOW_WRAPS` and `OVERFLOW_IMPOSSIBLE` on every box, and for
`OVERFLOW_UNDEFINED` when the interval type stores open boundaries (`Rational_Box`) -/
theorem box_wrap_sound_before_fix_partial (storeOpen : Bool) (cfg : WrapCfg) (B : List Itv)
    (hopen : cfg.o = .undefined → storeOpen = true) :
    BoxWrapSound false storeOpen true cfg B :=
  fun v v' hB himg => boxWrap_sound false storeOpen true cfg B v v' himg (Or.inl rfl) (fun h => Or.inl (hopen h)) hB

/-- **KF-C17-10, the historical witness**: before the repair, on `Z_Box` (closed integer boundaries) `[250,256]` to
unsigned 8 bits with undefined overflow is left alone, although `256` overflows and may become, e.g., `0` -/
theorem box_wrap_sound_before_fix_fails :
    ¬ ∀ (storeOpen : Bool) (cfg : WrapCfg) (B : List Itv), BoxWrapSound false storeOpen true cfg B := by
  intro h
  have := h false ⟨[0], 8, .unsigned, .undefined, none, 16, false⟩ [⟨some (250, false), some (256, false)⟩]
    (fun i => if i = 0 then 256 else 0) (fun _ => 0) (by decide +kernel) ?_
  · revert this; decide +kernel
  · refine ⟨?_, ?_, ?_⟩
    · intro i hi
      have : i ≠ 0 := fun h => hi (by simp [h])
      simp [this]
    · intro i hi
      simp only [List.mem_cons, List.mem_nil_iff, or_false] at hi
      subst hi
      exact ⟨256, by simp, Or.inr ⟨by decide, 0, by decide, by simp⟩⟩
    · intro cs hcs; simp at hcs

example : boxMem (boxWrap false false false ⟨[0], 8, .unsigned, .undefined, none, 16, false⟩ [⟨some (250, false), some (256, false)⟩])
    (fun _ => 0) := by decide +kernel

/-! ## dropping non-integer points -/

/-- the clause: a subset of the argument that keeps every point with integer coordinates on the
designated dimensions -/
def DropOK (vars : Set Nat) (P R : Set Pt) : Prop :=
  R ⊆ P ∧ ∀ x ∈ P, (∀ i ∈ vars, isInt (x i)) → x ∈ R

/-- **drop_sound**: an operator whose result satisfies the clause never discards an integer point, and
the clause composes (it can be applied constraint by constraint, domain component by component) -/
theorem drop_sound (vars : Set Nat) (P R : Set Pt) (h : DropOK vars P R) :
    {x ∈ P | ∀ i ∈ vars, isInt (x i)} = {x ∈ R | ∀ i ∈ vars, isInt (x i)} := by
  ext x
  constructor
  · rintro ⟨hx, hi⟩; exact ⟨h.2 x hx hi, hi⟩
  · rintro ⟨hx, hi⟩; exact ⟨h.1 hx, hi⟩

theorem drop_sound_refl (vars : Set Nat) (P : Set Pt) : DropOK vars P P := ⟨fun _ h => h, fun _ h _ => h⟩

theorem drop_sound_trans (vars : Set Nat) (P Q R : Set Pt) (h1 : DropOK vars P Q) (h2 : DropOK vars Q R) :
    DropOK vars P R :=
  ⟨fun _ h => h1.1 (h2.1 h), fun x hx hi => h2.2 x (h1.2 x hx hi) hi⟩

/-- the judge of the driver for `drop_some_non_integer_points` on constraint descriptions: `R ⊆ P` is
decided exactly by K1 -/
theorem drop_subset_decided (n : Nat) (rs ps : List Con) (h1 : WF n rs) (h2 : WF n ps) :
    subsetB n rs ps = true ↔ sem rs ⊆ sem ps := subsetB_iff n rs ps h1 h2

/-- one tightening step of `Polyhedron::drop_some_non_integer_points`: a row `g·(e·x) + k ≥ 0` (or `> 0`)
all of whose variables are designated is replaced by `e·x + ⌊k/g⌋ ≥ 0` (resp. by the non-strict row with
`k − 1` first): the clause holds -/
theorem drop_tighten_sound (vars : Set Nat) (cs : List Con) (c : Con) (e : List Int) (g k : Int) (hg : 0 < g)
    (hc : c.coeffs = e.map (g * ·)) (hk : c.k = k) (hvars : ∀ i, e.getD i 0 ≠ 0 → i ∈ vars) :
    DropOK vars (sem (c :: cs))
      (sem ((⟨e, (if c.strict then k - 1 else k) / g, false⟩ : Con) :: cs)) :=
  PPLV.Wrap.drop_tighten_sound vars cs c e g k hg hc hk hvars

example : DropOK {0} (sem [geRow [2] (-1)]) (sem [geRow [1] (-1)]) := by
  have := drop_tighten_sound {0} [] (geRow [2] (-1)) [1] 2 (-1) (by decide) (by decide) rfl
    (by intro i hi
        match i with
        | 0 => rfl
        | i + 1 => simp at hi)
  simpa [geRow] using this

/-! ## `contains_integer_point()` -/

/-- **the reference answers exactly**: `some b` only when decided inside the bounds proved by K1 -/
theorem containsIntegerPointRef_sound (cap n : Nat) (cs : List Con) (hwf : WF n cs) (b : Bool)
    (h : containsIntegerPointRef cap n cs = some b) :
    b = true ↔ ∃ x ∈ sem cs, ∀ i < n, isInt (x i) :=
  PPLV.Wrap.containsIntegerPointRef_sound cap n cs hwf b h

example : containsIntegerPointRef 1000 1 [gtRow [2] (-3), gtRow [-10] 19] = some false := by decide +kernel
example : containsIntegerPointRef 1000 2 [geRow [2, 0] (-1), geRow [-1, 0] 3, geRow [0, 1] 0, geRow [0, -3] 2] = some true := by
  decide +kernel

end C17
