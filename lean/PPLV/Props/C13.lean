import PPLV.Value.ProofsRefine
import PPLV.Value.Judge
import PPLV.Lin.Decide
import PPLV.Lattice.ProofsDecide

/-!
# C13 — objects are values: copies are independent and aliased arguments are safe

Two layers.

* **Specification** (`PPLV.Value.Spec`): a pool history is a pure fold over values.  `frame`,
  `alias_invariance`, `self_assign_value`, `self_swap_value`, `const_args_unchanged` are what the
  native driver `pplv_c13` replays against the real library for every class family of the
  statement (harness `c13_values.cc`): every observation of every pool member after every step is
  compared with `Spec.run`.
* **`Determinate<PSET>`** (`PPLV.Value.Cow`): the one sharing mechanism of the library that is
  visible through the public interface (powerset disjuncts) is modelled as a heap machine,
  transliterated from `Determinate_inlines.hh` with the order of increments and decrements, and
  proved for *every* operation sequence: the counters are exact, nothing is used after it is freed,
  copy-on-write is invisible, self-assignment and self-swap leave the whole machine state unchanged,
  and the machine refines the value specification.

The machine is tied to the class template itself: the harness drives `Determinate<C_Polyhedron>` and
`Determinate<Grid>` through the machine's operations (including `d = d` for a sole owner and for a
shared `Rep`, assignment between two handles of one `Rep`, self-swap, destruction in any order) and
`pplv_c13` runs `Cow.step` in lock step: values, liveness, the partition of the handles by `Rep`,
double deletes and the final live-block count must agree after every operation.

Outside `Determinate`: the recycling entry points, row swapping and the swap / assignment of systems
and polyhedra are modelled and proved in stage 2 (`PPLV/Props/C13Move.lean`, heap-with-ownership
machine `PPLV/Value/Move*.lean`, storage-level correspondence `pplv_c13 --move`); lazy updates of
`const` arguments are validated by the correspondence run, not modelled.
-/
namespace C13
open PPLV.Value

/-! ## the value specification -/

/-- **frame**: a step changes no pool member outside its destinations (in particular no `const`
argument and no copy made earlier). -/
theorem frame {V : Type} (pool : Spec.Pool V) (s : Spec.Step V) (i : Nat) (h : i ∉ s.dsts) :
    Spec.step pool s i = pool i := Spec.frame pool s i h

example : Spec.step (fun i => i * 10) (Spec.op 1 [1, 2] (fun a => a.sum)) 2 = 20 := by decide
example : Spec.step (fun i => i * 10) (Spec.op 1 [1, 2] (fun a => a.sum)) 1 = 30 := by decide

/-- the frame rule along a whole history: a member that is never a destination keeps its value -/
theorem frame_history {V : Type} (pool : Spec.Pool V) (steps : List (Spec.Step V)) (i : Nat)
    (h : ∀ s ∈ steps, i ∉ s.dsts) : Spec.run pool steps i = pool i := Spec.frame_run pool steps i h

example : Spec.run (fun i => i * 10) [Spec.copy 3 1, Spec.op 1 [1, 1] (fun a => a.sum), Spec.swap 1 2] 3 = 10 := by
  decide

/-- **alias invariance**: a step depends on the *values* of its arguments, not on the slots they
come from: `x.op(x)` equals `x.op(copy of x)`, one object in two argument positions equals two
equal copies. -/
theorem alias_invariance {V : Type} (pool : Spec.Pool V) (d : Nat) (args args' : List Nat) (f : List V → V)
    (h : args.map pool = args'.map pool) :
    Spec.step pool (Spec.op d args f) = Spec.step pool (Spec.op d args' f) :=
  Spec.op_args_congr pool d args args' f h

/-- `op x x = op x (copy x)` -/
theorem op_self_eq_op_copy {V : Type} (pool : Spec.Pool V) (x c : Nat) (f : List V → V) (hc : pool c = pool x) :
    Spec.step pool (Spec.op x [x, x] f) = Spec.step pool (Spec.op x [x, c] f) :=
  Spec.op_self_eq_op_copy pool x c f hc

example : Spec.step (fun i => if i = 7 then 3 else i) (Spec.op 3 [3, 3] (fun a => a.sum)) 3 = 6
    ∧ Spec.step (fun i => if i = 7 then 3 else i) (Spec.op 3 [3, 7] (fun a => a.sum)) 3 = 6 := by decide

/-- the value written by an operation is the function of the argument values -/
theorem op_value {V : Type} (pool : Spec.Pool V) (d : Nat) (args : List Nat) (f : List V → V) :
    Spec.step pool (Spec.op d args f) d = f (args.map pool) := Spec.op_value pool d args f

/-- copy construction / assignment: the destination gets the value of the source … -/
theorem copy_value {V : Type} (pool : Spec.Pool V) (d s : Nat) : Spec.step pool (Spec.copy d s) d = pool s :=
  Spec.copy_value pool d s
/-- … and swap exchanges the two values -/
theorem swap_value {V : Type} (pool : Spec.Pool V) (a b : Nat) :
    Spec.step pool (Spec.swap a b) a = pool b ∧ Spec.step pool (Spec.swap a b) b = pool a :=
  Spec.swap_value pool a b

/-- self-assignment changes nothing (value level) -/
theorem self_assign_value {V : Type} (pool : Spec.Pool V) (x : Nat) : Spec.step pool (Spec.copy x x) = pool :=
  Spec.self_copy pool x
/-- self-swap changes nothing (value level) -/
theorem self_swap_value {V : Type} (pool : Spec.Pool V) (x : Nat) : Spec.step pool (Spec.swap x x) = pool :=
  Spec.self_swap pool x

/-- an operation never changes the value of an argument it takes as const: every argument slot
other than the destination is in the frame -/
theorem const_args_unchanged {V : Type} (pool : Spec.Pool V) (d : Nat) (args : List Nat) (f : List V → V)
    (i : Nat) (_hi : i ∈ args) (hd : i ≠ d) : Spec.step pool (Spec.op d args f) i = pool i :=
  Spec.frame pool _ i (by simp [Spec.Step.dsts, Spec.op, hd])

/-- a recycling entry point may change the donor and the receiver, nothing else -/
theorem recycle_frame {V : Type} (pool : Spec.Pool V) (d e : Nat) (args : List Nat) (f g : List V → V)
    (i : Nat) (hd : i ≠ d) (he : i ≠ e) : Spec.step pool (Spec.recycle d e args f g) i = pool i :=
  Spec.frame pool _ i (by simp [Spec.Step.dsts, Spec.recycle, hd, he])

/-- the value a step writes depends only on the values it reads (two pools that agree on the
arguments and on the destination agree on the result) -/
theorem step_functional {V : Type} (p q : Spec.Pool V) (s : Spec.Step V) (d : Nat)
    (hr : s.reads.map p = s.reads.map q) (hd : p d = q d) : Spec.step p s d = Spec.step q s d :=
  Spec.step_congr p q s d hr hd

/-! ## `Determinate<PSET>`: every operation sequence -/
open Cow

theorem run_snoc {P : Type} (σ : State P) (ops : List (Op P)) (op : Op P) :
    Cow.run σ (ops ++ [op]) = Cow.step (Cow.run σ ops) op := by
  simp [Cow.run, List.foldl_append]

/-- the invariant holds after every history from the empty machine with `n` object slots -/
theorem inv_history {P : Type} (n : Nat) (ops : List (Op P)) : Inv (Cow.run (State.init P n) ops) :=
  (Inv.init n).run ops

/-- **reference counts are exact**, for every operation sequence:
* no micro-step touched a freed `Rep`, freed one twice, decremented a zero counter or deleted a
  `Rep` whose counter was not zero (`fault = false`);
* the counter of every live `Rep` is the number of live handles pointing to it, and is positive;
* an allocated `Rep` has been freed exactly when no handle points to it (no leak, no early free);
* no handle points to a freed `Rep` (no use after free). -/
theorem refcount_exact {P : Type} (n : Nat) (ops : List (Op P)) :
    let σ := Cow.run (State.init P n) ops
    σ.fault = false
    ∧ (∀ a r, σ.heap a = some r → r.refs = (σ.handles.filter (· == some a)).length ∧ 0 < r.refs)
    ∧ (∀ a, a < σ.next → (σ.heap a = none ↔ (σ.handles.filter (· == some a)).length = 0))
    ∧ (∀ (h a : Nat), σ.handles[h]? = some (some a) → ∃ r, σ.heap a = some r) := by
  intro σ
  have I : Inv σ := inv_history n ops
  have hc : ∀ a, (σ.handles.filter (· == some a)).length = holders σ a := by
    intro a; simp [holders, List.count_eq_length_filter]
  refine ⟨I.nofault, ?_, ?_, ?_⟩
  · intro a r hr; rw [hc]; exact I.live a r hr
  · intro a _
    rw [hc]
    constructor
    · exact I.dead a
    · intro h0
      cases hr : σ.heap a with
      | none => rfl
      | some r => have := I.live a r hr; omega
  · intro h a hh
    obtain ⟨r, hr, _⟩ := I.cell (prep_eq_some.mpr hh)
    exact ⟨r, hr⟩

/-- a history on naturals: construct, copy twice, mutate one copy, destroy the original -/
def demo : List (Op Nat) :=
  [.construct 0 5, .copyCtor 1 0, .copyCtor 2 0, .mutate 1 (· + 1), .destroy 0, .assign 2 1, .swap 1 2]

example : (Cow.run (State.init Nat 3) [.construct 0 5, .copyCtor 1 0, .copyCtor 2 0]).heap 0 = some ⟨3, 5⟩ := by
  decide
example : (List.range 3).map (value (Cow.run (State.init Nat 3) (demo.take 4))) = [some 5, some 6, some 5] := by
  decide
example : (Cow.run (State.init Nat 3) demo).fault = false
    ∧ (Cow.run (State.init Nat 3) demo).heap 0 = none          -- freed by `assign 2 1` (last holder)
    ∧ (Cow.run (State.init Nat 3) demo).heap 1 = some ⟨2, 6⟩ := by decide

/-- **copy on write**: mutating through one handle never changes the value seen through another -/
theorem cow_independent {P : Type} (n : Nat) (ops : List (Op P)) (h₁ h₂ : Nat) (f : P → P) (hne : h₁ ≠ h₂) :
    value (Cow.run (State.init P n) (ops ++ [.mutate h₁ f])) h₂ = value (Cow.run (State.init P n) ops) h₂ := by
  rw [run_snoc]
  have I := inv_history n ops
  have := congrFun (abs_step I (.mutate h₁ f)) h₂
  simp only [Cow.abs] at this
  rw [this]
  exact Spec.frame _ _ h₂ (by simp [Spec.Step.dsts, toSpec, Ne.symm hne])

/-- the same for the binary operations lifted to `Determinate` (`upper_bound_assign`,
`meet_assign`, `concatenate_assign`, `Binary_Operator_Assign_Lifter`), whatever sharing exists
between receiver and argument -/
theorem cow_independent_binop {P : Type} (n : Nat) (ops : List (Op P)) (h₁ y h₂ : Nat) (g : P → P → P)
    (hne : h₁ ≠ h₂) :
    value (Cow.run (State.init P n) (ops ++ [.binop h₁ y g])) h₂ = value (Cow.run (State.init P n) ops) h₂ := by
  rw [run_snoc]
  have I := inv_history n ops
  have := congrFun (abs_step I (.binop h₁ y g)) h₂
  simp only [Cow.abs] at this
  rw [this]
  exact Spec.frame _ _ h₂ (by simp [Spec.Step.dsts, toSpec, Ne.symm hne])

/-- the handle that is mutated sees the new value, also when its representation was shared -/
theorem mutate_value {P : Type} (n : Nat) (ops : List (Op P)) (h : Nat) (f : P → P) :
    value (Cow.run (State.init P n) (ops ++ [.mutate h f])) h
      = (value (Cow.run (State.init P n) ops) h).map f := by
  rw [run_snoc]
  have I := inv_history n ops
  have := congrFun (abs_step I (.mutate h f)) h
  simp only [Cow.abs] at this
  rw [this, Cow.spec_step_toSpec]
  simp only [vstep]
  cases hv : value (Cow.run (State.init P n) ops) h <;> simp [Cow.abs, Spec.upd, hv]

/-- `x.op(y)` through handles that share one representation, and `x.op(x)`, compute `g` of the two
values (the aliasing inside `PSET::op` itself is C13's correspondence part, not the model's) -/
theorem binop_value {P : Type} (n : Nat) (ops : List (Op P)) (h y : Nat) (g : P → P → P) (u v : P)
    (hu : value (Cow.run (State.init P n) ops) h = some u) (hv : value (Cow.run (State.init P n) ops) y = some v) :
    value (Cow.run (State.init P n) (ops ++ [.binop h y g])) h = some (g u v) := by
  rw [run_snoc]
  have I := inv_history n ops
  have := congrFun (abs_step I (.binop h y g)) h
  simp only [Cow.abs] at this
  rw [this, Cow.spec_step_toSpec]
  simp [vstep, Cow.abs, hu, hv, Spec.upd]

example : value (Cow.run (State.init Nat 2) [.construct 0 5, .copyCtor 1 0, .binop 0 1 (· + ·)]) 0 = some 10
    ∧ value (Cow.run (State.init Nat 2) [.construct 0 5, .copyCtor 1 0, .binop 0 1 (· + ·)]) 1 = some 5
    ∧ value (Cow.run (State.init Nat 2) [.construct 0 5, .binop 0 0 (· + ·)]) 0 = some 10 := by decide

/-- **self-assignment is harmless**: `x = x` leaves the complete machine state (heap, counters,
handles, fault flag) as it was — because `y.prep->new_reference()` comes before
`prep->del_reference()`; see `assign_order_matters`. -/
theorem self_assign_harmless {P : Type} (n : Nat) (ops : List (Op P)) (h : Nat) :
    Cow.run (State.init P n) (ops ++ [.assign h h]) = Cow.run (State.init P n) ops := by
  rw [run_snoc]
  have I := inv_history n ops
  cases hh : (Cow.run (State.init P n) ops).prep h with
  | none => simp [Cow.step, hh]
  | some a => exact step_assign_same I hh hh

/-- more generally: assignment between two handles that already share leaves the state unchanged -/
theorem assign_shared_harmless {P : Type} (n : Nat) (ops : List (Op P)) (h y a : Nat)
    (hh : (Cow.run (State.init P n) ops).prep h = some a) (hy : (Cow.run (State.init P n) ops).prep y = some a) :
    Cow.run (State.init P n) (ops ++ [.assign h y]) = Cow.run (State.init P n) ops := by
  rw [run_snoc]; exact step_assign_same (inv_history n ops) hh hy

/-- **self-swap is harmless**: `x.m_swap(x)` leaves the complete machine state as it was -/
theorem self_swap_harmless {P : Type} (n : Nat) (ops : List (Op P)) (h : Nat) :
    Cow.run (State.init P n) (ops ++ [.swap h h]) = Cow.run (State.init P n) ops := by
  rw [run_snoc]
  cases hh : (Cow.run (State.init P n) ops).prep h with
  | none => simp [Cow.step, hh]
  | some a =>
    simp only [Cow.step, hh]
    have hg := handles_get_of_prep hh
    have e1 := set_self_of_get _ _ _ hg
    apply State.ext' <;> simp [e1]

example : Cow.run (State.init Nat 2) [.construct 0 5, .copyCtor 1 0, .assign 0 0, .swap 1 1, .assign 1 0]
    = Cow.run (State.init Nat 2) [.construct 0 5, .copyCtor 1 0] :=
  (assign_shared_harmless 2 _ 1 0 0 (by decide) (by decide)).trans
    ((self_swap_harmless 2 [.construct 0 5, .copyCtor 1 0, .assign 0 0] 1).trans
      (self_assign_harmless 2 [.construct 0 5, .copyCtor 1 0] 0))

/-- **refinement**: the abstraction map (handles ↦ the values seen through them) commutes with every
step, hence the handle-level machine computes exactly the pure value specification. -/
theorem refines_value_spec {P : Type} (n : Nat) (ops : List (Op P)) :
    Cow.abs (Cow.run (State.init P n) ops) = Spec.run (fun _ => none) (ops.map (toSpec n)) := by
  have key : ∀ (ops : List (Op P)) (σ : State P), Inv σ → σ.handles.length = n →
      Cow.abs (Cow.run σ ops) = Spec.run (Cow.abs σ) (ops.map (toSpec n)) := by
    intro ops
    induction ops with
    | nil => intro σ _ _; rfl
    | cons op ops ih =>
      intro σ I hl
      simp only [Cow.run, List.foldl_cons, List.map_cons, Spec.run]
      have := ih (Cow.step σ op) (I.step op) (by rw [length_step σ op I, hl])
      simp only [Cow.run, Spec.run] at this
      rw [this, abs_step I op, hl]
  have h0 : Cow.abs (State.init P n) = fun _ => none := by
    funext k
    simp only [Cow.abs, value, State.prep, State.init]
    by_cases hk : k < n
    · simp [hk]
    · simp [List.getElem?_eq_none (l := List.replicate n (none : Option Nat)) (by simpa using hk)]
  rw [key ops (State.init P n) (Inv.init n) (by simp [State.init]), h0]

/-- one step of the refinement square -/
theorem refines_step {P : Type} (n : Nat) (ops : List (Op P)) (op : Op P) :
    Cow.abs (Cow.run (State.init P n) (ops ++ [op]))
      = Spec.step (Cow.abs (Cow.run (State.init P n) ops)) (toSpec n op) := by
  rw [run_snoc, abs_step (inv_history n ops) op]
  have hl : ∀ (ops : List (Op P)) (σ : State P), Inv σ → (Cow.run σ ops).handles.length = σ.handles.length := by
    intro ops
    induction ops with
    | nil => intro σ _; rfl
    | cons o os ih =>
      intro σ I
      simp only [Cow.run, List.foldl_cons]
      have := ih (Cow.step σ o) (I.step o)
      simp only [Cow.run] at this
      rw [this, length_step σ o I]
  rw [hl ops _ (Inv.init n)]
  simp [State.init]

example : (List.range 3).map (Cow.abs (Cow.run (State.init Nat 3) demo)) = [none, some 6, some 6] := by decide
example : (List.range 3).map (Spec.run (fun _ => none) (demo.map (toSpec 3))) = [none, some 6, some 6] := by decide

/-! ## what the proofs exclude (the order of the counter updates matters) -/

/-- `operator=` with the decrement *before* the increment frees the representation of an unshared
object on self-assignment and then touches it: use after free. -/
theorem assign_order_matters :
    (assignDelFirst (Cow.run (State.init Nat 1) [.construct 0 5]) 0 0).fault = true := by decide

/-- `operator=` without `y.prep->new_reference()`: two handles, counter 1; the next `mutate()`
writes in place and the other handle sees it. -/
theorem assign_needs_new_reference :
    let σ := assignNoNewRef (Cow.run (State.init Nat 2) [.construct 0 5, .construct 1 7]) 1 0
    value (Cow.step σ (.mutate 1 (· + 1))) 0 = some 6
    ∧ (Cow.step (Cow.step σ (.destroy 0)) (.destroy 1)).fault = true := by decide

/-- `mutate()` that does not clone a shared representation breaks independence. -/
theorem mutate_must_clone :
    value (mutateNoClone (Cow.run (State.init Nat 2) [.construct 0 5, .copyCtor 1 0]) 1 (· + 1)) 0 = some 6
    ∧ value (Cow.run (State.init Nat 2) [.construct 0 5, .copyCtor 1 0, .mutate 1 (· + 1)]) 0 = some 5 := by
  decide


/-! ## the judge of the correspondence run is exact

`pplv_c13` compares the specification pool with the observations through `valEq`; on polyhedral
values and on grids it decides equality of the denoted sets (K1 / K2). -/

/-- polyhedral values (C / NNC polyhedra, BD shapes, octagons, boxes, powerset disjuncts, constraint
systems): `valEq` holds iff the two constraint systems have the same solutions -/
theorem judge_poly_exact (n : Nat) (cs ds : List PPLV.Lin.Con) (h1 : PPLV.Lin.WF n cs) (h2 : PPLV.Lin.WF n ds) :
    valEq (.poly n cs) (.poly n ds) = true ↔ PPLV.Lin.sem cs = PPLV.Lin.sem ds := by
  simp only [valEq, beq_self_eq_true, Bool.true_and, polyEq, Bool.or_eq_true, beq_iff_eq]
  constructor
  · rintro (h | h)
    · rw [h]
    · exact (PPLV.Lin.equivB_iff n cs ds h1 h2).mp h
  · intro h; exact Or.inr ((PPLV.Lin.equivB_iff n cs ds h1 h2).mpr h)

/-- values of different space dimension are never equal -/
theorem judge_poly_dim (n m : Nat) (cs ds : List PPLV.Lin.Con) (h : n ≠ m) :
    valEq (.poly n cs) (.poly m ds) = false := by
  simp [valEq, h]

/-- grids given by congruence systems: `valEq` holds iff the systems have the same solutions -/
theorem judge_grid_exact (n : Nat) (c1 c2 : List PPLV.Lattice.Cg) :
    valEq (.grid n (some c1)) (.grid n (some c2)) = true
      ↔ ∀ x, PPLV.Lattice.CgSys.sem n c1 x ↔ PPLV.Lattice.CgSys.sem n c2 x := by
  simp only [valEq, beq_self_eq_true, Bool.true_and, gridEq, gridGens, PPLV.Lattice.equivB_iff,
    PPLV.Lattice.consToGens_sem]

/-- the empty grid equals a congruence system iff the system has no solution -/
theorem judge_grid_empty (n : Nat) (c : List PPLV.Lattice.Cg) :
    valEq (.grid n none) (.grid n (some c)) = true ↔ ∀ x, ¬ PPLV.Lattice.CgSys.sem n c x := by
  simp only [valEq, beq_self_eq_true, Bool.true_and, gridEq, gridGens, PPLV.Lattice.equivB_iff]
  constructor
  · intro h x hx
    exact (h x).mpr ((PPLV.Lattice.consToGens_sem n c x).mpr hx)
  · intro h x
    constructor
    · intro hf; exact absurd hf (by simp [PPLV.Lattice.Gen.sem])
    · intro hx; exact absurd ((PPLV.Lattice.consToGens_sem n c x).mp hx) (h x)

example : valEq (.poly 1 [⟨[1], 0, false⟩, ⟨[2], 0, false⟩]) (.poly 1 [⟨[3], 0, false⟩]) = true := by decide +kernel
example : valEq (.poly 1 [⟨[1], 0, false⟩]) (.poly 1 [⟨[1], -1, false⟩]) = false := by decide +kernel

end C13
