import PPLV.Wrap.GridWrapModes
import PPLV.Props.C05
import PPLV.Props.C17

/-!
# C17 — `Grid::wrap_assign` never discards a wrapped image of an integer point (stage 3)

`gridWrapAssign n cfg G` (`PPLV/Wrap/GridWrap.lean`) is the code-shaped model of
`Grid::wrap_assign(vars, w, r, o, cs_p, complexity_threshold, wrap_individually)` (src/Grid_public.cc:2968-3182) AS IT
IS WRITTEN NOW (with the repairs 3a4d83e of KF-C17-12 and 4614ba1 of KF-C17-13), on a grid of space dimension `n` whose
minimized generators are `G` (K2's generator form, any dimension, rational coordinates); the member functions it
calls are K2's verified operations (table in that file).  `gridWrapAssignBeforeFix` is the function before the two
repairs, kept as a named historical witness.  `gridSet` is K2's point set (`C05.gridSet`).  The driver `pplv_gridwrap`
compares the model's outcome with the real one on every generated case by K2's verified equality decider
(`C05.equiv_iff`) and measures which variant the library implements (a regression is recognised).

* `grid_wrap_sound_wraps`, `grid_wrap_sound_undefined`, `grid_wrap_sound_impossible` (and `grid_wrap_sound` in the
  `Spec.wrapImages` form shared with `C17.wrap_sound`): full strength — every grid, `vars`, width ≥ 1, signedness,
  guard within the space dimension.
* `grid_wrap_never_throws`: a legal call returns normally; `grid_wrap_dimension_exception`: exactly the illegal ones throw.
* `grid_wrap_result_in_range_wraps`: what the code guarantees about the range.
* `grid_wrap_guard_unused`: `*cs_p` is only dimension-checked.
* historical (the function before the repairs): `grid_wrap_sound_wraps_before_fix_fails` (KF-C17-12: the unchanged-grid
  branch lost images on relational grids), `grid_wrap_sound_wraps_before_fix_partial`,
  `grid_wrap_throws_before_fix_fails` (KF-C17-13: a legal call left through `throw_invalid_generator`),
  `grid_wrap_throws_before_fix_only_without_images`.
-/
namespace C17
open PPLV.Lattice PPLV.Wrap PPLV.Wrap.GW

/-- point set of a generator-form grid (K2) -/
abbrev gridSet (G : GridGens) : Set (Nat → Rat) := C05.gridSet G

/-- a legal call: the guard (if any) and `vars` fit the space dimension `n` -/
abbrev GridWrapLegal (n : Nat) (cfg : WrapCfg) : Prop := Legal n cfg

/-! ## the guard is not used -/

/-- `*cs_p` is only dimension-checked (Grid_public.cc:2978-2983): two guards that pass the check give the same outcome -/
theorem grid_wrap_guard_unused (n : Nat) (cfg : WrapCfg) (g : Option (List PPLV.Lin.Con)) (G : GridGens)
    (h1 : guardTooBig n cfg.guard = false) (h2 : guardTooBig n g = false) :
    gridWrapAssign n { cfg with guard := g } G = gridWrapAssign n cfg G :=
  gridWrapAssignV_guard_unused repaired n cfg g G h1 h2

example : guardTooBig 2 (some [PPLV.Lin.geRow [1, 0] 3]) = false ∧ guardTooBig 2 (some [PPLV.Lin.geRow [0, 0, 1] 0]) = true := by
  decide

namespace GridWitness

/-- `A = B`, `3A ≡ 1 (mod 256)`: the points `(a, a)`, `a ∈ 1/3 + (256/3)ℤ` -/
def G : GridGens := .gens { pt := [1/3, 1/3], params := [[256/3, 256/3]], lines := [] }
/-- `A` to unsigned 8 bits, overflow wraps -/
def cfg : WrapCfg := ⟨[0], 8, .unsigned, .wraps, none, 16, false⟩
/-- what `Grid::wrap_assign` returned before 3a4d83e (case `gp8` of the harness on a library without the repair) -/
def R : GridGens := .gens { pt := [-85, -85], params := [[256, 256]], lines := [] }

theorem outcome_before_fix : gridWrapAssignBeforeFix 2 cfg G = .ok R := by decide +kernel
theorem isFlawed : flawed cfg G = true := by decide +kernel
theorem p_mem : memB G [-341, -341] = true := by decide +kernel
theorem img_not_mem : memB R [171, -341] = false := by decide +kernel
theorem legal : Legal 2 cfg := ⟨fun cs h => (by cases h), by decide⟩
theorem hint341 : ∀ i ∈ cfg.vars, Vec.toFun [-341, -341] i = (((fun _ => -341 : Nat → Int) i : Int) : Rat) := by
  intro i hi
  simp only [cfg, List.mem_cons, List.mem_nil_iff, or_false] at hi
  subst hi; simp [Vec.toFun]

/-- `A ∈ (1/2)ℤ`, `B = A + 1/2`, both wrapped -/
def G2 : GridGens := .gens { pt := [0, 1/2], params := [[1/2, 1/2]], lines := [] }
def cfg2 : WrapCfg := ⟨[0, 1], 8, .unsigned, .wraps, none, 16, false⟩
theorem outcome2_before_fix : gridWrapAssignBeforeFix 2 cfg2 G2 = .invalidGenerator .empty := by decide +kernel
theorem legal2 : Legal 2 cfg2 := ⟨fun cs h => (by cases h), by decide⟩

/-- a relational grid of frequency 300 > 2⁸ (the seeded change S-C17-2): `A = B`, `A ≡ 0 (mod 300)` -/
def G3 : GridGens := .gens { pt := [0, 0], params := [[300, 300]], lines := [] }
theorem notFlawed3 : flawed cfg G3 = false := by decide +kernel
theorem p3_mem : memB G3 [300, 300] = true := by decide +kernel
theorem hint300 : ∀ i ∈ cfg.vars, Vec.toFun [300, 300] i = (((fun _ => 300 : Nat → Int) i : Int) : Rat) := by
  intro i hi
  simp only [cfg, List.mem_cons, List.mem_nil_iff, or_false] at hi
  subst hi; simp [Vec.toFun]

end GridWitness

/-! ## soundness, every overflow mode at once -/

/-- **grid_wrap_sound**: every wrapped image (`Spec.WrapImage`: the specification shared with the generic algorithm,
`C17.wrap_sound`) of a point of the argument is in the receiver after the call, which returns normally — every grid,
`vars`, width ≥ 1, signedness, overflow mode, guard within the space dimension. -/
theorem grid_wrap_sound (n : Nat) (cfg : WrapCfg) (hw : 0 < cfg.w) (G : GridGens) (hlegal : GridWrapLegal n cfg)
    (p : Nat → Rat) (hp : p ∈ gridSet G) (p' : Nat → Rat) (himg : p' ∈ Spec.wrapImages cfg p) :
    ∃ R, gridWrapAssign n cfg G = .ok R ∧ p' ∈ gridSet R :=
  gridWrapAssign_sound n cfg hw G hlegal p p' hp himg

/-- every variant of the function the driver can measure (`Repairs`: each of the two repairs present or not): sound
whenever the repair of KF-C17-12 is present or the branch is not taken -/
theorem grid_wrap_sound_variant (fx : Repairs) (n : Nat) (cfg : WrapCfg) (hw : 0 < cfg.w) (G : GridGens)
    (hnf : fx.kf12 = true ∨ flawed cfg G = false) (hlegal : GridWrapLegal n cfg)
    (p : Nat → Rat) (hp : p ∈ gridSet G) (p' : Nat → Rat) (himg : p' ∈ Spec.wrapImages cfg p) :
    ∃ R, gridWrapAssignV fx n cfg G = .ok R ∧ p' ∈ gridSet R :=
  gridWrapAssignV_sound fx n cfg hw G hnf hlegal p p' hp himg

example : gridWrapAssignV ⟨true, false⟩ 2 ⟨[0], 8, .unsigned, .wraps, none, 16, false⟩
    (.gens { pt := [1/3, 1/3], params := [[256/3, 256/3]], lines := [] }) =
    .ok (.gens { pt := [-85, -85], params := [[256], [256, 256]], lines := [] }) := by decide +kernel

/-! ## `OVERFLOW_WRAPS` -/

/-- **grid_wrap_sound_wraps**: for every point `p` of the grid whose coordinates on `vars` are integers (`z`), the point
obtained by wrapping those coordinates into `[min,max]` modulo `2^w` (`wrappedPoint cfg p z`) is in the result — every
grid, `vars`, width ≥ 1, signedness and (dimension-compatible) guard. -/
theorem grid_wrap_sound_wraps (n : Nat) (cfg : WrapCfg) (hw : 0 < cfg.w) (ho : cfg.o = .wraps) (G : GridGens)
    (hlegal : GridWrapLegal n cfg)
    (p : Nat → Rat) (hp : p ∈ gridSet G) (z : Nat → Int) (hint : ∀ i ∈ cfg.vars, p i = (z i : Rat)) :
    ∃ R, gridWrapAssign n cfg G = .ok R ∧ wrappedPoint cfg p z ∈ gridSet R :=
  wraps_V repaired n cfg hw ho G (Or.inl rfl) hlegal p hp z hint

/-- the witness of KF-C17-12: the function as it is now keeps the image `(171,-341)` of `(-341,-341)` -/
example : ∃ R, gridWrapAssign 2 GridWitness.cfg GridWitness.G = .ok R ∧
    wrappedPoint GridWitness.cfg (Vec.toFun [-341, -341]) (fun _ => -341) ∈ gridSet R :=
  grid_wrap_sound_wraps 2 GridWitness.cfg (by decide) rfl GridWitness.G GridWitness.legal
    (Vec.toFun [-341, -341]) ((C05.memB_iff _ _).mp GridWitness.p_mem) (fun _ => -341) GridWitness.hint341

/-- frequency 300 above 2⁸ on a relational grid (S-C17-2) -/
example : ∃ R, gridWrapAssign 2 GridWitness.cfg GridWitness.G3 = .ok R ∧
    wrappedPoint GridWitness.cfg (Vec.toFun [300, 300]) (fun _ => 300) ∈ gridSet R :=
  grid_wrap_sound_wraps 2 GridWitness.cfg (by decide) rfl GridWitness.G3 GridWitness.legal
    (Vec.toFun [300, 300]) ((C05.memB_iff _ _).mp GridWitness.p3_mem) (fun _ => 300) GridWitness.hint300

/-- **grid_wrap_result_in_range_wraps** (what the code guarantees about the range; a grid cannot express `[min,max]`):
overflow wraps; a wrapped variable `x` that is an integer constant of the argument, or whose frequency is exactly `2^w`
with an integer representative (`frequency_no_check` returns `f_n ∈ {0, 2^w}`, `v_d = 1`), has an in-range integer value
at every point of the result, whatever the other wrapped variables are. -/
theorem grid_wrap_result_in_range_wraps (n : Nat) (cfg : WrapCfg) (hw : 0 < cfg.w) (ho : cfg.o = .wraps)
    (gr : Gens) (x : Nat) (hx : x ∈ cfg.vars) (f_n f_d v_n : Int)
    (hfreq : frequencyNoCheck gr (unit x) = some (f_n, f_d, v_n, 1)) (he : f_n = 0 ∨ f_n = wrapFrequency cfg.w)
    (R : GridGens) (hR : gridWrapAssign n cfg (.gens gr) = .ok R) :
    ∀ u ∈ gridSet R, ∃ z : Int, u x = (z : Rat) ∧ inRange cfg.r cfg.w z :=
  gridWrapAssignV_in_range repaired n cfg hw ho gr x hx f_n f_d v_n hfreq he R hR

/-- `{(a, b) : a = 200, b ≡ 5 (mod 256)}`, both to signed 8 bits: `a = -56`, `b = 5` -/
example : frequencyNoCheck { pt := [200, 5], params := [[0, 256]], lines := [] } (unit 1) = some (256, 1, 5, 1) ∧
    gridWrapAssign 2 ⟨[0, 1], 8, .signed, .wraps, none, 16, false⟩ (.gens { pt := [200, 5], params := [[0, 256]], lines := [] })
      = .ok (.gens { pt := [-56, 5], params := [], lines := [] }) := by
  constructor <;> decide +kernel

/-! ### the function before the repair 3a4d83e (historical witness of KF-C17-12) -/

/-- before the repair: every call in which no wrapped variable went through the unchanged-grid branch
(`flawed cfg G = false`: a static property of the argument).  Missing for full strength: exactly the calls of
`grid_wrap_sound_wraps_before_fix_fails`. -/
theorem grid_wrap_sound_wraps_before_fix_partial (n : Nat) (cfg : WrapCfg) (hw : 0 < cfg.w) (ho : cfg.o = .wraps) (G : GridGens)
    (hnf : flawed cfg G = false) (hlegal : GridWrapLegal n cfg)
    (p : Nat → Rat) (hp : p ∈ gridSet G) (z : Nat → Int) (hint : ∀ i ∈ cfg.vars, p i = (z i : Rat)) :
    ∃ R, gridWrapAssignBeforeFix n cfg G = .ok R ∧ wrappedPoint cfg p z ∈ gridSet R :=
  wraps_V beforeFix n cfg hw ho G (Or.inr hnf) hlegal p hp z hint

example : ∃ R, gridWrapAssignBeforeFix 2 GridWitness.cfg GridWitness.G3 = .ok R ∧
    wrappedPoint GridWitness.cfg (Vec.toFun [300, 300]) (fun _ => 300) ∈ gridSet R :=
  grid_wrap_sound_wraps_before_fix_partial 2 GridWitness.cfg (by decide) rfl GridWitness.G3 GridWitness.notFlawed3 GridWitness.legal
    (Vec.toFun [300, 300]) ((C05.memB_iff _ _).mp GridWitness.p3_mem) (fun _ => 300) GridWitness.hint300

/-- **KF-C17-12, the historical witness**: before 3a4d83e, overflow wraps, `A = B` and `3A ≡ 1 (mod 256)`, `A` wrapped to
unsigned 8 bits: `frequency_no_check` reports frequency `256/3` and the representative `1/3`; the unchanged-grid branch
only added `A ≡ 0 (mod 1)`, the result was `{A = B, A ≡ 171 (mod 256)}`; the point `(-341,-341)` wraps to `(171,-341)`,
which was lost.  (A library without the repair returns exactly this: case `gp8` of the harness; the check then reports
a VIOLATION and measures the variant.) -/
theorem grid_wrap_sound_wraps_before_fix_fails :
    ¬ ∀ (n : Nat) (cfg : WrapCfg) (G : GridGens), 0 < cfg.w → cfg.o = .wraps → GridWrapLegal n cfg →
      ∀ (p : Nat → Rat), p ∈ gridSet G → ∀ (z : Nat → Int), (∀ i ∈ cfg.vars, p i = (z i : Rat)) →
      ∃ R, gridWrapAssignBeforeFix n cfg G = .ok R ∧ wrappedPoint cfg p z ∈ gridSet R := by
  intro h
  obtain ⟨R, hR, hmem⟩ := h 2 GridWitness.cfg GridWitness.G (by decide) rfl GridWitness.legal
    (Vec.toFun [-341, -341]) ((C05.memB_iff _ _).mp GridWitness.p_mem) (fun _ => -341) GridWitness.hint341
  rw [GridWitness.outcome_before_fix] at hR
  cases hR
  have himg : wrappedPoint GridWitness.cfg (Vec.toFun [-341, -341]) (fun _ => -341) = Vec.toFun [171, -341] := by
    funext i
    match i with
    | 0 => simp [wrappedPoint, GridWitness.cfg, Vec.toFun, wrapR, wrapU, pow2]
    | 1 => simp [wrappedPoint, GridWitness.cfg, Vec.toFun]
    | i + 2 => simp [wrappedPoint, GridWitness.cfg, Vec.toFun]
  rw [himg] at hmem
  have := (C05.memB_iff _ _).mpr hmem
  rw [GridWitness.img_not_mem] at this
  cases this

/-! ## `OVERFLOW_UNDEFINED` -/

/-- **grid_wrap_sound_undefined**: every point that agrees with `p` off `vars` and has, on each wrapped coordinate, the
value of `p` when that is in range and any in-range integer otherwise (per-coordinate reading, as the Grid
documentation states and as `C17.wrap_sound` reads it: `Spec.CoordImage`) is in the result — every grid, `vars`,
width, signedness, guard within the space dimension. -/
theorem grid_wrap_sound_undefined (n : Nat) (cfg : WrapCfg) (hw : 0 < cfg.w) (ho : cfg.o = .undefined) (G : GridGens)
    (hlegal : GridWrapLegal n cfg)
    (p : Nat → Rat) (hp : p ∈ gridSet G) (z : Nat → Int) (hint : ∀ i ∈ cfg.vars, p i = (z i : Rat))
    (p' : Nat → Rat) (hoff : ∀ i, i ∉ cfg.vars → p' i = p i)
    (hon : ∀ i ∈ cfg.vars, (inRange cfg.r cfg.w (z i) ∧ p' i = (z i : Rat)) ∨
      (¬ inRange cfg.r cfg.w (z i) ∧ ∃ z' : Int, inRange cfg.r cfg.w z' ∧ p' i = (z' : Rat))) :
    ∃ R, gridWrapAssign n cfg G = .ok R ∧ p' ∈ gridSet R :=
  undefined_V repaired n cfg hw ho G hlegal p hp z hint p' hoff hon

/-- `{200}` to signed 8 bits: 200 overflows, every in-range integer (e.g. −7) is in the result -/
example : ∃ R, gridWrapAssign 1 ⟨[0], 8, .signed, .undefined, none, 16, false⟩ (.gens { pt := [200], params := [], lines := [] }) = .ok R ∧
    Vec.toFun [-7] ∈ gridSet R :=
  grid_wrap_sound_undefined 1 _ (by decide) rfl _ ⟨fun cs h => (by cases h), by decide⟩ (Vec.toFun [200])
    ((C05.memB_iff _ _).mp (by decide +kernel)) (fun _ => 200)
    (by intro i hi; simp only [List.mem_cons, List.mem_nil_iff, or_false] at hi; subst hi; simp [Vec.toFun])
    (Vec.toFun [-7])
    (by intro i hi
        have : i ≠ 0 := fun h => hi (by simp [h])
        match i with
        | 0 => exact absurd rfl this
        | i + 1 => simp [Vec.toFun])
    (by intro i hi
        simp only [List.mem_cons, List.mem_nil_iff, or_false] at hi; subst hi
        right
        exact ⟨by decide, -7, by decide, by simp [Vec.toFun]⟩)

/-! ## `OVERFLOW_IMPOSSIBLE` -/

/-- **grid_wrap_sound_impossible**: every point of the grid with integer in-range coordinates on `vars` is in the result —
every grid, `vars`, width, signedness, guard within the space dimension. -/
theorem grid_wrap_sound_impossible (n : Nat) (cfg : WrapCfg) (hw : 0 < cfg.w) (ho : cfg.o = .impossible) (G : GridGens)
    (hlegal : GridWrapLegal n cfg)
    (p : Nat → Rat) (hp : p ∈ gridSet G) (z : Nat → Int) (hint : ∀ i ∈ cfg.vars, p i = (z i : Rat))
    (hin : ∀ i ∈ cfg.vars, inRange cfg.r cfg.w (z i)) :
    ∃ R, gridWrapAssign n cfg G = .ok R ∧ p ∈ gridSet R :=
  impossible_V repaired n cfg hw ho G hlegal p hp z hint hin

/-- the witness of the repaired KF-C17-4: `A ≡ 0 (mod 128)` to unsigned 8 bits keeps 128 -/
example : ∃ R, gridWrapAssign 1 ⟨[0], 8, .unsigned, .impossible, none, 16, false⟩ (.gens { pt := [0], params := [[128]], lines := [] }) = .ok R ∧
    Vec.toFun [128] ∈ gridSet R :=
  grid_wrap_sound_impossible 1 _ (by decide) rfl _ ⟨fun cs h => (by cases h), by decide⟩ (Vec.toFun [128])
    ((C05.memB_iff _ _).mp (by decide +kernel)) (fun _ => 128)
    (by intro i hi; simp only [List.mem_cons, List.mem_nil_iff, or_false] at hi; subst hi; simp [Vec.toFun])
    (by intro i _; decide)

/-! ## exceptions -/

/-- a dimension exception is thrown by, and only by, the two checks at the top of the function (`*cs_p` or `vars`
beyond the space dimension); the receiver is then unchanged -/
theorem grid_wrap_dimension_exception (n : Nat) (cfg : WrapCfg) (G : GridGens) :
    gridWrapAssign n cfg G = .dimensionIncompatible ↔
      guardTooBig n cfg.guard = true ∨ (cfg.vars.isEmpty = false ∧ n < varsSpaceDim cfg.vars) :=
  gridWrapAssign_dim n cfg G

example : gridWrapAssign 1 ⟨[1], 8, .unsigned, .wraps, none, 16, false⟩ (univ 1) = .dimensionIncompatible := by decide +kernel

/-- **grid_wrap_never_throws**: a legal call returns normally (every overflow mode; since 4614ba1 the function returns
when the integrality congruences have emptied the receiver) -/
theorem grid_wrap_never_throws (n : Nat) (cfg : WrapCfg) (G : GridGens) (hlegal : GridWrapLegal n cfg) :
    ∃ R, gridWrapAssign n cfg G = .ok R :=
  no_throw_V repaired n cfg G (Or.inl rfl) hlegal

/-- the witness of KF-C17-13 now returns the empty grid -/
example : gridWrapAssign 2 GridWitness.cfg2 GridWitness.G2 = .ok .empty := by decide +kernel

/-- every variant returns normally on a legal call when the repair of KF-C17-13 is present or overflow does not wrap -/
theorem grid_wrap_no_throw_variant (fx : Repairs) (n : Nat) (cfg : WrapCfg) (G : GridGens)
    (h : fx.kf13 = true ∨ cfg.o ≠ .wraps) (hlegal : GridWrapLegal n cfg) : ∃ R, gridWrapAssignV fx n cfg G = .ok R :=
  no_throw_V fx n cfg G h hlegal

example : ∃ R, gridWrapAssignBeforeFix 2 { GridWitness.cfg2 with o := .undefined } GridWitness.G2 = .ok R :=
  grid_wrap_no_throw_variant beforeFix 2 _ _ (Or.inr (by decide)) GridWitness.legal2

/-! ### the function before the repair 4614ba1 (historical witness of KF-C17-13) -/

/-- **KF-C17-13, the historical witness**: before 4614ba1 a legal call could leave through `throw_invalid_generator` of
`add_grid_generator` (Grid_public.cc:1311): `A ∈ (1/2)ℤ`, `B = A + 1/2`, both wrapped, overflow wraps — the integrality
congruences empty the receiver inside the loop, the next `add_grid_generator(parameter(2^w·B))` threw
`std::invalid_argument`. -/
theorem grid_wrap_throws_before_fix_fails :
    ¬ ∀ (n : Nat) (cfg : WrapCfg) (G : GridGens), GridWrapLegal n cfg → ∀ l, gridWrapAssignBeforeFix n cfg G ≠ .invalidGenerator l := by
  intro h
  exact h 2 GridWitness.cfg2 GridWitness.G2 GridWitness.legal2 .empty GridWitness.outcome2_before_fix

/-- before the repair the exception was possible only when overflow wraps; the receiver was left empty; and (outside the
branch of KF-C17-12) only when no point of the argument had a wrapped image at all, so that no image was lost -/
theorem grid_wrap_throws_before_fix_only_without_images (n : Nat) (cfg : WrapCfg) (hw : 0 < cfg.w) (G l : GridGens)
    (h : gridWrapAssignBeforeFix n cfg G = .invalidGenerator l) :
    gridSet l = ∅ ∧ cfg.o = .wraps ∧
      (flawed cfg G = false → GridWrapLegal n cfg → ∀ p ∈ gridSet G, ∀ p', p' ∉ Spec.wrapImages cfg p) := by
  obtain ⟨he, ho⟩ := gridWrapAssignBeforeFix_invalidGenerator n cfg G l h
  refine ⟨(C05.isEmpty_iff l).mp he, ho, ?_⟩
  intro hnf hlegal p hp p' himg
  obtain ⟨R, hR, _⟩ := gridWrapAssignBeforeFix_sound n cfg hw G hnf hlegal p p' hp himg
  rw [h] at hR; cases hR

example : gridSet (.empty : GridGens) = ∅ ∧ GridWitness.cfg2.o = .wraps :=
  ⟨(grid_wrap_throws_before_fix_only_without_images 2 GridWitness.cfg2 (by decide) GridWitness.G2 .empty GridWitness.outcome2_before_fix).1,
   (grid_wrap_throws_before_fix_only_without_images 2 GridWitness.cfg2 (by decide) GridWitness.G2 .empty GridWitness.outcome2_before_fix).2.1⟩

end C17
