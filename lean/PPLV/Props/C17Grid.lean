import PPLV.Wrap.GridWrapOutcome
import PPLV.Props.C05
import PPLV.Props.C17

/-!
# C17 — `Grid::wrap_assign` never discards a wrapped image of an integer point (stage 3)

`gridWrapAssign n cfg G` (`PPLV/Wrap/GridWrap.lean`) is the code-shaped model of
`Grid::wrap_assign(vars, w, r, o, cs_p, complexity_threshold, wrap_individually)` (src/Grid_public.cc:2968-3168)
on a grid of space dimension `n` whose minimized generators are `G` (K2's generator form, any dimension, rational
coordinates); the member functions it calls are K2's verified operations (table in that file).  `gridSet` is K2's
point set (`C05.gridSet`).  The driver `pplv_gridwrap` compares the model's outcome with the real one on every
generated case by K2's verified equality decider (`C05.equiv_iff`).

* `grid_wrap_sound_undefined`, `grid_wrap_sound_impossible`: full strength (every grid, `vars`, width ≥ 1,
  signedness, guard within the space dimension).
* `grid_wrap_sound_wraps_partial`: every call in which no wrapped variable goes through the branch of
  Grid_public.cc:3118-3120 (`flawed cfg G = false`: a static property of the argument);
  `grid_wrap_sound_wraps_fails`: that branch loses images on relational grids (KF-C17-12).
* `grid_wrap_throws_fails`: a legal call can leave through `throw_invalid_generator` (KF-C17-13);
  `grid_wrap_throws_only_without_images`: only when overflow wraps and no integer point has an image.
* `grid_wrap_guard_unused`: `*cs_p` is only dimension-checked.
-/
namespace C17
open PPLV.Lattice PPLV.Wrap PPLV.Wrap.GW

/-- point set of a generator-form grid (K2) -/
abbrev gridSet (G : GridGens) : Set (Nat → Rat) := C05.gridSet G

/-- a legal call: the guard (if any) and `vars` fit the space dimension `n` -/
abbrev GridWrapLegal (n : Nat) (cfg : WrapCfg) : Prop := Legal n cfg

/-! ## the guard is not used -/

/-- `*cs_p` is only dimension-checked (Grid_public.cc:2978-2983): two guards that pass the check give the same outcome -/
theorem grid_wrap_guard_unused (n : Nat) (cfg : WrapCfg) (g : Option (List PPLV.Lin.Con)) (G : GridGens)
    (h1 : guardTooBig n cfg.guard = false) (h2 : guardTooBig n g = false) :
    gridWrapAssign n { cfg with guard := g } G = gridWrapAssign n cfg G := by
  unfold gridWrapAssign
  simp only [h1, h2]

example : guardTooBig 2 (some [PPLV.Lin.geRow [1, 0] 3]) = false ∧ guardTooBig 2 (some [PPLV.Lin.geRow [0, 0, 1] 0]) = true := by
  decide

/-! ## soundness, every overflow mode at once -/

/-- every wrapped image (`Spec.WrapImage`: the specification shared with the generic algorithm, `C17.wrap_sound`) of a
point of the argument is in the receiver after the call, which returns normally.  Missing for full strength: the
calls with `flawed cfg G = true` (overflow wraps, a wrapped non-constant variable of frequency `2^w/f_d` whose
representative value is not an integer), see `grid_wrap_sound_wraps_fails`. -/
theorem grid_wrap_sound_partial (n : Nat) (cfg : WrapCfg) (hw : 0 < cfg.w) (G : GridGens)
    (hnf : flawed cfg G = false) (hlegal : GridWrapLegal n cfg)
    (p : Nat → Rat) (hp : p ∈ gridSet G) (p' : Nat → Rat) (himg : p' ∈ Spec.wrapImages cfg p) :
    ∃ R, gridWrapAssign n cfg G = .ok R ∧ p' ∈ gridSet R :=
  gridWrapAssign_sound n cfg hw G hnf hlegal p p' hp himg

/-! ## `OVERFLOW_WRAPS` -/

/-- the point obtained from `p` (integer values `z i` on `vars`) by wrapping those coordinates -/
def wrappedPoint (cfg : WrapCfg) (p : Nat → Rat) (z : Nat → Int) : Nat → Rat :=
  fun i => if i ∈ cfg.vars then ((wrapR cfg.r cfg.w (z i) : Int) : Rat) else p i

/-- the guard-free configuration has the same outcome on a legal call -/
theorem outcome_noguard (n : Nat) (cfg : WrapCfg) (G : GridGens) (hlegal : GridWrapLegal n cfg) :
    gridWrapAssign n { cfg with guard := none } G = gridWrapAssign n cfg G := by
  apply grid_wrap_guard_unused
  · unfold guardTooBig
    cases hg : cfg.guard with
    | none => rfl
    | some cs => have := hlegal.1 cs hg; simp only [decide_eq_false_iff_not]; omega
  · rfl

/-- **grid_wrap_sound_wraps** (partial): for every point `p` of the grid whose coordinates on `vars` are integers,
the point obtained by wrapping those coordinates into `[min,max]` modulo `2^w` is in the result — for every grid,
`vars`, width, signedness and (dimension-compatible) guard, provided no wrapped variable goes through the branch of
Grid_public.cc:3118-3120.  Missing for full strength: exactly the calls of `grid_wrap_sound_wraps_fails`. -/
theorem grid_wrap_sound_wraps_partial (n : Nat) (cfg : WrapCfg) (hw : 0 < cfg.w) (ho : cfg.o = .wraps) (G : GridGens)
    (hnf : flawed cfg G = false) (hlegal : GridWrapLegal n cfg)
    (p : Nat → Rat) (hp : p ∈ gridSet G) (z : Nat → Int) (hint : ∀ i ∈ cfg.vars, p i = (z i : Rat)) :
    ∃ R, gridWrapAssign n cfg G = .ok R ∧ wrappedPoint cfg p z ∈ gridSet R := by
  rw [← outcome_noguard n cfg G hlegal]
  apply gridWrapAssign_sound n { cfg with guard := none } hw G hnf ⟨fun cs h => (by cases h), hlegal.2⟩ p _ hp
  refine ⟨?_, ?_, ?_⟩
  · intro i hi; simp only [wrappedPoint]; rw [if_neg hi]
  · intro i hi
    refine ⟨z i, hint i hi, ?_⟩
    simp only [ho, wrappedPoint]
    rw [if_pos hi]
  · intro cs h; cases h

namespace GridWitness

/-- `A = B`, `3A ≡ 1 (mod 256)`: the points `(a, a)`, `a ∈ 1/3 + (256/3)ℤ` -/
def G : GridGens := .gens { pt := [1/3, 1/3], params := [[256/3, 256/3]], lines := [] }
/-- `A` to unsigned 8 bits, overflow wraps -/
def cfg : WrapCfg := ⟨[0], 8, .unsigned, .wraps, none, 16, false⟩
/-- what `Grid::wrap_assign` returns (the real library returns exactly this grid: case `gp8` of the harness) -/
def R : GridGens := .gens { pt := [-85, -85], params := [[256, 256]], lines := [] }

theorem outcome : gridWrapAssign 2 cfg G = .ok R := by decide +kernel
theorem isFlawed : flawed cfg G = true := by decide +kernel
theorem p_mem : memB G [-341, -341] = true := by decide +kernel
theorem img_not_mem : memB R [171, -341] = false := by decide +kernel
theorem legal : Legal 2 cfg := ⟨fun cs h => (by cases h), by decide⟩

/-- `A ∈ (1/2)ℤ`, `B = A + 1/2`, both wrapped -/
def G2 : GridGens := .gens { pt := [0, 1/2], params := [[1/2, 1/2]], lines := [] }
def cfg2 : WrapCfg := ⟨[0, 1], 8, .unsigned, .wraps, none, 16, false⟩
theorem outcome2 : gridWrapAssign 2 cfg2 G2 = .invalidGenerator .empty := by decide +kernel
theorem legal2 : Legal 2 cfg2 := ⟨fun cs h => (by cases h), by decide⟩

/-- a relational grid on which the theorems apply: `A = B`, `A ≡ 0 (mod 300)` -/
def G3 : GridGens := .gens { pt := [0, 0], params := [[300, 300]], lines := [] }
theorem notFlawed3 : flawed cfg G3 = false := by decide +kernel
theorem p3_mem : memB G3 [300, 300] = true := by decide +kernel

end GridWitness

/-- **KF-C17-12**: overflow wraps, `A = B` and `3A ≡ 1 (mod 256)`, `A` wrapped to unsigned 8 bits: `frequency_no_check`
reports frequency `256/3` and the representative `1/3`; the branch of Grid_public.cc:3118-3120 only adds `A ≡ 0 (mod 1)`,
the result is `{A = B, A ≡ 171 (mod 256)}`; the point `(-341,-341)` wraps to `(171,-341)`, which is lost. -/
theorem grid_wrap_sound_wraps_fails :
    ¬ ∀ (n : Nat) (cfg : WrapCfg) (G : GridGens), 0 < cfg.w → cfg.o = .wraps → GridWrapLegal n cfg →
      ∀ (p : Nat → Rat), p ∈ gridSet G → ∀ (z : Nat → Int), (∀ i ∈ cfg.vars, p i = (z i : Rat)) →
      ∃ R, gridWrapAssign n cfg G = .ok R ∧ wrappedPoint cfg p z ∈ gridSet R := by
  intro h
  obtain ⟨R, hR, hmem⟩ := h 2 GridWitness.cfg GridWitness.G (by decide) rfl GridWitness.legal
    (Vec.toFun [-341, -341]) ((C05.memB_iff _ _).mp GridWitness.p_mem) (fun _ => -341)
    (by intro i hi
        simp only [GridWitness.cfg, List.mem_cons, List.mem_nil_iff, or_false] at hi
        subst hi; simp [Vec.toFun])
  rw [GridWitness.outcome] at hR
  cases hR
  have himg : wrappedPoint GridWitness.cfg (Vec.toFun [-341, -341]) (fun _ => -341) = Vec.toFun [171, -341] := by
    funext i
    match i with
    | 0 => simp [wrappedPoint, GridWitness.cfg, Vec.toFun, wrapR, wrapU, pow2]
    | 1 => simp [wrappedPoint, GridWitness.cfg, Vec.toFun]
    | i + 2 => simp [wrappedPoint, GridWitness.cfg, Vec.toFun]
  rw [himg] at hmem
  have := (C05.memB_iff _ _).mpr hmem
  rw [GridWitness.img_not_mem] at this
  cases this

/-- non-vacuity of `grid_wrap_sound_wraps_partial`: a relational grid of frequency 300 > 2⁸ (the seeded change S-C17-2) -/
example : ∃ R, gridWrapAssign 2 GridWitness.cfg GridWitness.G3 = .ok R ∧
    wrappedPoint GridWitness.cfg (Vec.toFun [300, 300]) (fun _ => 300) ∈ gridSet R :=
  grid_wrap_sound_wraps_partial 2 GridWitness.cfg (by decide) rfl GridWitness.G3 GridWitness.notFlawed3 GridWitness.legal
    (Vec.toFun [300, 300]) ((C05.memB_iff _ _).mp GridWitness.p3_mem) (fun _ => 300)
    (by intro i hi
        simp only [GridWitness.cfg, List.mem_cons, List.mem_nil_iff, or_false] at hi
        subst hi; simp [Vec.toFun])

/-! ## `OVERFLOW_UNDEFINED` -/

/-- **grid_wrap_sound_undefined**: every point that agrees with `p` off `vars` and has, on each wrapped coordinate, the
value of `p` when that is in range and any in-range integer otherwise (per-coordinate reading, as the Grid
documentation states and as `C17.wrap_sound` reads it: `Spec.CoordImage`) is in the result — every grid, `vars`,
width, signedness, guard within the space dimension. -/
theorem grid_wrap_sound_undefined (n : Nat) (cfg : WrapCfg) (hw : 0 < cfg.w) (ho : cfg.o = .undefined) (G : GridGens)
    (hlegal : GridWrapLegal n cfg)
    (p : Nat → Rat) (hp : p ∈ gridSet G) (z : Nat → Int) (hint : ∀ i ∈ cfg.vars, p i = (z i : Rat))
    (p' : Nat → Rat) (hoff : ∀ i, i ∉ cfg.vars → p' i = p i)
    (hon : ∀ i ∈ cfg.vars, (inRange cfg.r cfg.w (z i) ∧ p' i = (z i : Rat)) ∨
      (¬ inRange cfg.r cfg.w (z i) ∧ ∃ z' : Int, inRange cfg.r cfg.w z' ∧ p' i = (z' : Rat))) :
    ∃ R, gridWrapAssign n cfg G = .ok R ∧ p' ∈ gridSet R := by
  rw [← outcome_noguard n cfg G hlegal]
  apply gridWrapAssign_sound n { cfg with guard := none } hw G
    (flawed_of_not_wraps _ G (by simp [ho])) ⟨fun cs h => (by cases h), hlegal.2⟩ p _ hp
  refine ⟨hoff, ?_, ?_⟩
  · intro i hi
    refine ⟨z i, hint i hi, ?_⟩
    simp only [ho]
    exact hon i hi
  · intro cs h; cases h

/-- `{200}` to signed 8 bits: 200 overflows, every in-range integer (e.g. −7) is in the result -/
example : ∃ R, gridWrapAssign 1 ⟨[0], 8, .signed, .undefined, none, 16, false⟩ (.gens { pt := [200], params := [], lines := [] }) = .ok R ∧
    Vec.toFun [-7] ∈ gridSet R :=
  grid_wrap_sound_undefined 1 _ (by decide) rfl _ ⟨fun cs h => (by cases h), by decide⟩ (Vec.toFun [200])
    ((C05.memB_iff _ _).mp (by decide +kernel)) (fun _ => 200)
    (by intro i hi; simp only [List.mem_cons, List.mem_nil_iff, or_false] at hi; subst hi; simp [Vec.toFun])
    (Vec.toFun [-7])
    (by intro i hi
        have : i ≠ 0 := fun h => hi (by simp [h])
        match i with
        | 0 => exact absurd rfl this
        | i + 1 => simp [Vec.toFun])
    (by intro i hi
        simp only [List.mem_cons, List.mem_nil_iff, or_false] at hi; subst hi
        right
        exact ⟨by decide, -7, by decide, by simp [Vec.toFun]⟩)

/-! ## `OVERFLOW_IMPOSSIBLE` -/

/-- **grid_wrap_sound_impossible**: every point of the grid with integer in-range coordinates on `vars` is in the result —
every grid, `vars`, width, signedness, guard within the space dimension. -/
theorem grid_wrap_sound_impossible (n : Nat) (cfg : WrapCfg) (hw : 0 < cfg.w) (ho : cfg.o = .impossible) (G : GridGens)
    (hlegal : GridWrapLegal n cfg)
    (p : Nat → Rat) (hp : p ∈ gridSet G) (z : Nat → Int) (hint : ∀ i ∈ cfg.vars, p i = (z i : Rat))
    (hin : ∀ i ∈ cfg.vars, inRange cfg.r cfg.w (z i)) :
    ∃ R, gridWrapAssign n cfg G = .ok R ∧ p ∈ gridSet R := by
  rw [← outcome_noguard n cfg G hlegal]
  apply gridWrapAssign_sound n { cfg with guard := none } hw G
    (flawed_of_not_wraps _ G (by simp [ho])) ⟨fun cs h => (by cases h), hlegal.2⟩ p _ hp
  refine ⟨fun _ _ => rfl, ?_, ?_⟩
  · intro i hi
    refine ⟨z i, hint i hi, ?_⟩
    simp only [ho]
    exact ⟨hin i hi, hint i hi⟩
  · intro cs h; cases h

/-- the witness of the repaired KF-C17-4: `A ≡ 0 (mod 128)` to unsigned 8 bits keeps 128 -/
example : ∃ R, gridWrapAssign 1 ⟨[0], 8, .unsigned, .impossible, none, 16, false⟩ (.gens { pt := [0], params := [[128]], lines := [] }) = .ok R ∧
    Vec.toFun [128] ∈ gridSet R :=
  grid_wrap_sound_impossible 1 _ (by decide) rfl _ ⟨fun cs h => (by cases h), by decide⟩ (Vec.toFun [128])
    ((C05.memB_iff _ _).mp (by decide +kernel)) (fun _ => 128)
    (by intro i hi; simp only [List.mem_cons, List.mem_nil_iff, or_false] at hi; subst hi; simp [Vec.toFun])
    (by intro i _; decide)

/-! ## exceptions -/

/-- a dimension exception is thrown by, and only by, the two checks at the top of the function (`*cs_p` or `vars`
beyond the space dimension); the receiver is then unchanged -/
theorem grid_wrap_dimension_exception (n : Nat) (cfg : WrapCfg) (G : GridGens) :
    gridWrapAssign n cfg G = .dimensionIncompatible ↔
      guardTooBig n cfg.guard = true ∨ (cfg.vars.isEmpty = false ∧ n < varsSpaceDim cfg.vars) :=
  gridWrapAssign_dim n cfg G

example : gridWrapAssign 1 ⟨[1], 8, .unsigned, .wraps, none, 16, false⟩ (univ 1) = .dimensionIncompatible := by decide +kernel

/-- **KF-C17-13**: a legal call can leave through `throw_invalid_generator` of `add_grid_generator` (Grid_public.cc:1311):
`A ∈ (1/2)ℤ`, `B = A + 1/2`, both wrapped, overflow wraps — the integrality congruences empty the receiver inside the
loop, the next `add_grid_generator(parameter(2^w·B))` throws `std::invalid_argument`. -/
theorem grid_wrap_throws_fails :
    ¬ ∀ (n : Nat) (cfg : WrapCfg) (G : GridGens), GridWrapLegal n cfg → ∀ l, gridWrapAssign n cfg G ≠ .invalidGenerator l := by
  intro h
  exact h 2 GridWitness.cfg2 GridWitness.G2 GridWitness.legal2 .empty GridWitness.outcome2

/-- the exception is possible only when overflow wraps; the receiver is left empty; and (outside the branch of KF-C17-12)
only when no point of the argument has a wrapped image at all, so that no image is lost -/
theorem grid_wrap_throws_only_without_images (n : Nat) (cfg : WrapCfg) (hw : 0 < cfg.w) (G l : GridGens)
    (h : gridWrapAssign n cfg G = .invalidGenerator l) :
    gridSet l = ∅ ∧ cfg.o = .wraps ∧
      (flawed cfg G = false → GridWrapLegal n cfg → ∀ p ∈ gridSet G, ∀ p', p' ∉ Spec.wrapImages cfg p) := by
  obtain ⟨he, ho⟩ := gridWrapAssign_invalidGenerator n cfg G l h
  refine ⟨(C05.isEmpty_iff l).mp he, ho, ?_⟩
  intro hnf hlegal p hp p' himg
  obtain ⟨R, hR, _⟩ := gridWrapAssign_sound n cfg hw G hnf hlegal p p' hp himg
  rw [h] at hR; cases hR

/-- `OVERFLOW_UNDEFINED` and `OVERFLOW_IMPOSSIBLE` never throw on a legal call -/
theorem grid_wrap_no_throw_unless_wraps (n : Nat) (cfg : WrapCfg) (G : GridGens) (ho : cfg.o ≠ .wraps)
    (hlegal : GridWrapLegal n cfg) : ∃ R, gridWrapAssign n cfg G = .ok R := by
  cases hout : gridWrapAssign n cfg G with
  | ok R => exact ⟨R, rfl⟩
  | dimensionIncompatible =>
    exfalso
    rcases (gridWrapAssign_dim n cfg G).mp hout with h | ⟨_, h⟩
    · unfold guardTooBig at h
      cases hg : cfg.guard with
      | none => rw [hg] at h; cases h
      | some cs => rw [hg] at h; have := hlegal.1 cs hg; simp only [decide_eq_true_eq] at h; omega
    · have := hlegal.2; omega
  | invalidGenerator l => exact absurd (gridWrapAssign_invalidGenerator n cfg G l hout).2 ho

example : ∃ R, gridWrapAssign 2 { GridWitness.cfg2 with o := .undefined } GridWitness.G2 = .ok R :=
  grid_wrap_no_throw_unless_wraps 2 _ _ (by decide) GridWitness.legal2

end C17
