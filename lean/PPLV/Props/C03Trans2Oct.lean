import PPLV.WR.TransOct2ProofsRefine
import PPLV.WR.TransOct2ProofsBndMain
import Mathlib.Tactic.IntervalCases
import Mathlib.Tactic.NormNum
/-!
# C03 — the transformers of `Octagonal_Shape<T>`, for every bound type (stage 5, part A)

Statements about the code-shaped models of `PPLV/WR/TransOct2.lean`, `PPLV/WR/TransOct2Gen.lean`
(`/repo/src/Octagonal_Shape_templates.hh`: `add_constraint`, `refine_no_check`, `unconstrain`, the private
`refine(var, relsym, expr, den)`, `generalized_affine_image(var, …)`, `bounded_affine_image`, `affine_preimage`,
`generalized_affine_preimage(var, …)`).  Vocabulary of `Props/C03Trans.lean`: a bound is an extended rational, the
directed operations of the bound type are an arbitrary `R : Rnd` with `R.Sound`; `OctM.γ m` / `γO n m` is the set
of valuations satisfying every stored entry; `upd x var t` is `x[var := t]`.

* `oct_refine_sound`, `oct_add_constraint_sound`, `oct_unconstrain_sound` — FULL strength.
* `oct_generalized_affine_image_sound_partial` — every rounding, matrix, expression, denominator, relation, closed
  flag; side conditions of stage 3 only (`CoeffExact`, `HalfFiniteOn` of the closed matrix);
  `…_special` (constant, `±den*var + b`, `±den*w + b`): no side condition; `…_mpq`, `…_mpz`.
* `oct_refine_var_sound_partial` — private `refine(var, relsym, expr, den)`: besides the stage-3 side conditions it
  EXCLUDES the branch of the open finding KF-C03-75/76 (`GREATER_OR_EQUAL`, general case, one unbounded variable
  `u > var` with `expr.coefficient(u) == den`: `Octagonal_Shape_templates.hh:5111` stores the cell of `v + u <= sum`
  where `u - v <= sum` is meant); `oct_refine_var_sound_fails` shows that the code as written is not sound there,
  `oct_refine_var_sound_repaired` is the statement for the repaired cell (`octRefineVarV true`).
* `oct_affine_preimage_sound_partial`, `oct_generalized_affine_preimage_sound_partial` (+ `_repaired`) — side
  conditions as for `BD_Shape` in stage 3 (coefficients and `|den|` representable) and `HalfFiniteOn`; the second
  inherits the exclusion of KF-C03-75.
* `oct_bounded_affine_image_sound_special_partial` — `lb_expr` constant or `±den*w + b` with `w ≠ var`, any
  `ub_expr`: stage-3 side conditions only.
* `oct_bounded_affine_image_sound_partial` — ALL branches (also `lb_expr == ±den*var + b` through an additional
  dimension, and the general `lb_expr`), with two hypotheses beyond `CoeffExact` / `HalfFiniteOn` of the closed
  matrix: (1) `hmono`: the rounding is monotone — used by the general `lb_expr` only: its lower-bound kernel
  (`deduce_minus_v_pm_u_bounds`) reads unary cells that the inner `generalized_affine_image(var, ≤, ub_expr, den)`
  (incremental closure) may have LOWERED while the sum was accumulated over the old cells; every real `T` rounds
  monotonically, the excluded point is a non-monotone rounding, which no instantiation has: not a candidate defect;
  (2) `hmid`: `HalfFiniteOn` of the intermediate matrix `octBoundedExtraMid` (after `affine_image(new_var, lb_expr,
  den)`) — used by the extra-dimension branch only, where `ub_expr` is approximated over the unary cells left by
  that inner call; halving a finite value of `T` never overflows, but an abstract `up` does not say so.
  `…_mpq`, `…_mpz`: no side condition.
-/
set_option linter.unusedVariables false
set_option linter.unnecessarySeqFocus false
set_option linter.unusedTactic false
set_option linter.unreachableTactic false
namespace C03
open PPLV.WR
open PPLV.WR.ExtRat (fin pinf)

/-! ## `refine_no_check(const Constraint&)`, `add_constraint` -/

/-- every point of the octagon that satisfies `cf·x + inhomo ⋈ 0` is in the refined octagon (which is never
marked empty then), and entries only decrease.  Non-octagonal constraints are ignored.  No closure is run. -/
theorem oct_refine_sound (R : Rnd) (hR : R.Sound) {n : ℕ} (m : OctM n) (sd : ℕ) (cf : ℕ → ℤ)
    (inhomo : ℤ) (kind : CKind) :
    ∀ x ∈ OctM.γ m, CSat cf sd inhomo kind x →
      match octRefineNoCheck R n sd cf inhomo kind m.e with
      | .ok m' => x ∈ γO n m' ∧ MLe m' m.e
      | .empty => False
      | .throws => False := by
  intro x hx hc
  exact octRefineNoCheck_sound_raw hR.up_le cf inhomo kind m.e ((OctM.sat_iff_holds m x).1 hx) hc

/-- `add_constraint`: the same (it throws on non-octagonal and on non-trivial strict constraints). -/
theorem oct_add_constraint_sound (R : Rnd) (hR : R.Sound) {n : ℕ} (m : OctM n) (sd : ℕ) (cf : ℕ → ℤ)
    (inhomo : ℤ) (kind : CKind) :
    ∀ x ∈ OctM.γ m, CSat cf sd inhomo kind x →
      match octAddConstraint R n sd cf inhomo kind m.e with
      | .ok m' => x ∈ γO n m' ∧ MLe m' m.e
      | .empty => False
      | .throws => True := by
  intro x hx hc
  exact octAddConstraint_sound_raw hR.up_le cf inhomo kind m.e ((OctM.sat_iff_holds m x).1 hx) hc

/-! ## `unconstrain(var)` -/

theorem oct_unconstrain_sound (R : Rnd) (hR : R.Sound) {n : ℕ} (m : OctM n) (closed : Bool) (vid : ℕ)
    (hv : vid < n) :
    ∀ x ∈ OctM.γ m, ∀ t : ℚ, ∃ m', octUnconstrain R closed vid m = some m' ∧ upd x vid t ∈ γO n m' :=
  fun x hx t => octUnconstrain_sound hR hv closed m hx t

/-! ## `generalized_affine_image(var, relsym, expr, den)` -/

/-- every `x'` that agrees with a point `x` of the octagon off `var` and has `x'_var relsym expr(x)/den` is in the
result (which is not marked empty). -/
theorem oct_generalized_affine_image_sound_partial (R : Rnd) (hR : R.Sound) {n : ℕ} (m : OctM n) (closed : Bool)
    (vid : ℕ) (hv : vid < n) (rel : RelSym) (e : ℕ → ℤ) (b den : ℤ) (hden : den ≠ 0) (hc : CoeffExact R e)
    (hh : ∀ m', octCloseFirst R.up closed m = some m' → HalfFiniteOn R.up m') :
    ∀ x ∈ OctM.γ m, ∀ t : ℚ, RelSym.holds rel t ((linEval e x n + b) / den) →
      ∃ m', octGenAffineImage R closed vid rel e b den m = some m' ∧ upd x vid t ∈ γO n m' :=
  octGenAffineImage_sound hR m closed hv rel hden hc hh

/-- the forms `expr == b`, `±den*var + b`, `±den*w + b`: no side condition at all. -/
theorem oct_generalized_affine_image_sound_special (R : Rnd) (hR : R.Sound) {n : ℕ} (m : OctM n) (closed : Bool)
    (vid : ℕ) (hv : vid < n) (rel : RelSym) (e : ℕ → ℤ) (b den : ℤ) (hden : den ≠ 0)
    (hsp : exprT e (lastNonzero e n) = 0 ∨
      (exprT e (lastNonzero e n) = 1 ∧ (e (lastNonzero e n - 1) = den ∨ e (lastNonzero e n - 1) = - den))) :
    ∀ x ∈ OctM.γ m, ∀ t : ℚ, RelSym.holds rel t ((linEval e x n + b) / den) →
      ∃ m', octGenAffineImage R closed vid rel e b den m = some m' ∧ upd x vid t ∈ γO n m' :=
  octGenAffineImage_special_sound hR m closed hv rel hden hsp

/-- `Octagonal_Shape<mpq_class>` -/
theorem oct_generalized_affine_image_sound_mpq {n : ℕ} (m : OctM n) (closed : Bool) (vid : ℕ) (hv : vid < n)
    (rel : RelSym) (e : ℕ → ℤ) (b den : ℤ) (hden : den ≠ 0) :
    ∀ x ∈ OctM.γ m, ∀ t : ℚ, RelSym.holds rel t ((linEval e x n + b) / den) →
      ∃ m', octGenAffineImage Rnd.exact closed vid rel e b den m = some m' ∧ upd x vid t ∈ γO n m' :=
  oct_generalized_affine_image_sound_partial _ Rnd.exact_sound m closed vid hv rel e b den hden (Rnd.exact_coeff e)
    (fun m' _ => halfFiniteOn_exact m')

/-- `Octagonal_Shape<mpz_class>` -/
theorem oct_generalized_affine_image_sound_mpz {n : ℕ} (m : OctM n) (closed : Bool) (vid : ℕ) (hv : vid < n)
    (rel : RelSym) (e : ℕ → ℤ) (b den : ℤ) (hden : den ≠ 0) :
    ∀ x ∈ OctM.γ m, ∀ t : ℚ, RelSym.holds rel t ((linEval e x n + b) / den) →
      ∃ m', octGenAffineImage Rnd.ceil closed vid rel e b den m = some m' ∧ upd x vid t ∈ γO n m' :=
  oct_generalized_affine_image_sound_partial _ Rnd.ceil_sound m closed vid hv rel e b den hden (Rnd.ceil_coeff e)
    (fun m' _ => halfFiniteOn_ceil m')

/-! ## private `refine(var, relsym, expr, den)` (called with `expr.coefficient(var) == 0`) -/

/-- the code as written: every point `x` of the octagon with `x_var relsym expr(x)/den` stays in the refined
octagon (the function never marks the shape empty) — for `relsym` other than `≥`, or when no variable after `var`
has the coefficient `den` (the branch of KF-C03-75 cannot be taken). -/
theorem oct_refine_var_sound_partial (R : Rnd) (hR : R.Sound) {n : ℕ} (m : Mat) (vid : ℕ) (hv : vid < n)
    (rel : RelSym) (e : ℕ → ℤ) (hev : e vid = 0) (b den : ℤ) (hden : den ≠ 0) (hc : CoeffExact R e)
    (hh : HalfFiniteOn R.up m) (hok : rel ≠ .ge ∨ ∀ u, vid < u → e u ≠ den) :
    ∀ x ∈ γO n m, RelSym.holds rel (x vid) ((linEval e x n + b) / den) →
      ∃ m', octRefineVar R n vid rel e b den m = some m' ∧ x ∈ γO n m' := by
  intro x hx ht
  exact ⟨_, rfl, octRefineVarV_sound false hR hv hc hev hden hh hx rel (Or.inr hok) ht⟩

/-- with the repaired cell (`n_var + 1` at `Octagonal_Shape_templates.hh:5111`): no exclusion. -/
theorem oct_refine_var_sound_repaired (R : Rnd) (hR : R.Sound) {n : ℕ} (m : Mat) (vid : ℕ) (hv : vid < n)
    (rel : RelSym) (e : ℕ → ℤ) (hev : e vid = 0) (b den : ℤ) (hden : den ≠ 0) (hc : CoeffExact R e)
    (hh : HalfFiniteOn R.up m) :
    ∀ x ∈ γO n m, RelSym.holds rel (x vid) ((linEval e x n + b) / den) →
      x ∈ γO n (octRefineVarV true R n vid rel e b den m).1 := by
  intro x hx ht
  exact octRefineVarV_sound true hR hv hc hev hden hh hx rel (Or.inl rfl) ht

/-- KF-C03-75: `{C = 0, A ≥ 0}` (strongly closed), `refine(A, ≥, B + C, 1)` -/
def exKF : OctM 3 := OctM.ofLists 3
  [[pinf, fin 0],
   [pinf, pinf],
   [pinf, pinf, pinf, pinf],
   [pinf, pinf, pinf, pinf],
   [pinf, pinf, pinf, pinf, pinf, fin 0],
   [pinf, pinf, pinf, pinf, fin 0, pinf]]
def eKF : ℕ → ℤ := fun i => if i = 1 then 1 else if i = 2 then 1 else 0
/-- `A = 1, B = 1, C = 0` -/
def ptKF : ℕ → ℚ := fun i => if i = 2 then 0 else 1

theorem ptKF_mem : ptKF ∈ γO 3 exKF.e := by
  intro i j hij
  obtain ⟨hi, hj⟩ := hij
  interval_cases i <;> simp only [rowSize] at hj <;> interval_cases j <;>
    simp [exKF, OctM.ofLists, Mat.diagUp_apply, Mat.ofLists, OctM.oval, ptKF] <;> norm_num

/-- the code stores `A + B ≤ 0` (cell `[2·1+1][2·0]`) where `B - A ≤ 0` is meant -/
theorem oct_refine_var_fails_entry : (octRefineVarV false Rnd.exact 3 0 .ge eKF 0 1 exKF.e).1 3 0 = fin 0 := by
  decide +kernel

/-- WITHOUT the exclusion the statement of `oct_refine_var_sound_partial` is false for the code as written:
the point `(1, 1, 0)` of `{C = 0, A ≥ 0}` satisfies `A ≥ B + C` and is cut away. -/
theorem oct_refine_var_sound_fails :
    ¬ (∀ (R : Rnd), R.Sound → ∀ {n : ℕ} (m : Mat) (vid : ℕ), vid < n → ∀ (rel : RelSym) (e : ℕ → ℤ), e vid = 0 →
        ∀ (b den : ℤ), den ≠ 0 → CoeffExact R e → HalfFiniteOn R.up m →
          ∀ x ∈ γO n m, RelSym.holds rel (x vid) ((linEval e x n + b) / den) →
            ∃ m', octRefineVar R n vid rel e b den m = some m' ∧ x ∈ γO n m') := by
  intro h
  obtain ⟨m', hm', hx'⟩ := h Rnd.exact Rnd.exact_sound (n := 3) exKF.e 0 (by norm_num) .ge eKF (by decide) 0 1
    (by norm_num) (Rnd.exact_coeff eKF) (halfFiniteOn_exact _) ptKF ptKF_mem
    (by simp [RelSym.holds, linEval, eKF, ptKF])
  have hm : m' = (octRefineVarV false Rnd.exact 3 0 .ge eKF 0 1 exKF.e).1 := by
    simp [octRefineVar, octRefineVarF] at hm'; exact hm'.symm
  subst hm
  have := hx' 3 0 ⟨by norm_num, by simp [rowSize]⟩
  rw [oct_refine_var_fails_entry] at this
  simp [ExtRat.fin_le_fin, OctM.oval, ptKF] at this
  norm_num at this

/-! ## `affine_preimage`, `generalized_affine_preimage(var, relsym, expr, den)` -/

/-- every `x` whose image `x[var := expr(x)/den]` is in the octagon is in the result.  The invertible cases go
through `affine_image` with the inverse expression, whose coefficient of `var` is `±den`: besides the
coefficients, `|den|` must be representable (as for `BD_Shape`). -/
theorem oct_affine_preimage_sound_partial (R : Rnd) (hR : R.Sound) {n : ℕ} (m : OctM n) (closed : Bool) (vid : ℕ)
    (hv : vid < n) (e : ℕ → ℤ) (b den : ℤ) (hden : den ≠ 0) (hc : CoeffExact R e)
    (hcd : R.up ((absI den : ℤ) : ℚ) = fin ((absI den : ℤ) : ℚ))
    (hh : ∀ m', octCloseFirst R.up closed m = some m' → HalfFiniteOn R.up m') :
    ∀ x, upd x vid ((linEval e x n + b) / den) ∈ OctM.γ m →
      ∃ m', octAffinePreimage R closed vid e b den m = some m' ∧ x ∈ γO n m' :=
  octAffinePreimage_sound hR m closed hv hden hc hcd hh

theorem oct_affine_preimage_sound_mpq {n : ℕ} (m : OctM n) (closed : Bool) (vid : ℕ) (hv : vid < n) (e : ℕ → ℤ)
    (b den : ℤ) (hden : den ≠ 0) :
    ∀ x, upd x vid ((linEval e x n + b) / den) ∈ OctM.γ m →
      ∃ m', octAffinePreimage Rnd.exact closed vid e b den m = some m' ∧ x ∈ γO n m' :=
  oct_affine_preimage_sound_partial _ Rnd.exact_sound m closed vid hv e b den hden (Rnd.exact_coeff e) rfl
    (fun m' _ => halfFiniteOn_exact m')

theorem oct_affine_preimage_sound_mpz {n : ℕ} (m : OctM n) (closed : Bool) (vid : ℕ) (hv : vid < n) (e : ℕ → ℤ)
    (b den : ℤ) (hden : den ≠ 0) :
    ∀ x, upd x vid ((linEval e x n + b) / den) ∈ OctM.γ m →
      ∃ m', octAffinePreimage Rnd.ceil closed vid e b den m = some m' ∧ x ∈ γO n m' :=
  oct_affine_preimage_sound_partial _ Rnd.ceil_sound m closed vid hv e b den hden (Rnd.ceil_coeff e)
    (by simp only [Rnd.ceil, upCeil]; rw [Rat.ceil_intCast]) (fun m' _ => halfFiniteOn_ceil m')

/-- every `x` for which some `x' = x[var := t]` with `t relsym expr(x)/den` is in the octagon, is in the result
(invertible: `generalized_affine_image` of the inverse relation; otherwise the private `refine`, `is_empty()`,
`forget_all_octagonal_constraints`) — the code as written, outside the branch of KF-C03-75. -/
theorem oct_generalized_affine_preimage_sound_partial (R : Rnd) (hR : R.Sound) {n : ℕ} (m : OctM n)
    (closed : Bool) (vid : ℕ) (hv : vid < n) (rel : RelSym) (e : ℕ → ℤ) (b den : ℤ) (hden : den ≠ 0)
    (hc : CoeffExact R e) (hcd : R.up ((absI den : ℤ) : ℚ) = fin ((absI den : ℤ) : ℚ))
    (hh : ∀ m', octCloseFirst R.up closed m = some m' → HalfFiniteOn R.up m')
    (hok : rel ≠ .ge ∨ ∀ u, vid < u → e u ≠ den) :
    ∀ x, ∀ t : ℚ, upd x vid t ∈ OctM.γ m → RelSym.holds rel t ((linEval e x n + b) / den) →
      ∃ m', octGenAffinePreimage R closed vid rel e b den m = some m' ∧ x ∈ γO n m' :=
  octGenAffinePreimage_sound hR m closed hv rel hden hc hcd hh hok

/-- with the repaired `refine`: no exclusion. -/
theorem oct_generalized_affine_preimage_sound_repaired (R : Rnd) (hR : R.Sound) {n : ℕ} (m : OctM n)
    (closed : Bool) (vid : ℕ) (hv : vid < n) (rel : RelSym) (e : ℕ → ℤ) (b den : ℤ) (hden : den ≠ 0)
    (hc : CoeffExact R e) (hcd : R.up ((absI den : ℤ) : ℚ) = fin ((absI den : ℤ) : ℚ))
    (hh : ∀ m', octCloseFirst R.up closed m = some m' → HalfFiniteOn R.up m') :
    ∀ x, ∀ t : ℚ, upd x vid t ∈ OctM.γ m → RelSym.holds rel t ((linEval e x n + b) / den) →
      ∃ m', octGenAffinePreimageV true R closed vid rel e b den m = some m' ∧ x ∈ γO n m' :=
  octGenAffinePreimageV_sound true hR m closed hv rel hden hc hcd hh (Or.inl rfl)

theorem oct_generalized_affine_preimage_sound_mpz {n : ℕ} (m : OctM n) (closed : Bool) (vid : ℕ) (hv : vid < n)
    (rel : RelSym) (e : ℕ → ℤ) (b den : ℤ) (hden : den ≠ 0) (hok : rel ≠ .ge ∨ ∀ u, vid < u → e u ≠ den) :
    ∀ x, ∀ t : ℚ, upd x vid t ∈ OctM.γ m → RelSym.holds rel t ((linEval e x n + b) / den) →
      ∃ m', octGenAffinePreimage Rnd.ceil closed vid rel e b den m = some m' ∧ x ∈ γO n m' :=
  oct_generalized_affine_preimage_sound_partial _ Rnd.ceil_sound m closed vid hv rel e b den hden
    (Rnd.ceil_coeff e) (by simp only [Rnd.ceil, upCeil]; rw [Rat.ceil_intCast])
    (fun m' _ => halfFiniteOn_ceil m') hok

/-! ## `bounded_affine_image(var, lb_expr, ub_expr, den)` -/

/-- `lb_expr` constant or `±den*w + b` with `w ≠ var`, any `ub_expr`: every `x'` that agrees with a point `x` of
the octagon off `var` and has `lb(x)/den ≤ x'_var ≤ ub(x)/den` is in the result.  (`_partial`: the other two
branches of the code — `lb_expr == ±den*var + b` through an additional dimension, and the general `lb_expr` —
are modelled but not proved, see the header.) -/
theorem oct_bounded_affine_image_sound_special_partial (R : Rnd) (hR : R.Sound) {n : ℕ} (m : OctM n)
    (closed : Bool) (vid : ℕ) (hv : vid < n) (el : ℕ → ℤ) (bl : ℤ) (eu : ℕ → ℤ) (bu : ℤ) (den : ℤ)
    (hden : den ≠ 0) (hcu : CoeffExact R eu)
    (hh : ∀ m', octCloseFirst R.up closed m = some m' → HalfFiniteOn R.up m')
    (hsp : exprT el (lastNonzero el n) = 0 ∨
      (exprT el (lastNonzero el n) = 1 ∧ lastNonzero el n - 1 ≠ vid ∧
        (el (lastNonzero el n - 1) = den ∨ el (lastNonzero el n - 1) = - den))) :
    ∀ x ∈ OctM.γ m, ∀ t : ℚ, (linEval el x n + bl) / den ≤ t → t ≤ (linEval eu x n + bu) / den →
      ∃ m', octBoundedAffineImage R closed vid el bl eu bu den m = some m' ∧ upd x vid t ∈ γO n m' :=
  octBoundedAffineImage_special_sound hR m closed hv hden hcu hh hsp

/-- all branches of `bounded_affine_image`: every `x'` that agrees with a point `x` of the octagon off `var` and
has `lb(x)/den ≤ x'_var ≤ ub(x)/den` is in the result.  Beyond the stage-3 side conditions: `hmono` (monotone
rounding: general `lb_expr`), `hmid` (halving the unary cells of the intermediate matrix does not overflow:
extra-dimension branch), and the expressions have space dimension `≤ n` (checked by the code). -/
theorem oct_bounded_affine_image_sound_partial (R : Rnd) (hR : R.Sound)
    (hmono : ∀ a b : ℚ, a ≤ b → R.up a ≤ R.up b) {n : ℕ} (m : OctM n)
    (closed : Bool) (vid : ℕ) (hv : vid < n) (el : ℕ → ℤ) (bl : ℤ) (eu : ℕ → ℤ) (bu : ℤ) (den : ℤ)
    (hden : den ≠ 0) (hel : ∀ i, n ≤ i → el i = 0) (heu : ∀ i, n ≤ i → eu i = 0)
    (hcl : CoeffExact R el) (hcu : CoeffExact R eu)
    (hh : ∀ m', octCloseFirst R.up closed m = some m' → HalfFiniteOn R.up m')
    (hmid : ∀ m0 m1, octCloseFirst R.up closed m = some m0 → octBoundedExtraMid R n el bl den m0 = some m1 →
      HalfFiniteOn R.up m1) :
    ∀ x ∈ OctM.γ m, ∀ t : ℚ, (linEval el x n + bl) / den ≤ t → t ≤ (linEval eu x n + bu) / den →
      ∃ m', octBoundedAffineImage R closed vid el bl eu bu den m = some m' ∧ upd x vid t ∈ γO n m' :=
  octBoundedAffineImage_sound hR hmono m closed hv hden hel heu hcl hcu hh hmid

/-- `Octagonal_Shape<mpq_class>` -/
theorem oct_bounded_affine_image_sound_mpq {n : ℕ} (m : OctM n) (closed : Bool) (vid : ℕ) (hv : vid < n)
    (el : ℕ → ℤ) (bl : ℤ) (eu : ℕ → ℤ) (bu : ℤ) (den : ℤ) (hden : den ≠ 0)
    (hel : ∀ i, n ≤ i → el i = 0) (heu : ∀ i, n ≤ i → eu i = 0) :
    ∀ x ∈ OctM.γ m, ∀ t : ℚ, (linEval el x n + bl) / den ≤ t → t ≤ (linEval eu x n + bu) / den →
      ∃ m', octBoundedAffineImage Rnd.exact closed vid el bl eu bu den m = some m' ∧ upd x vid t ∈ γO n m' :=
  oct_bounded_affine_image_sound_partial _ Rnd.exact_sound octUpId_mono m closed vid hv el bl eu bu den hden hel heu
    (Rnd.exact_coeff el) (Rnd.exact_coeff eu) (fun m' _ => halfFiniteOn_exact m')
    (fun _ m1 _ _ => halfFiniteOn_exact m1)

/-- `Octagonal_Shape<mpz_class>` -/
theorem oct_bounded_affine_image_sound_mpz {n : ℕ} (m : OctM n) (closed : Bool) (vid : ℕ) (hv : vid < n)
    (el : ℕ → ℤ) (bl : ℤ) (eu : ℕ → ℤ) (bu : ℤ) (den : ℤ) (hden : den ≠ 0)
    (hel : ∀ i, n ≤ i → el i = 0) (heu : ∀ i, n ≤ i → eu i = 0) :
    ∀ x ∈ OctM.γ m, ∀ t : ℚ, (linEval el x n + bl) / den ≤ t → t ≤ (linEval eu x n + bu) / den →
      ∃ m', octBoundedAffineImage Rnd.ceil closed vid el bl eu bu den m = some m' ∧ upd x vid t ∈ γO n m' :=
  oct_bounded_affine_image_sound_partial _ Rnd.ceil_sound octUpCeil_mono m closed vid hv el bl eu bu den hden hel heu
    (Rnd.ceil_coeff el) (Rnd.ceil_coeff eu) (fun m' _ => halfFiniteOn_ceil m')
    (fun _ m1 _ _ => halfFiniteOn_ceil m1)

/-! ## non-vacuity: `0 ≤ x₀ ≤ 4`, `x₀ - x₁ ≤ 0`, `x₀ + x₁ ≤ 3` (rows `+x₀, -x₀, +x₁, -x₁`), the point `(1, 3/2)` -/

def exO2 : OctM 2 := OctM.ofLists 2
  [[pinf, fin 0],
   [fin 8, pinf],
   [fin 0, pinf, pinf, pinf],
   [fin 3, pinf, pinf, pinf]]

def ptO2 : ℕ → ℚ := fun i => if i = 0 then 1 else 3/2

theorem ptO2_mem : ptO2 ∈ OctM.γ exO2 := by
  intro i j hi hj
  interval_cases i <;> simp only [rowSize] at hj <;> interval_cases j <;>
    simp [exO2, OctM.ofLists, Mat.diagUp_apply, Mat.ofLists, OctM.oval, ptO2] <;> norm_num

/-- `2·x₀ + x₁` -/
def eO2 : ℕ → ℤ := fun i => if i = 0 then 2 else if i = 1 then 1 else 0
/-- `x₁` -/
def eW2 : ℕ → ℤ := fun i => if i = 1 then 1 else 0
/-- `2·x₁ - 2·x₀ - 1 ≥ 0` -/
def cO2 : ℕ → ℤ := fun i => if i = 0 then -2 else if i = 1 then 2 else 0

example : octExtractOctagonalDifference 2 cO2 (-1) = ⟨true, 2, 2, 0, 2, -1⟩ := by decide +kernel
-- one variable: the term is doubled, the cell is the unary one
example : octExtractOctagonalDifference 2 (fun i => if i = 1 then -3 else 0) 5 = ⟨true, 1, 3, 2, -3, 10⟩ := by
  decide +kernel
example : match octRefineNoCheck Rnd.exact 2 2 cO2 (-1) .ge exO2.e with
    | .ok m' => ptO2 ∈ γO 2 m' ∧ MLe m' exO2.e
    | .empty => False
    | .throws => False :=
  oct_refine_sound _ Rnd.exact_sound exO2 2 cO2 (-1) .ge ptO2 ptO2_mem
    (by simp [CSat, linEval, cO2, ptO2]; norm_num)
-- the stored cell: `x₀ - x₁ ≤ -1/2`
example : (match octRefineNoCheck Rnd.exact 2 2 cO2 (-1) .ge exO2.e with | .ok m' => m' 2 0 | _ => pinf)
    = fin (-1/2) := by decide +kernel

example : ∃ m', octUnconstrain Rnd.ceil false 0 exO2 = some m' ∧ upd ptO2 0 77 ∈ γO 2 m' :=
  oct_unconstrain_sound _ Rnd.ceil_sound exO2 false 0 (by norm_num) ptO2 ptO2_mem 77

-- general case over the integers: `x₀' ≤ (2·x₀ + x₁)/2` (`= 7/4` at the point), `x₀' = 1`
example : ∃ m', octGenAffineImage Rnd.ceil false 0 .le eO2 0 2 exO2 = some m' ∧ upd ptO2 0 1 ∈ γO 2 m' :=
  oct_generalized_affine_image_sound_mpz exO2 false 0 (by norm_num) .le eO2 0 2 (by norm_num) ptO2 ptO2_mem 1
    (by simp [RelSym.holds, linEval, eO2, ptO2]; norm_num)
-- `x₁' ≥ -x₁ + 1` through `octGenTranslate`
example : ∃ m', octGenAffineImage (Rnd.range (-126) 126) false 1 .ge (fun i => if i = 1 then -1 else 0) 1 1 exO2
    = some m' ∧ upd ptO2 1 5 ∈ γO 2 m' :=
  oct_generalized_affine_image_sound_special _ (Rnd.range_sound _ _ (by norm_num)) exO2 false 1 (by norm_num) .ge
    (fun i => if i = 1 then -1 else 0) 1 1 (by norm_num) (Or.inr (by decide +kernel)) ptO2 ptO2_mem 5
    (by simp [RelSym.holds, linEval, ptO2]; norm_num)

-- `refine(x₀, ≤, x₁, 1)`: the point has `x₀ = 1 ≤ 3/2 = x₁`
example : ∃ m', octRefineVar Rnd.exact 2 0 .le eW2 0 1 exO2.e = some m' ∧ ptO2 ∈ γO 2 m' :=
  oct_refine_var_sound_partial _ Rnd.exact_sound exO2.e 0 (by norm_num) .le eW2 (by decide) 0 1 (by norm_num)
    (Rnd.exact_coeff eW2) (halfFiniteOn_exact _) (Or.inl (by decide)) ptO2 ((OctM.sat_iff_holds _ _).1 ptO2_mem)
    (by simp [RelSym.holds, linEval, eW2, ptO2]; norm_num)

-- preimage of `x₀ := (2·x₀ + x₁)/3` (invertible): the point `(1, 3/2)` is mapped to `(7/6, 3/2)`, in the octagon
example : ∃ m', octAffinePreimage Rnd.exact false 0 eO2 0 3 exO2 = some m' ∧ ptO2 ∈ γO 2 m' :=
  oct_affine_preimage_sound_mpq exO2 false 0 (by norm_num) eO2 0 3 (by norm_num) ptO2 (by
    have : upd ptO2 0 ((linEval eO2 ptO2 2 + (0 : ℤ)) / (3 : ℤ)) = fun i => if i = 0 then 7/6 else 3/2 := by
      funext i; simp [upd, linEval, eO2, ptO2]; split_ifs <;> norm_num
    rw [this]
    intro i j hi hj
    interval_cases i <;> simp only [rowSize] at hj <;> interval_cases j <;>
      simp [exO2, OctM.ofLists, Mat.diagUp_apply, Mat.ofLists, OctM.oval] <;> norm_num)

-- preimage of `x₀ ≤ x₁` (through `refine`)
example : ∃ m', octGenAffinePreimage Rnd.ceil false 0 .le eW2 0 1 exO2 = some m' ∧ ptO2 ∈ γO 2 m' :=
  oct_generalized_affine_preimage_sound_mpz exO2 false 0 (by norm_num) .le eW2 0 1 (by norm_num)
    (Or.inl (by decide)) ptO2 1 (by
      have : upd ptO2 0 1 = ptO2 := by funext i; by_cases h : i = 0 <;> simp [upd, ptO2, h]
      rw [this]; exact ptO2_mem)
    (by simp [RelSym.holds, linEval, eW2, ptO2]; norm_num)

-- `x₁ - 2 ≤ x₀' ≤ 2·x₀ + x₁ + 1`
example : ∃ m', octBoundedAffineImage Rnd.exact false 0 eW2 (-2) eO2 1 1 exO2 = some m' ∧ upd ptO2 0 0 ∈ γO 2 m' :=
  oct_bounded_affine_image_sound_special_partial _ Rnd.exact_sound exO2 false 0 (by norm_num) eW2 (-2) eO2 1 1
    (by norm_num) (Rnd.exact_coeff eO2) (fun m' _ => halfFiniteOn_exact m') (Or.inr (by decide +kernel))
    ptO2 ptO2_mem 0 (by simp [linEval, eW2, ptO2]; norm_num) (by simp [linEval, eO2, ptO2]; norm_num)

-- the branch through an additional dimension: `x₀ - 1 ≤ x₀' ≤ 2·x₀ + x₁ + 1`, over the integers
example : ∃ m', octBoundedAffineImage Rnd.ceil false 0 (fun i => if i = 0 then 1 else 0) (-1) eO2 1 1 exO2 = some m' ∧
    upd ptO2 0 2 ∈ γO 2 m' :=
  oct_bounded_affine_image_sound_mpz exO2 false 0 (by norm_num) (fun i => if i = 0 then 1 else 0) (-1) eO2 1 1
    (by norm_num) (by intro i hi; simp; omega) (by intro i hi; simp [eO2]; omega)
    ptO2 ptO2_mem 2 (by simp [linEval, ptO2]) (by simp [linEval, eO2, ptO2]; norm_num)
-- the lower bound survives: `x₀' - x₀ ≥ -1` is lost with `x₀`, but `x₀' ≥ -1` (doubled cell `2`) is kept
example : ((octBoundedAffineImage Rnd.exact false 0 (fun i => if i = 0 then 1 else 0) (-1) eO2 1 1 exO2).map
    fun m => m 0 1) = some (fin 2) := by decide +kernel

-- general `lb_expr`: `(2·x₀ + x₁ - 4)/2 ≤ x₀' ≤ (2·x₀ + x₁)/2`
example : ∃ m', octBoundedAffineImage Rnd.exact false 0 eO2 (-4) eO2 0 2 exO2 = some m' ∧ upd ptO2 0 0 ∈ γO 2 m' :=
  oct_bounded_affine_image_sound_mpq exO2 false 0 (by norm_num) eO2 (-4) eO2 0 2 (by norm_num)
    (by intro i hi; simp [eO2]; omega) (by intro i hi; simp [eO2]; omega)
    ptO2 ptO2_mem 0 (by simp [linEval, eO2, ptO2]; norm_num) (by simp [linEval, eO2, ptO2]; norm_num)

end C03
