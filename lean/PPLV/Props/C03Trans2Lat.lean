import PPLV.WR.Trans2LatProofsMapExact
import PPLV.WR.Trans2LatProofsRemoveExact
import PPLV.WR.Trans2LatProofsDiff
import PPLV.WR.TransOct2LatProofsExact2Remove
import PPLV.WR.TransOct2LatProofsExact2FoldC
import PPLV.WR.TransOct2LatProofsMapExact
import PPLV.WR.Trans2LatProofsFoldExact
import Mathlib.Tactic.IntervalCases
import Mathlib.Tactic.NormNum
/-!
# C03 — lattice-style and dimension-changing operations of `BD_Shape<T>` and `Octagonal_Shape<T>`

Statements about the code-shaped models of `PPLV/WR/Trans2Lat.lean` (`BD_Shape_templates.hh`,
`BD_Shape_inlines.hh`) and `PPLV/WR/TransOct2Lat.lean` (`Octagonal_Shape_templates.hh`,
`Octagonal_Shape_inlines.hh`): `intersection_assign`, `upper_bound_assign`, `concatenate_assign`,
`add_space_dimensions_and_embed / _and_project`, `remove_space_dimensions`,
`remove_higher_space_dimensions`, `map_space_dimensions`, `expand_space_dimension`,
`fold_space_dimensions`.  Entry points take raw matrices, the space dimension, the closed flags, and
answer `Option LatRes` (`none` = marked empty; `dim`, `m`, `closed` afterwards).

`γB n m` / `γO n m` is the set of valuations `ℕ → ℚ` satisfying every (stored) cell of the raw matrix.
`_sound` theorems hold for EVERY rounding `R` with `R.Sound` (none of these operations converts a
coefficient: no side condition); theorems without an `R.Sound` hypothesis hold for every `R` whatsoever
(the operation performs no arithmetic).  `_exact` theorems that need the closure are about `Rnd.exact`.
The only hypotheses besides the preconditions of the C++ call (`var < n`, ids of `vars` `< n`, …) are
the class invariant `+∞` on the main diagonal (`DBM n` / `bdsLatDiag`), where a cell of the diagonal is
copied or read.

Octagon exactness that needs the closure (`oct_upper_bound_exact`, `oct_remove_dims_exact`,
`oct_remove_higher_exact`, `oct_fold_exact`) rests on `OctM.strongClosure_isStronglyClosed` (the exact strong closure is strongly
closed) and `OctM.IsStronglyClosed.exists_point_ge` (a strongly closed matrix over `ℚ` is tight).
`bds_fold_exact` (least shape containing every folded piece; `DBM.closure_tight`) and `oct_map_dims_exact` (total injective map, no
closure: every bound type) are at the end of the file.  No model of `time_elapse_assign`
(round trip through `C_Polyhedron`).
-/
set_option linter.unusedVariables false
namespace C03
open PPLV.WR
open PPLV.WR.ExtRat (fin pinf)

/-! ## fixtures for the non-vacuity examples -/

/-- `0 ≤ x₀ ≤ 3`, `0 ≤ x₁ ≤ 4`, `x₁ - x₀ ≤ 1` -/
def latM1 : DBM 2 := DBM.ofLists 2
  [[pinf, fin 3, fin 4],
   [fin 0, pinf, fin 1],
   [fin 0, pinf, pinf]]

/-- `1 ≤ x₀ ≤ 2`, `x₀ - x₁ ≤ 0` -/
def latM2 : DBM 2 := DBM.ofLists 2
  [[pinf, fin 2, pinf],
   [fin (-1), pinf, pinf],
   [pinf, fin 0, pinf]]

def latP : ℕ → ℚ := fun i => if i = 0 then 1 else 2

theorem latP_mem1 : latP ∈ γB 2 latM1.e := by
  rw [← DBM.γ_eq]
  intro i j hi hj
  interval_cases i <;> interval_cases j <;>
    simp [latM1, DBM.ofLists, Mat.diagDown_apply, Mat.ofLists, DBM.val, latP] <;> norm_num

theorem latP_mem2 : latP ∈ γB 2 latM2.e := by
  rw [← DBM.γ_eq]
  intro i j hi hj
  interval_cases i <;> interval_cases j <;>
    simp [latM2, DBM.ofLists, Mat.diagDown_apply, Mat.ofLists, DBM.val, latP]

/-- an octagon around `(1, 2)`: `0 ≤ x₀ ≤ 3`, `0 ≤ x₁ ≤ 4`, `x₀ - x₁ ≤ 0`, `x₀ + x₁ ≤ 5`, `x₁ - x₀ ≤ 1` -/
def latO1 : OctM 2 := OctM.ofLists 2
  [[pinf, fin 0],
   [fin 6, pinf],
   [fin 0, pinf, pinf, fin 0],
   [fin 5, fin 1, fin 8, pinf]]

/-- `1 ≤ x₀ ≤ 2` -/
def latO2 : OctM 2 := OctM.ofLists 2
  [[pinf, fin (-2)],
   [fin 4, pinf],
   [pinf, pinf, pinf, pinf],
   [pinf, pinf, pinf, pinf]]

theorem latP_memO1 : latP ∈ γO 2 latO1.e := by
  rw [← OctM.γ_eq]
  intro i j hi hj
  interval_cases i <;> simp only [rowSize] at hj <;> interval_cases j <;>
    simp [latO1, OctM.ofLists, Mat.diagUp_apply, Mat.ofLists, OctM.oval, latP] <;> norm_num

theorem latP_memO2 : latP ∈ γO 2 latO2.e := by
  rw [← OctM.γ_eq]
  intro i j hi hj
  interval_cases i <;> simp only [rowSize] at hj <;> interval_cases j <;>
    simp [latO2, OctM.ofLists, Mat.diagUp_apply, Mat.ofLists, OctM.oval, latP] <;> norm_num

/-! ## `BD_Shape<T>` -/

/-- `intersection_assign`: a common point stays (every bound type, every flag) -/
theorem bds_intersection_sound (R : Rnd) (n : ℕ) (c1 c2 : Bool) (m1 m2 : Mat) :
    ∀ x, x ∈ γB n m1 → x ∈ γB n m2 →
      ∃ r, bdsLatIntersection R n c1 m1 c2 m2 = some r ∧ r.dim = n ∧ x ∈ γB n r.m :=
  fun x h1 h2 => bdsLatIntersection_sound R n c1 c2 m1 m2 h1 h2

example : ∃ r, bdsLatIntersection Rnd.ceil 2 false latM1.e true latM2.e = some r ∧ r.dim = 2 ∧ latP ∈ γB 2 r.m :=
  bds_intersection_sound _ 2 false true _ _ latP latP_mem1 latP_mem2

/-- `intersection_assign` is exact for EVERY bound type (it performs no arithmetic) -/
theorem bds_intersection_exact (R : Rnd) {n : ℕ} (c1 c2 : Bool) (m1 : Mat) (m2 : DBM n) :
    ∃ r, bdsLatIntersection R n c1 m1 c2 m2.e = some r ∧ r.dim = n ∧
      γB n r.m = γB n m1 ∩ γB n m2.e := by
  obtain ⟨r, e, hd, h⟩ := bdsLatIntersection_exact R n c1 c2 m1 m2.e m2.diag
  exact ⟨r, e, hd, Set.ext fun x => h x⟩

example : ∃ r, bdsLatIntersection (Rnd.range (-126) 126) 2 true latM1.e true latM2.e = some r ∧ r.dim = 2 ∧
    γB 2 r.m = γB 2 latM1.e ∩ γB 2 latM2.e := bds_intersection_exact _ true true _ latM2

/-- `upper_bound_assign`: a point of either argument is in the result, which is never marked empty then -/
theorem bds_upper_bound_sound (R : Rnd) (hR : R.Sound) (n : ℕ) (c1 c2 : Bool) (m1 m2 : Mat) :
    ∀ x, (x ∈ γB n m1 ∨ x ∈ γB n m2) →
      ∃ r, bdsLatUpperBound R n c1 m1 c2 m2 = some r ∧ r.dim = n ∧ x ∈ γB n r.m :=
  fun x h => bdsLatUpperBound_sound hR n c1 c2 m1 m2 h

example : ∃ r, bdsLatUpperBound Rnd.ceil 2 false latM1.e false latM2.e = some r ∧ r.dim = 2 ∧ latP ∈ γB 2 r.m :=
  bds_upper_bound_sound _ Rnd.ceil_sound 2 false false _ _ latP (Or.inl latP_mem1)

/-- `upper_bound_assign`, exact arithmetic, closure run inside (flags clear): the result is the LEAST
bounded-difference shape containing both arguments: it is contained in `γ d` for every matrix `d`
whose shape contains both -/
theorem bds_upper_bound_exact {n : ℕ} (m1 m2 : DBM n) :
    ∃ r, bdsLatUpperBound Rnd.exact n false m1.e false m2.e = some r ∧ r.dim = n ∧
      ∀ d : Mat, γB n m1.e ⊆ γB n d → γB n m2.e ⊆ γB n d → γB n r.m ⊆ γB n d :=
  bdsLatUpperBound_least n false false m1.e m2.e m1.diag m2.diag (fun h => by cases h) (fun h => by cases h)

/-- the same with arbitrary flags: a set closed flag has to mean what it says (`bdsLatCanon`: the shape
has a point and the matrix is the least one denoting it) -/
theorem bds_upper_bound_exact_flags {n : ℕ} (c1 c2 : Bool) (m1 m2 : DBM n)
    (hc1 : c1 = true → bdsLatCanon n m1.e) (hc2 : c2 = true → bdsLatCanon n m2.e) :
    ∃ r, bdsLatUpperBound Rnd.exact n c1 m1.e c2 m2.e = some r ∧ r.dim = n ∧
      ∀ d : Mat, γB n m1.e ⊆ γB n d → γB n m2.e ⊆ γB n d → γB n r.m ⊆ γB n d :=
  bdsLatUpperBound_least n c1 c2 m1.e m2.e m1.diag m2.diag hc1 hc2

example : ∃ r, bdsLatUpperBound Rnd.exact 2 false latM1.e false latM2.e = some r ∧ r.dim = 2 ∧
    ∀ d : Mat, γB 2 latM1.e ⊆ γB 2 d → γB 2 latM2.e ⊆ γB 2 d → γB 2 r.m ⊆ γB 2 d :=
  bds_upper_bound_exact latM1 latM2

/-- `concatenate_assign`: `z` whose first `n1` coordinates are a point of `*this` and whose next `n2`
coordinates are a point of `y` is in the result -/
theorem bds_concatenate_sound (R : Rnd) (n1 n2 : ℕ) (c1 c2 : Bool) (m1 m2 : Mat) :
    ∀ z, z ∈ γB n1 m1 → (fun i => z (n1 + i)) ∈ γB n2 m2 →
      ∃ r, bdsLatConcatenate R n1 c1 m1 n2 c2 m2 = some r ∧ r.dim = n1 + n2 ∧ z ∈ γB (n1 + n2) r.m :=
  fun z h1 h2 => bdsLatConcatenate_sound R n1 c1 m1 n2 c2 m2 h1 h2

/-- `concatenate_assign` is exact for EVERY bound type -/
theorem bds_concatenate_exact (R : Rnd) (n1 : ℕ) {n2 : ℕ} (c1 c2 : Bool) (m1 : Mat) (m2 : DBM n2) :
    ∃ r, bdsLatConcatenate R n1 c1 m1 n2 c2 m2.e = some r ∧ r.dim = n1 + n2 ∧
      ∀ z, z ∈ γB (n1 + n2) r.m ↔ (z ∈ γB n1 m1 ∧ (fun i => z (n1 + i)) ∈ γB n2 m2.e) :=
  bdsLatConcatenate_exact R n1 c1 m1 n2 c2 m2.e m2.diag

/-- the point `(1, 2, 1, 2)` -/
def latPP : ℕ → ℚ := fun i => if i = 0 ∨ i = 2 then 1 else 2

example : ∃ r, bdsLatConcatenate Rnd.ceil 2 true latM1.e 2 false latM2.e = some r ∧ r.dim = 4 ∧ latPP ∈ γB 4 r.m :=
  bds_concatenate_sound _ 2 2 true false _ _ latPP
    (latGammaB_congr (x := latP) (fun i hi => by interval_cases i <;> simp [latP, latPP]) latP_mem1)
    (latGammaB_congr (x := latP) (fun i hi => by interval_cases i <;> simp [latP, latPP]) latP_mem2)

/-- `add_space_dimensions_and_embed(k)`: the old coordinates decide (the new ones are unconstrained) -/
theorem bds_embed_exact (R : Rnd) (n : ℕ) (c : Bool) (m : Mat) (k : ℕ) :
    ∃ r, bdsLatEmbed R n c m k = some r ∧ r.dim = n + k ∧ ∀ z, z ∈ γB (n + k) r.m ↔ z ∈ γB n m :=
  bdsLatEmbed_spec R n c m k

theorem bds_embed_sound (R : Rnd) (n : ℕ) (c : Bool) (m : Mat) (k : ℕ) :
    ∀ z, z ∈ γB n m → ∃ r, bdsLatEmbed R n c m k = some r ∧ r.dim = n + k ∧ z ∈ γB (n + k) r.m := by
  intro z hz
  obtain ⟨r, e, hd, h⟩ := bdsLatEmbed_spec R n c m k
  exact ⟨r, e, hd, (h z).2 hz⟩

example : ∃ r, bdsLatEmbed Rnd.ceil 2 true latM1.e 3 = some r ∧ r.dim = 5 ∧ latP ∈ γB 5 r.m :=
  bds_embed_sound _ 2 true _ 3 latP latP_mem1

/-- `add_space_dimensions_and_project(k)`: the old coordinates are a point of the shape and the new
ones are `0` -/
theorem bds_project_exact (R : Rnd) (n : ℕ) (c : Bool) (m : Mat) (k : ℕ) :
    ∃ r, bdsLatProject R n c m k = some r ∧ r.dim = n + k ∧
      ∀ z, z ∈ γB (n + k) r.m ↔ (z ∈ γB n m ∧ ∀ i, n ≤ i → i < n + k → z i = 0) :=
  bdsLatProject_spec R n c m k

theorem bds_project_sound (R : Rnd) (n : ℕ) (c : Bool) (m : Mat) (k : ℕ) :
    ∀ z, z ∈ γB n m → (∀ i, n ≤ i → i < n + k → z i = 0) →
      ∃ r, bdsLatProject R n c m k = some r ∧ r.dim = n + k ∧ z ∈ γB (n + k) r.m := by
  intro z hz h0
  obtain ⟨r, e, hd, h⟩ := bdsLatProject_spec R n c m k
  exact ⟨r, e, hd, (h z).2 ⟨hz, h0⟩⟩

example : ∃ r, bdsLatProject Rnd.ceil 2 true latM1.e 1 = some r ∧ r.dim = 3 ∧
    (fun i => if i = 2 then 0 else latP i) ∈ γB 3 r.m :=
  bds_project_sound _ 2 true _ 1 _
    (latGammaB_congr (x := latP) (fun i hi => by simp; intro h; omega) latP_mem1)
    (fun i h1 h2 => by have : i = 2 := by omega
                       simp [this])

/-- `remove_space_dimensions(vars)`: for every point of the shape, the point with the removed
coordinates dropped (new coordinate `i` is the old dbm index `(bdsLatRemoveTable n vars)[i+1]`,
`bdsLatDropPoint`) is in the result, which is not marked empty -/
theorem bds_remove_dims_sound (R : Rnd) (hR : R.Sound) (n : ℕ) (c : Bool) (m : Mat) (vars : List ℕ)
    (hne : vars ≠ []) (hvs : ∀ v ∈ vars, v < n) :
    ∀ x, x ∈ γB n m → ∃ r, bdsLatRemoveDims R n c m vars = some r ∧ r.dim = n - vars.length ∧
      bdsLatDropPoint n vars x ∈ γB r.dim r.m :=
  fun x hx => bdsLatRemoveDims_sound hR n c m vars hne hvs hx

example : bdsLatRemoveTable 5 [1, 3] = [0, 1, 3, 5] := by decide
example : ∃ r, bdsLatRemoveDims Rnd.ceil 2 false latM1.e [0] = some r ∧ r.dim = 1 ∧
    bdsLatDropPoint 2 [0] latP ∈ γB r.dim r.m :=
  bds_remove_dims_sound _ Rnd.ceil_sound 2 false _ [0] (by simp) (by simp) latP latP_mem1
example : bdsLatDropPoint 2 [0] latP 0 = 2 := by
  simp [bdsLatDropPoint, bdsLatRemoveTable, bdsLatRemoveSrcs, DBM.val, latP]

/-- `remove_space_dimensions(vars)`, exact arithmetic, closure run inside (flag clear): the result is
EXACTLY the projection — every point of the result is the dropped image of a point of the shape, and
an empty answer means an empty shape -/
theorem bds_remove_dims_exact {n : ℕ} (m : DBM n) (vars : List ℕ) (hne : vars ≠ []) (hvs : ∀ v ∈ vars, v < n) :
    match bdsLatRemoveDims Rnd.exact n false m.e vars with
    | none => γB n m.e = ∅
    | some r => r.dim = n - vars.length ∧
        ∀ z, z ∈ γB r.dim r.m → ∃ x, x ∈ γB n m.e ∧ ∀ i, i < r.dim → bdsLatDropPoint n vars x i = z i :=
  bdsLatRemoveDims_exact n m.e m.diag vars hne hvs

example : match bdsLatRemoveDims Rnd.exact 2 false latM1.e [0] with
    | none => γB 2 latM1.e = ∅
    | some r => r.dim = 1 ∧
        ∀ z, z ∈ γB r.dim r.m → ∃ x, x ∈ γB 2 latM1.e ∧ ∀ i, i < r.dim → bdsLatDropPoint 2 [0] x i = z i :=
  bds_remove_dims_exact latM1 [0] (by simp) (by simp)

/-- `remove_higher_space_dimensions(newDim)` -/
theorem bds_remove_higher_sound (R : Rnd) (hR : R.Sound) (n : ℕ) (c : Bool) (m : Mat) (newDim : ℕ)
    (hnd : newDim ≤ n) :
    ∀ x, x ∈ γB n m → ∃ r, bdsLatRemoveHigher R n c m newDim = some r ∧ r.dim = newDim ∧ x ∈ γB newDim r.m :=
  fun x hx => bdsLatRemoveHigher_sound hR n c m newDim hnd hx

/-- exact arithmetic, closure run inside: the result is exactly the projection -/
theorem bds_remove_higher_exact {n : ℕ} (m : DBM n) (newDim : ℕ) (hnd : newDim < n) :
    match bdsLatRemoveHigher Rnd.exact n false m.e newDim with
    | none => γB n m.e = ∅
    | some r => r.dim = newDim ∧
        ∀ z, z ∈ γB newDim r.m → ∃ x, x ∈ γB n m.e ∧ ∀ i, i < newDim → x i = z i :=
  bdsLatRemoveHigher_exact n m.e m.diag newDim hnd

example : ∃ r, bdsLatRemoveHigher Rnd.exact 2 false latM1.e 1 = some r ∧ r.dim = 1 ∧ latP ∈ γB 1 r.m :=
  bds_remove_higher_sound _ Rnd.exact_sound 2 false _ 1 (by norm_num) latP latP_mem1

/-- `map_space_dimensions(pfunc)`: `y` with `y (pfunc i) = x i` on the domain of `pfunc` -/
theorem bds_map_dims_sound (R : Rnd) (hR : R.Sound) (n : ℕ) (c : Bool) (m : Mat) (pf : List (Option ℕ)) :
    ∀ x y, x ∈ γB n m → (∀ i, i < n → ∀ a, latMaps pf i = some a → y a = x i) →
      ∃ r, bdsLatMapDims R n c m pf = some r ∧ r.dim = latMapNewDim pf n ∧ y ∈ γB r.dim r.m :=
  fun x y hx hy => bdsLatMapDims_sound hR n c m pf hx hy

/-- the swap of the two coordinates -/
example : ∃ r, bdsLatMapDims Rnd.ceil 2 true latM1.e [some 1, some 0] = some r ∧
    r.dim = latMapNewDim [some 1, some 0] 2 ∧ (fun i => if i = 0 then (2 : ℚ) else 1) ∈ γB r.dim r.m :=
  bds_map_dims_sound _ Rnd.ceil_sound 2 true _ _ latP _ latP_mem1 (by
    intro i hi a ha
    interval_cases i <;> simp [latMaps] at ha <;> subst ha <;> simp [latP])
example : latMapNewDim [some 1, some 0] 2 = 2 := by decide

/-- `map_space_dimensions(pfunc)` for a total injective `pfunc` (`img i` the image of `Variable(i)`) that
does not shrink the space, i.e. when the code runs no closure (a permutation, or an injection into a
larger space): exact for EVERY bound type -/
theorem bds_map_dims_exact (R : Rnd) {n : ℕ} (c : Bool) (m : DBM n) (pf : List (Option ℕ)) (img : ℕ → ℕ)
    (himg : ∀ i, i < n → latMaps pf i = some (img i)) (hinj : latInjective pf n)
    (hns : ¬ latMaxInCodomain pf n + 1 < n) :
    ∃ r, bdsLatMapDims R n c m.e pf = some r ∧ r.dim = latMapNewDim pf n ∧
      ∀ y, y ∈ γB r.dim r.m ↔ (fun i => y (img i)) ∈ γB n m.e :=
  bdsLatMapDims_exact R n c m.e m.diag pf img himg hinj hns

example : ∃ r, bdsLatMapDims Rnd.ceil 2 false latM1.e [some 1, some 0] = some r ∧
    r.dim = latMapNewDim [some 1, some 0] 2 ∧
    ∀ y, y ∈ γB r.dim r.m ↔ (fun i => y ((fun i => if i = 0 then 1 else 0) i)) ∈ γB 2 latM1.e :=
  bds_map_dims_exact _ false latM1 _ (fun i => if i = 0 then 1 else 0)
    (by intro i hi; interval_cases i <;> simp [latMaps])
    (by intro i j a hi hj h1 h2
        interval_cases i <;> interval_cases j <;> simp [latMaps] at h1 h2 <;> omega)
    (by decide)

/-- `expand_space_dimension(var, k)`: the result is EXACTLY the set of the points `y` such that
substituting any of the copies (`var` itself or a new coordinate) for `var` gives a point of the shape
(every bound type) -/
theorem bds_expand_exact (R : Rnd) {n : ℕ} (c : Bool) (m : DBM n) (var k : ℕ) (hvar : var < n) :
    ∃ r, bdsLatExpand R n c m.e var k = some r ∧ r.dim = n + k ∧
      ∀ y, y ∈ γB (n + k) r.m ↔
        ∀ j, (j = var ∨ (n ≤ j ∧ j < n + k)) → upd y var (y j) ∈ γB n m.e :=
  bdsLatExpand_spec R n c m.e var k hvar m.diag

theorem bds_expand_sound (R : Rnd) {n : ℕ} (c : Bool) (m : DBM n) (var k : ℕ) (hvar : var < n) :
    ∀ y, (∀ j, (j = var ∨ (n ≤ j ∧ j < n + k)) → upd y var (y j) ∈ γB n m.e) →
      ∃ r, bdsLatExpand R n c m.e var k = some r ∧ r.dim = n + k ∧ y ∈ γB (n + k) r.m := by
  intro y hy
  obtain ⟨r, e, hd, h⟩ := bdsLatExpand_spec R n c m.e var k hvar m.diag
  exact ⟨r, e, hd, (h y).2 hy⟩

/-- `(1, 2, 1)`: the copy of `x₀` takes the same value -/
example : ∃ r, bdsLatExpand Rnd.ceil 2 true latM1.e 0 1 = some r ∧ r.dim = 3 ∧
    (fun i => if i = 1 then (2 : ℚ) else 1) ∈ γB 3 r.m :=
  bds_expand_sound _ true latM1 0 1 (by norm_num) _ (by
    intro j hj
    have e : upd (fun i => if i = 1 then (2 : ℚ) else 1) 0 ((fun i => if i = 1 then (2 : ℚ) else 1) j)
        = fun i => if i = 1 then (2 : ℚ) else 1 := by
      funext i
      rcases hj with rfl | ⟨h1, h2⟩
      · simp [upd]; intro h; omega
      · have : j = 2 := by omega
        subst this; simp [upd]; intro h; omega
    rw [e]
    exact latGammaB_congr (x := latP) (fun i hi => by interval_cases i <;> simp [latP]) latP_mem1)

/-- `fold_space_dimensions(vars, dest)`: for every point `x` of the shape and every `w ∈ vars ∪ {dest}`,
the point obtained by moving `x_w` to `dest` and dropping the coordinates `vars` is in the result -/
theorem bds_fold_sound (R : Rnd) (hR : R.Sound) (n : ℕ) (c : Bool) (m : Mat) (vars : List ℕ) (dest : ℕ)
    (hne : vars ≠ []) (hvs : ∀ v ∈ vars, v < n) (hdest : dest < n) :
    ∀ x w, x ∈ γB n m → (w = dest ∨ w ∈ vars) →
      ∃ r, bdsLatFold R n c m vars dest = some r ∧ r.dim = n - vars.length ∧
        bdsLatDropPoint n vars (upd x dest (x w)) ∈ γB r.dim r.m :=
  fun x w hx hw => bdsLatFold_sound hR n c m vars dest hne hvs hdest hx hw

example : ∃ r, bdsLatFold Rnd.ceil 2 false latM1.e [1] 0 = some r ∧ r.dim = 1 ∧
    bdsLatDropPoint 2 [1] (upd latP 0 (latP 1)) ∈ γB r.dim r.m :=
  bds_fold_sound _ Rnd.ceil_sound 2 false _ [1] 0 (by simp) (by simp) (by norm_num) latP 1 latP_mem1
    (Or.inr (by simp))

/-! ## `Octagonal_Shape<T>` -/

theorem oct_intersection_sound (R : Rnd) (n : ℕ) (c1 c2 : Bool) (m1 m2 : Mat) :
    ∀ x, x ∈ γO n m1 → x ∈ γO n m2 →
      ∃ r, octLatIntersection R n c1 m1 c2 m2 = some r ∧ r.dim = n ∧ x ∈ γO n r.m :=
  fun x h1 h2 => octLatIntersection_sound R n c1 c2 m1 m2 h1 h2

/-- exact for EVERY bound type -/
theorem oct_intersection_exact (R : Rnd) (n : ℕ) (c1 c2 : Bool) (m1 m2 : Mat) :
    ∃ r, octLatIntersection R n c1 m1 c2 m2 = some r ∧ r.dim = n ∧ γO n r.m = γO n m1 ∩ γO n m2 := by
  obtain ⟨r, e, hd, h⟩ := octLatIntersection_exact R n c1 c2 m1 m2
  exact ⟨r, e, hd, Set.ext fun x => h x⟩

example : ∃ r, octLatIntersection Rnd.ceil 2 true latO1.e false latO2.e = some r ∧ r.dim = 2 ∧ latP ∈ γO 2 r.m :=
  oct_intersection_sound _ 2 true false _ _ latP latP_memO1 latP_memO2

theorem oct_upper_bound_sound (R : Rnd) (hR : R.Sound) (n : ℕ) (c1 c2 : Bool) (m1 m2 : Mat) :
    ∀ x, (x ∈ γO n m1 ∨ x ∈ γO n m2) →
      ∃ r, octLatUpperBound R n c1 m1 c2 m2 = some r ∧ r.dim = n ∧ x ∈ γO n r.m :=
  fun x h => octLatUpperBound_sound hR n c1 c2 m1 m2 h

example : ∃ r, octLatUpperBound Rnd.ceil 2 false latO1.e false latO2.e = some r ∧ r.dim = 2 ∧ latP ∈ γO 2 r.m :=
  oct_upper_bound_sound _ Rnd.ceil_sound 2 false false _ _ latP (Or.inr latP_memO2)

theorem oct_concatenate_sound (R : Rnd) (n1 n2 : ℕ) (c1 c2 : Bool) (m1 m2 : Mat) :
    ∀ z, z ∈ γO n1 m1 → (fun i => z (n1 + i)) ∈ γO n2 m2 →
      ∃ r, octLatConcatenate R n1 c1 m1 n2 c2 m2 = some r ∧ r.dim = n1 + n2 ∧ z ∈ γO (n1 + n2) r.m :=
  fun z h1 h2 => octLatConcatenate_sound R n1 c1 m1 n2 c2 m2 h1 h2

/-- exact for EVERY bound type -/
theorem oct_concatenate_exact (R : Rnd) (n1 n2 : ℕ) (c1 c2 : Bool) (m1 m2 : Mat) :
    ∃ r, octLatConcatenate R n1 c1 m1 n2 c2 m2 = some r ∧ r.dim = n1 + n2 ∧
      ∀ z, z ∈ γO (n1 + n2) r.m ↔ (z ∈ γO n1 m1 ∧ (fun i => z (n1 + i)) ∈ γO n2 m2) :=
  octLatConcatenate_exact R n1 c1 m1 n2 c2 m2

example : ∃ r, octLatConcatenate Rnd.ceil 2 true latO1.e 2 false latO2.e = some r ∧ r.dim = 4 ∧ latPP ∈ γO 4 r.m :=
  oct_concatenate_sound _ 2 2 true false _ _ latPP
    (latGammaO_congr (x := latP) (fun i hi => by interval_cases i <;> simp [latP, latPP]) latP_memO1)
    (latGammaO_congr (x := latP) (fun i hi => by interval_cases i <;> simp [latP, latPP]) latP_memO2)

theorem oct_embed_exact (R : Rnd) (n : ℕ) (c : Bool) (m : Mat) (k : ℕ) :
    ∃ r, octLatEmbed R n c m k = some r ∧ r.dim = n + k ∧ ∀ z, z ∈ γO (n + k) r.m ↔ z ∈ γO n m :=
  octLatEmbed_spec R n c m k

theorem oct_embed_sound (R : Rnd) (n : ℕ) (c : Bool) (m : Mat) (k : ℕ) :
    ∀ z, z ∈ γO n m → ∃ r, octLatEmbed R n c m k = some r ∧ r.dim = n + k ∧ z ∈ γO (n + k) r.m := by
  intro z hz
  obtain ⟨r, e, hd, h⟩ := octLatEmbed_spec R n c m k
  exact ⟨r, e, hd, (h z).2 hz⟩

example : ∃ r, octLatEmbed Rnd.ceil 2 true latO1.e 3 = some r ∧ r.dim = 5 ∧ latP ∈ γO 5 r.m :=
  oct_embed_sound _ 2 true _ 3 latP latP_memO1

theorem oct_project_exact (R : Rnd) (n : ℕ) (c : Bool) (m : Mat) (k : ℕ) :
    ∃ r, octLatProject R n c m k = some r ∧ r.dim = n + k ∧
      ∀ z, z ∈ γO (n + k) r.m ↔ (z ∈ γO n m ∧ ∀ i, n ≤ i → i < n + k → z i = 0) :=
  octLatProject_spec R n c m k

theorem oct_project_sound (R : Rnd) (n : ℕ) (c : Bool) (m : Mat) (k : ℕ) :
    ∀ z, z ∈ γO n m → (∀ i, n ≤ i → i < n + k → z i = 0) →
      ∃ r, octLatProject R n c m k = some r ∧ r.dim = n + k ∧ z ∈ γO (n + k) r.m := by
  intro z hz h0
  obtain ⟨r, e, hd, h⟩ := octLatProject_spec R n c m k
  exact ⟨r, e, hd, (h z).2 ⟨hz, h0⟩⟩

example : ∃ r, octLatProject Rnd.ceil 2 true latO1.e 1 = some r ∧ r.dim = 3 ∧
    (fun i => if i = 2 then 0 else latP i) ∈ γO 3 r.m :=
  oct_project_sound _ 2 true _ 1 _
    (latGammaO_congr (x := latP) (fun i hi => by simp; intro h; omega) latP_memO1)
    (fun i h1 h2 => by have : i = 2 := by omega
                       simp [this])

/-- `remove_space_dimensions(vars)`: new coordinate `i` is the old coordinate
`(octLatRemoveTable n vars)[i]` (`octLatDropPoint`) -/
theorem oct_remove_dims_sound (R : Rnd) (hR : R.Sound) (n : ℕ) (c : Bool) (m : Mat) (vars : List ℕ)
    (hne : vars ≠ []) (hvs : ∀ v ∈ vars, v < n) :
    ∀ x, x ∈ γO n m → ∃ r, octLatRemoveDims R n c m vars = some r ∧ r.dim = n - vars.length ∧
      octLatDropPoint n vars x ∈ γO r.dim r.m :=
  fun x hx => octLatRemoveDims_sound hR n c m vars hne hvs hx

example : octLatRemoveTable 5 [1, 3] = [0, 2, 4] := by decide
example : ∃ r, octLatRemoveDims Rnd.ceil 2 false latO1.e [0] = some r ∧ r.dim = 1 ∧
    octLatDropPoint 2 [0] latP ∈ γO r.dim r.m :=
  oct_remove_dims_sound _ Rnd.ceil_sound 2 false _ [0] (by simp) (by simp) latP latP_memO1

theorem oct_remove_higher_sound (R : Rnd) (hR : R.Sound) (n : ℕ) (c : Bool) (m : Mat) (newDim : ℕ)
    (hnd : newDim ≤ n) :
    ∀ x, x ∈ γO n m → ∃ r, octLatRemoveHigher R n c m newDim = some r ∧ r.dim = newDim ∧ x ∈ γO newDim r.m :=
  fun x hx => octLatRemoveHigher_sound hR n c m newDim hnd hx

example : ∃ r, octLatRemoveHigher Rnd.ceil 2 false latO1.e 1 = some r ∧ r.dim = 1 ∧ latP ∈ γO 1 r.m :=
  oct_remove_higher_sound _ Rnd.ceil_sound 2 false _ 1 (by norm_num) latP latP_memO1

theorem oct_map_dims_sound (R : Rnd) (hR : R.Sound) (n : ℕ) (c : Bool) (m : Mat) (pf : List (Option ℕ)) :
    ∀ x y, x ∈ γO n m → (∀ i, i < n → ∀ a, latMaps pf i = some a → y a = x i) →
      ∃ r, octLatMapDims R n c m pf = some r ∧ r.dim = latMapNewDim pf n ∧ y ∈ γO r.dim r.m :=
  fun x y hx hy => octLatMapDims_sound hR n c m pf hx hy

example : ∃ r, octLatMapDims Rnd.ceil 2 true latO1.e [some 1, some 0] = some r ∧
    r.dim = latMapNewDim [some 1, some 0] 2 ∧ (fun i => if i = 0 then (2 : ℚ) else 1) ∈ γO r.dim r.m :=
  oct_map_dims_sound _ Rnd.ceil_sound 2 true _ _ latP _ latP_memO1 (by
    intro i hi a ha
    interval_cases i <;> simp [latMaps] at ha <;> subst ha <;> simp [latP])

/-- `expand_space_dimension(var, k)`: the result is EXACTLY the set of the points `y` such that substituting
any of the copies for `var` gives a point of the shape (every bound type, no hypothesis on the matrix) -/
theorem oct_expand_exact (R : Rnd) (n : ℕ) (c : Bool) (m : Mat) (var k : ℕ) (hvar : var < n) :
    ∃ r, octLatExpand R n c m var k = some r ∧ r.dim = n + k ∧
      ∀ y, y ∈ γO (n + k) r.m ↔
        ∀ j, (j = var ∨ (n ≤ j ∧ j < n + k)) → upd y var (y j) ∈ γO n m :=
  octLatExpand_spec R n c m var k hvar

theorem oct_expand_sound (R : Rnd) (n : ℕ) (c : Bool) (m : Mat) (var k : ℕ) (hvar : var < n) :
    ∀ y, (∀ j, (j = var ∨ (n ≤ j ∧ j < n + k)) → upd y var (y j) ∈ γO n m) →
      ∃ r, octLatExpand R n c m var k = some r ∧ r.dim = n + k ∧ y ∈ γO (n + k) r.m := by
  intro y hy
  obtain ⟨r, e, hd, h⟩ := octLatExpand_spec R n c m var k hvar
  exact ⟨r, e, hd, (h y).2 hy⟩

example : ∃ r, octLatExpand Rnd.ceil 2 true latO1.e 0 1 = some r ∧ r.dim = 3 ∧
    (fun i => if i = 1 then (2 : ℚ) else 1) ∈ γO 3 r.m :=
  oct_expand_sound _ 2 true _ 0 1 (by norm_num) _ (by
    intro j hj
    have e : upd (fun i => if i = 1 then (2 : ℚ) else 1) 0 ((fun i => if i = 1 then (2 : ℚ) else 1) j)
        = fun i => if i = 1 then (2 : ℚ) else 1 := by
      funext i
      rcases hj with rfl | ⟨h1, h2⟩
      · simp [upd]; intro h; omega
      · have : j = 2 := by omega
        subst this; simp [upd]; intro h; omega
    rw [e]
    exact latGammaO_congr (x := latP) (fun i hi => by interval_cases i <;> simp [latP]) latP_memO1)

/-- `fold_space_dimensions(vars, dest)` (`vars` ascending, as `Variables_Set` iterates): for every point
`x` of the shape and every `w ∈ vars ∪ {dest}`, the point obtained by moving `x_w` to `dest` and dropping
the coordinates `vars` is in the result -/
theorem oct_fold_sound (R : Rnd) (hR : R.Sound) (n : ℕ) (c : Bool) (m : Mat) (vars : List ℕ) (dest : ℕ)
    (hne : vars ≠ []) (hsorted : vars.Pairwise (· < ·)) (hvs : ∀ v ∈ vars, v < n) (hdest : dest < n) :
    ∀ x w, x ∈ γO n m → (w = dest ∨ w ∈ vars) →
      ∃ r, octLatFold R n c m vars dest = some r ∧ r.dim = n - vars.length ∧
        octLatDropPoint n vars (upd x dest (x w)) ∈ γO r.dim r.m :=
  fun x w hx hw => octLatFold_sound hR n c m vars dest hne hsorted hvs hdest hx hw

example : ∃ r, octLatFold Rnd.ceil 2 false latO1.e [1] 0 = some r ∧ r.dim = 1 ∧
    octLatDropPoint 2 [1] (upd latP 0 (latP 1)) ∈ γO r.dim r.m :=
  oct_fold_sound _ Rnd.ceil_sound 2 false _ [1] 0 (by simp) (by simp) (by simp) (by norm_num) latP 1 latP_memO1
    (Or.inr (by simp))

/-- `upper_bound_assign`, exact arithmetic, closure run inside (flags clear): the result is the LEAST octagon
containing both arguments: it is contained in `γ d` for every matrix `d` whose octagon contains both -/
theorem oct_upper_bound_exact {n : ℕ} (m1 m2 : OctM n) :
    ∃ r, octLatUpperBound Rnd.exact n false m1.e false m2.e = some r ∧ r.dim = n ∧
      ∀ d : Mat, γO n m1.e ⊆ γO n d → γO n m2.e ⊆ γO n d → γO n r.m ⊆ γO n d :=
  octLatUpperBound_least n false false m1.e m2.e m1.diag m2.diag (fun h => by cases h) (fun h => by cases h)

/-- the same with arbitrary flags: a set closed flag has to mean what it says (`octLatCanon`: the shape has a
point and every stored off-diagonal cell is the least bound of its shape; every strongly closed matrix is:
`octLatCanon_of_strong`) -/
theorem oct_upper_bound_exact_flags {n : ℕ} (c1 c2 : Bool) (m1 m2 : OctM n)
    (hc1 : c1 = true → octLatCanon n m1.e) (hc2 : c2 = true → octLatCanon n m2.e) :
    ∃ r, octLatUpperBound Rnd.exact n c1 m1.e c2 m2.e = some r ∧ r.dim = n ∧
      ∀ d : Mat, γO n m1.e ⊆ γO n d → γO n m2.e ⊆ γO n d → γO n r.m ⊆ γO n d :=
  octLatUpperBound_least n c1 c2 m1.e m2.e m1.diag m2.diag hc1 hc2

example : ∃ r, octLatUpperBound Rnd.exact 2 false latO1.e false latO2.e = some r ∧ r.dim = 2 ∧
    ∀ d : Mat, γO 2 latO1.e ⊆ γO 2 d → γO 2 latO2.e ⊆ γO 2 d → γO 2 r.m ⊆ γO 2 d :=
  oct_upper_bound_exact latO1 latO2

/-- every rounding, both arguments marked strongly closed and canonical (subsumed for `Rnd.exact` by
`oct_upper_bound_exact_flags`; kept because it holds for EVERY bound type: no closure is run) -/
theorem oct_upper_bound_exact_partial (R : Rnd) (n : ℕ) (m1 m2 : Mat) (hc1 : octLatCanon n m1)
    (hc2 : octLatCanon n m2) :
    ∃ r, octLatUpperBound R n true m1 true m2 = some r ∧ r.dim = n ∧ r.closed = true ∧
      ∀ d : Mat, γO n m1 ⊆ γO n d → γO n m2 ⊆ γO n d → γO n r.m ⊆ γO n d :=
  octLatUpperBound_least_closed R n m1 m2 hc1 hc2

/-- `remove_space_dimensions(vars)`, exact arithmetic, closure run inside (flag clear): the result is EXACTLY
the projection — every point of the result is the dropped image of a point of the shape, and an empty answer
means an empty shape -/
theorem oct_remove_dims_exact {n : ℕ} (m : OctM n) (vars : List ℕ) (hne : vars ≠ []) (hvs : ∀ v ∈ vars, v < n) :
    match octLatRemoveDims Rnd.exact n false m.e vars with
    | none => γO n m.e = ∅
    | some r => r.dim = n - vars.length ∧
        ∀ z, z ∈ γO r.dim r.m → ∃ x, x ∈ γO n m.e ∧ ∀ i, i < r.dim → octLatDropPoint n vars x i = z i :=
  octLatRemoveDims_exact n m.e m.diag vars hne hvs

example : match octLatRemoveDims Rnd.exact 2 false latO1.e [0] with
    | none => γO 2 latO1.e = ∅
    | some r => r.dim = 1 ∧
        ∀ z, z ∈ γO r.dim r.m → ∃ x, x ∈ γO 2 latO1.e ∧ ∀ i, i < r.dim → octLatDropPoint 2 [0] x i = z i :=
  oct_remove_dims_exact latO1 [0] (by simp) (by simp)

/-- `remove_higher_space_dimensions(newDim)`, exact arithmetic, closure run inside: exact projection -/
theorem oct_remove_higher_exact {n : ℕ} (m : OctM n) (newDim : ℕ) (hnd : newDim < n) :
    match octLatRemoveHigher Rnd.exact n false m.e newDim with
    | none => γO n m.e = ∅
    | some r => r.dim = newDim ∧
        ∀ z, z ∈ γO newDim r.m → ∃ x, x ∈ γO n m.e ∧ ∀ i, i < newDim → x i = z i :=
  octLatRemoveHigher_exact n m.e m.diag newDim hnd

example : match octLatRemoveHigher Rnd.exact 2 false latO1.e 1 with
    | none => γO 2 latO1.e = ∅
    | some r => r.dim = 1 ∧
        ∀ z, z ∈ γO 1 r.m → ∃ x, x ∈ γO 2 latO1.e ∧ ∀ i, i < 1 → x i = z i :=
  oct_remove_higher_exact latO1 1 (by norm_num)

/-- `fold_space_dimensions(vars, dest)` (`vars` ascending, `dest ∉ vars`), exact arithmetic, closure run inside
(flag clear): the octagon hull of the folded pieces is not their union, the exact statement is that the result is
the LEAST octagon containing every piece — for every matrix `d` of the result dimension whose octagon contains
all the pieces `octLatDropPoint n vars (upd x dest (x w))` (`x` a point of the shape, `w ∈ vars ∪ {dest}`),
`γ result ⊆ γ d`; an empty answer means an empty shape.  (With `oct_fold_sound`: the result contains the pieces.) -/
theorem oct_fold_exact {n : ℕ} (m : OctM n) (vars : List ℕ) (dest : ℕ) (hne : vars ≠ [])
    (hsorted : vars.Pairwise (· < ·)) (hvs : ∀ v ∈ vars, v < n) (hdest : dest < n) (hdv : dest ∉ vars) :
    match octLatFold Rnd.exact n false m.e vars dest with
    | none => γO n m.e = ∅
    | some r => r.dim = n - vars.length ∧
        ∀ d : Mat, (∀ x w, x ∈ γO n m.e → (w = dest ∨ w ∈ vars) →
            octLatDropPoint n vars (upd x dest (x w)) ∈ γO r.dim d) → γO r.dim r.m ⊆ γO r.dim d :=
  octLatFold_exact n m.e m.diag vars dest hne hsorted hvs hdest hdv

example : match octLatFold Rnd.exact 2 false latO1.e [1] 0 with
    | none => γO 2 latO1.e = ∅
    | some r => r.dim = 1 ∧
        ∀ d : Mat, (∀ x w, x ∈ γO 2 latO1.e → (w = 0 ∨ w ∈ [1]) →
            octLatDropPoint 2 [1] (upd x 0 (x w)) ∈ γO r.dim d) → γO r.dim r.m ⊆ γO r.dim d :=
  oct_fold_exact latO1 [1] 0 (by simp) (by simp) (by simp) (by norm_num) (by simp)

/-- the 0-dimensional octagon is canonical -/
example : octLatCanon 0 latO1.e :=
  ⟨⟨latP, fun a b hab => by have := hab.1; omega⟩, fun d _ i j hi _ _ => by omega⟩

/-! ## `difference_assign`: the control flow over abstract pieces

`contains`, `constraints`, `relation_with`, `add_constraint`, `is_empty` are arguments of the model
(`yContainsX`, `pieces`: see `bdsLatDifference`); what is proved is that the accumulation of the joins keeps
every point of every piece that was joined. -/

theorem bds_difference_pieces_sound (R : Rnd) (hR : R.Sound) (n : ℕ) (hn : n ≠ 0) (c1 c2 : Bool) (m1 m2 : Mat)
    (pieces : List (Option Mat)) :
    ∀ x y z p, x ∈ γB n m1 → y ∈ γB n m2 → some z ∈ pieces → p ∈ γB n z →
      ∃ r, bdsLatDifference R n c1 m1 c2 m2 false pieces = some r ∧ p ∈ γB n r.m :=
  fun x y z p hx hy hz hp => bdsLatDifference_sound hR n hn c1 c2 m1 m2 pieces hx hy hz hp

theorem oct_difference_pieces_sound (R : Rnd) (hR : R.Sound) (n : ℕ) (hn : n ≠ 0) (c1 c2 : Bool) (m1 m2 : Mat)
    (pieces : List (Option Mat)) :
    ∀ x z p, x ∈ γO n m1 → some z ∈ pieces → p ∈ γO n z →
      ∃ r, octLatDifference R n c1 m1 c2 m2 false pieces = some r ∧ p ∈ γO n r.m :=
  fun x z p hx hz hp => octLatDifference_sound hR n hn c1 c2 m1 m2 pieces hx hz hp

example : ∃ r, bdsLatDifference Rnd.ceil 2 false latM1.e false latM2.e false [none, some latM1.e] = some r ∧
    latP ∈ γB 2 r.m :=
  bds_difference_pieces_sound _ Rnd.ceil_sound 2 (by norm_num) false false _ _ _ latP latP latM1.e latP
    latP_mem1 latP_mem2 (by simp) latP_mem1

/-! ## `oct_map_dims_exact`, `bds_fold_exact` (proofs: `TransOct2LatProofsMapExact.lean`, `Trans2LatProofsFoldExact.lean`) -/

/-- `map_space_dimensions(pfunc)` for a total injective `pfunc` (`img i` the image of `Variable(i)`) that
does not shrink the space, i.e. when the code runs no closure: exact for EVERY bound type and EVERY matrix
(no hypothesis on the diagonal: the octagon loop nest copies the diagonal cells too) -/
theorem oct_map_dims_exact (R : Rnd) (n : ℕ) (c : Bool) (m : Mat) (pf : List (Option ℕ)) (img : ℕ → ℕ)
    (himg : ∀ i, i < n → latMaps pf i = some (img i)) (hinj : latInjective pf n)
    (hns : ¬ latMaxInCodomain pf n + 1 < n) :
    ∃ r, octLatMapDims R n c m pf = some r ∧ r.dim = latMapNewDim pf n ∧
      ∀ y, y ∈ γO r.dim r.m ↔ (fun i => y (img i)) ∈ γO n m :=
  octLatMapDims_exact R n c m pf img himg hinj hns

example : ∃ r, octLatMapDims Rnd.ceil 2 false latO1.e [some 1, some 0] = some r ∧
    r.dim = latMapNewDim [some 1, some 0] 2 ∧
    ∀ y, y ∈ γO r.dim r.m ↔ (fun i => y ((fun i => if i = 0 then 1 else 0) i)) ∈ γO 2 latO1.e :=
  oct_map_dims_exact _ 2 false latO1.e _ (fun i => if i = 0 then 1 else 0)
    (by intro i hi; interval_cases i <;> simp [latMaps])
    (by intro i j a hi hj h1 h2
        interval_cases i <;> interval_cases j <;> simp [latMaps] at h1 h2 <;> omega)
    (by decide)

/-- `fold_space_dimensions(vars, dest)`, exact arithmetic, closure run inside (flag clear), non-empty shape:
the result is the LEAST bounded-difference shape containing every folded piece — it is contained in `γ d`
for every matrix `d` whose shape contains, for every point `x` and every `w ∈ vars ∪ {dest}`, the point
obtained by moving `x_w` to `dest` and dropping the coordinates `vars`.  `vars` ascending with ids `< n` (as
`Variables_Set` iterates); the other preconditions of the call (`dest < n`, `dest ∉ vars`) are not needed. -/
theorem bds_fold_exact {n : ℕ} (m : DBM n) (vars : List ℕ) (dest : ℕ) (hne : vars ≠ [])
    (hsorted : vars.Pairwise (· < ·)) (hvs : ∀ v ∈ vars, v < n) (hq : ∃ q, q ∈ γB n m.e) :
    ∃ r, bdsLatFold Rnd.exact n false m.e vars dest = some r ∧ r.dim = n - vars.length ∧
      ∀ d : Mat, (∀ x, x ∈ γB n m.e → ∀ w, (w = dest ∨ w ∈ vars) →
          bdsLatDropPoint n vars (upd x dest (x w)) ∈ γB r.dim d) → γB r.dim r.m ⊆ γB r.dim d :=
  bdsLatFold_exact n false m.e m.diag (fun h => by cases h) hq vars dest hne hsorted hvs

/-- the same with an arbitrary flag: a set closed flag has to mean what it says (`bdsLatCanon`) -/
theorem bds_fold_exact_flags {n : ℕ} (c : Bool) (m : DBM n) (hc : c = true → bdsLatCanon n m.e)
    (vars : List ℕ) (dest : ℕ) (hne : vars ≠ [])
    (hsorted : vars.Pairwise (· < ·)) (hvs : ∀ v ∈ vars, v < n) (hq : ∃ q, q ∈ γB n m.e) :
    ∃ r, bdsLatFold Rnd.exact n c m.e vars dest = some r ∧ r.dim = n - vars.length ∧
      ∀ d : Mat, (∀ x, x ∈ γB n m.e → ∀ w, (w = dest ∨ w ∈ vars) →
          bdsLatDropPoint n vars (upd x dest (x w)) ∈ γB r.dim d) → γB r.dim r.m ⊆ γB r.dim d :=
  bdsLatFold_exact n c m.e m.diag hc hq vars dest hne hsorted hvs

/-- folding `x₁` into `x₀` on `latM1` -/
example : ∃ r, bdsLatFold Rnd.exact 2 false latM1.e [1] 0 = some r ∧ r.dim = 2 - [1].length ∧
    ∀ d : Mat, (∀ x, x ∈ γB 2 latM1.e → ∀ w, (w = 0 ∨ w ∈ [1]) →
        bdsLatDropPoint 2 [1] (upd x 0 (x w)) ∈ γB r.dim d) → γB r.dim r.m ⊆ γB r.dim d :=
  bds_fold_exact latM1 [1] 0 (by simp) (by simp) (by simp) ⟨latP, latP_mem1⟩

end C03
