import PPLV.Solver.PendingProofsObj
import PPLV.Solver.PendingProofsErase2
import PPLV.Solver.PendingProofsFresh
import PPLV.Solver.PendingProofsE2E4

/-!
# C06 stage 3 (b)(c)(d) — the LP machinery of `MIP_Problem`, proved on the code-shaped model

Model: `PPLV/Solver/Pending.lean` (`PPLV.Solver.Pend`), a transliteration of `parse_constraints`,
`process_pending_constraints`, `merge_split_variable`, the two exact pricing rules, the simplex loop,
`erase_artificials`, `compute_generator`, `second_phase`, `is_lp_satisfiable` and the mutators of
/repo/src/MIP_Problem.cc; tied to the real code by exact replay of the private state
(harness/c06_tab.cc, `pplv_mip --tab`, checks/c06_tab.py).

* (b1) `tableau_setup_solutions`       the tableau set up for a fresh problem has, with the artificial columns 0
                                        and all columns ≥ 0, exactly the solutions projecting onto `sem cs`;
* (b2) `erase_artificials_valid`       removing the artificial columns (and the redundant rows) keeps them;
* (c)  `second_phase_sound`, `reoptimize_value_eq_fresh`, `reoptimize_value_eq_fresh_tableau`
                                        second_phase from ANY feasible basis is optimal / unbounded exactly when
                                        the LP is: in status and value a re-optimisation equals a fresh solve;
       `status_transitions`            the status transitions of the mutators and solvers (the full protocol
                                        with the feasible-basis invariant: `status_sound` in `C06TabIncr.lean`);
* (d)  `textbook_is_candidate`, `steepestEdgeExact_is_candidate`, `arbitrary_is_candidate`,
       `pricing_choice_irrelevant`, `pricing_same_answer`
                                        every pricing rule that picks a candidate column gives correct answers.

* end to end (problem never solved before): `setup_hands_canon_to_phase1`, `phase1_decides_feasibility`,
       `lp_fresh_correct` — status, witness `last_generator` and optimality against `Sat` / `Better`.

Not covered: termination (anti-cycling) — the loops are fuelled and every theorem has the hypothesis that the
fuel sufficed.  (b1) and the chain set-up → first phase for the INCREMENTAL case are in `C06TabIncr.lean`
(`incremental_setup_hands_over`, `lp_incremental_correct`, `status_sound`).
-/
namespace C06
open PPLV.Lin PPLV.Solver PPLV.Solver.Tab PPLV.Solver.Pend

/-! ### (d) pricing -/

/-- **`textbook_entering_index`**: the column returned, when non-zero, has a cost coefficient with the sign of
    the sign column (`isCandidate`), and 0 is returned iff no such column exists. -/
theorem textbook_is_candidate (cost : Row) :
    (textbookEntering cost ≠ 0 → isCandidate cost (textbookEntering cost) = true) ∧
    (textbookEntering cost = 0 ↔ ∀ j, isCandidate cost j = false) :=
  Pend.textbook_is_candidate cost

/-- **`steepest_edge_exact_entering_index`** (sparse variant, candidates compared from the last to the first):
    the same two facts, for every tableau and base. -/
theorem steepestEdgeExact_is_candidate (T : List Row) (cost : Row) (base : List Nat) :
    (steepestEdgeExact T cost base ≠ 0 → isCandidate cost (steepestEdgeExact T cost base) = true) ∧
    (steepestEdgeExact T cost base = 0 ↔ ∀ j, isCandidate cost j = false) :=
  Pend.steepestEdgeExact_is_candidate T cost base

/-- the float pricing modelled as an arbitrary proposal `choice`: same two facts for every `choice` -/
theorem arbitrary_is_candidate (choice : List Row → Row → List Nat → Nat) (T : List Row) (cost : Row) (base : List Nat) :
    (arbitraryEntering choice T cost base ≠ 0 → isCandidate cost (arbitraryEntering choice T cost base) = true) ∧
    (arbitraryEntering choice T cost base = 0 ↔ ∀ j, isCandidate cost j = false) :=
  Pend.arbitraryEntering_is_candidate choice T cost base

-- maximise x1 subject to x1 + s = 4: both rules pick column 1; at the optimum they return 0
example : textbookEntering [0, 1, 0, 1] = 1 ∧ steepestEdgeExact [[-4, 1, 1, 0]] [0, 1, 0, 1] [2] = 1 ∧
    textbookEntering [-4, 0, 1, -1] = 0 ∧ steepestEdgeExact [[-4, 1, 1, 0]] [-4, 0, 1, -1] [1] = 0 := by decide
-- ties go to the LAST candidate with steepest edge, to the first with textbook
example : steepestEdgeExact [[-4, 1, 1, 1, 0]] [0, 1, 1, 0, 1] [3] = 2 ∧ textbookEntering [0, 1, 1, 0, 1] = 1 := by decide

/-- a canonical feasible tableau: x1 + s − 4 = 0 with the slack basic, objective x1 -/
def exTab : Tab := ⟨[[-4, 1, 1, 0]], [0, 1, 0, 1], [2]⟩

theorem exTab_canon : Canon exTab := by
  have one : ∀ i, i < exTab.T.length → i = 0 := by intro i hi; simp [exTab] at hi; exact hi
  constructor
  · rfl
  · decide
  · intro i hi; rw [one i hi]; rfl
  · intro i hi; rw [one i hi]; decide
  · intro i hi; rw [one i hi]; decide
  · intro i j hi hj hij; exact absurd ((one i hi).trans (one j hj).symm) hij
  · intro i hi; rw [one i hi]; rfl
  · intro i hi; rw [one i hi]; rfl
  · decide
  · intro i hi; rw [one i hi]
    show (0 : Rat) ≤ -((-4 : Int) : Rat) / ((1 : Int) : Rat)
    norm_num

/-- (d) **the choice of the entering column is irrelevant for correctness.**  `ch` is ANY rule that returns a
    candidate column and returns 0 only when there is none (`ChooserOK`: proved for textbook, steepest-edge exact
    and every `arbitraryEntering choice`, i.e. whatever the float variant picks).  From a canonical feasible tableau
    (`Canon`), when the loop of `compute_simplex_using_*` terminates with `(ok, t')`:
    the solution set is unchanged; `t'` is canonical and feasible; the cost row denotes the same objective on the
    solutions; `ok = true` ("no candidate") ⇒ no non-negative solution beats `c'_0/c'_last`, and the basic solution
    of `t'` is a non-negative solution attaining it; `ok = false` ("candidate without exiting row") ⇒ there are
    non-negative solutions with arbitrarily large objective (the ray from the basic solution along the candidate). -/
theorem pricing_choice_irrelevant (ch : Chooser) (hch : ChooserOK ch) (fuel : Nat) (t : Tab) (ok : Bool) (t' : Tab)
    (hC : Canon t) (h : computeSimplexWith ch fuel t = some (ok, t')) :
    (∀ x, Sol t'.T x ↔ Sol t.T x) ∧ Canon t' ∧ (∀ x, Sol t.T x → objAt t'.cost x = objAt t.cost x) ∧
    (ok = true → ∀ x, Sol t.T x → NonnegPt t.cost.length x → objAt t.cost x ≤ basicObj t'.cost) ∧
    (ok = true → Sol t.T (basicPt t') ∧ NonnegPt t.cost.length (basicPt t') ∧ objAt t.cost (basicPt t') = basicObj t'.cost) ∧
    (ok = false → ∀ M : Rat, ∃ x, Sol t.T x ∧ NonnegPt t.cost.length x ∧ M < objAt t.cost x) :=
  Pend.pricing_choice_irrelevant ch hch fuel t ok t' hC h

theorem chooser_ok_all (choice : List Row → Row → List Nat → Nat) :
    ChooserOK textbookChooser ∧ ChooserOK steepestEdgeExact ∧ ChooserOK (arbitraryEntering choice) :=
  ⟨textbookChooser_ok, steepestEdgeExact_ok, arbitraryEntering_ok choice⟩

example : Canon exTab ∧
    computeSimplexWith textbookChooser 5 exTab = some (true, ⟨[[-4, 1, 1, 0]], [-4, 0, 1, -1], [1]⟩) ∧
    computeSimplexWith steepestEdgeExact 5 exTab = some (true, ⟨[[-4, 1, 1, 0]], [-4, 0, 1, -1], [1]⟩) :=
  ⟨exTab_canon, by decide, by decide⟩
-- maximise x1 with x1 − s − 1 = 0 (x1 ≥ 1), x1 basic: the slack column is a candidate without exiting row
example : computeSimplexWith textbookChooser 5 ⟨[[-1, 1, -1, 0]], [-1, 0, -1, -1], [1]⟩ =
    some (false, ⟨[[-1, 1, -1, 0]], [-1, 0, -1, -1], [1]⟩) := by decide

/-- (d) **all pricing rules return the same STATUS and VALUE** (textbook, steepest-edge exact, float). -/
theorem pricing_same_answer (ch1 ch2 : Chooser) (h1 : ChooserOK ch1) (h2 : ChooserOK ch2)
    (f1 f2 : Nat) (t r1 r2 : Tab) (ok1 ok2 : Bool) (hC : Canon t)
    (hr1 : computeSimplexWith ch1 f1 t = some (ok1, r1)) (hr2 : computeSimplexWith ch2 f2 t = some (ok2, r2)) :
    ok1 = ok2 ∧ (ok1 = true → basicObj r1.cost = basicObj r2.cost) :=
  Pend.pricing_same_answer ch1 ch2 h1 h2 f1 f2 t r1 r2 ok1 ok2 hC hr1 hr2

/-! ### (b2) erase_artificials -/

/-- (b2) **`erase_artificials` is valid.**  The artificial columns `[b, e)` are the trailing columns before the
    sign column (`e = numCols − 1`); the first phase ended with value 0, so that every artificial still in the
    base is 0 in the basic solution (`ArtInv`: such a row has inhomogeneous term 0).  Then the new tableau has
    `b + 1` columns and, on every valuation that is 0 on the artificial and sign columns (`NoArt b`), exactly the
    solutions of the old one (pivots keep solutions; a row dropped as redundant is `0 = 0` on the remaining
    columns: `redundant_row_zero`). -/
theorem erase_artificials_valid (b e numCols : Nat) (t : Tab) (hb : 1 ≤ b) (hbe : b < e) (he : e = numCols - 1)
    (h : ArtInv b e t) :
    (eraseArtificials b e numCols t).2 = b + 1 ∧
    (eraseArtificials b e numCols t).1.base.length = (eraseArtificials b e numCols t).1.T.length ∧
    ∀ y, NoArt b y → (Sol (eraseArtificials b e numCols t).1.T y ↔ Sol t.T y) :=
  Pend.erase_artificials_valid b e numCols t hb hbe he h

theorem redundant_rows_are_zero_rows {r : Row} {b : Nat} (h : firstNonzeroIn r 1 b = none) (h0 : r.get 0 = 0) :
    ∀ j, j < b → r.get j = 0 :=
  Pend.redundant_row_zero h h0

-- two rows with the artificial column 2 basic at value 0: the first pivots on x1, the second is redundant
example : eraseArtificials 2 3 4 ⟨[[0, 1, 1, 0], [0, 0, 1, 0]], [0, 0, 0, 1], [2, 2]⟩ =
    (⟨[[0, 1, 0]], [0, 0, 1], [1]⟩, 3) := by decide
example : ArtInv 2 3 ⟨[[0, 1, 1, 0], [0, 0, 1, 0]], [0, 0, 0, 1], [2, 2]⟩ :=
  ⟨rfl, by
    intro i hi _ _
    have : i = 0 ∨ i = 1 := by simp at hi; omega
    rcases this with rfl | rfl <;> rfl⟩

/-- (b2)/(c) **`erase_artificials` hands a feasible basis to the second phase.**  If the tableau at the end of
    the first phase is canonical and feasible (`CanonTB`: what `pricing_choice_irrelevant` (b) gives) and every
    artificial still basic is 0 (`ArtInv`), then after `erase_artificials` the tableau of width `b + 1` is again
    canonical and feasible, and no artificial column is left in the base (the pivots of step 1 are degenerate: the
    basic solution does not move; removing redundant rows keeps the other rows' basic columns). -/
theorem erase_artificials_feasible_basis (b e numCols : Nat) (t : Tab) (hb : 1 ≤ b) (hbe : b < e) (he : e = numCols - 1)
    (hC : CanonTB t.T t.base numCols) (hA : ArtInv b e t) (hcl : t.cost.length = numCols) :
    CanonTB (eraseArtificials b e numCols t).1.T (eraseArtificials b e numCols t).1.base (b + 1) ∧
    (eraseArtificials b e numCols t).1.cost.length = b + 1 :=
  eraseArtificials_canonTB b e numCols t hb hbe he hC hA hcl

-- x1 + a = 0 with the artificial a (column 3) basic at 0, x2 = 2 basic: a leaves, x1 enters, width 5 → 4
example : eraseArtificials 3 4 5 ⟨[[0, 1, 0, 1, 0], [-2, 0, 1, 0, 0]], [0, 0, 0, 0, 1], [3, 2]⟩ =
    (⟨[[0, 1, 0, 0], [-2, 0, 1, 0]], [0, 0, 0, 1], [1, 2]⟩, 4) := by decide
example : CanonTB [[0, 1, 0, 1, 0], [-2, 0, 1, 0, 0]] [3, 2] 5 := by
  have two : ∀ i, i < ([[0, 1, 0, 1, 0], [-2, 0, 1, 0, 0]] : List Row).length → i = 0 ∨ i = 1 := by
    intro i hi; simp at hi; omega
  constructor
  · rfl
  · decide
  · intro i hi; rcases two i hi with rfl | rfl <;> rfl
  · intro i hi; rcases two i hi with rfl | rfl <;> decide
  · intro i hi; rcases two i hi with rfl | rfl <;> decide
  · intro i j hi hj hij
    rcases two i hi with rfl | rfl <;> rcases two j hj with rfl | rfl <;> first | exact absurd rfl hij | rfl
  · intro i hi; rcases two i hi with rfl | rfl <;> rfl
  · intro i hi
    rcases two i hi with rfl | rfl
    · show (0 : Rat) ≤ -((0 : Int) : Rat) / ((1 : Int) : Rat); norm_num
    · show (0 : Rat) ≤ -((-2 : Int) : Rat) / ((1 : Int) : Rat); norm_num

/-! ### (b1) the tableau set up by process_pending_constraints -/

/-- (b1) **the tableau set up for a fresh problem has exactly the solutions of the constraint system.**
    `s` is the state `is_lp_satisfiable()` hands to `process_pending_constraints()` for a problem never solved
    before (`Fresh s`: nothing processed, `mapping = [(0,0)]`, two columns, no row).  With
    `TabSol T numCols b y` = (`y 0 = 1`, every column `≥ 1` non-negative, `y` zero from the first artificial column
    — or, without artificials, from the sign column — to the last column, every row of `T` vanishes at `y`) and
    `proj mapping y i = y (mapping i).first − y (mapping i).second`:
    * the set-up stops UNSATISFIABLE ⇒ the constraints have no solution (a trivially false row);
    * ready for the first phase with `(s', b, e)`, or stopped with an empty tableau (`b = 0`) ⇒
      (→) every `TabSol` projects into the solution set `csSem cs` (= `sem` of the reference rows, `csSem_iff_Sat`),
      (←) every point of `csSem cs` is the projection of a `TabSol`.
    The proof covers the rows dropped by `parse_constraints` (tautologies; `a·x ≥ 0` = the non-negativity of the
    column of a variable left unsplit) and shows that a variable is left unsplit only when a constraint forces it
    to be non-negative.
    Incremental case (`first_pending > 0`, re-merged variables, rows combined against the base, flags computed at
    `last_generator`): NOT proved here; it is covered by the exact replay only. -/
theorem tableau_setup_solutions (s : LPState) (hF : Fresh s) :
    (∀ s', ppcSetup s = .done s' → s'.status = .UNSATISFIABLE → ∀ x, ¬ csSem s.input_cs x) ∧
    (∀ s' b e, ppcSetup s = .phase1 s' b e → SetupGood s.input_cs s.external_space_dim s' b) ∧
    (∀ s', ppcSetup s = .done s' → s'.status ≠ .UNSATISFIABLE → SetupGood s.input_cs s.external_space_dim s' 0) :=
  Pend.tableau_setup_solutions s hF

/-- (b1) **the hypothesis `Fresh` is what the first `is_lp_satisfiable()` produces.**  A problem on which no
    solver call has run (`Untouched`: true of `MIP_Problem(dim)`, kept by every mutator) with at least one
    dimension and constraints inside the space: `is_lp_satisfiable()` runs `process_pending_constraints()` on the
    `Fresh` state `firstCall s` (two columns, `mapping[0]`), then marks everything processed. -/
theorem first_call_is_fresh (fc : Chooser) (fuel : Nat) (s : LPState) (h : Untouched s)
    (hn : 0 < s.external_space_dim) (hl : ∀ c ∈ s.input_cs, c.coeffs.length ≤ s.external_space_dim)
    (c : ICon) (e : LinExpr) (b : Bool) (m : Nat) (p : Pricing) :
    Fresh (firstCall s) ∧
    (isLpSatisfiable fc fuel s =
      match processPendingConstraints fc fuel (firstCall s) with
      | none => none
      | some s1 =>
        some ({ s1 with first_pending := s1.input_cs.length, internal_space_dim := s1.external_space_dim },
          s1.status != .UNSATISFIABLE)) ∧
    (Untouched (addConstraint s c) ∧ Untouched (setObjectiveFunction s e) ∧ Untouched (setOptimizationMode s b) ∧
      Untouched (addSpaceDimensionsAndEmbed s m) ∧ Untouched (setPricing s p)) :=
  ⟨firstCall_fresh s h hn hl, isLpSatisfiable_untouched fc fuel s h, mutators_untouched s h c e b m p⟩

example : Untouched (addConstraint (addConstraint (LPState.new 2) ⟨[1, 1], -2, false⟩) ⟨[1, 0], 0, false⟩) ∧
    Fresh (firstCall (addConstraint (addConstraint (LPState.new 2) ⟨[1, 1], -2, false⟩) ⟨[1, 0], 0, false⟩)) :=
  ⟨⟨rfl, rfl, rfl, rfl, rfl, rfl, rfl⟩,
    firstCall_fresh _ ⟨rfl, rfl, rfl, rfl, rfl, rfl, rfl⟩ (by decide) (by decide)⟩

theorem csSem_is_reference_sem (cs : List ICon) (x : Val) : csSem cs x ↔ Sat (cs.flatMap ICon.toCons) x :=
  csSem_iff_Sat cs x

/-- x0 + x1 ≥ 2, x0 ≥ 0 in two variables -/
def exFresh : LPState :=
  { LPState.new 2 with input_cs := [⟨[1, 1], -2, false⟩, ⟨[1, 0], 0, false⟩], numCols := 2, mapping := [(0, 0)] }

example : Fresh exFresh := ⟨rfl, rfl, rfl, rfl, rfl, rfl, by decide, by decide⟩
-- x0 unsplit (column 1), x1 split (columns 2, 3), slack 4, artificial 5, sign 6; the row `x0 ≥ 0` is dropped
example : (match ppcSetup exFresh with
    | .phase1 s' b e => (s'.tableau, s'.mapping, s'.numCols, b, e, s'.base)
    | .done _ => ([], [], 0, 0, 0, [])) =
    ([[-2, 1, 1, -1, -1, 1, 0]], [(0, 0), (1, 0), (2, 3)], 7, 5, 6, [5]) := by decide

/-! ### end to end for a problem never solved before -/

/-- **the set-up hands a canonical feasible tableau to the first phase** (fresh problem, `last_generator` = the
    origin as `MIP_Problem(dim)` leaves it): tableau + `base` + first-phase cost row are `Canon`;
    `end_artificials = numCols − 1`; the artificial columns start at `artStart b numCols ≥ 1`; on the solutions the cost
    row denotes `−Σ artificials`: it is `≤ 0` on non-negative valuations and `0` exactly when every artificial is 0.
    (Uses the count: artificial columns reserved at :803–:822 = rows not worked out.) -/
theorem setup_hands_canon_to_phase1 (s : LPState) (hF : Fresh s) (hlg : s.last_generator = ⟨[], 1⟩)
    (s' : LPState) (b e : Nat) (h : ppcSetup s = .phase1 s' b e) : Phase1Start s' b e :=
  setup_phase1_canon s hF hlg s' b e h

/-- **the first phase decides feasibility and gives `ArtInv`.**  From such a start, for any pricing rule returning
    candidates, when the loop terminates with `(ok, t)`: `ok = true` (never "unbounded"); `working_cost[0] ≠ 0` ⇒ the
    tableau has no non-negative solution with all artificials 0; `working_cost[0] = 0` ⇒ the basic solution of `t` is
    one, and every artificial still basic is 0 (`ArtInv`, the hypothesis of `erase_artificials_valid`). -/
theorem phase1_decides_feasibility (ch : Chooser) (hch : ChooserOK ch) (fuel : Nat) (s' : LPState) (b e : Nat)
    (hP : Phase1Start s' b e) (ok : Bool) (t : Tab) (h : computeSimplexWith ch fuel s'.tab = some (ok, t)) :
    ok = true ∧ Canon t ∧ t.cost.length = s'.numCols ∧ (∀ y, Sol t.T y ↔ Sol s'.tableau y) ∧
    (t.cost.get 0 ≠ 0 → ∀ y, ¬ TabSol s'.tableau s'.numCols b y) ∧
    (t.cost.get 0 = 0 → TabSol s'.tableau s'.numCols b (basicPt t) ∧ (b ≠ 0 → ArtInv b e t)) :=
  phase1_verdict ch hch fuel s' b e hP ok t h

example : Phase1Start
    (match ppcSetup exFresh with | .phase1 s' _ _ => s' | .done s' => s') 5 6 := by
  have h : ppcSetup exFresh = .phase1 (match ppcSetup exFresh with | .phase1 s' _ _ => s' | .done s' => s') 5 6 := by
    rfl
  exact setup_phase1_canon exFresh ⟨rfl, rfl, rfl, rfl, rfl, rfl, by decide, by decide⟩ rfl _ 5 6 h

/-- **`compute_generator`**: for a feasible basis and a mapping with non-zero first columns, the point built has a
    positive divisor, one coordinate per problem variable, and is the projection of the basic solution. -/
theorem compute_generator_is_basic_solution {T : List Row} {base : List Nat} {n : Nat} (hC : CanonTB T base n)
    (M : List (Nat × Nat)) (ext : Nat) (hext : 0 < ext) (hM : ∀ i, i < ext → (M.getD (i+1) (0, 0)).1 ≠ 0) :
    0 < (computeGeneratorPt ext T base M).den ∧
    (computeGeneratorPt ext T base M).num.length = ext ∧
    ∀ i, i < ext → (computeGeneratorPt ext T base M).val i = proj M (bsol T base) i :=
  computeGeneratorPt_spec hC M ext hext hM

/-- **END TO END: the LP answers of the model on a problem never solved before are right** (any pricing rule
    returning candidates; fuel hypotheses = the two calls terminate).  `s` is built by `MIP_Problem(dim)` and mutators
    (`Untouched`, `last_generator` the origin), `dim > 0`, constraints and objective inside the space;
    `P = s.problem` is the reference problem (`Sat P.cs` = `sem` of the rows `ICon.toCons`).
    (i)  `is_lp_satisfiable()` returns false ⇒ no point satisfies the constraints;
    (ii) it returns true ⇒ some point does, and after `second_phase()` (which returns at once when the set-up
         produced no tableau row and `process_pending_constraints` answered by `is_unbounded_obj_function`):
         the status is OPTIMIZED or UNBOUNDED; `last_generator` has a positive divisor and satisfies every constraint;
         OPTIMIZED ⇒ no point of the solution set has a better objective value than `last_generator` (in the mode of
         `P`; the inhomogeneous term of the objective is not in the cost row, `objVal` includes it: the comparison is
         unaffected); UNBOUNDED ⇒ points with arbitrarily good objective value exist.
    These are the three clauses of `PPLV.Solver.BB.LPCorrect` (`C06.lp_fresh_implies_LPCorrect` in
    `Props/C06TabBB.lean`). -/
theorem lp_fresh_correct (fc : Chooser) (hfc : ChooserOK fc) (f1 f2 : Nat) (s s1 : LPState) (r : Bool)
    (hU : Untouched s) (hlg : s.last_generator = ⟨[], 1⟩) (hn : 0 < s.external_space_dim)
    (hl : ∀ c ∈ s.input_cs, c.coeffs.length ≤ s.external_space_dim)
    (hobj : s.obj.coeffs.length ≤ s.external_space_dim)
    (h1 : isLpSatisfiable fc f1 s = some (s1, r)) :
    (r = false → ∀ x, ¬ Sat s.problem.cs x) ∧
    (r = true → (∃ x, Sat s.problem.cs x) ∧ ∀ s2, secondPhase fc f2 s1 = some s2 →
      (s2.status = .OPTIMIZED ∨ s2.status = .UNBOUNDED) ∧
      0 < s2.last_generator.den ∧ Sat s.problem.cs s2.last_generator.val ∧
      (s2.status = .OPTIMIZED → ∀ x, Sat s.problem.cs x →
        ¬ Better s.problem (s.problem.objVal x) (s.problem.objVal s2.last_generator.val)) ∧
      (s2.status = .UNBOUNDED → ∀ M : Rat, ∃ x, Sat s.problem.cs x ∧ Better s.problem (s.problem.objVal x) M)) := by
  have hsem : ∀ x, Sat s.problem.cs x ↔ csSem s.input_cs x := fun x => (csSem_iff_Sat s.input_cs x).symm
  obtain ⟨a, b⟩ := Pend.lp_fresh_correct fc hfc f1 f2 s s1 r hU hlg hn hl hobj h1
  refine ⟨fun hr x hx => a hr x ((hsem x).mp hx), fun hr => ?_⟩
  obtain ⟨⟨x0, hx0⟩, b2⟩ := b hr
  refine ⟨⟨x0, (hsem x0).mpr hx0⟩, fun s2 h2 => ?_⟩
  obtain ⟨w1, w2, w3, w4, w5⟩ := b2 s2 h2
  exact ⟨w1, w2, (hsem _).mpr w3, fun hopt x hx => w4 hopt x ((hsem x).mp hx),
    fun hunb M => by obtain ⟨x, x1, x2⟩ := w5 hunb M; exact ⟨x, (hsem x).mpr x1, x2⟩⟩

/-- x ≤ 4, x ≥ 0, maximise x: never solved before -/
def exNew : LPState :=
  setPricing (setObjectiveFunction (addConstraint (addConstraint (LPState.new 1) ⟨[-1], 4, false⟩) ⟨[1], 0, false⟩) ⟨[1], 0⟩)
    .TEXTBOOK

example : Untouched exNew ∧ exNew.last_generator = ⟨[], 1⟩ ∧
    (isLpSatisfiable textbookChooser 20 exNew).map (fun r => (r.1.status, r.2)) = some (.SATISFIABLE, true) ∧
    ((isLpSatisfiable textbookChooser 20 exNew).bind fun r => (secondPhase textbookChooser 20 r.1).map
      fun s2 => (s2.status, s2.last_generator.num, s2.last_generator.den)) = some (.OPTIMIZED, [4], 1) :=
  ⟨⟨rfl, rfl, rfl, rfl, rfl, rfl, rfl⟩, rfl, by decide, by decide⟩

/-! ### (c) second phase / re-optimisation -/

/-- (c) **`second_phase()` from ANY feasible basis, with ANY pricing rule.**  `s` is SATISFIABLE and holds a
    feasible basis (`CanonTB`); `secondPhaseCost s` (the objective, negated when minimising, at the columns of the
    mapping, sign entry 1) has the tableau's width and a non-zero sign entry.  When the phase terminates: status
    OPTIMIZED or UNBOUNDED; same solution set; the basis left is feasible again; OPTIMIZED ⇒ `basicObj` of the final
    cost row is the maximum of the objective over the non-negative solutions (bound + attained); UNBOUNDED ⇒ the
    objective has no upper bound on them. -/
theorem second_phase_sound (fc : Chooser) (hfc : ChooserOK fc) (fuel : Nat) (s s' : LPState)
    (hst : s.status = .SATISFIABLE) (hTB : CanonTB s.tableau s.base s.working_cost.length)
    (hcl : (secondPhaseCost s).length = s.working_cost.length)
    (hcs : (secondPhaseCost s).get (s.working_cost.length - 1) ≠ 0)
    (h : secondPhase fc fuel s = some s') :
    (s'.status = .OPTIMIZED ∨ s'.status = .UNBOUNDED) ∧
    s'.working_cost.length = s.working_cost.length ∧
    CanonTB s'.tableau s'.base s'.working_cost.length ∧
    (∀ y, Sol s'.tableau y ↔ Sol s.tableau y) ∧
    (s'.status = .OPTIMIZED →
      (∀ y, Sol s.tableau y → NonnegPt s.working_cost.length y → objAt (secondPhaseCost s) y ≤ basicObj s'.working_cost) ∧
      ∃ y, Sol s.tableau y ∧ NonnegPt s.working_cost.length y ∧ objAt (secondPhaseCost s) y = basicObj s'.working_cost) ∧
    (s'.status = .UNBOUNDED →
      ∀ M : Rat, ∃ y, Sol s.tableau y ∧ NonnegPt s.working_cost.length y ∧ M < objAt (secondPhaseCost s) y) :=
  secondPhase_sound fc hfc fuel s s' hst hTB hcl hcs h

/-- the state after `is_lp_satisfiable()` on `x ≤ 4, x ≥ 0`, objective `x` -/
def exSat : LPState where
  external_space_dim := 1
  internal_space_dim := 1
  tableau := [[-4, 1, 1, 0]]
  numCols := 4
  working_cost := [0, 0, 0, 1]
  mapping := [(0, 0), (1, 0)]
  base := [1]
  status := .SATISFIABLE
  pricing := .TEXTBOOK
  input_cs := [⟨[-1], 4, false⟩, ⟨[1], 0, false⟩]
  first_pending := 2
  obj := ⟨[1], 0⟩
  last_generator := ⟨[4], 1⟩

example : CanonTB exSat.tableau exSat.base exSat.working_cost.length := by
  have one : ∀ i, i < exSat.tableau.length → i = 0 := by intro i hi; simp [exSat] at hi; exact hi
  constructor
  · rfl
  · decide
  · intro i hi; rw [one i hi]; rfl
  · intro i hi; rw [one i hi]; decide
  · intro i hi; rw [one i hi]; decide
  · intro i j hi hj hij; exact absurd ((one i hi).trans (one j hj).symm) hij
  · intro i hi; rw [one i hi]; rfl
  · intro i hi; rw [one i hi]
    show (0 : Rat) ≤ -((-4 : Int) : Rat) / ((1 : Int) : Rat)
    norm_num
example : secondPhaseCost exSat = [0, 1, 0, 1] ∧
    (secondPhase textbookChooser 5 exSat).map (fun r => (r.status, r.working_cost, r.last_generator.num)) =
      some (.OPTIMIZED, [-4, 0, 1, -1], [4]) := by decide

/-- (c) **the cost row of the second phase is the objective.**  For a mapping laid out as `MapOK` (distinct
    columns increasing with the variable, all before the sign column — what the mapping loop produces,
    `ppcMapping_fresh`), `objAt (secondPhaseCost s) y` is `±obj·x` at the projected point `x = proj mapping y`
    (`+` maximising, `−` minimising; the inhomogeneous term of the objective is not part of the cost row), for every
    valuation with `y 0 = 1` and sign column 0.  Together with `second_phase_sound`: OPTIMIZED ⇒ the value is the
    optimum of the objective over the projected solution set, UNBOUNDED ⇒ it is unbounded there. -/
theorem second_phase_cost_is_objective (s : LPState) (nn : List Bool) (n j : Nat) (hM : MapOK s.mapping nn n j)
    (hcols : 1 + j ≤ s.working_cost.length - 1) (hobj : s.obj.coeffs.length ≤ n) :
    (secondPhaseCost s).length = s.working_cost.length ∧
    (secondPhaseCost s).get (s.working_cost.length - 1) = 1 ∧
    ∀ y : Val, NonnegPt s.working_cost.length y →
      objAt (secondPhaseCost s) y = dot (sgnObj s) (proj s.mapping y) :=
  ⟨(secondPhaseCost_spec s nn n j hM hcols hobj).1, (secondPhaseCost_spec s nn n j hM hcols hobj).2.1,
    fun y hy => objAt_secondPhaseCost s nn n j hM hcols hobj y hy⟩

example : MapOK exSat.mapping [true] 1 1 := by
  refine ⟨rfl, rfl, fun u hu => ?_, fun u u' h1 h2 => by omega⟩
  have : u = 0 := by omega
  subst this
  exact ⟨by decide, Or.inl rfl, ⟨fun _ => rfl, fun _ => rfl⟩, by decide⟩

/-- (c) **re-optimisation equals a fresh solve in status and value** (model states).  Two SATISFIABLE states
    holding feasible bases of tableaux with the same columns and the same solution set — e.g. the state left by
    earlier solves and incremental steps, and the state of a fresh problem with the same constraints (both describe
    `sem cs` by (b1)/(b2)) — whose second-phase cost rows denote the same objective there: whatever the two pricing
    rules, when both second phases terminate they end with the same status, and OPTIMIZED with the same value. -/
theorem reoptimize_value_eq_fresh (fc1 fc2 : Chooser) (h1 : ChooserOK fc1) (h2 : ChooserOK fc2) (f1 f2 : Nat)
    (s1 s2 r1 r2 : LPState) (hs1 : s1.status = .SATISFIABLE) (hs2 : s2.status = .SATISFIABLE)
    (hT1 : CanonTB s1.tableau s1.base s1.working_cost.length)
    (hT2 : CanonTB s2.tableau s2.base s2.working_cost.length)
    (hn : s1.working_cost.length = s2.working_cost.length)
    (hc1 : (secondPhaseCost s1).length = s1.working_cost.length ∧ (secondPhaseCost s1).get (s1.working_cost.length - 1) ≠ 0)
    (hc2 : (secondPhaseCost s2).length = s2.working_cost.length ∧ (secondPhaseCost s2).get (s2.working_cost.length - 1) ≠ 0)
    (hsol : ∀ y, Sol s1.tableau y ↔ Sol s2.tableau y)
    (hobj : ∀ y, Sol s1.tableau y → objAt (secondPhaseCost s1) y = objAt (secondPhaseCost s2) y)
    (hr1 : secondPhase fc1 f1 s1 = some r1) (hr2 : secondPhase fc2 f2 s2 = some r2) :
    r1.status = r2.status ∧ (r1.status = .OPTIMIZED → basicObj r1.working_cost = basicObj r2.working_cost) :=
  secondPhase_value_eq fc1 fc2 h1 h2 f1 f2 s1 s2 r1 r2 hs1 hs2 hT1 hT2 hn hc1 hc2 hsol hobj hr1 hr2

/-- (c) the same on tableaux: any two canonical feasible tableaux with the same solutions and the same objective -/
theorem reoptimize_value_eq_fresh_tableau (ch1 ch2 : Chooser) (h1 : ChooserOK ch1) (h2 : ChooserOK ch2)
    (f1 f2 : Nat) (t1 t2 r1 r2 : Tab) (ok1 ok2 : Bool) (hC1 : Canon t1) (hC2 : Canon t2)
    (hlen : t1.cost.length = t2.cost.length) (hsol : ∀ x, Sol t1.T x ↔ Sol t2.T x)
    (hobj : ∀ x, Sol t1.T x → objAt t1.cost x = objAt t2.cost x)
    (hr1 : computeSimplexWith ch1 f1 t1 = some (ok1, r1)) (hr2 : computeSimplexWith ch2 f2 t2 = some (ok2, r2)) :
    ok1 = ok2 ∧ (ok1 = true → basicObj r1.cost = basicObj r2.cost) :=
  Pend.reoptimize_value_eq_fresh ch1 ch2 h1 h2 f1 f2 t1 t2 r1 r2 ok1 ok2 hC1 hC2 hlen hsol hobj hr1 hr2

-- the same LP from two different feasible bases (slack basic / x basic): both end OPTIMIZED with value 4
example : (computeSimplexWith textbookChooser 5 exTab).map (fun r => (r.1, r.2.cost)) = some (true, [-4, 0, 1, -1]) ∧
    (computeSimplexWith steepestEdgeExact 5 ⟨[[-4, 1, 1, 0]], [-4, 0, 1, -1], [1]⟩).map (fun r => (r.1, r.2.cost)) =
      some (true, [-4, 0, 1, -1]) ∧ basicObj [-4, 0, 1, -1] = 4 := by
  refine ⟨by decide, by decide, ?_⟩
  show ((-4 : Int) : Rat) / ((-1 : Int) : Rat) = 4
  norm_num

/-- (c) **the status transitions** (`StatusInv s`: a status SATISFIABLE / UNBOUNDED / OPTIMIZED promises that no
    constraint and no space dimension is pending).  It holds initially, every mutator keeps it — `add_constraint`
    and `add_space_dimensions_and_embed` never leave such a status (PARTIALLY_SATISFIABLE, or UNSATISFIABLE which is
    sticky), `set_objective_function` / `set_optimization_mode` turn UNBOUNDED / OPTIMIZED into SATISFIABLE and give
    SATISFIABLE only if the problem was solved — the mutators do not touch tableau, base, mapping and cost row (a
    feasible basis of the processed constraints stays one), `is_lp_satisfiable()` establishes it and answers
    `status ≠ UNSATISFIABLE`, `second_phase()` keeps it and ends solved.
    The remaining part of the protocol — "solved status ⇒ the basis is feasible and encodes the processed
    constraints, the answers are truthful", through fresh AND incremental calls — is `C06.status_sound`
    (`PPLV/Props/C06TabIncr.lean`, invariant `ProtoInv`). -/
theorem status_transitions (s : LPState) (h : StatusInv s) (c : ICon) (e : LinExpr) (b : Bool) (m : Nat) (p : Pricing) :
    StatusInv (LPState.new m) ∧
    (StatusInv (addConstraint s c) ∧ StatusInv (setObjectiveFunction s e) ∧ StatusInv (setOptimizationMode s b) ∧
      StatusInv (addSpaceDimensionsAndEmbed s m) ∧ StatusInv (setPricing s p)) ∧
    (¬ Solved (addConstraint s c).status ∧ ¬ Solved (addSpaceDimensionsAndEmbed s m).status) ∧
    ((setObjectiveFunction s e).status ≠ .UNBOUNDED ∧ (setObjectiveFunction s e).status ≠ .OPTIMIZED ∧
      ((setObjectiveFunction s e).status = .SATISFIABLE → Solved s.status)) ∧
    (∀ s' ∈ [addConstraint s c, setObjectiveFunction s e, setOptimizationMode s b,
        addSpaceDimensionsAndEmbed s m, setPricing s p],
      s'.tableau = s.tableau ∧ s'.base = s.base ∧ s'.mapping = s.mapping ∧ s'.numCols = s.numCols ∧
      s'.working_cost = s.working_cost ∧ s'.first_pending = s.first_pending ∧
      s'.internal_space_dim = s.internal_space_dim) ∧
    (∀ fc fuel s' r, isLpSatisfiable fc fuel s = some (s', r) →
      StatusInv s' ∧ (r = true ↔ s'.status ≠ .UNSATISFIABLE) ∧
      (s.status = .PARTIALLY_SATISFIABLE →
        s'.first_pending = s'.input_cs.length ∧ s'.internal_space_dim = s'.external_space_dim) ∧
      (s.status ≠ .PARTIALLY_SATISFIABLE → s' = s)) ∧
    (∀ fc fuel s', Solved s.status → secondPhase fc fuel s = some s' → StatusInv s' ∧ Solved s'.status) :=
  ⟨new_statusInv m, mutators_statusInv s h c e b m p,
    ⟨(addConstraint_status s c).2, (addSpaceDimensionsAndEmbed_status s m).2⟩,
    (setObjectiveFunction_status s e).2, mutators_keep_tableau s c e b m p,
    fun fc fuel s' r hr => isLpSatisfiable_statusInv fc fuel s s' r h hr,
    fun fc fuel s' hs hr => secondPhase_statusInv fc fuel s s' h hs hr⟩

example : StatusInv exSat ∧ Solved exSat.status ∧ (addConstraint exSat ⟨[1], -1, false⟩).status = .PARTIALLY_SATISFIABLE ∧
    (setObjectiveFunction (setObjectiveFunction exSat ⟨[2], 0⟩) ⟨[1], 0⟩).status = .SATISFIABLE :=
  ⟨fun _ => ⟨rfl, rfl⟩, Or.inl rfl, rfl, rfl⟩

end C06
