import PPLV.WR.TransProofsPre
import PPLV.WR.TransProofsRefine
import PPLV.WR.TransOctProofsMain
import PPLV.WR.TransProofsAffExact
import PPLV.WR.ClosureProofsFW
import Mathlib.Tactic.IntervalCases
import Mathlib.Tactic.NormNum
/-!
# C03 — the sign-case transformers of `BD_Shape<T>`, for every bound type

Statements about the code-shaped models of `PPLV/WR/Trans.lean` (`/repo/src/BD_Shape_templates.hh`:
`add_constraint`, `refine_no_check`, `affine_image`, `generalized_affine_image(var, …)`,
`bounded_affine_image`, `unconstrain`).  A bound is an extended rational; the directed operations of the
bound type are an arbitrary `R : Rnd` with the one-sided hypotheses `R.Sound` (`x ≤ up x`,
`0 < dn y ≤ y` for `y ≥ 1`, `s + c·a ≤ addMul s c a`).  `Rnd.exact` (`mpq_class`), `Rnd.ceil`
(`mpz_class`) and `Rnd.range lo hi` (bounded integers, overflow to `+∞`) are instances
(`Rnd.exact_sound`, `Rnd.ceil_sound`, `Rnd.range_sound`).  `DBM.γ m` / `γB n m` is the set of
valuations `ℕ → ℚ` satisfying every entry; `upd x var t` is `x[var := t]`.

* `refine_sound`, `add_constraint_sound` — full strength (every rounding, every constraint, BD or not,
  strict or not); `refine_exact` — exact arithmetic: the result is exactly `γ m ∩ c`.
* `affine_image_sound_partial`, `generalized_affine_image_sound_partial`,
  `bounded_affine_image_sound_partial` — for every rounding, matrix, expression, denominator, closure
  flag, UNDER the side condition `CoeffExact R e`: the absolute values of the coefficients are
  representable in `T`.  Without it the code as written is not sound
  (`affine_image_sound_fails`: `assign_r(coeff_i, sc_i, ROUND_UP)` followed by
  `add_mul_assign_r(sum, coeff_i, bound_i, ROUND_UP)` with `bound_i < 0`; open findings
  `coefficient_or_denominator_not_representable_in_T`; for a bounded integer `T` the coefficient
  becomes `+∞` and the code stores `-∞` / Not-a-Number, values outside the model).  The denominator needs
  no side condition any more (`div_round_up_by_positive`, commit 559045b).
* `affine_image_sound_special` — the constant, `±var + b`, `±w + b` forms: full strength, no side condition.
* `affine_image_sound_mpq`, `affine_image_sound_mpz`, … — `mpq_class` / `mpz_class`: no side condition.
* `unconstrain_sound`.
* `affine_preimage_sound_partial`, `generalized_affine_preimage_sound_partial` (side condition: coefficients
  and `|den|` representable — the inverse expression has the coefficient `den`).
* `affine_image_exact` — `BD_Shape<mpq_class>`: constant, `var + b/den`, `w + b/den` are exact.
* `oct_affine_image_sound_partial` — `Octagonal_Shape<T>::affine_image` (model `PPLV/WR/TransOct.lean`), all
  cases; side conditions `CoeffExact` and `HalfFiniteOn` (halving a finite unary cell does not overflow: a fact
  about every real `T` that an abstract `up` does not provide); `oct_affine_image_sound_special`,
  `oct_affine_image_sound_mpq/_mpz` without side conditions.
-/
set_option linter.unusedVariables false
set_option linter.unnecessarySeqFocus false
set_option linter.unusedTactic false
set_option linter.unreachableTactic false
namespace C03
open PPLV.WR
open PPLV.WR.ExtRat (fin pinf)

/-! ## `refine_no_check(const Constraint&)`, `add_constraint` -/

/-- every point of the shape that satisfies the constraint `cf·x + inhomo ⋈ 0` is in the refined shape
(which is never marked empty then), and entries only decrease.  Non-BD constraints are ignored. -/
theorem refine_sound (R : Rnd) (hR : R.Sound) {n : ℕ} (m : DBM n) (sd : ℕ) (hsd : sd ≤ n) (cf : ℕ → ℤ)
    (inhomo : ℤ) (kind : CKind) :
    ∀ x ∈ DBM.γ m, CSat cf sd inhomo kind x →
      match refineNoCheck R sd cf inhomo kind m.e with
      | .ok m' => x ∈ γB n m' ∧ MLe m' m.e
      | .empty => False
      | .throws => False := by
  intro x hx hc
  rw [DBM.γ_eq] at hx
  exact refineNoCheck_sound hR.up_le hsd cf inhomo kind m.e hx hc

/-- `add_constraint`: the same (it throws on non-BD and on non-trivial strict constraints). -/
theorem add_constraint_sound (R : Rnd) (hR : R.Sound) {n : ℕ} (m : DBM n) (sd : ℕ) (hsd : sd ≤ n) (cf : ℕ → ℤ)
    (inhomo : ℤ) (kind : CKind) :
    ∀ x ∈ DBM.γ m, CSat cf sd inhomo kind x →
      match addConstraint R sd cf inhomo kind m.e with
      | .ok m' => x ∈ γB n m' ∧ MLe m' m.e
      | .empty => False
      | .throws => True := by
  intro x hx hc
  rw [DBM.γ_eq] at hx
  exact addConstraint_sound hR.up_le hsd cf inhomo kind m.e hx hc

/-- exact arithmetic, a bounded-difference constraint: the refined shape is exactly `γ m ∩ c`, and it is
marked empty only if that set is empty. -/
theorem refine_exact {n : ℕ} (m : DBM n) (sd : ℕ) (hsd : sd ≤ n) (cf : ℕ → ℤ) (inhomo : ℤ) (kind : CKind)
    (hbd : (extractBoundedDifference sd cf).ok = true) (hk : kind ≠ .gt) :
    match refineNoCheck Rnd.exact sd cf inhomo kind m.e with
    | .ok m' => ∀ y, y ∈ γB n m' ↔ (y ∈ DBM.γ m ∧ CSat cf sd inhomo kind y)
    | .empty => ¬ ∃ y, y ∈ DBM.γ m ∧ CSat cf sd inhomo kind y
    | .throws => False := by
  rw [DBM.γ_eq]
  exact refineNoCheck_exact hsd cf inhomo kind m.e hbd hk

/-! ## `affine_image` -/

/-- `affine_image(var, expr, den)`: for every point `x` of the shape, `x[var := expr(x)/den]` is in the
result — every rounding, matrix, expression, denominator, closed flag; coefficients representable. -/
theorem affine_image_sound_partial (R : Rnd) (hR : R.Sound) {n : ℕ} (m : DBM n) (closed : Bool) (var : ℕ)
    (hvar : var < n) (e : ℕ → ℤ) (b den : ℤ) (hden : den ≠ 0) (hc : CoeffExact R e) :
    ∀ x ∈ DBM.γ m, ∃ m', affineImage R closed var e b den m = some m' ∧
      upd x var ((linEval e x n + b) / den) ∈ γB n m' := by
  intro x hx
  obtain ⟨m1, h1, hx1⟩ := closeFirst_sound hR.up_le closed m hx
  exact ⟨_, by simp [affineImage, h1], affineImageCore_sound hR hvar hc hden hx1⟩

/-- the forms `expr == b`, `±den*var + b`, `±den*w + b`: no side condition at all. -/
theorem affine_image_sound_special (R : Rnd) (hR : R.Sound) {n : ℕ} (m : DBM n) (closed : Bool) (var : ℕ)
    (hvar : var < n) (e : ℕ → ℤ) (b den : ℤ) (hden : den ≠ 0)
    (hsp : exprT e (lastNonzero e n) = 0 ∨
      (exprT e (lastNonzero e n) = 1 ∧ (e (lastNonzero e n - 1) = den ∨ e (lastNonzero e n - 1) = - den))) :
    ∀ x ∈ DBM.γ m, ∃ m', affineImage R closed var e b den m = some m' ∧
      upd x var ((linEval e x n + b) / den) ∈ γB n m' := by
  intro x hx
  obtain ⟨m1, h1, hx1⟩ := closeFirst_sound hR.up_le closed m hx
  exact ⟨_, by simp [affineImage, h1], affineImageCore_special_sound hR hvar hden hx1 hsp⟩

/-- `BD_Shape<mpq_class>` -/
theorem affine_image_sound_mpq {n : ℕ} (m : DBM n) (closed : Bool) (var : ℕ) (hvar : var < n) (e : ℕ → ℤ)
    (b den : ℤ) (hden : den ≠ 0) :
    ∀ x ∈ DBM.γ m, ∃ m', affineImage Rnd.exact closed var e b den m = some m' ∧
      upd x var ((linEval e x n + b) / den) ∈ γB n m' :=
  affine_image_sound_partial _ Rnd.exact_sound m closed var hvar e b den hden (Rnd.exact_coeff e)

/-- `BD_Shape<mpz_class>` -/
theorem affine_image_sound_mpz {n : ℕ} (m : DBM n) (closed : Bool) (var : ℕ) (hvar : var < n) (e : ℕ → ℤ)
    (b den : ℤ) (hden : den ≠ 0) :
    ∀ x ∈ DBM.γ m, ∃ m', affineImage Rnd.ceil closed var e b den m = some m' ∧
      upd x var ((linEval e x n + b) / den) ∈ γB n m' :=
  affine_image_sound_partial _ Rnd.ceil_sound m closed var hvar e b den hden (Rnd.ceil_coeff e)

/-! ### exact arithmetic: where the code comments claim that nothing is lost -/

/-- the matrix left by the exact closure satisfies the triangle inequality through any index -/
theorem closedAt_closure {n : ℕ} (m : DBM n) (hne : DBM.closureEmpty upId m = false) (v : ℕ) (hv : v ≤ n) :
    ClosedAt n v (DBM.closure upId m).e := by
  intro i j hi hj hiv hjv hij p q hp hq
  rw [DBM.closure_offdiag m hiv] at hp
  rw [DBM.closure_offdiag m (Ne.symm hjv)] at hq
  rw [DBM.closure_offdiag m hij]
  have := (DBM.closure_core_closed m hne).tri i j v (by omega) (by omega) (by omega)
  rw [hp, hq] at this
  exact this

theorem γ_closure_exact {n : ℕ} (m : DBM n) : γB n (DBM.closure upId m).e = DBM.γ m := by
  rw [← DBM.γ_eq]
  ext x
  constructor
  · intro hx i j hi hj
    exact ExtRat.le_trans' (hx i j hi hj) (DBM.closure_le upId_sound m i j hi hj)
  · intro hx
    exact DBM.closure_sat upId_sound m x hx

/-- `BD_Shape<mpq_class>::affine_image` is EXACT for `expr == b`, `var + b/den` (`den*var + b`) and
`w + b/den`: the result is precisely the image of the shape (and it is marked empty only if the shape is
empty). -/
theorem affine_image_exact {n : ℕ} (m : DBM n) (var : ℕ) (hvar : var < n) (e : ℕ → ℤ) (b den : ℤ)
    (hden : den ≠ 0)
    (hform : exprT e (lastNonzero e n) = 0 ∨
      (exprT e (lastNonzero e n) = 1 ∧ e (lastNonzero e n - 1) = den)) :
    match affineImage Rnd.exact false var e b den m with
    | none => DBM.γ m = ∅
    | some m' => ∀ y, y ∈ γB n m' ↔ ∃ x ∈ DBM.γ m, y = upd x var ((linEval e x n + b) / den) := by
  unfold affineImage closeFirst
  simp only [Bool.false_eq_true, if_false]
  cases hne : DBM.closureEmpty Rnd.exact.up m with
  | true =>
    simp only [if_true, Option.map_none]
    exact Set.eq_empty_iff_forall_notMem.2 fun x hx => DBM.closureEmpty_sound upId_sound m hne x hx
  | false =>
    simp only [Bool.false_eq_true, if_false, Option.map_some]
    have hcl := closedAt_closure m hne (var + 1) (by omega)
    have hγ := γ_closure_exact m
    have hnonempty : ∃ x, x ∈ γB n (DBM.closure upId m).e := by
      obtain ⟨x, hx⟩ := DBM.closure_nonempty m hne
      exact ⟨x, by rw [hγ]; exact hx⟩
    intro y
    rw [← hγ]
    rcases hform with h0 | ⟨h1, ha⟩
    · exact affineImage_constant_exact hvar hden h0 hcl hnonempty y
    · by_cases hwv : lastNonzero e n = var + 1
      · have ha' : e var = den := by rw [hwv] at ha; simpa using ha
        exact affineImage_translation_exact hvar hden h1 hwv ha' y
      · exact affineImage_w_plus_b_exact hvar hden h1 hwv ha hcl hnonempty y

/-! ### the clause that fails: a coefficient that is rounded (`up 3 = 4`) meets a negative bound -/

/-- a sound rounding whose values are the even integers: `up x = 2·⌈x/2⌉` -/
def rndEven : Rnd :=
  ⟨fun x => fin ((2 * (x / 2).ceil : Int) : Rat), id, fun s c a => fin ((2 * ((s + c * a) / 2).ceil : Int) : Rat)⟩

theorem rndEven_sound : rndEven.Sound := by
  have key : ∀ x : ℚ, x ≤ ((2 * (x / 2).ceil : Int) : Rat) := by
    intro x
    have := Rat.le_ceil (x := x / 2)
    push_cast
    linarith
  exact ⟨fun x => ExtRat.fin_le_fin.2 (key x), fun y hy => by simp [rndEven]; linarith, fun y _ => le_refl _,
    fun s c a => ExtRat.fin_le_fin.2 (key _)⟩

/-- `x₀ = -1` -/
def exW : DBM 1 := DBM.ofLists 1 [[pinf, fin (-1)], [fin 1, pinf]]
def ptW : ℕ → ℚ := fun _ => -1
def eW : ℕ → ℤ := fun i => if i = 0 then 3 else 0

theorem ptW_mem : ptW ∈ DBM.γ exW := by
  intro i j hi hj
  interval_cases i <;> interval_cases j <;>
    simp [exW, DBM.ofLists, Mat.diagDown_apply, Mat.ofLists, DBM.val, ptW] <;> norm_num

/-- the code computes the upper bound `up(0 + up(3)·(-1)) = -4` of `3·x₀` on `x₀ = -1` -/
theorem affine_image_fails_entry : (affineImageCore rndEven 1 0 eW 0 1 exW.e) 0 1 = fin (-4) := by
  decide +kernel

/-- WITHOUT the side condition the statement of `affine_image_sound_partial` is false: `x₀ := 3·x₀` on
`{x₀ = -1}` yields `x₀ ≤ -4`, which cuts the image `-3` away. -/
theorem affine_image_sound_fails :
    ¬ (∀ (R : Rnd), R.Sound → ∀ {n : ℕ} (m : DBM n) (closed : Bool) (var : ℕ), var < n →
        ∀ (e : ℕ → ℤ) (b den : ℤ), den ≠ 0 → ∀ x ∈ DBM.γ m,
          ∃ m', affineImage R closed var e b den m = some m' ∧
            upd x var ((linEval e x n + b) / den) ∈ γB n m') := by
  intro h
  obtain ⟨m', hm', hx'⟩ := h rndEven rndEven_sound exW true 0 (by norm_num) eW 0 1 (by norm_num) ptW ptW_mem
  have hm : m' = affineImageCore rndEven 1 0 eW 0 1 exW.e := by
    simp [affineImage, closeFirst] at hm'; exact hm'.symm
  subst hm
  have := hx' 0 1 ⟨by norm_num, by norm_num⟩
  rw [affine_image_fails_entry] at this
  simp [ExtRat.fin_le_fin, DBM.val, upd, linEval, eW, ptW] at this
  norm_num at this

/-! ## `generalized_affine_image(var, relsym, expr, den)` -/

/-- `t relsym q` -/
abbrev relHolds := RelSym.holds

/-- every `x'` that agrees with a point `x` of the shape off `var` and has `x'_var relsym expr(x)/den`
is in the result. -/
theorem generalized_affine_image_sound_partial (R : Rnd) (hR : R.Sound) {n : ℕ} (m : DBM n) (closed : Bool)
    (var : ℕ) (hvar : var < n) (rel : RelSym) (e : ℕ → ℤ) (b den : ℤ) (hden : den ≠ 0) (hc : CoeffExact R e) :
    ∀ x ∈ DBM.γ m, ∀ t : ℚ, relHolds rel t ((linEval e x n + b) / den) →
      ∃ m', genAffineImage R closed var rel e b den m = some m' ∧ upd x var t ∈ γB n m' := by
  intro x hx t ht
  cases rel with
  | eq =>
    have ht' : t = (linEval e x n + b) / den := ht
    subst ht'
    exact affine_image_sound_partial R hR m closed var hvar e b den hden hc x hx
  | le =>
    obtain ⟨m1, h1, hx1⟩ := closeFirst_sound hR.up_le closed m hx
    have ht' : t ≤ (linEval e x n + b) / den := ht
    exact ⟨_, by simp [genAffineImage, h1],
      genAffineImageCore_sound hR hvar hc hden (b := b) hx1 true (by simpa using ht')⟩
  | ge =>
    obtain ⟨m1, h1, hx1⟩ := closeFirst_sound hR.up_le closed m hx
    have ht' : (linEval e x n + b) / den ≤ t := ht
    exact ⟨_, by simp [genAffineImage, h1],
      genAffineImageCore_sound hR hvar hc hden (b := b) hx1 false (by simpa using ht')⟩

theorem generalized_affine_image_sound_mpq {n : ℕ} (m : DBM n) (closed : Bool) (var : ℕ) (hvar : var < n)
    (rel : RelSym) (e : ℕ → ℤ) (b den : ℤ) (hden : den ≠ 0) :
    ∀ x ∈ DBM.γ m, ∀ t : ℚ, relHolds rel t ((linEval e x n + b) / den) →
      ∃ m', genAffineImage Rnd.exact closed var rel e b den m = some m' ∧ upd x var t ∈ γB n m' :=
  generalized_affine_image_sound_partial _ Rnd.exact_sound m closed var hvar rel e b den hden (Rnd.exact_coeff e)

theorem generalized_affine_image_sound_mpz {n : ℕ} (m : DBM n) (closed : Bool) (var : ℕ) (hvar : var < n)
    (rel : RelSym) (e : ℕ → ℤ) (b den : ℤ) (hden : den ≠ 0) :
    ∀ x ∈ DBM.γ m, ∀ t : ℚ, relHolds rel t ((linEval e x n + b) / den) →
      ∃ m', genAffineImage Rnd.ceil closed var rel e b den m = some m' ∧ upd x var t ∈ γB n m' :=
  generalized_affine_image_sound_partial _ Rnd.ceil_sound m closed var hvar rel e b den hden (Rnd.ceil_coeff e)

/-! ## `bounded_affine_image(var, lb_expr, ub_expr, den)` -/

/-- every `x'` that agrees with a point `x` of the shape off `var` and has
`lb(x)/den ≤ x'_var ≤ ub(x)/den` is in the result (all branches, including the one through an additional
dimension; the expressions have space dimension `≤ n`, as the code checks). -/
theorem bounded_affine_image_sound_partial (R : Rnd) (hR : R.Sound) {n : ℕ} (m : DBM n) (closed : Bool)
    (var : ℕ) (hvar : var < n) (el : ℕ → ℤ) (bl : ℤ) (eu : ℕ → ℤ) (bu : ℤ) (den : ℤ) (hden : den ≠ 0)
    (hel : ∀ i, n ≤ i → el i = 0) (heu : ∀ i, n ≤ i → eu i = 0)
    (hcl : CoeffExact R el) (hcu : CoeffExact R eu) :
    ∀ x ∈ DBM.γ m, ∀ t : ℚ, (linEval el x n + bl) / den ≤ t → t ≤ (linEval eu x n + bu) / den →
      ∃ m', boundedAffineImage R closed var el bl eu bu den m = some m' ∧ upd x var t ∈ γB n m' := by
  intro x hx t hlb hub
  obtain ⟨m1, h1, hx1⟩ := closeFirst_sound hR.up_le closed m hx
  have hgen := genAffineImageCore_sound hR hvar hcl hden hx1 false (t := t) (by simpa using hlb)
  suffices h : ∃ m', boundedAffineImageCore R n var el bl eu bu den m1 = some m' ∧ upd x var t ∈ γB n m' by
    obtain ⟨m', hm', hx'⟩ := h
    exact ⟨m', by simp [boundedAffineImage, h1, hm'], hx'⟩
  by_cases h0 : exprT eu (lastNonzero eu n) = 0
  · exact boundedAffineImageCore_special_sound hR hvar hden hub hgen (Or.inl h0)
  · by_cases h1' : exprT eu (lastNonzero eu n) = 1 ∧
        (eu (lastNonzero eu n - 1) = den ∨ eu (lastNonzero eu n - 1) = - den)
    · by_cases hwv : lastNonzero eu n = var + 1
      · rw [boundedAffineImageCore_extra R n var el bl eu bu den m1 h0 h1' hwv]
        exact bndExtraDim_sound hR hvar hcl hel hcu heu hden hx1 hlb hub
      · exact boundedAffineImageCore_special_sound hR hvar hden hub hgen (Or.inr ⟨h1'.1, hwv, h1'.2⟩)
    · exact boundedAffineImageCore_general_sound hR hvar hcu hden hx1 hub hgen h0 h1'

theorem bounded_affine_image_sound_mpq {n : ℕ} (m : DBM n) (closed : Bool) (var : ℕ) (hvar : var < n)
    (el : ℕ → ℤ) (bl : ℤ) (eu : ℕ → ℤ) (bu : ℤ) (den : ℤ) (hden : den ≠ 0)
    (hel : ∀ i, n ≤ i → el i = 0) (heu : ∀ i, n ≤ i → eu i = 0) :
    ∀ x ∈ DBM.γ m, ∀ t : ℚ, (linEval el x n + bl) / den ≤ t → t ≤ (linEval eu x n + bu) / den →
      ∃ m', boundedAffineImage Rnd.exact closed var el bl eu bu den m = some m' ∧ upd x var t ∈ γB n m' :=
  bounded_affine_image_sound_partial _ Rnd.exact_sound m closed var hvar el bl eu bu den hden hel heu
    (Rnd.exact_coeff el) (Rnd.exact_coeff eu)

theorem bounded_affine_image_sound_mpz {n : ℕ} (m : DBM n) (closed : Bool) (var : ℕ) (hvar : var < n)
    (el : ℕ → ℤ) (bl : ℤ) (eu : ℕ → ℤ) (bu : ℤ) (den : ℤ) (hden : den ≠ 0)
    (hel : ∀ i, n ≤ i → el i = 0) (heu : ∀ i, n ≤ i → eu i = 0) :
    ∀ x ∈ DBM.γ m, ∀ t : ℚ, (linEval el x n + bl) / den ≤ t → t ≤ (linEval eu x n + bu) / den →
      ∃ m', boundedAffineImage Rnd.ceil closed var el bl eu bu den m = some m' ∧ upd x var t ∈ γB n m' :=
  bounded_affine_image_sound_partial _ Rnd.ceil_sound m closed var hvar el bl eu bu den hden hel heu
    (Rnd.ceil_coeff el) (Rnd.ceil_coeff eu)

/-! ## `affine_preimage`, `generalized_affine_preimage(var, relsym, expr, den)` -/

/-- every `x` whose image `x[var := expr(x)/den]` is in the shape is in the result.  The invertible
cases go through `affine_image` with the inverse expression, whose coefficient of `var` is `den`:
besides the coefficients, `|den|` must be representable. -/
theorem affine_preimage_sound_partial (R : Rnd) (hR : R.Sound) {n : ℕ} (m : DBM n) (closed : Bool) (var : ℕ)
    (hvar : var < n) (e : ℕ → ℤ) (b den : ℤ) (hden : den ≠ 0) (hc : CoeffExact R e)
    (hcd : R.up ((absI den : ℤ) : ℚ) = fin ((absI den : ℤ) : ℚ)) :
    ∀ x, upd x var ((linEval e x n + b) / den) ∈ DBM.γ m →
      ∃ m', affinePreimage R closed var e b den m = some m' ∧ x ∈ γB n m' := by
  intro x hx
  obtain ⟨m1, h1, hx1⟩ := closeFirst_sound hR.up_le closed m hx
  exact ⟨_, by simp [affinePreimage, h1], affinePreimageCore_sound hR hvar hc hden hcd hx1⟩

/-- every `x` for which some `x' = x[var := t]` with `t relsym expr(x)/den` is in the shape, is in the
result (invertible: `generalized_affine_image` of the inverse relation; otherwise private
`refine(var, relsym, expr, den)`, emptiness test, `forget_all_dbm_constraints`). -/
theorem generalized_affine_preimage_sound_partial (R : Rnd) (hR : R.Sound) {n : ℕ} (m : DBM n) (closed : Bool)
    (var : ℕ) (hvar : var < n) (rel : RelSym) (e : ℕ → ℤ) (b den : ℤ) (hden : den ≠ 0) (hc : CoeffExact R e)
    (hcd : R.up ((absI den : ℤ) : ℚ) = fin ((absI den : ℤ) : ℚ)) :
    ∀ x, ∀ t : ℚ, upd x var t ∈ DBM.γ m → relHolds rel t ((linEval e x n + b) / den) →
      ∃ m', genAffinePreimage R closed var rel e b den m = some m' ∧ x ∈ γB n m' := by
  intro x t hx ht
  cases rel with
  | eq =>
    have ht' : t = (linEval e x n + b) / den := ht
    subst ht'
    exact affine_preimage_sound_partial R hR m closed var hvar e b den hden hc hcd x hx
  | le =>
    obtain ⟨m1, h1, hx1⟩ := closeFirst_sound hR.up_le closed m hx
    have ht' : t ≤ (linEval e x n + b) / den := ht
    obtain ⟨m', hm', hx'⟩ := genAffinePreimageCore_sound hR hvar hc hden hcd true (b := b) hx1 (by simpa using ht')
    exact ⟨m', by simp [genAffinePreimage, h1, hm'], hx'⟩
  | ge =>
    obtain ⟨m1, h1, hx1⟩ := closeFirst_sound hR.up_le closed m hx
    have ht' : (linEval e x n + b) / den ≤ t := ht
    obtain ⟨m', hm', hx'⟩ := genAffinePreimageCore_sound hR hvar hc hden hcd false (b := b) hx1 (by simpa using ht')
    exact ⟨m', by simp [genAffinePreimage, h1, hm'], hx'⟩

theorem generalized_affine_preimage_sound_mpz {n : ℕ} (m : DBM n) (closed : Bool) (var : ℕ) (hvar : var < n)
    (rel : RelSym) (e : ℕ → ℤ) (b den : ℤ) (hden : den ≠ 0) :
    ∀ x, ∀ t : ℚ, upd x var t ∈ DBM.γ m → relHolds rel t ((linEval e x n + b) / den) →
      ∃ m', genAffinePreimage Rnd.ceil closed var rel e b den m = some m' ∧ x ∈ γB n m' :=
  generalized_affine_preimage_sound_partial _ Rnd.ceil_sound m closed var hvar rel e b den hden
    (Rnd.ceil_coeff e) (by simp only [Rnd.ceil, upCeil]; rw [Rat.ceil_intCast])

/-! ## `unconstrain(var)` -/

theorem unconstrain_sound (R : Rnd) (hR : R.Sound) {n : ℕ} (m : DBM n) (closed : Bool) (var : ℕ) :
    ∀ x ∈ DBM.γ m, ∀ t : ℚ, ∃ m', unconstrain R closed var m = some m' ∧ upd x var t ∈ γB n m' := by
  intro x hx t
  obtain ⟨m1, h1, hx1⟩ := closeFirst_sound hR.up_le closed m hx
  exact ⟨_, by simp [unconstrain, h1], forgetAll_sound hx1 t⟩

/-! ## `Octagonal_Shape<T>::affine_image` -/

/-- for every point `x` of the octagon, `x[var := expr(x)/den]` is in the result: every rounding, matrix,
expression, denominator, closed flag; coefficients representable, halved unary cells finite. -/
theorem oct_affine_image_sound_partial (R : Rnd) (hR : R.Sound) {n : ℕ} (m : OctM n) (closed : Bool) (vid : ℕ)
    (hv : vid < n) (e : ℕ → ℤ) (b den : ℤ) (hden : den ≠ 0) (hc : CoeffExact R e)
    (hh : ∀ m', octCloseFirst R.up closed m = some m' → HalfFiniteOn R.up m') :
    ∀ x ∈ OctM.γ m, ∃ m', octAffineImage R closed vid e b den m = some m' ∧
      upd x vid ((linEval e x n + b) / den) ∈ γO n m' := by
  intro x hx
  obtain ⟨m1, h1, hx1⟩ := octCloseFirst_sound hR.up_le closed m hx
  obtain ⟨m', hm', hx'⟩ := octAffineImageCore_sound hR hv hc hden (b := b) (hh m1 h1) hx1
  exact ⟨m', by simp [octAffineImage, h1, hm'], hx'⟩

/-- the forms `expr == b`, `±den*var + b`, `±den*w + b`: no side condition. -/
theorem oct_affine_image_sound_special (R : Rnd) (hR : R.Sound) {n : ℕ} (m : OctM n) (closed : Bool) (vid : ℕ)
    (hv : vid < n) (e : ℕ → ℤ) (b den : ℤ) (hden : den ≠ 0)
    (hsp : exprT e (lastNonzero e n) = 0 ∨
      (exprT e (lastNonzero e n) = 1 ∧ (e (lastNonzero e n - 1) = den ∨ e (lastNonzero e n - 1) = - den))) :
    ∀ x ∈ OctM.γ m, ∃ m', octAffineImage R closed vid e b den m = some m' ∧
      upd x vid ((linEval e x n + b) / den) ∈ γO n m' := by
  intro x hx
  obtain ⟨m1, h1, hx1⟩ := octCloseFirst_sound hR.up_le closed m hx
  obtain ⟨m', hm', hx'⟩ := octAffineImageCore_sound_special hR hv hden (b := b) hx1 hsp
  exact ⟨m', by simp [octAffineImage, h1, hm'], hx'⟩

/-- `Octagonal_Shape<mpq_class>` -/
theorem oct_affine_image_sound_mpq {n : ℕ} (m : OctM n) (closed : Bool) (vid : ℕ) (hv : vid < n) (e : ℕ → ℤ)
    (b den : ℤ) (hden : den ≠ 0) :
    ∀ x ∈ OctM.γ m, ∃ m', octAffineImage Rnd.exact closed vid e b den m = some m' ∧
      upd x vid ((linEval e x n + b) / den) ∈ γO n m' :=
  oct_affine_image_sound_partial _ Rnd.exact_sound m closed vid hv e b den hden (Rnd.exact_coeff e)
    (fun m' _ => halfFiniteOn_exact m')

/-- `Octagonal_Shape<mpz_class>` -/
theorem oct_affine_image_sound_mpz {n : ℕ} (m : OctM n) (closed : Bool) (vid : ℕ) (hv : vid < n) (e : ℕ → ℤ)
    (b den : ℤ) (hden : den ≠ 0) :
    ∀ x ∈ OctM.γ m, ∃ m', octAffineImage Rnd.ceil closed vid e b den m = some m' ∧
      upd x vid ((linEval e x n + b) / den) ∈ γO n m' :=
  oct_affine_image_sound_partial _ Rnd.ceil_sound m closed vid hv e b den hden (Rnd.ceil_coeff e)
    (fun m' _ => halfFiniteOn_ceil m')

/-! ## non-vacuity: `0 ≤ x₀ ≤ 3`, `x₁ - x₀ ≤ 1`, `x₁ ≥ 0`, the point `(1, 2)` -/

def exT : DBM 2 := DBM.ofLists 2
  [[pinf, fin 3, pinf],
   [fin 0, pinf, fin 1],
   [fin 0, pinf, pinf]]

def ptT : ℕ → ℚ := fun i => if i = 0 then 1 else 2

theorem ptT_mem : ptT ∈ DBM.γ exT := by
  intro i j hi hj
  interval_cases i <;> interval_cases j <;>
    simp [exT, DBM.ofLists, Mat.diagDown_apply, Mat.ofLists, DBM.val, ptT] <;> norm_num

/-- `2·x₀ + x₁` -/
def eT : ℕ → ℤ := fun i => if i = 0 then 2 else if i = 1 then 1 else 0
/-- `x₀` -/
def eV : ℕ → ℤ := fun i => if i = 0 then 1 else 0

-- general case, exact arithmetic, `x₁ := (2·x₀ + x₁ + 1)/2` on the closed matrix (`x₁ ≤ 4`):
-- upper bound `(1 + 2·3 + 4)/2 = 11/2`, lower bound `-(1 + 0 + 0)/2`
example : (affineImageCore Rnd.exact 2 1 eT 1 2 (DBM.closure upId exT).e) 0 2 = fin (11/2) := by decide +kernel
example : (affineImageCore Rnd.exact 2 1 eT 1 2 (DBM.closure upId exT).e) 2 0 = fin (-1/2) := by decide +kernel
-- integers: the quotient is rounded up
example : (affineImageCore Rnd.ceil 2 1 eT 1 2 (DBM.closure upCeil exT).e) 0 2 = fin 6 := by decide +kernel
-- `int8_t`: `x₁ := 50·x₀ + x₁` overflows to `+∞`
example : (affineImageCore (Rnd.range (-126) 126) 2 1 (fun i => if i = 0 then 50 else if i = 1 then 1 else 0) 0 1
    (DBM.closure (upCeilRange (-126) 126) exT).e) 0 2 = pinf := by decide +kernel

example : ∃ m', affineImage Rnd.exact false 1 eT 1 2 exT = some m' ∧
    upd ptT 1 ((linEval eT ptT 2 + (1 : ℤ)) / (2 : ℤ)) ∈ γB 2 m' :=
  affine_image_sound_mpq exT false 1 (by norm_num) eT 1 2 (by norm_num) ptT ptT_mem

example : ∃ m', affineImage (Rnd.range (-126) 126) false 1 eT 1 2 exT = some m' ∧
    upd ptT 1 ((linEval eT ptT 2 + (1 : ℤ)) / (2 : ℤ)) ∈ γB 2 m' :=
  affine_image_sound_partial _ (Rnd.range_sound _ _ (by norm_num)) exT false 1 (by norm_num) eT 1 2 (by norm_num)
    (by intro i _; simp only [Rnd.range, eT, absI]; split_ifs <;> decide +kernel) ptT ptT_mem

example : ∃ m', genAffineImage Rnd.ceil true 0 .le eT 0 (-3) exT = some m' ∧ upd ptT 0 (-2) ∈ γB 2 m' :=
  generalized_affine_image_sound_mpz exT true 0 (by norm_num) .le eT 0 (-3) (by norm_num) ptT ptT_mem (-2)
    (by simp [relHolds, RelSym.holds, linEval, eT, ptT]; norm_num)

example : ∃ m', boundedAffineImage Rnd.exact false 0 eV (-1) eV 1 1 exT = some m' ∧ upd ptT 0 (3/2) ∈ γB 2 m' :=
  bounded_affine_image_sound_mpq exT false 0 (by norm_num) eV (-1) eV 1 1 (by norm_num)
    (by intro i hi; simp [eV]; omega) (by intro i hi; simp [eV]; omega) ptT ptT_mem (3/2)
    (by simp [linEval, eV, ptT]; norm_num) (by simp [linEval, eV, ptT]; norm_num)

example : ∃ m', unconstrain Rnd.ceil false 0 exT = some m' ∧ upd ptT 0 77 ∈ γB 2 m' :=
  unconstrain_sound _ Rnd.ceil_sound exT false 0 ptT ptT_mem 77

-- preimage of `x₀ := (2·x₀ + x₁)/3` (invertible) and of `x₀ ≤ x₁/2` (through `refine`): the point `(1, 2)`
-- is mapped to `(4/3, 2)` resp. related to `(1, 2)`, both in the shape
example : ∃ m', affinePreimage Rnd.exact false 0 eT 0 3 exT = some m' ∧ ptT ∈ γB 2 m' :=
  affine_preimage_sound_partial _ Rnd.exact_sound exT false 0 (by norm_num) eT 0 3 (by norm_num)
    (Rnd.exact_coeff eT) rfl ptT (by
      have : upd ptT 0 ((linEval eT ptT 2 + (0 : ℤ)) / (3 : ℤ)) = fun i => if i = 0 then 4/3 else 2 := by
        funext i; simp [upd, linEval, eT, ptT]; split_ifs <;> norm_num
      rw [this]
      intro i j hi hj
      interval_cases i <;> interval_cases j <;>
        simp [exT, DBM.ofLists, Mat.diagDown_apply, Mat.ofLists, DBM.val] <;> norm_num)

example : ∃ m', genAffinePreimage Rnd.ceil false 0 .le (fun i => if i = 1 then 1 else 0) 0 2 exT = some m' ∧
    ptT ∈ γB 2 m' :=
  generalized_affine_preimage_sound_mpz exT false 0 (by norm_num) .le (fun i => if i = 1 then 1 else 0) 0 2
    (by norm_num) ptT 1 (by
      have : upd ptT 0 1 = ptT := by funext i; simp [upd, ptT]
      rw [this]; exact ptT_mem)
    (by simp [relHolds, RelSym.holds, linEval, ptT])

-- exactness: `x₁ := x₀ + 1` in exact arithmetic
example : match affineImage Rnd.exact false 1 eV 1 1 exT with
    | none => DBM.γ exT = ∅
    | some m' => ∀ y, y ∈ γB 2 m' ↔ ∃ x ∈ DBM.γ exT, y = upd x 1 ((linEval eV x 2 + (1 : ℤ)) / (1 : ℤ)) :=
  affine_image_exact exT 1 (by norm_num) eV 1 1 (by norm_num) (Or.inr (by decide +kernel))

/-- `x₁ - x₀ ≥ 1`, i.e. `-x₀ + x₁ - 1 ≥ 0` -/
def cT : ℕ → ℤ := fun i => if i = 0 then -1 else if i = 1 then 1 else 0

example : (extractBoundedDifference 2 cT) = ⟨true, 2, 1, 2, 1⟩ := by decide +kernel
example : match refineNoCheck Rnd.exact 2 cT (-1) .ge exT.e with
    | .ok m' => ptT ∈ γB 2 m' ∧ MLe m' exT.e
    | .empty => False
    | .throws => False :=
  refine_sound _ Rnd.exact_sound exT 2 (by norm_num) cT (-1) .ge ptT ptT_mem
    (by simp [CSat, linEval, cT, ptT]; norm_num)

/-! ### octagon: `x₀ + x₁ ≤ 3`, `x₀ - x₁ ≤ 0` (rows `+x₀, -x₀, +x₁, -x₁`), the point `(3/2, 3/2)`;
`x₁ := -2·x₀` over the integers: strong closure gives the odd cell `2·x₀ ≤ 3`, the general case halves it to
`⌈3/2⌉ = 2` and obtains `-x₁ ≤ 4`, the doubled cell `8`, which the incremental closure tightens to `7`
(the seeded change "half rounded down" yields `-2·x₁ ≤ 3`, which cuts the image `x₁ = -3` away) -/

def exOc : OctM 2 := OctM.ofLists 2
  [[pinf, pinf],
   [pinf, pinf],
   [fin 0, pinf, pinf, pinf],
   [fin 3, pinf, pinf, pinf]]

def ptOc : ℕ → ℚ := fun _ => 3/2
def eOc : ℕ → ℤ := fun i => if i = 0 then -2 else 0

theorem ptOc_mem : ptOc ∈ OctM.γ exOc := by
  intro i j hi hj
  interval_cases i <;> simp only [rowSize] at hj <;> interval_cases j <;>
    simp [exOc, OctM.ofLists, Mat.diagUp_apply, Mat.ofLists, OctM.oval, ptOc] <;> norm_num

example : (OctM.strongClosure upCeil exOc).e 1 0 = fin 3 := by decide +kernel
example : ((octAffineImage Rnd.ceil false 1 eOc 0 1 exOc).map fun m => m 2 3) = some (fin 7) := by
  decide +kernel
example : ∃ m', octAffineImage Rnd.ceil false 1 eOc 0 1 exOc = some m' ∧
    upd ptOc 1 ((linEval eOc ptOc 2 + (0 : ℤ)) / (1 : ℤ)) ∈ γO 2 m' :=
  oct_affine_image_sound_mpz exOc false 1 (by norm_num) eOc 0 1 (by norm_num) ptOc ptOc_mem

end C03
