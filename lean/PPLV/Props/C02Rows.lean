import PPLV.PolyOps.ProofsAffineEx
import PPLV.PolyOps.ProofsDimsEx
import PPLV.PolyOps.ProofsLatticeEx
import PPLV.PolyOps.ProofsLattice12
import PPLV.PolyOps.ProofsLattice13
import PPLV.PolyOps.ProofsLattice14
import PPLV.PolyOps.ProofsLattice15

/-!
# C02 stage 2 — the row-level IMPLEMENTATIONS of the Polyhedron operators compute the documented sets

Models (code-shaped, no Mathlib, linked into `pplv_polyops`): `PPLV/PolyOps/{Rows,Affine,Dims,Lattice,
GenImage}.lean` — what `Polyhedron_public.cc`, `Polyhedron_chdims.cc`, `Polyhedron_templates.hh`,
`Generator_System.cc`, `Constraint_System.cc`, `Linear_System_templates.hh` do to the raw pair
(con_sys rows, gen_sys rows) and to the status word.  Semantics: `PPLV/PolyOps/Sem.lean` —
`conSem` / `genSem` (K1's `sem` / `GenSem` of the raw rows read as `Constraint::type()` /
`Generator::type()` read them, epsilon column included), `Poly.WF` (the part of `OK()` the proofs use),
`Poly.Denotes p S` (every description the status word declares valid denotes `S`; marked empty ⇒
`S = ∅`; no description held ⇒ `S` is everything).

Shape of every theorem: GIVEN any reference polyhedron `ref` (PPLV/Lin/Ops.lean) with
`p.Denotes (sem ref.cs)` — so "only constraints", "only generators", "both" (a double-description
pair), pending rows and marked-empty receivers are all covered — and `p.<operator> args = some q`
(`none` = the path calls the Chernikova conversion, which is not part of these models), the pair
the code leaves denotes the ALREADY VERIFIED reference operator applied to the same set:
`q.Denotes (sem (ref.<reference operator> args).cs)`.  The stage-1 theorems of `Props/C02.lean`
(`affine_image_spec`, …) then say that this is the documented set.
-/
namespace C02
open PPLV.Lin PPLV.PolyOps

/-! ## `affine_image` / `affine_preimage` (Polyhedron_public.cc:2780, :2868) -/

/-- the third argument `Polyhedron::affine_image` passes to `Constraint_System::affine_preimage`
    together with `inverse` is positive, whatever the signs of `expr.coefficient(var)` and of the
    denominator -/
theorem inverse_denominator_pos (n v : Nat) (e : LinExpr) (den : Int) (hc : e.coeffs.getD v 0 ≠ 0) :
    0 < (inverseMap n v e den).2 := inverseMap_den_pos n v e den hc

example : let i := inverseMap 1 0 ⟨[-2], 1⟩ 3; (i.1.coeffs, i.1.k, i.2) = ([-3], 1, 2) := by decide

/-- **the algebra of the inverse map**: with `f : x_v := e(x)/den` and `(inverse, c')` as computed at
    Polyhedron_public.cc:2820-2836 (`c = e[v] > 0`: `inverse = -e` with `inverse[v] := den`, `c' = c`;
    `c < 0`: `inverse = e` with `inverse[v] := -den`, `c' = -c`), for `w`, `x` agreeing outside `v`:
    `w = f(x)  ⇔  x = inverse(w)/c'` — for both signs of `c` and both signs of `den`. -/
theorem inverse_map_algebra (n v : Nat) (e : LinExpr) (den : Int) (hv : v < n) (he : e.coeffs.length = n)
    (hden : den ≠ 0) (hc : e.coeffs.getD v 0 ≠ 0) (x w : Val) (hframe : ∀ j < n, j ≠ v → w j = x j) :
    ((den : Rat) * w v = e.val x) ↔
      (((inverseMap n v e den).2 : Rat) * x v = (inverseMap n v e den).1.val w) :=
  inverseMap_spec n v e den hv he hden hc x w hframe

example : ((1 : Int) : Rat) * (fun _ => (-1 : Rat)) 0 = (⟨[-1], 0⟩ : LinExpr).val (fun _ => 1) := by
  simp [LinExpr.val, dot]

/-- the one-token slip `inverse.set_coefficient(var, denominator)` in the `c < 0` branch is NOT the
    inverse: for `x := -x` the point `x = 1` maps to `w = -1`, the slipped pair sends `-1` to `-1`,
    the real pair back to `1` -/
theorem inverse_map_wrong_sign_fails :
    let e : LinExpr := ⟨[-1], 0⟩
    let mutant : LinExpr × Int := (exprSet 1 e 0 1, -(e.coeffs.getD 0 0))
    let x : Val := fun _ => 1
    let w : Val := fun _ => -1
    ((1 : Int) : Rat) * w 0 = e.val x ∧ ¬ ((mutant.2 : Rat) * x 0 = mutant.1.val w) ∧
      (((inverseMap 1 0 e 1).2 : Rat) * x 0 = (inverseMap 1 0 e 1).1.val w) :=
  inverseMap_wrong_sign_fails

/-- `Polyhedron::affine_image(var, expr, denominator)`: invertible (`expr[var] ≠ 0`) ⇒ the
    generators transformed by `Generator_System::affine_image` AND the constraints transformed by
    `Constraint_System::affine_preimage` with the inverse map both denote `affineImage P` (whichever
    is up to date, pending rows included); non-invertible ⇒ the transformed generators do and the
    constraints are declared out of date; marked empty ⇒ stays empty. -/
theorem affine_image_rows_correct (p q : Poly) (v : Nat) (e : LinExpr) (den : Int) (ref : RefPoly)
    (hn : ref.n = p.dim) (hnnc : ref.nnc = p.nnc) (hwf : WF ref.n ref.cs) (hp : p.WF)
    (hv : v < p.dim) (he : e.coeffs.length = p.dim) (hden : den ≠ 0)
    (hD : p.Denotes (sem ref.cs)) (h : p.affine_image v e den = some q) :
    q.Denotes (sem (ref.affineImage v e den).cs) ∧ q.WF :=
  ⟨PPLV.PolyOps.affine_image_rows_correct p q v e den ref hn hnnc hwf hp hv he hden hD h,
   affine_image_rows_wf p q v e den hp hv he hden h⟩

/-- the segment `0 ≤ x ≤ 1` held as a double-description pair, `x := (-2x + 1)/(-1)` -/
example : ∃ q, exP.affine_image 0 exE (-1) = some q ∧
    q.Denotes (sem (exRef.affineImage 0 exE (-1)).cs) ∧ q.WF := by
  have h : (exP.affine_image 0 exE (-1)).isSome = true := rfl
  obtain ⟨q, hq⟩ := Option.isSome_iff_exists.mp h
  exact ⟨q, hq, affine_image_rows_correct exP q 0 exE (-1) exRef rfl rfl exRef_wf exP_wf (by decide) rfl
    (by decide) exP_denotes hq⟩

/-- **headline form for a double-description pair.**  GIVEN that the constraint rows and the generator
    rows of the receiver both denote `P` (both up to date, nothing pending, not marked empty), after
    `affine_image(var, expr, den)`: invertible ⇒ BOTH transformed descriptions denote the documented
    image `{w | ∃ x ∈ P, den·w_v = expr(x), w_j = x_j (j ≠ v)}`; non-invertible ⇒ the transformed
    generators do, and the constraints are flagged out of date. -/
theorem affine_image_dd_pair (p q : Poly) (v : Nat) (e : LinExpr) (den : Int) (P : Set Val)
    (hp : p.WF) (hem : p.st.empty = false) (hcu : p.st.cUp = true) (hgu : p.st.gUp = true)
    (hcp : p.st.cPend = false) (hgp : p.st.gPend = false)
    (hC : conSem p.nnc p.cs.rows = P) (hG : genSem p.nnc p.dim p.gs.rows = P)
    (hv : v < p.dim) (he : e.coeffs.length = p.dim) (hden : den ≠ 0)
    (h : p.affine_image v e den = some q) :
    (e.coeffs.getD v 0 ≠ 0 →
      conSem q.nnc q.cs.rows = imgSet p.dim v e den P ∧ genSem q.nnc q.dim q.gs.rows = imgSet p.dim v e den P) ∧
    (e.coeffs.getD v 0 = 0 →
      genSem q.nnc q.dim q.gs.rows = imgSet p.dim v e den P ∧ q.st.cUp = false) := by
  let ref : RefPoly := refOfCons p.nnc p.dim p.cs.rows
  have hwf : WF ref.n ref.cs := kitC_wf p.nnc p.dim p.cs.rows (hp.cs_len hem hcu)
  have hsem : sem ref.cs = P := hC
  have hD : p.Denotes (sem ref.cs) := by
    rw [hsem]
    refine ⟨fun h' => ?_, fun _ => ⟨fun _ _ => hC, fun _ _ => hG, fun h' => ?_⟩⟩
    · rw [hem] at h'; cases h'
    · rw [hcu] at h'; cases h'
  have hq := (affine_image_rows_correct p q v e den ref rfl rfl hwf hp hv he hden hD h).1
  rw [sem_affineImage ref v e den hwf hv (le_of_eq he), hsem] at hq
  constructor
  · intro hc
    obtain ⟨hst, _, _, _, _⟩ := affine_image_inv_shape p q v e den hem hc h
    have hqe : q.st.empty = false := by rw [hst]; exact hem
    obtain ⟨h1, h2, _⟩ := hq.2 hqe
    exact ⟨h1 (by rw [hst]; exact hcu) (by rw [hst]; exact hgp),
           h2 (by rw [hst]; exact hgu) (by rw [hst]; exact hcp)⟩
  · intro hc
    obtain ⟨_, _, _, _, _, hqe, hqc, hqg, hqcp, _⟩ := affine_image_noninv_shape p q v e den hp hem hc h
    exact ⟨(hq.2 hqe).2.1 hqg hqcp, hqc⟩

example : ∃ q, exP.affine_image 0 exE 1 = some q ∧
    conSem q.nnc q.cs.rows = imgSet 1 0 exE 1 (sem exRef.cs) := by
  have h : (exP.affine_image 0 exE 1).isSome = true := rfl
  obtain ⟨q, hq⟩ := Option.isSome_iff_exists.mp h
  have hD := exP_denotes
  have hC : conSem exP.nnc exP.cs.rows = sem exRef.cs := (hD.2 rfl).1 rfl rfl
  have hG : genSem exP.nnc exP.dim exP.gs.rows = sem exRef.cs := (hD.2 rfl).2.1 rfl rfl
  exact ⟨q, hq, ((affine_image_dd_pair exP q 0 exE 1 _ exP_wf rfl rfl rfl rfl rfl hC hG (by decide) rfl
    (by decide) hq).1 (by decide)).1⟩

/-- `Polyhedron::affine_preimage(var, expr, denominator)`, dually: invertible ⇒ constraints by
    substitution and generators by the image under the inverse map; non-invertible ⇒ constraints only -/
theorem affine_preimage_rows_correct (p q : Poly) (v : Nat) (e : LinExpr) (den : Int) (ref : RefPoly)
    (hn : ref.n = p.dim) (hnnc : ref.nnc = p.nnc) (hwf : WF ref.n ref.cs) (hp : p.WF)
    (hv : v < p.dim) (he : e.coeffs.length = p.dim) (hden : den ≠ 0)
    (hD : p.Denotes (sem ref.cs)) (h : p.affine_preimage v e den = some q) :
    q.Denotes (sem (ref.affinePreimage v e den).cs) ∧ q.WF :=
  ⟨PPLV.PolyOps.affine_preimage_rows_correct p q v e den ref hn hnnc hwf hp hv he hden hD h,
   affine_preimage_rows_wf p q v e den hp hv he hden h⟩

example : ∃ q, exP.affine_preimage 0 exE 1 = some q ∧
    q.Denotes (sem (exRef.affinePreimage 0 exE 1).cs) ∧ q.WF := by
  have h : (exP.affine_preimage 0 exE 1).isSome = true := rfl
  obtain ⟨q, hq⟩ := Option.isSome_iff_exists.mp h
  exact ⟨q, hq, affine_preimage_rows_correct exP q 0 exE 1 exRef rfl rfl exRef_wf exP_wf (by decide) rfl
    (by decide) exP_denotes hq⟩

/-! ### the two system-level transformers on their own -/

/-- `Generator_System::affine_image` (loop body, `denominator > 0`): the generated set is mapped by
    `x_v := e(x)/den` -/
theorem gen_system_affine_image_rows (nnc : Bool) (n v : Nat) (e : LinExpr) (den : Int) (rows : List Row)
    (hw : ∀ r ∈ rows, r.genWF nnc n) (hv : v < n) (he : e.coeffs.length ≤ n) (hd : 0 < den) :
    genSem nnc n (rows.map (genRowAffineImage v e den)) =
      {w | ∃ x ∈ genSem nnc n rows, (den : Rat) * w v = e.val x ∧ ∀ j < n, j ≠ v → w j = x j} :=
  kit_affineImage nnc n v e den rows hw hv he hd

example : (genRowAffineImage 0 ⟨[-2], 1⟩ 3 ⟨false, 2, [1], 0⟩) = ⟨false, 6, [0], 0⟩ := by decide

/-- `Constraint_System::affine_preimage` (loop body, `denominator > 0`): substitution
    `x_v := e(x)/den`, for equalities, non-strict and strict rows -/
theorem con_system_affine_preimage_rows (nnc : Bool) (n v : Nat) (e : LinExpr) (den : Int) (rows : List Row)
    (hw : ∀ r ∈ rows, r.cf.length = n) (hv : v < n) (he : e.coeffs.length = n) (hd : 0 < den) :
    conSem nnc (rows.map (conRowAffinePreimage v e den)) =
      {w | (w.update v (e.val w / (den : Rat))) ∈ conSem nnc rows} :=
  kitC_affinePreimage nnc n v e den rows hw hv he hd

example : (conRowAffinePreimage 0 ⟨[-2], 1⟩ 3 ⟨false, 1, [-1], 0⟩) = ⟨false, 1, [1], 0⟩ := by decide

/-- strong normalisation (`Linear_System::strong_normalize`) changes neither reading -/
theorem strong_normalize_rows (nnc : Bool) (n : Nat) (rows : List Row) :
    conSem nnc (rows.map Row.strongNormalize) = conSem nnc rows ∧
    ((∀ r ∈ rows, r.genWF nnc n) → genSem nnc n (rows.map Row.strongNormalize) = genSem nnc n rows) :=
  ⟨kitC_strongNormalize nnc rows, kit_strongNormalize nnc n rows⟩

example : (⟨true, 4, [-2, 6], 0⟩ : Row).strongNormalize = ⟨true, -2, [1, -3], 0⟩ := by decide

/-! ## dimensions (Polyhedron_chdims.cc, Polyhedron_templates.hh) -/

/-- `add_space_dimensions_and_embed(m)`: zero columns in the constraints, the lines of the new
    variables (in front) plus zero columns in the generators (`Linear_System::
    add_universe_rows_and_space_dimensions`, the NNC epsilon column moved); marked-empty and
    zero-dimensional receivers included -/
theorem add_space_dimensions_and_embed_rows_correct (p : Poly) (m : Nat) (ref : RefPoly)
    (hn : ref.n = p.dim) (hnnc : ref.nnc = p.nnc) (hwf : WF ref.n ref.cs) (hp : p.WF)
    (hD : p.Denotes (sem ref.cs)) :
    (p.add_space_dimensions_and_embed m).Denotes (sem (ref.addDimsEmbed m).cs) :=
  PPLV.PolyOps.add_space_dimensions_and_embed_rows_correct p m ref hn hnnc hwf hp hD

example : (exP.add_space_dimensions_and_embed 2).Denotes (sem (exRef.addDimsEmbed 2).cs) :=
  add_space_dimensions_and_embed_rows_correct exP 2 exRef rfl rfl exRef_wf exP_wf exP_denotes

/-- `add_space_dimensions_and_project(m)`: the equalities `x_k = 0` in front of the constraints,
    zero columns in the generators -/
theorem add_space_dimensions_and_project_rows_correct (p : Poly) (m : Nat) (ref : RefPoly)
    (hn : ref.n = p.dim) (hnnc : ref.nnc = p.nnc) (hwf : WF ref.n ref.cs) (hp : p.WF)
    (hD : p.Denotes (sem ref.cs)) :
    (p.add_space_dimensions_and_project m).Denotes (sem (ref.addDimsProject m).cs) :=
  PPLV.PolyOps.add_space_dimensions_and_project_rows_correct p m ref hn hnnc hwf hp hD

example : (exP.add_space_dimensions_and_project 2).Denotes (sem (exRef.addDimsProject 2).cs) :=
  add_space_dimensions_and_project_rows_correct exP 2 exRef rfl rfl exRef_wf exP_wf exP_denotes

/-- `remove_space_dimensions(vars)`: the columns dropped from the generators, all-zero lines and
    rays removed, rows strongly normalised; constraints flagged out of date; all dimensions removed
    from a non-empty polyhedron: the zero-dimensional universe -/
theorem remove_space_dimensions_rows_correct (p q : Poly) (vars : List Nat) (ref : RefPoly)
    (hn : ref.n = p.dim) (hnnc : ref.nnc = p.nnc) (hwf : WF ref.n ref.cs) (hp : p.WF)
    (hnd : vars.Nodup) (hlt : ∀ v ∈ vars, v < p.dim)
    (hD : p.Denotes (sem ref.cs)) (h : p.remove_space_dimensions vars = some q) :
    q.Denotes (sem (ref.removeDims vars).cs) :=
  PPLV.PolyOps.remove_space_dimensions_rows_correct p q vars ref hn hnnc hwf hp hnd hlt hD h

example : ∃ q, exP2.remove_space_dimensions [1] = some q ∧ q.Denotes (sem (exRef2.removeDims [1]).cs) := by
  have h : (exP2.remove_space_dimensions [1]).isSome = true := by decide
  obtain ⟨q, hq⟩ := Option.isSome_iff_exists.mp h
  have hlt : ∀ v ∈ [1], v < exP2.dim := by
    intro v hv; simp at hv; subst hv; decide
  exact ⟨q, hq, remove_space_dimensions_rows_correct exP2 q [1] exRef2 rfl rfl exRef2_wf exP2_wf (by decide)
    hlt exP2_denotes hq⟩

/-- `remove_higher_space_dimensions(nd)`: rows truncated and strongly normalised, invalid lines
    and rays removed -/
theorem remove_higher_space_dimensions_rows_correct (p q : Poly) (nd : Nat) (ref : RefPoly)
    (hn : ref.n = p.dim) (hnnc : ref.nnc = p.nnc) (hwf : WF ref.n ref.cs) (hp : p.WF) (hnd : nd ≤ p.dim)
    (hD : p.Denotes (sem ref.cs)) (h : p.remove_higher_space_dimensions nd = some q) :
    q.Denotes (sem (ref.removeHigherDims nd).cs) :=
  PPLV.PolyOps.remove_higher_space_dimensions_rows_correct p q nd ref hn hnnc hwf hp hnd hD h

example : ∃ q, exP2.remove_higher_space_dimensions 1 = some q ∧
    q.Denotes (sem (exRef2.removeHigherDims 1).cs) := by
  have h : (exP2.remove_higher_space_dimensions 1).isSome = true := by decide
  obtain ⟨q, hq⟩ := Option.isSome_iff_exists.mp h
  exact ⟨q, hq, remove_higher_space_dimensions_rows_correct exP2 q 1 exRef2 rfl rfl exRef2_wf exP2_wf
    (by decide) exP2_denotes hq⟩

/-- `map_space_dimensions(pfunc)` for a partial injective map onto `{0..N-1}` (`f[j] = pfunc(j)`):
    the permutation case (columns of BOTH descriptions renamed, rows sign-normalised) and the general
    case through the generators (lines and rays mapped to the origin dropped; NNC: the closure points
    of the points added by the constructor) -/
theorem map_space_dimensions_rows_correct (p q : Poly) (f : List (Option Nat)) (N : Nat) (ref : RefPoly)
    (hn : ref.n = p.dim) (hnnc : ref.nnc = p.nnc) (hwf : WF ref.n ref.cs) (hp : p.WF)
    (hlen : f.length = p.dim)
    (hinj : ∀ j j' k, f.getD j none = some k → f.getD j' none = some k → j = j')
    (hcod : ∀ j k, f.getD j none = some k → k < N) (hsurj : ∀ k < N, ∃ j, f.getD j none = some k)
    (hD : p.Denotes (sem ref.cs)) (h : p.map_space_dimensions f = some q) :
    q.Denotes (sem (ref.mapDims N (mapPairs f)).cs) :=
  PPLV.PolyOps.map_space_dimensions_rows_correct p q f N ref hn hnnc hwf hp hlen hinj hcod hsurj hD h

/-- the transposition of the two coordinates of `[0,1] × {0}` -/
example : ∃ q, exP2.map_space_dimensions [some 1, some 0] = some q ∧
    q.Denotes (sem (exRef2.mapDims 2 (mapPairs [some 1, some 0])).cs) := by
  have h : (exP2.map_space_dimensions [some 1, some 0]).isSome = true := by decide
  obtain ⟨q, hq⟩ := Option.isSome_iff_exists.mp h
  refine ⟨q, hq, map_space_dimensions_rows_correct exP2 q [some 1, some 0] 2 exRef2 rfl rfl exRef2_wf
    exP2_wf rfl ?_ ?_ ?_ exP2_denotes hq⟩
  · intro j j' k h1 h2
    rcases j with _ | _ | j <;> rcases j' with _ | _ | j' <;> simp at h1 h2 <;> omega
  · intro j k h1
    rcases j with _ | _ | j <;> simp at h1 <;> omega
  · intro k hk
    rcases k with _ | _ | k
    · exact ⟨1, rfl⟩
    · exact ⟨0, rfl⟩
    · omega

/-- `expand_space_dimension(var, m)`: embed, then for every constraint row mentioning `var` the `m`
    copies with the coefficient moved to a new variable, inserted (pending or not) by
    `add_recycled_constraints` -/
theorem expand_space_dimension_rows_correct (p q : Poly) (v m : Nat) (ref : RefPoly)
    (hn : ref.n = p.dim) (hnnc : ref.nnc = p.nnc) (hwf : WF ref.n ref.cs) (hp : p.WF) (hv : v < p.dim)
    (hD : p.Denotes (sem ref.cs)) (h : p.expand_space_dimension v m = some q) :
    q.Denotes (sem (ref.expandDim v m).cs) :=
  PPLV.PolyOps.expand_space_dimension_rows_correct p q v m ref hn hnnc hwf hp hv hD h

example : ∃ q, exP.expand_space_dimension 0 2 = some q ∧ q.Denotes (sem (exRef.expandDim 0 2).cs) := by
  have h : (exP.expand_space_dimension 0 2).isSome = true := by decide
  obtain ⟨q, hq⟩ := Option.isSome_iff_exists.mp h
  exact ⟨q, hq, expand_space_dimension_rows_correct exP q 0 2 exRef rfl rfl exRef_wf exP_wf (by decide)
    exP_denotes hq⟩

/-- `concatenate_assign(y)`: the constraints of `y` shifted by `space_dim` and appended (pending
    when the receiver can have pending rows; then the lines of the new variables join the generators) -/
theorem concatenate_assign_rows_correct (p y q : Poly) (refx refy : RefPoly)
    (hnx : refx.n = p.dim) (hny : refy.n = y.dim) (hnncx : refx.nnc = p.nnc) (hnncy : refy.nnc = y.nnc)
    (hwfx : WF refx.n refx.cs) (hwfy : WF refy.n refy.cs) (hp : p.WF) (hy : y.WF) (hnncxy : y.nnc = p.nnc)
    (hDx : p.Denotes (sem refx.cs)) (hDy : y.Denotes (sem refy.cs)) (h : p.concatenate_assign y = some q) :
    q.Denotes (sem (refx.concat refy).cs) :=
  PPLV.PolyOps.concatenate_assign_rows_correct p y q refx refy hnx hny hnncx hnncy hwfx hwfy hp hy hnncxy
    hDx hDy h

example : ∃ q, exP2.concatenate_assign exP = some q ∧ q.Denotes (sem (exRef2.concat exRef).cs) := by
  have h : (exP2.concatenate_assign exP).isSome = true := by decide
  obtain ⟨q, hq⟩ := Option.isSome_iff_exists.mp h
  exact ⟨q, hq, concatenate_assign_rows_correct exP2 exP q exRef2 exRef rfl rfl rfl rfl exRef2_wf exRef_wf
    exP2_wf exP_wf rfl exP2_denotes exP_denotes hq⟩

/-- `fold_space_dimensions(vars, dest)`: for every `i ∈ vars` a copy gets the non-invertible
    `affine_image(dest, Variable(i))` and is joined in by `poly_hull_assign`; then `vars` is removed.
    `gs`: any generator list of the receiver's set (`[]` for the empty set); the reference is
    `RefPoly.foldGens` (C02.fold_space_dimensions_model / _least).  `p.PendOK`: a pair that can have
    pending rows holds both descriptions, pending generators only on such a pair (`Polyhedron::OK()`). -/
theorem fold_space_dimensions_rows_correct (p q : Poly) (vars : List Nat) (dest : Nat) (ref : RefPoly)
    (gs : List Gen) (hn : ref.n = p.dim) (hp : p.WF) (hpo : p.PendOK) (hnd : vars.Nodup)
    (hlt : ∀ v ∈ vars, v < p.dim) (hdest : dest < p.dim) (hdv : dest ∉ vars)
    (hw : gensWF p.dim gs = true) (hpt : gs = [] ∨ ∃ g ∈ gs, g.isPt = true)
    (hD : p.Denotes (GenSem p.dim gs)) (h : p.fold_space_dimensions vars dest = some q) :
    q.Denotes (sem (RefPoly.foldGens ref vars dest gs).cs) :=
  PPLV.PolyOps.fold_space_dimensions_rows_correct p q vars dest ref gs hn hp hpo hnd hlt hdest hdv hw hpt hD h

/-- folding `y` into `x` on the point `(1, 2)`: the points `1` and `2` -/
example : (ex2.fold_space_dimensions [1] 0).map (fun q => (q.dim, q.gs.rows)) =
    some (1, [⟨false, 1, [1], 0⟩, ⟨false, 1, [2], 0⟩]) := by decide

example : ∃ q, ex2.fold_space_dimensions [1] 0 = some q ∧
    q.Denotes (sem (RefPoly.foldGens (univ false 2) [1] 0 ex2G).cs) := by
  have h : (ex2.fold_space_dimensions [1] 0).isSome = true := rfl
  obtain ⟨q, hq⟩ := Option.isSome_iff_exists.mp h
  exact ⟨q, hq, fold_space_dimensions_rows_correct ex2 q [1] 0 (univ false 2) ex2G rfl ex2_wf
    ⟨fun h => by simp [ex2, Status.canPend] at h, fun h => by simp [ex2] at h⟩ (by decide) (by decide)
    (by decide) (by decide) (by decide) (Or.inr ⟨⟨.point, [1, 2], 1⟩, by simp [ex2G], rfl⟩)
    ex2_denotes hq⟩

/-! ## lattice operators (Polyhedron_public.cc) -/

/-- `intersection_assign(y)`: the constraint rows of `y` appended — as pending rows when the
    receiver can have pending rows, merged / inserted otherwise (generators flagged out of date) -/
theorem intersection_assign_rows_correct (x y q : Poly) (refx refy : RefPoly)
    (hdim : y.dim = x.dim) (hnnc : y.nnc = x.nnc) (hx : x.WF) (hy : y.WF)
    (hDx : x.Denotes (sem refx.cs)) (hDy : y.Denotes (sem refy.cs))
    (h : x.intersection_assign y = some q) :
    q.Denotes (sem (refx.meet refy).cs) :=
  PPLV.PolyOps.intersection_assign_rows_correct x y q refx refy hdim hnnc hx hy hDx hDy h

example : ∃ q, exPm.intersection_assign exP = some q ∧ q.Denotes (sem (exRef.meet exRef).cs) := by
  have h : (exPm.intersection_assign exP).isSome = true := rfl
  obtain ⟨q, hq⟩ := Option.isSome_iff_exists.mp h
  exact ⟨q, hq, intersection_assign_rows_correct exPm exP q exRef exRef rfl rfl exPm_wf exP_wf
    exPm_denotes exP_denotes hq⟩

/-- `poly_hull_assign(y)`: the generator rows of `y` appended (pending / merged / inserted).
    `gx`, `gy`: any generator lists of the two sets (`[]` for an empty one) -/
theorem poly_hull_assign_rows_correct (x y q : Poly) (n : Nat) (gx gy : List Gen)
    (hxn : x.dim = n) (hyn : y.dim = n) (hnnc : y.nnc = x.nnc) (hx : x.WF) (hy : y.WF)
    (hwx : gensWF n gx = true) (hwy : gensWF n gy = true)
    (hpx : gx = [] ∨ ∃ g ∈ gx, g.isPt = true) (hpy : gy = [] ∨ ∃ g ∈ gy, g.isPt = true)
    (hDx : x.Denotes (GenSem n gx)) (hDy : y.Denotes (GenSem n gy))
    (h : x.poly_hull_assign y = some q) :
    q.Denotes (GenSem n (hullGens [gx, gy])) :=
  PPLV.PolyOps.poly_hull_assign_rows_correct x y q n gx gy hxn hyn hnnc hx hy hwx hwy hpx hpy hDx hDy h

example : ∃ q, exPm.poly_hull_assign exP = some q ∧ q.Denotes (GenSem 1 (hullGens [exG, exG])) := by
  have h : (exPm.poly_hull_assign exP).isSome = true := rfl
  obtain ⟨q, hq⟩ := Option.isSome_iff_exists.mp h
  exact ⟨q, hq, poly_hull_assign_rows_correct exPm exP q 1 exG exG rfl rfl rfl exPm_wf exP_wf (by decide)
    (by decide) (Or.inr ⟨⟨.point, [0], 1⟩, by simp [exG], rfl⟩) (Or.inr ⟨⟨.point, [0], 1⟩, by simp [exG], rfl⟩)
    exPm_denotesG exP_denotesG hq⟩

/-- `time_elapse_assign(y)`, closed topology: the points of `y` other than the origin become rays,
    the origin is dropped, lines and rays are kept; appended to the generators of the receiver -/
theorem time_elapse_assign_rows_correct (x y q : Poly) (n : Nat) (gx gy : List Gen)
    (hxn : x.dim = n) (hyn : y.dim = n) (hnnc : y.nnc = x.nnc) (hclosed : x.nnc = false)
    (hx : x.WF) (hy : y.WF) (hwx : gensWF n gx = true) (hwy : gensWF n gy = true)
    (hpx : ∃ g ∈ gx, g.isPt = true) (hpy : ∃ g ∈ gy, g.isPt = true)
    (hDx : x.Denotes (GenSem n gx)) (hDy : y.Denotes (GenSem n gy))
    (h : x.time_elapse_assign y = some q) :
    q.Denotes (GenSem n (timeElapseGens gx gy)) :=
  PPLV.PolyOps.time_elapse_assign_rows_correct x y q n gx gy hxn hyn hnnc hclosed hx hy hwx hwy hpx hpy
    hDx hDy h

example : (exP.time_elapse_assign exPm).map (fun q => q.gs.rows) =
    some [⟨false, 1, [0], 0⟩, ⟨false, 1, [1], 0⟩, ⟨false, 0, [1], 0⟩] := by decide

example : ∃ q, exP.time_elapse_assign exPm = some q ∧ q.Denotes (GenSem 1 (timeElapseGens exG exG)) := by
  have h : (exP.time_elapse_assign exPm).isSome = true := rfl
  obtain ⟨q, hq⟩ := Option.isSome_iff_exists.mp h
  exact ⟨q, hq, time_elapse_assign_rows_correct exP exPm q 1 exG exG rfl rfl rfl rfl exP_wf exPm_wf
    (by decide) (by decide) ⟨⟨.point, [0], 1⟩, by simp [exG], rfl⟩ ⟨⟨.point, [0], 1⟩, by simp [exG], rfl⟩
    exP_denotesG exPm_denotesG hq⟩

/-- `time_elapse_assign(y)`, both topologies.  NNC: the POINTS of `y` are erased ("their role can be
    played by closure points", Polyhedron_public.cc:3687) and the closure points become rays — this
    is right exactly because of the invariant `NNCInvW` of NNC generator systems, which `Poly.WF` does
    not record: every point belongs to the set generated by the closure part of the system (lines,
    rays, closure points read as points).  It is NOT true that every point has its closure point as
    a row (`¬ NNCInv exW` in ProofsLattice15.lean; real minimized systems violate that in ≈ 8 % of the
    cases); the driver decides `NNCInvW` on every real NNC argument with K1. -/
theorem time_elapse_assign_rows_correct_nnc (x y q : Poly) (n : Nat) (gx gy : List Gen)
    (hxn : x.dim = n) (hyn : y.dim = n) (hnnc : y.nnc = x.nnc) (hx : x.WF) (hy : y.WF)
    (hwx : gensWF n gx = true) (hwy : gensWF n gy = true)
    (hpx : ∃ g ∈ gx, g.isPt = true) (hpy : ∃ g ∈ gy, g.isPt = true)
    (hinv : x.nnc = true → NNCInvW n y.gs.rows)
    (hDx : x.Denotes (GenSem n gx)) (hDy : y.Denotes (GenSem n gy))
    (h : x.time_elapse_assign y = some q) :
    q.Denotes (GenSem n (timeElapseGens gx gy)) :=
  PPLV.PolyOps.time_elapse_assign_rows_correct_nnc x y q n gx gy hxn hyn hnnc hx hy hwx hwy hpx hpy hinv
    hDx hDy h

/-- closure point 3, point 2, point -2, closure point -2 (`exW`): `NNCInvW 1 exW` holds although the
    point 2 has no closure-point row (both proved as examples in ProofsLattice15.lean); its closure part: -/
example : closurePart exW = [⟨.point, [3], 1⟩, ⟨.point, [-2], 1⟩] := by decide

/-- either argument marked empty: the result is empty (`timeElapseGens gx []` would be `gx`) -/
theorem time_elapse_assign_rows_empty (x y q : Poly) (he : x.st.empty = true ∨ y.st.empty = true)
    (h : x.time_elapse_assign y = some q) : q.Denotes ∅ :=
  PPLV.PolyOps.time_elapse_assign_rows_empty x y q he h

example : ∃ q, exP.time_elapse_assign exP.setEmpty = some q ∧ q.Denotes ∅ := by
  have h : (exP.time_elapse_assign exP.setEmpty).isSome = true := rfl
  obtain ⟨q, hq⟩ := Option.isSome_iff_exists.mp h
  exact ⟨q, hq, time_elapse_assign_rows_empty exP exP.setEmpty q (Or.inr rfl) hq⟩

/-- `topological_closure_assign()`: the constraint path (strict rows that are not tautologies lose
    their epsilon coefficient, `ε ≤ 1` is inserted) and the generator path
    (`add_corresponding_points`: every closure point gets its point) both denote the closure -/
theorem topological_closure_assign_rows_correct (p q : Poly) (ref : RefPoly)
    (hn : ref.n = p.dim) (hwf : WF ref.n ref.cs) (hp : p.WF)
    (hD : p.Denotes (sem ref.cs)) (h : p.topological_closure_assign = some q) :
    q.Denotes (sem ref.closure.cs) :=
  topological_closure_assign_rows_correct_full p q ref hn hwf hp hD h

/-- the half-open segment `0 < x ≤ 1` held by its generators only: the generator path -/
example : ∃ q, exNg.topological_closure_assign = some q ∧ q.Denotes (sem exNRef.closure.cs) := by
  have h : (exNg.topological_closure_assign).isSome = true := rfl
  obtain ⟨q, hq⟩ := Option.isSome_iff_exists.mp h
  exact ⟨q, hq, topological_closure_assign_rows_correct exNg q exNRef rfl exNRef_wf exNg_wf exNg_denotes hq⟩

/-- `unconstrain(vars)`: the lines of the variables appended to the generators (pending or not) -/
theorem unconstrain_rows_correct (p q : Poly) (vars : List Nat) (ref : RefPoly)
    (hn : ref.n = p.dim) (hwf : WF ref.n ref.cs) (hp : p.WF) (hvars : ∀ v ∈ vars, v < p.dim)
    (hD : p.Denotes (sem ref.cs)) (h : p.unconstrain vars = some q) :
    q.Denotes (sem (ref.unconstrain vars).cs) :=
  PPLV.PolyOps.unconstrain_rows_correct p q vars ref hn hwf hp hvars hD h

example : ∃ q, exPm.unconstrain [0] = some q ∧ q.Denotes (sem (exRef.unconstrain [0]).cs) := by
  have h : (exPm.unconstrain [0]).isSome = true := rfl
  obtain ⟨q, hq⟩ := Option.isSome_iff_exists.mp h
  exact ⟨q, hq, unconstrain_rows_correct exPm q [0] exRef rfl exRef_wf exPm_wf
    (by intro v hv; simp at hv; subst hv; decide) exPm_denotes hq⟩

/-- `generalized_affine_image(var, relsym, expr, den)` as implemented for `≤ = ≥`: `affine_image`,
    then the ray `∓var` added by `add_generator` (pending or not); for the strict symbols the model
    has a result only when the image is marked empty (otherwise the code calls `minimize()` in the
    middle: conversion, not modelled) -/
theorem generalized_affine_image_rows_correct (p q : Poly) (v : Nat) (r : Rel) (e : LinExpr) (den : Int)
    (ref : RefPoly) (hn : ref.n = p.dim) (hnnc : ref.nnc = p.nnc) (hwf : WF ref.n ref.cs) (hp : p.WF)
    (hv : v < p.dim) (he : e.coeffs.length = p.dim) (hden : den ≠ 0)
    (hD : p.Denotes (sem ref.cs)) (h : p.generalized_affine_image v r e den = some q) :
    q.Denotes (sem (ref.genAffineImage v r e den).cs) :=
  PPLV.PolyOps.generalized_affine_image_rows_correct p q v r e den ref hn hnnc hwf hp hv he hden hD h

example : ∃ q, exPm.generalized_affine_image 0 .ge exE (-1) = some q ∧
    q.Denotes (sem (exRef.genAffineImage 0 .ge exE (-1)).cs) := by
  have h : (exPm.generalized_affine_image 0 .ge exE (-1)).isSome = true := rfl
  obtain ⟨q, hq⟩ := Option.isSome_iff_exists.mp h
  exact ⟨q, hq, generalized_affine_image_rows_correct exPm q 0 .ge exE (-1) exRef rfl rfl exRef_wf
    exPm_wf (by decide) rfl (by decide) exPm_denotes hq⟩

end C02
