import PPLV.PolyOps.ProofsAffineEx

/-!
# C02 stage 2 — the row-level IMPLEMENTATIONS of the Polyhedron operators compute the documented sets

Models (code-shaped, no Mathlib, linked into `pplv_polyops`): `PPLV/PolyOps/{Rows,Affine,Dims,Lattice,
GenImage}.lean` — what `Polyhedron_public.cc`, `Polyhedron_chdims.cc`, `Polyhedron_templates.hh`,
`Generator_System.cc`, `Constraint_System.cc`, `Linear_System_templates.hh` do to the raw pair
(con_sys rows, gen_sys rows) and to the status word.  Semantics: `PPLV/PolyOps/Sem.lean` —
`conSem` / `genSem` (K1's `sem` / `GenSem` of the raw rows read as `Constraint::type()` /
`Generator::type()` read them, epsilon column included), `Poly.WF` (the part of `OK()` the proofs use),
`Poly.Denotes p S` (every description the status word declares valid denotes `S`; marked empty ⇒
`S = ∅`; no description held ⇒ `S` is everything).

Shape of every theorem: GIVEN any reference polyhedron `ref` (PPLV/Lin/Ops.lean) with
`p.Denotes (sem ref.cs)` — so "only constraints", "only generators", "both" (a double-description
pair), pending rows and marked-empty receivers are all covered — and `p.<operator> args = some q`
(`none` = the path calls the Chernikova conversion, which is not part of these models), the pair
the code leaves denotes the ALREADY VERIFIED reference operator applied to the same set:
`q.Denotes (sem (ref.<reference operator> args).cs)`.  The stage-1 theorems of `Props/C02.lean`
(`affine_image_spec`, …) then say that this is the documented set.
-/
namespace C02
open PPLV.Lin PPLV.PolyOps

/-! ## `affine_image` / `affine_preimage` (Polyhedron_public.cc:2780, :2868) -/

/-- the third argument `Polyhedron::affine_image` passes to `Constraint_System::affine_preimage`
    together with `inverse` is positive, whatever the signs of `expr.coefficient(var)` and of the
    denominator -/
theorem inverse_denominator_pos (n v : Nat) (e : LinExpr) (den : Int) (hc : e.coeffs.getD v 0 ≠ 0) :
    0 < (inverseMap n v e den).2 := inverseMap_den_pos n v e den hc

example : let i := inverseMap 1 0 ⟨[-2], 1⟩ 3; (i.1.coeffs, i.1.k, i.2) = ([-3], 1, 2) := by decide

/-- **the algebra of the inverse map**: with `f : x_v := e(x)/den` and `(inverse, c')` as computed at
    Polyhedron_public.cc:2820-2836 (`c = e[v] > 0`: `inverse = -e` with `inverse[v] := den`, `c' = c`;
    `c < 0`: `inverse = e` with `inverse[v] := -den`, `c' = -c`), for `w`, `x` agreeing outside `v`:
    `w = f(x)  ⇔  x = inverse(w)/c'` — for both signs of `c` and both signs of `den`. -/
theorem inverse_map_algebra (n v : Nat) (e : LinExpr) (den : Int) (hv : v < n) (he : e.coeffs.length = n)
    (hden : den ≠ 0) (hc : e.coeffs.getD v 0 ≠ 0) (x w : Val) (hframe : ∀ j < n, j ≠ v → w j = x j) :
    ((den : Rat) * w v = e.val x) ↔
      (((inverseMap n v e den).2 : Rat) * x v = (inverseMap n v e den).1.val w) :=
  inverseMap_spec n v e den hv he hden hc x w hframe

example : ((1 : Int) : Rat) * (fun _ => (-1 : Rat)) 0 = (⟨[-1], 0⟩ : LinExpr).val (fun _ => 1) := by
  simp [LinExpr.val, dot]

/-- the one-token slip `inverse.set_coefficient(var, denominator)` in the `c < 0` branch is NOT the
    inverse: for `x := -x` the point `x = 1` maps to `w = -1`, the slipped pair sends `-1` to `-1`,
    the real pair back to `1` -/
theorem inverse_map_wrong_sign_fails :
    let e : LinExpr := ⟨[-1], 0⟩
    let mutant : LinExpr × Int := (exprSet 1 e 0 1, -(e.coeffs.getD 0 0))
    let x : Val := fun _ => 1
    let w : Val := fun _ => -1
    ((1 : Int) : Rat) * w 0 = e.val x ∧ ¬ ((mutant.2 : Rat) * x 0 = mutant.1.val w) ∧
      (((inverseMap 1 0 e 1).2 : Rat) * x 0 = (inverseMap 1 0 e 1).1.val w) :=
  inverseMap_wrong_sign_fails

/-- `Polyhedron::affine_image(var, expr, denominator)`: invertible (`expr[var] ≠ 0`) ⇒ the
    generators transformed by `Generator_System::affine_image` AND the constraints transformed by
    `Constraint_System::affine_preimage` with the inverse map both denote `affineImage P` (whichever
    is up to date, pending rows included); non-invertible ⇒ the transformed generators do and the
    constraints are declared out of date; marked empty ⇒ stays empty. -/
theorem affine_image_rows_correct (p q : Poly) (v : Nat) (e : LinExpr) (den : Int) (ref : RefPoly)
    (hn : ref.n = p.dim) (hnnc : ref.nnc = p.nnc) (hwf : WF ref.n ref.cs) (hp : p.WF)
    (hv : v < p.dim) (he : e.coeffs.length = p.dim) (hden : den ≠ 0)
    (hD : p.Denotes (sem ref.cs)) (h : p.affine_image v e den = some q) :
    q.Denotes (sem (ref.affineImage v e den).cs) ∧ q.WF :=
  ⟨PPLV.PolyOps.affine_image_rows_correct p q v e den ref hn hnnc hwf hp hv he hden hD h,
   affine_image_rows_wf p q v e den hp hv he hden h⟩

/-- the segment `0 ≤ x ≤ 1` held as a double-description pair, `x := (-2x + 1)/(-1)` -/
example : ∃ q, exP.affine_image 0 exE (-1) = some q ∧
    q.Denotes (sem (exRef.affineImage 0 exE (-1)).cs) ∧ q.WF := by
  have h : (exP.affine_image 0 exE (-1)).isSome = true := rfl
  obtain ⟨q, hq⟩ := Option.isSome_iff_exists.mp h
  exact ⟨q, hq, affine_image_rows_correct exP q 0 exE (-1) exRef rfl rfl exRef_wf exP_wf (by decide) rfl
    (by decide) exP_denotes hq⟩

/-- **headline form for a double-description pair.**  GIVEN that the constraint rows and the generator
    rows of the receiver both denote `P` (both up to date, nothing pending, not marked empty), after
    `affine_image(var, expr, den)`: invertible ⇒ BOTH transformed descriptions denote the documented
    image `{w | ∃ x ∈ P, den·w_v = expr(x), w_j = x_j (j ≠ v)}`; non-invertible ⇒ the transformed
    generators do, and the constraints are flagged out of date. -/
theorem affine_image_dd_pair (p q : Poly) (v : Nat) (e : LinExpr) (den : Int) (P : Set Val)
    (hp : p.WF) (hem : p.st.empty = false) (hcu : p.st.cUp = true) (hgu : p.st.gUp = true)
    (hcp : p.st.cPend = false) (hgp : p.st.gPend = false)
    (hC : conSem p.nnc p.cs.rows = P) (hG : genSem p.nnc p.dim p.gs.rows = P)
    (hv : v < p.dim) (he : e.coeffs.length = p.dim) (hden : den ≠ 0)
    (h : p.affine_image v e den = some q) :
    (e.coeffs.getD v 0 ≠ 0 →
      conSem q.nnc q.cs.rows = imgSet p.dim v e den P ∧ genSem q.nnc q.dim q.gs.rows = imgSet p.dim v e den P) ∧
    (e.coeffs.getD v 0 = 0 →
      genSem q.nnc q.dim q.gs.rows = imgSet p.dim v e den P ∧ q.st.cUp = false) := by
  let ref : RefPoly := refOfCons p.nnc p.dim p.cs.rows
  have hwf : WF ref.n ref.cs := kitC_wf p.nnc p.dim p.cs.rows (hp.cs_len hem hcu)
  have hsem : sem ref.cs = P := hC
  have hD : p.Denotes (sem ref.cs) := by
    rw [hsem]
    refine ⟨fun h' => ?_, fun _ => ⟨fun _ _ => hC, fun _ _ => hG, fun h' => ?_⟩⟩
    · rw [hem] at h'; cases h'
    · rw [hcu] at h'; cases h'
  have hq := (affine_image_rows_correct p q v e den ref rfl rfl hwf hp hv he hden hD h).1
  rw [sem_affineImage ref v e den hwf hv (le_of_eq he), hsem] at hq
  constructor
  · intro hc
    obtain ⟨hst, _, _, _, _⟩ := affine_image_inv_shape p q v e den hem hc h
    have hqe : q.st.empty = false := by rw [hst]; exact hem
    obtain ⟨h1, h2, _⟩ := hq.2 hqe
    exact ⟨h1 (by rw [hst]; exact hcu) (by rw [hst]; exact hgp),
           h2 (by rw [hst]; exact hgu) (by rw [hst]; exact hcp)⟩
  · intro hc
    obtain ⟨_, _, _, _, _, hqe, hqc, hqg, hqcp, _⟩ := affine_image_noninv_shape p q v e den hp hem hc h
    exact ⟨(hq.2 hqe).2.1 hqg hqcp, hqc⟩

example : ∃ q, exP.affine_image 0 exE 1 = some q ∧
    conSem q.nnc q.cs.rows = imgSet 1 0 exE 1 (sem exRef.cs) := by
  have h : (exP.affine_image 0 exE 1).isSome = true := rfl
  obtain ⟨q, hq⟩ := Option.isSome_iff_exists.mp h
  have hD := exP_denotes
  have hC : conSem exP.nnc exP.cs.rows = sem exRef.cs := (hD.2 rfl).1 rfl rfl
  have hG : genSem exP.nnc exP.dim exP.gs.rows = sem exRef.cs := (hD.2 rfl).2.1 rfl rfl
  exact ⟨q, hq, ((affine_image_dd_pair exP q 0 exE 1 _ exP_wf rfl rfl rfl rfl rfl hC hG (by decide) rfl
    (by decide) hq).1 (by decide)).1⟩

/-- `Polyhedron::affine_preimage(var, expr, denominator)`, dually: invertible ⇒ constraints by
    substitution and generators by the image under the inverse map; non-invertible ⇒ constraints only -/
theorem affine_preimage_rows_correct (p q : Poly) (v : Nat) (e : LinExpr) (den : Int) (ref : RefPoly)
    (hn : ref.n = p.dim) (hnnc : ref.nnc = p.nnc) (hwf : WF ref.n ref.cs) (hp : p.WF)
    (hv : v < p.dim) (he : e.coeffs.length = p.dim) (hden : den ≠ 0)
    (hD : p.Denotes (sem ref.cs)) (h : p.affine_preimage v e den = some q) :
    q.Denotes (sem (ref.affinePreimage v e den).cs) ∧ q.WF :=
  ⟨PPLV.PolyOps.affine_preimage_rows_correct p q v e den ref hn hnnc hwf hp hv he hden hD h,
   affine_preimage_rows_wf p q v e den hp hv he hden h⟩

example : ∃ q, exP.affine_preimage 0 exE 1 = some q ∧
    q.Denotes (sem (exRef.affinePreimage 0 exE 1).cs) ∧ q.WF := by
  have h : (exP.affine_preimage 0 exE 1).isSome = true := rfl
  obtain ⟨q, hq⟩ := Option.isSome_iff_exists.mp h
  exact ⟨q, hq, affine_preimage_rows_correct exP q 0 exE 1 exRef rfl rfl exRef_wf exP_wf (by decide) rfl
    (by decide) exP_denotes hq⟩

/-! ### the two system-level transformers on their own -/

/-- `Generator_System::affine_image` (loop body, `denominator > 0`): the generated set is mapped by
    `x_v := e(x)/den` -/
theorem gen_system_affine_image_rows (nnc : Bool) (n v : Nat) (e : LinExpr) (den : Int) (rows : List Row)
    (hw : ∀ r ∈ rows, r.genWF nnc n) (hv : v < n) (he : e.coeffs.length ≤ n) (hd : 0 < den) :
    genSem nnc n (rows.map (genRowAffineImage v e den)) =
      {w | ∃ x ∈ genSem nnc n rows, (den : Rat) * w v = e.val x ∧ ∀ j < n, j ≠ v → w j = x j} :=
  kit_affineImage nnc n v e den rows hw hv he hd

example : (genRowAffineImage 0 ⟨[-2], 1⟩ 3 ⟨false, 2, [1], 0⟩) = ⟨false, 6, [0], 0⟩ := by decide

/-- `Constraint_System::affine_preimage` (loop body, `denominator > 0`): substitution
    `x_v := e(x)/den`, for equalities, non-strict and strict rows -/
theorem con_system_affine_preimage_rows (nnc : Bool) (n v : Nat) (e : LinExpr) (den : Int) (rows : List Row)
    (hw : ∀ r ∈ rows, r.cf.length = n) (hv : v < n) (he : e.coeffs.length = n) (hd : 0 < den) :
    conSem nnc (rows.map (conRowAffinePreimage v e den)) =
      {w | (w.update v (e.val w / (den : Rat))) ∈ conSem nnc rows} :=
  kitC_affinePreimage nnc n v e den rows hw hv he hd

example : (conRowAffinePreimage 0 ⟨[-2], 1⟩ 3 ⟨false, 1, [-1], 0⟩) = ⟨false, 1, [1], 0⟩ := by decide

/-- strong normalisation (`Linear_System::strong_normalize`) changes neither reading -/
theorem strong_normalize_rows (nnc : Bool) (n : Nat) (rows : List Row) :
    conSem nnc (rows.map Row.strongNormalize) = conSem nnc rows ∧
    ((∀ r ∈ rows, r.genWF nnc n) → genSem nnc n (rows.map Row.strongNormalize) = genSem nnc n rows) :=
  ⟨kitC_strongNormalize nnc rows, kit_strongNormalize nnc n rows⟩

example : (⟨true, 4, [-2, 6], 0⟩ : Row).strongNormalize = ⟨true, -2, [1, -3], 0⟩ := by decide

end C02
