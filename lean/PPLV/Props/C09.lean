import PPLV.Powerset.K1Inst
import PPLV.Powerset.ProofsDNF
import Mathlib.Data.Set.Lattice

/-!
# C09 — powersets denote the union of their disjuncts and every operation respects it

`Γ d x : Set Pt` is the point set of a base-level element, a powerset denotes `⋃ x ∈ s, Γ d x`.
The theorems quantify over **every** domain satisfying the K5 interface (`Dom`: sound operators;
`ExactDom`/`PolyDom`: exact ones, the hypotheses C01/C02/C05 establish for the real polyhedra and
grids) and over **every** finite sequence of disjuncts (redundant, empty, overlapping … are all
just lists) and every value of the lazy `reduced` flag.  The functions are the code-shaped models
of `PPLV/Powerset/Model.lean`; `false` as first argument = no `abandon_expensive_computations`
deadline pending (with a deadline the library documents a coarser result: the `_deadline` versions).
Copy-on-write sharing is value semantics of the list in the model; it is exercised on the real
code by the harness (copies re-observed after the original changed).
-/
namespace C09
open PPLV PPLV.Powerset

/-- the point set of a base-level element -/
def Γ (d : Dom) (x : d.D) : Set Pt := {p | d.γ x p}

theorem mem_union (d : Dom) (s : List d.D) (p : Pt) : p ∈ (⋃ x ∈ s, Γ d x) ↔ d.U s p := by
  simp only [Set.mem_iUnion, Γ, Dom.U]
  exact ⟨fun ⟨x, hx, h⟩ => ⟨x, hx, h⟩, fun ⟨x, hx, h⟩ => ⟨x, hx, h⟩⟩

/-! ## a tiny concrete domain for the non-vacuity examples: finite sets of naturals on axis 0 -/

def Toy : Dom where
  D := List Nat
  γ a p := ∃ n ∈ a, p 0 = (n : Rat)
  leq a b := a.all (b.contains ·)
  isBottom a := a.isEmpty
  join a b := a ++ b
  meet a b := a.filter (b.contains ·)
  eqv a b := a.all (b.contains ·) && b.all (a.contains ·)
  leq_sound := by
    intro a b h p ⟨n, hn, hp⟩
    simp only [List.all_eq_true, List.contains_iff_mem] at h
    exact ⟨n, h n hn, hp⟩
  isBottom_sound := by
    intro a h p ⟨n, hn, _⟩
    rw [List.isEmpty_iff] at h; subst h; cases hn
  join_sound := by
    rintro a b p (⟨n, hn, hp⟩ | ⟨n, hn, hp⟩)
    · exact ⟨n, List.mem_append_left _ hn, hp⟩
    · exact ⟨n, List.mem_append_right _ hn, hp⟩
  meet_sound := by
    rintro a b p ⟨n, hn, hp⟩ ⟨m, hm, hq⟩
    have : n = m := by
      have : (n : Rat) = (m : Rat) := by rw [← hp, ← hq]
      exact_mod_cast this
    subst this
    exact ⟨n, List.mem_filter.mpr ⟨hn, by simpa using hm⟩, hp⟩
  eqv_sound := by
    intro a b h p
    simp only [Bool.and_eq_true, List.all_eq_true, List.contains_iff_mem] at h
    exact ⟨fun ⟨n, hn, hp⟩ => ⟨n, h.1 n hn, hp⟩, fun ⟨n, hn, hp⟩ => ⟨n, h.2 n hn, hp⟩⟩

/-! ## generic `Powerset<D>` -/

/-- **Omega-reduction never changes the union** (whatever the flag says, whatever the order). -/
theorem omega_reduce_union (d : Dom) (s : PS d) :
    (⋃ x ∈ (omegaReduce d false s).seq, Γ d x) = ⋃ x ∈ s.seq, Γ d x := by
  ext p; rw [mem_union, mem_union]; exact omegaReduce_U d s p

example : (omegaReduce Toy false ⟨[[1], [1, 2], [], [3], [2, 1]], false⟩).seq = ([[1, 2], [3]] : List (List Nat)) := rfl
example : (omegaReduce Toy false ⟨[[1], [1, 2]], true⟩).seq = ([[1], [1, 2]] : List (List Nat)) := rfl

/-- With a deadline pending (`abandon_expensive_computations`) it may collapse: union only enlarged. -/
theorem omega_reduce_deadline (d : Dom) (abandon : Bool) (s : PS d) :
    (⋃ x ∈ s.seq, Γ d x) ⊆ ⋃ x ∈ (omegaReduce d abandon s).seq, Γ d x := by
  intro p; rw [mem_union, mem_union]; exact omegaReduce_ge d abandon s p

example : (omegaReduce Toy true ⟨[[1], [2], [3]], false⟩).seq = ([[1], [2, 3]] : List (List Nat)) := rfl

/-- **`collapse()`**: the result is the single disjunct "base-level upper bound of all disjuncts
    (in iteration order)", and it contains the union. -/
theorem collapse_spec (d : Dom) (y : d.D) (ys : List d.D) (r : Bool) :
    (collapse d ⟨y :: ys, r⟩).seq = [ys.foldl d.join y] ∧
    (⋃ x ∈ (y :: ys), Γ d x) ⊆ Γ d (ys.foldl d.join y) := by
  refine ⟨collapse_seq d y ys r, ?_⟩
  intro p hp
  rw [mem_union] at hp
  exact foldl_join_ge d y ys p ((U_cons d y ys p).mp hp)

example : (collapse Toy ⟨[[1], [5], [2]], false⟩).seq = ([[1, 5, 2]] : List (List Nat)) := rfl

/-- **`collapse(max_disjuncts)`**: at most `max` disjuncts remain; the union is only enlarged, and
    only by points of the base-level upper bound of the collapsed tail. -/
theorem collapse_max_spec (d : Dom) (maxD : Nat) (hm : 0 < maxD) (s : PS d) :
    (collapseMax d false maxD s).seq.length ≤ maxD ∧
    (⋃ x ∈ s.seq, Γ d x) ⊆ ⋃ x ∈ (collapseMax d false maxD s).seq, Γ d x := by
  refine ⟨collapseMax_length d maxD hm s, ?_⟩
  intro p; rw [mem_union, mem_union]; exact collapseMax_ge d false maxD s p

example : (collapseMax Toy false 2 ⟨[[1], [5], [2], [1]], false⟩).seq = ([[1], [5, 2]] : List (List Nat)) := rfl

/-- what `collapse(sink)` adds lies in the base-level upper bound of the sink and its successors;
    the earlier disjuncts are kept or entailed -/
theorem collapse_at_spec (d : Dom) (pre : List d.D) (x : d.D) (post : List d.D) :
    (⋃ z ∈ pre ++ x :: post, Γ d z) ⊆ (⋃ z ∈ collapseAt d pre x post, Γ d z) ∧
    (⋃ z ∈ collapseAt d pre x post, Γ d z) ⊆ (⋃ z ∈ pre, Γ d z) ∪ Γ d (post.foldl d.join x) := by
  constructor
  · intro p; rw [mem_union, mem_union]; exact collapseAt_ge d pre x post p
  · intro p hp
    rw [mem_union] at hp
    rcases collapseAt_le d pre x post p hp with h | h
    · exact Or.inl ((mem_union d pre p).mpr h)
    · exact Or.inr h

/-- **Adding a disjunct** (plain `add_disjunct`, and `add_non_bottom_disjunct_preserve_reduction`
    on any split `pre ++ rng` of the sequence) adds exactly the points of that disjunct. -/
theorem add_disjunct_union (d : Dom) (s : PS d) (y : d.D) (pre rng : List d.D) :
    ((⋃ x ∈ (addDisjunct d s y).seq, Γ d x) = (⋃ x ∈ s.seq, Γ d x) ∪ Γ d y) ∧
    ((⋃ x ∈ (addNB d y pre rng).1 ++ (addNB d y pre rng).2, Γ d x) = (⋃ x ∈ pre ++ rng, Γ d x) ∪ Γ d y) := by
  constructor
  · ext p; rw [Set.mem_union, mem_union, mem_union]; exact addDisjunct_U d s y p
  · ext p; rw [Set.mem_union, mem_union, mem_union]; exact addNB_U d y pre rng p

example : (addNB Toy [1, 2] [] [[1], [3], [2]]) = (([] : List (List Nat)), ([[3], [1, 2]] : List (List Nat))) := rfl
example : (addNB Toy [1] [] [[3], [1, 2]]) = (([] : List (List Nat)), ([[3], [1, 2]] : List (List Nat))) := rfl

/-- **Upper bound**: the union of the result is the union of the two unions; the argument (whose
    mutable representation is omega-reduced on the way) keeps its union. -/
theorem lub_union (d : Dom) (s t : PS d) :
    ((⋃ x ∈ (lub d false s t).1.seq, Γ d x) = (⋃ x ∈ s.seq, Γ d x) ∪ ⋃ y ∈ t.seq, Γ d y) ∧
    ((⋃ y ∈ (lub d false s t).2.seq, Γ d y) = ⋃ y ∈ t.seq, Γ d y) := by
  constructor
  · ext p; rw [Set.mem_union, mem_union, mem_union, mem_union]; exact lub_U d s t p
  · ext p; rw [mem_union, mem_union]; exact lub_arg_U d s t p

example : (lub Toy false ⟨[[1], [1, 2]], false⟩ ⟨[[1, 2, 3], [4], []], false⟩).1.seq
    = ([[1, 2, 3], [4]] : List (List Nat)) := rfl

/-- **Meet** (`pairwise_apply_assign` with a base operator that is exact for intersection, e.g.
    `intersection_assign` of polyhedra and grids): union of the result = intersection of the unions. -/
theorem pairwise_apply_meet (d : Dom) (op : d.D → d.D → d.D)
    (hop : ∀ a b, Γ d (op a b) = Γ d a ∩ Γ d b) (s t : PS d) :
    (⋃ x ∈ (pairwiseApply d false op s t).1.seq, Γ d x) = (⋃ x ∈ s.seq, Γ d x) ∩ ⋃ y ∈ t.seq, Γ d y := by
  ext p
  rw [Set.mem_inter_iff, mem_union, mem_union, mem_union]
  refine pairwiseApply_exact_U d op (fun a b q => ?_) s t p
  have := hop a b
  exact ⟨fun h => (this ▸ h : q ∈ Γ d a ∩ Γ d b), fun h => (this ▸ h : q ∈ Γ d (op a b))⟩

example : (meetAssign Toy false ⟨[[1, 2], [3]], false⟩ ⟨[[2, 3], [7]], false⟩).1.seq
    = ([[2], [3]] : List (List Nat)) := rfl

/-- for exact domains `meet_assign` itself qualifies -/
theorem meet_exact_union (d : ExactDom) (s t : PS d.toDom) :
    (⋃ x ∈ (meetAssign d.toDom false s t).1.seq, Γ d.toDom x)
      = (⋃ x ∈ s.seq, Γ d.toDom x) ∩ ⋃ y ∈ t.seq, Γ d.toDom y :=
  pairwise_apply_meet d.toDom d.meet (fun a b => by ext p; exact d.meet_exact a b p) s t

/-- with a merely sound base-level meet (boxes, BD shapes, octagons with inexact coefficients)
    the result still contains the intersection of the unions -/
theorem meet_sound_union (d : Dom) (abandon : Bool) (s t : PS d) :
    (⋃ x ∈ s.seq, Γ d x) ∩ (⋃ y ∈ t.seq, Γ d y) ⊆ ⋃ x ∈ (meetAssign d abandon s t).1.seq, Γ d x := by
  intro p hp
  rw [Set.mem_inter_iff, mem_union, mem_union] at hp
  rw [mem_union]
  exact meetAssign_ge d abandon s t p hp

/-- **Entailment-based containment implies geometric containment.** -/
theorem entails_sound (d : Dom) (s t : List d.D) (h : definitelyEntails d s t = true) :
    (⋃ x ∈ s, Γ d x) ⊆ ⋃ y ∈ t, Γ d y := by
  intro p; rw [mem_union, mem_union]; exact definitelyEntails_sound d s t h p

example : definitelyEntails Toy [[1], [2, 3]] [[3, 2], [1, 9]] = true := rfl
example : definitelyEntails Toy [[1, 2]] [[1], [2]] = false := rfl   -- not complete: geometric containment holds

/-- `operator==` answers `true` only for powersets denoting the same set -/
theorem eq_sound (d : Dom) (s t : PS d) (h : Powerset.eq d false s t = true) :
    (⋃ x ∈ s.seq, Γ d x) = ⋃ y ∈ t.seq, Γ d y := by
  ext p; rw [mem_union, mem_union]; exact Powerset.eq_sound d s t h p

example : Powerset.eq Toy false ⟨[[1], [2, 1], []], false⟩ ⟨[[1, 2]], false⟩ = true := rfl

/-- **Transformers act disjunct-wise**: a base-level operator that computes the exact image under
    a relation `R` (`add_constraint(s)`, affine image / preimage, adding / removing / mapping
    dimensions, …) acts on the union as that image … -/
theorem transformer_exact (d : Dom) (f : d.D → d.D) (R : Pt → Pt → Prop)
    (hf : ∀ a, Γ d (f a) = {q | ∃ p ∈ Γ d a, R p q}) (s : PS d) :
    (⋃ x ∈ (mapDisjuncts d f s).seq, Γ d x) = {q | ∃ p ∈ (⋃ x ∈ s.seq, Γ d x), R p q} := by
  ext q
  rw [mem_union]
  have := mapDisjuncts_exact d f R (fun a q => by
    have h := hf a
    exact ⟨fun hq => (h ▸ hq : q ∈ {q | ∃ p ∈ Γ d a, R p q}), fun hq => (h ▸ hq : q ∈ Γ d (f a))⟩) s q
  rw [this]
  constructor
  · rintro ⟨p, hp, hr⟩; exact ⟨p, (mem_union d s.seq p).mpr hp, hr⟩
  · rintro ⟨p, hp, hr⟩; exact ⟨p, (mem_union d s.seq p).mp hp, hr⟩

/-- … and a sound one returns a powerset containing the image of the union. -/
theorem transformer_sound (d : Dom) (f : d.D → d.D) (R : Pt → Pt → Prop)
    (hf : ∀ a, {q | ∃ p ∈ Γ d a, R p q} ⊆ Γ d (f a)) (s : PS d) :
    {q | ∃ p ∈ (⋃ x ∈ s.seq, Γ d x), R p q} ⊆ ⋃ x ∈ (mapDisjuncts d f s).seq, Γ d x := by
  rintro q ⟨p, hp, hr⟩
  rw [mem_union]
  exact mapDisjuncts_sound d f R (fun a p q hp hr => hf a ⟨p, hp, hr⟩) s q ⟨p, (mem_union d s.seq p).mp hp, hr⟩

/-- `add_constraint` on every disjunct intersects the union with the constraint -/
theorem add_constraint_union (d : PolyDom) (c : LCon) (s : PS d.toDom) :
    (⋃ x ∈ (mapDisjuncts d.toDom (d.addCon · c) s).seq, Γ d.toDom x) = (⋃ x ∈ s.seq, Γ d.toDom x) ∩ {p | c.sat p} := by
  rw [transformer_exact d.toDom (d.addCon · c) (fun p q => p = q ∧ c.sat p)]
  · ext q
    constructor
    · rintro ⟨p, hp, rfl, hc⟩; exact ⟨hp, hc⟩
    · rintro ⟨hq, hc⟩; exact ⟨q, hq, rfl, hc⟩
  · intro a
    ext q
    constructor
    · intro h
      obtain ⟨h1, h2⟩ := (d.addCon_spec a c q).mp h
      exact ⟨q, h1, rfl, h2⟩
    · rintro ⟨p, hp, rfl, hc⟩
      exact (d.addCon_spec a c p).mpr ⟨hp, hc⟩

/-! ## `Pointset_Powerset` over an exact polyhedral domain -/

/-- **`pairwise_reduce` (merging pairs whose upper bound is exact) never changes the union.** -/
theorem pairwise_reduce_union (d : PolyDom) (s : PS d.toDom) :
    (⋃ x ∈ (pairwiseReduce d false s).seq, Γ d.toDom x) = ⋃ x ∈ s.seq, Γ d.toDom x := by
  ext p; rw [mem_union, mem_union]; exact pairwiseReduce_U d s p

/-- **`linear_partition(p, q)`**: the first component is `p ∩ q`; the pieces are non-empty,
    pairwise disjoint, disjoint from `p`, and together with the first component they make up `q`. -/
theorem linear_partition_spec (d : PolyDom) (p q : d.D) :
    let r := linearPartition d p q
    Γ d.toDom r.1 = Γ d.toDom p ∩ Γ d.toDom q ∧
    (∀ n ∈ r.2, Γ d.toDom n ∩ Γ d.toDom p = ∅ ∧ Γ d.toDom n ≠ ∅) ∧
    (Γ d.toDom r.1 ∪ ⋃ n ∈ r.2, Γ d.toDom n) = Γ d.toDom q ∧
    r.2.Pairwise (fun a b => Γ d.toDom a ∩ Γ d.toDom b = ∅) := by
  intro r
  have h := linearPartition_spec d p q
  refine ⟨?_, ?_, ?_, ?_⟩
  · ext x
    exact ⟨fun hx => ((h.first x).mp hx).symm, fun hx => (h.first x).mpr hx.symm⟩
  · intro n hn
    constructor
    · rw [Set.eq_empty_iff_forall_notMem]
      rintro x ⟨h1, h2⟩
      exact (h.pieces n hn x h1).2 h2
    · intro he
      have hb := h.nonbot n hn
      have : d.isBottom n = true := (d.isBottom_iff n).mpr fun x hx => by
        have : x ∈ Γ d.toDom n := hx
        rw [he] at this; exact this
      rw [hb] at this; cases this
  · ext x
    rw [Set.mem_union, mem_union]
    constructor
    · rintro (hx | hx)
      · exact ((h.first x).mp hx).1
      · obtain ⟨n, hn, hx⟩ := hx
        exact (h.pieces n hn x hx).1
    · intro hx
      by_cases hp : d.γ p x
      · exact Or.inl ((h.first x).mpr ⟨hx, hp⟩)
      · exact Or.inr (h.cover x hx hp)
  · refine h.disj.imp ?_
    intro a b hab
    rw [Set.eq_empty_iff_forall_notMem]
    exact fun x hx => hab x hx

/-- **`difference_assign` is the exact set difference of the unions.** -/
theorem difference_exact (d : PolyDom) (s t : PS d.toDom) :
    (⋃ x ∈ (psDiff d false s t).seq, Γ d.toDom x) = (⋃ x ∈ s.seq, Γ d.toDom x) \ ⋃ y ∈ t.seq, Γ d.toDom y := by
  ext p
  rw [Set.mem_sdiff, mem_union, mem_union, mem_union]
  exact psDiff_U d s t p

/-- **`check_containment` / `geometrically_covers` decide inclusion of the unions.** -/
theorem covers_iff (d : PolyDom) (s t : List d.D) :
    geometricallyCovers d false s t = true ↔ (⋃ y ∈ t, Γ d.toDom y) ⊆ ⋃ x ∈ s, Γ d.toDom x := by
  rw [geometricallyCovers_iff]
  constructor
  · intro h p; rw [mem_union, mem_union]; exact h p
  · intro h p hp; exact (mem_union d.toDom s p).mp (h ((mem_union d.toDom t p).mpr hp))

theorem check_containment_iff (d : PolyDom) (ph : d.D) (ps : List d.D) :
    checkContainment d false ph ps = true ↔ Γ d.toDom ph ⊆ ⋃ x ∈ ps, Γ d.toDom x := by
  rw [checkContainment_iff]
  constructor
  · intro h p hp; exact (mem_union d.toDom ps p).mpr (h p hp)
  · intro h p hp; exact (mem_union d.toDom ps p).mp (h hp)

/-- under a deadline the positive answer is still sound -/
theorem check_containment_deadline (d : PolyDom) (abandon : Bool) (ph : d.D) (ps : List d.D)
    (h : checkContainment d abandon ph ps = true) : Γ d.toDom ph ⊆ ⋃ x ∈ ps, Γ d.toDom x := by
  intro p hp; exact (mem_union d.toDom ps p).mpr (checkContainment_sound d abandon ph ps h p hp)

/-- **`geometrically_equals` decides equality of the unions.** -/
theorem geometrically_equals_iff (d : PolyDom) (s t : List d.D) :
    geometricallyEquals d false s t = true ↔ (⋃ x ∈ s, Γ d.toDom x) = ⋃ y ∈ t, Γ d.toDom y := by
  rw [geometricallyEquals_iff]
  constructor
  · intro h; ext p; rw [mem_union, mem_union]; exact h p
  · intro h p; rw [← mem_union, ← mem_union, h]

/-- **`simplify_using_context_assign`**: the meet with the context is preserved, the number of
    disjuncts does not grow, `false` is returned only for an empty meet — for every base domain
    whose own `simplify_using_context_assign` is a meet-preserving *enlargement* (K5 fields
    `simplify_meet`, `simplify_enl`, `simplify_false`; documented in the PPL manual).
    (`hy`: the context satisfies the class invariant checked by `OK()`: flag set ⇒ no empty disjunct.) -/
theorem simplify_ctx (d : PolyDom) (s c : PS d.toDom)
    (hy : c.reduced = true → ∀ a ∈ c.seq, d.isBottom a = false) :
    let r := simplifyCtx d false s c
    ((⋃ x ∈ r.1.seq, Γ d.toDom x) ∩ (⋃ y ∈ c.seq, Γ d.toDom y)
        = (⋃ x ∈ s.seq, Γ d.toDom x) ∩ ⋃ y ∈ c.seq, Γ d.toDom y) ∧
    r.1.seq.length ≤ s.seq.length ∧
    (r.2.2 = false → (⋃ x ∈ s.seq, Γ d.toDom x) ∩ (⋃ y ∈ c.seq, Γ d.toDom y) = ∅) := by
  intro r
  refine ⟨?_, simplifyCtx_length d s c hy, ?_⟩
  · ext p
    rw [Set.mem_inter_iff, Set.mem_inter_iff, mem_union, mem_union, mem_union]
    exact simplifyCtx_meet d s c p
  · intro hf
    rw [Set.eq_empty_iff_forall_notMem]
    intro p hp
    rw [Set.mem_inter_iff, mem_union, mem_union] at hp
    exact simplifyCtx_false d s c hf p hp

/-! ### the model runs on concrete polyhedra (K1 instance of the interface) -/

section K1
open PPLV.Lin

/-- `x ≥ a`, `x ≤ b` on axis 0 -/
def geC (a : Int) : LCon := ⟨[1], -a, .ge⟩
def leC (b : Int) : LCon := ⟨[-1], b, .ge⟩
def gtC (a : Int) : LCon := ⟨[1], -a, .gt⟩
def ltC (b : Int) : LCon := ⟨[-1], b, .gt⟩

-- [1,2] against [0,3]: meet [1,2], residues [0,1) and (2,3]
def viewP (x : K1Poly.D × List K1Poly.D) : List LCon × List (List LCon) := x
def viewS (x : List K1Poly.D) : List (List LCon) := x

example : viewP (linearPartition K1Poly [geC 1, leC 2] [geC 0, leC 3]) =
    ([geC 0, leC 3, geC 1, leC 2], [[geC 0, leC 3, ltC 1], [geC 0, leC 3, geC 1, gtC 2]]) := by
  decide +kernel

-- [0,3] is covered by [0,1] ∪ (1,3], and not by [0,1] ∪ (2,3]
example : geometricallyCovers K1Poly false [[geC 0, leC 1], [gtC 1, leC 3]] [[geC 0, leC 3]] = true := by
  decide +kernel
example : geometricallyCovers K1Poly false [[geC 0, leC 1], [gtC 2, leC 3]] [[geC 0, leC 3]] = false := by
  decide +kernel

-- [0,3] ∖ [1,2] = [0,1) ∪ (2,3]
example : viewS (psDiff K1Poly false ⟨[[geC 0, leC 3]], false⟩ ⟨[[geC 1, leC 2]], false⟩).seq
    = [[geC 0, leC 3, ltC 1], [geC 0, leC 3, geC 1, gtC 2]] := by decide +kernel

-- pairwise_reduce merges comparable pairs (the K1 instance's `ubIfExact`)
example : (pairwiseReduce K1Poly false ⟨[[geC 0, leC 1], [geC 5], [geC 0, leC 1, leC 7]], false⟩).seq.length = 2 := by
  decide +kernel

end K1

/-! ### what happens when the base-level simplification is not an enlargement

On the unchanged tree `C_Polyhedron::simplify_using_context_assign` returns, for
`x = {B ≥ 2}` in the context `c₁ = {-2A-B ≥ -4, 2A+2B ≥ -1, 2A-B ≥ 0, 2A+B ≥ 0}`, the polyhedron
`{B ≥ 2, 2A-B ≥ 0}`: meet-preserving but **not an enlargement** (it adds a constraint of the
context).  Fed with exactly that answer, `intersection_preserving_enlarge_element` for the context
`{c₁, c₂}`, `c₂ = {A + B = 2}`, loses the non-empty meet of `x` with `c₂` — the K5 hypothesis
`simplify_enl` is therefore necessary for `simplify_ctx`, and the library's own base operator
breaks it (known finding KF-C09-1, observed through the harness). -/

section Fails
def xW : List LCon := [⟨[0, 1], -2, .ge⟩]
def c1W : List LCon := [⟨[-2, -1], 4, .ge⟩, ⟨[2, 2], 1, .ge⟩, ⟨[2, -1], 0, .ge⟩, ⟨[2, 1], 0, .ge⟩]
def c2W : List LCon := [⟨[1, 1], -2, .eq⟩]
def rW : List LCon := [⟨[0, 1], -2, .ge⟩, ⟨[2, -1], 0, .ge⟩]

/-- the answers of the real library on the two base-level calls of this run -/
def libSimp (a y : List LCon) : List LCon × Bool :=
  if kEmpty y then ([], false) else if a = xW ∧ y = c1W ++ [] then (rW, true) else (a, !kDisjoint a y)

/-- the observed first answer is meet-preserving for its context but not an enlargement -/
theorem base_simplify_not_enlargement_witness :
    kDisjoint xW c2W = false ∧ kLeq xW rW = false ∧ kLeq (rW ++ c1W) (xW ++ c1W) = true ∧ kLeq (xW ++ c1W) (rW ++ c1W) = true := by
  decide +kernel

/-- … and with it the powerset-level clause fails: the enlarged disjunct no longer meets `c₂`
    although `x` does -/
theorem simplify_ctx_fails_without_enlargement :
    ¬ (∀ p, (K1Poly.γ (enlargeElementWith K1Poly libSimp [c1W, c2W] xW).1 p ∧ K1Poly.U [c1W, c2W] p)
          ↔ (K1Poly.γ xW p ∧ K1Poly.U [c1W, c2W] p)) := by
  intro h
  -- x meets c₂ …
  have h1 : kDisjoint xW c2W = false := by decide +kernel
  -- … the enlarged element does not
  have h2 : kDisjoint (enlargeElementWith K1Poly libSimp [c1W, c2W] xW).1 c2W = true := by decide +kernel
  have hne : ¬ ∀ p : Pt, ¬ ((∀ c ∈ xW, c.sat p) ∧ (∀ c ∈ c2W, c.sat p)) := by
    intro hall
    have := (kDisjoint_iff xW c2W).mpr hall
    rw [h1] at this; cases this
  apply hne
  intro p hp
  have hU : K1Poly.U [c1W, c2W] p := ⟨c2W, List.mem_cons_of_mem _ List.mem_cons_self, hp.2⟩
  have := (h p).mpr ⟨hp.1, hU⟩
  exact (kDisjoint_iff _ c2W).mp h2 p ⟨this.1, hp.2⟩
end Fails

/-! ## the judge used on the real library's output -/

/-- **Inclusion of finite unions of polyhedra is decided exactly** by successive difference
    (`pplv_ps` uses `dnfSubset`/`dnfEquiv`/`dnfMinus`/`dnfDisjoint` on the printed disjuncts). -/
theorem dnfSubset_iff (n : Nat) (A B : DNF) (hA : DWF n A) (hB : DWF n B) :
    dnfSubset n A B = true ↔ dnfSem A ⊆ dnfSem B := Powerset.dnfSubset_iff n A B hA hB

theorem dnfEquiv_iff (n : Nat) (A B : DNF) (hA : DWF n A) (hB : DWF n B) :
    dnfEquiv n A B = true ↔ dnfSem A = dnfSem B := Powerset.dnfEquiv_iff n A B hA hB

/-- the variants with the single-disjunct shortcut, as called by the driver -/
theorem dnfSubsetF_iff (n : Nat) (A B : DNF) (hA : DWF n A) (hB : DWF n B) :
    dnfSubsetF n A B = true ↔ dnfSem A ⊆ dnfSem B := Powerset.dnfSubsetF_iff n A B hA hB

theorem dnfEquivF_iff (n : Nat) (A B : DNF) (hA : DWF n A) (hB : DWF n B) :
    dnfEquivF n A B = true ↔ dnfSem A = dnfSem B := Powerset.dnfEquivF_iff n A B hA hB

theorem dnfEmpty_iff (n : Nat) (A : DNF) (hA : DWF n A) : dnfEmpty n A = true ↔ dnfSem A = ∅ :=
  Powerset.dnfEmpty_iff n A hA

theorem dnfAddCons_sem (A : DNF) (cs : List PPLV.Lin.Con) : dnfSem (dnfAddCons A cs) = dnfSem A ∩ PPLV.Lin.sem cs :=
  Powerset.dnfAddCons_sem A cs

theorem dnfMinus_sem (n : Nat) (A B : DNF) (hA : DWF n A) (hB : DWF n B) :
    dnfSem (dnfMinus n A B) = dnfSem A \ dnfSem B := Powerset.dnfMinus_sem n A B hA hB

theorem dnfDisjoint_iff (n : Nat) (A B : DNF) (hA : DWF n A) (hB : DWF n B) :
    dnfDisjoint n A B = true ↔ dnfSem A ∩ dnfSem B = ∅ := Powerset.dnfDisjoint_iff n A B hA hB

theorem dnfMeet_sem (A B : DNF) : dnfSem (dnfMeet A B) = dnfSem A ∩ dnfSem B := Powerset.dnfMeet_sem A B

open PPLV.Lin in
example : dnfSubset 1 [[geRow [1] 0, geRow [-1] 3]] [[geRow [1] 0, geRow [-1] 1], [gtRow [1] (-1), geRow [-1] 3]] = true
    ∧ dnfSubset 1 [[geRow [1] 0, geRow [-1] 3]] [[geRow [1] 0, geRow [-1] 1], [gtRow [1] (-2), geRow [-1] 3]] = false := by
  decide +kernel

end C09
