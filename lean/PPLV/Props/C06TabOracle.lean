import PPLV.Solver.PendingProofsOracle
import PPLV.Props.C06BB

/-!
# C06 stage 3 — branch-and-bound over the modelled two-phase simplex, with NO oracle hypothesis

`model_oracle_ok`: the LP oracle induced by the model of the LP machinery (`modelOracle fc fuel`: every node is
solved from scratch by the modelled `is_lp_satisfiable()` / `second_phase()`, the entering column chosen by ANY
rule `fc` returning candidates) satisfies `BB.OracleOK`.
`solve_mip_end_to_end`: hence `solveTop` over it returns the true MIP answer.
Not covered: termination (both fuels), zero-dimensional nodes (`modelOracle` answers `none`).  The real `solve_mip`
re-solves children INCREMENTALLY: that variant is `modelOracleIncr` / `solve_mip_end_to_end_incremental` in
`PPLV/Props/C06TabOracleIncr.lean`.
-/
namespace C06
open PPLV.Lin PPLV.Solver PPLV.Solver.BB PPLV.Solver.Pend

/-- **the oracle induced by the LP machinery model is correct**, for every pricing rule returning candidates -/
theorem model_oracle_ok (fc : Chooser) (hfc : ChooserOK fc) (fuel : Nat) : OracleOK (modelOracle fc fuel) :=
  modelOracle_ok fc hfc fuel

/-- **END TO END, no oracle hypothesis**: branch-and-bound (`solveTop` = the MIP case of `solve()`) over the
    modelled two-phase simplex, each node solved from scratch, any candidate-choosing pricing rule: when it returns
    (fuel of the recursion and of the simplex loops sufficed) the answer is the true one —
    UNFEASIBLE ⇒ no feasible integral point; UNBOUNDED ⇒ unbounded, and the stored point is feasible;
    OPTIMIZED `v` at `p` ⇒ `v` is the optimum, `p` is feasible and attains it. -/
theorem solve_mip_end_to_end (fc : Chooser) (hfc : ChooserOK fc) (fuelLP fuelBB : Nat) (N : Node)
    (hwf : N.toProblem.WF) (out : Outcome) (h : solveTop (modelOracle fc fuelLP) fuelBB N = some out) :
    match out with
    | .unfeasible => IsUnfeasible N.toProblem
    | .unbounded p => IsUnbounded N.toProblem ∧ Feasible N.toProblem p.val
    | .optimized v p => IsOptimum N.toProblem v ∧ Feasible N.toProblem p.val ∧ N.toProblem.objVal p.val = v := by
  have hs := solve_mip_sound (modelOracle fc fuelLP) (model_oracle_ok fc hfc fuelLP) N hwf fuelBB out h
  cases out <;> exact hs

/-- all three pricing rules of the model are covered -/
theorem solve_mip_end_to_end_rules (choice : List Tab.Row → Tab.Row → List Nat → Nat) :
    ChooserOK textbookChooser ∧ ChooserOK steepestEdgeExact ∧ ChooserOK (arbitraryEntering choice) :=
  ⟨textbookChooser_ok, steepestEdgeExact_ok, arbitraryEntering_ok choice⟩

-- max x0, 1/2 ≤ x0 ≤ 3/2, x0 integer: the relaxation answers 3/2, the branch x0 ≤ 1 gives the optimum 1
example : modelOracle textbookChooser 50 ⟨1, [⟨[-2], 3, false⟩, ⟨[2], -1, false⟩], [0], ⟨[1], 0⟩, true⟩ =
    some (.optimized ⟨[3], 2⟩) := by decide +kernel
example : solveTop (modelOracle textbookChooser 50) 5 ⟨1, [⟨[-2], 3, false⟩, ⟨[2], -1, false⟩], [0], ⟨[1], 0⟩, true⟩ =
    some (.optimized 1 ⟨[1], 1⟩) := by decide +kernel

end C06
