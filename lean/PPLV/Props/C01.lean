import PPLV.Lin.Decide
import PPLV.Lin.Ops
import PPLV.Lin.OpSpecs
import PPLV.Lin.QuerySpecs
import PPLV.Lin.QueryDim
import PPLV.Lin.QueryCong

/-!
# C01 — a polyhedron answers every query from one point set, whatever its history

The property theorems of C01: the procedures with which `pplv_lin` judges every observation of
the real library decide the set-level statement **exactly** (sound and complete), for every
constraint system, every dimension, both topologies (strict rows).  `sem cs` is the point set
`{x : ℕ → ℚ | ∀ c ∈ cs, c.sat x}`; `WF n cs` says the rows mention variables `< n` only.
-/
namespace C01
open PPLV.Lin

/-- Two constraint descriptions (e.g. `constraints()` and `minimized_constraints()`, or a
    reported system and the reference model) denote the same set iff the judge says so. -/
theorem cons_descriptions_agree_iff (n : Nat) (cs ds : List Con) (h1 : WF n cs) (h2 : WF n ds) :
    equivB n cs ds = true ↔ sem cs = sem ds := equivB_iff n cs ds h1 h2

example : equivB 2 [geRow [1, 0] 0, geRow [0, 1] 0, geRow [1, 1] 0] [geRow [1] 0, geRow [0, 2] 0] = true := by
  decide +kernel

/-- `is_empty()` -/
theorem query_is_empty_iff (p : RefPoly) (h : WF p.n p.cs) : p.isEmpty = true ↔ sem p.cs = ∅ :=
  isEmptyB_iff p.n p.cs h

/-- `contains(y)` -/
theorem query_contains_iff (p q : RefPoly) (hp : WF p.n p.cs) (hq : WF p.n q.cs) :
    p.contains q = true ↔ sem q.cs ⊆ sem p.cs := subsetB_iff p.n q.cs p.cs hq hp

/-- `strictly_contains(y)` -/
theorem query_strictly_contains_iff (p q : RefPoly) (hp : WF p.n p.cs) (hq : WF p.n q.cs) :
    (p.contains q && !(RefPoly.contains ⟨q.nnc, p.n, q.cs⟩ p)) = true ↔ sem q.cs ⊂ sem p.cs := by
  have h1 := subsetB_iff p.n q.cs p.cs hq hp
  have h2 := subsetB_iff p.n p.cs q.cs hp hq
  simp only [RefPoly.contains, Bool.and_eq_true, Bool.not_eq_true', ← Bool.not_eq_true] at *
  rw [h1, h2]
  exact Iff.rfl

/-- `is_disjoint_from(y)` -/
theorem query_disjoint_iff (p q : RefPoly) (hp : WF p.n p.cs) (hq : WF p.n q.cs) :
    p.disjoint q = true ↔ sem p.cs ∩ sem q.cs = ∅ := disjointB_iff p.n p.cs q.cs hp hq

/-- `operator==` -/
theorem query_equals_iff (p q : RefPoly) (hp : WF p.n p.cs) (hq : WF p.n q.cs) :
    p.equiv q = true ↔ sem p.cs = sem q.cs := equivB_iff p.n p.cs q.cs hp hq

/-- `is_universe()` -/
theorem query_is_universe_iff (p : RefPoly) (hp : WF p.n p.cs) :
    p.isUniverse = true ↔ sem p.cs = Set.univ := by
  unfold RefPoly.isUniverse
  rw [subsetB_iff p.n [] p.cs (by intro c hc; cases hc) hp]
  have : sem ([] : List Con) = Set.univ := by ext x; simp [sem, Sat]
  rw [this]
  exact Set.univ_subset_iff

/-- `relation_with(c)`: the three facts (disjoint / included / saturates) are decided exactly. -/
theorem query_relation_with_constraint (p : RefPoly) (rows hyper : List Con)
    (hp : WF p.n p.cs) (hr : WF p.n rows) (hh : WF p.n hyper) :
    ((p.relCon rows hyper).1 = true ↔ sem p.cs ∩ sem rows = ∅) ∧
    ((p.relCon rows hyper).2.1 = true ↔ sem p.cs ⊆ sem rows) ∧
    ((p.relCon rows hyper).2.2 = true ↔ sem p.cs ⊆ sem hyper) :=
  ⟨disjointB_iff _ _ _ hp hr, subsetB_iff _ _ _ hp hr, subsetB_iff _ _ _ hp hh⟩

/-- Answers are a function of the denoted set: two reference polyhedra with the same point set
    are indistinguishable by the Boolean queries (stated for emptiness, containment of a third
    set, disjointness; the others are the same one-liner). -/
theorem indistinguishable (p r q : RefPoly) (hn : p.n = r.n)
    (hp : WF p.n p.cs) (hr : WF r.n r.cs) (hq : WF p.n q.cs) (h : sem p.cs = sem r.cs) :
    p.isEmpty = r.isEmpty ∧ p.contains q = r.contains q ∧ p.disjoint q = r.disjoint q := by
  have hq' : WF r.n q.cs := hn ▸ hq
  refine ⟨?_, ?_, ?_⟩
  · rw [Bool.eq_iff_iff, query_is_empty_iff p hp, query_is_empty_iff r hr, h]
  · rw [Bool.eq_iff_iff, query_contains_iff p q hp hq, query_contains_iff r q hr hq', h]
  · rw [Bool.eq_iff_iff, query_disjoint_iff p q hp hq, query_disjoint_iff r q hr hq', h]

example : (univ false 2).isEmpty = false ∧ (emptyP false 2).isEmpty = true := by decide +kernel

/-! ### the two descriptions, optimisation, boundedness, membership -/

/-- the unit segment, used in the examples below -/
def seg : RefPoly := ⟨false, 1, [geRow [1] 0, geRow [-1] 1]⟩

/-- The constraint description and the generator description (`GenSem`: the documented
    `linear.hull(L) + conic.hull(R) + NNC.hull(P, C)`) denote the same set iff the judge says so. -/
theorem descriptions_agree_iff (n : Nat) (cs : List Con) (gs : List Gen) (h1 : WF n cs)
    (h2 : gensWF n gs = true) : checkDD n cs gs = true ↔ sem cs = GenSem n gs :=
  checkDD_iff_genSem n cs gs h1 h2

example : checkDD 1 [geRow [1] 0, geRow [-1] 0] [⟨.point, [0], 1⟩] = true ∧
    checkDD 1 [geRow [1] 0] [⟨.point, [0], 1⟩] = false := by decide +kernel

/-- `maximize(e, …)`: the answer classifies `sup {e(x) | x ∈ P}` exactly — empty, unbounded, or
    the rational value `a/b` together with whether it is attained (`maximum` flag). -/
theorem optimum_spec (p : RefPoly) (e : LinExpr) (hp : WF p.n p.cs) (he : e.coeffs.length ≤ p.n) :
    match p.sup e with
    | .empty => sem p.cs = ∅
    | .unbounded => (∃ x, x ∈ sem p.cs) ∧ ∀ M : Rat, ∃ x ∈ sem p.cs, M < e.val x
    | .val a b att => 0 < b ∧ (∀ x ∈ sem p.cs, e.val x ≤ (a : Rat) / b) ∧
        (att = true → ∃ x ∈ sem p.cs, e.val x = (a : Rat) / b) ∧
        (att = false → (∀ x ∈ sem p.cs, e.val x < (a : Rat) / b) ∧
          ∀ ε : Rat, 0 < ε → ∃ x ∈ sem p.cs, (a : Rat) / b - ε < e.val x) :=
  sup_spec p e hp he

/-- `minimize(e, …)` -/
theorem optimum_min_spec (p : RefPoly) (e : LinExpr) (hp : WF p.n p.cs) (he : e.coeffs.length ≤ p.n) :
    match p.inf e with
    | .empty => sem p.cs = ∅
    | .unbounded => (∃ x, x ∈ sem p.cs) ∧ ∀ M : Rat, ∃ x ∈ sem p.cs, e.val x < M
    | .val a b att => 0 < b ∧ (∀ x ∈ sem p.cs, (a : Rat) / b ≤ e.val x) ∧
        (att = true → ∃ x ∈ sem p.cs, e.val x = (a : Rat) / b) ∧
        (att = false → (∀ x ∈ sem p.cs, (a : Rat) / b < e.val x) ∧
          ∀ ε : Rat, 0 < ε → ∃ x ∈ sem p.cs, e.val x < (a : Rat) / b + ε) :=
  inf_spec p e hp he

example : seg.sup ⟨[2], 1⟩ = .val 3 1 true ∧ seg.inf ⟨[2], 1⟩ = .val 1 1 true ∧
    RefPoly.sup ⟨true, 1, [gtRow [-1] 1]⟩ ⟨[1], 0⟩ = .val 1 1 false ∧
    RefPoly.inf ⟨true, 1, [gtRow [-1] 1]⟩ ⟨[1], 0⟩ = .unbounded := by decide +kernel

/-- point membership (`relation_with(point)`, `contains` of a point): the rational point
    `num/den` (coordinates beyond `num.length` are `0`) belongs to the set iff the judge says so. -/
theorem point_membership (p : RefPoly) (num : List Int) (den : Int) (hd : 0 < den) :
    p.hasPoint num den = true ↔ ratPoint num den ∈ sem p.cs := hasPoint_iff p num den hd

example : seg.hasPoint [1] 2 = true ∧ seg.hasPoint [3] 2 = false := by decide

/-! ### boundedness, affine dimension, congruences, `constrains`, generators -/

/-- `is_bounded()`: the oracle (`sup`/`inf` of every coordinate finite, decided by the proved
    `supB`) answers `true` iff the set is empty or all its points lie within one common bound. -/
theorem query_is_bounded_iff (p : RefPoly) (hp : WF p.n p.cs) :
    p.isBounded = true ↔ sem p.cs = ∅ ∨ ∃ M : Rat, ∀ x ∈ sem p.cs, ∀ i < p.n, |x i| ≤ M :=
  isBounded_iff p hp

example : seg.isBounded = true ∧ RefPoly.isBounded ⟨false, 1, [geRow [1] 0]⟩ = false ∧
    RefPoly.isBounded ⟨true, 1, [gtRow [1] 0, gtRow [-1] 1]⟩ = true := by
  decide +kernel

/-- `affine_dimension()`, two-sided: for a non-empty set and `d := p.affineDim` (Gaussian
    elimination `eqFree` on the implicit equalities) there are `d + 1` points of the set that are
    affinely independent — the only `lam` with `Σ lam = 0` and `Σ lam_k·x_k = 0` (on the
    coordinates `< n`) is `0` — and affinely span it: every point of the set is `Σ mu_k·x_k`
    with `Σ mu = 1`.  So they are an affine basis of the affine hull, whose dimension is
    therefore exactly `d` (independence: `≥ d`, spanning: `≤ d`).  `lcomb lam xs = Σ_k lam_k·xs_k`. -/
theorem query_affine_dimension_spec (p : RefPoly) (hp : WF p.n p.cs) (hne : (sem p.cs).Nonempty) :
    ∃ xs : List Val, xs.length = p.affineDim + 1 ∧
      (∀ x ∈ xs, x ∈ sem p.cs) ∧
      (∀ lam : List Rat, lam.length = xs.length → lam.sum = 0 →
        (∀ i < p.n, lcomb lam xs i = 0) → ∀ l ∈ lam, l = 0) ∧
      (∀ y ∈ sem p.cs, ∃ mu : List Rat, mu.length = xs.length ∧ mu.sum = 1 ∧
        ∀ i < p.n, y i = lcomb mu xs i) :=
  affineDim_spec p hp hne

/-- the empty set has affine dimension 0 (the library's convention) -/
theorem query_affine_dimension_empty (p : RefPoly) (hp : WF p.n p.cs) (h : sem p.cs = ∅) :
    p.affineDim = 0 := affineDim_empty p hp h

example : RefPoly.affineDim ⟨false, 2, [geRow [1,0] 0, geRow [-1,0] 0]⟩ = 1 ∧
    RefPoly.affineDim ⟨true, 2, [gtRow [1,0] 0]⟩ = 2 ∧ (emptyP false 2).affineDim = 0 := by
  decide +kernel

/-- `relation_with(congruence)` for a proper congruence `e ≡ 0 (mod m)`, `m > 0`: the two facts
    (disjoint, included) are decided exactly, for closed and NNC polyhedra — no point of the set
    has `e(x) ∈ mℤ`, resp. every point has. -/
theorem query_relation_with_congruence_spec (p : RefPoly) (e : LinExpr) (m : Int) (hp : WF p.n p.cs)
    (he : e.coeffs.length ≤ p.n) (hm : 0 < m) :
    ((p.relCongruence e m).1 = true ↔ ∀ x ∈ sem p.cs, ¬ ∃ z : Int, e.val x = (m : Rat) * z) ∧
    ((p.relCongruence e m).2 = true ↔ ∀ x ∈ sem p.cs, ∃ z : Int, e.val x = (m : Rat) * z) :=
  relCongruence_spec p e m hp he hm

example : seg.relCongruence ⟨[2], 1⟩ 2 = (false, false) ∧
    RefPoly.relCongruence ⟨true, 1, [gtRow [1] 0, gtRow [-1] 1]⟩ ⟨[2], 0⟩ 2 = (true, false) := by
  decide +kernel

/-- `constrains(v)`: `true` iff the set is empty or cylindrification along `v` changes it … -/
theorem query_constrains_iff (p : RefPoly) (v : Nat) (hp : WF p.n p.cs) :
    p.constrains v = true ↔ sem p.cs = ∅ ∨ sem (p.unconstrain [v]).cs ≠ sem p.cs :=
  constrains_iff p v hp

/-- … equivalently: some point of the set leaves it when only coordinate `v` is changed -/
theorem query_constrains_iff_update (p : RefPoly) (v : Nat) (hp : WF p.n p.cs) :
    p.constrains v = true ↔ sem p.cs = ∅ ∨ ∃ x ∈ sem p.cs, ∃ t : Rat, x.update v t ∉ sem p.cs :=
  constrains_iff_update p v hp

example : RefPoly.constrains ⟨false, 2, [geRow [1,0] 0]⟩ 0 = true ∧
    RefPoly.constrains ⟨false, 2, [geRow [1,0] 0]⟩ 1 = false := by decide +kernel

/-- `relation_with(generator)`: `g` is subsumed iff the set is non-empty and — a point: belongs
    to it; a closure point: every half-open segment from a point of the set towards it stays in
    the set (it belongs to the topological closure); a ray: the set is closed under translation
    by its non-negative multiples; a line: by all its multiples.  Strict rows are handled
    exactly (the recession cone of a non-empty NNC polyhedron is that of its closure). -/
theorem query_relation_with_generator_spec (p : RefPoly) (g : Gen) (hp : WF p.n p.cs) (hd : 0 < g.div) :
    p.subsumes g = true ↔ (∃ x, x ∈ sem p.cs) ∧
      match g.kind with
      | .point => ratPoint g.coords g.div ∈ sem p.cs
      | .cpoint => ∀ x ∈ sem p.cs, ∀ s : Rat, 0 < s → s ≤ 1 →
          Val.seg s x (ratPoint g.coords g.div) ∈ sem p.cs
      | .ray => ∀ x ∈ sem p.cs, ∀ t : Rat, 0 ≤ t → x.move t g.coords ∈ sem p.cs
      | .line => ∀ x ∈ sem p.cs, ∀ t : Rat, x.move t g.coords ∈ sem p.cs :=
  subsumes_spec p g hp hd

example : RefPoly.subsumes ⟨true, 1, [gtRow [1] 0]⟩ ⟨.cpoint, [0], 1⟩ = true ∧
    RefPoly.subsumes ⟨true, 1, [gtRow [1] 0]⟩ ⟨.point, [0], 1⟩ = false ∧
    RefPoly.subsumes ⟨true, 1, [gtRow [1] 0]⟩ ⟨.ray, [1], 1⟩ = true ∧
    RefPoly.subsumes ⟨true, 1, [gtRow [1] 0]⟩ ⟨.line, [1], 1⟩ = false := by decide +kernel

end C01
