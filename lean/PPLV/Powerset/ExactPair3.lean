import PPLV.Powerset.ExactPair2
import Mathlib.Data.List.Basic

/-!
# C09 stage 2 — `pairwise_reduce()` (rounds, the `do … while` loop, preservation of
omega-reduction) and `BGP99_heuristics_assign` on the NEW model (part 3)
-/
namespace PPLV.Powerset.Exact
open PPLV

section Pairwise3
variable (o : PolyOps)

theorem pr_split_one {α : Type} (s : List α) (i : Nat) (a : α) (h : s[i]? = some a) :
    ∃ l1 l2, s = l1 ++ a :: l2 ∧ l1.length = i := by
  induction s generalizing i with
  | nil => simp at h
  | cons x s ih =>
    cases i with
    | zero => simp at h; exact ⟨[], s, by simp [h], rfl⟩
    | succ n =>
      simp at h
      obtain ⟨l1, l2, h1, h2⟩ := ih n h
      exact ⟨x :: l1, l2, by simp [h1], by simp [h2]⟩

theorem pr_split_two {α : Type} (s : List α) (i j : Nat) (a b : α) (hij : i < j)
    (hi : s[i]? = some a) (hj : s[j]? = some b) :
    ∃ l1 l2 l3, s = l1 ++ a :: l2 ++ b :: l3 := by
  obtain ⟨l1, l2, h1, h2⟩ := pr_split_one s i a hi
  subst h1
  rw [List.getElem?_append_right (by omega)] at hj
  have : j - l1.length = (j - l1.length - 1) + 1 := by omega
  rw [this, List.getElem?_cons_succ] at hj
  obtain ⟨m1, m2, h3, _⟩ := pr_split_one l2 _ b hj
  exact ⟨l1, m1, m2, by rw [h3]; simp⟩

theorem pr_unm_map (s : List o.D) : pr_unm o (s.map fun x => (x, false)) = s := by
  induction s with
  | nil => simp [pr_unm]
  | cons a s ih => rw [List.map_cons, pr_unm_cons_false, ih]

/-- the first loop of a round run on the whole sequence -/
theorem pr_round_MR (s : List o.D) :
    pr_MR o (s.map fun x => (x, false)) [] [] 0
      (mergeRound o s.length (s.map fun x => (x, false)) [] [] 0) :=
  pr_mergeRound_MR o _ _ _ _ _ (by simp)

theorem pr_round_eq (s : List o.D) :
    pairwiseRound o s =
      (((mergeRound o s.length (s.map fun x => (x, false)) [] [] 0).1.foldl
          (fun (st : List o.D × List o.D) xi => addNB o.toOps xi st.1 st.2)
          ([], (mergeRound o s.length (s.map fun x => (x, false)) [] [] 0).2.1)).1 ++
       ((mergeRound o s.length (s.map fun x => (x, false)) [] [] 0).1.foldl
          (fun (st : List o.D × List o.D) xi => addNB o.toOps xi st.1 st.2)
          ([], (mergeRound o s.length (s.map fun x => (x, false)) [] [] 0).2.1)).2,
       (mergeRound o s.length (s.map fun x => (x, false)) [] [] 0).2.2) := rfl

/-- **A 3** one round: `deleted` disjuncts disappear (at least) -/
theorem pairwiseRound_length (s : List o.D) :
    (pairwiseRound o s).1.length + (pairwiseRound o s).2 ≤ s.length := by
  rw [pr_round_eq]
  obtain ⟨_, ⟨l, h1, _, h3⟩, h4, _⟩ := pr_MR_count o (pr_round_MR o s)
  generalize mergeRound o s.length (s.map fun x => (x, false)) [] [] 0 = R at *
  have h5 := pr_foldAddNB_length o.toOps R.1 [] R.2.1
  rw [pr_unm_map] at h3
  simp only [List.length_append, List.length_nil, h1, List.nil_append] at *
  omega

/-- **A 3** a round without merge leaves the sequence as it is (no comparison at all) -/
theorem pairwiseRound_zero (s : List o.D) (h : (pairwiseRound o s).2 = 0) :
    (pairwiseRound o s).1 = s := by
  rw [pr_round_eq] at h ⊢
  obtain ⟨_, ⟨l, h1, h2, h3⟩, _, h5⟩ := pr_MR_count o (pr_round_MR o s)
  generalize mergeRound o s.length (s.map fun x => (x, false)) [] [] 0 = R at *
  simp only at h
  rw [pr_unm_map] at h2 h3
  have hl : l = s := h2.eq_of_length (by omega)
  have hn : R.2.1 = [] := h5 h
  simp only [hn, pr_foldAddNB_nil, h1, hl, List.nil_append, List.append_nil]

/-- **A 3** each new disjunct is the exact upper bound the base level returned for two disjuncts
    at different positions (in that order) -/
theorem pairwiseRound_mem (s : List o.D) :
    ∀ u ∈ (pairwiseRound o s).1, u ∈ s ∨
      ∃ l1 a l2 b l3, s = l1 ++ a :: l2 ++ b :: l3 ∧ o.ubIfExact a b = some u := by
  intro u hu
  rw [pr_round_eq] at hu
  obtain ⟨_, ⟨l, h1, h2, _⟩, _, _⟩ := pr_MR_count o (pr_round_MR o s)
  have hm := pr_MR_mem o (pr_round_MR o s)
  generalize mergeRound o s.length (s.map fun x => (x, false)) [] [] 0 = R at *
  rw [pr_unm_map] at h2
  rcases pr_foldAddNB_mem o.toOps R.1 [] R.2.1 u hu with h | h | h
  · simp at h
  · rcases hm u h with h | ⟨i, j, a, b, hij, hi, hj, hab⟩
    · simp at h
    · right
      simp only [List.getElem?_map, Option.map_eq_some_iff, Prod.mk.injEq, and_true] at hi hj
      obtain ⟨a', hi, rfl⟩ := hi
      obtain ⟨b', hj, rfl⟩ := hj
      obtain ⟨l1, l2, l3, hs⟩ := pr_split_two s i j _ _ hij hi hj
      exact ⟨l1, _, l2, _, l3, hs, hab⟩
  · left
    rw [h1, List.nil_append] at h
    exact h2.subset h

theorem pairwiseRound_spec (s : List o.D) :
    (pairwiseRound o s).1.length + (pairwiseRound o s).2 ≤ s.length ∧
    ((pairwiseRound o s).2 = 0 → (pairwiseRound o s).1 = s) ∧
    (∀ u ∈ (pairwiseRound o s).1, u ∈ s ∨
      ∃ l1 a l2 b l3, s = l1 ++ a :: l2 ++ b :: l3 ∧ o.ubIfExact a b = some u) :=
  ⟨pairwiseRound_length o s, pairwiseRound_zero o s, pairwiseRound_mem o s⟩

/-! ### the `do … while (deleted > 0)` loop -/

/-- **A 4** the loop exits because `deleted = 0`, not because the fuel ran out: the result is a
    fixpoint of the round -/
theorem pairwiseLoop_fix (fuel : Nat) (s : List o.D) (hf : s.length < fuel) :
    ∃ t, (pairwiseRound o t).2 = 0 ∧ pairwiseLoop o fuel s = (pairwiseRound o t).1 ∧
      (pairwiseRound o t).1 = t := by
  induction fuel generalizing s with
  | zero => omega
  | succ f ih =>
    simp only [pairwiseLoop]
    by_cases h : (pairwiseRound o s).2 > 0
    · simp only [h, if_true]
      have := pairwiseRound_length o s
      exact ih _ (by omega)
    · simp only [h, if_false]
      have h0 : (pairwiseRound o s).2 = 0 := by omega
      exact ⟨s, h0, rfl, pairwiseRound_zero o s h0⟩

/-- more fuel changes nothing -/
theorem pairwiseLoop_fuel (f1 f2 : Nat) (s : List o.D) (h1 : s.length < f1) (h2 : s.length < f2) :
    pairwiseLoop o f1 s = pairwiseLoop o f2 s := by
  induction f1 generalizing f2 s with
  | zero => omega
  | succ f ih =>
    cases f2 with
    | zero => omega
    | succ g =>
      simp only [pairwiseLoop]
      by_cases h : (pairwiseRound o s).2 > 0
      · simp only [h, if_true]
        have := pairwiseRound_length o s
        exact ih _ _ (by omega) (by omega)
      · simp only [h, if_false]

theorem pairwiseLoop_terminates (fuel : Nat) (s : List o.D) (hf : s.length < fuel) :
    pairwiseLoop o fuel s = pairwiseLoop o (s.length + 1) s :=
  pairwiseLoop_fuel o _ _ s hf (by omega)

theorem pairwiseLoop_length (fuel : Nat) (s : List o.D) : (pairwiseLoop o fuel s).length ≤ s.length := by
  induction fuel generalizing s with
  | zero => simp [pairwiseLoop]
  | succ f ih =>
    simp only [pairwiseLoop]
    have := pairwiseRound_length o s
    split
    · exact Nat.le_trans (ih _) (by omega)
    · omega

/-- **A 5** -/
theorem pairwiseReduce_spec (x : PS o.D) :
    (pairwiseReduce o false x).reduced = true ∧
    (pairwiseReduce o false x).seq.length ≤ (omegaReduce o.toOps false x).seq.length ∧
    ∃ t, (pairwiseRound o t).2 = 0 ∧ (pairwiseReduce o false x).seq = (pairwiseRound o t).1 ∧
      (pairwiseRound o t).1 = t :=
  ⟨pr_omegaReduce_reduced o.toOps false x, pairwiseLoop_length o _ _,
    pairwiseLoop_fix o _ _ (by omega)⟩

/-! ### **A 6** omega-reduction is preserved -/

theorem pairwiseRound_omegaReduced (s : List o.D)
    (hub : ∀ a b u, o.ubIfExact a b = some u → o.isBottom a = false → o.isBottom u = false)
    (hs : OmegaReduced o.toOps s) : OmegaReduced o.toOps (pairwiseRound o s).1 := by
  rw [pr_round_eq]
  obtain ⟨_, ⟨l, h1, h2, _⟩, _, _⟩ := pr_MR_count o (pr_round_MR o s)
  have hnx := pr_MR_omegaReduced o (pr_round_MR o s) hub (pr_omegaReduced_nil o.toOps)
    (by intro e he
        simp only [List.mem_map] at he
        obtain ⟨a, ha, rfl⟩ := he
        exact hs.1 a ha)
  generalize mergeRound o s.length (s.map fun x => (x, false)) [] [] 0 = R at *
  rw [pr_unm_map] at h2
  rw [h1, List.nil_append] at *
  exact pr_foldAddNB_omegaReduced o.toOps l [] R.2.1 (by simpa using hnx)
    (pr_omegaReduced_sublist o.toOps h2 hs) (by simp)

theorem pairwiseLoop_omegaReduced (fuel : Nat) (s : List o.D)
    (hub : ∀ a b u, o.ubIfExact a b = some u → o.isBottom a = false → o.isBottom u = false)
    (hs : OmegaReduced o.toOps s) : OmegaReduced o.toOps (pairwiseLoop o fuel s) := by
  induction fuel generalizing s with
  | zero => simpa [pairwiseLoop] using hs
  | succ f ih =>
    simp only [pairwiseLoop]
    have := pairwiseRound_omegaReduced o s hub hs
    split
    · exact ih _ this
    · exact this

theorem pairwiseReduce_inv (abandon : Bool) (x : PS o.D)
    (hub : ∀ a b u, o.ubIfExact a b = some u → o.isBottom a = false → o.isBottom u = false)
    (hom : ∀ y : PS o.D, Inv o.toOps y → Inv o.toOps (omegaReduce o.toOps abandon y))
    (hx : Inv o.toOps x) : Inv o.toOps (pairwiseReduce o abandon x) := by
  intro _
  exact pairwiseLoop_omegaReduced o _ _ hub (hom x hx (pr_omegaReduce_reduced o.toOps abandon x))

end Pairwise3

section BGP99
variable (o : PolyOps)

/-! ## D — `BGP99_heuristics_assign` -/

theorem pr_bgp99Inner_flag (w : o.D → o.D → o.D) (pi : o.D) (ys : List o.D) (st : List o.D × Bool) :
    (bgp99Inner o w pi ys st).2 = (st.2 || ys.any (o.contains pi)) := by
  induction ys generalizing st with
  | nil => simp [bgp99Inner]
  | cons pj ys ih =>
    simp only [bgp99Inner]
    split
    · rename_i h; rw [ih]; simp [h]
    · rename_i h; rw [ih]; simp [h]

theorem pr_bgp99Inner_mem (w : o.D → o.D → o.D) (pi : o.D) (ys : List o.D) (st : List o.D × Bool) :
    ∀ v ∈ (bgp99Inner o w pi ys st).1, v ∈ st.1 ∨
      ∃ pj ∈ ys, o.contains pi pj = true ∧ v = w pi pj := by
  induction ys generalizing st with
  | nil => intro v hv; exact Or.inl hv
  | cons pj ys ih =>
    intro v hv
    simp only [bgp99Inner] at hv
    split at hv
    · rename_i h
      rcases ih _ v hv with h1 | ⟨pj', h1, h2, h3⟩
      · rcases pr_addNBwhole_mem o.toOps _ _ v h1 with h1 | h1
        · exact Or.inr ⟨pj, by simp, h, h1⟩
        · exact Or.inl h1
      · exact Or.inr ⟨pj', by simp [h1], h2, h3⟩
    · rcases ih _ v hv with h1 | ⟨pj', h1, h2, h3⟩
      · exact Or.inl h1
      · exact Or.inr ⟨pj', by simp [h1], h2, h3⟩

theorem pr_bgp99Inner_omegaReduced (w : o.D → o.D → o.D) (pi : o.D) (ys : List o.D)
    (st : List o.D × Bool) (hw : ∀ b, o.isBottom (w pi b) = false)
    (h : OmegaReduced o.toOps st.1) : OmegaReduced o.toOps (bgp99Inner o w pi ys st).1 := by
  induction ys generalizing st with
  | nil => exact h
  | cons pj ys ih =>
    simp only [bgp99Inner]
    split
    · exact ih _ (pr_addNBwhole_omegaReduced o.toOps _ _ h (hw pj))
    · exact ih _ h

/-- the unmarked disjuncts of `x`: those containing no disjunct of `y`, in order -/
theorem pr_bgp99First_un (w : o.D → o.D → o.D) (y xs nx un : List o.D) :
    (bgp99First o w y xs nx un).2 = un ++ xs.filter (fun pi => !y.any (o.contains pi)) := by
  induction xs generalizing nx un with
  | nil => simp [bgp99First]
  | cons pi xs ih =>
    simp only [bgp99First]
    rw [ih, pr_bgp99Inner_flag]
    by_cases h : y.any (o.contains pi) = true
    · simp [h]
    · simp [h]

theorem pr_bgp99First_mem (w : o.D → o.D → o.D) (y xs nx un : List o.D) :
    ∀ v ∈ (bgp99First o w y xs nx un).1, v ∈ nx ∨
      ∃ pi ∈ xs, ∃ pj ∈ y, o.contains pi pj = true ∧ v = w pi pj := by
  induction xs generalizing nx un with
  | nil => intro v hv; exact Or.inl hv
  | cons pi xs ih =>
    intro v hv
    simp only [bgp99First] at hv
    rcases ih _ _ v hv with h1 | ⟨pi', h1, h2⟩
    · rcases pr_bgp99Inner_mem o w pi y (nx, false) v h1 with h1 | h1
      · exact Or.inl h1
      · exact Or.inr ⟨pi, by simp, h1⟩
    · exact Or.inr ⟨pi', by simp [h1], h2⟩

theorem pr_bgp99First_omegaReduced (w : o.D → o.D → o.D) (y xs nx un : List o.D)
    (hw : ∀ a b, o.isBottom a = false → o.isBottom (w a b) = false)
    (hxs : ∀ a ∈ xs, o.isBottom a = false)
    (h : OmegaReduced o.toOps nx) : OmegaReduced o.toOps (bgp99First o w y xs nx un).1 := by
  induction xs generalizing nx un with
  | nil => exact h
  | cons pi xs ih =>
    simp only [bgp99First]
    exact ih _ _ (fun a ha => hxs a (List.mem_cons_of_mem _ ha))
      (pr_bgp99Inner_omegaReduced o w pi y (nx, false) (fun b => hw pi b (hxs pi (by simp))) h)

/-- **D 13** -/
theorem bgp99HeuristicsAssign_shape (w : o.D → o.D → o.D) (x y : PS o.D) :
    (bgp99HeuristicsAssign o w x y).reduced = x.reduced ∧
    (∀ v ∈ (bgp99HeuristicsAssign o w x y).seq,
      (v ∈ x.seq ∧ y.seq.any (o.contains v) = false) ∨
      ∃ pi ∈ x.seq, ∃ pj ∈ y.seq, o.contains pi pj = true ∧ v = w pi pj) ∧
    (bgp99HeuristicsAssign o w x y).seq.length ≤
      (x.seq.filter (fun pi => !y.seq.any (o.contains pi))).length
        + (bgp99First o w y.seq x.seq [] []).1.length := by
  refine ⟨rfl, ?_, ?_⟩
  · intro v hv
    simp only [bgp99HeuristicsAssign] at hv
    rcases pr_foldAddNB_mem o.toOps _ [] _ v hv with h | h | h
    · simp at h
    · rcases pr_bgp99First_mem o w y.seq x.seq [] [] v h with h | h
      · simp at h
      · exact Or.inr h
    · rw [pr_bgp99First_un] at h
      simp only [List.nil_append, List.mem_filter, Bool.not_eq_true'] at h
      exact Or.inl h
  · simp only [bgp99HeuristicsAssign]
    have := pr_foldAddNB_length o.toOps (bgp99First o w y.seq x.seq [] []).2 []
      (bgp99First o w y.seq x.seq [] []).1
    rw [pr_bgp99First_un] at this
    rw [pr_bgp99First_un]
    simp only [List.length_append, List.length_nil, List.nil_append] at this ⊢
    omega

/-- when no disjunct of `x` contains a disjunct of `y` the sequence is unchanged -/
theorem bgp99HeuristicsAssign_none (w : o.D → o.D → o.D) (x y : PS o.D)
    (h : ∀ pi ∈ x.seq, y.seq.any (o.contains pi) = false) :
    (bgp99HeuristicsAssign o w x y).seq = x.seq := by
  have hm := pr_bgp99First_mem o w y.seq x.seq [] []
  have hnil : (bgp99First o w y.seq x.seq [] []).1 = [] := by
    apply List.eq_nil_iff_forall_not_mem.2
    intro v hv
    rcases hm v hv with h1 | ⟨pi, h1, pj, h2, h3, _⟩
    · simp at h1
    · have := h pi h1
      simp only [List.any_eq_false] at this
      exact this pj h2 h3
  simp only [bgp99HeuristicsAssign]
  rw [hnil, pr_bgp99First_un, pr_foldAddNB_nil]
  simp only [List.nil_append, List.append_nil, List.filter_eq_self, Bool.not_eq_true']
  exact h

/-- **D 14** -/
theorem bgp99HeuristicsAssign_omegaReduced (w : o.D → o.D → o.D) (x y : PS o.D)
    (hw : ∀ a b, o.isBottom a = false → o.isBottom (w a b) = false)
    (hx : OmegaReduced o.toOps x.seq) :
    OmegaReduced o.toOps (bgp99HeuristicsAssign o w x y).seq := by
  simp only [bgp99HeuristicsAssign]
  have hnx := pr_bgp99First_omegaReduced o w y.seq x.seq [] [] hw hx.1 (pr_omegaReduced_nil o.toOps)
  have hun : OmegaReduced o.toOps (bgp99First o w y.seq x.seq [] []).2 := by
    rw [pr_bgp99First_un, List.nil_append]
    exact pr_omegaReduced_sublist o.toOps List.filter_sublist hx
  exact pr_foldAddNB_omegaReduced o.toOps _ [] _ (by simpa using hnx) hun (by simp)

theorem bgp99HeuristicsAssign_inv (w : o.D → o.D → o.D) (x y : PS o.D)
    (hw : ∀ a b, o.isBottom a = false → o.isBottom (w a b) = false)
    (hx : Inv o.toOps x) : Inv o.toOps (bgp99HeuristicsAssign o w x y) := by
  intro h
  exact bgp99HeuristicsAssign_omegaReduced o w x y hw (hx h)

end BGP99
end PPLV.Powerset.Exact
