import PPLV.Base.Dom

/-!
# C09 stage 2 — executable, code-shaped model of `Powerset<D>` / `Pointset_Powerset<PSET>`
over *raw* base-domain operations (no Mathlib; linked into `pplv_ps`)

`Ops` / `PolyOps` are the operations the templates call on their parameter, **without** the
hypothesis fields of K5 (`Dom`/`PolyDom`): the native driver instantiates them with the K1
deciders (the proofs about K1 live in Mathlib-importing files and cannot be linked).  Every
function below is a transliteration of one C++ function (file:line in the comment), in the loop
structure of the code: `std::list` traversal order, erasures, and every update of the lazy
`reduced` flag.  `PPLV/Powerset/ExactRefine.lean` proves that, at `d.ops` for a K5 domain `d`,
each function equals (or refines) the function of `PPLV/Powerset/Model.lean`, so every theorem of
`Props/C09.lean` transfers; `Props/C09Exact.lean` states the sequence-level theorems.

Differences w.r.t. `Model.lean` (which the union-level theorems did not need):
* the flag updates of the disjunct-wise transformers (three families: flag cleared after the
  loop, flag cleared *inside* the loop body — i.e. not when the sequence is empty —, flag kept);
* `map_space_dimensions` (reduces first), `concatenate_assign` (result flagged reduced),
  `difference_assign` of the non-NNC instantiations (through NNC copies: the argument is *not*
  reduced, every piece is closed by the conversion back);
* the const queries that change the representation (`is_omega_reduced`, `is_universe`,
  `bounds_from_*`, `maximize`, `operator==`, `strictly_contains`);
* `BGP99_heuristics_assign` and the driver structure of `BHZ03_widening_assign` with the
  widening / certificates as parameters.
-/
namespace PPLV.Powerset.Exact
open PPLV

/-- what `Powerset<D>` calls on `D = Determinate<PSET>` -/
structure Ops where
  D : Type
  /-- `x.definitely_entails(y)` -/
  leq : D → D → Bool
  /-- `is_bottom()` -/
  isBottom : D → Bool
  /-- `upper_bound_assign` -/
  join : D → D → D
  /-- `meet_assign` -/
  meet : D → D → D
  /-- `operator==` -/
  eqv : D → D → Bool

/-- what `Pointset_Powerset<PSET>` additionally calls on `PSET` -/
structure PolyOps extends Ops where
  contains : D → D → Bool
  disjoint : D → D → Bool
  top : D
  /-- `is_universe()` of the base level -/
  isTop : D → Bool
  /-- `constraints()` in the library's order -/
  cons : D → List LCon
  addCon : D → LCon → D
  ubIfExact : D → D → Option D
  simplify : D → D → D × Bool

/-- `Powerset<D>`: `sequence` (a `std::list`, iteration order = list order) and the mutable `reduced` -/
structure PS (α : Type) where
  seq : List α
  reduced : Bool
deriving Repr

section Generic
variable (o : Ops)

/-! ### `Powerset<D>::collapse(Sequence_iterator sink)` — Powerset_templates.hh:36 -/

/-- the sequence is `pre ++ [x] ++ post`, `sink` points to `x`.  Lines 43–45: `x` absorbs every
    later disjunct in order; line 47: they are dropped; lines 50–57: the earlier disjuncts that
    entail the new `x` are erased (the others keep their order). -/
def collapseAt (pre : List o.D) (x : o.D) (post : List o.D) : List o.D :=
  let dj := post.foldl o.join x
  pre.filter (fun y => !o.leq y dj) ++ [dj]

/-! ### `Powerset<D>::omega_reduce()` — Powerset_templates.hh:64 -/

/-- the inner `for (yi …)` loop (lines 82–99) over a stretch of the list not containing `xi`:
    erases every `yv` with `yv ⊑ xv` (line 88–89, tested FIRST: of two equal disjuncts the one
    being visited survives); stops at the first `yv` with `xv ⊑ yv` (line 91–93), rest untouched. -/
def scanY (xv : o.D) : List o.D → List o.D × Bool
  | [] => ([], false)
  | yv :: ys =>
    if o.leq yv xv then scanY xv ys
    else if o.leq xv yv then (yv :: ys, true)
    else ((scanY xv ys).1.cons yv, (scanY xv ys).2)

/-- lines 106–110: `if (abandon_expensive_computations != nullptr && xi != x.end())` -/
def hurryOr (abandon : Bool) (pre rest : List o.D) (k : List o.D) : List o.D :=
  match abandon, rest with
  | true, x :: post => collapseAt o pre x post
  | _, _ => k

/-- the outer `for (xi …)` loop (lines 79–111): `pre` = disjuncts before `xi`, the list = `xi :: post`.
    The inner loop runs over `pre` first, then over `post` (it starts again from `x.begin()`). -/
def omegaLoop (abandon : Bool) : Nat → List o.D → List o.D → List o.D
  | 0, pre, rest => pre ++ rest
  | _+1, pre, [] => pre
  | fuel+1, pre, xv :: post =>
    let r1 := scanY o xv pre
    if r1.2 then hurryOr o abandon r1.1 post (omegaLoop abandon fuel r1.1 post)
    else
      let r2 := scanY o xv post
      if r2.2 then hurryOr o abandon r1.1 r2.1 (omegaLoop abandon fuel r1.1 r2.1)
      else hurryOr o abandon (r1.1 ++ [xv]) r2.1 (omegaLoop abandon fuel (r1.1 ++ [xv]) r2.1)

/-- `omega_reduce()`: line 65 `if (reduced) return;`, lines 70–77 erase bottoms, then the loop,
    line 112 `reduced = true`. -/
def omegaReduce (abandon : Bool) (x : PS o.D) : PS o.D :=
  if x.reduced then x
  else
    let s1 := x.seq.filter (fun y => !o.isBottom y)
    ⟨omegaLoop o abandon s1.length [] s1, true⟩

/-- `collapse()` — Powerset_inlines.hh:191 (no reduction first, flag untouched) -/
def collapse (x : PS o.D) : PS o.D :=
  match x.seq with
  | [] => x
  | y :: ys => { x with seq := collapseAt o [] y ys }

/-- `collapse(unsigned max_disjuncts)` — Powerset_templates.hh:118 -/
def collapseMax (abandon : Bool) (maxD : Nat) (x : PS o.D) : PS o.D :=
  let x1 := omegaReduce o abandon x
  if x1.seq.length > maxD then
    match x1.seq.drop (maxD - 1) with
    | [] => x1
    | y :: ys => { x1 with seq := collapseAt o (x1.seq.take (maxD - 1)) y ys }
  else x1

/-! ### `check_omega_reduced` / `is_omega_reduced` — Powerset_templates.hh:137, 159 -/

def checkOmegaReducedGo : List o.D → List o.D → Bool
  | _, [] => true
  | pre, xv :: post =>
    if o.isBottom xv then false
    else if (pre ++ post).any (fun yv => o.leq xv yv || o.leq yv xv) then false
    else checkOmegaReducedGo (pre ++ [xv]) post

def checkOmegaReduced (s : List o.D) : Bool := checkOmegaReducedGo o [] s

/-- `is_omega_reduced()`: sets the flag when the check succeeds -/
def isOmegaReduced (x : PS o.D) : PS o.D × Bool :=
  if !x.reduced && checkOmegaReduced o x.seq then (⟨x.seq, true⟩, true) else (x, x.reduced)

/-! ### `add_non_bottom_disjunct_preserve_reduction(d, first, last)` — Powerset_templates.hh:168
(`last == end()` at every call site) -/

/-- lines 172–186: `(surviving range, d ⊑ some xv)`; on `d ⊑ xv` the function returns at once
    (line 174–176): the disjuncts erased so far stay erased. -/
def addScan (x : o.D) : List o.D → List o.D × Bool
  | [] => ([], false)
  | xv :: r =>
    if o.leq x xv then (xv :: r, true)
    else if o.leq xv x then addScan x r
    else ((addScan x r).1.cons xv, (addScan x r).2)

/-- the sequence is `pre ++ rng`, `first` = head of `rng`; returns the new `(pre, rng)`.
    Line 187 `sequence.push_back(d)`: if the whole range was erased `first == end()` and the new
    disjunct lands *before* the returned `first`, i.e. outside the range. -/
def addNB (x : o.D) (pre rng : List o.D) : List o.D × List o.D :=
  let r := addScan o x rng
  if r.2 then (pre, r.1)
  else match r.1 with
    | [] => (pre ++ [x], [])
    | _ :: _ => (pre, r.1 ++ [x])

/-- one-argument form — Powerset_inlines.hh:152 -/
def addNBwhole (x : o.D) (s : List o.D) : List o.D :=
  let r := addNB o x [] s
  r.1 ++ r.2

/-- `add_disjunct` — Powerset_inlines.hh:159 / Pointset_Powerset_templates.hh:44 -/
def addDisjunct (x : PS o.D) (y : o.D) : PS o.D := ⟨x.seq ++ [y], false⟩

/-- `least_upper_bound_assign(y)` — Powerset_templates.hh:261; returns the new `x` and `y`
    (whose mutable part is reduced).  The flag of `x` is the one `omega_reduce` left (`true`). -/
def lub (abandon : Bool) (x y : PS o.D) : PS o.D × PS o.D :=
  let x1 := omegaReduce o abandon x
  let y1 := omegaReduce o abandon y
  let r := y1.seq.foldl (fun (st : List o.D × List o.D) yi => addNB o yi st.1 st.2) ([], x1.seq)
  (⟨r.1 ++ r.2, x1.reduced⟩, y1)

/-- `pairwise_apply_assign(y, op)` — Powerset_templates.hh:237 (line 255 `reduced = false`) -/
def pairwiseApply (abandon : Bool) (op : o.D → o.D → o.D) (x y : PS o.D) : PS o.D × PS o.D :=
  let x1 := omegaReduce o abandon x
  let y1 := omegaReduce o abandon y
  let s := x1.seq.flatMap fun xi => (y1.seq.map fun yi => op xi yi).filter fun z => !o.isBottom z
  (⟨s, false⟩, y1)

def meetAssign (abandon : Bool) (x y : PS o.D) : PS o.D × PS o.D := pairwiseApply o abandon o.meet x y

/-- `Powerset::definitely_entails(y)` — Powerset_templates.hh:194 (no reduction) -/
def definitelyEntails (x y : List o.D) : Bool :=
  outer x
where
  inner (xi : o.D) : List o.D → Bool
    | [] => false
    | yi :: ys => if o.leq xi yi then true else inner xi ys
  outer : List o.D → Bool
    | [] => true
    | xi :: xs => if inner xi y then outer xs else false

/-- `std::find` + erase of `operator==` — Powerset_templates.hh:223–229 -/
def eraseFirst (xi : o.D) : List o.D → Option (List o.D)
  | [] => none
  | z :: zs => if o.eqv z xi then some zs else (eraseFirst xi zs).map (z :: ·)

def eqGo : List o.D → List o.D → Bool
  | [], _ => true
  | xi :: xs, z => match eraseFirst o xi z with
    | none => false
    | some z' => eqGo xs z'

/-- `operator==(x, y)` — Powerset_templates.hh:211: the answer and the two reduced operands -/
def eq (abandon : Bool) (x y : PS o.D) : Bool × PS o.D × PS o.D :=
  let x1 := omegaReduce o abandon x
  let y1 := omegaReduce o abandon y
  (if x1.seq.length != y1.seq.length then false else eqGo o x1.seq y1.seq, x1, y1)

/-- `is_bottom()` — Powerset_inlines.hh:183 -/
def isBottom (abandon : Bool) (x : PS o.D) : Bool × PS o.D :=
  let x1 := omegaReduce o abandon x
  (x1.seq.isEmpty, x1)

/-! ### disjunct-wise transformers of `Pointset_Powerset` and their flag updates -/

/-- `x.reduced = false` AFTER the loop: `add_constraint(s)`, `refine_with_*`, `add_congruence(s)`,
    `topological_closure_assign`, `drop_some_non_integer_points`, `wrap_assign`
    (Pointset_Powerset_templates.hh:145–236, 676–711, 1233) -/
def mapSetFlag (f : o.D → o.D) (x : PS o.D) : PS o.D := ⟨x.seq.map f, false⟩

/-- `x.reduced = false` INSIDE the loop body: `unconstrain`, `remove_space_dimensions`,
    `remove_higher_space_dimensions`, `affine_(pre)image`, `generalized_affine_(pre)image`,
    `bounded_affine_(pre)image` (ibid. 241–262, 289–325, 387–517): an empty sequence keeps its flag -/
def mapLoopFlag (f : o.D → o.D) (x : PS o.D) : PS o.D :=
  ⟨x.seq.map f, if x.seq.isEmpty then x.reduced else false⟩

/-- flag untouched: `add_space_dimensions_and_embed/project`, `expand_space_dimension`
    (ibid. 265–285, 356–365) -/
def mapKeepFlag (f : o.D → o.D) (x : PS o.D) : PS o.D := ⟨x.seq.map f, x.reduced⟩

/-- `fold_space_dimensions(vars, dest)` (ibid. 369): flag cleared iff `vars` is not empty -/
def foldDims (nonemptyVars : Bool) (f : o.D → o.D) (x : PS o.D) : PS o.D :=
  if nonemptyVars then ⟨x.seq.map f, false⟩ else x

/-- `map_space_dimensions(pfunc)` (ibid. 330): `is_bottom()` reduces first; an empty powerset only
    changes its dimension -/
def mapSpaceDimensions (abandon : Bool) (f : o.D → o.D) (x : PS o.D) : PS o.D :=
  let x1 := omegaReduce o abandon x
  if x1.seq.isEmpty then x1 else ⟨x1.seq.map f, false⟩

/-- `concatenate_assign(y)` (ibid. 105) without a deadline: `new_x` is built by `push_back` on a
    fresh (hence flagged reduced) powerset and swapped in: the result is flagged **reduced**. -/
def concatenateAssign (conc : o.D → o.D → o.D) (x y : PS o.D) : PS o.D × PS o.D :=
  let x1 := omegaReduce o false x
  let y1 := omegaReduce o false y
  (⟨x1.seq.flatMap fun xi => y1.seq.map fun yi => conc xi yi, true⟩, y1)

/-- the const queries that start with `x.omega_reduce()`: `bounds_from_above/below`, `maximize`,
    `minimize`, `is_topologically_closed`, `constrains` -/
def queryReduces (x : PS o.D) : PS o.D := omegaReduce o false x

end Generic

/-! ## `Pointset_Powerset` over a polyhedral base -/
section Poly
variable (o : PolyOps)

/-- `linear_partition_aux(c, pset, r)` — Pointset_Powerset_templates.hh:1671 -/
def linearPartitionAux (c : LCon) (st : o.D × List o.D) : o.D × List o.D :=
  let negC : LCon := if c.rel = .gt then c.exprLe else c.exprLt
  let n := o.addCon st.1 negC
  let r := if !o.isBottom n then st.2 ++ [n] else st.2
  (o.addCon st.1 c, r)

/-- `linear_partition(p, q)` with the constraint list of `p` given (ibid. 1692; equalities split
    into `le <= 0` then `le >= 0`, lines 1703–1707) -/
def linearPartitionWith (pcons : List LCon) (q : o.D) : o.D × List o.D :=
  pcons.foldl (fun st c =>
    if c.rel = .eq then linearPartitionAux o c.exprGe (linearPartitionAux o c.exprLe st)
    else linearPartitionAux o c st) (q, [])

def linearPartition (p q : o.D) : o.D × List o.D := linearPartitionWith o (o.cons p) q

/-- `Pointset_Powerset<NNC_Polyhedron>::difference_assign(y)` — Pointset_Powerset.cc:34 -/
def psDiff (abandon : Bool) (x y : PS o.D) : PS o.D × PS o.D :=
  let x1 := omegaReduce o.toOps abandon x
  let y1 := omegaReduce o.toOps abandon y
  let s := y1.seq.foldl (fun newSeq yi => newSeq.flatMap fun itr => (linearPartition o yi itr).2) x1.seq
  (⟨s, false⟩, y1)

/-- the generic `difference_assign` (Pointset_Powerset_inlines.hh:304): NNC **copies** of both
    operands (flags copied: Pointset_Powerset.cc:346), the NNC difference, then `*this = nnc_this`
    converts every piece back (`back`; for `C_Polyhedron` the topological closure) with
    `reduced = false` (Pointset_Powerset.cc:383); the argument itself is untouched. -/
def psDiffVia (back : o.D → o.D) (x y : PS o.D) : PS o.D × PS o.D :=
  (⟨(psDiff o false x y).1.seq.map back, false⟩, y)

/-- `is_universe()` — Pointset_Powerset_templates.hh:549: answer and the new representation
    (speculative reduction: a multi-disjunct powerset with a universe disjunct is replaced by the
    fresh universe powerset, flagged reduced) -/
def isUniverse (x : PS o.D) : Bool × PS o.D :=
  let r := isOmegaReduced o.toOps x
  if r.2 then
    (match r.1.seq with
     | [a] => o.isTop a
     | _ => false, r.1)
  else if x.seq.any o.isTop then (true, if x.seq.length > 1 then ⟨[o.top], true⟩ else x)
  else (false, x)

/-! ### `pairwise_reduce()` — Pointset_Powerset_templates.hh:1252 -/

/-- inner `for (sj …)` loop (lines 1273–1285): first unmarked `pj` after `si` with
    `pi.upper_bound_assign_if_exact(pj)`; returns the merged element and the tail with `pj` marked -/
def markFirstExact (pi : o.D) : List (o.D × Bool) → Option (o.D × List (o.D × Bool))
  | [] => none
  | (pj, true) :: r => (markFirstExact pi r).map fun u => (u.1, (pj, true) :: u.2)
  | (pj, false) :: r =>
    match o.ubIfExact pi pj with
    | some u => some (u, (pj, true) :: r)
    | none => (markFirstExact pi r).map fun u => (u.1, (pj, false) :: u.2)

/-- first loop of one round (lines 1266–1288): `(unmarked disjuncts in order, new_x, deleted)` -/
def mergeRound : Nat → List (o.D × Bool) → List o.D → List o.D → Nat → List o.D × List o.D × Nat
  | 0, xs, un, nx, k => (un ++ (xs.filter (fun e => !e.2)).map (·.1), nx, k)
  | _, [], un, nx, k => (un, nx, k)
  | f+1, (_, true) :: r, un, nx, k => mergeRound f r un nx k
  | f+1, (pi, false) :: r, un, nx, k =>
    match markFirstExact o pi r with
    | some (u, r') => mergeRound f r' un (addNBwhole o.toOps u nx) (k+1)
    | none => mergeRound f r (un ++ [pi]) nx k

/-- one iteration of the `do … while (deleted > 0)` loop: second loop (lines 1289–1300) re-adds
    the unmarked disjuncts with the range form; new sequence and `deleted` -/
def pairwiseRound (s : List o.D) : List o.D × Nat :=
  let r := mergeRound o s.length (s.map fun x => (x, false)) [] [] 0
  let st := r.1.foldl (fun (st : List o.D × List o.D) xi => addNB o.toOps xi st.1 st.2) ([], r.2.1)
  (st.1 ++ st.2, r.2.2)

def pairwiseLoop : Nat → List o.D → List o.D
  | 0, s => s
  | f+1, s =>
    let r := pairwiseRound o s
    if r.2 > 0 then pairwiseLoop f r.1 else r.1

/-- `pairwise_reduce()`: the flag is the one `omega_reduce` left -/
def pairwiseReduce (abandon : Bool) (x : PS o.D) : PS o.D :=
  let x1 := omegaReduce o.toOps abandon x
  { x1 with seq := pairwiseLoop o (x1.seq.length + 1) x1.seq }

/-! ### `BGP99_heuristics_assign(y, widen_fun)` — Pointset_Powerset_templates.hh:1312 -/

/-- inner loop over `y` for one `pi` (lines 1334–1343): every `pj ⊆ pi` contributes
    `widen(pi, pj)` to `new_x` (one-argument `add_non_bottom_disjunct_preserve_reduction`) -/
def bgp99Inner (w : o.D → o.D → o.D) (pi : o.D) : List o.D → List o.D × Bool → List o.D × Bool
  | [], st => st
  | pj :: ys, st =>
    if o.contains pi pj then bgp99Inner w pi ys (addNBwhole o.toOps (w pi pj) st.1, true)
    else bgp99Inner w pi ys st

/-- first loop (lines 1331–1344): `(new_x, unmarked disjuncts of x in order)` -/
def bgp99First (w : o.D → o.D → o.D) (y : List o.D) : List o.D → List o.D → List o.D → List o.D × List o.D
  | [], nx, un => (nx, un)
  | pi :: xs, nx, un =>
    let r := bgp99Inner o w pi y (nx, false)
    bgp99First w y xs r.1 (if r.2 then un else un ++ [pi])

/-- `BGP99_heuristics_assign`: only `sequence` is swapped (line 1357): the flag of `x` stays -/
def bgp99HeuristicsAssign (w : o.D → o.D → o.D) (x y : PS o.D) : PS o.D :=
  let r := bgp99First o w y.seq x.seq [] []
  let st := r.2.foldl (fun (st : List o.D × List o.D) xi => addNB o.toOps xi st.1 st.2) ([], r.1)
  ⟨st.1 ++ st.2, x.reduced⟩

/-- `BGP99_extrapolation_assign(y, widen_fun, max_disjuncts)` (ibid. 1366), `&y != this` -/
def bgp99ExtrapolationAssign (w : o.D → o.D → o.D) (maxD : Nat) (x y : PS o.D) : PS o.D :=
  let x1 := pairwiseReduce o false x
  let x2 := if maxD != 0 then collapseMax o.toOps false maxD x1 else x1
  bgp99HeuristicsAssign o w x2 y

/-! ### the driver of `BHZ03_widening_assign<Cert>(y, widen_fun)` — ibid. 1460

The certificates are parameters: `cmpHull c p` = `Cert(c).compare(p)` as `-1/0/1`, `msStab x y` =
`x.is_cert_multiset_stabilizing(collect_certificates(y))`; `bot` is `PSET(space_dim, EMPTY)`,
`strictlyContains`, `diff` the base-level `strictly_contains` / `difference_assign`. -/

structure BHZ03Par where
  bot : o.D
  cmpHull : o.D → o.D → Int
  msStab : List o.D → List o.D → Bool
  strictlyContains : o.D → o.D → Bool
  diff : o.D → o.D → o.D
  widen : o.D → o.D → o.D

def hullOf (bot : o.D) (s : List o.D) : o.D := s.foldl o.join bot

def bhz03WideningAssign (P : BHZ03Par o) (x y : PS o.D) : PS o.D :=
  if y.seq.length = 0 then x                                           -- 1478
  else
    let xHull := hullOf o P.bot x.seq                                  -- 1483
    let yHull := hullOf o P.bot y.seq                                  -- 1489
    let hs := P.cmpHull yHull xHull                                    -- 1497
    if hs = 1 then x                                                   -- 1498
    else
      let yNotSingleton := decide (y.seq.length > 1)                   -- 1503
      if hs = 0 && yNotSingleton && P.msStab x.seq y.seq then x        -- 1511–1518
      else
        let b := bgp99HeuristicsAssign o P.widen x y                   -- 1522
        let bHull := hullOf o P.bot b.seq                              -- 1526
        let hs2 := P.cmpHull yHull bHull                               -- 1534
        if hs2 = 1 then b                                              -- 1535
        else
          let third : Option (PS o.D) :=
            if hs2 = 0 && yNotSingleton then                           -- 1540
              if P.msStab b.seq y.seq then some b                      -- 1546
              else
                let rb := pairwiseReduce o false b                     -- 1554
                if P.msStab rb.seq y.seq then some rb else none        -- 1556
            else none
          match third with
          | some r => r
          | none =>
            if P.strictlyContains bHull yHull then                     -- 1564
              addDisjunct o.toOps x (P.diff (P.widen bHull yHull) bHull)  -- 1566–1570
            else ⟨[xHull], false⟩                                      -- 1575–1577

/-! ### `simplify_using_context_assign(y)` — ibid. 741 -/

def enlargeElementWith (simp : o.D → o.D → o.D × Bool) (ctx : List o.D) (dest : o.D) : o.D × Bool :=
  ctx.foldl (fun (st : o.D × Bool) ci =>
    let contextI := o.meet ci st.1
    let e := simp dest contextI
    (o.meet st.1 e.1, st.2 || e.2)) (o.top, false)

def enlargeElement (ctx : List o.D) (dest : o.D) : o.D × Bool :=
  enlargeElementWith o o.simplify ctx dest

/-- new `x`, new `y`, the Boolean result.  Line 755 `x = y` copies the (reduced) context. -/
def simplifyCtx (abandon : Bool) (x y : PS o.D) : PS o.D × PS o.D × Bool :=
  let x1 := omegaReduce o.toOps abandon x
  if x1.seq.all o.isBottom then (x1, y, false)
  else
    let y1 := omegaReduce o.toOps abandon y
    if y1.seq.all o.isBottom then (y1, y1, false)
    else
      let s :=
        match y1.seq with
        | [yi] => x1.seq.filterMap fun xi => let r := o.simplify xi yi; if r.2 then some r.1 else none
        | _ => x1.seq.filterMap fun xi => let r := enlargeElement o y1.seq xi; if r.2 then some r.1 else none
      (⟨s, false⟩, y1, !s.isEmpty)

end Poly

end PPLV.Powerset.Exact

/-! ## the raw operations of a K5 domain -/
namespace PPLV

def Dom.ops (d : Dom) : Powerset.Exact.Ops :=
  { D := d.D, leq := d.leq, isBottom := d.isBottom, join := d.join, meet := d.meet, eqv := d.eqv }

/-- `isTop` is not a K5 field: it is a parameter here -/
def PolyDom.ops (d : PolyDom) (isTop : d.D → Bool) : Powerset.Exact.PolyOps :=
  { toOps := d.toDom.ops, contains := d.contains, disjoint := d.disjoint, top := d.top, isTop := isTop,
    cons := d.cons, addCon := d.addCon, ubIfExact := d.ubIfExact, simplify := d.simplify }

end PPLV
