import PPLV.Powerset.ExactPair
import Mathlib.Data.List.Basic

/-!
# C09 stage 2 — `Pointset_Powerset::pairwise_reduce()` on the NEW model (part 2: the first loop)

`markFirstExact` (inner loop), `mergeRound` (first loop of one round) as a relation `pr_MR` and its
counting / membership / omega-reduction facts.
-/
namespace PPLV.Powerset.Exact
open PPLV

section Pairwise
variable (o : PolyOps)

/-! ## A — `pairwise_reduce()` -/

/-- **A 1** the inner loop finds the FIRST unmarked later disjunct whose upper bound with `pi` is
    exact, and marks it -/
theorem markFirstExact_spec (pi : o.D) (r : List (o.D × Bool)) (u : o.D) (r' : List (o.D × Bool)) :
    markFirstExact o pi r = some (u, r') ↔
      ∃ r1 pj r2, r = r1 ++ (pj, false) :: r2 ∧
        (∀ e ∈ r1, e.2 = true ∨ o.ubIfExact pi e.1 = none) ∧
        o.ubIfExact pi pj = some u ∧ r' = r1 ++ (pj, true) :: r2 := by
  constructor
  · intro h
    induction r generalizing r' with
    | nil => simp [markFirstExact] at h
    | cons e r ih =>
      obtain ⟨pj, b⟩ := e
      cases b with
      | true =>
        simp only [markFirstExact, Option.map_eq_some_iff] at h
        obtain ⟨⟨wu, wr⟩, hw, hwe⟩ := h
        simp only [Prod.mk.injEq] at hwe
        obtain ⟨rfl, rfl⟩ := hwe
        obtain ⟨r1, pj', r2, h1, h2, h3, h4⟩ := ih wr hw
        refine ⟨(pj, true) :: r1, pj', r2, by simp [h1], ?_, ?_, ?_⟩
        · intro e he
          rcases List.mem_cons.1 he with rfl | he
          · simp
          · exact h2 e he
        · exact h3
        · rw [h4]; simp
      | false =>
        simp only [markFirstExact] at h
        cases hub : o.ubIfExact pi pj with
        | some v =>
          simp only [hub, Option.some.injEq, Prod.mk.injEq] at h
          exact ⟨[], pj, r, by simp, by simp, by rw [hub, h.1], by simp [h.2]⟩
        | none =>
          simp only [hub, Option.map_eq_some_iff] at h
          obtain ⟨⟨wu, wr⟩, hw, hwe⟩ := h
          simp only [Prod.mk.injEq] at hwe
          obtain ⟨rfl, rfl⟩ := hwe
          obtain ⟨r1, pj', r2, h1, h2, h3, h4⟩ := ih wr hw
          refine ⟨(pj, false) :: r1, pj', r2, by simp [h1], ?_, ?_, ?_⟩
          · intro e he
            rcases List.mem_cons.1 he with rfl | he
            · simp [hub]
            · exact h2 e he
          · exact h3
          · rw [h4]; simp
  · rintro ⟨r1, pj, r2, rfl, h2, h3, rfl⟩
    induction r1 with
    | nil => simp [markFirstExact, h3]
    | cons e r1 ih =>
      obtain ⟨a, b⟩ := e
      have ih' := ih (fun e he => h2 e (List.mem_cons_of_mem _ he))
      cases b with
      | true => simp [markFirstExact, ih']
      | false =>
        have := h2 (a, false) (by simp)
        simp only [Bool.false_eq_true, false_or] at this
        simp [markFirstExact, this, ih']

theorem markFirstExact_none (pi : o.D) (r : List (o.D × Bool)) :
    markFirstExact o pi r = none ↔ ∀ e ∈ r, e.2 = true ∨ o.ubIfExact pi e.1 = none := by
  induction r with
  | nil => simp [markFirstExact]
  | cons e r ih =>
    obtain ⟨pj, b⟩ := e
    cases b with
    | true => simp [markFirstExact, ih]
    | false =>
      cases hub : o.ubIfExact pi pj with
      | some v => simp [markFirstExact, hub]
      | none => simp [markFirstExact, hub, ih]

/-- the unmarked disjuncts, in order -/
def pr_unm (xs : List (o.D × Bool)) : List o.D := (xs.filter (fun e => !e.2)).map (·.1)

/-- `v` is the exact upper bound the base level returned for two unmarked entries `a` (earlier)
    and `b` (later) of `xs` -/
def pr_MergedFrom (xs : List (o.D × Bool)) (v : o.D) : Prop :=
  ∃ (i j : Nat) (a b : o.D), i < j ∧ xs[i]? = some (a, false) ∧ xs[j]? = some (b, false) ∧ o.ubIfExact a b = some v

/-- the first loop of one round as a relation (one constructor per path through the loop body) -/
inductive pr_MR : List (o.D × Bool) → List o.D → List o.D → Nat → List o.D × List o.D × Nat → Prop
  | nil (un nx k) : pr_MR [] un nx k (un, nx, k)
  | skip (p r un nx k R) : pr_MR r un nx k R → pr_MR ((p, true) :: r) un nx k R
  | merge (pi r un nx k u r1 pj r2 R) : r = r1 ++ (pj, false) :: r2 →
      (∀ e ∈ r1, e.2 = true ∨ o.ubIfExact pi e.1 = none) → o.ubIfExact pi pj = some u →
      pr_MR (r1 ++ (pj, true) :: r2) un (addNBwhole o.toOps u nx) (k + 1) R →
      pr_MR ((pi, false) :: r) un nx k R
  | keep (pi r un nx k R) : (∀ e ∈ r, e.2 = true ∨ o.ubIfExact pi e.1 = none) →
      pr_MR r (un ++ [pi]) nx k R → pr_MR ((pi, false) :: r) un nx k R

theorem pr_mergeRound_MR (fuel : Nat) (xs : List (o.D × Bool)) (un nx : List o.D) (k : Nat)
    (hf : xs.length ≤ fuel) : pr_MR o xs un nx k (mergeRound o fuel xs un nx k) := by
  induction fuel generalizing xs un nx k with
  | zero =>
    have : xs = [] := List.length_eq_zero_iff.1 (by omega)
    subst this; simp [mergeRound]; exact pr_MR.nil _ _ _
  | succ f ih =>
    match xs with
    | [] => simp [mergeRound]; exact pr_MR.nil _ _ _
    | (p, true) :: r =>
      simp only [mergeRound]
      exact pr_MR.skip _ _ _ _ _ _ (ih _ _ _ _ (by simpa using hf))
    | (pi, false) :: r =>
      simp only [mergeRound]
      cases hm : markFirstExact o pi r with
      | none =>
        simp only
        exact pr_MR.keep _ _ _ _ _ _ ((markFirstExact_none o pi r).1 hm)
          (ih _ _ _ _ (by simpa using hf))
      | some w =>
        obtain ⟨u, r'⟩ := w
        simp only
        obtain ⟨r1, pj, r2, h1, h2, h3, h4⟩ := (markFirstExact_spec o pi r u r').1 hm
        subst h4
        refine pr_MR.merge _ _ _ _ _ u r1 pj r2 _ h1 h2 h3 (ih _ _ _ _ ?_)
        rw [h1] at hf; simpa using hf

theorem pr_unm_cons_true (p : o.D) (r : List (o.D × Bool)) : pr_unm o ((p, true) :: r) = pr_unm o r := by
  simp [pr_unm]

theorem pr_unm_cons_false (p : o.D) (r : List (o.D × Bool)) :
    pr_unm o ((p, false) :: r) = p :: pr_unm o r := by
  simp [pr_unm]

theorem pr_unm_append (r1 r2 : List (o.D × Bool)) : pr_unm o (r1 ++ r2) = pr_unm o r1 ++ pr_unm o r2 := by
  simp [pr_unm]

/-- **A 2** counting facts of the first loop -/
theorem pr_MR_count {xs un nx k R} (h : pr_MR o xs un nx k R) :
    k ≤ R.2.2 ∧
    (∃ l, R.1 = un ++ l ∧ l.Sublist (pr_unm o xs) ∧
      l.length + 2 * (R.2.2 - k) = (pr_unm o xs).length) ∧
    R.2.1.length ≤ nx.length + (R.2.2 - k) ∧
    (R.2.2 = k → R.2.1 = nx) := by
  induction h with
  | nil un nx k => exact ⟨Nat.le_refl _, ⟨[], by simp, by simp [pr_unm], by simp [pr_unm]⟩, by simp, fun _ => rfl⟩
  | skip p r un nx k R _ ih => rw [pr_unm_cons_true]; exact ih
  | merge pi r un nx k u r1 pj r2 R h1 h2 h3 _ ih =>
    obtain ⟨ik, ⟨l, il1, il2, il3⟩, in1, _⟩ := ih
    have hlen := pr_addNBwhole_length o.toOps u nx
    subst h1
    rw [pr_unm_cons_false, pr_unm_append, pr_unm_cons_false]
    rw [pr_unm_append, pr_unm_cons_true] at il2 il3
    refine ⟨by omega, ⟨l, il1, ?_, ?_⟩, by omega, fun hk => by omega⟩
    · refine (il2.trans ?_).trans (List.sublist_cons_self _ _)
      exact List.Sublist.append (List.Sublist.refl _) (List.sublist_cons_self _ _)
    · simp only [List.length_append, List.length_cons] at il3 ⊢; omega
  | keep pi r un nx k R _ _ ih =>
    obtain ⟨ik, ⟨l, il1, il2, il3⟩, in1, in2⟩ := ih
    rw [pr_unm_cons_false]
    refine ⟨ik, ⟨pi :: l, by simp [il1], il2.cons_cons _, ?_⟩, in1, in2⟩
    simp only [List.length_cons]; omega

theorem pr_MergedFrom_cons (e : o.D × Bool) (r : List (o.D × Bool)) (v : o.D)
    (h : pr_MergedFrom o r v) : pr_MergedFrom o (e :: r) v := by
  obtain ⟨i, j, a, b, hij, hi, hj, hu⟩ := h
  exact ⟨i + 1, j + 1, a, b, by omega, by simpa using hi, by simpa using hj, hu⟩

theorem pr_getElem_unmark (r1 r2 : List (o.D × Bool)) (pj a : o.D) (i : Nat)
    (h : (r1 ++ (pj, true) :: r2)[i]? = some (a, false)) :
    (r1 ++ (pj, false) :: r2)[i]? = some (a, false) := by
  rw [List.getElem?_append] at h ⊢
  split
  · rename_i hlt; simpa [hlt] using h
  · rename_i hlt
    simp only [hlt, if_false] at h
    cases hd : i - r1.length with
    | zero => simp [hd] at h
    | succ n => simpa [hd] using h

/-- **A 2** every element of `new_x` is the exact upper bound of two unmarked entries -/
theorem pr_MR_mem {xs un nx k R} (h : pr_MR o xs un nx k R) :
    ∀ v ∈ R.2.1, v ∈ nx ∨ pr_MergedFrom o xs v := by
  induction h with
  | nil un nx k => intro v hv; exact Or.inl hv
  | skip p r un nx k R _ ih =>
    intro v hv; exact (ih v hv).imp id (pr_MergedFrom_cons o _ _ _)
  | merge pi r un nx k u r1 pj r2 R h1 h2 h3 _ ih =>
    intro v hv
    subst h1
    rcases ih v hv with hv | hv
    · rcases pr_addNBwhole_mem o.toOps u nx v hv with rfl | hv
      · right
        exact ⟨0, r1.length + 1, pi, pj, by omega, by simp, by simp, h3⟩
      · exact Or.inl hv
    · right
      obtain ⟨i, j, a, b, hij, hi, hj, hu⟩ := hv
      exact pr_MergedFrom_cons o _ _ _
        ⟨i, j, a, b, hij, pr_getElem_unmark o _ _ _ _ _ hi, pr_getElem_unmark o _ _ _ _ _ hj, hu⟩
  | keep pi r un nx k R _ _ ih =>
    intro v hv; exact (ih v hv).imp id (pr_MergedFrom_cons o _ _ _)

/-- `new_x` stays omega-reduced (its elements enter through the one-argument
    `add_non_bottom_disjunct_preserve_reduction`) -/
theorem pr_MR_omegaReduced {xs un nx k R} (h : pr_MR o xs un nx k R)
    (hub : ∀ a b u, o.ubIfExact a b = some u → o.isBottom a = false → o.isBottom u = false)
    (hnx : OmegaReduced o.toOps nx) (hxs : ∀ e ∈ xs, o.isBottom e.1 = false) :
    OmegaReduced o.toOps R.2.1 := by
  induction h with
  | nil un nx k => exact hnx
  | skip p r un nx k R _ ih => exact ih hnx (fun e he => hxs e (List.mem_cons_of_mem _ he))
  | merge pi r un nx k u r1 pj r2 R h1 h2 h3 _ ih =>
    subst h1
    refine ih (pr_addNBwhole_omegaReduced o.toOps u nx hnx (hub pi pj u h3 (hxs (pi, false) (by simp)))) ?_
    intro e he
    simp only [List.mem_append, List.mem_cons] at he
    rcases he with he | rfl | he
    · exact hxs e (by simp [he])
    · exact hxs (pj, false) (by simp)
    · exact hxs e (by simp [he])
  | keep pi r un nx k R _ _ ih => exact ih hnx (fun e he => hxs e (List.mem_cons_of_mem _ he))

/-- **A 2** the facts of the first loop, on `mergeRound` itself (`fuel ≥ xs.length`) -/
theorem mergeRound_spec (fuel : Nat) (xs : List (o.D × Bool)) (un nx : List o.D) (k : Nat)
    (hf : xs.length ≤ fuel) :
    k ≤ (mergeRound o fuel xs un nx k).2.2 ∧
    (∃ l, (mergeRound o fuel xs un nx k).1 = un ++ l ∧
      l.Sublist ((xs.filter (fun e => !e.2)).map (·.1)) ∧
      l.length + 2 * ((mergeRound o fuel xs un nx k).2.2 - k)
        = ((xs.filter (fun e => !e.2)).map (·.1)).length) ∧
    (mergeRound o fuel xs un nx k).2.1.length ≤ nx.length + ((mergeRound o fuel xs un nx k).2.2 - k) ∧
    ((mergeRound o fuel xs un nx k).2.2 = k → (mergeRound o fuel xs un nx k).2.1 = nx) ∧
    (∀ v ∈ (mergeRound o fuel xs un nx k).2.1, v ∈ nx ∨
      ∃ (i j : Nat) (a b : o.D), i < j ∧ xs[i]? = some (a, false) ∧ xs[j]? = some (b, false) ∧
        o.ubIfExact a b = some v) := by
  have h := pr_mergeRound_MR o fuel xs un nx k hf
  obtain ⟨h1, h2, h3, h4⟩ := pr_MR_count o h
  exact ⟨h1, h2, h3, h4, pr_MR_mem o h⟩

theorem mergeRound_length (fuel : Nat) (xs : List (o.D × Bool)) (un nx : List o.D) (k : Nat)
    (hf : xs.length ≤ fuel) :
    (mergeRound o fuel xs un nx k).1.length + 2 * ((mergeRound o fuel xs un nx k).2.2 - k)
      = un.length + (xs.filter (fun e => !e.2)).length := by
  obtain ⟨_, ⟨l, h1, _, h3⟩, _⟩ := mergeRound_spec o fuel xs un nx k hf
  rw [h1]; simp only [List.length_append, List.length_map] at h3 ⊢; omega

end Pairwise
end PPLV.Powerset.Exact
