import PPLV.Powerset.ProofsOps
import PPLV.Lin.Proofs

/-!
# C09 — `linear_partition` really partitions; `difference_assign` is the exact difference
(over the hypotheses of an exact polyhedral domain)
-/
namespace PPLV.Powerset
open PPLV

/-! ### the three derived constraints of `linear_partition` -/

theorem dot_map_neg' (as : List Int) (w : Pt) : Lin.dot (as.map (- ·)) w = - Lin.dot as w := by
  induction as generalizing w with
  | nil => simp
  | cons a as ih =>
    simp only [List.map_cons, Lin.dot_cons, ih]
    push_cast; ring

theorem exprGe_sat (c : LCon) (x : Pt) : c.exprGe.sat x ↔ 0 ≤ c.eval x := by
  simp [LCon.exprGe, LCon.sat, LCon.eval]

theorem exprLe_sat (c : LCon) (x : Pt) : c.exprLe.sat x ↔ c.eval x ≤ 0 := by
  simp only [LCon.exprLe, LCon.sat, LCon.eval, dot_map_neg']
  push_cast
  constructor <;> intro h <;> linarith

theorem exprLt_sat (c : LCon) (x : Pt) : c.exprLt.sat x ↔ c.eval x < 0 := by
  simp only [LCon.exprLt, LCon.sat, LCon.eval, dot_map_neg']
  push_cast
  constructor <;> intro h <;> linarith

/-- an equality is the conjunction of the two inequalities it is split into -/
theorem eq_split (c : LCon) (h : c.rel = .eq) (x : Pt) : c.sat x ↔ (c.exprLe.sat x ∧ c.exprGe.sat x) := by
  rw [exprLe_sat, exprGe_sat]
  simp only [LCon.sat, h]
  constructor
  · intro h; rw [h]; exact ⟨le_refl _, le_refl _⟩
  · rintro ⟨h1, h2⟩; exact le_antisymm h1 h2

/-- the complement computed by `linear_partition_aux`:
    `c.is_strict_inequality() ? (le <= 0) : (le < 0)` -/
def negC (c : LCon) : LCon := if c.rel = .gt then c.exprLe else c.exprLt

theorem negC_sat (c : LCon) (h : c.rel ≠ .eq) (x : Pt) : (negC c).sat x ↔ ¬ c.sat x := by
  unfold negC
  cases hr : c.rel with
  | eq => exact absurd hr h
  | ge =>
    have h1 : c.sat x ↔ 0 ≤ c.eval x := by simp [LCon.sat, hr]
    rw [if_neg (by simp), exprLt_sat, h1]
    exact (not_le (α := Rat)).symm
  | gt =>
    have h1 : c.sat x ↔ 0 < c.eval x := by simp [LCon.sat, hr]
    rw [if_pos rfl, exprLe_sat, h1]
    exact (not_lt (α := Rat)).symm

theorem exprGe_rel (c : LCon) : c.exprGe.rel ≠ .eq := by simp [LCon.exprGe]
theorem exprLe_rel (c : LCon) : c.exprLe.rel ≠ .eq := by simp [LCon.exprLe]

variable (d : PolyDom)

/-- the invariant of the loop of `linear_partition(p, q)` after the constraints described by `P`
    have been processed -/
structure PartInv (q : d.D) (P : Pt → Prop) (st : d.D × List d.D) : Prop where
  first : ∀ x, d.γ st.1 x ↔ (d.γ q x ∧ P x)
  pieces : ∀ n ∈ st.2, ∀ x, d.γ n x → (d.γ q x ∧ ¬ P x)
  cover : ∀ x, d.γ q x → ¬ P x → d.U st.2 x
  disj : st.2.Pairwise fun a b => ∀ x, ¬ (d.γ a x ∧ d.γ b x)
  nonbot : ∀ n ∈ st.2, d.isBottom n = false

theorem aux_inv (q : d.D) (P : Pt → Prop) (st : d.D × List d.D) (c : LCon) (hc : c.rel ≠ .eq)
    (h : PartInv d q P st) : PartInv d q (fun x => P x ∧ c.sat x) (linearPartitionAux d c st) := by
  have hn : ∀ x, d.γ (d.addCon st.1 (negC c)) x ↔ (d.γ q x ∧ P x ∧ ¬ c.sat x) := by
    intro x
    rw [d.addCon_spec, h.first, negC_sat c hc]
    exact and_assoc
  have hneg : (if c.rel = LRel.gt then c.exprLe else c.exprLt) = negC c := rfl
  unfold linearPartitionAux
  simp only [hneg]
  refine ⟨?_, ?_, ?_, ?_, ?_⟩
  · intro x
    simp only [d.addCon_spec, h.first]
    exact and_assoc
  · intro n hn' x hx
    cases hb : d.isBottom (d.addCon st.1 (negC c)) with
    | true =>
      simp only [hb, Bool.not_true, Bool.false_eq_true, if_false] at hn'
      obtain ⟨h1, h2⟩ := h.pieces n hn' x hx
      exact ⟨h1, fun h3 => h2 h3.1⟩
    | false =>
      simp only [hb, Bool.not_false, if_true, List.mem_append, List.mem_singleton] at hn'
      rcases hn' with hn' | rfl
      · obtain ⟨h1, h2⟩ := h.pieces n hn' x hx
        exact ⟨h1, fun h3 => h2 h3.1⟩
      · obtain ⟨h1, h2, h3⟩ := (hn x).mp hx
        exact ⟨h1, fun h4 => h3 h4.2⟩
  · intro x hq hnp
    by_cases hP : P x
    · have hcs : ¬ c.sat x := fun hs => hnp ⟨hP, hs⟩
      have hx : d.γ (d.addCon st.1 (negC c)) x := (hn x).mpr ⟨hq, hP, hcs⟩
      cases hb : d.isBottom (d.addCon st.1 (negC c)) with
      | true => exact absurd hx (d.isBottom_sound _ hb x)
      | false =>
        simp only [Bool.not_false, if_true, U_append, U_cons, U_nil, or_false]
        exact Or.inr hx
    · have := h.cover x hq hP
      cases hb : d.isBottom (d.addCon st.1 (negC c)) with
      | true => simpa using this
      | false =>
        simp only [Bool.not_false, if_true, U_append]
        exact Or.inl this
  · cases hb : d.isBottom (d.addCon st.1 (negC c)) with
    | true => simpa using h.disj
    | false =>
      simp only [Bool.not_false, if_true]
      rw [List.pairwise_append]
      refine ⟨h.disj, List.pairwise_singleton _ _, ?_⟩
      intro a ha b hb' x hx
      rw [List.mem_singleton] at hb'
      subst hb'
      exact (h.pieces a ha x hx.1).2 ((hn x).mp hx.2).2.1
  · intro n hn'
    cases hb : d.isBottom (d.addCon st.1 (negC c)) with
    | true =>
      simp only [hb, Bool.not_true, Bool.false_eq_true, if_false] at hn'
      exact h.nonbot n hn'
    | false =>
      simp only [hb, Bool.not_false, if_true, List.mem_append, List.mem_singleton] at hn'
      rcases hn' with hn' | rfl
      · exact h.nonbot n hn'
      · exact hb

theorem PartInv.congr (q : d.D) (P P' : Pt → Prop) (st : d.D × List d.D) (hPP : ∀ x, P x ↔ P' x)
    (h : PartInv d q P st) : PartInv d q P' st := by
  have : P = P' := funext fun x => propext (hPP x)
  rw [← this]; exact h

theorem step_inv (q : d.D) (P : Pt → Prop) (st : d.D × List d.D) (c : LCon) (h : PartInv d q P st) :
    PartInv d q (fun x => P x ∧ c.sat x)
      (if c.rel = .eq then linearPartitionAux d c.exprGe (linearPartitionAux d c.exprLe st)
       else linearPartitionAux d c st) := by
  by_cases hc : c.rel = .eq
  · simp only [hc, if_true]
    have h1 := aux_inv d q P st c.exprLe (exprLe_rel c) h
    have h2 := aux_inv d q _ _ c.exprGe (exprGe_rel c) h1
    refine PartInv.congr d q _ _ _ ?_ h2
    intro x
    rw [eq_split c hc x]
    exact and_assoc
  · simp only [hc, if_false]
    exact aux_inv d q P st c hc h

theorem fold_inv (q : d.D) (cs : List LCon) (P : Pt → Prop) (st : d.D × List d.D)
    (h : PartInv d q P st) :
    PartInv d q (fun x => P x ∧ ∀ c ∈ cs, c.sat x)
      (cs.foldl (fun st c =>
        if c.rel = .eq then linearPartitionAux d c.exprGe (linearPartitionAux d c.exprLe st)
        else linearPartitionAux d c st) st) := by
  induction cs generalizing P st with
  | nil =>
    refine PartInv.congr d q _ _ _ ?_ h
    intro x; simp
  | cons c cs ih =>
    simp only [List.foldl_cons]
    have := ih _ _ (step_inv d q P st c h)
    refine PartInv.congr d q _ _ _ ?_ this
    intro x
    simp only [List.mem_cons, forall_eq_or_imp]
    exact and_assoc

/-- **`linear_partition(p, q)`**: the first component is `p ∩ q`; every piece of the second lies in
    `q ∖ p`; together they cover `q`; the pieces are pairwise disjoint and non-empty. -/
theorem linearPartition_spec (p q : d.D) :
    PartInv d q (d.γ p) (linearPartition d p q) := by
  have h0 : PartInv d q (fun _ => True) (q, []) := by
    refine ⟨fun x => by simp, ?_, fun x _ h => absurd trivial h, List.Pairwise.nil, ?_⟩
    · intro n hn; simp at hn
    · intro n hn; simp at hn
  have := fold_inv d q (d.cons p) _ _ h0
  refine PartInv.congr d q _ _ _ ?_ this
  intro x
  rw [d.cons_spec]; simp

/-- the pieces denote exactly `q ∖ p` -/
theorem linearPartition_diff (p q : d.D) (x : Pt) :
    d.U (linearPartition d p q).2 x ↔ (d.γ q x ∧ ¬ d.γ p x) := by
  have h := linearPartition_spec d p q
  constructor
  · rintro ⟨n, hn, hx⟩
    exact h.pieces n hn x hx
  · rintro ⟨h1, h2⟩
    exact h.cover x h1 h2

/-! ### `difference_assign` -/

theorem flatMap_partition_U (yi : d.D) (s : List d.D) (x : Pt) :
    d.U (s.flatMap fun itr => (linearPartition d yi itr).2) x ↔ (d.U s x ∧ ¬ d.γ yi x) := by
  constructor
  · rintro ⟨n, hn, hx⟩
    obtain ⟨itr, hi, hn⟩ := List.mem_flatMap.mp hn
    obtain ⟨h1, h2⟩ := (linearPartition_diff d yi itr x).mp ⟨n, hn, hx⟩
    exact ⟨⟨itr, hi, h1⟩, h2⟩
  · rintro ⟨⟨itr, hi, h1⟩, h2⟩
    obtain ⟨n, hn, hx⟩ := (linearPartition_diff d yi itr x).mpr ⟨h1, h2⟩
    exact ⟨n, List.mem_flatMap.mpr ⟨itr, hi, hn⟩, hx⟩

theorem foldl_diff_U (ys s : List d.D) (x : Pt) :
    d.U (ys.foldl (fun newSeq yi => newSeq.flatMap fun itr => (linearPartition d yi itr).2) s) x ↔
      (d.U s x ∧ ¬ d.U ys x) := by
  induction ys generalizing s with
  | nil => simp
  | cons y ys ih =>
    simp only [List.foldl_cons]
    rw [ih, flatMap_partition_U, U_cons]
    constructor
    · rintro ⟨⟨h1, h2⟩, h3⟩
      exact ⟨h1, fun h => h.elim h2 h3⟩
    · rintro ⟨h1, h2⟩
      exact ⟨⟨h1, fun h => h2 (Or.inl h)⟩, fun h => h2 (Or.inr h)⟩

/-- **`difference_assign` is the exact set difference of the unions** -/
theorem psDiff_U (x y : PS d.toDom) (p : Pt) :
    d.U (psDiff d false x y).seq p ↔ (d.U x.seq p ∧ ¬ d.U y.seq p) := by
  unfold psDiff
  simp only
  rw [foldl_diff_U, omegaReduce_U, omegaReduce_U]

end PPLV.Powerset
