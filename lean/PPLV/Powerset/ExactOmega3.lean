import PPLV.Powerset.ExactOmega

/-!
# C09 stage 2 — **which disjuncts `omega_reduce` keeps** (A.5)

For a preorder `definitely_entails`, `omegaLoop o false s.length [] s = omegaSpec o [] s`: the
survivors are exactly the maximal disjuncts, each class of mutually entailing disjuncts
represented by its FIRST occurrence, in the original order.

Proof route.  (1) By the loop invariant `LoopInv` (ExactOmega) every disjunct of `pre` is
incomparable with the disjunct being visited, so the scan of `pre` never does anything
(`scanY_of_incomp`).  (2) `omegaSpec pre l` only depends on `pre` through the predicate "entails an
earlier disjunct": `specP P l` generalises it over an arbitrary predicate `P`, and the loop is
shown equal to `pre ++ specP P rest` whenever `P` is false on the whole of `rest`
(`omegaLoop_eq_specP`), using three congruence lemmas on `specP` (`specP_congr`,
`specP_congr_upto`, `specP_filter_prefix`).
-/
namespace PPLV.Powerset.Exact
open PPLV

variable (o : Ops)

/-- `omegaSpec` with the list of earlier disjuncts abstracted into the predicate
    `P r` = "`r` entails an earlier disjunct" -/
def specP (P : o.D → Bool) : List o.D → List o.D
  | [] => []
  | x :: post =>
    (if !P x && post.all (fun y => !o.leq x y || o.leq y x) then [x] else [])
      ++ specP (fun r => P r || o.leq r x) post

theorem all_not_eq_not_any (x : o.D) (E : List o.D) :
    E.all (fun y => !o.leq x y) = !E.any (fun e => o.leq x e) := by
  induction E with
  | nil => rfl
  | cons e E ih => simp [ih]

theorem omegaSpec_eq_specP (E l : List o.D) :
    omegaSpec o E l = specP o (fun r => E.any (fun e => o.leq r e)) l := by
  induction l generalizing E with
  | nil => rfl
  | cons x post ih =>
    simp only [omegaSpec, specP]
    rw [ih (E ++ [x]), all_not_eq_not_any]
    congr 2
    funext r
    simp [List.any_append]

theorem specP_congr (P Q : o.D → Bool) (l : List o.D) (h : ∀ r ∈ l, P r = Q r) :
    specP o P l = specP o Q l := by
  induction l generalizing P Q with
  | nil => rfl
  | cons x post ih =>
    simp only [specP]
    rw [h x (List.mem_cons_self ..)]
    congr 1
    apply ih
    intro r hr
    rw [h r (List.mem_cons_of_mem _ hr)]

theorem specP_congr_upto (P Q : o.D → Bool) (l1 : List o.D) (y : o.D) (l2 : List o.D)
    (h1 : ∀ r ∈ l1, P r = Q r) (hy : P y = Q y)
    (h2 : ∀ r ∈ l2, (P r || o.leq r y) = (Q r || o.leq r y)) :
    specP o P (l1 ++ y :: l2) = specP o Q (l1 ++ y :: l2) := by
  induction l1 generalizing P Q with
  | nil =>
    simp only [List.nil_append, specP]
    rw [hy]
    congr 1
    exact specP_congr o _ _ l2 h2
  | cons x l1 ih =>
    simp only [List.cons_append, specP]
    rw [h1 x (List.mem_cons_self ..)]
    congr 1
    apply ih
    · intro r hr
      rw [h1 r (List.mem_cons_of_mem _ hr)]
    · rw [hy]
    · intro r hr
      have := h2 r hr
      rw [Bool.or_right_comm, this, Bool.or_right_comm]

theorem all_filter_irrel {α : Type} (f g : α → Bool) (l : List α)
    (h : ∀ y ∈ l, g y = false → f y = true) : (l.filter g).all f = l.all f := by
  induction l with
  | nil => rfl
  | cons a l ih =>
    have ih' := ih (fun y hy => h y (List.mem_cons_of_mem _ hy))
    cases hg : g a with
    | true => simp [hg, ih']
    | false =>
      have := h a (List.mem_cons_self ..) hg
      simp [hg, ih', this]

/-- erasing, from a prefix, disjuncts that entail `xv` does not change the specification when
    everything below `xv` already counts as "entails an earlier disjunct" -/
theorem specP_filter_prefix (hp : IsPreorder o) (xv : o.D) (P : o.D → Bool) (l1 m : List o.D)
    (hP : ∀ r, o.leq r xv = true → P r = true) :
    specP o P (l1 ++ m) = specP o P (l1.filter (fun z => !o.leq z xv) ++ m) := by
  induction l1 generalizing P with
  | nil => rfl
  | cons p ps ih =>
    cases hpx : o.leq p xv with
    | true =>
      have e : (p :: ps).filter (fun z => !o.leq z xv) = ps.filter (fun z => !o.leq z xv) := by
        simp [hpx]
      rw [e]
      simp only [List.cons_append, specP, hP p hpx]
      have hP' : ∀ r, o.leq r xv = true → (P r || o.leq r p) = true := by
        intro r hr; simp [hP r hr]
      simp only [Bool.not_true, Bool.false_and, Bool.false_eq_true, ↓reduceIte, List.nil_append]
      rw [ih _ hP']
      apply specP_congr
      intro r _
      cases hrp : o.leq r p with
      | false => simp
      | true => simp [hP r (hp.trans _ _ _ hrp hpx)]
    | false =>
      have e : (p :: ps).filter (fun z => !o.leq z xv) = p :: ps.filter (fun z => !o.leq z xv) := by
        simp [hpx]
      rw [e]
      simp only [List.cons_append, specP]
      have hP' : ∀ r, o.leq r xv = true → (P r || o.leq r p) = true := by
        intro r hr; simp [hP r hr]
      rw [ih _ hP']
      have hall : ((ps.filter (fun z => !o.leq z xv)).all fun y => !o.leq p y || o.leq y p) =
          ps.all fun y => !o.leq p y || o.leq y p := by
        apply all_filter_irrel
        intro y _ hy
        simp only [Bool.not_eq_false'] at hy
        cases hpy : o.leq p y with
        | false => simp
        | true =>
          have := hp.trans _ _ _ hpy hy
          rw [hpx] at this; cases this
      rw [List.all_append, List.all_append, hall]

theorem scanY_of_incomp (xv : o.D) (l : List o.D) (h : ∀ y ∈ l, Incomp o y xv) :
    scanY o xv l = (l, false) := by
  induction l with
  | nil => rfl
  | cons y ys ih =>
    have hy := h y (List.mem_cons_self ..)
    have ih' := ih (fun z hz => h z (List.mem_cons_of_mem _ hz))
    simp [scanY, hy.1, hy.2, ih']

/-- the loop, under its invariant, computes `pre ++ specP P rest` for any `P` false on `rest` -/
theorem omegaLoop_eq_specP (hp : IsPreorder o) (fuel : Nat) (P : o.D → Bool) (pre rest : List o.D)
    (hI : LoopInv o pre rest) (hP : ∀ r ∈ rest, P r = false) (hf : rest.length ≤ fuel) :
    omegaLoop o false fuel pre rest = pre ++ specP o P rest := by
  induction fuel generalizing P pre rest with
  | zero =>
    have : rest = [] := List.length_eq_zero_iff.1 (Nat.le_zero.1 hf)
    subst this
    simp [omegaLoop, specP]
  | succ fuel ih =>
    cases rest with
    | nil => simp [omegaLoop, specP]
    | cons xv post =>
      obtain ⟨hpw, hpr⟩ := hI
      have hpx : ∀ a ∈ pre, Incomp o a xv := fun a ha => hpr a ha xv (List.mem_cons_self ..)
      rw [omegaLoop_succ_cons, scanY_of_incomp o xv pre hpx]
      simp only [Bool.false_eq_true, ↓reduceIte]
      have s2 := scanY_sublist o xv post
      have hl : post.length ≤ fuel := by simpa using hf
      have hl2 : (scanY o xv post).1.length ≤ fuel := Nat.le_trans s2.length_le hl
      have hPx : P xv = false := hP xv (List.mem_cons_self ..)
      cases h2 : (scanY o xv post).2 with
      | true =>
        simp only [↓reduceIte]
        obtain ⟨l1, y, l2, e, hyx, hxy, -, e2⟩ := scanY_true o xv post h2
        have hI' : LoopInv o pre (scanY o xv post).1 :=
          ⟨hpw, fun a ha b hb => hpr a ha b (List.mem_cons_of_mem _ (s2.subset hb))⟩
        have hP' : ∀ r ∈ (scanY o xv post).1, P r = false :=
          fun r hr => hP r (List.mem_cons_of_mem _ (s2.subset hr))
        rw [ih P pre _ hI' hP' hl2]
        congr 1
        -- the visited disjunct fails the test (strictly below the later `y`)
        have hfail : post.all (fun y => !o.leq xv y || o.leq y xv) = false := by
          rw [List.all_eq_false]
          exact ⟨y, by simp [e], by simp [hxy, hyx]⟩
        simp only [specP, hfail, Bool.and_false, Bool.false_eq_true, ↓reduceIte, List.nil_append]
        rw [e2, e]
        have hQ : ∀ r, o.leq r xv = true → (P r || o.leq r xv) = true := by
          intro r hr; simp [hr]
        rw [specP_filter_prefix o hp xv _ l1 (y :: l2) hQ]
        apply specP_congr_upto
        · intro r hr
          have := (List.mem_filter.1 hr).2
          simp only [Bool.not_eq_eq_eq_not, Bool.not_true] at this
          simp [this]
        · simp [hyx]
        · intro r _
          cases hrx : o.leq r xv with
          | false => simp
          | true => simp [hp.trans _ _ _ hrx hxy]
      | false =>
        simp only [Bool.false_eq_true, ↓reduceIte]
        obtain ⟨e2, f2⟩ := scanY_false o xv post h2
        have g2 : ∀ a ∈ (scanY o xv post).1, Incomp o xv a := by
          intro a ha
          refine ⟨f2 a ha, ?_⟩
          rw [e2] at ha
          simpa using (List.mem_filter.1 ha).2
        have hI' : LoopInv o (pre ++ [xv]) (scanY o xv post).1 := by
          refine ⟨?_, ?_⟩
          · rw [List.pairwise_append]
            refine ⟨hpw, by simp, ?_⟩
            intro a ha b hb
            rw [List.mem_singleton.1 hb]
            exact hpx a ha
          · intro a ha b hb
            rcases List.mem_append.1 ha with ha | ha
            · exact hpr a ha b (List.mem_cons_of_mem _ (s2.subset hb))
            · rw [List.mem_singleton.1 ha]
              exact g2 b hb
        have hP' : ∀ r ∈ (scanY o xv post).1, (P r || o.leq r xv) = false := by
          intro r hr
          rw [hP r (List.mem_cons_of_mem _ (s2.subset hr)), (g2 r hr).2]
          rfl
        rw [ih (fun r => P r || o.leq r xv) (pre ++ [xv]) _ hI' hP' hl2]
        -- the visited disjunct passes the test
        have hpass : post.all (fun y => !o.leq xv y || o.leq y xv) = true := by
          rw [List.all_eq_true]
          intro y hy
          cases hyx : o.leq y xv with
          | true => simp
          | false =>
            have : y ∈ (scanY o xv post).1 := by
              rw [e2]; exact List.mem_filter.2 ⟨hy, by simp [hyx]⟩
            simp [f2 y this]
        simp only [specP, hPx, hpass, Bool.not_false, Bool.and_self, ↓reduceIte, List.append_assoc]
        congr 2
        rw [e2]
        have hQ : ∀ r, o.leq r xv = true → (P r || o.leq r xv) = true := by
          intro r hr; simp [hr]
        simpa using (specP_filter_prefix o hp xv _ post [] hQ).symm

/-- **A.5** for a preorder, `omega_reduce` keeps exactly the maximal disjuncts, the first of each
    class of mutually entailing ones, in the original order -/
theorem omegaLoop_eq_omegaSpec (hp : IsPreorder o) (s : List o.D) :
    omegaLoop o false s.length [] s = omegaSpec o [] s := by
  rw [omegaSpec_eq_specP]
  have := omegaLoop_eq_specP o hp s.length (fun r => ([] : List o.D).any (fun e => o.leq r e)) [] s
    ⟨List.Pairwise.nil, by simp⟩ (by simp) (Nat.le_refl _)
  simpa using this

/-- more fuel changes nothing -/
theorem omegaLoop_eq_omegaSpec_fuel (hp : IsPreorder o) (fuel : Nat) (s : List o.D)
    (hf : s.length ≤ fuel) : omegaLoop o false fuel [] s = omegaSpec o [] s := by
  rw [omegaSpec_eq_specP]
  have := omegaLoop_eq_specP o hp fuel (fun r => ([] : List o.D).any (fun e => o.leq r e)) [] s
    ⟨List.Pairwise.nil, by simp⟩ (by simp) hf
  simpa using this

theorem omegaReduce_eq_omegaSpec (hp : IsPreorder o) (x : PS o.D) (h : x.reduced = false) :
    (omegaReduce o false x).seq = omegaSpec o [] (x.seq.filter (fun y => !o.isBottom y)) := by
  rw [omegaReduce_of_not_reduced o x h]
  exact omegaLoop_eq_omegaSpec o hp _

/-! ### what `omegaSpec` means -/

theorem specP_mem (P : o.D → Bool) (l : List o.D) (a : o.D)
    (h : a ∈ specP o P l) :
    a ∈ l ∧ P a = false ∧ ∀ b ∈ l, o.leq a b = true → o.leq b a = true := by
  induction l generalizing P with
  | nil => simp [specP] at h
  | cons x post ih =>
    simp only [specP, List.mem_append] at h
    rcases h with h | h
    · split at h
      · rename_i hc
        simp only [List.mem_singleton] at h
        subst h
        simp only [Bool.and_eq_true, Bool.not_eq_eq_eq_not, Bool.not_true, List.all_eq_true,
          Bool.or_eq_true] at hc
        refine ⟨List.mem_cons_self .., hc.1, ?_⟩
        intro b hb hab
        rcases List.mem_cons.1 hb with rfl | hb
        · exact hab
        · rcases hc.2 b hb with h' | h'
          · rw [hab] at h'; cases h'
          · exact h'
      · cases h
    · obtain ⟨h1, h2, h3⟩ := ih _ h
      simp only [Bool.or_eq_false_iff] at h2
      refine ⟨List.mem_cons_of_mem _ h1, h2.1, ?_⟩
      intro b hb hab
      rcases List.mem_cons.1 hb with rfl | hb
      · rw [h2.2] at hab; cases hab
      · exact h3 b hb hab

/-- every disjunct kept by the specification is a maximal disjunct of the sequence -/
theorem omegaSpec_mem_maximal (s : List o.D) (a : o.D)
    (h : a ∈ omegaSpec o [] s) : a ∈ s ∧ ∀ b ∈ s, o.leq a b = true → o.leq b a = true := by
  rw [omegaSpec_eq_specP] at h
  have := specP_mem o _ s a h
  exact ⟨this.1, this.2.2⟩

/-- two mutually entailing non-bottom disjuncts: the first one is kept -/
theorem omegaReduce_first_of_equals_two (hp : IsPreorder o) (a b : o.D)
    (hab : o.leq a b = true) (hba : o.leq b a = true)
    (ha : o.isBottom a = false) (hb : o.isBottom b = false) :
    (omegaReduce o false ⟨[a, b], false⟩).seq = [a] := by
  rw [omegaReduce_eq_omegaSpec o hp _ rfl]
  simp [omegaSpec, ha, hb, hab, hba]

/-- `[a, c, b]` with `a`, `b` mutually entailing and `c` incomparable to both: `b` is erased -/
theorem omegaReduce_first_of_equals_three (hp : IsPreorder o) (a b c : o.D)
    (hab : o.leq a b = true) (hba : o.leq b a = true)
    (hac : Incomp o a c) (hbc : Incomp o b c)
    (ha : o.isBottom a = false) (hb : o.isBottom b = false) (hc : o.isBottom c = false) :
    (omegaReduce o false ⟨[a, c, b], false⟩).seq = [a, c] := by
  rw [omegaReduce_eq_omegaSpec o hp _ rfl]
  simp [omegaSpec, ha, hb, hc, hab, hba, hac.1, hac.2, hbc.1, hbc.2]

end PPLV.Powerset.Exact
