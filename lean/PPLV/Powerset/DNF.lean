import PPLV.Lin.Model

/-!
# C09 — deciding inclusion / equality / difference of finite unions of polyhedra (no Mathlib)

A powerset is judged as a *DNF*: a list of constraint systems (`List Con`, rows `e ≥ 0` / `e > 0`),
denoting the union of their solution sets.  `⋃ A ⊆ ⋃ B` is decided by **successive difference**:
`P ∖ B` is split along the rows of `B` into the pieces `P ∧ c₁ ∧ … ∧ c_{i-1} ∧ ¬cᵢ`; infeasible
pieces are discarded with the K1 decision procedure `feasible`; `⋃ A ⊆ ⋃ B` iff nothing is left
after subtracting every disjunct of `B`.  Soundness and completeness: `ProofsDNF.lean`
(`dnfSubset_iff`, `dnfMinus_sem`).
-/
namespace PPLV.Powerset
open PPLV.Lin

abbrev DNF := List (List Con)

/-- the pieces of `P ∖ B` (not yet filtered) -/
def splitPieces : List Con → List Con → DNF
  | _, [] => []
  | P, c :: cs => (c.neg :: P) :: splitPieces (c :: P) cs

/-- `⋃ A ∖ B` with the infeasible pieces discarded -/
def minusOne (n : Nat) (A : DNF) (B : List Con) : DNF :=
  (A.flatMap fun P => splitPieces P B).filter (feasible n)

/-- `⋃ A ∖ ⋃ Bs` -/
def dnfMinus (n : Nat) (A Bs : DNF) : DNF := Bs.foldl (minusOne n) (A.filter (feasible n))

/-- `⋃ A ⊆ ⋃ B` -/
def dnfSubset (n : Nat) (A B : DNF) : Bool := (dnfMinus n A B).isEmpty

/-- `⋃ A ⊆ ⋃ B`, trying first to place every disjunct of `A` inside a single disjunct of `B` -/
def dnfSubsetF (n : Nat) (A B : DNF) : Bool :=
  A.all fun P => B.any (fun Q => subsetB n P Q) || dnfSubset n [P] B

def dnfEquivF (n : Nat) (A B : DNF) : Bool := dnfSubsetF n A B && dnfSubsetF n B A

/-- `⋃ A = ⋃ B` -/
def dnfEquiv (n : Nat) (A B : DNF) : Bool := dnfSubset n A B && dnfSubset n B A

/-- `⋃ A ∩ ⋃ B = ∅` -/
def dnfDisjoint (n : Nat) (A B : DNF) : Bool := A.all fun P => B.all fun Q => disjointB n P Q

/-- `⋃ A = ∅` -/
def dnfEmpty (n : Nat) (A : DNF) : Bool := A.all fun P => isEmptyB n P

/-- `⋃ A ∩ ⋃ B` as a DNF -/
def dnfMeet (A B : DNF) : DNF := A.flatMap fun P => B.map fun Q => P ++ Q

/-- every disjunct constrained by the rows `cs` -/
def dnfAddCons (A : DNF) (cs : List Con) : DNF := A.map fun P => P ++ cs

/-- rows relaxed in every (feasible) disjunct: the closure of the union -/
def dnfRelax (n : Nat) (A : DNF) : DNF := (A.filter (feasible n)).map relax

def dnfWF (n : Nat) (A : DNF) : Bool := A.all (wfB n)

end PPLV.Powerset
