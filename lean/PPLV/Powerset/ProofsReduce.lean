import PPLV.Powerset.ProofsCover

/-!
# C09 — `pairwise_reduce` keeps the union; `simplify_using_context_assign` keeps the meet with the
context and never adds disjuncts
-/
namespace PPLV.Powerset
open PPLV

variable (d : PolyDom)

/-! ### `pairwise_reduce` -/

/-- the unmarked disjuncts of a marked sequence -/
def unm (l : List (d.D × Bool)) : List d.D := (l.filter fun e => !e.2).map (·.1)

@[simp] theorem unm_nil : unm d [] = [] := rfl
@[simp] theorem unm_cons_true (x : d.D) (l : List (d.D × Bool)) : unm d ((x, true) :: l) = unm d l := by
  simp [unm]
@[simp] theorem unm_cons_false (x : d.D) (l : List (d.D × Bool)) : unm d ((x, false) :: l) = x :: unm d l := by
  simp [unm]

theorem unm_map_false (s : List d.D) : unm d (s.map fun x => (x, false)) = s := by
  induction s with
  | nil => rfl
  | cons x s ih => simp [ih]

theorem markFirstExact_U (pi : d.D) (r : List (d.D × Bool)) (u : d.D) (r' : List (d.D × Bool))
    (h : markFirstExact d pi r = some (u, r')) (p : Pt) :
    (d.γ u p ∨ d.U (unm d r') p) ↔ (d.γ pi p ∨ d.U (unm d r) p) := by
  induction r generalizing r' with
  | nil => simp [markFirstExact] at h
  | cons e r ih =>
    obtain ⟨pj, m⟩ := e
    cases m with
    | true =>
      simp only [markFirstExact, Option.map_eq_some_iff] at h
      obtain ⟨w, hw, heq⟩ := h
      obtain ⟨rfl, rfl⟩ := Prod.mk.inj heq
      simp only [unm_cons_true]
      exact ih w.2 hw
    | false =>
      simp only [markFirstExact] at h
      cases hub : d.ubIfExact pi pj with
      | some v =>
        simp only [hub, Option.some.injEq] at h
        obtain ⟨rfl, rfl⟩ := Prod.mk.inj h
        have := d.ubIfExact_spec pi pj v hub p
        simp only [unm_cons_true, unm_cons_false, U_cons, this]
        constructor
        · rintro ((h | h) | h)
          · exact Or.inl h
          · exact Or.inr (Or.inl h)
          · exact Or.inr (Or.inr h)
        · rintro (h | h | h)
          · exact Or.inl (Or.inl h)
          · exact Or.inl (Or.inr h)
          · exact Or.inr h
      | none =>
        simp only [hub, Option.map_eq_some_iff] at h
        obtain ⟨w, hw, heq⟩ := h
        obtain ⟨rfl, rfl⟩ := Prod.mk.inj heq
        have := ih w.2 hw
        simp only [unm_cons_false, U_cons]
        constructor
        · rintro (h | h | h)
          · rcases this.mp (Or.inl h) with h | h
            · exact Or.inl h
            · exact Or.inr (Or.inr h)
          · exact Or.inr (Or.inl h)
          · rcases this.mp (Or.inr h) with h | h
            · exact Or.inl h
            · exact Or.inr (Or.inr h)
        · rintro (h | h | h)
          · rcases this.mpr (Or.inl h) with h | h
            · exact Or.inl h
            · exact Or.inr (Or.inr h)
          · exact Or.inr (Or.inl h)
          · rcases this.mpr (Or.inr h) with h | h
            · exact Or.inl h
            · exact Or.inr (Or.inr h)

theorem mergeRound_U (f : Nat) (xs : List (d.D × Bool)) (un nx : List d.D) (k : Nat) (p : Pt) :
    (d.U (mergeRound d f xs un nx k).1 p ∨ d.U (mergeRound d f xs un nx k).2.1 p) ↔
      (d.U un p ∨ d.U nx p ∨ d.U (unm d xs) p) := by
  induction f generalizing xs un nx k with
  | zero =>
    simp only [mergeRound, U_append]
    change (d.U un p ∨ d.U (unm d xs) p) ∨ d.U nx p ↔ _
    constructor
    · rintro ((h | h) | h)
      · exact Or.inl h
      · exact Or.inr (Or.inr h)
      · exact Or.inr (Or.inl h)
    · rintro (h | h | h)
      · exact Or.inl (Or.inl h)
      · exact Or.inr h
      · exact Or.inl (Or.inr h)
  | succ f ih =>
    cases xs with
    | nil => simp [mergeRound]
    | cons e r =>
      obtain ⟨pi, m⟩ := e
      cases m with
      | true => simp only [mergeRound, unm_cons_true]; exact ih r un nx k
      | false =>
        simp only [mergeRound]
        cases hm : markFirstExact d pi r with
        | some w =>
          obtain ⟨u, r'⟩ := w
          simp only
          rw [ih, addNBwhole_U]
          have := markFirstExact_U d pi r u r' hm p
          simp only [unm_cons_false, U_cons]
          constructor
          · rintro (h | (h | h) | h)
            · exact Or.inl h
            · exact Or.inr (Or.inl h)
            · rcases this.mp (Or.inl h) with h | h
              · exact Or.inr (Or.inr (Or.inl h))
              · exact Or.inr (Or.inr (Or.inr h))
            · rcases this.mp (Or.inr h) with h | h
              · exact Or.inr (Or.inr (Or.inl h))
              · exact Or.inr (Or.inr (Or.inr h))
          · rintro (h | h | h | h)
            · exact Or.inl h
            · exact Or.inr (Or.inl (Or.inl h))
            · rcases this.mpr (Or.inl h) with h | h
              · exact Or.inr (Or.inl (Or.inr h))
              · exact Or.inr (Or.inr h)
            · rcases this.mpr (Or.inr h) with h | h
              · exact Or.inr (Or.inl (Or.inr h))
              · exact Or.inr (Or.inr h)
        | none =>
          simp only
          rw [ih]
          simp only [unm_cons_false, U_cons, U_append, U_nil, or_false]
          constructor
          · rintro ((h | h) | h | h)
            · exact Or.inl h
            · exact Or.inr (Or.inr (Or.inl h))
            · exact Or.inr (Or.inl h)
            · exact Or.inr (Or.inr (Or.inr h))
          · rintro (h | h | h | h)
            · exact Or.inl (Or.inl h)
            · exact Or.inr (Or.inl h)
            · exact Or.inl (Or.inr h)
            · exact Or.inr (Or.inr h)

theorem pairwiseRound_U (s : List d.D) (p : Pt) : d.U (pairwiseRound d s).1 p ↔ d.U s p := by
  unfold pairwiseRound
  simp only
  have h1 := foldl_addNB_U d.toDom (mergeRound d s.length (s.map fun x => (x, false)) [] [] 0).1 []
    (mergeRound d s.length (s.map fun x => (x, false)) [] [] 0).2.1 p
  simp only at h1
  rw [h1, List.nil_append]
  have h2 := mergeRound_U d s.length (s.map fun x => (x, false)) [] [] 0 p
  rw [unm_map_false] at h2
  simp only [U_nil, false_or] at h2
  rw [← h2]
  exact or_comm

theorem pairwiseLoop_U (f : Nat) (s : List d.D) (p : Pt) : d.U (pairwiseLoop d f s) p ↔ d.U s p := by
  induction f generalizing s with
  | zero => rfl
  | succ f ih =>
    simp only [pairwiseLoop]
    by_cases h : (pairwiseRound d s).2 > 0
    · simp only [h, if_true]; rw [ih, pairwiseRound_U]
    · simp only [h, if_false]; exact pairwiseRound_U d s p

/-- **`pairwise_reduce` does not change the union** -/
theorem pairwiseReduce_U (x : PS d.toDom) (p : Pt) :
    d.U (pairwiseReduce d false x).seq p ↔ d.U x.seq p := by
  unfold pairwiseReduce
  simp only
  rw [pairwiseLoop_U, omegaReduce_U]

/-! ### `simplify_using_context_assign` -/

/-- invariant of `intersection_preserving_enlarge_element` after the context disjuncts `done` -/
structure EnlInv (dest : d.D) (done : List d.D) (st : d.D × Bool) : Prop where
  enl : ∀ p, d.γ dest p → d.γ st.1 p
  meet : ∀ ci ∈ done, ∀ p, d.γ st.1 p → d.γ ci p → d.γ dest p
  empty : st.2 = false → ∀ ci ∈ done, ∀ p, ¬ (d.γ dest p ∧ d.γ ci p)

theorem enlarge_fold (dest : d.D) (ctx done : List d.D) (st : d.D × Bool) (h : EnlInv d dest done st) :
    EnlInv d dest (done ++ ctx)
      (ctx.foldl (fun (st : d.D × Bool) ci =>
        (d.meet st.1 (d.simplify dest (d.meet ci st.1)).1, st.2 || (d.simplify dest (d.meet ci st.1)).2)) st) := by
  induction ctx generalizing done st with
  | nil => simpa using h
  | cons ci ctx ih =>
    simp only [List.foldl_cons]
    have key : EnlInv d dest (done ++ [ci])
        (d.meet st.1 (d.simplify dest (d.meet ci st.1)).1, st.2 || (d.simplify dest (d.meet ci st.1)).2) := by
      refine ⟨?_, ?_, ?_⟩
      · intro p hp
        exact (d.meet_exact _ _ p).mpr ⟨h.enl p hp, d.simplify_enl dest _ p hp⟩
      · intro cj hcj p hp hc
        obtain ⟨hp1, hp2⟩ := (d.meet_exact _ _ p).mp hp
        rcases List.mem_append.mp hcj with hcj | hcj
        · exact h.meet cj hcj p hp1 hc
        · rw [List.mem_singleton] at hcj
          subst hcj
          have hctx : d.γ (d.meet cj st.1) p := (d.meet_exact _ _ p).mpr ⟨hc, hp1⟩
          exact ((d.simplify_meet dest _ p).mp ⟨hp2, hctx⟩).1
      · intro hb cj hcj p hp
        simp only [Bool.or_eq_false_iff] at hb
        rcases List.mem_append.mp hcj with hcj | hcj
        · exact h.empty hb.1 cj hcj p hp
        · rw [List.mem_singleton] at hcj
          subst hcj
          have hctx : d.γ (d.meet cj st.1) p := (d.meet_exact _ _ p).mpr ⟨hp.2, h.enl p hp.1⟩
          exact d.simplify_false dest _ hb.2 p ⟨hp.1, hctx⟩
    have := ih (done ++ [ci]) _ key
    simpa using this

theorem enlargeElement_spec (ctx : List d.D) (dest : d.D) :
    EnlInv d dest ctx (enlargeElement d ctx dest) := by
  have h0 : EnlInv d dest [] (d.top, false) := by
    refine ⟨fun p _ => d.top_spec p, ?_, ?_⟩
    · intro ci hci; simp at hci
    · intro _ ci hci; simp at hci
  have := enlarge_fold d dest ctx [] (d.top, false) h0
  simpa [enlargeElement, enlargeElementWith] using this

/-- the meet of the enlarged element with the whole context is the meet of the original one -/
theorem enlargeElement_meet (ctx : List d.D) (dest : d.D) (p : Pt) :
    (d.γ (enlargeElement d ctx dest).1 p ∧ d.U ctx p) ↔ (d.γ dest p ∧ d.U ctx p) := by
  have h := enlargeElement_spec d ctx dest
  constructor
  · rintro ⟨h1, ci, hci, h2⟩
    exact ⟨h.meet ci hci p h1 h2, ci, hci, h2⟩
  · rintro ⟨h1, h2⟩
    exact ⟨h.enl p h1, h2⟩

theorem enlargeElement_false (ctx : List d.D) (dest : d.D) (hb : (enlargeElement d ctx dest).2 = false)
    (p : Pt) : ¬ (d.γ dest p ∧ d.U ctx p) := by
  rintro ⟨h1, ci, hci, h2⟩
  exact (enlargeElement_spec d ctx dest).empty hb ci hci p ⟨h1, h2⟩

/-- generic step: a disjunct-wise meet-preserving map that drops only disjuncts whose meet with
    the context is empty preserves the meet of the unions -/
theorem filterMap_meet (f : d.D → d.D × Bool) (C : Pt → Prop)
    (hm : ∀ a p, (d.γ (f a).1 p ∧ C p) ↔ (d.γ a p ∧ C p))
    (hf : ∀ a, (f a).2 = false → ∀ p, ¬ (d.γ a p ∧ C p)) (xs : List d.D) (p : Pt) :
    (d.U (xs.filterMap fun xi => if (f xi).2 then some (f xi).1 else none) p ∧ C p) ↔ (d.U xs p ∧ C p) := by
  constructor
  · rintro ⟨⟨r, hr, hp⟩, hc⟩
    obtain ⟨a, ha, hfa⟩ := List.mem_filterMap.mp hr
    by_cases hb : (f a).2 = true
    · simp only [hb, if_true, Option.some.injEq] at hfa
      subst hfa
      exact ⟨⟨a, ha, ((hm a p).mp ⟨hp, hc⟩).1⟩, hc⟩
    · simp [hb] at hfa
  · rintro ⟨⟨a, ha, hp⟩, hc⟩
    cases hb : (f a).2 with
    | false => exact absurd ⟨hp, hc⟩ (hf a hb p)
    | true =>
      refine ⟨⟨(f a).1, List.mem_filterMap.mpr ⟨a, ha, by simp [hb]⟩, ((hm a p).mpr ⟨hp, hc⟩).1⟩, hc⟩

theorem all_isBottom_U (s : List d.D) (h : s.all d.isBottom = true) (p : Pt) : ¬ d.U s p := by
  rintro ⟨a, ha, hp⟩
  exact d.isBottom_sound a (List.all_eq_true.mp h a ha) p hp

/-- **`simplify_using_context_assign`: the meet with the context is preserved** -/
theorem simplifyCtx_meet (x y : PS d.toDom) (p : Pt) :
    (d.U (simplifyCtx d false x y).1.seq p ∧ d.U y.seq p) ↔ (d.U x.seq p ∧ d.U y.seq p) := by
  unfold simplifyCtx
  simp only
  by_cases hx : (omegaReduce d.toDom false x).seq.all d.isBottom = true
  · simp only [hx, if_true]
    rw [omegaReduce_U]
  · simp only [hx, if_false, Bool.false_eq_true]
    by_cases hy : (omegaReduce d.toDom false y).seq.all d.isBottom = true
    · simp only [hy, if_true]
      have := all_isBottom_U d _ hy p
      rw [omegaReduce_U] at this
      constructor
      · exact fun h => absurd h.2 this
      · exact fun h => absurd h.2 this
    · simp only [hy, if_false, Bool.false_eq_true]
      rw [← omegaReduce_U d.toDom y p, ← omegaReduce_U d.toDom x p]
      generalize (omegaReduce d.toDom false y).seq = ys
      generalize (omegaReduce d.toDom false x).seq = xs
      have general := filterMap_meet d (fun xi => enlargeElement d ys xi) (d.U ys)
          (fun a p => enlargeElement_meet d ys a p) (fun a hb p => enlargeElement_false d ys a hb p) xs p
      match ys with
      | [] => exact general
      | [yi] =>
        have := filterMap_meet d (fun xi => d.simplify xi yi) (d.γ yi)
          (fun a p => d.simplify_meet a yi p) (fun a hb p => d.simplify_false a yi hb p) xs p
        simpa using this
      | _ :: _ :: _ => exact general

theorem length_filterMap_le' {α β} (f : α → Option β) (l : List α) : (l.filterMap f).length ≤ l.length :=
  List.length_filterMap_le f l

/-- **… and the number of disjuncts is not increased** (`y` in a state satisfying the class
    invariant "flag set ⇒ no empty disjunct", which `OK()` checks) -/
theorem simplifyCtx_length (x y : PS d.toDom)
    (hy : y.reduced = true → ∀ a ∈ y.seq, d.isBottom a = false) :
    (simplifyCtx d false x y).1.seq.length ≤ x.seq.length := by
  have hx := omegaReduce_length d.toDom x
  unfold simplifyCtx
  simp only
  by_cases h1 : (omegaReduce d.toDom false x).seq.all d.isBottom = true
  · simp only [h1, if_true]; exact hx
  · simp only [h1, if_false, Bool.false_eq_true]
    by_cases h2 : (omegaReduce d.toDom false y).seq.all d.isBottom = true
    · simp only [h2, if_true]
      -- an omega-reduced sequence all of whose disjuncts are bottom is empty
      have : (omegaReduce d.toDom false y).seq = [] := by
        cases hl : (omegaReduce d.toDom false y).seq with
        | nil => rfl
        | cons a as =>
          exfalso
          have hab : d.isBottom a = true := by
            have := List.all_eq_true.mp h2 a (by rw [hl]; exact List.mem_cons_self)
            exact this
          have hmem : a ∈ (omegaReduce d.toDom false y).seq := by rw [hl]; exact List.mem_cons_self
          have : d.isBottom a = false := by
            unfold omegaReduce at hmem
            by_cases hr : y.reduced = true
            · simp only [hr, if_true] at hmem
              exact hy hr a hmem
            · simp only [hr, if_false, Bool.false_eq_true] at hmem
              have := omegaLoop_mem d.toDom _ [] _ a hmem
              simp only [List.nil_append, List.mem_filter, Bool.not_eq_true'] at this
              exact this.2
          rw [hab] at this; cases this
      rw [this]; exact Nat.zero_le _
    · simp only [h2, if_false, Bool.false_eq_true]
      split
      · exact Nat.le_trans (List.length_filterMap_le _ _) hx
      · exact Nat.le_trans (List.length_filterMap_le _ _) hx

/-- `false` is returned only when the meet is empty -/
theorem simplifyCtx_false (x y : PS d.toDom) (h : (simplifyCtx d false x y).2.2 = false) (p : Pt) :
    ¬ (d.U x.seq p ∧ d.U y.seq p) := by
  rw [← simplifyCtx_meet d x y p]
  revert h
  unfold simplifyCtx
  simp only
  by_cases hx : (omegaReduce d.toDom false x).seq.all d.isBottom = true
  · simp only [hx, if_true]
    intro _ h
    exact all_isBottom_U d _ hx p h.1
  · simp only [hx, if_false, Bool.false_eq_true]
    by_cases hy : (omegaReduce d.toDom false y).seq.all d.isBottom = true
    · simp only [hy, if_true]
      intro _ h
      exact all_isBottom_U d _ hy p h.1
    · simp only [hy, if_false, Bool.false_eq_true, Bool.not_eq_false']
      intro he h
      rw [List.isEmpty_iff] at he
      rw [he] at h
      simp at h

end PPLV.Powerset
