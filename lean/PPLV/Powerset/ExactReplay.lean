import PPLV.Lin.Parse
import PPLV.Powerset.DNF
import PPLV.Powerset.Exact

/-!
# C09 stage 2 — replay of the code-shaped model on the journalled disjunct LISTS (no Mathlib)

`harness/c09_powerset.cc --exact 1` prints, around every step of a history (constructor, mutator,
query), the sequence of every slot (each disjunct as a constraint system, in `std::list` order; for
polyhedra also its minimized generators) and the `reduced` flag, read without touching the objects:
`xb` (before), `xo` (the operation lines), `xe` (oracles of representation: constraint order for
`difference_assign`), `xa` (after).  Here the model `PPLV.Powerset.Exact` is run on the `xb` state
with the K1 deciders as base domain (`k1ops`) and the result is compared with the `xa` state:
same dimension, same flag, same length, disjunct `i` equal **as a set** (`equivB`) to disjunct `i`.

The upper bound of two polyhedra is computed from the journalled generators, which are first
verified against the constraints (`checkDD`, proved `checkDD_iff_genSem`); `upper_bound_assign_if_exact`
is "the hull is contained in the union of the two" (`dnfSubsetF`, proved `C09.dnfSubsetF_iff`).
-/
namespace PPLV.Powerset.Replay
open PPLV PPLV.Lin PPLV.Powerset.Exact

/-- a base-level element: constraint rows, verified generators when known -/
structure E where
  n : Nat
  cs : List Con
  gs : Option (List Gen) := none
  /-- the generators have been verified against `cs` (or `cs` was computed from them) -/
  gv : Bool := false
  /-- the constraints in the library's order (only for the argument of `difference_assign`) -/
  lc : List LCon := []
  /-- an oracle (generators) was missing on the way to this element -/
  bad : Bool := false
  /-- the model asked for a widening the library did not journal -/
  miss : Bool := false
deriving Inhabited

def lrowsX (c : LCon) : List Con :=
  match c.rel with
  | .eq => eqRows c.coeffs c.k
  | .ge => [geRow c.coeffs c.k]
  | .gt => [gtRow c.coeffs c.k]

def smallCS (n : Nat) (cs : List Con) : List Con :=
  if cs.length ≤ 10 then cs else dropRedundant n [] (tidy cs)

def maxHullGens : Nat := 14

/-- the generators of an element, verified (`checkDD`: they denote the same set as the constraints) -/
def gensOf (n : Nat) (a : E) : Option (List Gen) :=
  match a.gs with
  | some g => if a.gv || (gensWF n g && checkDD n a.cs g) then some g else none
  | none => none

def hullE (n : Nat) (a b : E) : E :=
  if a.bad || b.bad then { n := n, cs := [], bad := true }
  else match gensOf n a, gensOf n b with
    | some ga, some gb =>
      let g := ga ++ gb
      if g.length > maxHullGens then { n := n, cs := [], bad := true }
      else { n := n, cs := smallCS n (gensToCons n g), gs := some g, gv := true }
    | _, _ => { n := n, cs := [], bad := true }

/-- the K1 kernel as base domain of dimension `n` -/
def k1ops (n : Nat) : PolyOps where
  D := E
  leq a b := subsetB n a.cs b.cs
  isBottom a := !feasible n a.cs
  join a b := hullE n a b
  meet a b := { n := n, cs := a.cs ++ b.cs, bad := a.bad || b.bad }
  eqv a b := equivB n a.cs b.cs
  contains a b := subsetB n b.cs a.cs
  disjoint a b := !feasible n (a.cs ++ b.cs)
  top := { n := n, cs := [] }
  isTop a := subsetB n [] a.cs
  cons a := a.lc
  addCon a c := { n := n, cs := a.cs ++ lrowsX c, bad := a.bad }
  ubIfExact a b :=
    let h := hullE n a b
    if h.bad then some h
    else if dnfSubsetF n [h.cs] [a.cs, b.cs] then some h else none
  simplify a _ := (a, true)

structure Slot where
  n : Nat
  ps : PS E

instance : Inhabited Slot := ⟨⟨0, ⟨[], true⟩⟩⟩

abbrev Slots := Array (Option Slot)

/-! ### parsing -/

def parseLCon (n : Nat) : List String → LCon × List String
  | rel :: k :: rest =>
    let (cf, r) := takeInts n rest
    (⟨cf, tokInt k, if rel == "=" then .eq else if rel == ">" then .gt else .ge⟩, r)
  | _ => (default, [])

def parseLCS (n : Nat) : List String → List LCon × List String
  | m :: rest =>
    let rec go : Nat → List String → List LCon → List LCon × List String
      | 0, ts, acc => (acc, ts)
      | k+1, ts, acc => let (c, ts') := parseLCon n ts; go k ts' (acc ++ [c])
    go (tokNat m) rest []
  | [] => ([], [])

/-- one disjunct of a snapshot: `cs` then `g gs` or `-`; the generators are kept only if they
    verifiably denote the constraints -/
def parseDisjunct (n : Nat) (ts : List String) : E × List String :=
  let (cs, r) := parseCS n ts
  match r with
  | "g" :: r' =>
    let (gs, r'') := parseGS n r'
    ({ n := n, cs := cs, gs := if gs.length ≤ maxHullGens then some gs else none }, r'')
  | "-" :: r' => ({ n := n, cs := cs }, r')
  | _ => ({ n := n, cs := cs }, r)

def parseSlot (ts : List String) : Option Slot × List String :=
  match ts with
  | "1" :: n :: fl :: k :: rest =>
    let nn := tokNat n
    let rec go : Nat → List String → List E → List E × List String
      | 0, ts, acc => (acc, ts)
      | k+1, ts, acc => let (e, ts') := parseDisjunct nn ts; go k ts' (acc ++ [e])
    let (ds, r) := go (tokNat k) rest []
    (some ⟨nn, ⟨ds, fl == "1"⟩⟩, r)
  | _ :: rest => (none, rest)
  | [] => (none, [])

def parseSlots (ts : List String) : Slots :=
  let (s0, r0) := parseSlot ts
  let (s1, r1) := parseSlot r0
  let (s2, r2) := parseSlot r1
  let (s3, _) := parseSlot r2
  #[s0, s1, s2, s3]

/-! ### the expected state -/

/-- how much of a slot is compared -/
inductive Mode
  | full                    -- dimension, flag, length, every disjunct as a set
  | flagLen                 -- flag and length (a base-level operator without exact reference)
  | flagLe (m : Nat)        -- flag, length ≤ m
  | skip
deriving Inhabited

structure Exp where
  slots : Slots
  modes : Array Mode := #[.full, .full, .full, .full]
  note : String := ""

def mapE (n : Nat) (nnc : Bool) (f : RefPoly → RefPoly) (e : E) : E :=
  let r := f ⟨nnc, n, e.cs⟩
  { n := r.n, cs := r.cs, bad := e.bad }

def newDim (n : Nat) (nnc : Bool) (f : RefPoly → RefPoly) : Nat := (f ⟨nnc, n, [falseRow]⟩).n

def pairsOf : List String → List (Nat × Nat)
  | a :: b :: r => (tokNat a, tokNat b) :: pairsOf r
  | _ => []

def setS (S : Slots) (i : Nat) (s : Slot) : Slots := S.setIfInBounds i (some s)
def setM (M : Array Mode) (i : Nat) (m : Mode) : Array Mode := M.setIfInBounds i m

/-- the closure of a (non-empty) NNC polyhedron, as `C_Polyhedron(const NNC_Polyhedron&)` builds it -/
def closureE (n : Nat) (e : E) : E :=
  if !feasible n e.cs then { n := n, cs := [falseRow], bad := e.bad }
  else { n := n, cs := e.cs.map fun c => { c with strict := false }, bad := e.bad }

/-- attach the library's constraint order to the disjuncts of the reduced argument of
    `difference_assign`; `none` if the oracle does not denote the same disjuncts -/
def attachCons (n : Nat) (y1 : List E) (oracle : List (List LCon)) : Option (List E) :=
  if y1.length != oracle.length then none
  else
    let zs := y1.zip oracle
    if zs.all (fun (e, lc) => equivB n e.cs (lc.flatMap lrowsX)) then
      some (zs.map fun (e, lc) => { e with lc := lc })
    else none

/-- expected state after a mutator -/
def expectOp (dom : String) (B : Slots) (s : Nat) (name : String) (args : List String)
    (ycons : Option (List (List LCon))) (each : Bool)
    (widens : List (List Con × List Con × List Con) := []) : Except String Exp := do
  let nnc := dom == "N"
  let poly := dom == "C" || dom == "N"
  let some X := B.getD s none | throw "dead-slot"
  let n := X.n
  -- the deciders only need a bound on the variables mentioned: the largest dimension of any slot
  let o := k1ops (B.foldl (fun m z => match z with | some z => max m z.n | none => m) n)
  let x := X.ps
  let other (t : String) : Except String Slot :=
    match B.getD (tokNat t) none with
    | some q => pure q
    | none => throw "dead-argument"
  let unaryN (ps : PS E) (n' : Nat) : Exp := { slots := setS B s ⟨n', ps⟩ }
  let unary (ps : PS E) : Exp := unaryN ps n
  let inexact (e : Exp) (m : Mode) : Exp := if poly then e else { e with modes := setM e.modes s m }
  let tr (f : RefPoly → RefPoly) (kind : Nat) : Exp :=
    let g := mapE n nnc f
    let ps := match kind with
      | 0 => mapSetFlag o.toOps g x
      | 1 => mapLoopFlag o.toOps g x
      | _ => mapKeepFlag o.toOps g x
    unaryN ps (newDim n nnc f)
  match name, args with
  | "omega_reduce", _ => pure (unary (omegaReduce o.toOps false x))
  | "pairwise_reduce", _ =>
    pure (inexact (unary (pairwiseReduce o false x)) (.flagLe (omegaReduce o.toOps false x).seq.length))
  | "collapse", _ => pure (inexact (unary (collapse o.toOps x)) (.flagLe 1))
  | "collapse_max", m :: _ =>
    pure (inexact (unary (collapseMax o.toOps false (tokNat m) x)) (.flagLe (max (tokNat m) 1)))
  | "add_disjunct", a => pure (unary (addDisjunct o.toOps x { n := n, cs := (parseCS n a).1 }))
  | "meet", [t] => do
    let Y ← other t
    let r := meetAssign o.toOps false x Y.ps
    if tokNat t == s then pure (unary r.1)
    else pure { slots := setS (setS B s ⟨n, r.1⟩) (tokNat t) ⟨n, r.2⟩ }
  | "ub", [t] => do
    let Y ← other t
    let r := lub o.toOps false x Y.ps
    if tokNat t == s then pure (unary r.1)
    else pure { slots := setS (setS B s ⟨n, r.1⟩) (tokNat t) ⟨n, r.2⟩ }
  | "diff", [t] => do
    let Y ← other t
    if !poly then
      -- through NNC copies and back: only the flag is replayed; the argument is untouched
      pure { slots := setS B s ⟨n, ⟨[], false⟩⟩, modes := setM #[.full, .full, .full, .full] s (.flagLe 1000000) }
    else
      let some oracle := ycons | throw "no-ycons"
      let y1 := omegaReduce o.toOps false Y.ps
      let some yl := attachCons n y1.seq oracle | throw "ORACLE ycons does not denote the reduced argument"
      let r := psDiff o false x ⟨yl, true⟩
      if nnc then
        if tokNat t == s then pure (unary r.1)
        else pure { slots := setS (setS B s ⟨n, r.1⟩) (tokNat t) ⟨n, y1⟩ }
      else
        -- C_Polyhedron: the argument itself is untouched; every piece is closed
        pure (unary ⟨r.1.seq.map (closureE n), false⟩)
  | "bgp99", [t, mx] => do
    -- `BGP99_extrapolation_assign(y, widen, max)`: pairwise_reduce, collapse(max), BGP99_heuristics_assign;
    -- the widening is the journalled function (looked up by its two arguments as sets)
    let Y ← other t
    let w (a b : E) : E :=
      match widens.find? (fun (ca, cb, _) => equivB n a.cs ca && equivB n b.cs cb) with
      | some (_, _, r) => { n := n, cs := r }
      | none => { n := n, cs := [], miss := true }
    let x1 := pairwiseReduce o false x
    let x2 := if tokNat mx != 0 then collapseMax o.toOps false (tokNat mx) x1 else x1
    if x2.seq.any (·.bad) then throw "no-generators"
    let calls := (x2.seq.flatMap fun pi => Y.ps.seq.filter fun pj => o.contains pi pj).length
    if calls != widens.length then
      throw s!"ORACLE widening calls model={calls} library={widens.length}"
    let r := bgp99ExtrapolationAssign o w (tokNat mx) x Y.ps
    if r.seq.any (·.miss) then throw "ORACLE the model widens a pair the library did not widen"
    pure (unary r)
  | "add_cons", a =>
    let rows := (parseCS n a).1
    -- no call at all when the system has no (non-trivial) row and the rows are added one by one
    if each && rows.isEmpty then pure (unary x) else pure (tr (fun p => p.addCons rows) 0)
  | "closure", _ => pure (tr (fun p => p.closure) 0)
  | "aff_img", v :: d :: a =>
    pure (inexact (tr (fun p => p.affineImage (tokNat v) (parseExpr n a).1 (tokInt d)) 1) .flagLen)
  | "aff_pre", v :: d :: a =>
    pure (inexact (tr (fun p => p.affinePreimage (tokNat v) (parseExpr n a).1 (tokInt d)) 1) .flagLen)
  | "add_dims_embed", [m] => pure (tr (fun p => p.addDimsEmbed (tokNat m)) 2)
  | "add_dims_project", [m] => pure (tr (fun p => p.addDimsProject (tokNat m)) 2)
  | "expand", [v, m] => pure (tr (fun p => p.expandDim (tokNat v) (tokNat m)) 2)
  | "remove_dims", _ :: vs => pure (tr (fun p => p.removeDims (vs.map tokNat)) 1)
  | "remove_higher", [m] => pure (tr (fun p => p.removeHigherDims (tokNat m)) 1)
  | "map_dims", nOut :: _ :: prs =>
    let f : RefPoly → RefPoly := fun p => p.mapDims (tokNat nOut) (pairsOf prs)
    let x1 := omegaReduce o.toOps false x
    -- an empty powerset only counts the mapped dimensions (all of them for a permutation)
    pure (unaryN (mapSpaceDimensions o.toOps false (mapE n nnc f) x) (if x1.seq.isEmpty then tokNat nOut else newDim n nnc f))
  | "fold", _ =>
    let e := unaryN (foldDims o.toOps true id x) (n - 1)
    pure { e with modes := setM e.modes s .flagLen }
  | "concat", [t] => do
    let Y ← other t
    let conc (a b : E) : E :=
      let r := RefPoly.concat ⟨nnc, n, a.cs⟩ ⟨nnc, Y.n, b.cs⟩
      { n := r.n, cs := r.cs }
    let r := concatenateAssign o.toOps conc x Y.ps
    -- the argument is a local copy: the slot itself keeps its representation
    pure (unaryN r.1 (n + Y.n))
  | "simplify", t :: _ => do
    let Y ← other t
    if tokNat t == s then throw "aliased-simplify"
    let x1 := omegaReduce o.toOps false x
    if x1.seq.isEmpty then pure (unary x1)
    else
      let y1 := omegaReduce o.toOps false Y.ps
      if y1.seq.isEmpty then pure { slots := setS (setS B s ⟨n, y1⟩) (tokNat t) ⟨n, y1⟩ }
      else
        pure { slots := setS (setS B s ⟨n, ⟨[], false⟩⟩) (tokNat t) ⟨n, y1⟩,
               modes := setM #[.full, .full, .full, .full] s (.flagLe x1.seq.length) }
  | _, _ => throw s!"unknown-op {name}"

/-- expected state after a query (the const methods that reduce) -/
def expectQuery (_dom : String) (B : Slots) (s : Nat) (qn : String) (args : List String) : Except String Exp := do
  let some X := B.getD s none | throw "dead-slot"
  let n := X.n
  let o := k1ops n
  let red (S : Slots) (i : Nat) : Slots :=
    match S.getD i none with
    | some Z => setS S i ⟨Z.n, omegaReduce o.toOps false Z.ps⟩
    | none => S
  if qn == "is_universe" then pure { slots := setS B s ⟨n, (isUniverse o X.ps).2⟩ }
  else if ["bounds_above", "bounds_below", "max", "min"].contains qn then pure { slots := red B s }
  else if qn == "strictly_contains" || qn == "equals" then
    pure { slots := red (red B s) (tokNat (args.headD "0")) }
  else pure { slots := B }

/-! ### comparison -/

def cmpSlot (i : Nat) (m : Mode) (e a : Option Slot) : Option String :=
  match m, e, a with
  | .skip, _, _ => none
  | _, none, none => none
  | _, some _, none => some s!"slot {i}: the library has no object, the model has one"
  | _, none, some _ => some s!"slot {i}: the library has an object, the model has none"
  | m, some e, some a =>
    if e.ps.reduced != a.ps.reduced then
      -- is the library's claim sound on its own list?  (`check_omega_reduced` with the K1 deciders)
      let sound := !a.ps.reduced || checkOmegaReduced (k1ops a.n).toOps a.ps.seq
      some s!"slot {i}: reduced flag model={e.ps.reduced} library={a.ps.reduced} library_flag_sound={sound}"
    else match m with
      | .flagLen =>
        if e.ps.seq.length != a.ps.seq.length then
          some s!"slot {i}: length model={e.ps.seq.length} library={a.ps.seq.length}" else none
      | .flagLe k =>
        if a.ps.seq.length > k then some s!"slot {i}: length library={a.ps.seq.length} exceeds {k}" else none
      | _ =>
        if e.n != a.n then some s!"slot {i}: dimension model={e.n} library={a.n}"
        else if e.ps.seq.length != a.ps.seq.length then
          let same := dnfEquivF e.n (e.ps.seq.map (·.cs)) (a.ps.seq.map (·.cs))
          some s!"slot {i}: length model={e.ps.seq.length} library={a.ps.seq.length} union_equal={same}"
        else
          let zs := (e.ps.seq.zip a.ps.seq).zipIdx
          match zs.find? (fun ((x, y), _) => !(x.cs == y.cs || equivB e.n x.cs y.cs)) with
          | some (_, j) =>
            let same := dnfEquivF e.n (e.ps.seq.map (·.cs)) (a.ps.seq.map (·.cs))
            let perm := (e.ps.seq.all fun x => a.ps.seq.any fun y => equivB e.n x.cs y.cs)
              && (a.ps.seq.all fun y => e.ps.seq.any fun x => equivB e.n x.cs y.cs)
            some s!"slot {i}: disjunct {j} of {e.ps.seq.length} differs as a set union_equal={same} same_disjuncts_other_order={perm}"
          | none => none

/-- a missing oracle only matters where the list itself is compared -/
def anyBad (e : Exp) : Bool :=
  (List.range 4).any fun i =>
    match e.modes.getD i .full, e.slots.getD i none with
    | .full, some z => z.ps.seq.any (·.bad)
    | _, _ => false

def compareAll (e : Exp) (A : Slots) : Option String :=
  (List.range 4).findSome? fun i => cmpSlot i (e.modes.getD i .full) (e.slots.getD i none) (A.getD i none)

/-! ### one step -/

structure Step where
  dom : String := "C"
  before : Slots := #[none, none, none, none]
  ops : List (List String) := []
  ycons : Option (List (List LCon)) := none
  /-- `add_constraint` called once per (non-trivial) constraint instead of `add_constraints` -/
  each : Bool := false
  /-- the journalled calls of the widening functor: first argument, second argument, result -/
  widens : List (List Con × List Con × List Con) := []

def buildNew (ts : List String) : Option (Nat × Slot) :=
  match ts with
  | "new" :: s :: n :: k :: rest =>
    let nn := tokNat n
    let rec go : Nat → List String → List E → List E
      | 0, _, acc => acc
      | k+1, ts, acc => let (cs, ts') := parseCS nn ts; go k ts' (acc ++ [{ n := nn, cs := cs }])
    let ds := go (tokNat k) rest []
    some (tokNat s, ⟨nn, ⟨ds, ds.isEmpty⟩⟩)
  | ["newu", s, n] => some (tokNat s, ⟨tokNat n, ⟨[{ n := tokNat n, cs := [] }], true⟩⟩)
  | ["newe", s, n] => some (tokNat s, ⟨tokNat n, ⟨[], true⟩⟩)
  | _ => none

/-- the expected state of a whole step: the LAST structural line decides (a `collapse_max` is
    preceded by an `omega_reduce` of the same slot: `collapse(max)` reduces anyway) -/
def expectStep (st : Step) : Except String Exp := do
  let B := st.before
  if st.ops.any (fun l => l.headD "" == "exc") then throw "exception"
  let main := (st.ops.filter fun l => ["op", "copy", "swap", "new", "newu", "newe", "q"].contains (l.headD "")).getLast?
  match main with
  | none => pure { slots := B }
  | some l =>
    match l with
    | "op" :: s :: name :: args => expectOp st.dom B (tokNat s) name args st.ycons st.each st.widens
    | ["copy", d, s] => pure { slots := B.setIfInBounds (tokNat d) (B.getD (tokNat s) none) }
    | ["swap", a, b] =>
      pure { slots := (B.setIfInBounds (tokNat a) (B.getD (tokNat b) none)).setIfInBounds (tokNat b) (B.getD (tokNat a) none) }
    | "q" :: s :: qn :: args => expectQuery st.dom B (tokNat s) qn args
    | _ =>
      match buildNew l with
      | some (i, sl) => pure { slots := setS B i sl }
      | none => throw "unknown-line"

def opName (st : Step) : String :=
  match (st.ops.filter fun l => ["op", "copy", "swap", "new", "newu", "newe", "q"].contains (l.headD "")).getLast? with
  | some ("op" :: _ :: name :: _) => name
  | some ("q" :: _ :: qn :: _) => "q:" ++ qn
  | some (k :: _) => k
  | _ => "none"

/-- verdict of a step: `ok`, `skip why`, `MISMATCH what` -/
def judgeStep (st : Step) (A : Slots) : String :=
  let name := opName st
  match expectStep st with
  | .error why =>
    if why.startsWith "ORACLE" then s!"MISMATCH {name} {why}" else s!"skip {name} {why}"
  | .ok e =>
    if anyBad e then s!"skip {name} no-generators"
    else match compareAll e A with
      | some what => s!"MISMATCH {name} {what}"
      | none =>
        let sz := e.slots.foldl (fun m s => match s with | some z => max m z.ps.seq.length | none => m) 0
        s!"ok {name} maxlen={sz}"

/-! ### `linear_partition(p, q)` journalled completely -/

/-- `xlp dom n <cs q> <cs p> <cs first> k <cs piece>*k` -/
def judgeLP (ts : List String) : String :=
  match ts with
  | _dom :: n :: rest =>
    let nn := tokNat n
    let o := k1ops nn
    let (q, r1) := parseCS nn rest
    let (p, r2) := parseLCS nn r1
    let (first, r3) := parseCS nn r2
    match r3 with
    | k :: r4 =>
      let rec go : Nat → List String → List (List Con) → List (List Con)
        | 0, _, acc => acc
        | j+1, ts, acc => let (cs, ts') := parseCS nn ts; go j ts' (acc ++ [cs])
      let pieces := go (tokNat k) r4 []
      let m := linearPartitionWith o p { n := nn, cs := q }
      -- the documented result, judged on the library's own output: residues = q minus p
      let same := dnfEquivF nn pieces (dnfMinus nn [q] [p.flatMap lrowsX])
      if !equivB nn m.1.cs first then "MISMATCH linear_partition first component differs from q ∧ p union_equal=false"
      else if m.2.length != pieces.length then
        s!"MISMATCH linear_partition pieces model={m.2.length} library={pieces.length} union_equal={same}"
      else match (m.2.zip pieces).zipIdx.find? (fun ((x, y), _) => !equivB nn x.cs y) with
        | some (_, j) => s!"MISMATCH linear_partition piece {j} of {pieces.length} differs as a set union_equal={same}"
        | none => s!"ok linear_partition pieces={pieces.length}"
    | _ => "skip linear_partition parse"
  | _ => "skip linear_partition parse"

/-! ### the journal loop -/

structure RState where
  step : Step := {}
  nOk : Nat := 0
  nBad : Nat := 0
  nSkip : Nat := 0

def toks (line : String) : List String := (line.trimAscii.toString.splitOn " ").filter (· ≠ "")

partial def loop (h : IO.FS.Stream) (ln : Nat) (st : RState) : IO RState := do
  let line ← h.getLine
  if line.isEmpty then return st
  let ts := toks line
  let t0 ← IO.monoMsNow
  let st' ← match ts with
    | "hist" :: _ :: _ :: dom :: _ => pure { st with step := { dom := dom } }
    | "xb" :: rest => pure { st with step := { dom := st.step.dom, before := parseSlots rest } }
    | "xo" :: rest => pure { st with step := { st.step with ops := st.step.ops ++ [rest] } }
    | "xe" :: "ycons" :: k :: rest =>
      let n := match st.step.before.toList.filterMap id with
        | z :: _ => z.n
        | [] => 0
      -- the dimension of the operation is the one of the receiver; all slots of a `diff` agree
      let nn := match (st.step.ops.filter fun l => l.headD "" == "op").getLast? with
        | some (_ :: s :: _) => match st.step.before.getD (tokNat s) none with
          | some z => z.n
          | none => n
        | _ => n
      let rec go : Nat → List String → List (List LCon) → List (List LCon)
        | 0, _, acc => acc
        | j+1, ts, acc => let (cs, ts') := parseLCS nn ts; go j ts' (acc ++ [cs])
      pure { st with step := { st.step with ycons := some (go (tokNat k) rest []) } }
    | "xe" :: "each" :: _ => pure { st with step := { st.step with each := true } }
    | "xe" :: "widen" :: rest =>
      let nn := match (st.step.ops.filter fun l => l.headD "" == "op").getLast? with
        | some (_ :: s :: _) => match st.step.before.getD (tokNat s) none with
          | some z => z.n
          | none => 0
        | _ => 0
      let (a, r1) := parseCS nn rest
      let (b, r2) := parseCS nn r1
      let (c, _) := parseCS nn r2
      pure { st with step := { st.step with widens := st.step.widens ++ [(a, b, c)] } }
    | "xa" :: rest => do
      let v := judgeStep st.step (parseSlots rest)
      IO.println s!"{ln} {v}"
      let st := { st with step := { dom := st.step.dom } }
      pure (if v.startsWith "ok" then { st with nOk := st.nOk + 1 }
            else if v.startsWith "skip" then { st with nSkip := st.nSkip + 1 } else { st with nBad := st.nBad + 1 })
    | "xlp" :: rest => do
      let v := judgeLP rest
      IO.println s!"{ln} {v}"
      pure (if v.startsWith "ok" then { st with nOk := st.nOk + 1 }
            else if v.startsWith "skip" then { st with nSkip := st.nSkip + 1 } else { st with nBad := st.nBad + 1 })
    | "crash" :: sig => do
      IO.println s!"{ln} MISMATCH crash {" ".intercalate sig}"
      pure { st with nBad := st.nBad + 1 }
    | _ => pure st
  let t1 ← IO.monoMsNow
  if t1 - t0 > 1500 then IO.eprintln s!"slow {ln} {t1 - t0}ms {line.take 60}"
  loop h (ln + 1) st'

def main : IO UInt32 := do
  let stdin ← IO.getStdin
  let st ← loop stdin 1 {}
  IO.println s!"summary ok={st.nOk} mismatch={st.nBad} skipped={st.nSkip}"
  return 0

end PPLV.Powerset.Replay
