import PPLV.Powerset.ExactSpec
import Mathlib.Data.List.Basic

/-!
# C09 stage 2 — sequence-level facts about `omega_reduce`, `check_omega_reduced`,
`add_non_bottom_disjunct_preserve_reduction`, `least_upper_bound_assign` (model `Exact`, raw `Ops`)
-/
namespace PPLV.Powerset.Exact
open PPLV

variable (o : Ops)

theorem Incomp.symm {o : Ops} {a b : o.D} (h : Incomp o a b) : Incomp o b a := ⟨h.2, h.1⟩

theorem OmegaReduced.sublist {o : Ops} {s t : List o.D} (h : OmegaReduced o t) (hs : s.Sublist t) :
    OmegaReduced o s :=
  ⟨fun a ha => h.1 a (hs.subset ha), List.Pairwise.sublist hs h.2⟩

theorem omegaReduced_nil : OmegaReduced o [] := ⟨by simp, List.Pairwise.nil⟩

/-! ## A.1 `scanY` -/

theorem scanY_sublist (xv : o.D) (l : List o.D) : (scanY o xv l).1.Sublist l := by
  induction l with
  | nil => simp [scanY]
  | cons y ys ih =>
    simp only [scanY]
    split
    · exact ih.cons _
    · split
      · exact List.Sublist.refl _
      · exact ih.cons_cons _

theorem scanY_false (xv : o.D) (l : List o.D) (h : (scanY o xv l).2 = false) :
    (scanY o xv l).1 = l.filter (fun y => !o.leq y xv) ∧
      ∀ y ∈ (scanY o xv l).1, o.leq xv y = false := by
  induction l with
  | nil => simp [scanY]
  | cons y ys ih =>
    simp only [scanY] at h ⊢
    by_cases h1 : o.leq y xv = true
    · simp only [h1, if_true] at h ⊢
      simpa [h1] using ih h
    · by_cases h2 : o.leq xv y = true
      · simp [h1, h2] at h
      · simp only [h1, h2] at h ⊢
        have := ih h
        simp only [Bool.not_eq_true] at h1 h2
        refine ⟨by simp [h1, this.1], ?_⟩
        intro z hz
        rcases List.mem_cons.1 hz with rfl | hz
        · exact h2
        · exact this.2 z hz

theorem scanY_true (xv : o.D) (l : List o.D) (h : (scanY o xv l).2 = true) :
    ∃ l1 y l2, l = l1 ++ y :: l2 ∧ o.leq y xv = false ∧ o.leq xv y = true ∧
      (∀ z ∈ l1, o.leq z xv = true ∨ o.leq xv z = false) ∧
      (scanY o xv l).1 = l1.filter (fun z => !o.leq z xv) ++ y :: l2 := by
  induction l with
  | nil => simp [scanY] at h
  | cons y ys ih =>
    simp only [scanY] at h ⊢
    by_cases h1 : o.leq y xv = true
    · simp only [h1, if_true] at h ⊢
      obtain ⟨l1, y', l2, e, a, b, c, d⟩ := ih h
      refine ⟨y :: l1, y', l2, by simp [e], a, b, ?_, by simp [h1, d]⟩
      intro z hz
      rcases List.mem_cons.1 hz with rfl | hz
      · exact Or.inl h1
      · exact c z hz
    · by_cases h2 : o.leq xv y = true
      · simp only [Bool.not_eq_true] at h1
        exact ⟨[], y, ys, by simp, h1, h2, by simp, by simp [h1, h2]⟩
      · simp only [h1, h2] at h ⊢
        obtain ⟨l1, y', l2, e, a, b, c, d⟩ := ih h
        simp only [Bool.not_eq_true] at h1 h2
        refine ⟨y :: l1, y', l2, by simp [e], a, b, ?_, by simp [h1, d]⟩
        intro z hz
        rcases List.mem_cons.1 hz with rfl | hz
        · exact Or.inr h2
        · exact c z hz

/-- **A.1** the inner loop of `omega_reduce` -/
theorem scanY_spec (xv : o.D) (l : List o.D) :
    ((scanY o xv l).2 = false →
      (scanY o xv l).1 = l.filter (fun y => !o.leq y xv) ∧
        ∀ y ∈ (scanY o xv l).1, o.leq xv y = false) ∧
    ((scanY o xv l).2 = true →
      ∃ l1 y l2, l = l1 ++ y :: l2 ∧ o.leq y xv = false ∧ o.leq xv y = true ∧
        (∀ z ∈ l1, o.leq z xv = true ∨ o.leq xv z = false) ∧
        (scanY o xv l).1 = l1.filter (fun z => !o.leq z xv) ++ y :: l2) ∧
    (scanY o xv l).1.Sublist l :=
  ⟨scanY_false o xv l, scanY_true o xv l, scanY_sublist o xv l⟩

/-! ## A.2 sublist -/

@[simp] theorem hurryOr_false (pre rest k : List o.D) : hurryOr o false pre rest k = k := by
  unfold hurryOr; split <;> simp_all

theorem omegaLoop_succ_cons (fuel : Nat) (pre : List o.D) (xv : o.D) (post : List o.D) :
    omegaLoop o false (fuel+1) pre (xv :: post) =
      if (scanY o xv pre).2 then omegaLoop o false fuel (scanY o xv pre).1 post
      else if (scanY o xv post).2 then omegaLoop o false fuel (scanY o xv pre).1 (scanY o xv post).1
      else omegaLoop o false fuel ((scanY o xv pre).1 ++ [xv]) (scanY o xv post).1 := by
  simp [omegaLoop]

theorem omegaLoop_sublist (fuel : Nat) (pre rest : List o.D) :
    (omegaLoop o false fuel pre rest).Sublist (pre ++ rest) := by
  induction fuel generalizing pre rest with
  | zero => simp [omegaLoop]
  | succ fuel ih =>
    cases rest with
    | nil => simp [omegaLoop]
    | cons xv post =>
      rw [omegaLoop_succ_cons]
      have s1 := scanY_sublist o xv pre
      have s2 := scanY_sublist o xv post
      split
      · exact (ih _ _).trans (List.Sublist.append s1 (List.Sublist.cons _ (List.Sublist.refl _)))
      · split
        · exact (ih _ _).trans (List.Sublist.append s1 (List.Sublist.cons _ s2))
        · refine (ih _ _).trans ?_
          rw [List.append_assoc]
          exact List.Sublist.append s1 (List.Sublist.cons_cons _ s2)

theorem omegaReduce_of_not_reduced (x : PS o.D) (h : x.reduced = false) :
    omegaReduce o false x =
      ⟨omegaLoop o false (x.seq.filter (fun y => !o.isBottom y)).length []
        (x.seq.filter (fun y => !o.isBottom y)), true⟩ := by
  simp [omegaReduce, h]

theorem omegaReduce_of_reduced (ab : Bool) (x : PS o.D) (h : x.reduced = true) :
    omegaReduce o ab x = x := by
  simp [omegaReduce, h]

/-- **A.2** -/
theorem omegaReduce_sublist (x : PS o.D) (h : x.reduced = false) :
    (omegaReduce o false x).seq.Sublist (x.seq.filter (fun y => !o.isBottom y)) := by
  rw [omegaReduce_of_not_reduced o x h]
  simpa using omegaLoop_sublist o _ [] (x.seq.filter (fun y => !o.isBottom y))

/-! ## A.3 antichain (no hypothesis on `leq`) -/

/-- the loop invariant: the visited-and-kept disjuncts are incomparable with every other
    disjunct still in the list -/
def LoopInv (pre rest : List o.D) : Prop :=
  pre.Pairwise (Incomp o) ∧ ∀ a ∈ pre, ∀ b ∈ rest, Incomp o a b

theorem omegaLoop_antichain_gen (fuel : Nat) (pre rest : List o.D) (hI : LoopInv o pre rest)
    (hf : rest.length ≤ fuel) : Antichain o (omegaLoop o false fuel pre rest) := by
  induction fuel generalizing pre rest with
  | zero =>
    have : rest = [] := List.length_eq_zero_iff.1 (Nat.le_zero.1 hf)
    subst this
    simpa [omegaLoop, Antichain] using hI.1
  | succ fuel ih =>
    cases rest with
    | nil => simpa [omegaLoop, Antichain] using hI.1
    | cons xv post =>
      rw [omegaLoop_succ_cons]
      have s1 := scanY_sublist o xv pre
      have s2 := scanY_sublist o xv post
      have hl : post.length ≤ fuel := by simpa using hf
      have hl2 : (scanY o xv post).1.length ≤ fuel := Nat.le_trans s2.length_le hl
      obtain ⟨hp, hpr⟩ := hI
      split
      · refine ih _ _ ⟨hp.sublist s1, ?_⟩ hl
        intro a ha b hb
        exact hpr a (s1.subset ha) b (List.mem_cons_of_mem _ hb)
      · split
        · refine ih _ _ ⟨hp.sublist s1, ?_⟩ hl2
          intro a ha b hb
          exact hpr a (s1.subset ha) b (List.mem_cons_of_mem _ (s2.subset hb))
        · rename_i h1 h2
          simp only [Bool.not_eq_true] at h1 h2
          obtain ⟨e1, f1⟩ := scanY_false o xv pre h1
          obtain ⟨e2, f2⟩ := scanY_false o xv post h2
          have g1 : ∀ a ∈ (scanY o xv pre).1, Incomp o a xv := by
            intro a ha
            refine ⟨?_, f1 a ha⟩
            rw [e1] at ha
            simpa using (List.mem_filter.1 ha).2
          have g2 : ∀ a ∈ (scanY o xv post).1, Incomp o xv a := by
            intro a ha
            refine ⟨f2 a ha, ?_⟩
            rw [e2] at ha
            simpa using (List.mem_filter.1 ha).2
          refine ih _ _ ⟨?_, ?_⟩ hl2
          · rw [List.pairwise_append]
            refine ⟨hp.sublist s1, by simp, ?_⟩
            intro a ha b hb
            rw [List.mem_singleton.1 hb]
            exact g1 a ha
          · intro a ha b hb
            rcases List.mem_append.1 ha with ha | ha
            · exact hpr a (s1.subset ha) b (List.mem_cons_of_mem _ (s2.subset hb))
            · rw [List.mem_singleton.1 ha]
              exact g2 b hb

/-- **A.3** -/
theorem omegaLoop_antichain (fuel : Nat) (s : List o.D) (hf : s.length ≤ fuel) :
    Antichain o (omegaLoop o false fuel [] s) :=
  omegaLoop_antichain_gen o fuel [] s ⟨List.Pairwise.nil, by simp⟩ hf

theorem omegaReduce_omegaReduced (x : PS o.D) (h : x.reduced = false) :
    OmegaReduced o (omegaReduce o false x).seq := by
  refine ⟨?_, ?_⟩
  · intro a ha
    have := (omegaReduce_sublist o x h).subset ha
    simpa using (List.mem_filter.1 this).2
  · rw [omegaReduce_of_not_reduced o x h]
    exact omegaLoop_antichain o _ _ (Nat.le_refl _)

theorem omegaReduce_reduced (ab : Bool) (x : PS o.D) : (omegaReduce o ab x).reduced = true := by
  unfold omegaReduce
  split
  · assumption
  · rfl

theorem omegaReduce_inv (x : PS o.D) (h : Inv o x) : Inv o (omegaReduce o false x) := by
  cases hr : x.reduced with
  | true => rw [omegaReduce_of_reduced o false x hr]; exact h
  | false => exact fun _ => omegaReduce_omegaReduced o x hr

/-- with `Inv` of the input, the output of `omega_reduce` is omega-reduced (whatever the flag) -/
theorem omegaReduce_omegaReduced_of_inv (x : PS o.D) (h : Inv o x) :
    OmegaReduced o (omegaReduce o false x).seq :=
  omegaReduce_inv o x h (omegaReduce_reduced o false x)

/-! ## A.4 `check_omega_reduced` -/

theorem checkOmegaReducedGo_iff (pre post : List o.D) :
    checkOmegaReducedGo o pre post = true ↔
      (∀ a ∈ post, o.isBottom a = false) ∧ post.Pairwise (Incomp o) ∧
        ∀ a ∈ pre, ∀ b ∈ post, Incomp o a b := by
  induction post generalizing pre with
  | nil => simp [checkOmegaReducedGo]
  | cons xv post ih =>
    simp only [checkOmegaReducedGo]
    by_cases hb : o.isBottom xv = true
    · simp [hb]
    · simp only [Bool.not_eq_true] at hb
      simp only [hb, Bool.false_eq_true, ↓reduceIte]
      by_cases ha : (pre ++ post).any (fun yv => o.leq xv yv || o.leq yv xv) = true
      · simp only [ha, ↓reduceIte]
        constructor
        · intro h; cases h
        · rintro ⟨-, hp, hq⟩
          exfalso
          obtain ⟨y, hy, hy2⟩ := List.any_eq_true.1 ha
          rcases List.mem_append.1 hy with hy | hy
          · have := hq y hy xv (List.mem_cons_self ..)
            simp [this.1, this.2] at hy2
          · have := (List.pairwise_cons.1 hp).1 y hy
            simp [this.1, this.2] at hy2
      · have ha0 := ha
        simp only [Bool.not_eq_true] at ha0
        simp only [ha0, Bool.false_eq_true, ↓reduceIte]
        rw [ih]
        have ha' : ∀ y ∈ pre ++ post, Incomp o xv y := by
          intro y hy
          have : ¬ (o.leq xv y || o.leq y xv) = true := fun hh => ha (List.any_eq_true.2 ⟨y, hy, hh⟩)
          simp only [Bool.or_eq_true, not_or, Bool.not_eq_true] at this
          exact this
        constructor
        · rintro ⟨h1, h2, h3⟩
          refine ⟨?_, ?_, ?_⟩
          · intro a ha2
            rcases List.mem_cons.1 ha2 with rfl | ha2
            · exact hb
            · exact h1 a ha2
          · exact List.pairwise_cons.2 ⟨fun y hy => ha' y (List.mem_append_right _ hy), h2⟩
          · intro a ha2 b hb2
            rcases List.mem_cons.1 hb2 with rfl | hb2
            · exact (ha' a (List.mem_append_left _ ha2)).symm
            · exact h3 a (List.mem_append_left _ ha2) b hb2
        · rintro ⟨h1, h2, h3⟩
          refine ⟨fun a ha2 => h1 a (List.mem_cons_of_mem _ ha2), (List.pairwise_cons.1 h2).2, ?_⟩
          intro a ha2 b hb2
          rcases List.mem_append.1 ha2 with ha2 | ha2
          · exact h3 a ha2 b (List.mem_cons_of_mem _ hb2)
          · rw [List.mem_singleton.1 ha2]
            exact (List.pairwise_cons.1 h2).1 b hb2

/-- **A.4** `check_omega_reduced()` decides `OmegaReduced` -/
theorem checkOmegaReduced_iff (s : List o.D) : checkOmegaReduced o s = true ↔ OmegaReduced o s := by
  unfold checkOmegaReduced
  rw [checkOmegaReducedGo_iff]
  simp [OmegaReduced, Antichain]

theorem isOmegaReduced_inv (x : PS o.D) (h : Inv o x) : Inv o (isOmegaReduced o x).1 := by
  unfold isOmegaReduced
  split
  · rename_i hc
    simp only [Bool.and_eq_true] at hc
    exact fun _ => (checkOmegaReduced_iff o x.seq).1 hc.2
  · exact h

theorem isOmegaReduced_true (x : PS o.D) (h : Inv o x) (ht : (isOmegaReduced o x).2 = true) :
    OmegaReduced o x.seq := by
  unfold isOmegaReduced at ht
  split at ht
  · rename_i hc
    simp only [Bool.and_eq_true] at hc
    exact (checkOmegaReduced_iff o x.seq).1 hc.2
  · exact h ht

/-- the sequence is never changed by `is_omega_reduced()` -/
theorem isOmegaReduced_seq (x : PS o.D) : (isOmegaReduced o x).1.seq = x.seq := by
  unfold isOmegaReduced; split <;> rfl

/-- converse: an omega-reduced sequence is reported as such -/
theorem isOmegaReduced_complete (x : PS o.D) (h : OmegaReduced o x.seq) :
    (isOmegaReduced o x).2 = true := by
  unfold isOmegaReduced
  cases hr : x.reduced <;> simp [(checkOmegaReduced_iff o x.seq).2 h]

end PPLV.Powerset.Exact
