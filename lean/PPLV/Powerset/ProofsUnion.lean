import PPLV.Powerset.Model

/-!
# C09 — the generic `Powerset<D>` algorithms respect the union (every `Dom`, every sequence)

Pointwise statements (`d.U s p` = "`p` lies in some disjunct of `s`"); `Props/C09.lean` restates
them with `Set`/`⋃`.
-/
namespace PPLV.Powerset
open PPLV

variable (d : Dom)

/-! ### the union of a sequence -/

@[simp] theorem U_nil (p : Pt) : d.U [] p ↔ False := by simp [Dom.U]
@[simp] theorem U_cons (x : d.D) (s : List d.D) (p : Pt) : d.U (x :: s) p ↔ (d.γ x p ∨ d.U s p) := by
  simp [Dom.U]
@[simp] theorem U_append (s t : List d.D) (p : Pt) : d.U (s ++ t) p ↔ (d.U s p ∨ d.U t p) := by
  simp only [Dom.U, List.mem_append]
  constructor
  · rintro ⟨x, hx | hx, h⟩
    · exact Or.inl ⟨x, hx, h⟩
    · exact Or.inr ⟨x, hx, h⟩
  · rintro (⟨x, hx, h⟩ | ⟨x, hx, h⟩)
    · exact ⟨x, Or.inl hx, h⟩
    · exact ⟨x, Or.inr hx, h⟩

theorem U_singleton (x : d.D) (p : Pt) : d.U [x] p ↔ d.γ x p := by simp

theorem U_filter_sub (f : d.D → Bool) (s : List d.D) (p : Pt) : d.U (s.filter f) p → d.U s p := by
  rintro ⟨x, hx, h⟩
  exact ⟨x, (List.mem_filter.mp hx).1, h⟩

/-- dropping bottoms does not change the union -/
theorem U_filter_nonbottom (s : List d.D) (p : Pt) :
    d.U (s.filter fun y => !d.isBottom y) p ↔ d.U s p := by
  constructor
  · exact U_filter_sub d _ s p
  · rintro ⟨x, hx, h⟩
    refine ⟨x, List.mem_filter.mpr ⟨hx, ?_⟩, h⟩
    cases hb : d.isBottom x with
    | false => rfl
    | true => exact absurd h (d.isBottom_sound x hb p)

/-! ### `collapse(sink)` -/

theorem foldl_join_ge (x : d.D) (post : List d.D) (p : Pt) :
    (d.γ x p ∨ d.U post p) → d.γ (post.foldl d.join x) p := by
  induction post generalizing x with
  | nil => simp
  | cons y ys ih =>
    intro h
    simp only [List.foldl_cons]
    apply ih
    rcases h with h | h
    · exact Or.inl (d.join_sound x y p (Or.inl h))
    · rcases (U_cons d y ys p).mp h with h | h
      · exact Or.inl (d.join_sound x y p (Or.inr h))
      · exact Or.inr h

/-- `collapse(sink)` only enlarges the union -/
theorem collapseAt_ge (pre : List d.D) (x : d.D) (post : List d.D) (p : Pt) :
    d.U (pre ++ x :: post) p → d.U (collapseAt d pre x post) p := by
  intro h
  unfold collapseAt
  simp only [U_append, U_cons, U_nil, or_false] at h ⊢
  rcases h with ⟨y, hy, h⟩ | h
  · cases hl : d.leq y (post.foldl d.join x) with
    | true => exact Or.inr (d.leq_sound _ _ hl p h)
    | false => exact Or.inl ⟨y, List.mem_filter.mpr ⟨hy, by simp [hl]⟩, h⟩
  · exact Or.inr (foldl_join_ge d x post p h)

/-- … and what it adds lies in the base-level upper bound of `x` and the later disjuncts -/
theorem collapseAt_le (pre : List d.D) (x : d.D) (post : List d.D) (p : Pt) :
    d.U (collapseAt d pre x post) p → (d.U pre p ∨ d.γ (post.foldl d.join x) p) := by
  unfold collapseAt
  simp only [U_append, U_cons, U_nil, or_false]
  rintro (h | h)
  · exact Or.inl (U_filter_sub d _ pre p h)
  · exact Or.inr h

/-! ### `omega_reduce()` -/

theorem scanY_U (xv : d.D) (ys : List d.D) (p : Pt) :
    (d.γ xv p ∨ d.U (scanY d xv ys).1 p) ↔ (d.γ xv p ∨ d.U ys p) := by
  induction ys with
  | nil => simp [scanY]
  | cons yv ys ih =>
    unfold scanY
    by_cases h1 : d.leq yv xv = true
    · simp only [h1, if_true, U_cons]
      rw [ih]
      constructor
      · rintro (h | h)
        · exact Or.inl h
        · exact Or.inr (Or.inr h)
      · rintro (h | h | h)
        · exact Or.inl h
        · exact Or.inl (d.leq_sound _ _ h1 p h)
        · exact Or.inr h
    · by_cases h2 : d.leq xv yv = true
      · simp [h1, h2]
      · simp only [h1, h2, if_false, U_cons, Bool.false_eq_true]
        constructor
        · rintro (h | h | h)
          · exact Or.inl h
          · exact Or.inr (Or.inl h)
          · rcases ih.mp (Or.inr h) with h | h
            · exact Or.inl h
            · exact Or.inr (Or.inr h)
        · rintro (h | h | h)
          · exact Or.inl h
          · exact Or.inr (Or.inl h)
          · rcases ih.mpr (Or.inr h) with h | h
            · exact Or.inl h
            · exact Or.inr (Or.inr h)

/-- when the scan reports `dropping_xi`, some surviving `yv` contains `xv` -/
theorem scanY_covered (xv : d.D) (ys : List d.D) (h : (scanY d xv ys).2 = true) (p : Pt) :
    d.γ xv p → d.U (scanY d xv ys).1 p := by
  induction ys with
  | nil => simp [scanY] at h
  | cons yv ys ih =>
    unfold scanY at h ⊢
    by_cases h1 : d.leq yv xv = true
    · simp only [h1, if_true] at h ⊢
      exact ih h
    · by_cases h2 : d.leq xv yv = true
      · simp only [h1, h2, if_true, if_false, Bool.false_eq_true, U_cons]
        intro hx
        exact Or.inl (d.leq_sound _ _ h2 p hx)
      · simp only [h1, h2, if_false, Bool.false_eq_true, U_cons] at h ⊢
        intro hx
        exact Or.inr (ih h hx)

theorem scanY_sub (xv : d.D) (ys : List d.D) (p : Pt) : d.U (scanY d xv ys).1 p → d.U ys p := by
  induction ys with
  | nil => simp [scanY]
  | cons yv ys ih =>
    unfold scanY
    by_cases h1 : d.leq yv xv = true
    · simp only [h1, if_true, U_cons]
      exact fun h => Or.inr (ih h)
    · by_cases h2 : d.leq xv yv = true
      · simp [h1, h2]
      · simp only [h1, h2, if_false, Bool.false_eq_true, U_cons]
        rintro (h | h)
        · exact Or.inl h
        · exact Or.inr (ih h)

theorem scanY_length (xv : d.D) (ys : List d.D) : (scanY d xv ys).1.length ≤ ys.length := by
  induction ys with
  | nil => simp [scanY]
  | cons yv ys ih =>
    unfold scanY
    by_cases h1 : d.leq yv xv = true
    · simp only [h1, if_true, List.length_cons]; omega
    · by_cases h2 : d.leq xv yv = true
      · simp [h1, h2]
      · simp only [h1, h2, if_false, Bool.false_eq_true, List.length_cons]; omega

/-- one step of the outer loop keeps the union of `pre ++ xv :: post`; three cases -/
theorem omega_step_U (xv : d.D) (pre post : List d.D) (p : Pt) :
    let r1 := scanY d xv pre
    let r2 := scanY d xv post
    (r1.2 = true → (d.U (r1.1 ++ post) p ↔ d.U (pre ++ xv :: post) p)) ∧
    (r2.2 = true → (d.U (r1.1 ++ r2.1) p ↔ d.U (pre ++ xv :: post) p)) ∧
    (d.U ((r1.1 ++ [xv]) ++ r2.1) p ↔ d.U (pre ++ xv :: post) p) := by
  intro r1 r2
  have e1 := scanY_U d xv pre p
  have e2 := scanY_U d xv post p
  have s1 := scanY_sub d xv pre p
  have s2 := scanY_sub d xv post p
  refine ⟨fun hb => ?_, fun hb => ?_, ?_⟩
  · have c := scanY_covered d xv pre hb p
    simp only [U_append, U_cons]
    constructor
    · rintro (h | h)
      · exact Or.inl (s1 h)
      · exact Or.inr (Or.inr h)
    · rintro (h | h | h)
      · rcases e1.mpr (Or.inr h) with h | h
        · exact Or.inl (c h)
        · exact Or.inl h
      · exact Or.inl (c h)
      · exact Or.inr h
  · have c := scanY_covered d xv post hb p
    simp only [U_append, U_cons]
    constructor
    · rintro (h | h)
      · exact Or.inl (s1 h)
      · exact Or.inr (Or.inr (s2 h))
    · rintro (h | h | h)
      · rcases e1.mpr (Or.inr h) with h | h
        · exact Or.inr (c h)
        · exact Or.inl h
      · exact Or.inr (c h)
      · rcases e2.mpr (Or.inr h) with h | h
        · exact Or.inr (c h)
        · exact Or.inr h
  · simp only [U_append, U_cons, U_nil, or_false]
    constructor
    · rintro ((h | h) | h)
      · exact Or.inl (s1 h)
      · exact Or.inr (Or.inl h)
      · exact Or.inr (Or.inr (s2 h))
    · rintro (h | h | h)
      · rcases e1.mpr (Or.inr h) with h | h
        · exact Or.inl (Or.inr h)
        · exact Or.inl (Or.inl h)
      · exact Or.inl (Or.inr h)
      · rcases e2.mpr (Or.inr h) with h | h
        · exact Or.inl (Or.inr h)
        · exact Or.inr h

theorem hurryOr_false (pre rest k : List d.D) : hurryOr d false pre rest k = k := by
  unfold hurryOr; rfl

/-- without the hurry-up exit the outer loop keeps the union exactly -/
theorem omegaLoop_U (fuel : Nat) (pre rest : List d.D) (p : Pt) :
    d.U (omegaLoop d false fuel pre rest) p ↔ d.U (pre ++ rest) p := by
  induction fuel generalizing pre rest with
  | zero => simp [omegaLoop]
  | succ f ih =>
    cases rest with
    | nil => simp [omegaLoop]
    | cons xv post =>
      have st := omega_step_U d xv pre post p
      simp only [omegaLoop, hurryOr_false]
      by_cases hb1 : (scanY d xv pre).2 = true
      · simp only [hb1, if_true]
        rw [ih]; exact st.1 hb1
      · by_cases hb2 : (scanY d xv post).2 = true
        · simp only [hb1, hb2, if_true, if_false, Bool.false_eq_true]
          rw [ih]; exact st.2.1 hb2
        · simp only [hb1, hb2, if_false, Bool.false_eq_true]
          rw [ih]; exact st.2.2

theorem hurryOr_ge (abandon : Bool) (pre rest k : List d.D) (p : Pt)
    (hk : d.U (pre ++ rest) p → d.U k p) : d.U (pre ++ rest) p → d.U (hurryOr d abandon pre rest k) p := by
  unfold hurryOr
  cases abandon with
  | false => simpa using hk
  | true =>
    cases rest with
    | nil => simpa using hk
    | cons x post => exact collapseAt_ge d pre x post p

/-- with the hurry-up exit the union can only grow -/
theorem omegaLoop_ge (abandon : Bool) (fuel : Nat) (pre rest : List d.D) (p : Pt) :
    d.U (pre ++ rest) p → d.U (omegaLoop d abandon fuel pre rest) p := by
  induction fuel generalizing pre rest with
  | zero => simp [omegaLoop]
  | succ f ih =>
    cases rest with
    | nil => simp [omegaLoop]
    | cons xv post =>
      have st := omega_step_U d xv pre post p
      simp only [omegaLoop]
      intro h
      by_cases hb1 : (scanY d xv pre).2 = true
      · simp only [hb1, if_true]
        exact hurryOr_ge d abandon _ _ _ p (ih _ _) ((st.1 hb1).mpr h)
      · by_cases hb2 : (scanY d xv post).2 = true
        · simp only [hb1, hb2, if_true, if_false, Bool.false_eq_true]
          exact hurryOr_ge d abandon _ _ _ p (ih _ _) ((st.2.1 hb2).mpr h)
        · simp only [hb1, hb2, if_false, Bool.false_eq_true]
          exact hurryOr_ge d abandon _ _ _ p (ih _ _) (st.2.2.mpr h)

/-- **omega-reduction does not change the union** (no deadline pending) -/
theorem omegaReduce_U (x : PS d) (p : Pt) : d.U (omegaReduce d false x).seq p ↔ d.U x.seq p := by
  unfold omegaReduce
  by_cases h : x.reduced = true
  · simp [h]
  · simp only [h, if_false, Bool.false_eq_true]
    rw [omegaLoop_U, List.nil_append, U_filter_nonbottom]

/-- under a pending deadline (`abandon_expensive_computations`) it may only enlarge it -/
theorem omegaReduce_ge (abandon : Bool) (x : PS d) (p : Pt) :
    d.U x.seq p → d.U (omegaReduce d abandon x).seq p := by
  unfold omegaReduce
  by_cases h : x.reduced = true
  · simp [h]
  · simp only [h, if_false, Bool.false_eq_true]
    intro hx
    apply omegaLoop_ge
    rw [List.nil_append, U_filter_nonbottom]
    exact hx

/-- the result never has more disjuncts -/
theorem omegaLoop_length (fuel : Nat) (pre rest : List d.D) :
    (omegaLoop d false fuel pre rest).length ≤ pre.length + rest.length := by
  induction fuel generalizing pre rest with
  | zero => simp [omegaLoop]
  | succ f ih =>
    cases rest with
    | nil => simp [omegaLoop]
    | cons xv post =>
      have l1 := scanY_length d xv pre
      have l2 := scanY_length d xv post
      simp only [omegaLoop, hurryOr_false]
      by_cases hb1 : (scanY d xv pre).2 = true
      · simp only [hb1, if_true]
        have := ih (scanY d xv pre).1 post
        simp only [List.length_cons]; omega
      · by_cases hb2 : (scanY d xv post).2 = true
        · simp only [hb1, hb2, if_true, if_false, Bool.false_eq_true]
          have := ih (scanY d xv pre).1 (scanY d xv post).1
          simp only [List.length_cons]; omega
        · simp only [hb1, hb2, if_false, Bool.false_eq_true]
          have := ih ((scanY d xv pre).1 ++ [xv]) (scanY d xv post).1
          simp only [List.length_cons, List.length_append, List.length_nil] at this ⊢; omega

theorem omegaReduce_length (x : PS d) : (omegaReduce d false x).seq.length ≤ x.seq.length := by
  unfold omegaReduce
  by_cases h : x.reduced = true
  · simp [h]
  · simp only [h, if_false, Bool.false_eq_true]
    have := omegaLoop_length d (x.seq.filter fun y => !d.isBottom y).length [] (x.seq.filter fun y => !d.isBottom y)
    have h2 := List.length_filter_le (fun y => !d.isBottom y) x.seq
    simp only [List.length_nil] at this
    omega

/-! ### omega-reduction only erases -/

theorem scanY_mem (xv : d.D) (ys : List d.D) (a : d.D) : a ∈ (scanY d xv ys).1 → a ∈ ys := by
  induction ys with
  | nil => simp [scanY]
  | cons yv ys ih =>
    unfold scanY
    by_cases h1 : d.leq yv xv = true
    · simp only [h1, if_true]
      exact fun h => List.mem_cons_of_mem _ (ih h)
    · by_cases h2 : d.leq xv yv = true
      · simp [h1, h2]
      · simp only [h1, h2, if_false, Bool.false_eq_true, List.mem_cons]
        rintro (h | h)
        · exact Or.inl h
        · exact Or.inr (ih h)

theorem omegaLoop_mem (fuel : Nat) (pre rest : List d.D) (a : d.D) :
    a ∈ omegaLoop d false fuel pre rest → a ∈ pre ++ rest := by
  induction fuel generalizing pre rest with
  | zero => simp [omegaLoop]
  | succ f ih =>
    cases rest with
    | nil => simp [omegaLoop]
    | cons xv post =>
      have m1 := scanY_mem d xv pre a
      have m2 := scanY_mem d xv post a
      simp only [omegaLoop, hurryOr_false]
      by_cases hb1 : (scanY d xv pre).2 = true
      · simp only [hb1, if_true]
        intro h
        have := ih _ _ h
        simp only [List.mem_append, List.mem_cons] at this ⊢
        rcases this with h | h
        · exact Or.inl (m1 h)
        · exact Or.inr (Or.inr h)
      · by_cases hb2 : (scanY d xv post).2 = true
        · simp only [hb1, hb2, if_true, if_false, Bool.false_eq_true]
          intro h
          have := ih _ _ h
          simp only [List.mem_append, List.mem_cons] at this ⊢
          rcases this with h | h
          · exact Or.inl (m1 h)
          · exact Or.inr (Or.inr (m2 h))
        · simp only [hb1, hb2, if_false, Bool.false_eq_true]
          intro h
          have := ih _ _ h
          simp only [List.mem_append, List.mem_cons, List.mem_nil_iff, or_false] at this ⊢
          rcases this with (h | h) | h
          · exact Or.inl (m1 h)
          · exact Or.inr (Or.inl h)
          · exact Or.inr (Or.inr (m2 h))

end PPLV.Powerset
