import PPLV.Powerset.DNF
import PPLV.Lin.Decide

/-!
# C09 — the DNF judge is sound and complete
-/
namespace PPLV.Powerset
open PPLV.Lin

/-- the set denoted by a DNF -/
def dnfSem (A : DNF) : Set Val := {x | ∃ P ∈ A, Sat P x}

/-- every row of every disjunct mentions variables `< n` only -/
def DWF (n : Nat) (A : DNF) : Prop := ∀ P ∈ A, WF n P

theorem dnfWF_iff (n : Nat) (A : DNF) : dnfWF n A = true ↔ DWF n A := by
  simp only [dnfWF, List.all_eq_true, DWF, wfB_iff]

theorem splitPieces_sem (P B : List Con) (x : Val) :
    x ∈ dnfSem (splitPieces P B) ↔ (Sat P x ∧ ¬ Sat B x) := by
  induction B generalizing P with
  | nil => simp [splitPieces, dnfSem, Sat]
  | cons c cs ih =>
    have h1 : x ∈ dnfSem ((c.neg :: P) :: splitPieces (c :: P) cs) ↔
        (Sat (c.neg :: P) x ∨ x ∈ dnfSem (splitPieces (c :: P) cs)) := by
      simp [dnfSem]
    rw [splitPieces, h1, ih, Sat_cons, Sat_cons, Sat_cons, sat_neg_iff]
    constructor
    · rintro (⟨h1, h2⟩ | ⟨⟨h1, h2⟩, h3⟩)
      · exact ⟨h2, fun h => h1 h.1⟩
      · exact ⟨h2, fun h => h3 h.2⟩
    · rintro ⟨h1, h2⟩
      by_cases hc : c.sat x
      · exact Or.inr ⟨⟨hc, h1⟩, fun h => h2 ⟨hc, h⟩⟩
      · exact Or.inl ⟨hc, h1⟩

theorem splitPieces_wf (n : Nat) (P B : List Con) (hP : WF n P) (hB : WF n B) :
    DWF n (splitPieces P B) := by
  induction B generalizing P with
  | nil => intro Q hQ; simp [splitPieces] at hQ
  | cons c cs ih =>
    have hc : c.coeffs.length ≤ n := hB c List.mem_cons_self
    have hcs : WF n cs := fun e he => hB e (List.mem_cons_of_mem _ he)
    intro Q hQ
    rw [splitPieces, List.mem_cons] at hQ
    rcases hQ with rfl | hQ
    · intro e he
      rcases List.mem_cons.mp he with rfl | he
      · rw [neg_length]; exact hc
      · exact hP e he
    · refine ih (c :: P) ?_ hcs Q hQ
      intro e he
      rcases List.mem_cons.mp he with rfl | he
      · exact hc
      · exact hP e he

theorem filter_feasible_sem (n : Nat) (A : DNF) (h : DWF n A) : dnfSem (A.filter (feasible n)) = dnfSem A := by
  ext x
  simp only [dnfSem, Set.mem_ofPred_eq, List.mem_filter]
  constructor
  · rintro ⟨P, ⟨hP, _⟩, hx⟩; exact ⟨P, hP, hx⟩
  · rintro ⟨P, hP, hx⟩
    exact ⟨P, ⟨hP, (feasible_iff n P (h P hP)).mpr ⟨x, hx⟩⟩, hx⟩

theorem DWF_filter (n : Nat) (A : DNF) (f : List Con → Bool) (h : DWF n A) : DWF n (A.filter f) :=
  fun P hP => h P (List.mem_filter.mp hP).1

theorem minusOne_wf (n : Nat) (A : DNF) (B : List Con) (hA : DWF n A) (hB : WF n B) :
    DWF n (minusOne n A B) := by
  apply DWF_filter
  intro Q hQ
  obtain ⟨P, hP, hQ⟩ := List.mem_flatMap.mp hQ
  exact splitPieces_wf n P B (hA P hP) hB Q hQ

theorem minusOne_sem (n : Nat) (A : DNF) (B : List Con) (hA : DWF n A) (hB : WF n B) :
    dnfSem (minusOne n A B) = dnfSem A \ sem B := by
  unfold minusOne
  rw [filter_feasible_sem]
  · ext x
    constructor
    · rintro ⟨Q, hQ, hx⟩
      obtain ⟨P, hP, hQ⟩ := List.mem_flatMap.mp hQ
      obtain ⟨h1, h2⟩ := (splitPieces_sem P B x).mp ⟨Q, hQ, hx⟩
      exact ⟨⟨P, hP, h1⟩, h2⟩
    · rintro ⟨⟨P, hP, h1⟩, h2⟩
      obtain ⟨Q, hQ, hx⟩ := (splitPieces_sem P B x).mpr ⟨h1, h2⟩
      exact ⟨Q, List.mem_flatMap.mpr ⟨P, hP, hQ⟩, hx⟩
  · intro Q hQ
    obtain ⟨P, hP, hQ⟩ := List.mem_flatMap.mp hQ
    exact splitPieces_wf n P B (hA P hP) hB Q hQ

theorem foldl_minus (n : Nat) (Bs A : DNF) (hA : DWF n A) (hB : DWF n Bs) :
    DWF n (Bs.foldl (minusOne n) A) ∧ dnfSem (Bs.foldl (minusOne n) A) = dnfSem A \ dnfSem Bs := by
  induction Bs generalizing A with
  | nil =>
    refine ⟨hA, ?_⟩
    ext x; simp [dnfSem]
  | cons B Bs ih =>
    have hB1 : WF n B := hB B List.mem_cons_self
    have hBs : DWF n Bs := fun P hP => hB P (List.mem_cons_of_mem _ hP)
    obtain ⟨w, s⟩ := ih (minusOne n A B) (minusOne_wf n A B hA hB1) hBs
    refine ⟨w, ?_⟩
    rw [List.foldl_cons, s, minusOne_sem n A B hA hB1]
    ext x
    simp only [dnfSem, sem, Set.mem_sdiff, Set.mem_ofPred_eq, List.mem_cons, exists_eq_or_imp, not_or]
    exact and_assoc

/-- **the successive difference denotes the set difference of the unions** -/
theorem dnfMinus_sem (n : Nat) (A Bs : DNF) (hA : DWF n A) (hB : DWF n Bs) :
    dnfSem (dnfMinus n A Bs) = dnfSem A \ dnfSem Bs := by
  unfold dnfMinus
  rw [(foldl_minus n Bs _ (DWF_filter n A _ hA) hB).2, filter_feasible_sem n A hA]

theorem dnfMinus_wf (n : Nat) (A Bs : DNF) (hA : DWF n A) (hB : DWF n Bs) : DWF n (dnfMinus n A Bs) :=
  (foldl_minus n Bs _ (DWF_filter n A _ hA) hB).1

/-- every piece that survives is feasible -/
theorem foldl_minus_feasible (n : Nat) (Bs A : DNF) (hA : ∀ P ∈ A, feasible n P = true) :
    ∀ P ∈ Bs.foldl (minusOne n) A, feasible n P = true := by
  induction Bs generalizing A with
  | nil => exact hA
  | cons B Bs ih =>
    rw [List.foldl_cons]
    apply ih
    intro P hP
    exact (List.mem_filter.mp hP).2

/-- **inclusion of unions is decided exactly** -/
theorem dnfSubset_iff (n : Nat) (A B : DNF) (hA : DWF n A) (hB : DWF n B) :
    dnfSubset n A B = true ↔ dnfSem A ⊆ dnfSem B := by
  unfold dnfSubset
  rw [List.isEmpty_iff, ← Set.sdiff_eq_empty, ← dnfMinus_sem n A B hA hB]
  constructor
  · intro h; rw [h]; ext x; simp [dnfSem]
  · intro h
    cases hl : dnfMinus n A B with
    | nil => rfl
    | cons P rest =>
      exfalso
      have hm : P ∈ dnfMinus n A B := by rw [hl]; exact List.mem_cons_self
      have hf : feasible n P = true := by
        unfold dnfMinus at hm
        exact foldl_minus_feasible n B _ (fun Q hQ => (List.mem_filter.mp hQ).2) P hm
      obtain ⟨x, hx⟩ := (feasible_iff n P (dnfMinus_wf n A B hA hB P hm)).mp hf
      have : x ∈ dnfSem (dnfMinus n A B) := ⟨P, hm, hx⟩
      rw [h] at this
      exact this

theorem dnfSubsetF_iff (n : Nat) (A B : DNF) (hA : DWF n A) (hB : DWF n B) :
    dnfSubsetF n A B = true ↔ dnfSem A ⊆ dnfSem B := by
  unfold dnfSubsetF
  simp only [List.all_eq_true, Bool.or_eq_true, List.any_eq_true]
  constructor
  · rintro h x ⟨P, hP, hx⟩
    rcases h P hP with ⟨Q, hQ, hs⟩ | hs
    · exact ⟨Q, hQ, (subsetB_iff n P Q (hA P hP) (hB Q hQ)).mp hs hx⟩
    · have hP1 : DWF n [P] := fun R hR => by rw [List.mem_singleton] at hR; rw [hR]; exact hA P hP
      exact (dnfSubset_iff n [P] B hP1 hB).mp hs ⟨P, List.mem_singleton.mpr rfl, hx⟩
  · intro h P hP
    right
    have hP1 : DWF n [P] := fun R hR => by rw [List.mem_singleton] at hR; rw [hR]; exact hA P hP
    rw [dnfSubset_iff n [P] B hP1 hB]
    rintro x ⟨R, hR, hx⟩
    rw [List.mem_singleton] at hR; subst hR
    exact h ⟨R, hP, hx⟩

theorem dnfEquivF_iff (n : Nat) (A B : DNF) (hA : DWF n A) (hB : DWF n B) :
    dnfEquivF n A B = true ↔ dnfSem A = dnfSem B := by
  unfold dnfEquivF
  rw [Bool.and_eq_true, dnfSubsetF_iff n A B hA hB, dnfSubsetF_iff n B A hB hA]
  exact ⟨fun ⟨a, b⟩ => Set.Subset.antisymm a b, fun h => ⟨h ▸ subset_rfl, h ▸ subset_rfl⟩⟩

/-- **equality of unions is decided exactly** -/
theorem dnfEquiv_iff (n : Nat) (A B : DNF) (hA : DWF n A) (hB : DWF n B) :
    dnfEquiv n A B = true ↔ dnfSem A = dnfSem B := by
  unfold dnfEquiv
  rw [Bool.and_eq_true, dnfSubset_iff n A B hA hB, dnfSubset_iff n B A hB hA]
  exact ⟨fun ⟨a, b⟩ => Set.Subset.antisymm a b, fun h => ⟨h ▸ subset_rfl, h ▸ subset_rfl⟩⟩

theorem dnfDisjoint_iff (n : Nat) (A B : DNF) (hA : DWF n A) (hB : DWF n B) :
    dnfDisjoint n A B = true ↔ dnfSem A ∩ dnfSem B = ∅ := by
  unfold dnfDisjoint
  simp only [List.all_eq_true]
  rw [Set.eq_empty_iff_forall_notMem]
  constructor
  · rintro h x ⟨⟨P, hP, hx⟩, ⟨Q, hQ, hy⟩⟩
    have := (disjointB_iff n P Q (hA P hP) (hB Q hQ)).mp (h P hP Q hQ)
    have hx' : x ∈ sem P ∩ sem Q := ⟨hx, hy⟩
    rw [this] at hx'
    exact hx'
  · intro h P hP Q hQ
    rw [disjointB_iff n P Q (hA P hP) (hB Q hQ), Set.eq_empty_iff_forall_notMem]
    rintro x ⟨hx, hy⟩
    exact h x ⟨⟨P, hP, hx⟩, ⟨Q, hQ, hy⟩⟩

theorem dnfEmpty_iff (n : Nat) (A : DNF) (hA : DWF n A) : dnfEmpty n A = true ↔ dnfSem A = ∅ := by
  unfold dnfEmpty
  simp only [List.all_eq_true]
  rw [Set.eq_empty_iff_forall_notMem]
  constructor
  · rintro h x ⟨P, hP, hx⟩
    have := (isEmptyB_iff n P (hA P hP)).mp (h P hP)
    have hx' : x ∈ sem P := hx
    rw [this] at hx'
    exact hx'
  · intro h P hP
    rw [isEmptyB_iff n P (hA P hP), Set.eq_empty_iff_forall_notMem]
    intro x hx
    exact h x ⟨P, hP, hx⟩

theorem dnfMeet_sem (A B : DNF) : dnfSem (dnfMeet A B) = dnfSem A ∩ dnfSem B := by
  ext x
  simp only [dnfSem, dnfMeet, Set.mem_ofPred_eq, List.mem_flatMap, List.mem_map, Set.mem_inter_iff]
  constructor
  · rintro ⟨_, ⟨P, hP, Q, hQ, rfl⟩, hx⟩
    rw [Sat_append] at hx
    exact ⟨⟨P, hP, hx.1⟩, ⟨Q, hQ, hx.2⟩⟩
  · rintro ⟨⟨P, hP, h1⟩, ⟨Q, hQ, h2⟩⟩
    exact ⟨P ++ Q, ⟨P, hP, Q, hQ, rfl⟩, (Sat_append P Q x).mpr ⟨h1, h2⟩⟩

theorem dnfAddCons_sem (A : DNF) (cs : List Con) : dnfSem (dnfAddCons A cs) = dnfSem A ∩ sem cs := by
  ext x
  simp only [dnfSem, dnfAddCons, Set.mem_ofPred_eq, List.mem_map, Set.mem_inter_iff, sem]
  constructor
  · rintro ⟨_, ⟨P, hP, rfl⟩, hx⟩
    rw [Sat_append] at hx
    exact ⟨⟨P, hP, hx.1⟩, hx.2⟩
  · rintro ⟨⟨P, hP, h1⟩, h2⟩
    exact ⟨P ++ cs, ⟨P, hP, rfl⟩, (Sat_append P cs x).mpr ⟨h1, h2⟩⟩

end PPLV.Powerset
