import PPLV.Powerset.ProofsUnion

/-!
# C09 — `collapse`, `add_…_preserve_reduction`, `least_upper_bound_assign`,
`pairwise_apply_assign`, `definitely_entails`, `operator==`, disjunct-wise transformers
-/
namespace PPLV.Powerset
open PPLV

variable (d : Dom)

/-! ### `collapse()` / `collapse(max_disjuncts)` -/

/-- the base-level upper bound of a non-empty sequence, folded in iteration order -/
def joinAll (x : d.D) (post : List d.D) : d.D := post.foldl d.join x

/-- `collapse()`: exactly one disjunct, namely the base-level upper bound of all of them -/
theorem collapse_seq (y : d.D) (ys : List d.D) (r : Bool) :
    (collapse d ⟨y :: ys, r⟩).seq = [joinAll d y ys] := by
  simp [collapse, collapseAt, joinAll]

theorem collapse_nil (r : Bool) : (collapse d ⟨[], r⟩).seq = [] := by simp [collapse]

theorem collapse_ge (x : PS d) (p : Pt) : d.U x.seq p → d.U (collapse d x).seq p := by
  cases x with
  | mk seq r =>
    cases seq with
    | nil => simp [collapse]
    | cons y ys =>
      intro h
      rw [collapse_seq]
      simp only [U_cons, U_nil, or_false]
      exact foldl_join_ge d y ys p ((U_cons d y ys p).mp h)

theorem take_append_drop_cons {α} (s : List α) (n : Nat) (y : α) (ys : List α) (h : s.drop n = y :: ys) :
    s = s.take n ++ y :: ys := by
  rw [← h, List.take_append_drop]

/-- `collapse(max)`: at most `max` disjuncts afterwards, union only enlarged -/
theorem collapseMax_length (maxD : Nat) (hm : 0 < maxD) (x : PS d) :
    (collapseMax d false maxD x).seq.length ≤ maxD := by
  unfold collapseMax
  by_cases h : (omegaReduce d false x).seq.length > maxD
  · simp only [h, if_true]
    cases hd : (omegaReduce d false x).seq.drop (maxD - 1) with
    | nil =>
      have : ((omegaReduce d false x).seq.drop (maxD - 1)).length = 0 := by rw [hd]; rfl
      rw [List.length_drop] at this
      omega
    | cons y ys =>
      simp only [collapseAt, List.length_append, List.length_cons, List.length_nil]
      have h1 := List.length_filter_le (fun z => !d.leq z (List.foldl d.join y ys)) ((omegaReduce d false x).seq.take (maxD - 1))
      have h2 : ((omegaReduce d false x).seq.take (maxD - 1)).length ≤ maxD - 1 := by
        rw [List.length_take]; omega
      omega
  · simp only [h, if_false]
    omega

theorem collapseMax_ge (abandon : Bool) (maxD : Nat) (x : PS d) (p : Pt) :
    d.U x.seq p → d.U (collapseMax d abandon maxD x).seq p := by
  intro hx
  have h1 := omegaReduce_ge d abandon x p hx
  unfold collapseMax
  by_cases h : (omegaReduce d abandon x).seq.length > maxD
  · simp only [h, if_true]
    cases hd : (omegaReduce d abandon x).seq.drop (maxD - 1) with
    | nil => exact h1
    | cons y ys =>
      simp only
      apply collapseAt_ge
      rw [← take_append_drop_cons _ _ _ _ hd]
      exact h1
  · simp only [h, if_false]
    exact h1

/-! ### `add_non_bottom_disjunct_preserve_reduction` -/

theorem addScan_U (x : d.D) (rng : List d.D) (p : Pt) :
    (d.γ x p ∨ d.U (addScan d x rng).1 p) ↔ (d.γ x p ∨ d.U rng p) := by
  induction rng with
  | nil => simp [addScan]
  | cons xv r ih =>
    unfold addScan
    by_cases h1 : d.leq x xv = true
    · simp [h1]
    · by_cases h2 : d.leq xv x = true
      · simp only [h1, h2, if_true, if_false, Bool.false_eq_true, U_cons]
        rw [ih]
        constructor
        · rintro (h | h)
          · exact Or.inl h
          · exact Or.inr (Or.inr h)
        · rintro (h | h | h)
          · exact Or.inl h
          · exact Or.inl (d.leq_sound _ _ h2 p h)
          · exact Or.inr h
      · simp only [h1, h2, if_false, Bool.false_eq_true, U_cons]
        constructor
        · rintro (h | h | h)
          · exact Or.inl h
          · exact Or.inr (Or.inl h)
          · rcases ih.mp (Or.inr h) with h | h
            · exact Or.inl h
            · exact Or.inr (Or.inr h)
        · rintro (h | h | h)
          · exact Or.inl h
          · exact Or.inr (Or.inl h)
          · rcases ih.mpr (Or.inr h) with h | h
            · exact Or.inl h
            · exact Or.inr (Or.inr h)

theorem addScan_absorbed (x : d.D) (rng : List d.D) (h : (addScan d x rng).2 = true) (p : Pt) :
    d.γ x p → d.U (addScan d x rng).1 p := by
  induction rng with
  | nil => simp [addScan] at h
  | cons xv r ih =>
    unfold addScan at h ⊢
    by_cases h1 : d.leq x xv = true
    · simp only [h1, if_true, U_cons]
      exact fun hx => Or.inl (d.leq_sound _ _ h1 p hx)
    · by_cases h2 : d.leq xv x = true
      · simp only [h1, h2, if_true, if_false, Bool.false_eq_true] at h ⊢
        exact ih h
      · simp only [h1, h2, if_false, Bool.false_eq_true, U_cons] at h ⊢
        exact fun hx => Or.inr (ih h hx)

/-- adding a disjunct "preserving reduction" adds exactly its points to the union -/
theorem addNB_U (x : d.D) (pre rng : List d.D) (p : Pt) :
    d.U ((addNB d x pre rng).1 ++ (addNB d x pre rng).2) p ↔ (d.U (pre ++ rng) p ∨ d.γ x p) := by
  have e := addScan_U d x rng p
  unfold addNB
  by_cases hb : (addScan d x rng).2 = true
  · have c := addScan_absorbed d x rng hb p
    simp only [hb, if_true, U_append]
    constructor
    · rintro (h | h)
      · exact Or.inl (Or.inl h)
      · rcases e.mp (Or.inr h) with h | h
        · exact Or.inr h
        · exact Or.inl (Or.inr h)
    · rintro ((h | h) | h)
      · exact Or.inl h
      · rcases e.mpr (Or.inr h) with h | h
        · exact Or.inr (c h)
        · exact Or.inr h
      · exact Or.inr (c h)
  · simp only [hb, if_false, Bool.false_eq_true]
    cases hr : (addScan d x rng).1 with
    | nil =>
      rw [hr] at e
      have e' : d.U rng p → d.γ x p := by
        intro h
        rcases e.mpr (Or.inr h) with h | h
        · exact h
        · exact absurd h (by simp)
      simp only [U_append, U_cons, U_nil, or_false]
      constructor
      · intro h; grind
      · intro h; grind
    | cons z zs =>
      rw [hr] at e
      simp only [U_append, U_cons, U_nil, or_false] at e ⊢
      constructor
      · intro h; have := e.mp; grind
      · intro h; have := e.mpr; grind

theorem addNBwhole_U (x : d.D) (s : List d.D) (p : Pt) :
    d.U (addNBwhole d x s) p ↔ (d.U s p ∨ d.γ x p) := by
  unfold addNBwhole
  rw [addNB_U]; simp

theorem addDisjunct_U (x : PS d) (y : d.D) (p : Pt) :
    d.U (addDisjunct d x y).seq p ↔ (d.U x.seq p ∨ d.γ y p) := by
  simp [addDisjunct]

/-! ### `least_upper_bound_assign` -/

theorem foldl_addNB_U (ys : List d.D) (pre rng : List d.D) (p : Pt) :
    let r := ys.foldl (fun (st : List d.D × List d.D) yi => addNB d yi st.1 st.2) (pre, rng)
    d.U (r.1 ++ r.2) p ↔ (d.U (pre ++ rng) p ∨ d.U ys p) := by
  induction ys generalizing pre rng with
  | nil => simp
  | cons y ys ih =>
    simp only [List.foldl_cons]
    have := ih (addNB d y pre rng).1 (addNB d y pre rng).2
    simp only at this
    rw [this, addNB_U, U_cons]
    constructor
    · rintro ((h | h) | h)
      · exact Or.inl h
      · exact Or.inr (Or.inl h)
      · exact Or.inr (Or.inr h)
    · rintro (h | h | h)
      · exact Or.inl (Or.inl h)
      · exact Or.inl (Or.inr h)
      · exact Or.inr h

/-- **upper bound**: the union of the result is the union of the two unions -/
theorem lub_U (x y : PS d) (p : Pt) :
    d.U (lub d false x y).1.seq p ↔ (d.U x.seq p ∨ d.U y.seq p) := by
  unfold lub
  simp only
  have := foldl_addNB_U d (omegaReduce d false y).seq [] (omegaReduce d false x).seq p
  simp only at this
  rw [this, List.nil_append, omegaReduce_U, omegaReduce_U]

/-- the argument keeps its union (its mutable representation is omega-reduced) -/
theorem lub_arg_U (x y : PS d) (p : Pt) : d.U (lub d false x y).2.seq p ↔ d.U y.seq p := by
  unfold lub; simp only; rw [omegaReduce_U]

theorem lub_ge (abandon : Bool) (x y : PS d) (p : Pt) :
    (d.U x.seq p ∨ d.U y.seq p) → d.U (lub d abandon x y).1.seq p := by
  unfold lub
  simp only
  have := foldl_addNB_U d (omegaReduce d abandon y).seq [] (omegaReduce d abandon x).seq p
  simp only at this
  rw [this, List.nil_append]
  rintro (h | h)
  · exact Or.inl (omegaReduce_ge d abandon x p h)
  · exact Or.inr (omegaReduce_ge d abandon y p h)

/-! ### `pairwise_apply_assign` -/

theorem pairwise_raw_U (op : d.D → d.D → d.D) (xs ys : List d.D) (p : Pt) :
    d.U (xs.flatMap fun xi => (ys.map fun yi => op xi yi).filter fun z => !d.isBottom z) p ↔
      ∃ xi ∈ xs, ∃ yi ∈ ys, d.γ (op xi yi) p := by
  simp only [Dom.U, List.mem_flatMap, List.mem_filter, List.mem_map]
  constructor
  · rintro ⟨z, ⟨xi, hxi, ⟨yi, hyi, rfl⟩, _⟩, hz⟩
    exact ⟨xi, hxi, yi, hyi, hz⟩
  · rintro ⟨xi, hxi, yi, hyi, hz⟩
    refine ⟨op xi yi, ⟨xi, hxi, ⟨yi, hyi, rfl⟩, ?_⟩, hz⟩
    cases hb : d.isBottom (op xi yi) with
    | false => rfl
    | true => exact absurd hz (d.isBottom_sound _ hb p)

/-- `pairwise_apply_assign` with a binary operator that is exact for intersection:
    the union of the result is the intersection of the unions -/
theorem pairwiseApply_exact_U (op : d.D → d.D → d.D)
    (hop : ∀ a b p, d.γ (op a b) p ↔ (d.γ a p ∧ d.γ b p)) (x y : PS d) (p : Pt) :
    d.U (pairwiseApply d false op x y).1.seq p ↔ (d.U x.seq p ∧ d.U y.seq p) := by
  unfold pairwiseApply
  simp only
  rw [pairwise_raw_U, ← omegaReduce_U d x, ← omegaReduce_U d y]
  simp only [Dom.U, hop]
  constructor
  · rintro ⟨xi, hxi, yi, hyi, h1, h2⟩
    exact ⟨⟨xi, hxi, h1⟩, ⟨yi, hyi, h2⟩⟩
  · rintro ⟨⟨xi, hxi, h1⟩, ⟨yi, hyi, h2⟩⟩
    exact ⟨xi, hxi, yi, hyi, h1, h2⟩

/-- with a merely sound meet the result still contains the intersection of the unions -/
theorem meetAssign_ge (abandon : Bool) (x y : PS d) (p : Pt) :
    (d.U x.seq p ∧ d.U y.seq p) → d.U (meetAssign d abandon x y).1.seq p := by
  rintro ⟨hx, hy⟩
  unfold meetAssign pairwiseApply
  simp only
  rw [pairwise_raw_U]
  obtain ⟨xi, hxi, h1⟩ := omegaReduce_ge d abandon x p hx
  obtain ⟨yi, hyi, h2⟩ := omegaReduce_ge d abandon y p hy
  exact ⟨xi, hxi, yi, hyi, d.meet_sound _ _ p h1 h2⟩

/-! ### `definitely_entails`, `operator==` -/

theorem entails_inner (xi : d.D) (ys : List d.D) (h : definitelyEntails.inner d xi ys = true) :
    ∃ yi ∈ ys, d.leq xi yi = true := by
  induction ys with
  | nil => simp [definitelyEntails.inner] at h
  | cons y ys ih =>
    unfold definitelyEntails.inner at h
    by_cases h1 : d.leq xi y = true
    · exact ⟨y, List.mem_cons_self, h1⟩
    · simp only [h1, if_false, Bool.false_eq_true] at h
      obtain ⟨yi, hy, hl⟩ := ih h
      exact ⟨yi, List.mem_cons_of_mem _ hy, hl⟩

theorem entails_outer (xs ys : List d.D) (h : definitelyEntails.outer d ys xs = true) :
    ∀ xi ∈ xs, ∃ yi ∈ ys, d.leq xi yi = true := by
  induction xs with
  | nil => intro xi hxi; cases hxi
  | cons x xs ih =>
    unfold definitelyEntails.outer at h
    by_cases h1 : definitelyEntails.inner d x ys = true
    · simp only [h1, if_true] at h
      intro xi hxi
      rcases List.mem_cons.mp hxi with rfl | hxi
      · exact entails_inner d _ ys h1
      · exact ih h xi hxi
    · simp [h1] at h

/-- **entailment implies geometric containment** -/
theorem definitelyEntails_sound (xs ys : List d.D) (h : definitelyEntails d xs ys = true) (p : Pt) :
    d.U xs p → d.U ys p := by
  rintro ⟨xi, hxi, hp⟩
  obtain ⟨yi, hyi, hl⟩ := entails_outer d xs ys h xi hxi
  exact ⟨yi, hyi, d.leq_sound _ _ hl p hp⟩

theorem eraseFirst_spec (xi : d.D) (z z' : List d.D) (h : eraseFirst d xi z = some z') (p : Pt) :
    ∃ zi, d.eqv zi xi = true ∧ (d.U z p ↔ (d.γ zi p ∨ d.U z' p)) := by
  induction z generalizing z' with
  | nil => simp [eraseFirst] at h
  | cons a as ih =>
    unfold eraseFirst at h
    by_cases h1 : d.eqv a xi = true
    · simp only [h1, if_true, Option.some.injEq] at h
      subst h
      exact ⟨a, h1, by simp⟩
    · simp only [h1, if_false, Bool.false_eq_true, Option.map_eq_some_iff] at h
      obtain ⟨w, hw, rfl⟩ := h
      obtain ⟨zi, hz, he⟩ := ih w hw
      refine ⟨zi, hz, ?_⟩
      simp only [U_cons, he]
      constructor
      · rintro (h | h | h)
        · exact Or.inr (Or.inl h)
        · exact Or.inl h
        · exact Or.inr (Or.inr h)
      · rintro (h | h | h)
        · exact Or.inr (Or.inl h)
        · exact Or.inl h
        · exact Or.inr (Or.inr h)

theorem eraseFirst_length (xi : d.D) (z z' : List d.D) (h : eraseFirst d xi z = some z') :
    z.length = z'.length + 1 := by
  induction z generalizing z' with
  | nil => simp [eraseFirst] at h
  | cons a as ih =>
    unfold eraseFirst at h
    by_cases h1 : d.eqv a xi = true
    · simp only [h1, if_true, Option.some.injEq] at h
      subst h; rfl
    · simp only [h1, if_false, Bool.false_eq_true, Option.map_eq_some_iff] at h
      obtain ⟨w, hw, rfl⟩ := h
      simp [ih w hw]

theorem eq_go_sound (xs z : List d.D) (hl : xs.length = z.length) (h : eq.go d xs z = true) (p : Pt) :
    d.U xs p ↔ d.U z p := by
  induction xs generalizing z with
  | nil =>
    cases z with
    | nil => simp
    | cons a as => simp at hl
  | cons x xs ih =>
    unfold eq.go at h
    cases he : eraseFirst d x z with
    | none => simp [he] at h
    | some z' =>
      simp only [he] at h
      obtain ⟨zi, hz, hu⟩ := eraseFirst_spec d x z z' he p
      have hlen := eraseFirst_length d x z z' he
      have := ih z' (by simp only [List.length_cons] at hl; omega) h
      rw [U_cons, hu, this, d.eqv_sound zi x hz p]

/-- `operator==` answers `true` only for powersets with the same union -/
theorem eq_sound (x y : PS d) (h : eq d false x y = true) (p : Pt) : d.U x.seq p ↔ d.U y.seq p := by
  unfold eq at h
  simp only at h
  by_cases hl : (omegaReduce d false x).seq.length = (omegaReduce d false y).seq.length
  · simp only [hl, bne_self_eq_false, if_false, Bool.false_eq_true] at h
    rw [← omegaReduce_U d x, ← omegaReduce_U d y]
    exact eq_go_sound d _ _ hl h p
  · have : ((omegaReduce d false x).seq.length != (omegaReduce d false y).seq.length) = true := by
      simpa using hl
    simp [this] at h

/-! ### disjunct-wise transformers -/

/-- a base-level operator that is the exact image under a relation `R` acts on the union as that
    image (`add_constraint`: `R p q := p = q ∧ c.sat p`; `affine_image`; dimension changes …) -/
theorem mapDisjuncts_exact (f : d.D → d.D) (R : Pt → Pt → Prop)
    (hf : ∀ a q, d.γ (f a) q ↔ ∃ p, d.γ a p ∧ R p q) (x : PS d) (q : Pt) :
    d.U (mapDisjuncts d f x).seq q ↔ ∃ p, d.U x.seq p ∧ R p q := by
  simp only [mapDisjuncts, Dom.U, List.mem_map]
  constructor
  · rintro ⟨_, ⟨a, ha, rfl⟩, h⟩
    obtain ⟨p, hp, hr⟩ := (hf a q).mp h
    exact ⟨p, ⟨a, ha, hp⟩, hr⟩
  · rintro ⟨p, ⟨a, ha, hp⟩, hr⟩
    exact ⟨f a, ⟨a, ha, rfl⟩, (hf a q).mpr ⟨p, hp, hr⟩⟩

/-- … and a merely sound one (boxes, BD shapes, octagons) contains the image of the union -/
theorem mapDisjuncts_sound (f : d.D → d.D) (R : Pt → Pt → Prop)
    (hf : ∀ a p q, d.γ a p → R p q → d.γ (f a) q) (x : PS d) (q : Pt) :
    (∃ p, d.U x.seq p ∧ R p q) → d.U (mapDisjuncts d f x).seq q := by
  simp only [mapDisjuncts, Dom.U, List.mem_map]
  rintro ⟨p, ⟨a, ha, hp⟩, hr⟩
  exact ⟨f a, ⟨a, ha, rfl⟩, hf a p q hp hr⟩

end PPLV.Powerset
