import PPLV.Powerset.Exact

/-!
# C09 stage 2 — specification vocabulary for the sequence-level theorems (no Mathlib)

`OmegaReduced o s` is exactly what `Powerset<D>::check_omega_reduced()` tests
(Powerset_templates.hh:137): no bottom disjunct, no disjunct entails another one (at a different
position).  `Inv o x` is the class invariant the `reduced` flag promises (`OK()`, ibid. 331).
-/
namespace PPLV.Powerset.Exact
open PPLV

variable (o : Ops)

/-- neither entails the other -/
def Incomp (a b : o.D) : Prop := o.leq a b = false ∧ o.leq b a = false

/-- no disjunct entails a disjunct at another position -/
def Antichain (s : List o.D) : Prop := s.Pairwise (Incomp o)

def OmegaReduced (s : List o.D) : Prop := (∀ a ∈ s, o.isBottom a = false) ∧ Antichain o s

/-- the promise of the lazy flag: set ⇒ the sequence is omega-reduced -/
def Inv (x : PS o.D) : Prop := x.reduced = true → OmegaReduced o x.seq

/-- `definitely_entails` is a preorder (true of every exact base domain: it decides inclusion) -/
structure IsPreorder : Prop where
  refl : ∀ a, o.leq a a = true
  trans : ∀ a b c, o.leq a b = true → o.leq b c = true → o.leq a c = true

/-- **which disjuncts `omega_reduce` keeps** (for a preorder): the disjunct `x` at the split
    `pre ++ x :: post` survives iff it entails no EARLIER disjunct (so: it is not strictly below an
    earlier one, and it is the first of its class of mutually entailing disjuncts) and every LATER
    disjunct it entails entails it back (it is not strictly below a later one).  In other words:
    the maximal disjuncts, each class represented by its first occurrence, in the original order. -/
def omegaSpec : List o.D → List o.D → List o.D
  | _, [] => []
  | pre, x :: post =>
    (if pre.all (fun y => !o.leq x y) && post.all (fun y => !o.leq x y || o.leq y x) then [x] else [])
      ++ omegaSpec (pre ++ [x]) post

/-- equalities split as `linear_partition` does (`le <= 0` first, then `le >= 0`) -/
def splitEqs (cs : List LCon) : List LCon :=
  cs.flatMap fun c => if c.rel = .eq then [c.exprLe, c.exprGe] else [c]

/-- the complement `linear_partition_aux` adds to the residue -/
def negCon (c : LCon) : LCon := if c.rel = .gt then c.exprLe else c.exprLt

end PPLV.Powerset.Exact
