import PPLV.Powerset.ExactOmega

/-!
# C09 stage 2 — `add_non_bottom_disjunct_preserve_reduction`, `least_upper_bound_assign`,
`collapse` at the sequence level (model `Exact`, raw `Ops`)
-/
namespace PPLV.Powerset.Exact
open PPLV

variable (o : Ops)

/-! ## B. `addScan` / `addNB` -/

theorem addScan_early (x : o.D) (l1 : List o.D) (xv : o.D) (l2 : List o.D)
    (hx : o.leq x xv = true) (h1 : ∀ z ∈ l1, o.leq x z = false) :
    addScan o x (l1 ++ xv :: l2) = (l1.filter (fun z => !o.leq z x) ++ xv :: l2, true) := by
  induction l1 with
  | nil => simp [addScan, hx]
  | cons z l1 ih =>
    have hz : o.leq x z = false := h1 z (List.mem_cons_self ..)
    have ih' := ih (fun w hw => h1 w (List.mem_cons_of_mem _ hw))
    simp only [List.cons_append, addScan, hz, Bool.false_eq_true, ↓reduceIte, ih']
    cases hzx : o.leq z x <;> simp [hzx]

theorem addScan_push (x : o.D) (rng : List o.D) (h : ∀ z ∈ rng, o.leq x z = false) :
    addScan o x rng = (rng.filter (fun z => !o.leq z x), false) := by
  induction rng with
  | nil => simp [addScan]
  | cons z l ih =>
    have hz : o.leq x z = false := h z (List.mem_cons_self ..)
    have ih' := ih (fun w hw => h w (List.mem_cons_of_mem _ hw))
    simp only [addScan, hz, Bool.false_eq_true, ↓reduceIte, ih']
    cases hzx : o.leq z x <;> simp [hzx]

/-- the first disjunct of the range that `x` entails, if any -/
theorem addScan_cases (x : o.D) (rng : List o.D) :
    (∃ l1 xv l2, rng = l1 ++ xv :: l2 ∧ o.leq x xv = true ∧ ∀ z ∈ l1, o.leq x z = false) ∨
      (∀ z ∈ rng, o.leq x z = false) := by
  induction rng with
  | nil => right; simp
  | cons z l ih =>
    cases hz : o.leq x z with
    | true => exact Or.inl ⟨[], z, l, by simp, hz, by simp⟩
    | false =>
      rcases ih with ⟨l1, xv, l2, e, a, b⟩ | h
      · refine Or.inl ⟨z :: l1, xv, l2, by simp [e], a, ?_⟩
        intro w hw
        rcases List.mem_cons.1 hw with rfl | hw
        · exact hz
        · exact b w hw
      · right
        intro w hw
        rcases List.mem_cons.1 hw with rfl | hw
        · exact hz
        · exact h w hw

/-- **B.6** `d ⊑ xv`: immediate return, the disjuncts erased so far stay erased -/
theorem addNB_spec_early (x : o.D) (pre rng l1 : List o.D) (xv : o.D) (l2 : List o.D)
    (e : rng = l1 ++ xv :: l2) (hx : o.leq x xv = true) (h1 : ∀ z ∈ l1, o.leq x z = false) :
    addNB o x pre rng = (pre, l1.filter (fun z => !o.leq z x) ++ xv :: l2) := by
  subst e
  simp [addNB, addScan_early o x l1 xv l2 hx h1]

theorem addNB_push_eq (x : o.D) (pre rng : List o.D) (h : ∀ z ∈ rng, o.leq x z = false) :
    addNB o x pre rng =
      if rng.filter (fun z => !o.leq z x) = [] then (pre ++ [x], [])
      else (pre, rng.filter (fun z => !o.leq z x) ++ [x]) := by
  simp only [addNB, addScan_push o x rng h, Bool.false_eq_true, ↓reduceIte]
  cases hf : rng.filter (fun z => !o.leq z x) <;> simp

/-- **B.7** `d` entails no disjunct of the range: the disjuncts that entail `d` are erased, `d` is
    pushed at the back; it lands outside the range iff the whole range was erased -/
theorem addNB_spec_push (x : o.D) (pre rng : List o.D) (h : ∀ z ∈ rng, o.leq x z = false) :
    (addNB o x pre rng).1 ++ (addNB o x pre rng).2 =
        pre ++ rng.filter (fun z => !o.leq z x) ++ [x] ∧
      ((addNB o x pre rng).2 = [] ↔ rng.filter (fun z => !o.leq z x) = []) ∧
      (addNB o x pre rng).1 =
        if rng.filter (fun z => !o.leq z x) = [] then pre ++ [x] else pre := by
  rw [addNB_push_eq o x pre rng h]
  by_cases hf : rng.filter (fun z => !o.leq z x) = []
  · simp [hf]
  · simp [hf]

theorem addNB_fst_mem (x : o.D) (pre rng : List o.D) :
    ∀ p ∈ (addNB o x pre rng).1, p ∈ pre ∨ p = x := by
  intro p hp
  unfold addNB at hp
  simp only at hp
  split at hp
  · exact Or.inl hp
  · split at hp
    · simpa using hp
    · exact Or.inl hp

/-- the new `first` range is empty whenever the new disjunct went before it -/
theorem addNB_fst_ne (x : o.D) (pre rng : List o.D) (h : (addNB o x pre rng).1 ≠ pre) :
    (addNB o x pre rng).2 = [] ∧ (addNB o x pre rng).1 = pre ++ [x] := by
  unfold addNB at h ⊢
  simp only at h ⊢
  split
  · rename_i h1; simp [h1] at h
  · rename_i h1
    split
    · simp
    · rename_i h2; simp [h1, h2] at h

/-- the result is a sublist of `pre ++ rng ++ [x]` -/
theorem addNB_sublist (x : o.D) (pre rng : List o.D) :
    ((addNB o x pre rng).1 ++ (addNB o x pre rng).2).Sublist (pre ++ rng ++ [x]) := by
  rcases addScan_cases o x rng with ⟨l1, xv, l2, e, a, b⟩ | h
  · rw [addNB_spec_early o x pre rng l1 xv l2 e a b, e]
    simp only [List.append_assoc]
    refine List.Sublist.append (List.Sublist.refl _) ?_
    refine List.Sublist.append List.filter_sublist ?_
    simp
  · rw [(addNB_spec_push o x pre rng h).1]
    refine List.Sublist.append ?_ (List.Sublist.refl _)
    exact List.Sublist.append (List.Sublist.refl _) List.filter_sublist

/-- **B.8** -/
theorem addNB_omegaReduced (x : o.D) (pre rng : List o.D) (hr : OmegaReduced o (pre ++ rng))
    (hb : o.isBottom x = false) (hp : ∀ p ∈ pre, Incomp o x p) :
    OmegaReduced o ((addNB o x pre rng).1 ++ (addNB o x pre rng).2) := by
  rcases addScan_cases o x rng with ⟨l1, xv, l2, e, a, b⟩ | h
  · rw [addNB_spec_early o x pre rng l1 xv l2 e a b]
    refine hr.sublist ?_
    subst e
    refine List.Sublist.append (List.Sublist.refl _) ?_
    exact List.Sublist.append List.filter_sublist (List.Sublist.refl _)
  · rw [(addNB_spec_push o x pre rng h).1]
    have hs : (pre ++ rng.filter (fun z => !o.leq z x)).Sublist (pre ++ rng) :=
      List.Sublist.append (List.Sublist.refl _) List.filter_sublist
    have h0 := hr.sublist hs
    refine ⟨?_, ?_⟩
    · intro a ha
      rcases List.mem_append.1 ha with ha | ha
      · exact h0.1 a ha
      · rw [List.mem_singleton.1 ha]; exact hb
    · unfold Antichain
      rw [List.pairwise_append]
      refine ⟨h0.2, by simp, ?_⟩
      intro a ha c hc
      rw [List.mem_singleton.1 hc]
      rcases List.mem_append.1 ha with ha | ha
      · exact (hp a ha).symm
      · have := List.mem_filter.1 ha
        exact ⟨by simpa using this.2, h a this.1⟩

theorem addNBwhole_omegaReduced (x : o.D) (s : List o.D) (hr : OmegaReduced o s)
    (hb : o.isBottom x = false) : OmegaReduced o (addNBwhole o x s) := by
  unfold addNBwhole
  exact addNB_omegaReduced o x [] s (by simpa using hr) hb (by simp)

/-- `addNBwhole` on a sequence none of whose disjuncts is entailed by `x` -/
theorem addNBwhole_push (x : o.D) (s : List o.D) (h : ∀ z ∈ s, o.leq x z = false) :
    addNBwhole o x s = s.filter (fun z => !o.leq z x) ++ [x] := by
  unfold addNBwhole
  simpa using (addNB_spec_push o x [] s h).1

/-! ## B.9 the fold of `least_upper_bound_assign` / `pairwise_reduce` / `BGP99` -/

/-- the fold `for (yi …) first = add_non_bottom_disjunct_preserve_reduction(*yi, first, end)` -/
def addFold (un : List o.D) (st : List o.D × List o.D) : List o.D × List o.D :=
  un.foldl (fun (st : List o.D × List o.D) yi => addNB o yi st.1 st.2) st

theorem addFold_omegaReduced_gen (un pre rng : List o.D) (hr : OmegaReduced o (pre ++ rng))
    (hu : OmegaReduced o un) (hp : ∀ p ∈ pre, ∀ y ∈ un, Incomp o y p) :
    OmegaReduced o ((addFold o un (pre, rng)).1 ++ (addFold o un (pre, rng)).2) := by
  induction un generalizing pre rng with
  | nil => simpa [addFold] using hr
  | cons y un ih =>
    have hstep : addFold o (y :: un) (pre, rng) = addFold o un (addNB o y pre rng) := by
      simp [addFold]
    rw [hstep]
    have hy : o.isBottom y = false := hu.1 y (List.mem_cons_self ..)
    have hu' : OmegaReduced o un := hu.sublist (List.sublist_cons_self _ _)
    have hpw := List.pairwise_cons.1 hu.2
    refine ih _ _ ?_ hu' ?_
    · exact addNB_omegaReduced o y pre rng hr hy (fun p hp' => hp p hp' y (List.mem_cons_self ..))
    · intro p hp' z hz
      rcases addNB_fst_mem o y pre rng p hp' with h | h
      · exact hp p h z (List.mem_cons_of_mem _ hz)
      · rw [h]; exact (hpw.1 z hz).symm

/-- **B.9 (generic)** adding an omega-reduced list `un` with the range form to an omega-reduced
    `nx`: the result is omega-reduced (used by `lub`, `pairwise_reduce`, `BGP99`) -/
theorem foldl_addNB_omegaReduced (nx un : List o.D) (hn : OmegaReduced o nx)
    (hu : OmegaReduced o un) :
    OmegaReduced o
      ((un.foldl (fun (st : List o.D × List o.D) yi => addNB o yi st.1 st.2) ([], nx)).1 ++
       (un.foldl (fun (st : List o.D × List o.D) yi => addNB o yi st.1 st.2) ([], nx)).2) :=
  addFold_omegaReduced_gen o un [] nx (by simpa using hn) hu (by simp)

/-- the shape invariant of the fold: once a disjunct went before `first`, the range is empty -/
theorem addFold_shape (un pre rng : List o.D) (h : pre ≠ [] → rng = []) :
    (addFold o un (pre, rng)).1 ≠ [] → (addFold o un (pre, rng)).2 = [] := by
  induction un generalizing pre rng with
  | nil => simpa [addFold] using h
  | cons y un ih =>
    have hstep : addFold o (y :: un) (pre, rng) = addFold o un (addNB o y pre rng) := by
      simp [addFold]
    rw [hstep]
    have key : (addNB o y pre rng).1 ≠ [] → (addNB o y pre rng).2 = [] := ?_
    · exact ih (addNB o y pre rng).1 (addNB o y pre rng).2 key
    intro hne
    by_cases hc : (addNB o y pre rng).1 = pre
    · rw [hc] at hne
      have hr := h hne
      subst hr
      have := addNB_push_eq o y pre [] (by simp)
      simp only [List.filter_nil, ↓reduceIte] at this
      rw [this]
    · exact (addNB_fst_ne o y pre rng hc).1

/-- every disjunct of the result comes from `pre`, `rng` or `un` -/
theorem addFold_subset (un pre rng : List o.D) :
    ∀ a ∈ (addFold o un (pre, rng)).1 ++ (addFold o un (pre, rng)).2,
      a ∈ pre ∨ a ∈ rng ∨ a ∈ un := by
  induction un generalizing pre rng with
  | nil => intro a ha; simpa [addFold] using ha
  | cons y un ih =>
    have hstep : addFold o (y :: un) (pre, rng) = addFold o un (addNB o y pre rng) := by
      simp [addFold]
    rw [hstep]
    intro a ha
    rcases ih _ _ a ha with h | h | h
    · have := (addNB_sublist o y pre rng).subset (List.mem_append_left _ h)
      simp only [List.mem_append, List.mem_singleton] at this
      rcases this with (h | h) | h
      · exact Or.inl h
      · exact Or.inr (Or.inl h)
      · exact Or.inr (Or.inr (by simp [h]))
    · have := (addNB_sublist o y pre rng).subset (List.mem_append_right _ h)
      simp only [List.mem_append, List.mem_singleton] at this
      rcases this with (h | h) | h
      · exact Or.inl h
      · exact Or.inr (Or.inl h)
      · exact Or.inr (Or.inr (by simp [h]))
    · exact Or.inr (Or.inr (List.mem_cons_of_mem _ h))

/-- **B.9** `least_upper_bound_assign` keeps the class invariant of both operands, and its result
    is flagged reduced -/
theorem lub_inv (x y : PS o.D) (hx : Inv o x) (hy : Inv o y) :
    Inv o (lub o false x y).1 ∧ Inv o (lub o false x y).2 ∧ (lub o false x y).1.reduced = true := by
  have h1 := omegaReduce_omegaReduced_of_inv o x hx
  have h2 := omegaReduce_omegaReduced_of_inv o y hy
  refine ⟨?_, ?_, ?_⟩
  · intro _
    exact foldl_addNB_omegaReduced o _ _ h1 h2
  · exact omegaReduce_inv o y hy
  · exact omegaReduce_reduced o false x

/-- the sequence of the result of `lub` in terms of `addFold` -/
theorem lub_seq (x y : PS o.D) :
    (lub o false x y).1.seq =
      (addFold o (omegaReduce o false y).seq ([], (omegaReduce o false x).seq)).1 ++
      (addFold o (omegaReduce o false y).seq ([], (omegaReduce o false x).seq)).2 := rfl

/-! ## C. `collapse` -/

/-- **C.10** `collapse()` -/
theorem collapse_exact_spec (y : o.D) (ys : List o.D) (r : Bool) :
    collapse o ⟨y :: ys, r⟩ = ⟨[ys.foldl o.join y], r⟩ := by
  simp [collapse, collapseAt]

theorem collapse_nil (r : Bool) : collapse o ⟨[], r⟩ = ⟨[], r⟩ := rfl

theorem collapseMax_small (maxD : Nat) (x : PS o.D)
    (h : (omegaReduce o false x).seq.length ≤ maxD) :
    collapseMax o false maxD x = omegaReduce o false x := by
  unfold collapseMax
  simp only
  rw [if_neg (Nat.not_lt.2 h)]

theorem collapseMax_big (maxD : Nat) (x : PS o.D) (y : o.D) (ys : List o.D)
    (h : maxD < (omegaReduce o false x).seq.length) (h0 : 0 < maxD)
    (hd : (omegaReduce o false x).seq.drop (maxD - 1) = y :: ys) :
    (collapseMax o false maxD x).seq =
        ((omegaReduce o false x).seq.take (maxD - 1)).filter
          (fun z => !o.leq z (ys.foldl o.join y)) ++ [ys.foldl o.join y] ∧
      (collapseMax o false maxD x).reduced = true ∧
      (collapseMax o false maxD x).seq.length ≤ maxD := by
  have e : collapseMax o false maxD x =
      { omegaReduce o false x with
        seq := collapseAt o ((omegaReduce o false x).seq.take (maxD - 1)) y ys } := by
    unfold collapseMax
    simp only
    rw [if_pos h, hd]
  rw [e]
  refine ⟨rfl, omegaReduce_reduced o false x, ?_⟩
  simp only [collapseAt, List.length_append, List.length_singleton]
  have h1 := List.length_filter_le (fun z => !o.leq z (ys.foldl o.join y))
    ((omegaReduce o false x).seq.take (maxD - 1))
  have h2 : ((omegaReduce o false x).seq.take (maxD - 1)).length ≤ maxD - 1 :=
    List.length_take_le _ _
  omega

/-- **C.10** `collapse(max_disjuncts)` -/
theorem collapseMax_exact_spec (maxD : Nat) (x : PS o.D) :
    ((omegaReduce o false x).seq.length ≤ maxD →
      collapseMax o false maxD x = omegaReduce o false x) ∧
    (∀ y ys, maxD < (omegaReduce o false x).seq.length → 0 < maxD →
      (omegaReduce o false x).seq.drop (maxD - 1) = y :: ys →
      (collapseMax o false maxD x).seq =
          ((omegaReduce o false x).seq.take (maxD - 1)).filter
            (fun z => !o.leq z (ys.foldl o.join y)) ++ [ys.foldl o.join y] ∧
        (collapseMax o false maxD x).reduced = true ∧
        (collapseMax o false maxD x).seq.length ≤ maxD) :=
  ⟨collapseMax_small o maxD x, fun y ys h h0 hd => collapseMax_big o maxD x y ys h h0 hd⟩

/-- `collapse(0)` on a non-empty reduced sequence: `drop (0-1) = drop 0`, everything is joined
    into one disjunct (the C++ asserts `max_disjuncts > 0`) -/
theorem collapseMax_flag (maxD : Nat) (x : PS o.D) : (collapseMax o false maxD x).reduced = true := by
  unfold collapseMax
  simp only
  split
  · split
    · exact omegaReduce_reduced o false x
    · exact omegaReduce_reduced o false x
  · exact omegaReduce_reduced o false x

theorem foldl_join_ge (hp : IsPreorder o) (hj : ∀ a b, o.leq a (o.join a b) = true)
    (x : o.D) (post : List o.D) : o.leq x (post.foldl o.join x) = true := by
  induction post generalizing x with
  | nil => exact hp.refl x
  | cons p post ih => exact hp.trans _ _ _ (hj x p) (ih (o.join x p))

/-- **C.11** `collapse(sink)` keeps omega-reduction, for a preorder whose `upper_bound_assign` is
    above its first argument and whose `is_bottom` is downward closed -/
theorem collapseAt_omegaReduced (hp : IsPreorder o) (hj : ∀ a b, o.leq a (o.join a b) = true)
    (hb : ∀ a b, o.leq a b = true → o.isBottom b = true → o.isBottom a = true)
    (pre : List o.D) (x : o.D) (post : List o.D) (h : OmegaReduced o (pre ++ x :: post)) :
    OmegaReduced o (collapseAt o pre x post) := by
  unfold collapseAt
  simp only
  have hx := foldl_join_ge o hp hj x post
  generalize post.foldl o.join x = dj at hx
  have hxb : o.isBottom x = false := h.1 x (by simp)
  have hpre : OmegaReduced o pre := h.sublist (List.sublist_append_left _ _)
  have hxp : ∀ a ∈ pre, Incomp o a x := by
    intro a ha
    have := List.pairwise_append.1 h.2
    exact this.2.2 a ha x (List.mem_cons_self ..)
  refine ⟨?_, ?_⟩
  · intro a ha
    rcases List.mem_append.1 ha with ha | ha
    · exact hpre.1 a (List.mem_filter.1 ha).1
    · rw [List.mem_singleton.1 ha]
      cases hd : o.isBottom dj with
      | false => rfl
      | true => rw [hb x dj hx hd] at hxb; cases hxb
  · unfold Antichain
    rw [List.pairwise_append]
    refine ⟨hpre.2.sublist List.filter_sublist, by simp, ?_⟩
    intro a ha c hc
    rw [List.mem_singleton.1 hc]
    have ha' := List.mem_filter.1 ha
    refine ⟨by simpa using ha'.2, ?_⟩
    cases hd : o.leq dj a with
    | false => rfl
    | true =>
      have := hp.trans _ _ _ hx hd
      rw [(hxp a ha'.1).2] at this
      cases this

theorem collapseMax_inv (hp : IsPreorder o) (hj : ∀ a b, o.leq a (o.join a b) = true)
    (hb : ∀ a b, o.leq a b = true → o.isBottom b = true → o.isBottom a = true)
    (maxD : Nat) (x : PS o.D) (hx : Inv o x) : Inv o (collapseMax o false maxD x) := by
  have h1 := omegaReduce_omegaReduced_of_inv o x hx
  intro _
  unfold collapseMax
  simp only
  split
  · split
    · exact h1
    · rename_i y ys hd
      refine collapseAt_omegaReduced o hp hj hb _ y ys ?_
      rw [← hd, List.take_append_drop]
      exact h1
  · exact h1

/-- when the input is not flagged, nothing is needed about it -/
theorem collapseMax_inv_of_not_reduced (hp : IsPreorder o)
    (hj : ∀ a b, o.leq a (o.join a b) = true)
    (hb : ∀ a b, o.leq a b = true → o.isBottom b = true → o.isBottom a = true)
    (maxD : Nat) (x : PS o.D) (hx : x.reduced = false) : Inv o (collapseMax o false maxD x) :=
  collapseMax_inv o hp hj hb maxD x (fun h => by rw [hx] at h; cases h)

theorem collapse_inv (hp : IsPreorder o) (hj : ∀ a b, o.leq a (o.join a b) = true)
    (hb : ∀ a b, o.leq a b = true → o.isBottom b = true → o.isBottom a = true)
    (x : PS o.D) (hx : Inv o x) : Inv o (collapse o x) := by
  unfold collapse
  split
  · exact hx
  · rename_i y ys hs
    intro hr
    have := hx hr
    rw [hs] at this
    exact collapseAt_omegaReduced o hp hj hb [] y ys (by simpa using this)

end PPLV.Powerset.Exact
