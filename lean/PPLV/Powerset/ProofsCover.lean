import PPLV.Powerset.ProofsPartition

/-!
# C09 — `check_containment` / `geometrically_covers` / `geometrically_equals` decide inclusion
and equality of unions (exact polyhedral domain)
-/
namespace PPLV.Powerset
open PPLV

variable (d : PolyDom)

theorem dropContained_fwd (pi : d.D) (tmp : List d.D) (p : Pt) :
    d.U tmp p → (d.γ pi p ∨ d.U (dropContained d pi tmp) p) := by
  rintro ⟨pj, hj, hp⟩
  cases hc : d.contains pi pj with
  | true => exact Or.inl ((d.contains_iff pi pj).mp hc p hp)
  | false => exact Or.inr ⟨pj, List.mem_filter.mpr ⟨hj, by simp [hc]⟩, hp⟩

theorem dropContained_sub (pi : d.D) (tmp : List d.D) (p : Pt) :
    d.U (dropContained d pi tmp) p → d.U tmp p := U_filter_sub d.toDom _ tmp p

/-- a surviving disjunct has a point outside `pi` (`contains` is a decision procedure) -/
theorem dropContained_witness (pi : d.D) (tmp : List d.D) (h : (dropContained d pi tmp).isEmpty = false) :
    ∃ p, d.U (dropContained d pi tmp) p ∧ ¬ d.γ pi p := by
  cases hl : dropContained d pi tmp with
  | nil => simp [hl] at h
  | cons pj rest =>
    have hm : pj ∈ dropContained d pi tmp := by rw [hl]; exact List.mem_cons_self
    have hc := (List.mem_filter.mp hm).2
    simp only [Bool.not_eq_true'] at hc
    have : ¬ ∀ p, d.γ pj p → d.γ pi p := by
      intro hall
      have := (d.contains_iff pi pj).mpr hall
      rw [hc] at this; cases this
    have : ∃ p, d.γ pj p ∧ ¬ d.γ pi p := by
      refine Classical.byContradiction fun hne => this fun p hp => ?_
      exact Classical.byContradiction fun hnp => hne ⟨p, hp, hnp⟩
    obtain ⟨p, hp, hnp⟩ := this
    exact ⟨p, ⟨pj, List.mem_cons_self, hp⟩, hnp⟩

/-- forward (soundness) direction of the splitting loop: nothing of `js ∪ nd` outside `pi` is lost -/
theorem splitAgainst_fwd (abandon : Bool) (pi : d.D) (js : List d.D) (nd : PS d.toDom) (p : Pt) :
    (d.U js p ∨ d.U nd.seq p) →
      (d.γ pi p ∨ d.U (splitAgainst d abandon pi js nd).1 p ∨ d.U (splitAgainst d abandon pi js nd).2.seq p) := by
  induction js generalizing nd with
  | nil =>
    simp only [splitAgainst, U_nil, false_or]
    exact fun h => Or.inr h
  | cons pj js ih =>
    unfold splitAgainst
    by_cases hd : d.disjoint pj pi = true
    · simp only [hd, if_true, U_cons]
      rintro ((h | h) | h)
      · exact Or.inr (Or.inl (Or.inl h))
      · rcases ih nd (Or.inl h) with h | h | h
        · exact Or.inl h
        · exact Or.inr (Or.inl (Or.inr h))
        · exact Or.inr (Or.inr h)
      · rcases ih nd (Or.inr h) with h | h | h
        · exact Or.inl h
        · exact Or.inr (Or.inl (Or.inr h))
        · exact Or.inr (Or.inr h)
    · simp only [hd, if_false, Bool.false_eq_true, U_cons]
      rintro ((h | h) | h)
      · by_cases hpi : d.γ pi p
        · exact Or.inl hpi
        · apply ih
          right
          apply lub_ge
          right
          exact (linearPartition_diff d pi pj p).mpr ⟨h, hpi⟩
      · exact ih _ (Or.inl h)
      · apply ih
        right
        apply lub_ge
        exact Or.inl h

/-- backward direction: everything produced lies in `js ∖ pi` or was already in `nd` -/
theorem splitAgainst_bwd (pi : d.D) (js : List d.D) (nd : PS d.toDom) (p : Pt) :
    (d.U (splitAgainst d false pi js nd).1 p ∨ d.U (splitAgainst d false pi js nd).2.seq p) →
      ((d.U js p ∧ ¬ d.γ pi p) ∨ d.U nd.seq p) := by
  induction js generalizing nd with
  | nil =>
    simp only [splitAgainst, U_nil, false_or, false_and]
    exact id
  | cons pj js ih =>
    unfold splitAgainst
    by_cases hd : d.disjoint pj pi = true
    · simp only [hd, if_true, U_cons]
      rintro ((h | h) | h)
      · exact Or.inl ⟨Or.inl h, fun hpi => (d.disjoint_iff pj pi).mp hd p ⟨h, hpi⟩⟩
      · rcases ih nd (Or.inl h) with ⟨h1, h2⟩ | h
        · exact Or.inl ⟨Or.inr h1, h2⟩
        · exact Or.inr h
      · rcases ih nd (Or.inr h) with ⟨h1, h2⟩ | h
        · exact Or.inl ⟨Or.inr h1, h2⟩
        · exact Or.inr h
    · simp only [hd, if_false, Bool.false_eq_true, U_cons]
      intro h
      rcases ih _ h with ⟨h1, h2⟩ | h
      · exact Or.inl ⟨Or.inr h1, h2⟩
      · rcases (lub_U d.toDom nd ⟨(linearPartition d pi pj).2, false⟩ p).mp h with h | h
        · exact Or.inr h
        · obtain ⟨h1, h2⟩ := (linearPartition_diff d pi pj p).mp h
          exact Or.inl ⟨Or.inl h1, h2⟩

/-- soundness of the main loop (any deadline state, only soundness of the base operators is
    used): `true` ⇒ every point of `tmp` lies in some remaining `pi` -/
theorem go_sound (abandon : Bool) (rest : List d.D) (tmp : PS d.toDom)
    (h : checkContainment.go d abandon rest tmp = true) (p : Pt) : d.U tmp.seq p → d.U rest p := by
  induction rest generalizing tmp with
  | nil => simp [checkContainment.go] at h
  | cons pi rest ih =>
    unfold checkContainment.go at h
    intro hp
    rcases dropContained_fwd d pi tmp.seq p hp with hpi | ht
    · exact (U_cons d.toDom pi rest p).mpr (Or.inl hpi)
    · by_cases he : (dropContained d pi tmp.seq).isEmpty = true
      · rw [List.isEmpty_iff] at he
        rw [he] at ht
        simp at ht
      · simp only [he, if_false, Bool.false_eq_true] at h
        rcases splitAgainst_fwd d abandon pi _ ⟨[], true⟩ p (Or.inl ht) with hpi | h1 | h2
        · exact (U_cons d.toDom pi rest p).mpr (Or.inl hpi)
        · exact (U_cons d.toDom pi rest p).mpr (Or.inr (ih _ h (lub_ge d.toDom abandon _ _ p (Or.inl h1))))
        · exact (U_cons d.toDom pi rest p).mpr (Or.inr (ih _ h (lub_ge d.toDom abandon _ _ p (Or.inr h2))))

/-- completeness of the main loop: `false` and a non-empty `tmp` ⇒ some point of `tmp` is in no
    remaining `pi` -/
theorem go_complete (rest : List d.D) (tmp : PS d.toDom)
    (h : checkContainment.go d false rest tmp = false) (hne : ∃ p, d.U tmp.seq p) :
    ∃ p, d.U tmp.seq p ∧ ¬ d.U rest p := by
  induction rest generalizing tmp with
  | nil =>
    obtain ⟨p, hp⟩ := hne
    exact ⟨p, hp, by simp⟩
  | cons pi rest ih =>
    unfold checkContainment.go at h
    by_cases he : (dropContained d pi tmp.seq).isEmpty = true
    · simp [he] at h
    · simp only [he, if_false, Bool.false_eq_true] at h
      simp only [Bool.not_eq_true] at he
      obtain ⟨p0, hp0, hn0⟩ := dropContained_witness d pi tmp.seq he
      -- the new `tmp` is non-empty
      have hne' : ∃ p, d.U (lub d.toDom false
            ⟨(splitAgainst d false pi (dropContained d pi tmp.seq) ⟨[], true⟩).1, tmp.reduced⟩
            (splitAgainst d false pi (dropContained d pi tmp.seq) ⟨[], true⟩).2).1.seq p := by
        refine ⟨p0, (lub_U d.toDom _ _ p0).mpr ?_⟩
        rcases splitAgainst_fwd d false pi _ ⟨[], true⟩ p0 (Or.inl hp0) with h | h | h
        · exact absurd h hn0
        · exact Or.inl h
        · exact Or.inr h
      obtain ⟨p, hp, hnr⟩ := ih _ h hne'
      have hp' := (lub_U d.toDom _ _ p).mp hp
      rcases splitAgainst_bwd d pi _ ⟨[], true⟩ p hp' with ⟨h1, h2⟩ | h1
      · refine ⟨p, dropContained_sub d pi tmp.seq p h1, ?_⟩
        intro hu
        rcases (U_cons d.toDom pi rest p).mp hu with hu | hu
        · exact h2 hu
        · exact hnr hu
      · simp at h1

/-- **`check_containment(ph, ps)` decides `ph ⊆ ⋃ ps`** -/
theorem checkContainment_iff (ph : d.D) (ps : List d.D) :
    checkContainment d false ph ps = true ↔ ∀ p, d.γ ph p → d.U ps p := by
  unfold checkContainment
  cases hb : d.isBottom ph with
  | true =>
    simp only [if_true, true_iff]
    intro p hp
    exact absurd hp (d.isBottom_sound ph hb p)
  | false =>
    simp only [Bool.false_eq_true, if_false]
    constructor
    · intro h p hp
      exact go_sound d false ps ⟨[ph], false⟩ h p ((U_singleton d.toDom ph p).mpr hp)
    · intro hall
      cases hg : checkContainment.go d false ps ⟨[ph], false⟩ with
      | true => rfl
      | false =>
        have hne : ∃ p, d.γ ph p := by
          refine Classical.byContradiction fun hn => ?_
          have := (d.isBottom_iff ph).mpr fun p hp => hn ⟨p, hp⟩
          rw [hb] at this; cases this
        obtain ⟨p0, hp0⟩ := hne
        obtain ⟨p, hp, hnp⟩ := go_complete d ps ⟨[ph], false⟩ hg ⟨p0, (U_singleton d.toDom ph p0).mpr hp0⟩
        exact absurd (hall p ((U_singleton d.toDom ph p).mp hp)) hnp

/-- under a pending deadline the answer `true` is still sound -/
theorem checkContainment_sound (abandon : Bool) (ph : d.D) (ps : List d.D)
    (h : checkContainment d abandon ph ps = true) : ∀ p, d.γ ph p → d.U ps p := by
  unfold checkContainment at h
  intro p hp
  cases hb : d.isBottom ph with
  | true => exact absurd hp (d.isBottom_sound ph hb p)
  | false =>
    simp only [hb, Bool.false_eq_true, if_false] at h
    exact go_sound d abandon ps ⟨[ph], false⟩ h p ((U_singleton d.toDom ph p).mpr hp)

/-- **`geometrically_covers`**: `x` covers `y` iff `⋃ y ⊆ ⋃ x` -/
theorem geometricallyCovers_iff (x y : List d.D) :
    geometricallyCovers d false x y = true ↔ ∀ p, d.U y p → d.U x p := by
  induction y with
  | nil => simp [geometricallyCovers]
  | cons yi ys ih =>
    unfold geometricallyCovers
    cases hc : checkContainment d false yi x with
    | false =>
      simp only [Bool.not_false, if_true, Bool.false_eq_true, false_iff]
      intro hall
      have := (checkContainment_iff d yi x).mpr fun p hp => hall p ((U_cons d.toDom yi ys p).mpr (Or.inl hp))
      rw [hc] at this; cases this
    | true =>
      simp only [Bool.not_true, Bool.false_eq_true, if_false]
      rw [ih]
      have h1 := (checkContainment_iff d yi x).mp hc
      constructor
      · intro h p hp
        rcases (U_cons d.toDom yi ys p).mp hp with hp | hp
        · exact h1 p hp
        · exact h p hp
      · intro h p hp
        exact h p ((U_cons d.toDom yi ys p).mpr (Or.inr hp))

/-- **`geometrically_equals`**: equality of the unions -/
theorem geometricallyEquals_iff (x y : List d.D) :
    geometricallyEquals d false x y = true ↔ ∀ p, d.U x p ↔ d.U y p := by
  unfold geometricallyEquals
  rw [Bool.and_eq_true, geometricallyCovers_iff, geometricallyCovers_iff]
  constructor
  · rintro ⟨h1, h2⟩ p
    exact ⟨h2 p, h1 p⟩
  · intro h
    exact ⟨fun p => (h p).mpr, fun p => (h p).mp⟩

end PPLV.Powerset
