import PPLV.Powerset.ExactSpec
import Mathlib.Data.List.Basic

/-!
# C09 stage 2 — sequence-level facts about the NEW model `PPLV.Powerset.Exact` (part 1)

`linear_partition` / `difference_assign` (order of the pieces), the soundness of every update of the
lazy `reduced` flag by the disjunct-wise transformers, `concatenate_assign`, `is_universe`, and the
generic lemmas on `add_non_bottom_disjunct_preserve_reduction` (helper names prefixed `pr_`).
Raw `Ops` / `PolyOps`: no semantic hypothesis unless stated.
-/
namespace PPLV.Powerset.Exact
open PPLV

section Partition
variable (o : PolyOps)

/-- piece `i` of the partition of `q` by the constraint list `cs'` -/
def pr_piece (cs' : List LCon) (q : o.D) (i : Nat) : Option o.D :=
  let n := o.addCon ((cs'.take i).foldl o.addCon q) (negCon (cs'.getD i default))
  if o.isBottom n then none else some n

theorem pr_linearPartitionAux_eq (c : LCon) (st : o.D × List o.D) :
    linearPartitionAux o c st =
      (o.addCon st.1 c,
        st.2 ++ (if o.isBottom (o.addCon st.1 (negCon c)) then [] else [o.addCon st.1 (negCon c)])) := by
  unfold linearPartitionAux negCon
  by_cases h : o.isBottom (o.addCon st.1 (if c.rel = LRel.gt then c.exprLe else c.exprLt)) = true
  · simp [h]
  · simp [h]

theorem pr_auxFold (cs' : List LCon) (st : o.D × List o.D) :
    cs'.foldl (fun st c => linearPartitionAux o c st) st =
      (cs'.foldl o.addCon st.1,
        st.2 ++ (List.range cs'.length).filterMap (pr_piece o cs' st.1)) := by
  induction cs' generalizing st with
  | nil => simp
  | cons c cs ih =>
    rw [List.foldl_cons, ih, pr_linearPartitionAux_eq]
    simp only [List.foldl_cons, List.length_cons, List.range_succ_eq_map, List.filterMap_cons,
      List.filterMap_map]
    have h0 : pr_piece o (c :: cs) st.1 0 =
        if o.isBottom (o.addCon st.1 (negCon c)) then none else some (o.addCon st.1 (negCon c)) := by
      simp [pr_piece]
    have hs : (pr_piece o (c :: cs) st.1 ∘ Nat.succ) = pr_piece o cs (o.addCon st.1 c) := by
      funext i; simp [pr_piece]
    rw [h0, hs]
    by_cases h : o.isBottom (o.addCon st.1 (negCon c)) = true
    · simp [h]
    · simp [h]

theorem pr_linearPartitionWith_split (cs : List LCon) (st : o.D × List o.D) :
    cs.foldl (fun st c =>
      if c.rel = .eq then linearPartitionAux o c.exprGe (linearPartitionAux o c.exprLe st)
      else linearPartitionAux o c st) st =
    (splitEqs cs).foldl (fun st c => linearPartitionAux o c st) st := by
  induction cs generalizing st with
  | nil => simp [splitEqs]
  | cons c cs ih =>
    have : splitEqs (c :: cs) = (if c.rel = .eq then [c.exprLe, c.exprGe] else [c]) ++ splitEqs cs := by
      simp [splitEqs]
    rw [this, List.foldl_cons, List.foldl_append, ih]
    by_cases h : c.rel = .eq
    · simp [h]
    · simp [h]

/-- generalised over the accumulator -/
theorem pr_linearPartitionWith_acc (cs : List LCon) (st : o.D × List o.D) :
    cs.foldl (fun st c =>
      if c.rel = .eq then linearPartitionAux o c.exprGe (linearPartitionAux o c.exprLe st)
      else linearPartitionAux o c st) st =
    ((splitEqs cs).foldl o.addCon st.1,
      st.2 ++ (List.range (splitEqs cs).length).filterMap (fun i =>
        let n := o.addCon (((splitEqs cs).take i).foldl o.addCon st.1)
          (negCon ((splitEqs cs).getD i default))
        if o.isBottom n then none else some n)) := by
  rw [pr_linearPartitionWith_split, pr_auxFold]; rfl

/-- **A/B 7** the pieces of `linear_partition` in order -/
theorem linearPartitionWith_order (cs : List LCon) (q : o.D) :
    (linearPartitionWith o cs q).1 = (splitEqs cs).foldl o.addCon q ∧
    (linearPartitionWith o cs q).2 =
      (List.range (splitEqs cs).length).filterMap (fun i =>
        let n := o.addCon (((splitEqs cs).take i).foldl o.addCon q)
          (negCon ((splitEqs cs).getD i default))
        if o.isBottom n then none else some n) := by
  unfold linearPartitionWith
  rw [pr_linearPartitionWith_acc]; simp

theorem linearPartition_order (p q : o.D) :
    (linearPartition o p q).1 = (splitEqs (o.cons p)).foldl o.addCon q ∧
    (linearPartition o p q).2 =
      (List.range (splitEqs (o.cons p)).length).filterMap (fun i =>
        let n := o.addCon (((splitEqs (o.cons p)).take i).foldl o.addCon q)
          (negCon ((splitEqs (o.cons p)).getD i default))
        if o.isBottom n then none else some n) :=
  linearPartitionWith_order o (o.cons p) q

/-- **B 8** -/
theorem psDiff_order (x y : PS o.D) :
    (psDiff o false x y).1.seq =
      (omegaReduce o.toOps false y).seq.foldl
        (fun acc yi => acc.flatMap fun itr => (linearPartition o yi itr).2)
        (omegaReduce o.toOps false x).seq ∧
    (psDiff o false x y).1.reduced = false ∧
    (psDiff o false x y).2 = omegaReduce o.toOps false y := ⟨rfl, rfl, rfl⟩

end Partition

section OR
variable (o : Ops)

theorem pr_incomp_symm {a b : o.D} (h : Incomp o a b) : Incomp o b a := ⟨h.2, h.1⟩

theorem pr_omegaReduced_nil : OmegaReduced o [] := ⟨by simp, List.Pairwise.nil⟩

theorem pr_omegaReduced_sublist {s t : List o.D} (h : s.Sublist t) (ht : OmegaReduced o t) :
    OmegaReduced o s :=
  ⟨fun a ha => ht.1 a (h.subset ha), List.Pairwise.sublist h ht.2⟩

theorem pr_omegaReduced_singleton {a : o.D} (h : o.isBottom a = false) : OmegaReduced o [a] :=
  ⟨by simpa using h, List.pairwise_singleton _ _⟩

theorem pr_inv_of_omegaReduced_nil (b : Bool) : Inv o ⟨[], b⟩ := fun _ => pr_omegaReduced_nil o

/-! ### `addScan` / `addNB` -/

theorem pr_addScan_sublist (x : o.D) (rng : List o.D) : (addScan o x rng).1.Sublist rng := by
  induction rng with
  | nil => simp [addScan]
  | cons xv r ih =>
    unfold addScan
    split
    · exact List.Sublist.refl _
    · split
      · exact ih.trans (List.sublist_cons_self _ _)
      · exact ih.cons_cons _

theorem pr_addScan_incomp (x : o.D) (rng : List o.D) (h : (addScan o x rng).2 = false) :
    ∀ e ∈ (addScan o x rng).1, Incomp o x e := by
  induction rng with
  | nil => simp [addScan]
  | cons xv r ih =>
    by_cases h1 : o.leq x xv = true
    · simp [addScan, h1] at h
    · by_cases h2 : o.leq xv x = true
      · simp only [addScan, h1, h2, if_true] at h ⊢
        exact ih h
      · simp only [addScan, h1, h2] at h ⊢
        intro e he
        rcases List.mem_cons.1 he with rfl | he
        · exact ⟨by simpa using h1, by simpa using h2⟩
        · exact ih h e he

theorem pr_addScan_length (x : o.D) (rng : List o.D) : (addScan o x rng).1.length ≤ rng.length :=
  (pr_addScan_sublist o x rng).length_le

/-- `addNB` never increases the total length by more than one -/
theorem pr_addNB_length (x : o.D) (pre rng : List o.D) :
    (addNB o x pre rng).1.length + (addNB o x pre rng).2.length ≤ pre.length + rng.length + 1 := by
  have hl := pr_addScan_length o x rng
  simp only [addNB]
  split
  · simp; omega
  · split
    · simp
    · rename_i h; simp only [List.length_append, List.length_cons, List.length_nil]
      have := congrArg List.length h; simp at this; omega

theorem pr_addNBwhole_length (x : o.D) (s : List o.D) :
    (addNBwhole o x s).length ≤ s.length + 1 := by
  have := pr_addNB_length o x [] s
  simpa [addNBwhole] using this

theorem pr_addNB_mem (x : o.D) (pre rng : List o.D) :
    (∀ p ∈ (addNB o x pre rng).1, p ∈ pre ∨ p = x) ∧
    (∀ p ∈ (addNB o x pre rng).2, p ∈ rng ∨ p = x) := by
  have hs := pr_addScan_sublist o x rng
  simp only [addNB]
  split
  · exact ⟨fun p hp => Or.inl hp, fun p hp => Or.inl (hs.subset hp)⟩
  · split
    · exact ⟨fun p hp => by simpa using hp, by simp⟩
    · rename_i h
      refine ⟨fun p hp => Or.inl hp, fun p hp => ?_⟩
      simp only [List.mem_append, List.mem_singleton] at hp
      rcases hp with hp | hp
      · exact Or.inl (hs.subset (h ▸ hp))
      · exact Or.inr hp

theorem pr_addNBwhole_mem (x : o.D) (s : List o.D) : ∀ p ∈ addNBwhole o x s, p = x ∨ p ∈ s := by
  intro p hp
  have := pr_addNB_mem o x [] s
  simp only [addNBwhole, List.mem_append] at hp
  rcases hp with hp | hp
  · rcases this.1 p hp with h | h
    · simp at h
    · exact Or.inl h
  · exact (this.2 p hp).symm

/-- `add_non_bottom_disjunct_preserve_reduction` keeps the sequence omega-reduced, provided the new
    disjunct is not bottom and is incomparable with the part before `first` -/
theorem pr_addNB_omegaReduced (x : o.D) (pre rng : List o.D)
    (h : OmegaReduced o (pre ++ rng)) (hx : o.isBottom x = false)
    (hp : ∀ p ∈ pre, Incomp o x p) :
    OmegaReduced o ((addNB o x pre rng).1 ++ (addNB o x pre rng).2) := by
  have hs := pr_addScan_sublist o x rng
  have hi := pr_addScan_incomp o x rng
  have hsub : (pre ++ (addScan o x rng).1).Sublist (pre ++ rng) :=
    List.Sublist.append (List.Sublist.refl _) hs
  have hred := pr_omegaReduced_sublist o hsub h
  simp only [addNB]
  split
  · exact hred
  · rename_i hf
    have hf' : (addScan o x rng).2 = false := by simpa using hf
    have key : OmegaReduced o ((pre ++ (addScan o x rng).1) ++ [x]) := by
      refine ⟨?_, ?_⟩
      · intro a ha
        rcases List.mem_append.1 ha with ha | ha
        · exact hred.1 a ha
        · simp at ha; rw [ha]; exact hx
      · unfold Antichain
        rw [List.pairwise_append]
        refine ⟨hred.2, List.pairwise_singleton _ _, ?_⟩
        intro a ha b hb
        simp only [List.mem_singleton] at hb
        subst hb
        rcases List.mem_append.1 ha with ha | ha
        · exact pr_incomp_symm o (hp a ha)
        · exact pr_incomp_symm o (hi hf' a ha)
    split
    · rename_i h0; rw [h0] at key; simpa using key
    · simpa using key

theorem pr_addNBwhole_omegaReduced (x : o.D) (s : List o.D)
    (h : OmegaReduced o s) (hx : o.isBottom x = false) : OmegaReduced o (addNBwhole o x s) := by
  unfold addNBwhole
  exact pr_addNB_omegaReduced o x [] s (by simpa using h) hx (by simp)

/-- the fold of the range form over an omega-reduced list `un` (second loop of `pairwise_reduce`
    and of `BGP99_heuristics_assign`) -/
theorem pr_foldAddNB_omegaReduced (un pre rng : List o.D)
    (h : OmegaReduced o (pre ++ rng)) (hun : OmegaReduced o un)
    (hp : ∀ p ∈ pre, ∀ x ∈ un, Incomp o x p) :
    OmegaReduced o
      ((un.foldl (fun (st : List o.D × List o.D) xi => addNB o xi st.1 st.2) (pre, rng)).1 ++
       (un.foldl (fun (st : List o.D × List o.D) xi => addNB o xi st.1 st.2) (pre, rng)).2) := by
  induction un generalizing pre rng with
  | nil => simpa using h
  | cons x un ih =>
    rw [List.foldl_cons]
    have hx : o.isBottom x = false := hun.1 x (by simp)
    have hun' : OmegaReduced o un := pr_omegaReduced_sublist o (List.sublist_cons_self _ _) hun
    have hpw := List.pairwise_cons.1 hun.2
    apply ih _ _ (pr_addNB_omegaReduced o x pre rng h hx (fun p hpp => hp p hpp x (by simp))) hun'
    intro p hpp y hy
    rcases (pr_addNB_mem o x pre rng).1 p hpp with h1 | h1
    · exact hp p h1 y (List.mem_cons_of_mem _ hy)
    · subst h1; exact pr_incomp_symm o (hpw.1 y hy)

theorem pr_foldAddNB_length (un pre rng : List o.D) :
    (un.foldl (fun (st : List o.D × List o.D) xi => addNB o xi st.1 st.2) (pre, rng)).1.length +
    (un.foldl (fun (st : List o.D × List o.D) xi => addNB o xi st.1 st.2) (pre, rng)).2.length
      ≤ pre.length + rng.length + un.length := by
  induction un generalizing pre rng with
  | nil => simp
  | cons x un ih =>
    rw [List.foldl_cons]
    have h2 := pr_addNB_length o x pre rng
    generalize addNB o x pre rng = pr at h2 ⊢
    obtain ⟨p, r⟩ := pr
    have := ih p r
    simp only [List.length_cons] at *; omega

theorem pr_foldAddNB_mem (un pre rng : List o.D) :
    ∀ p ∈ (un.foldl (fun (st : List o.D × List o.D) xi => addNB o xi st.1 st.2) (pre, rng)).1 ++
      (un.foldl (fun (st : List o.D × List o.D) xi => addNB o xi st.1 st.2) (pre, rng)).2,
      p ∈ pre ∨ p ∈ rng ∨ p ∈ un := by
  induction un generalizing pre rng with
  | nil => intro p hp; simpa [or_assoc] using hp
  | cons x un ih =>
    intro p hp
    rw [List.foldl_cons] at hp
    have hm := pr_addNB_mem o x pre rng
    rcases ih _ _ p hp with h | h | h
    · rcases hm.1 p h with h | h
      · exact Or.inl h
      · right; right; simp [h]
    · rcases hm.2 p h with h | h
      · exact Or.inr (Or.inl h)
      · right; right; simp [h]
    · right; right; simp [h]

/-- with an empty range every disjunct is pushed back in order, without any comparison -/
theorem pr_foldAddNB_nil (un pre : List o.D) :
    un.foldl (fun (st : List o.D × List o.D) xi => addNB o xi st.1 st.2) (pre, []) = (pre ++ un, []) := by
  induction un generalizing pre with
  | nil => simp
  | cons x un ih =>
    have : addNB o x pre [] = (pre ++ [x], []) := by simp [addNB, addScan]
    rw [List.foldl_cons, this, ih]; simp

/-! ### `check_omega_reduced` is sound -/

theorem pr_checkGo_sound (pre s : List o.D) (h : checkOmegaReducedGo o pre s = true) :
    (∀ a ∈ s, o.isBottom a = false) ∧ s.Pairwise (Incomp o) := by
  induction s generalizing pre with
  | nil => simp
  | cons xv post ih =>
    unfold checkOmegaReducedGo at h
    split at h
    · simp at h
    · rename_i hb
      split at h
      · simp at h
      · rename_i ha
        have := ih _ h
        refine ⟨?_, ?_⟩
        · intro a ha'
          rcases List.mem_cons.1 ha' with rfl | ha'
          · simpa using hb
          · exact this.1 a ha'
        · refine List.pairwise_cons.2 ⟨?_, this.2⟩
          intro b hb'
          simp only [List.any_eq_true, not_exists, not_and, Bool.or_eq_true, not_or,
            Bool.not_eq_true, List.mem_append] at ha
          exact ha b (Or.inr hb')

theorem pr_checkOmegaReduced_sound (s : List o.D) (h : checkOmegaReduced o s = true) :
    OmegaReduced o s := pr_checkGo_sound o [] s h

theorem pr_omegaReduce_reduced (abandon : Bool) (y : PS o.D) :
    (omegaReduce o abandon y).reduced = true := by
  unfold omegaReduce; split <;> simp_all

/-! ## C — the flags of the transformers -/

theorem mapSetFlag_inv (f : o.D → o.D) (x : PS o.D) : Inv o (mapSetFlag o f x) := by
  intro h; simp [mapSetFlag] at h

theorem mapLoopFlag_inv (f : o.D → o.D) (x : PS o.D) : Inv o (mapLoopFlag o f x) := by
  intro h
  cases hs : x.seq with
  | nil => simp [mapLoopFlag, hs]; exact pr_omegaReduced_nil o
  | cons a l => simp [mapLoopFlag, hs] at h

theorem foldDims_inv (nonemptyVars : Bool) (f : o.D → o.D) (x : PS o.D)
    (hx : nonemptyVars = false → Inv o x) : Inv o (foldDims o nonemptyVars f x) := by
  unfold foldDims
  cases nonemptyVars with
  | true => intro h; simp at h
  | false => simpa using hx rfl

theorem addDisjunct_inv (x : PS o.D) (y : o.D) : Inv o (addDisjunct o x y) := by
  intro h; simp [addDisjunct] at h

theorem pairwiseApply_inv (abandon : Bool) (op : o.D → o.D → o.D) (x y : PS o.D)
    (hom : ∀ y : PS o.D, Inv o y → Inv o (omegaReduce o abandon y)) (hy : Inv o y) :
    Inv o (pairwiseApply o abandon op x y).1 ∧ Inv o (pairwiseApply o abandon op x y).2 :=
  ⟨by intro h; simp [pairwiseApply] at h, hom y hy⟩

theorem meetAssign_inv (abandon : Bool) (x y : PS o.D)
    (hom : ∀ y : PS o.D, Inv o y → Inv o (omegaReduce o abandon y)) (hy : Inv o y) :
    Inv o (meetAssign o abandon x y).1 ∧ Inv o (meetAssign o abandon x y).2 :=
  pairwiseApply_inv o abandon o.meet x y hom hy

/-- no hypothesis needed: either the reduced sequence is empty, or the flag is cleared -/
theorem mapSpaceDimensions_inv (abandon : Bool) (f : o.D → o.D) (x : PS o.D) :
    Inv o (mapSpaceDimensions o abandon f x) := by
  unfold mapSpaceDimensions
  by_cases h : (omegaReduce o abandon x).seq.isEmpty = true
  · simp only [h, if_true]
    intro _
    rw [List.isEmpty_iff.1 h]; exact pr_omegaReduced_nil o
  · simp only [h]; intro h'; simp at h'

theorem mapKeepFlag_inv (f : o.D → o.D) (x : PS o.D)
    (hf : ∀ a b, o.leq (f a) (f b) = o.leq a b) (hb : ∀ a, o.isBottom (f a) = o.isBottom a)
    (hx : Inv o x) : Inv o (mapKeepFlag o f x) := by
  intro h
  have hr := hx h
  refine ⟨?_, ?_⟩
  · intro a ha
    simp only [mapKeepFlag, List.mem_map] at ha
    obtain ⟨b, hb', rfl⟩ := ha
    rw [hb]; exact hr.1 b hb'
  · simp only [mapKeepFlag, Antichain, List.pairwise_map]
    exact hr.2.imp (fun {a b} hab => ⟨by rw [hf]; exact hab.1, by rw [hf]; exact hab.2⟩)

/-- the product of two antichains of non-empty elements is an antichain: the flag `true` that
    `concatenate_assign` leaves is sound -/
theorem concatenateAssign_inv (conc : o.D → o.D → o.D) (x y : PS o.D)
    (hc : ∀ a a' b b', o.isBottom a = false → o.isBottom b = false →
      o.leq (conc a b) (conc a' b') = (o.leq a a' && o.leq b b'))
    (hcb : ∀ a b, o.isBottom a = false → o.isBottom b = false → o.isBottom (conc a b) = false)
    (hom : ∀ y : PS o.D, Inv o y → Inv o (omegaReduce o false y))
    (hx : Inv o x) (hy : Inv o y) :
    Inv o (concatenateAssign o conc x y).1 ∧ Inv o (concatenateAssign o conc x y).2 := by
  refine ⟨?_, hom y hy⟩
  intro _
  have h1 := hom x hx (pr_omegaReduce_reduced o false x)
  have h2 := hom y hy (pr_omegaReduce_reduced o false y)
  simp only [concatenateAssign]
  generalize (omegaReduce o false x).seq = s at h1
  generalize (omegaReduce o false y).seq = t at h2
  refine ⟨?_, ?_⟩
  · intro a ha
    simp only [List.mem_flatMap, List.mem_map] at ha
    obtain ⟨xi, hxi, yi, hyi, rfl⟩ := ha
    exact hcb _ _ (h1.1 xi hxi) (h2.1 yi hyi)
  · unfold Antichain
    rw [List.pairwise_flatMap]
    refine ⟨?_, ?_⟩
    · intro a ha
      rw [List.pairwise_map]
      refine (h2.2.imp_of_mem ?_)
      intro b b' hb hb' hbb
      refine ⟨?_, ?_⟩
      · rw [hc _ _ _ _ (h1.1 a ha) (h2.1 b hb), hbb.1]; simp
      · rw [hc _ _ _ _ (h1.1 a ha) (h2.1 b' hb'), hbb.2]; simp
    · refine (h1.2.imp_of_mem ?_)
      intro a a' ha ha' haa u hu v hv
      simp only [List.mem_map] at hu hv
      obtain ⟨b, hb, rfl⟩ := hu
      obtain ⟨b', hb', rfl⟩ := hv
      refine ⟨?_, ?_⟩
      · rw [hc _ _ _ _ (h1.1 a ha) (h2.1 b hb), haa.1]; simp
      · rw [hc _ _ _ _ (h1.1 a' ha') (h2.1 b' hb'), haa.2]; simp

theorem pr_isOmegaReduced_inv (x : PS o.D) (hx : Inv o x) : Inv o (isOmegaReduced o x).1 := by
  unfold isOmegaReduced
  split
  · rename_i h
    simp only [Bool.and_eq_true] at h
    intro _
    exact pr_checkOmegaReduced_sound o _ h.2
  · exact hx

end OR

section Poly
variable (o : PolyOps)

theorem psDiff_inv (abandon : Bool) (x y : PS o.D)
    (hom : ∀ y : PS o.D, Inv o.toOps y → Inv o.toOps (omegaReduce o.toOps abandon y))
    (hy : Inv o.toOps y) :
    Inv o.toOps (psDiff o abandon x y).1 ∧ Inv o.toOps (psDiff o abandon x y).2 :=
  ⟨by intro h; simp [psDiff] at h, hom y hy⟩

theorem psDiffVia_inv (back : o.D → o.D) (x y : PS o.D) (hy : Inv o.toOps y) :
    Inv o.toOps (psDiffVia o back x y).1 ∧ Inv o.toOps (psDiffVia o back x y).2 :=
  ⟨by intro h; simp [psDiffVia] at h, hy⟩

theorem simplifyCtx_inv (abandon : Bool) (x y : PS o.D)
    (hom : ∀ y : PS o.D, Inv o.toOps y → Inv o.toOps (omegaReduce o.toOps abandon y))
    (hx : Inv o.toOps x) (hy : Inv o.toOps y) :
    Inv o.toOps (simplifyCtx o abandon x y).1 ∧ Inv o.toOps (simplifyCtx o abandon x y).2.1 := by
  unfold simplifyCtx
  simp only
  split
  · exact ⟨hom x hx, hy⟩
  · split
    · exact ⟨hom y hy, hom y hy⟩
    · exact ⟨by intro h; simp at h, hom y hy⟩

theorem isUniverse_inv (x : PS o.D) (ht : o.isBottom o.top = false) (hx : Inv o.toOps x) :
    Inv o.toOps (isUniverse o x).2 := by
  unfold isUniverse
  simp only
  split
  · exact pr_isOmegaReduced_inv o.toOps x hx
  · split
    · simp only
      split
      · intro _; exact pr_omegaReduced_singleton o.toOps ht
      · exact hx
    · exact hx

end Poly
end PPLV.Powerset.Exact
