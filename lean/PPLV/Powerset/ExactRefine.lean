import PPLV.Powerset.ExactSpec
import PPLV.Powerset.ProofsReduce

/-!
# C09 stage 2 — the raw-operation model `PPLV.Powerset.Exact.*` refines `PPLV.Powerset.*`

For a K5 domain `d : Dom` (resp. `d : PolyDom` and an arbitrary `isTop : d.D → Bool`) every function
of `Exact.lean` instantiated at `d.ops` (resp. `d.ops isTop`) computes what the function of the
same name of `Model.lean` computes (`*_refines`; powersets are compared through `toOld`, which
copies the two fields).  The second half transfers the union-level theorems of
`Proofs{Union,Ops,Partition,Reduce}.lean` to the new functions (`*'`) and proves the union facts of
the functions that have no old counterpart (`mapSpaceDimensions`, `psDiffVia`, `isUniverse`,
`queryReduces`, `isOmegaReduced`).

Technical note: `d.ops.D` and `d.D` are definitionally but not syntactically equal; the proofs
normalise the projections of `d.ops` with `dsimp` (`norm_ops`) before rewriting.
-/
namespace PPLV.Powerset.Exact
open PPLV

section Generic
variable (d : Dom)

theorem ops_D : d.ops.D = d.D := rfl
theorem ops_leq : d.ops.leq = d.leq := rfl
theorem ops_isBottom : d.ops.isBottom = d.isBottom := rfl
theorem ops_join : d.ops.join = d.join := rfl
theorem ops_meet : d.ops.meet = d.meet := rfl
theorem ops_eqv : d.ops.eqv = d.eqv := rfl

/-- rewrite the projections of `d.ops` (also inside types) -/
local macro "norm_ops" : tactic =>
  `(tactic| try dsimp only [ops_D, ops_leq, ops_isBottom, ops_join, ops_meet, ops_eqv])

/-- the new representation read as the old one (same fields) -/
def toOld (x : PS d.D) : Powerset.PS d := ⟨x.seq, x.reduced⟩

@[simp] theorem toOld_seq (x : PS d.D) : (toOld d x).seq = x.seq := rfl
@[simp] theorem toOld_reduced (x : PS d.D) : (toOld d x).reduced = x.reduced := rfl
@[simp] theorem toOld_mk (s : List d.D) (r : Bool) : toOld d ⟨s, r⟩ = ⟨s, r⟩ := rfl

theorem toOld_inj (x y : PS d.D) (h : toOld d x = toOld d y) : x = y := by
  cases x; cases y; simp only [toOld, Powerset.PS.mk.injEq] at h; cases h.1; cases h.2; rfl

theorem collapseAt_refines (pre : List d.D) (x : d.D) (post : List d.D) :
    collapseAt d.ops pre x post = Powerset.collapseAt d pre x post := rfl

theorem scanY_refines (xv : d.D) (ys : List d.D) : scanY d.ops xv ys = Powerset.scanY d xv ys := by
  induction ys with
  | nil => rfl
  | cons y ys ih =>
    simp only [scanY, Powerset.scanY, ih]
    rfl

theorem hurryOr_refines (abandon : Bool) (pre rest k : List d.D) :
    hurryOr d.ops abandon pre rest k = Powerset.hurryOr d abandon pre rest k := by
  cases abandon <;> cases rest <;> rfl

theorem omegaLoop_refines (abandon : Bool) (fuel : Nat) (pre rest : List d.D) :
    omegaLoop d.ops abandon fuel pre rest = Powerset.omegaLoop d abandon fuel pre rest := by
  induction fuel generalizing pre rest with
  | zero => rfl
  | succ f ih =>
    cases rest with
    | nil => rfl
    | cons xv post =>
      simp only [omegaLoop, Powerset.omegaLoop]
      norm_ops
      simp only [scanY_refines, hurryOr_refines, ih]
      rfl

theorem omegaReduce_refines (abandon : Bool) (x : PS d.D) :
    toOld d (omegaReduce d.ops abandon x) = Powerset.omegaReduce d abandon (toOld d x) := by
  obtain ⟨s, r⟩ := x
  cases r
  · simp only [omegaReduce, Powerset.omegaReduce, toOld]
    norm_ops
    simp only [omegaLoop_refines, Bool.false_eq_true, if_false]
  · rfl

theorem omegaReduce_refines_seq (abandon : Bool) (x : PS d.D) :
    (omegaReduce d.ops abandon x).seq = (Powerset.omegaReduce d abandon (toOld d x)).seq :=
  congrArg Powerset.PS.seq (omegaReduce_refines d abandon x)

theorem omegaReduce_refines_reduced (abandon : Bool) (x : PS d.D) :
    (omegaReduce d.ops abandon x).reduced = (Powerset.omegaReduce d abandon (toOld d x)).reduced :=
  congrArg Powerset.PS.reduced (omegaReduce_refines d abandon x)

theorem collapse_refines (x : PS d.D) : toOld d (collapse d.ops x) = Powerset.collapse d (toOld d x) := by
  obtain ⟨s, r⟩ := x
  cases s <;> rfl

theorem collapseMax_refines (abandon : Bool) (maxD : Nat) (x : PS d.D) :
    toOld d (collapseMax d.ops abandon maxD x) = Powerset.collapseMax d abandon maxD (toOld d x) := by
  have h := omegaReduce_refines d abandon x
  unfold collapseMax Powerset.collapseMax
  simp only [← h]
  obtain ⟨x1, hx1⟩ : ∃ x1 : PS d.D, omegaReduce d.ops abandon x = x1 := ⟨_, rfl⟩
  rw [hx1]
  obtain ⟨s, r⟩ := x1
  norm_ops
  simp only [toOld_mk]
  by_cases hc : s.length > maxD
  · simp only [hc, if_true]
    cases hd : List.drop (maxD - 1) s <;> rfl
  · simp only [hc, if_false]
    rfl

theorem addScan_refines (x : d.D) (rng : List d.D) : addScan d.ops x rng = Powerset.addScan d x rng := by
  induction rng with
  | nil => rfl
  | cons y ys ih => simp only [addScan, Powerset.addScan, ih]; rfl

theorem addNB_refines (x : d.D) (pre rng : List d.D) :
    addNB d.ops x pre rng = Powerset.addNB d x pre rng := by
  unfold addNB Powerset.addNB
  norm_ops
  simp only [addScan_refines]
  split
  · rfl
  · cases hd : (Powerset.addScan d x rng).1 <;> rfl

theorem addNBwhole_refines (x : d.D) (s : List d.D) :
    addNBwhole d.ops x s = Powerset.addNBwhole d x s := by
  unfold addNBwhole Powerset.addNBwhole
  norm_ops
  simp only [addNB_refines]
  rfl

theorem addDisjunct_refines (x : PS d.D) (y : d.D) :
    toOld d (addDisjunct d.ops x y) = Powerset.addDisjunct d (toOld d x) y := rfl

theorem foldl_addNB_refines (ys pre rng : List d.D) :
    ys.foldl (fun (st : List d.ops.D × List d.ops.D) yi => addNB d.ops yi st.1 st.2) (pre, rng) =
      ys.foldl (fun (st : List d.D × List d.D) yi => Powerset.addNB d yi st.1 st.2) (pre, rng) := by
  norm_ops
  simp only [addNB_refines]

theorem lub_refines_fst (abandon : Bool) (x y : PS d.D) :
    toOld d (lub d.ops abandon x y).1 = (Powerset.lub d abandon (toOld d x) (toOld d y)).1 := by
  unfold lub Powerset.lub
  norm_ops
  simp only [omegaReduce_refines_seq, omegaReduce_refines_reduced, addNB_refines]
  rfl

theorem lub_refines_snd (abandon : Bool) (x y : PS d.D) :
    toOld d (lub d.ops abandon x y).2 = (Powerset.lub d abandon (toOld d x) (toOld d y)).2 :=
  omegaReduce_refines d abandon y

/-- both results of `least_upper_bound_assign`, sequence and flag -/
theorem lub_refines (abandon : Bool) (x y : PS d.D) :
    ((lub d.ops abandon x y).1.seq = (Powerset.lub d abandon (toOld d x) (toOld d y)).1.seq ∧
     (lub d.ops abandon x y).1.reduced = (Powerset.lub d abandon (toOld d x) (toOld d y)).1.reduced) ∧
    ((lub d.ops abandon x y).2.seq = (Powerset.lub d abandon (toOld d x) (toOld d y)).2.seq ∧
     (lub d.ops abandon x y).2.reduced = (Powerset.lub d abandon (toOld d x) (toOld d y)).2.reduced) :=
  ⟨⟨congrArg Powerset.PS.seq (lub_refines_fst d abandon x y),
    congrArg Powerset.PS.reduced (lub_refines_fst d abandon x y)⟩,
   ⟨congrArg Powerset.PS.seq (lub_refines_snd d abandon x y),
    congrArg Powerset.PS.reduced (lub_refines_snd d abandon x y)⟩⟩

theorem pairwiseApply_refines_fst (abandon : Bool) (op : d.D → d.D → d.D) (x y : PS d.D) :
    toOld d (pairwiseApply d.ops abandon op x y).1 =
      (Powerset.pairwiseApply d abandon op (toOld d x) (toOld d y)).1 := by
  unfold pairwiseApply Powerset.pairwiseApply
  norm_ops
  simp only [omegaReduce_refines_seq]
  rfl

theorem pairwiseApply_refines_snd (abandon : Bool) (op : d.D → d.D → d.D) (x y : PS d.D) :
    toOld d (pairwiseApply d.ops abandon op x y).2 =
      (Powerset.pairwiseApply d abandon op (toOld d x) (toOld d y)).2 :=
  omegaReduce_refines d abandon y

theorem pairwiseApply_refines (abandon : Bool) (op : d.D → d.D → d.D) (x y : PS d.D) :
    toOld d (pairwiseApply d.ops abandon op x y).1 =
        (Powerset.pairwiseApply d abandon op (toOld d x) (toOld d y)).1 ∧
    toOld d (pairwiseApply d.ops abandon op x y).2 =
        (Powerset.pairwiseApply d abandon op (toOld d x) (toOld d y)).2 :=
  ⟨pairwiseApply_refines_fst d abandon op x y, pairwiseApply_refines_snd d abandon op x y⟩

theorem meetAssign_refines (abandon : Bool) (x y : PS d.D) :
    toOld d (meetAssign d.ops abandon x y).1 = (Powerset.meetAssign d abandon (toOld d x) (toOld d y)).1 ∧
    toOld d (meetAssign d.ops abandon x y).2 = (Powerset.meetAssign d abandon (toOld d x) (toOld d y)).2 :=
  pairwiseApply_refines d abandon d.meet x y

theorem definitelyEntails_inner_refines (xi : d.D) (ys : List d.D) :
    definitelyEntails.inner d.ops xi ys = Powerset.definitelyEntails.inner d xi ys := by
  induction ys with
  | nil => rfl
  | cons y ys ih => simp only [definitelyEntails.inner, Powerset.definitelyEntails.inner, ih]; rfl

theorem definitelyEntails_outer_refines (y xs : List d.D) :
    definitelyEntails.outer d.ops y xs = Powerset.definitelyEntails.outer d y xs := by
  induction xs with
  | nil => rfl
  | cons x xs ih =>
    simp only [definitelyEntails.outer, Powerset.definitelyEntails.outer, ih,
      definitelyEntails_inner_refines]

theorem definitelyEntails_refines (x y : List d.D) :
    definitelyEntails d.ops x y = Powerset.definitelyEntails d x y :=
  definitelyEntails_outer_refines d y x

theorem eraseFirst_refines (xi : d.D) (z : List d.D) :
    eraseFirst d.ops xi z = Powerset.eraseFirst d xi z := by
  induction z with
  | nil => rfl
  | cons y ys ih => simp only [eraseFirst, Powerset.eraseFirst, ih]; rfl

theorem eqGo_refines (xs z : List d.D) : eqGo d.ops xs z = Powerset.eq.go d xs z := by
  induction xs generalizing z with
  | nil => rfl
  | cons x xs ih =>
    simp only [eqGo, Powerset.eq.go]
    norm_ops
    simp only [eraseFirst_refines]
    cases Powerset.eraseFirst d x z with
    | none => rfl
    | some z' => exact ih z'

/-- the answer of `operator==` is the old one; the two other components are the reduced operands -/
theorem eq_refines (abandon : Bool) (x y : PS d.D) :
    (eq d.ops abandon x y).1 = Powerset.eq d abandon (toOld d x) (toOld d y) := by
  unfold eq Powerset.eq
  norm_ops
  simp only [omegaReduce_refines_seq, eqGo_refines]

theorem eq_refines_snd (abandon : Bool) (x y : PS d.D) :
    (eq d.ops abandon x y).2 = (omegaReduce d.ops abandon x, omegaReduce d.ops abandon y) := rfl

theorem isBottom_refines (abandon : Bool) (x : PS d.D) :
    (isBottom d.ops abandon x).1 = Powerset.isBottom d abandon (toOld d x) := by
  unfold isBottom Powerset.isBottom
  norm_ops
  simp only [omegaReduce_refines_seq]

theorem isBottom_refines_snd (abandon : Bool) (x : PS d.D) :
    (isBottom d.ops abandon x).2 = omegaReduce d.ops abandon x := rfl

theorem mapSetFlag_refines (f : d.D → d.D) (x : PS d.D) :
    toOld d (mapSetFlag d.ops f x) = Powerset.mapDisjuncts d f (toOld d x) := rfl

theorem mapLoopFlag_seq (f : d.D → d.D) (x : PS d.D) :
    (mapLoopFlag d.ops f x).seq = (Powerset.mapDisjuncts d f (toOld d x)).seq := rfl

theorem mapKeepFlag_seq (f : d.D → d.D) (x : PS d.D) :
    (mapKeepFlag d.ops f x).seq = (Powerset.mapDisjuncts d f (toOld d x)).seq := rfl

/-! ### transfer: the union-level theorems of the old model hold for the new functions -/

theorem omegaReduce_U' (x : PS d.D) (p : Pt) : d.U (omegaReduce d.ops false x).seq p ↔ d.U x.seq p := by
  have h := Powerset.omegaReduce_U d (toOld d x) p
  rw [← omegaReduce_refines_seq] at h
  exact h

theorem omegaReduce_ge' (abandon : Bool) (x : PS d.D) (p : Pt) :
    d.U x.seq p → d.U (omegaReduce d.ops abandon x).seq p := by
  have h := Powerset.omegaReduce_ge d abandon (toOld d x) p
  rw [← omegaReduce_refines_seq] at h
  exact h

theorem omegaReduce_length' (x : PS d.D) : (omegaReduce d.ops false x).seq.length ≤ x.seq.length := by
  have h := Powerset.omegaReduce_length d (toOld d x)
  rw [← omegaReduce_refines_seq] at h
  exact h

theorem collapse_ge' (x : PS d.D) (p : Pt) : d.U x.seq p → d.U (collapse d.ops x).seq p := by
  have h := Powerset.collapse_ge d (toOld d x) p
  rw [← collapse_refines] at h
  exact h

theorem collapseMax_ge' (abandon : Bool) (maxD : Nat) (x : PS d.D) (p : Pt) :
    d.U x.seq p → d.U (collapseMax d.ops abandon maxD x).seq p := by
  have h := Powerset.collapseMax_ge d abandon maxD (toOld d x) p
  rw [← collapseMax_refines] at h
  exact h

theorem collapseMax_length' (maxD : Nat) (hm : 0 < maxD) (x : PS d.D) :
    (collapseMax d.ops false maxD x).seq.length ≤ maxD := by
  have h := Powerset.collapseMax_length d maxD hm (toOld d x)
  rw [← collapseMax_refines] at h
  exact h

theorem addNB_U' (x : d.D) (pre rng : List d.D) (p : Pt) :
    d.U ((addNB d.ops x pre rng).1 ++ (addNB d.ops x pre rng).2) p ↔ (d.U (pre ++ rng) p ∨ d.γ x p) := by
  rw [addNB_refines]
  exact Powerset.addNB_U d x pre rng p

theorem addNBwhole_U' (x : d.D) (s : List d.D) (p : Pt) :
    d.U (addNBwhole d.ops x s) p ↔ (d.U s p ∨ d.γ x p) := by
  rw [addNBwhole_refines]
  exact Powerset.addNBwhole_U d x s p

theorem addDisjunct_U' (x : PS d.D) (y : d.D) (p : Pt) :
    d.U (addDisjunct d.ops x y).seq p ↔ (d.U x.seq p ∨ d.γ y p) :=
  Powerset.addDisjunct_U d (toOld d x) y p

theorem lub_U' (x y : PS d.D) (p : Pt) :
    d.U (lub d.ops false x y).1.seq p ↔ (d.U x.seq p ∨ d.U y.seq p) := by
  have h := Powerset.lub_U d (toOld d x) (toOld d y) p
  rw [← lub_refines_fst] at h
  exact h

theorem lub_arg_U' (x y : PS d.D) (p : Pt) : d.U (lub d.ops false x y).2.seq p ↔ d.U y.seq p := by
  have h := Powerset.lub_arg_U d (toOld d x) (toOld d y) p
  rw [← lub_refines_snd] at h
  exact h

theorem lub_ge' (abandon : Bool) (x y : PS d.D) (p : Pt) :
    (d.U x.seq p ∨ d.U y.seq p) → d.U (lub d.ops abandon x y).1.seq p := by
  have h := Powerset.lub_ge d abandon (toOld d x) (toOld d y) p
  rw [← lub_refines_fst] at h
  exact h

theorem pairwiseApply_exact_U' (op : d.D → d.D → d.D)
    (hop : ∀ a b p, d.γ (op a b) p ↔ (d.γ a p ∧ d.γ b p)) (x y : PS d.D) (p : Pt) :
    d.U (pairwiseApply d.ops false op x y).1.seq p ↔ (d.U x.seq p ∧ d.U y.seq p) := by
  have h := Powerset.pairwiseApply_exact_U d op hop (toOld d x) (toOld d y) p
  rw [← pairwiseApply_refines_fst] at h
  exact h

theorem meetAssign_ge' (abandon : Bool) (x y : PS d.D) (p : Pt) :
    (d.U x.seq p ∧ d.U y.seq p) → d.U (meetAssign d.ops abandon x y).1.seq p := by
  have h := Powerset.meetAssign_ge d abandon (toOld d x) (toOld d y) p
  rw [← (meetAssign_refines d abandon x y).1] at h
  exact h

theorem definitelyEntails_sound' (xs ys : List d.D) (h : definitelyEntails d.ops xs ys = true) (p : Pt) :
    d.U xs p → d.U ys p := by
  rw [definitelyEntails_refines] at h
  exact Powerset.definitelyEntails_sound d xs ys h p

theorem eq_sound' (x y : PS d.D) (h : (eq d.ops false x y).1 = true) (p : Pt) :
    d.U x.seq p ↔ d.U y.seq p := by
  rw [eq_refines] at h
  exact Powerset.eq_sound d (toOld d x) (toOld d y) h p

/-- the three flag families have the sequence of the old `mapDisjuncts`: its theorems apply -/
theorem mapSetFlag_exact (f : d.D → d.D) (R : Pt → Pt → Prop)
    (hf : ∀ a q, d.γ (f a) q ↔ ∃ p, d.γ a p ∧ R p q) (x : PS d.D) (q : Pt) :
    d.U (mapSetFlag d.ops f x).seq q ↔ ∃ p, d.U x.seq p ∧ R p q :=
  Powerset.mapDisjuncts_exact d f R hf (toOld d x) q

theorem mapLoopFlag_exact (f : d.D → d.D) (R : Pt → Pt → Prop)
    (hf : ∀ a q, d.γ (f a) q ↔ ∃ p, d.γ a p ∧ R p q) (x : PS d.D) (q : Pt) :
    d.U (mapLoopFlag d.ops f x).seq q ↔ ∃ p, d.U x.seq p ∧ R p q :=
  Powerset.mapDisjuncts_exact d f R hf (toOld d x) q

theorem mapKeepFlag_exact (f : d.D → d.D) (R : Pt → Pt → Prop)
    (hf : ∀ a q, d.γ (f a) q ↔ ∃ p, d.γ a p ∧ R p q) (x : PS d.D) (q : Pt) :
    d.U (mapKeepFlag d.ops f x).seq q ↔ ∃ p, d.U x.seq p ∧ R p q :=
  Powerset.mapDisjuncts_exact d f R hf (toOld d x) q

/-- `map_space_dimensions` (no old counterpart): reduce first, then the image -/
theorem mapSpaceDimensions_exact (f : d.D → d.D) (R : Pt → Pt → Prop)
    (hf : ∀ a q, d.γ (f a) q ↔ ∃ p, d.γ a p ∧ R p q) (x : PS d.D) (q : Pt) :
    d.U (mapSpaceDimensions d.ops false f x).seq q ↔ ∃ p, d.U x.seq p ∧ R p q := by
  have hU := omegaReduce_U' d x
  unfold mapSpaceDimensions
  obtain ⟨x1, hx1⟩ : ∃ x1 : PS d.D, omegaReduce d.ops false x = x1 := ⟨_, rfl⟩
  rw [hx1] at hU ⊢
  simp only [← hU]
  norm_ops
  by_cases he : x1.seq.isEmpty = true
  · simp only [he, if_true]
    have : x1.seq = [] := List.isEmpty_iff.mp he
    simp [this, Dom.U]
  · simp only [he, if_false, Bool.false_eq_true]
    exact Powerset.mapDisjuncts_exact d f R hf (toOld d x1) q

theorem mapSpaceDimensions_sound (abandon : Bool) (f : d.D → d.D) (R : Pt → Pt → Prop)
    (hf : ∀ a p q, d.γ a p → R p q → d.γ (f a) q) (x : PS d.D) (q : Pt) :
    (∃ p, d.U x.seq p ∧ R p q) → d.U (mapSpaceDimensions d.ops abandon f x).seq q := by
  rintro ⟨p, hp, hr⟩
  have hU := omegaReduce_ge' d abandon x p hp
  unfold mapSpaceDimensions
  obtain ⟨x1, hx1⟩ : ∃ x1 : PS d.D, omegaReduce d.ops abandon x = x1 := ⟨_, rfl⟩
  rw [hx1] at hU ⊢
  norm_ops
  by_cases he : x1.seq.isEmpty = true
  · have : x1.seq = [] := List.isEmpty_iff.mp he
    rw [this] at hU
    obtain ⟨a, ha, _⟩ := hU
    cases ha
  · simp only [he, if_false, Bool.false_eq_true]
    exact Powerset.mapDisjuncts_sound d f R hf (toOld d x1) q ⟨p, hU, hr⟩

theorem queryReduces_U (x : PS d.D) (p : Pt) : d.U (queryReduces d.ops x).seq p ↔ d.U x.seq p :=
  omegaReduce_U' d x p

theorem isBottom_sound' (x : PS d.D) (h : (isBottom d.ops false x).1 = true) (p : Pt) : ¬ d.U x.seq p := by
  rw [← omegaReduce_U' d x p]
  have : (omegaReduce d.ops false x).seq = [] := List.isEmpty_iff.mp h
  rw [this]
  rintro ⟨a, ha, _⟩
  cases ha

end Generic

/-- `is_omega_reduced()` never changes the sequence (only the flag) -/
theorem isOmegaReduced_seq' (o : Ops) (x : PS o.D) : (isOmegaReduced o x).1.seq = x.seq := by
  unfold isOmegaReduced
  split <;> rfl

theorem isOmegaReduced_snd (o : Ops) (x : PS o.D) :
    (isOmegaReduced o x).2 = (isOmegaReduced o x).1.reduced := by
  unfold isOmegaReduced
  split <;> rfl

/-- `is_universe()` answers `true` only if some disjunct is flagged universe by the base level -/
theorem isUniverse_true_mem (o : PolyOps) (x : PS o.D) (h : (isUniverse o x).1 = true) :
    ∃ a ∈ x.seq, o.isTop a = true := by
  unfold isUniverse at h
  have hs := isOmegaReduced_seq' o.toOps x
  simp only at h
  split at h
  · simp only at h
    rw [hs] at h
    split at h
    · rename_i a ha
      exact ⟨a, by rw [ha]; simp, h⟩
    · exact absurd h (by simp)
  · split at h
    · rename_i ha
      obtain ⟨a, ha, hb⟩ := List.any_eq_true.mp ha
      exact ⟨a, ha, hb⟩
    · exact absurd h (by simp)

/-- the representation `is_universe()` leaves: the same sequence, or the single universe when a
    disjunct is flagged universe -/
theorem isUniverse_snd_seq (o : PolyOps) (x : PS o.D) :
    (isUniverse o x).2.seq = x.seq ∨
      ((isUniverse o x).2.seq = [o.top] ∧ ∃ a ∈ x.seq, o.isTop a = true) := by
  unfold isUniverse
  have hs := isOmegaReduced_seq' o.toOps x
  simp only
  split
  · exact Or.inl hs
  · split
    · rename_i ha
      split
      · obtain ⟨a, ha, hb⟩ := List.any_eq_true.mp ha
        exact Or.inr ⟨rfl, a, ha, hb⟩
      · exact Or.inl rfl
    · exact Or.inl rfl


section Poly
variable (d : PolyDom) (isTop : d.D → Bool)

theorem pops_toOps : (d.ops isTop).toOps = d.toDom.ops := rfl
theorem pops_contains : (d.ops isTop).contains = d.contains := rfl
theorem pops_disjoint : (d.ops isTop).disjoint = d.disjoint := rfl
theorem pops_top : (d.ops isTop).top = d.top := rfl
theorem pops_isTop : (d.ops isTop).isTop = isTop := rfl
theorem pops_cons : (d.ops isTop).cons = d.cons := rfl
theorem pops_addCon : (d.ops isTop).addCon = d.addCon := rfl
theorem pops_ubIfExact : (d.ops isTop).ubIfExact = d.ubIfExact := rfl
theorem pops_simplify : (d.ops isTop).simplify = d.simplify := rfl

local macro "norm_pops" : tactic =>
  `(tactic| try dsimp only [pops_toOps, pops_contains, pops_disjoint, pops_top, pops_isTop, pops_cons,
      pops_addCon, pops_ubIfExact, pops_simplify, ops_D, ops_leq, ops_isBottom, ops_join, ops_meet, ops_eqv])

theorem linearPartitionAux_refines (c : LCon) (st : d.D × List d.D) :
    linearPartitionAux (d.ops isTop) c st = Powerset.linearPartitionAux d c st := rfl

theorem linearPartition_refines (p q : d.D) :
    linearPartition (d.ops isTop) p q = Powerset.linearPartition d p q := by
  unfold linearPartition linearPartitionWith Powerset.linearPartition
  norm_pops
  simp only [linearPartitionAux_refines]

theorem psDiff_refines (abandon : Bool) (x y : PS d.D) :
    toOld d.toDom (psDiff (d.ops isTop) abandon x y).1 =
      Powerset.psDiff d abandon (toOld d.toDom x) (toOld d.toDom y) := by
  unfold psDiff Powerset.psDiff
  norm_pops
  simp only [omegaReduce_refines_seq, linearPartition_refines]
  rfl

theorem psDiff_refines_snd (abandon : Bool) (x y : PS d.D) :
    (psDiff (d.ops isTop) abandon x y).2 = omegaReduce d.toDom.ops abandon y := rfl

theorem markFirstExact_refines (pi : d.D) (r : List (d.D × Bool)) :
    markFirstExact (d.ops isTop) pi r = Powerset.markFirstExact d pi r := by
  induction r with
  | nil => rfl
  | cons e r ih =>
    obtain ⟨pj, b⟩ := e
    cases b
    · simp only [markFirstExact, Powerset.markFirstExact, ih]
      norm_pops
      cases d.ubIfExact pi pj <;> rfl
    · simp only [markFirstExact, Powerset.markFirstExact, ih]
      rfl

theorem mergeRound_refines (f : Nat) (xs : List (d.D × Bool)) (un nx : List d.D) (k : Nat) :
    mergeRound (d.ops isTop) f xs un nx k = Powerset.mergeRound d f xs un nx k := by
  induction f generalizing xs un nx k with
  | zero => rfl
  | succ f ih =>
    cases xs with
    | nil => rfl
    | cons e r =>
      obtain ⟨pj, b⟩ := e
      cases b
      · simp only [mergeRound, Powerset.mergeRound]
        norm_pops
        simp only [markFirstExact_refines, addNBwhole_refines, ih]
        cases Powerset.markFirstExact d pj r with
        | none => rfl
        | some u => rfl
      · simp only [mergeRound, Powerset.mergeRound, ih]
        rfl

theorem pairwiseRound_refines (s : List d.D) :
    pairwiseRound (d.ops isTop) s = Powerset.pairwiseRound d s := by
  unfold pairwiseRound Powerset.pairwiseRound
  norm_pops
  simp only [mergeRound_refines, addNB_refines]
  rfl

theorem pairwiseLoop_refines (f : Nat) (s : List d.D) :
    pairwiseLoop (d.ops isTop) f s = Powerset.pairwiseLoop d f s := by
  induction f generalizing s with
  | zero => rfl
  | succ f ih =>
    simp only [pairwiseLoop, Powerset.pairwiseLoop]
    norm_pops
    simp only [pairwiseRound_refines, ih]

theorem pairwiseReduce_refines (abandon : Bool) (x : PS d.D) :
    toOld d.toDom (pairwiseReduce (d.ops isTop) abandon x) =
      Powerset.pairwiseReduce d abandon (toOld d.toDom x) := by
  unfold pairwiseReduce Powerset.pairwiseReduce
  norm_pops
  simp only [omegaReduce_refines_seq, omegaReduce_refines_reduced, pairwiseLoop_refines]
  rfl

theorem enlargeElementWith_refines (simp : d.D → d.D → d.D × Bool) (ctx : List d.D) (dest : d.D) :
    enlargeElementWith (d.ops isTop) simp ctx dest = Powerset.enlargeElementWith d simp ctx dest := rfl

theorem enlargeElement_refines (ctx : List d.D) (dest : d.D) :
    enlargeElement (d.ops isTop) ctx dest = Powerset.enlargeElement d ctx dest := rfl

theorem simplifyCtx_refines (abandon : Bool) (x y : PS d.D) :
    toOld d.toDom (simplifyCtx (d.ops isTop) abandon x y).1 =
        (Powerset.simplifyCtx d abandon (toOld d.toDom x) (toOld d.toDom y)).1 ∧
    toOld d.toDom (simplifyCtx (d.ops isTop) abandon x y).2.1 =
        (Powerset.simplifyCtx d abandon (toOld d.toDom x) (toOld d.toDom y)).2.1 ∧
    (simplifyCtx (d.ops isTop) abandon x y).2.2 =
        (Powerset.simplifyCtx d abandon (toOld d.toDom x) (toOld d.toDom y)).2.2 := by
  have hx := omegaReduce_refines d.toDom abandon x
  have hy := omegaReduce_refines d.toDom abandon y
  unfold simplifyCtx Powerset.simplifyCtx
  norm_pops
  simp only [← hx, ← hy]
  obtain ⟨x1, hx1⟩ : ∃ x1 : PS d.D, omegaReduce d.toDom.ops abandon x = x1 := ⟨_, rfl⟩
  obtain ⟨y1, hy1⟩ : ∃ y1 : PS d.D, omegaReduce d.toDom.ops abandon y = y1 := ⟨_, rfl⟩
  rw [hx1, hy1]
  obtain ⟨xs, xr⟩ := x1
  obtain ⟨ys, yr⟩ := y1
  simp only [toOld_mk]
  by_cases h1 : xs.all d.isBottom = true
  · simp only [h1, if_true]
    exact ⟨rfl, trivial, trivial⟩
  · simp only [h1, if_false, Bool.false_eq_true]
    by_cases h2 : ys.all d.isBottom = true
    · simp only [h2, if_true]
      exact ⟨rfl, rfl, trivial⟩
    · simp only [h2, if_false, Bool.false_eq_true]
      match ys with
      | [] => exact ⟨rfl, rfl, rfl⟩
      | [yi] => exact ⟨rfl, rfl, rfl⟩
      | _ :: _ :: _ => exact ⟨rfl, rfl, rfl⟩

/-! ### transfer (polyhedral level) -/

theorem linearPartition_spec' (p q : d.D) :
    Powerset.PartInv d q (d.γ p) (linearPartition (d.ops isTop) p q) := by
  rw [linearPartition_refines]
  exact Powerset.linearPartition_spec d p q

theorem linearPartition_diff' (p q : d.D) (x : Pt) :
    d.U (linearPartition (d.ops isTop) p q).2 x ↔ (d.γ q x ∧ ¬ d.γ p x) := by
  rw [linearPartition_refines]
  exact Powerset.linearPartition_diff d p q x

theorem psDiff_U' (x y : PS d.D) (p : Pt) :
    d.U (psDiff (d.ops isTop) false x y).1.seq p ↔ (d.U x.seq p ∧ ¬ d.U y.seq p) := by
  have h := Powerset.psDiff_U d (toOld d.toDom x) (toOld d.toDom y) p
  rw [← psDiff_refines d isTop] at h
  exact h

theorem psDiff_arg_U' (x y : PS d.D) (p : Pt) :
    d.U (psDiff (d.ops isTop) false x y).2.seq p ↔ d.U y.seq p :=
  omegaReduce_U' d.toDom y p

/-- the generic `difference_assign` through NNC copies: with a conversion back that only enlarges
    (`C_Polyhedron`: the topological closure) the result contains the exact difference -/
theorem psDiffVia_U (back : d.D → d.D) (hb : ∀ a p, d.γ a p → d.γ (back a) p) (x y : PS d.D) (p : Pt) :
    (d.U x.seq p ∧ ¬ d.U y.seq p) → d.U (psDiffVia (d.ops isTop) back x y).1.seq p := by
  intro h
  obtain ⟨a, ha, hp⟩ := (psDiff_U' d isTop x y p).mpr h
  exact ⟨back a, List.mem_map.mpr ⟨a, ha, rfl⟩, hb a p hp⟩

/-- … and it is the exact difference when the conversion back is exact -/
theorem psDiffVia_U_exact (back : d.D → d.D) (hb : ∀ a p, d.γ (back a) p ↔ d.γ a p) (x y : PS d.D) (p : Pt) :
    d.U (psDiffVia (d.ops isTop) back x y).1.seq p ↔ (d.U x.seq p ∧ ¬ d.U y.seq p) := by
  rw [← psDiff_U' d isTop x y p]
  constructor
  · rintro ⟨b, hb', hp⟩
    obtain ⟨a, ha, rfl⟩ := List.mem_map.mp hb'
    exact ⟨a, ha, (hb a p).mp hp⟩
  · rintro ⟨a, ha, hp⟩
    exact ⟨back a, List.mem_map.mpr ⟨a, ha, rfl⟩, (hb a p).mpr hp⟩

theorem psDiffVia_arg (back : d.D → d.D) (x y : PS d.D) : (psDiffVia (d.ops isTop) back x y).2 = y := rfl

/-- `is_universe()`: the answer `true` is right when the base-level `is_universe` is sound -/
theorem isUniverse_sound (hTop : ∀ a, isTop a = true → ∀ p, d.γ a p) (x : PS d.D)
    (h : (isUniverse (d.ops isTop) x).1 = true) (p : Pt) : d.U x.seq p := by
  obtain ⟨a, ha, hb⟩ := isUniverse_true_mem (d.ops isTop) x h
  exact ⟨a, ha, hTop a hb p⟩

/-- … and the representation it leaves has the same union -/
theorem isUniverse_U (hTop : ∀ a, isTop a = true → ∀ p, d.γ a p) (x : PS d.D) (p : Pt) :
    d.U (isUniverse (d.ops isTop) x).2.seq p ↔ d.U x.seq p := by
  rcases isUniverse_snd_seq (d.ops isTop) x with h | ⟨h, a, ha, hb⟩
  · rw [h]
  · rw [h]
    constructor
    · exact fun _ => ⟨a, ha, hTop a hb p⟩
    · exact fun _ => ⟨d.top, List.mem_singleton.mpr rfl, d.top_spec p⟩

theorem pairwiseReduce_U' (x : PS d.D) (p : Pt) :
    d.U (pairwiseReduce (d.ops isTop) false x).seq p ↔ d.U x.seq p := by
  have h := Powerset.pairwiseReduce_U d (toOld d.toDom x) p
  rw [← pairwiseReduce_refines d isTop] at h
  exact h

theorem simplifyCtx_meet' (x y : PS d.D) (p : Pt) :
    (d.U (simplifyCtx (d.ops isTop) false x y).1.seq p ∧ d.U y.seq p) ↔ (d.U x.seq p ∧ d.U y.seq p) := by
  have h := Powerset.simplifyCtx_meet d (toOld d.toDom x) (toOld d.toDom y) p
  rw [← (simplifyCtx_refines d isTop false x y).1] at h
  exact h

theorem simplifyCtx_false' (x y : PS d.D) (h : (simplifyCtx (d.ops isTop) false x y).2.2 = false) (p : Pt) :
    ¬ (d.U x.seq p ∧ d.U y.seq p) := by
  rw [(simplifyCtx_refines d isTop false x y).2.2] at h
  exact Powerset.simplifyCtx_false d (toOld d.toDom x) (toOld d.toDom y) h p

end Poly

end PPLV.Powerset.Exact
