import PPLV.Powerset.ProofsReduce
import PPLV.Lin.Decide

/-!
# C09 — the interface `PolyDom` is inhabited by the verified K1 kernel

Elements are constraint lists (NNC polyhedra in any dimension); emptiness, inclusion and
disjointness are the K1 decision procedures (`feasible_iff`, `subsetB_iff`), meet and
`add_constraint` are concatenation, the upper bound is the (sound, coarse) universe,
`upper_bound_assign_if_exact` succeeds when one argument contains the other, and the
meet-preserving enlargement is the identity.  Hence every hypothesis field of K5 is satisfiable
together, and the code-shaped model can be *run* on concrete polyhedra inside the kernel.
-/
namespace PPLV.Powerset
open PPLV PPLV.Lin

def lrows (c : LCon) : List Con :=
  match c.rel with
  | .eq => eqRows c.coeffs c.k
  | .ge => [geRow c.coeffs c.k]
  | .gt => [gtRow c.coeffs c.k]

def rowsOf (a : List LCon) : List Con := a.flatMap lrows
def dimOf (a : List LCon) : Nat := a.foldr (fun c m => max c.coeffs.length m) 0

theorem lrows_sat (c : LCon) (x : Pt) : Sat (lrows c) x ↔ c.sat x := by
  unfold lrows LCon.sat LCon.eval
  cases c.rel with
  | eq =>
    simp only [eqRows, Sat, List.mem_cons, List.not_mem_nil, or_false, forall_eq_or_imp, forall_eq,
      Con.sat, Con.eval, dot_map_neg', Bool.false_eq_true, if_false]
    push_cast
    constructor
    · rintro ⟨h1, h2⟩; linarith
    · intro h; constructor <;> linarith
  | ge => simp [Sat, geRow, Con.sat, Con.eval]
  | gt => simp [Sat, gtRow, Con.sat, Con.eval]

theorem rowsOf_sat (a : List LCon) (x : Pt) : Sat (rowsOf a) x ↔ ∀ c ∈ a, c.sat x := by
  induction a with
  | nil => simp [rowsOf, Sat]
  | cons c a ih =>
    have : rowsOf (c :: a) = lrows c ++ rowsOf a := by simp [rowsOf]
    rw [this, Sat_append, lrows_sat, ih]
    simp

theorem lrows_wf (c : LCon) (n : Nat) (h : c.coeffs.length ≤ n) : WF n (lrows c) := by
  unfold lrows
  intro r hr
  cases hc : c.rel <;> simp only [hc, eqRows, geRow, gtRow, List.mem_cons, List.not_mem_nil, or_false] at hr
  · rcases hr with rfl | rfl <;> simpa using h
  · subst hr; exact h
  · subst hr; exact h

theorem rowsOf_wf (a : List LCon) (n : Nat) (h : dimOf a ≤ n) : WF n (rowsOf a) := by
  induction a with
  | nil => intro r hr; simp [rowsOf] at hr
  | cons c a ih =>
    have h1 : c.coeffs.length ≤ n := by simp only [dimOf, List.foldr_cons] at h; omega
    have h2 : dimOf a ≤ n := by simp only [dimOf, List.foldr_cons] at h ⊢; omega
    have : rowsOf (c :: a) = lrows c ++ rowsOf a := by simp [rowsOf]
    rw [this]
    intro r hr
    rcases List.mem_append.mp hr with hr | hr
    · exact lrows_wf c n h1 r hr
    · exact ih h2 r hr

def kLeq (a b : List LCon) : Bool := subsetB (max (dimOf a) (dimOf b)) (rowsOf a) (rowsOf b)
def kEmpty (a : List LCon) : Bool := !feasible (dimOf a) (rowsOf a)
def kDisjoint (a b : List LCon) : Bool := !feasible (max (dimOf a) (dimOf b)) (rowsOf a ++ rowsOf b)

theorem kLeq_iff (a b : List LCon) :
    kLeq a b = true ↔ ∀ p : Pt, (∀ c ∈ a, c.sat p) → (∀ c ∈ b, c.sat p) := by
  unfold kLeq
  rw [subsetB_iff _ _ _ (rowsOf_wf a _ (Nat.le_max_left _ _)) (rowsOf_wf b _ (Nat.le_max_right _ _))]
  constructor
  · intro h p hp
    exact (rowsOf_sat b p).mp (h ((rowsOf_sat a p).mpr hp))
  · intro h p hp
    exact (rowsOf_sat b p).mpr (h p ((rowsOf_sat a p).mp hp))

theorem kEmpty_iff (a : List LCon) : kEmpty a = true ↔ ∀ p : Pt, ¬ ∀ c ∈ a, c.sat p := by
  unfold kEmpty
  rw [Bool.not_eq_true', ← Bool.not_eq_true, feasible_iff _ _ (rowsOf_wf a _ (Nat.le_refl _))]
  constructor
  · intro h p hp; exact h ⟨p, (rowsOf_sat a p).mpr hp⟩
  · rintro h ⟨p, hp⟩; exact h p ((rowsOf_sat a p).mp hp)

theorem kDisjoint_iff (a b : List LCon) :
    kDisjoint a b = true ↔ ∀ p : Pt, ¬ ((∀ c ∈ a, c.sat p) ∧ (∀ c ∈ b, c.sat p)) := by
  unfold kDisjoint
  have hwf : WF (max (dimOf a) (dimOf b)) (rowsOf a ++ rowsOf b) := by
    intro r hr
    rcases List.mem_append.mp hr with hr | hr
    · exact rowsOf_wf a _ (Nat.le_max_left _ _) r hr
    · exact rowsOf_wf b _ (Nat.le_max_right _ _) r hr
  rw [Bool.not_eq_true', ← Bool.not_eq_true, feasible_iff _ _ hwf]
  constructor
  · intro h p hp
    exact h ⟨p, (Sat_append _ _ p).mpr ⟨(rowsOf_sat a p).mpr hp.1, (rowsOf_sat b p).mpr hp.2⟩⟩
  · rintro h ⟨p, hp⟩
    rw [Sat_append] at hp
    exact h p ⟨(rowsOf_sat a p).mp hp.1, (rowsOf_sat b p).mp hp.2⟩

/-- NNC polyhedra as constraint lists, judged by K1 -/
def K1Poly : PolyDom where
  D := List LCon
  γ a p := ∀ c ∈ a, c.sat p
  leq := kLeq
  isBottom := kEmpty
  join _ _ := []
  meet a b := a ++ b
  eqv a b := kLeq a b && kLeq b a
  contains a b := kLeq b a
  disjoint := kDisjoint
  top := []
  cons a := a
  addCon a c := a ++ [c]
  ubIfExact a b := if kLeq b a then some a else if kLeq a b then some b else none
  simplify a y := (a, !kDisjoint a y)
  leq_sound a b h := (kLeq_iff a b).mp h
  isBottom_sound a h := (kEmpty_iff a).mp h
  join_sound := by intro a b p _ c hc; cases hc
  meet_sound := by
    intro a b p ha hb c hc
    rcases List.mem_append.mp hc with hc | hc
    · exact ha c hc
    · exact hb c hc
  eqv_sound := by
    intro a b h p
    rw [Bool.and_eq_true] at h
    exact ⟨(kLeq_iff a b).mp h.1 p, (kLeq_iff b a).mp h.2 p⟩
  meet_exact := by
    intro a b p
    simp only [List.mem_append]
    exact ⟨fun h => ⟨fun c hc => h c (Or.inl hc), fun c hc => h c (Or.inr hc)⟩,
      fun h c hc => hc.elim (h.1 c) (h.2 c)⟩
  isBottom_iff := kEmpty_iff
  leq_iff := kLeq_iff
  contains_iff a b := kLeq_iff b a
  disjoint_iff := kDisjoint_iff
  top_spec := by intro p c hc; cases hc
  cons_spec := by intro a p; rfl
  addCon_spec := by
    intro a c p
    simp only [List.mem_append, List.mem_singleton]
    exact ⟨fun h => ⟨fun e he => h e (Or.inl he), h c (Or.inr rfl)⟩,
      fun h e he => he.elim (h.1 e) (fun h' => h' ▸ h.2)⟩
  ubIfExact_spec := by
    intro a b r h p
    by_cases h1 : kLeq b a = true
    · simp only [h1, if_true, Option.some.injEq] at h
      subst h
      exact ⟨Or.inl, fun h => h.elim id ((kLeq_iff b a).mp h1 p)⟩
    · by_cases h2 : kLeq a b = true
      · simp only [h1, h2, if_true, if_false, Bool.false_eq_true, Option.some.injEq] at h
        subst h
        exact ⟨Or.inr, fun h => h.elim ((kLeq_iff a b).mp h2 p) id⟩
      · simp [h1, h2] at h
  simplify_meet := by intro a y p; rfl
  simplify_enl := by intro a y p h; exact h
  simplify_false := by
    intro a y h p
    simp only [Bool.not_eq_false'] at h
    exact (kDisjoint_iff a y).mp h p

instance : DecidableEq K1Poly.D := inferInstanceAs (DecidableEq (List LCon))

end PPLV.Powerset
