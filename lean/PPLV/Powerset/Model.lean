import PPLV.Base.Dom

/-!
# C09 — code-shaped model of `Powerset<D>` and `Pointset_Powerset<PSET>` (no Mathlib)

Transliteration of `src/Powerset_templates.hh`, `Powerset_inlines.hh`,
`Pointset_Powerset_templates.hh`, `Pointset_Powerset.cc` over the generic domain interface K5.
A powerset is the sequence of its disjuncts (`std::list`, iteration order = list order) plus the
`reduced` flag.  Loops that erase from the list they iterate over are written as recursive
functions over an explicit *zipper* (elements before / after the cursor); loops whose trip count
is not structurally visible carry a `fuel` argument initialised with a bound that the C++ loop
cannot exceed (the theorems hold for every fuel).
-/
namespace PPLV.Powerset
open PPLV

variable (d : Dom)

/-- `Powerset<D>`: `sequence` and the mutable `reduced` flag -/
structure PS where
  seq : List d.D
  reduced : Bool

/-! ### `Powerset<D>::collapse(Sequence_iterator sink)` -/

/-- the sequence is `pre ++ [x] ++ post`, `sink` points to `x`:
    `x` absorbs (upper bound) every later disjunct in order, the later ones are dropped, then the
    earlier disjuncts that entail the new `x` are dropped. -/
def collapseAt (pre : List d.D) (x : d.D) (post : List d.D) : List d.D :=
  let dj := post.foldl d.join x
  pre.filter (fun y => !d.leq y dj) ++ [dj]

/-! ### `Powerset<D>::omega_reduce()` -/

/-- the inner `for (yi …)` loop of `omega_reduce` over a stretch of the list not containing `xi`:
    drops every `yv` with `yv ⊑ xv`; stops (`break`, rest untouched) at the first `yv` with
    `xv ⊑ yv`, reporting `dropping_xi = true`. -/
def scanY (xv : d.D) : List d.D → List d.D × Bool
  | [] => ([], false)
  | yv :: ys =>
    if d.leq yv xv then scanY xv ys
    else if d.leq xv yv then (yv :: ys, true)
    else ((scanY xv ys).1.cons yv, (scanY xv ys).2)

/-- the test `abandon_expensive_computations != nullptr && xi != x.end()` at the bottom of the outer
    loop body ("hurry up": `collapse(xi)` and `break`); `k` is the normal continuation. -/
def hurryOr (abandon : Bool) (pre rest : List d.D) (k : List d.D) : List d.D :=
  match abandon, rest with
  | true, x :: post => collapseAt d pre x post
  | _, _ => k

/-- the outer `for (xi …)` loop: `pre` = disjuncts before `xi` (already visited and kept), the
    list argument = `xi :: post`.  `abandon` models `abandon_expensive_computations != nullptr`. -/
def omegaLoop (abandon : Bool) : Nat → List d.D → List d.D → List d.D
  | 0, pre, rest => pre ++ rest
  | _+1, pre, [] => pre
  | fuel+1, pre, xv :: post =>
    let r1 := scanY d xv pre
    if r1.2 then
      -- `break` while still scanning the earlier disjuncts: drop `xi`, `post` untouched
      hurryOr d abandon r1.1 post (omegaLoop abandon fuel r1.1 post)
    else
      let r2 := scanY d xv post
      if r2.2 then hurryOr d abandon r1.1 r2.1 (omegaLoop abandon fuel r1.1 r2.1)
      else hurryOr d abandon (r1.1 ++ [xv]) r2.1 (omegaLoop abandon fuel (r1.1 ++ [xv]) r2.1)

/-- `omega_reduce()`: nothing if the flag is set; otherwise drop bottoms, then non-maximal
    elements; set the flag. -/
def omegaReduce (abandon : Bool) (x : PS d) : PS d :=
  if x.reduced then x
  else
    let s1 := x.seq.filter (fun y => !d.isBottom y)
    ⟨omegaLoop d abandon s1.length [] s1, true⟩

/-- `collapse()` -/
def collapse (x : PS d) : PS d :=
  match x.seq with
  | [] => x
  | y :: ys => { x with seq := collapseAt d [] y ys }

/-- `collapse(unsigned max_disjuncts)` (`max_disjuncts > 0`) -/
def collapseMax (abandon : Bool) (maxD : Nat) (x : PS d) : PS d :=
  let x1 := omegaReduce d abandon x
  if x1.seq.length > maxD then
    match x1.seq.drop (maxD - 1) with
    | [] => x1
    | y :: ys => { x1 with seq := collapseAt d (x1.seq.take (maxD - 1)) y ys }
  else x1

/-! ### `add_non_bottom_disjunct_preserve_reduction(d, first, last)` with `last == end()`
(the only way it is called) -/

/-- the loop over `[first, last)`: `(surviving range, d ⊑ some xv)`.  When `d ⊑ xv` is found the
    function returns at once: the disjuncts dropped so far stay dropped. -/
def addScan (x : d.D) : List d.D → List d.D × Bool
  | [] => ([], false)
  | xv :: r =>
    if d.leq x xv then (xv :: r, true)
    else if d.leq xv x then addScan x r
    else ((addScan x r).1.cons xv, (addScan x r).2)

/-- the sequence is `pre ++ rng`, `first` points to the head of `rng`.  Returns the new
    `(pre, rng)`; note the C++ corner: if every element of the range has been dropped, `first ==
    end()` and the `push_back` lands *before* the returned `first`, i.e. outside the range. -/
def addNB (x : d.D) (pre rng : List d.D) : List d.D × List d.D :=
  let r := addScan d x rng
  if r.2 then (pre, r.1)
  else match r.1 with
    | [] => (pre ++ [x], [])
    | _ :: _ => (pre, r.1 ++ [x])

/-- one-argument form: `first = begin()` -/
def addNBwhole (x : d.D) (s : List d.D) : List d.D :=
  let r := addNB d x [] s
  r.1 ++ r.2

/-- `add_disjunct` -/
def addDisjunct (x : PS d) (y : d.D) : PS d := ⟨x.seq ++ [y], false⟩

/-- `least_upper_bound_assign(y)` = `upper_bound_assign(y)`; returns the new `x` and the
    (omega-reduced) `y`, whose mutable part changes too. -/
def lub (abandon : Bool) (x y : PS d) : PS d × PS d :=
  let x1 := omegaReduce d abandon x
  let y1 := omegaReduce d abandon y
  let r := y1.seq.foldl (fun (st : List d.D × List d.D) yi => addNB d yi st.1 st.2) ([], x1.seq)
  (⟨r.1 ++ r.2, x1.reduced⟩, y1)

/-- `pairwise_apply_assign(y, op)` -/
def pairwiseApply (abandon : Bool) (op : d.D → d.D → d.D) (x y : PS d) : PS d × PS d :=
  let x1 := omegaReduce d abandon x
  let y1 := omegaReduce d abandon y
  let s := x1.seq.flatMap fun xi => (y1.seq.map fun yi => op xi yi).filter fun z => !d.isBottom z
  (⟨s, false⟩, y1)

/-- `meet_assign` / `Pointset_Powerset::intersection_assign` -/
def meetAssign (abandon : Bool) (x y : PS d) : PS d × PS d := pairwiseApply d abandon d.meet x y

/-- `Powerset::definitely_entails(y)`: the two nested loops with the `found` flag -/
def definitelyEntails (x y : List d.D) : Bool :=
  outer x
where
  inner (xi : d.D) : List d.D → Bool
    | [] => false
    | yi :: ys => if d.leq xi yi then true else inner xi ys
  outer : List d.D → Bool
    | [] => true
    | xi :: xs => if inner xi y then outer xs else false

/-- `std::find` + erase of `operator==` -/
def eraseFirst (xi : d.D) : List d.D → Option (List d.D)
  | [] => none
  | z :: zs => if d.eqv z xi then some zs else (eraseFirst xi zs).map (z :: ·)

/-- `operator==(x, y)` -/
def eq (abandon : Bool) (x y : PS d) : Bool :=
  let x1 := omegaReduce d abandon x
  let y1 := omegaReduce d abandon y
  if x1.seq.length != y1.seq.length then false
  else go x1.seq y1.seq
where
  go : List d.D → List d.D → Bool
    | [], _ => true
    | xi :: xs, z => match eraseFirst d xi z with
      | none => false
      | some z' => go xs z'

/-- `is_bottom()` -/
def isBottom (abandon : Bool) (x : PS d) : Bool := (omegaReduce d abandon x).seq.isEmpty

/-- disjunct-wise transformers (`add_constraint`, `affine_image`, dimension changes …) -/
def mapDisjuncts (f : d.D → d.D) (x : PS d) : PS d := ⟨x.seq.map f, false⟩

end PPLV.Powerset

/-! ## `Pointset_Powerset` over an exact polyhedral domain -/
namespace PPLV.Powerset
open PPLV

variable (d : PolyDom)

/-- `linear_partition_aux(c, pset, r)` -/
def linearPartitionAux (c : LCon) (st : d.D × List d.D) : d.D × List d.D :=
  let negC : LCon := if c.rel = .gt then c.exprLe else c.exprLt
  let n := d.addCon st.1 negC
  let r := if !d.isBottom n then st.2 ++ [n] else st.2
  (d.addCon st.1 c, r)

/-- `linear_partition(p, q)`: `(p ∩ q, pieces of q ∖ p)` -/
def linearPartition (p q : d.D) : d.D × List d.D :=
  (d.cons p).foldl (fun st c =>
    if c.rel = .eq then linearPartitionAux d c.exprGe (linearPartitionAux d c.exprLe st)
    else linearPartitionAux d c st) (q, [])

/-- first inner loop of `check_containment`: drop the `pj` contained in `pi` -/
def dropContained (pi : d.D) (tmp : List d.D) : List d.D :=
  tmp.filter fun pj => !d.contains pi pj

/-- second inner loop: `(tmp after the erasures, new_disjuncts)` -/
def splitAgainst (abandon : Bool) (pi : d.D) : List d.D → PS d.toDom → List d.D × PS d.toDom
  | [], nd => ([], nd)
  | pj :: js, nd =>
    if d.disjoint pj pi then
      let r := splitAgainst abandon pi js nd
      (pj :: r.1, r.2)
    else
      let part := linearPartition d pi pj
      -- `r` of linear_partition was built with add_disjunct: flag clear
      let nd' := (lub d.toDom abandon nd ⟨part.2, false⟩).1
      splitAgainst abandon pi js nd'

/-- `check_containment(ph, ps)` -/
def checkContainment (abandon : Bool) (ph : d.D) (ps : List d.D) : Bool :=
  if d.isBottom ph then true
  else go ps ⟨[ph], false⟩
where
  go : List d.D → PS d.toDom → Bool
    | [], _ => false
    | pi :: rest, tmp =>
      let t1 := dropContained d pi tmp.seq
      if t1.isEmpty then true
      else
        let r := splitAgainst d abandon pi t1 ⟨[], true⟩
        let tmp' := (lub d.toDom abandon ⟨r.1, tmp.reduced⟩ r.2).1
        go rest tmp'

/-- `geometrically_covers(y)`: every disjunct of `y` is contained in the union of `x` -/
def geometricallyCovers (abandon : Bool) (x y : List d.D) : Bool :=
  match y with
  | [] => true
  | yi :: ys => if !checkContainment d abandon yi x then false else geometricallyCovers abandon x ys

/-- `geometrically_equals(y)` -/
def geometricallyEquals (abandon : Bool) (x y : List d.D) : Bool :=
  geometricallyCovers d abandon x y && geometricallyCovers d abandon y x

/-- `Pointset_Powerset<NNC_Polyhedron>::difference_assign(y)` -/
def psDiff (abandon : Bool) (x y : PS d.toDom) : PS d.toDom :=
  let x1 := omegaReduce d.toDom abandon x
  let y1 := omegaReduce d.toDom abandon y
  let s := y1.seq.foldl (fun newSeq yi => newSeq.flatMap fun itr => (linearPartition d yi itr).2) x1.seq
  ⟨s, false⟩

/-! ### `pairwise_reduce()` -/

/-- inner `for (sj …)` loop: first unmarked `pj` with `pi.upper_bound_assign_if_exact(pj)`;
    returns the merged element and the tail with that `pj` marked -/
def markFirstExact (pi : d.D) : List (d.D × Bool) → Option (d.D × List (d.D × Bool))
  | [] => none
  | (pj, true) :: r => (markFirstExact pi r).map fun u => (u.1, (pj, true) :: u.2)
  | (pj, false) :: r =>
    match d.ubIfExact pi pj with
    | some u => some (u, (pj, true) :: r)
    | none => (markFirstExact pi r).map fun u => (u.1, (pj, false) :: u.2)

/-- first loop of one round: `(unmarked disjuncts in order, new_x, deleted)` -/
def mergeRound : Nat → List (d.D × Bool) → List d.D → List d.D → Nat → List d.D × List d.D × Nat
  | 0, xs, un, nx, k => (un ++ (xs.filter (fun e => !e.2)).map (·.1), nx, k)
  | _, [], un, nx, k => (un, nx, k)
  | f+1, (_, true) :: r, un, nx, k => mergeRound f r un nx k
  | f+1, (pi, false) :: r, un, nx, k =>
    match markFirstExact d pi r with
    | some (u, r') => mergeRound f r' un (addNBwhole d.toDom u nx) (k+1)
    | none => mergeRound f r (un ++ [pi]) nx k

/-- one iteration of the `do … while (deleted > 0)` loop: new sequence and `deleted` -/
def pairwiseRound (s : List d.D) : List d.D × Nat :=
  let r := mergeRound d s.length (s.map fun x => (x, false)) [] [] 0
  let st := r.1.foldl (fun (st : List d.D × List d.D) xi => addNB d.toDom xi st.1 st.2) ([], r.2.1)
  (st.1 ++ st.2, r.2.2)

def pairwiseLoop : Nat → List d.D → List d.D
  | 0, s => s
  | f+1, s =>
    let r := pairwiseRound d s
    if r.2 > 0 then pairwiseLoop f r.1 else r.1

/-- `pairwise_reduce()` -/
def pairwiseReduce (abandon : Bool) (x : PS d.toDom) : PS d.toDom :=
  let x1 := omegaReduce d.toDom abandon x
  { x1 with seq := pairwiseLoop d (x1.seq.length + 1) x1.seq }

/-! ### `simplify_using_context_assign(y)` -/

/-- `intersection_preserving_enlarge_element(dest)`: new `dest` and `nonempty_intersection`;
    `simp` is the base-level `simplify_using_context_assign` -/
def enlargeElementWith (simp : d.D → d.D → d.D × Bool) (ctx : List d.D) (dest : d.D) : d.D × Bool :=
  ctx.foldl (fun (st : d.D × Bool) ci =>
    let contextI := d.meet ci st.1
    let e := simp dest contextI
    (d.meet st.1 e.1, st.2 || e.2)) (d.top, false)

def enlargeElement (ctx : List d.D) (dest : d.D) : d.D × Bool :=
  enlargeElementWith d d.simplify ctx dest

/-- `simplify_using_context_assign(y)`: new `x`, the omega-reduced `y`, the Boolean result -/
def simplifyCtx (abandon : Bool) (x y : PS d.toDom) : PS d.toDom × PS d.toDom × Bool :=
  let x1 := omegaReduce d.toDom abandon x
  -- `x.is_empty()`: every disjunct empty
  if x1.seq.all d.isBottom then (x1, y, false)
  else
    let y1 := omegaReduce d.toDom abandon y
    if y1.seq.all d.isBottom then (y1, y1, false)
    else
      let s :=
        match y1.seq with
        | [yi] => x1.seq.filterMap fun xi => let r := d.simplify xi yi; if r.2 then some r.1 else none
        | _ => x1.seq.filterMap fun xi => let r := enlargeElement d y1.seq xi; if r.2 then some r.1 else none
      (⟨s, false⟩, y1, !s.isEmpty)

end PPLV.Powerset
