import PPLV.Value.MoveProofsAlias7

/-! C13 aliasing, part 12: `merge_rows_assign(y)` when `y` has the same row values as the receiver
    (any heap): every comparison is a tie, the receiver's rows are moved over in order -/
namespace PPLV.Value.Move.AliasKit
open PPLV.Value PPLV.Value.Move
set_option linter.unusedSimpArgs false

theorem value_eq_some_val {h : Heap} {as : List Nat} (hO : Owns h as) (r : Row) (ha : r.impl ∈ as) :
    r.value h = some (r.val h) := by
  obtain ⟨c, hc⟩ := PolyKit.Owns.read_some hO ha
  simp [Row.value, Row.val, Heap.read, hc]

theorem swapBack_snoc (l : List Row) (d r : Row) : swapBack (l ++ [d]) r = (l ++ [r], d) := by
  simp [swapBack]

theorem pushSwap_spec (K : RowClass) (h : Heap) (tmp : SVec) (r : Row) (F : List Nat)
    (hO : Owns h (owned tmp.impl ++ r.impl :: F)) :
    (pushSwap K h tmp r).2.1.impl = tmp.impl ++ [r]
    ∧ Owns (pushSwap K h tmp r).1 (owned tmp.impl ++ r.impl :: (pushSwap K h tmp r).2.2.impl :: F)
    ∧ FrameEq h (pushSwap K h tmp r).1 (owned tmp.impl ++ r.impl :: F) := by
  obtain ⟨g1, g2, _, g4, g5⟩ := resize_grow_refines K h tmp (tmp.size + 1) (r.impl :: F) hO (Nat.le_succ _)
  unfold pushSwap
  generalize tmp.resize K h (tmp.size + 1) = T at g1 g2 g4 g5
  have hlen : T.2.impl.length = tmp.impl.length + 1 := g2
  obtain ⟨d, hd⟩ : ∃ d, T.2.impl = tmp.impl ++ [d] := by
    have hne : T.2.impl ≠ [] := by intro e; simp [e] at hlen
    refine ⟨T.2.impl.getLast hne, ?_⟩
    have h1 : T.2.impl.dropLast = tmp.impl := by
      rw [List.dropLast_eq_take, hlen]
      simpa [SVec.size] using g1
    rw [← h1]; exact (List.dropLast_concat_getLast hne).symm
  simp only [hd, swapBack_snoc]
  refine ⟨by trivial, ?_, fun a ha => g5 a ha⟩
  refine PolyKit.Owns.perm ?_ g4
  rw [hd]
  alias_perm_tac

theorem mergeLoop_steal_eq (K : RowClass) (sd : Nat) (l : List Row) (fuel xi yi : Nat) (h : Heap) (xs : List Row)
    (tmp : SVec) (xr yr : Row) (hx : xs[xi]? = some xr) (hy : l[yi]? = some yr)
    (hxv : xr.value h = some (xr.val h)) (hyv : yr.value h = some (yr.val h))
    (hc : K.cmp (xr.val h) (yr.val h) = 0) :
    mergeLoop K sd (some l) (fuel + 1) xi yi h xs tmp
      = mergeLoop K sd (some l) fuel (xi + 1) (yi + 1) (pushSwap K h tmp xr).1
          (xs.set xi (pushSwap K h tmp xr).2.2) (pushSwap K h tmp xr).2.1 := by
  have hxl : xi < xs.length := (List.getElem?_eq_some_iff.mp hx).1
  have hyl : yi < l.length := (List.getElem?_eq_some_iff.mp hy).1
  rw [mergeLoop]
  simp only [hx, hy, hxv, hyv, hc, hxl, hyl, and_self, ↓reduceIte, Int.le_refl]

theorem mergeLoop_done_eq (K : RowClass) (sd : Nat) (l : List Row) (fuel xi yi : Nat) (h : Heap) (xs : List Row)
    (tmp : SVec) (hx : xs.length ≤ xi) (hy : l.length ≤ yi) :
    mergeLoop K sd (some l) fuel xi yi h xs tmp = (h, xs, tmp) := by
  cases fuel with
  | zero => rfl
  | succ f =>
    rw [mergeLoop]
    have h1 : ¬ xi < xs.length := by omega
    have h2 : ¬ yi < l.length := by omega
    simp only [h1, h2, false_and, ↓reduceIte]

theorem mergeLoop_same (K : RowClass) (hK : ∀ v, K.cmp v v = 0) (sd : Nat) (F : List Nat) (rest : List Row) :
    ∀ (yrest : List Row) (fuel : Nat) (lefts done ydone : List Row) (h : Heap) (tmp : SVec),
    rest.length ≤ fuel → lefts.length = done.length → ydone.length = done.length → tmp.impl = done →
    rowValues h yrest = rowValues h rest → (∀ r ∈ yrest, r.impl ∈ F) →
    Owns h (owned lefts ++ (owned rest ++ (owned done ++ F))) →
    (mergeLoop K sd (some (ydone ++ yrest)) fuel done.length done.length h (lefts ++ rest) tmp).2.2.impl
        = done ++ rest
    ∧ Owns (mergeLoop K sd (some (ydone ++ yrest)) fuel done.length done.length h (lefts ++ rest) tmp).1
        (owned (mergeLoop K sd (some (ydone ++ yrest)) fuel done.length done.length h (lefts ++ rest) tmp).2.1
          ++ (owned (done ++ rest) ++ F))
    ∧ FrameEq h (mergeLoop K sd (some (ydone ++ yrest)) fuel done.length done.length h (lefts ++ rest) tmp).1
        (owned rest ++ (owned done ++ F)) := by
  induction rest with
  | nil =>
    intro yrest fuel lefts done ydone h tmp _ hl hyl ht hv _ hO
    have hy0 : yrest = [] := by
      have := congrArg List.length hv
      simpa [rowValues] using this
    subst hy0
    rw [mergeLoop_done_eq K sd _ fuel _ _ h _ tmp (by simp [hl]) (by simp [hyl])]
    refine ⟨by simp [ht], ?_, PolyKit.FrameEq.refl _ _⟩
    simpa using hO
  | cons xr rest' ih =>
    intro yrest fuel lefts done ydone h tmp hf hl hyl ht hv hF hO
    obtain ⟨yr, yrest', rfl⟩ : ∃ yr yrest', yrest = yr :: yrest' := by
      cases yrest with
      | nil => simp [rowValues] at hv
      | cons a b => exact ⟨a, b, rfl⟩
    obtain ⟨fuel', rfl⟩ : ∃ f, fuel = f + 1 := ⟨fuel - 1, by simp at hf; omega⟩
    simp only [rowValues, List.map_cons, List.cons.injEq] at hv
    have hx : (lefts ++ xr :: rest')[done.length]? = some xr := by rw [← hl]; simp
    have hy : (ydone ++ yr :: yrest')[done.length]? = some yr := by rw [← hyl]; simp
    have hyF : yr.impl ∈ F := hF yr List.mem_cons_self
    have hxv := value_eq_some_val hO xr (by simp)
    have hyv := value_eq_some_val hO yr (by simp [hyF])
    have hc : K.cmp (xr.val h) (yr.val h) = 0 := by rw [hv.1]; exact hK _
    rw [mergeLoop_steal_eq K sd _ fuel' _ _ h _ tmp xr yr hx hy hxv hyv hc]
    have hO1 : Owns h (owned tmp.impl ++ xr.impl :: (owned lefts ++ (owned rest' ++ F))) := by
      rw [ht]; exact PolyKit.Owns.perm (by alias_perm_tac) hO
    obtain ⟨p1, p2, p3⟩ := pushSwap_spec K h tmp xr _ hO1
    generalize pushSwap K h tmp xr = P at p1 p2 p3
    rw [ht] at p1 p2 p3
    have hset : (lefts ++ xr :: rest').set done.length P.2.2 = (lefts ++ [P.2.2]) ++ rest' := by
      rw [← hl]; simp
    have hlen : done.length + 1 = (done ++ [xr]).length := by simp
    have hyd : ydone ++ yr :: yrest' = (ydone ++ [yr]) ++ yrest' := by simp
    rw [hset, hlen, hyd]
    have hfr : FrameEq h P.1 (owned rest' ++ (owned done ++ xr.impl :: F)) :=
      PolyKit.FrameEq.mono p3 (fun a ha => by
        simp only [List.mem_append, List.mem_cons] at ha ⊢
        rcases ha with ha | ha | ha | ha <;> simp [ha])
    have hv' : rowValues P.1 yrest' = rowValues P.1 rest' := by
      rw [PolyKit.rowValues_frame yrest' hfr (fun a ha => by
            obtain ⟨r, hr, rfl⟩ := List.mem_map.mp ha
            have := hF r (List.mem_cons_of_mem _ hr)
            simp [this]),
          PolyKit.rowValues_frame rest' hfr (fun a ha => by simp [ha])]
      exact hv.2
    have hO2 : Owns P.1 (owned (lefts ++ [P.2.2]) ++ (owned rest' ++ (owned (done ++ [xr]) ++ F))) :=
      PolyKit.Owns.perm (by alias_perm_tac) p2
    obtain ⟨i1, i2, i3⟩ := ih yrest' fuel' (lefts ++ [P.2.2]) (done ++ [xr]) (ydone ++ [yr]) P.1 P.2.1
      (by simp at hf; omega) (by simp [hl]) (by simp [hyl]) p1 hv'
      (fun r hr => hF r (List.mem_cons_of_mem _ hr)) hO2
    refine ⟨by rw [i1]; simp, ?_, ?_⟩
    · refine PolyKit.Owns.perm ?_ i2
      alias_perm_tac
    · refine PolyKit.FrameEq.trans (PolyKit.FrameEq.mono p3 (fun a ha => by
        simp only [List.mem_append, List.mem_cons, PolyKit.owned_cons] at ha ⊢
        rcases ha with (ha | ha) | ha | ha <;> simp [ha])) (PolyKit.FrameEq.mono i3 (fun a ha => by
        simp only [List.mem_append, List.mem_cons, PolyKit.owned_cons, PolyKit.owned_append,
          PolyKit.owned_nil] at ha ⊢
        rcases ha with (ha | ha) | ha | ha <;> simp [ha]))

end PPLV.Value.Move.AliasKit
