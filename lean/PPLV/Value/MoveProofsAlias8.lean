import PPLV.Value.MoveProofsAlias7

/-! C13 aliasing, part 8: `Constraint_System::insert[_pending](c, Recycle_Input)` on values -/
namespace PPLV.Value.Move.AliasKit
open PPLV.Value PPLV.Value.Move
set_option linter.unusedSimpArgs false

theorem LinSys.setTopology_refines (h : Heap) (s : LinSys) (nnc : Bool) (frame : List Nat)
    (hO : Owns h (s.owned ++ frame)) :
    Owns (s.setTopology h nnc).1 ((s.setTopology h nnc).2.owned ++ frame)
    ∧ (s.setTopology h nnc).2.owned = s.owned
    ∧ (s.setTopology h nnc).2.value (s.setTopology h nnc).1 = setTopologySysV nnc (s.value h)
    ∧ FrameEq h (s.setTopology h nnc).1 frame := by
  unfold LinSys.setTopology setTopologySysV
  have hn : (s.value h).nnc = s.nnc := rfl
  by_cases h1 : (s.nnc == nnc) = true
  · simp only [hn, h1, ↓reduceIte]
    exact ⟨hO, by trivial, by trivial, PolyKit.FrameEq.refl _ _⟩
  · simp only [hn, h1, Bool.false_eq_true, ↓reduceIte]
    have hO' : Owns h (owned s.rows.impl ++ (owned [] ++ frame)) := by simpa [LinSys.owned] using hO
    obtain ⟨pre', e1, e2, e3, _, e5, e6⟩ := setTopologyRows_refines nnc frame s.rows.impl [] h hO'
    simp only [List.append_nil] at e1 e3 e5 e6
    simp only [SVec.size]
    rw [e1]
    refine ⟨?_, ?_, ?_, e6⟩
    · simpa [LinSys.owned, e2] using e5
    · simp [LinSys.owned, e2]
    · simp only [LinSys.value] at e3 ⊢
      rw [e3]

def csAdjustV (s : LinSysV) (c : RowV) : LinSysV × RowV :=
  if s.nnc != c.nnc then (if !s.nnc then (setTopologySysV true s, c) else (s, setTopologyV true c)) else (s, c)

def csInsertV (pending : Bool) (s : LinSysV) (c : RowV) : LinSysV :=
  if pending then insertPendingNoOkV (csAdjustV s c).1 (csAdjustV s c).2
  else insertNoOkV constraintClass (csAdjustV s c).1 (csAdjustV s c).2

theorem csAdjust_refines (h : Heap) (s : LinSys) (c : Row) (frame : List Nat)
    (hO : Owns h (s.owned ++ c.impl :: frame)) :
    Owns (csAdjustTopology h s c).1 ((csAdjustTopology h s c).2.1.owned ++ (csAdjustTopology h s c).2.2.impl :: frame)
    ∧ (csAdjustTopology h s c).2.1.value (csAdjustTopology h s c).1 = (csAdjustV (s.value h) (c.val h)).1
    ∧ (csAdjustTopology h s c).2.2.val (csAdjustTopology h s c).1 = (csAdjustV (s.value h) (c.val h)).2
    ∧ FrameEq h (csAdjustTopology h s c).1 frame := by
  unfold csAdjustTopology csAdjustV
  have hn : (s.value h).nnc = s.nnc := rfl
  have hm : (c.val h).nnc = c.nnc := rfl
  by_cases h1 : (s.nnc != c.nnc) = true
  · simp only [hn, hm, h1, ↓reduceIte]
    by_cases h2 : (!s.nnc) = true
    · simp only [h2, ↓reduceIte]
      obtain ⟨t1, t2, t3, t4⟩ := LinSys.setTopology_refines h s true (c.impl :: frame) hO
      refine ⟨t1, t3, ?_, PolyKit.FrameEq.mono t4 (fun a ha => List.mem_cons_of_mem _ ha)⟩
      exact PolyKit.Row.val_frame c (t4 _ List.mem_cons_self)
    · simp only [h2, Bool.false_eq_true, ↓reduceIte]
      obtain ⟨s1, s2, s3, s4⟩ := Row.setTopology_refines hO c (by simp) true
      have hO' : Owns h (c.impl :: (s.owned ++ frame)) := PolyKit.Owns.perm (by alias_perm_tac) hO
      have hnd : c.impl ∉ s.owned ++ frame := (List.nodup_cons.mp hO'.2.1).1
      have hfr : FrameEq h (c.setTopology h true).1 (s.owned ++ frame) := frame_of_ne s4 hnd
      refine ⟨by rw [s2]; exact s1, ?_, s3, PolyKit.FrameEq.right hfr⟩
      exact PolyKit.LinSys.value_frame s hfr (fun a ha => List.mem_append_left _ ha)
  · simp only [hn, hm, h1, Bool.false_eq_true, ↓reduceIte]
    exact ⟨hO, by trivial, by trivial, PolyKit.FrameEq.refl _ _⟩

theorem csInsert_refines (pending : Bool) (h : Heap) (s : LinSys) (c : Row) (frame : List Nat)
    (hO : Owns h (s.owned ++ c.impl :: frame)) :
    let out := if pending then csInsertPendingRow h s c else csInsertRow h s c
    Owns out.1 (out.2.1.owned ++ out.2.2.impl :: frame)
    ∧ out.2.1.value out.1 = csInsertV pending (s.value h) (c.val h)
    ∧ FrameEq h out.1 frame := by
  obtain ⟨a1, a2, a3, a4⟩ := csAdjust_refines h s c frame hO
  cases pending with
  | true =>
    obtain ⟨b1, b2, _, b4⟩ := insertPendingNoOk_refines constraintClass _ _ _ frame a1
    refine ⟨b1, ?_, PolyKit.FrameEq.trans a4 b4⟩
    simp only [csInsertV, ↓reduceIte, ← a2, ← a3]
    exact b2
  | false =>
    obtain ⟨b1, b2, _, b4⟩ := insertNoOk_refines constraintClass _ _ _ frame a1
    refine ⟨b1, ?_, PolyKit.FrameEq.trans a4 b4⟩
    simp only [csInsertV, Bool.false_eq_true, ↓reduceIte, ← a2, ← a3]
    exact b2

end PPLV.Value.Move.AliasKit
