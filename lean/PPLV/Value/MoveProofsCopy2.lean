import PPLV.Value.MoveProofsCopyKit
/-!
# C13 stage 2 — proofs [C], part 2: `adjust_topology_and_space_dimension`
-/
namespace PPLV.Value.Move
namespace CopyKit

theorem rowSetTopology_spec {h : Heap} {as : List Nat} (hO : Owns h as) {r : Row} (hr : r.impl ∈ as) (nnc : Bool) :
    Owns (r.setTopology h nnc).1 as ∧ (r.setTopology h nnc).2.impl = r.impl
    ∧ (r.setTopology h nnc).2.val (r.setTopology h nnc).1 = setTopologyV nnc (r.val h)
    ∧ (∀ x, x ≠ r.impl → (r.setTopology h nnc).1.cells x = h.cells x) := by
  obtain ⟨c, hc⟩ := owns_isSome hO hr
  have hv : r.val h = ⟨c, r.tag, r.nnc⟩ := by simp [Row.val, Heap.read, hc]
  by_cases h1 : (r.nnc == nnc) = true
  · have e : r.setTopology h nnc = (h, r) := by simp only [Row.setTopology, h1, if_true]
    have e2 : setTopologyV nnc (r.val h) = r.val h := by
      have : ((r.val h).nnc == nnc) = true := h1
      simp only [setTopologyV, this, if_true]
    rw [e, e2]
    exact ⟨hO, rfl, rfl, fun _ _ => rfl⟩
  · have h1' : ¬ ((r.val h).nnc == nnc) = true := h1
    by_cases h2 : (!r.nnc) = true
    · have e : r.setTopology h nnc
          = (h.modify r.impl (fun c => resizeCoeffs c (c.length + 1)), { r with nnc := nnc }) := by
        simp only [Row.setTopology, h1, h2, if_true, if_false, Bool.false_eq_true]
      have h2' : (!(r.val h).nnc) = true := h2
      have e2 : setTopologyV nnc (r.val h) = ⟨resizeCoeffs c (c.length + 1), r.tag, nnc⟩ := by
        simp only [setTopologyV, h1', h2', if_true, if_false, Bool.false_eq_true]
        rw [hv]
      rw [e, e2]
      obtain ⟨m1, m2, m3⟩ := owns_modify hO hr (fun c => resizeCoeffs c (c.length + 1))
      refine ⟨m1, rfl, ?_, m2⟩
      simp [Row.val, Heap.read, m3, hc]
    · have e : r.setTopology h nnc
          = (h.modify r.impl (fun c => resizeCoeffs c (c.length - 1)), { r with nnc := nnc }) := by
        simp only [Row.setTopology, h1, h2, if_false, Bool.false_eq_true]
      have h2' : ¬ (!(r.val h).nnc) = true := h2
      have e2 : setTopologyV nnc (r.val h) = ⟨resizeCoeffs c (c.length - 1), r.tag, nnc⟩ := by
        simp only [setTopologyV, h1', h2', if_false, Bool.false_eq_true]
        rw [hv]
      rw [e, e2]
      obtain ⟨m1, m2, m3⟩ := owns_modify hO hr (fun c => resizeCoeffs c (c.length - 1))
      refine ⟨m1, rfl, ?_, m2⟩
      simp [Row.val, Heap.read, m3, hc]

theorem rowSetSpaceDim_spec {h : Heap} {as : List Nat} (hO : Owns h as) {r : Row} (hr : r.impl ∈ as) (sd : Nat) :
    Owns (r.setSpaceDimNoOk h sd) as
    ∧ r.val (r.setSpaceDimNoOk h sd) = setSpaceDimV sd (r.val h)
    ∧ (∀ x, x ≠ r.impl → (r.setSpaceDimNoOk h sd).cells x = h.cells x) := by
  obtain ⟨c, hc⟩ := owns_isSome hO hr
  obtain ⟨m1, m2, m3⟩ := owns_modify hO hr (setSpaceDimCoeffs r.nnc sd)
  refine ⟨m1, ?_, m2⟩
  unfold Row.setSpaceDimNoOk
  simp [Row.val, Heap.read, m3, hc, setSpaceDimV]

theorem nodup_owned_of_owns {h : Heap} {rows : List Row} {frame : List Nat} (hO : Owns h (owned rows ++ frame)) :
    (owned rows).Nodup := (List.nodup_append.mp (owns_nodup hO)).1

theorem frame_ne_of_owns {h : Heap} {rows : List Row} {frame : List Nat} (hO : Owns h (owned rows ++ frame))
    {r : Row} (hr : r.impl ∈ owned rows) {a : Nat} (ha : a ∈ frame) : a ≠ r.impl :=
  fun e => (List.nodup_append.mp (owns_nodup hO)).2.2 _ hr _ ha e.symm

theorem setTopologyRows_spec (nnc : Bool) (frame : List Nat) :
    ∀ (i : Nat) (h : Heap) (rows : List Row), i ≤ rows.length → Owns h (owned rows ++ frame) →
    Owns (setTopologyRows nnc i h rows).1 (owned rows ++ frame)
    ∧ owned (setTopologyRows nnc i h rows).2 = owned rows
    ∧ (∀ j, ((setTopologyRows nnc i h rows).2[j]?).map (Row.val (setTopologyRows nnc i h rows).1)
        = (rows[j]?).map (fun r => if j < i then setTopologyV nnc (r.val h) else r.val h))
    ∧ FrameEq h (setTopologyRows nnc i h rows).1 frame := by
  intro i
  induction i with
  | zero =>
    intro h rows _ hO
    have e : setTopologyRows nnc 0 h rows = (h, rows) := rfl
    rw [e]
    refine ⟨hO, rfl, ?_, fun _ _ => rfl⟩
    intro j; simp
  | succ i ih =>
    intro h rows hi hO
    have hil : i < rows.length := by omega
    have hr : rows[i]? = some rows[i] := List.getElem?_eq_getElem hil
    generalize rows[i] = r at hr
    have hro : r.impl ∈ owned rows := mem_owned_of_getElem? hr
    obtain ⟨t1, t2, t3, t4⟩ := rowSetTopology_spec hO (List.mem_append_left _ hro) nnc
    have e : setTopologyRows nnc (i + 1) h rows
        = setTopologyRows nnc i (r.setTopology h nnc).1 (rows.set i (r.setTopology h nnc).2) := by
      simp only [setTopologyRows, hr]
    rw [e]
    generalize r.setTopology h nnc = T at t1 t2 t3 t4
    have ho : owned (rows.set i T.2) = owned rows := by
      rw [owned_set, t2]
      apply List.ext_getElem?
      intro j
      rw [List.getElem?_set]
      by_cases hij : i = j
      · subst hij
        have hro' : (owned rows)[i]? = some r.impl := by simp [owned, hr]
        rw [hro']; simp [owned_length, hil]
      · simp [hij]
    obtain ⟨i1, i2, i3, i4⟩ := ih T.1 (rows.set i T.2) (by simp; omega) (by rw [ho]; exact t1)
    rw [ho] at i1 i2
    refine ⟨i1, i2, ?_, ?_⟩
    · intro j
      rw [i3 j, List.getElem?_set]
      by_cases hij : i = j
      · subst hij
        rw [hr]
        simp [hil, t3]
      · simp only [hij, if_false]
        cases hj : rows[j]? with
        | none => rfl
        | some r' =>
          simp only [Option.map_some]
          have hne : r'.impl ≠ r.impl := nodup_impl_ne (nodup_owned_of_owns hO) hj hr (Ne.symm hij)
          rw [val_congr (t4 _ hne)]
          have : (j < i) ↔ (j < i + 1) := by omega
          simp only [this]
    · refine frameEq_trans ?_ i4
      intro a ha
      exact t4 a (frame_ne_of_owns hO hro ha)

theorem setSpaceDimRows_spec (sd : Nat) (frame : List Nat) (rows : List Row) :
    ∀ (i : Nat) (h : Heap), i ≤ rows.length → Owns h (owned rows ++ frame) →
    Owns (setSpaceDimRows sd i h rows) (owned rows ++ frame)
    ∧ (∀ j r, rows[j]? = some r →
        r.val (setSpaceDimRows sd i h rows) = if j < i then setSpaceDimV sd (r.val h) else r.val h)
    ∧ FrameEq h (setSpaceDimRows sd i h rows) frame := by
  intro i
  induction i with
  | zero =>
    intro h _ hO
    have e : setSpaceDimRows sd 0 h rows = h := rfl
    rw [e]
    exact ⟨hO, fun _ _ _ => by simp, fun _ _ => rfl⟩
  | succ i ih =>
    intro h hi hO
    have hil : i < rows.length := by omega
    have hr : rows[i]? = some rows[i] := List.getElem?_eq_getElem hil
    generalize rows[i] = r at hr
    have hro : r.impl ∈ owned rows := mem_owned_of_getElem? hr
    obtain ⟨t1, t3, t4⟩ := rowSetSpaceDim_spec hO (List.mem_append_left _ hro) sd
    have e : setSpaceDimRows sd (i + 1) h rows = setSpaceDimRows sd i (r.setSpaceDimNoOk h sd) rows := by
      simp only [setSpaceDimRows, hr]
    rw [e]
    obtain ⟨i1, i3, i4⟩ := ih (r.setSpaceDimNoOk h sd) (by omega) t1
    refine ⟨i1, ?_, ?_⟩
    · intro j r' hj
      rw [i3 j r' hj]
      by_cases hij : i = j
      · subst hij
        have : r' = r := by rw [hr] at hj; exact (Option.some.inj hj).symm
        subst this
        simp [t3]
      · have hne : r'.impl ≠ r.impl := nodup_impl_ne (nodup_owned_of_owns hO) hj hr (Ne.symm hij)
        rw [val_congr (t4 _ hne)]
        have : (j < i) ↔ (j < i + 1) := by omega
        simp only [this]
    · refine frameEq_trans ?_ i4
      intro a ha
      exact t4 a (frame_ne_of_owns hO hro ha)

theorem setTopology_spec (h : Heap) (s : LinSys) (nnc : Bool) (frame : List Nat) (hO : Owns h (s.owned ++ frame)) :
    Owns (s.setTopology h nnc).1 (s.owned ++ frame) ∧ (s.setTopology h nnc).2.owned = s.owned
    ∧ (s.setTopology h nnc).2.value (s.setTopology h nnc).1 = setTopologySysV nnc (s.value h)
    ∧ FrameEq h (s.setTopology h nnc).1 frame := by
  by_cases h1 : (s.nnc == nnc) = true
  · have h1' : ((s.value h).nnc == nnc) = true := h1
    have e : s.setTopology h nnc = (h, s) := by simp only [LinSys.setTopology, h1, if_true]
    have e2 : setTopologySysV nnc (s.value h) = s.value h := by simp only [setTopologySysV, h1', if_true]
    rw [e, e2]
    exact ⟨hO, rfl, rfl, fun _ _ => rfl⟩
  · have h1' : ¬ ((s.value h).nnc == nnc) = true := h1
    have e : s.setTopology h nnc = ((setTopologyRows nnc s.rows.size h s.rows.impl).1,
        { s with rows := ⟨(setTopologyRows nnc s.rows.size h s.rows.impl).2, s.rows.cap⟩, nnc := nnc }) := by
      simp only [LinSys.setTopology, h1, if_false, Bool.false_eq_true]
    have e2 : setTopologySysV nnc (s.value h)
        = { s.value h with rows := (s.value h).rows.map (setTopologyV nnc), nnc := nnc } := by
      simp only [setTopologySysV, h1', if_false, Bool.false_eq_true]
    rw [e, e2]
    obtain ⟨l1, l2, l3, l4⟩ := setTopologyRows_spec nnc frame s.rows.size h s.rows.impl (Nat.le_refl _) hO
    generalize setTopologyRows nnc s.rows.size h s.rows.impl = L at l1 l2 l3 l4
    refine ⟨l1, l2, ?_, l4⟩
    show LinSysV.mk (rowValues L.1 L.2) _ _ _ _ = LinSysV.mk ((rowValues h s.rows.impl).map (setTopologyV nnc)) _ _ _ _
    congr 1
    apply List.ext_getElem?
    intro j
    simp only [rowValues, List.getElem?_map]
    rw [l3 j]
    cases hj : s.rows.impl[j]? with
    | none => rfl
    | some r =>
      have : j < s.rows.size := (List.getElem?_eq_some_iff.mp hj).1
      simp [this]

theorem setSpaceDimNoOk_spec (h : Heap) (s : LinSys) (sd : Nat) (frame : List Nat) (hO : Owns h (s.owned ++ frame)) :
    Owns (s.setSpaceDimNoOk h sd).1 (s.owned ++ frame) ∧ (s.setSpaceDimNoOk h sd).2.owned = s.owned
    ∧ (s.setSpaceDimNoOk h sd).2.value (s.setSpaceDimNoOk h sd).1 = setSpaceDimSysV sd (s.value h)
    ∧ FrameEq h (s.setSpaceDimNoOk h sd).1 frame := by
  obtain ⟨l1, l3, l4⟩ := setSpaceDimRows_spec sd frame s.rows.impl s.rows.size h (Nat.le_refl _) hO
  refine ⟨l1, rfl, ?_, l4⟩
  show LinSysV.mk (rowValues (setSpaceDimRows sd s.rows.size h s.rows.impl) s.rows.impl) _ _ _ _
    = LinSysV.mk ((rowValues h s.rows.impl).map (setSpaceDimV sd)) _ _ _ _
  congr 1
  simp only [rowValues, List.map_map]
  apply List.map_congr_left
  intro r hr
  obtain ⟨j, hj, hjr⟩ := List.getElem_of_mem hr
  have := l3 j r (by rw [List.getElem?_eq_getElem hj, hjr])
  rw [this]
  simp [SVec.size, hj]

end CopyKit
open CopyKit

theorem adjust_refines (h : Heap) (s : LinSys) (nnc : Bool) (sd : Nat) (frame : List Nat)
    (hO : Owns h (s.owned ++ frame)) :
    let out := adjustTopologyAndSpaceDimension h s nnc sd
    Owns out.1 (out.2.owned ++ frame) ∧ out.2.owned = s.owned
    ∧ out.2.value out.1 = adjustV nnc sd (s.value h) ∧ FrameEq h out.1 frame := by
  intro out
  have eo : out = (s.setTopology h nnc).2.setSpaceDimNoOk (s.setTopology h nnc).1 sd := rfl
  rw [eo]
  obtain ⟨t1, t2, t3, t4⟩ := setTopology_spec h s nnc frame hO
  generalize s.setTopology h nnc = T at t1 t2 t3 t4
  obtain ⟨d1, d2, d3, d4⟩ := setSpaceDimNoOk_spec T.1 T.2 sd frame (by rw [t2]; exact t1)
  refine ⟨by rw [d2]; exact d1, by rw [d2, t2], ?_, frameEq_trans t4 d4⟩
  rw [d3, t3]; rfl

end PPLV.Value.Move
