import PPLV.Value.MoveProofsBKitPoly

/-!
# C13 moving mechanics — the pool machine: invariant, frame rule, independence after assignment
-/
set_option linter.unusedSimpArgs false

namespace PPLV.Value.Move.PolyKit
open PPLV.Value.Move

/-! ## list lemmas -/

theorem flatMap_perm_eraseIdx {α : Type} (f : α → List Nat) :
    ∀ (l : List α) (i : Nat) (x : α), l[i]? = some x →
      (l.flatMap f).Perm (f x ++ (l.eraseIdx i).flatMap f)
  | [], i, x, hx => by simp at hx
  | _ :: l, 0, x, hx => by
    simp at hx; subst hx; simp
  | a :: l, i + 1, x, hx => by
    have hx' : l[i]? = some x := by simpa using hx
    have ih := flatMap_perm_eraseIdx f l i x hx'
    simp only [List.flatMap_cons, List.eraseIdx_cons_succ]
    exact (List.Perm.append_left (f a) ih).trans (perm_rot _ _ _)

theorem flatMap_set_perm {α : Type} (f : α → List Nat) (l : List α) (i : Nat) (x x' : α)
    (hx : l[i]? = some x) : ((l.set i x').flatMap f).Perm (f x' ++ (l.eraseIdx i).flatMap f) := by
  have hlt : i < l.length := by
    rcases Nat.lt_or_ge i l.length with h | h
    · exact h
    · rw [List.getElem?_eq_none_iff.mpr h] at hx; cases hx
  have := flatMap_perm_eraseIdx f (l.set i x') i x' (List.getElem?_set_self hlt)
  rwa [List.eraseIdx_set_eq] at this

theorem flatMap_perm_of_mem {α : Type} (f : α → List Nat) (m : List α) (z : α) (hz : z ∈ m) :
    ∃ rest, (m.flatMap f).Perm (f z ++ rest) := by
  obtain ⟨s, t, rfl⟩ := List.append_of_mem hz
  refine ⟨s.flatMap f ++ t.flatMap f, ?_⟩
  simp only [List.flatMap_append, List.flatMap_cons]
  exact perm_rot _ _ _

theorem mem_flatMap_of_mem {α : Type} (f : α → List Nat) (m : List α) (z : α) (hz : z ∈ m) :
    ∀ a ∈ f z, a ∈ m.flatMap f := fun _ ha => List.mem_flatMap.mpr ⟨z, hz, ha⟩

/-! ## one step of the pool machine -/

/-- what one step guarantees: the invariant, the pool size, and the frame rule outside `dst` -/
def StepOK (w w' : World) (dst : List Nat) : Prop :=
  w'.Inv ∧ w'.objs.length = w.objs.length
  ∧ ∀ k z, k ∉ dst → w.objs[k]? = some z → w'.objs[k]? = some z ∧ FrameEq w.heap w'.heap z.owned

theorem StepOK.refl {w : World} (hI : w.Inv) (dst : List Nat) : StepOK w w dst :=
  ⟨hI, rfl, fun _ _ _ hz => ⟨hz, FrameEq.refl _ _⟩⟩

/-- the cells of the other pool members -/
def others (w : World) (i : Nat) : List Nat := (w.objs.eraseIdx i).flatMap Poly.owned

theorem inv_split {w : World} (hI : w.Inv) {i : Nat} {x : Poly} (hx : w.objs[i]? = some x) :
    Owns w.heap (x.owned ++ others w i) :=
  Owns.perm (flatMap_perm_eraseIdx Poly.owned w.objs i x hx) hI

theorem other_mem {w : World} {i k : Nat} {z : Poly} (hk : k ≠ i) (hz : w.objs[k]? = some z) :
    z ∈ w.objs.eraseIdx i := List.mem_eraseIdx_iff_getElem?.mpr ⟨k, hk, hz⟩

/-- the receiver `i` is replaced, the heap changes outside the other members' cells -/
theorem recv_ok {w : World} {i : Nat} {x : Poly} (x' : Poly) (h' : Heap) (dst : List Nat) (hi : i ∈ dst)
    (hx : w.objs[i]? = some x)
    (H : Owns h' (x'.owned ++ others w i) ∧ FrameEq w.heap h' (others w i)) :
    StepOK w ⟨h', w.objs.set i x'⟩ dst := by
  refine ⟨?_, by simp, ?_⟩
  · exact Owns.perm (flatMap_set_perm Poly.owned w.objs i x x' hx).symm H.1
  · intro k z hk hz
    have hki : k ≠ i := fun e => hk (e ▸ hi)
    refine ⟨?_, ?_⟩
    · show (w.objs.set i x')[k]? = some z
      rw [List.getElem?_set_ne (Ne.symm hki)]; exact hz
    · exact FrameEq.mono H.2 (mem_flatMap_of_mem Poly.owned _ z (other_mem hki hz))

theorem argOf_in {w : World} {i j : Nat} {ya : Arg Poly} (ha : argOf i j w.objs = some ya) :
    PArgIn (others w i) ya := by
  unfold argOf at ha
  split at ha
  · cases ha; trivial
  · rename_i hij
    cases hq : w.objs[j]? with
    | none => simp [hq] at ha
    | some q =>
      simp [hq] at ha; subst ha
      exact flatMap_perm_of_mem Poly.owned _ q (other_mem (Ne.symm hij) hq)

theorem argOf_get {w : World} {i j : Nat} {x y : Poly} {ya : Arg Poly} (hx : w.objs[i]? = some x)
    (hy : w.objs[j]? = some y) (ha : argOf i j w.objs = some ya) : ya.get x = y := by
  unfold argOf at ha
  split at ha
  · rename_i hij; subst hij; cases ha
    rw [hx] at hy; cases hy; rfl
  · simp [hy] at ha; subst ha; rfl

theorem step_ok (w : World) (op : WOp) (hI : w.Inv) : StepOK w (w.step op) op.dst := by
  cases op with
  | assign i j =>
    cases hx : w.objs[i]? with
    | none => simp only [World.step, hx]; exact StepOK.refl hI _
    | some x =>
      cases ha : argOf i j w.objs with
      | none => simp only [World.step, hx, ha]; exact StepOK.refl hI _
      | some ya =>
        simp only [World.step, hx, ha]
        exact recv_ok _ _ _ (by simp [WOp.dst]) hx
          (Poly.assign_owns' w.heap x ya _ (argOf_in ha) (inv_split hI hx))
  | intersect i j =>
    cases hx : w.objs[i]? with
    | none => simp only [World.step, hx]; exact StepOK.refl hI _
    | some x =>
      cases ha : argOf i j w.objs with
      | none => simp only [World.step, hx, ha]; exact StepOK.refl hI _
      | some ya =>
        simp only [World.step, hx, ha]
        exact recv_ok _ _ _ (by simp [WOp.dst]) hx
          (Poly.intersectionAssign_owns' w.heap x ya _ (argOf_in ha) (inv_split hI hx))
  | hull i j =>
    cases hx : w.objs[i]? with
    | none => simp only [World.step, hx]; exact StepOK.refl hI _
    | some x =>
      cases ha : argOf i j w.objs with
      | none => simp only [World.step, hx, ha]; exact StepOK.refl hI _
      | some ya =>
        simp only [World.step, hx, ha]
        exact recv_ok _ _ _ (by simp [WOp.dst]) hx
          (Poly.polyHullAssign_owns' w.heap x ya _ (argOf_in ha) (inv_split hI hx))
  | addConstraintsOf i j =>
    cases hx : w.objs[i]? with
    | none => simp only [World.step, hx]; exact StepOK.refl hI _
    | some x =>
      cases hy : w.objs[j]? with
      | none => simp only [World.step, hx, hy]; exact StepOK.refl hI _
      | some y =>
        simp only [World.step, hx, hy]
        refine recv_ok _ _ _ (by simp [WOp.dst]) hx
          (Poly.addConstraints_owns w.heap x y.conSys _ ?_ (inv_split hI hx))
        obtain ⟨rest, hp⟩ := flatMap_perm_of_mem Poly.owned w.objs y (List.mem_of_getElem? hy)
        refine ⟨y.genSys.owned ++ rest, ?_⟩
        refine ((flatMap_perm_eraseIdx Poly.owned w.objs i x hx).symm.trans hp).trans ?_
        simp only [Poly.owned, List.append_assoc]
        exact List.Perm.refl _
  | setScalars i st sc sg =>
    cases hx : w.objs[i]? with
    | none => simp only [World.step, hx]; exact StepOK.refl hI _
    | some x =>
      simp only [World.step, hx]
      have hO : Owns w.heap (x.owned ++ others w i) := inv_split hI hx
      exact recv_ok { x with status := st, satC := sc, satG := sg } w.heap _ (by simp [WOp.dst]) hx
        ⟨hO, FrameEq.refl _ _⟩
  | writeRow i gen k f =>
    cases hx : w.objs[i]? with
    | none => simp only [World.step, hx]; exact StepOK.refl hI _
    | some x =>
      cases hr : (if gen then x.genSys else x.conSys).rows.impl[k]? with
      | none => simp only [World.step, hx, hr]; exact StepOK.refl hI _
      | some r =>
        simp only [World.step, hx, hr]
        obtain ⟨a, b⟩ := Poly.writeRow_owns w.heap x gen k r f _ hr (inv_split hI hx)
        refine ⟨Owns.perm (flatMap_perm_eraseIdx Poly.owned w.objs i x hx).symm a, rfl, ?_⟩
        intro k' z hk hz
        have hki : k' ≠ i := fun e => hk (by simp [WOp.dst, e])
        exact ⟨hz, FrameEq.mono b (mem_flatMap_of_mem Poly.owned _ z (other_mem hki hz))⟩
  | swap i j =>
    cases hx : w.objs[i]? with
    | none => simp only [World.step, hx]; exact StepOK.refl hI _
    | some x =>
      cases hy : w.objs[j]? with
      | none => simp only [World.step, hx, hy]; exact StepOK.refl hI _
      | some y =>
        simp only [World.step, hx, hy]
        split
        · exact StepOK.refl hI _
        · rename_i hij
          have hy1 : (w.objs.set i (Poly.mSwap x y).1)[j]? = some y := by
            rw [List.getElem?_set_ne hij]; exact hy
          refine ⟨?_, by simp, ?_⟩
          · refine Owns.perm ?_ hI
            have p1 := flatMap_perm_eraseIdx Poly.owned w.objs i x hx
            have p2 := flatMap_set_perm Poly.owned w.objs i x (Poly.mSwap x y).1 hx
            have p3 := flatMap_perm_eraseIdx Poly.owned _ j y hy1
            have p4 := flatMap_set_perm Poly.owned _ j y (Poly.mSwap x y).2 hy1
            have p5 := Poly.mSwap_owned x y
            show (w.objs.flatMap Poly.owned).Perm
              (((w.objs.set i (Poly.mSwap x y).1).set j (Poly.mSwap x y).2).flatMap Poly.owned)
            rw [List.perm_iff_count] at p1 p2 p3 p4 p5 ⊢
            intro a
            have q1 := p1 a; have q2 := p2 a; have q3 := p3 a; have q4 := p4 a; have q5 := p5 a
            simp only [List.count_append] at q1 q2 q3 q4 q5
            omega
          · intro k z hk hz
            have hki : k ≠ i := fun e => hk (by simp [WOp.dst, e])
            have hkj : k ≠ j := fun e => hk (by simp [WOp.dst, e])
            refine ⟨?_, FrameEq.refl _ _⟩
            show ((w.objs.set i (Poly.mSwap x y).1).set j (Poly.mSwap x y).2)[k]? = some z
            rw [List.getElem?_set_ne (Ne.symm hkj), List.getElem?_set_ne (Ne.symm hki)]; exact hz

theorem run_ok (ops : List WOp) : ∀ (w : World), w.Inv → (w.run ops).Inv := by
  induction ops with
  | nil => intro w hI; exact hI
  | cons op ops ih =>
    intro w hI
    show (World.run (w.step op) ops).Inv
    exact ih _ (step_ok w op hI).1

theorem run_append (w : World) (a b : List WOp) : w.run (a ++ b) = (w.run a).run b := by
  simp [World.run, List.foldl_append]

theorem step_value (w : World) (op : WOp) (hI : w.Inv) (k : Nat) (hk : k ∉ op.dst) :
    (w.step op).value k = w.value k := by
  obtain ⟨_, hl, hf⟩ := step_ok w op hI
  unfold World.value
  cases hz : w.objs[k]? with
  | none =>
    have : (w.step op).objs[k]? = none := by
      rw [List.getElem?_eq_none_iff] at hz ⊢; omega
    rw [this]; rfl
  | some z =>
    obtain ⟨e, fr⟩ := hf k z hk hz
    rw [e]
    simp only [Option.map_some]
    rw [Poly.value_congr _ _ z fr]

theorem run_value (ops : List WOp) (k : Nat) (hk : ∀ op ∈ ops, k ∉ op.dst) :
    ∀ (w : World), w.Inv → (w.run ops).value k = w.value k := by
  induction ops with
  | nil => intro w _; rfl
  | cons op ops ih =>
    intro w hI
    show (World.run (w.step op) ops).value k = w.value k
    rw [ih (fun o ho => hk o (List.mem_cons_of_mem _ ho)) _ (step_ok w op hI).1]
    exact step_value w op hI k (hk op List.mem_cons_self)

end PPLV.Value.Move.PolyKit

namespace C13Proofs
open PPLV.Value PPLV.Value.Move

theorem world_inv_run (w : World) (ops : List WOp) (hI : w.Inv) : (w.run ops).Inv :=
  PolyKit.run_ok ops w hI

/-- frame rule of the pool machine: an operation changes no member outside its destinations -/
theorem world_frame (w : World) (op : WOp) (hI : w.Inv) (k : Nat) (hk : k ∉ op.dst) :
    (w.step op).value k = w.value k :=
  PolyKit.step_value w op hI k hk

theorem assign_then_independent (w : World) (pre post : List WOp) (i j : Nat) (hI : w.Inv) (hij : i ≠ j)
    (hpost : ∀ op ∈ post, j ∉ op.dst) :
    (w.run (pre ++ [.assign i j] ++ post)).value j = (w.run (pre ++ [.assign i j])).value j
    ∧ (w.run (pre ++ [.assign i j])).value j = (w.run pre).value j := by
  refine ⟨?_, ?_⟩
  · rw [PolyKit.run_append w (pre ++ [WOp.assign i j]) post]
    exact PolyKit.run_value post j hpost _ (PolyKit.run_ok _ w hI)
  · rw [PolyKit.run_append w pre [WOp.assign i j]]
    show ((w.run pre).step (.assign i j)).value j = (w.run pre).value j
    exact PolyKit.step_value _ _ (PolyKit.run_ok _ w hI) j (by simp [WOp.dst]; exact fun e => hij e.symm)

theorem assign_value (w : World) (i j : Nat) (hI : w.Inv) (x y : Poly)
    (hx : w.objs[i]? = some x) (hy : w.objs[j]? = some y) (hne : y.markedEmpty = false) (hd : y.spaceDim ≠ 0)
    (hc : testAny y.status C_UP = true) (hg : testAny y.status G_UP = true)
    (hsc : testAny y.status SAT_C_UP = true) (hsg : testAny y.status SAT_G_UP = true) :
    (w.step (.assign i j)).value i = w.value j := by
  have hlt : i < w.objs.length := by
    rcases Nat.lt_or_ge i w.objs.length with h | h
    · exact h
    · rw [List.getElem?_eq_none_iff.mpr h] at hx; cases hx
  obtain ⟨ya, ha⟩ : ∃ ya, argOf i j w.objs = some ya := by
    unfold argOf; split
    · exact ⟨_, rfl⟩
    · exact ⟨.other y, by simp [hy]⟩
  have hget : ya.get x = y := PolyKit.argOf_get hx hy ha
  have hv := PolyKit.Poly.assign_value' w.heap x ya _ (PolyKit.argOf_in ha) (PolyKit.inv_split hI hx)
    (by rw [hget]; exact hne) (by rw [hget]; exact hd) (by rw [hget]; exact hc) (by rw [hget]; exact hg)
    (by rw [hget]; exact hsc) (by rw [hget]; exact hsg)
  rw [hget] at hv
  simp only [World.step, hx, ha, World.value, hy, Option.map_some]
  show ((w.objs.set i (x.assign w.heap ya).2)[i]?).map (Poly.value (x.assign w.heap ya).1) = _
  rw [List.getElem?_set_self hlt]
  simp only [Option.map_some]
  rw [hv]

end C13Proofs
