import PPLV.Value.MoveSpec

/-!
# C13 stage 2 — representation change and the generic `std::swap`

`Move.lean` models rows and systems of ONE representation (then `r.set_representation(representation())`
in `insert_pending_no_ok`, `Linear_System_templates.hh:268`, does nothing).  The systems inside a
`Polyhedron` are DENSE (`Polyhedron_defs.hh:2026`) while every system a user builds is SPARSE by default
(`Constraint_System_defs.hh:141`, `Generator_System_defs.hh:192`): for such an argument the recycling
entry points do NOT reuse the argument's storage — every row is converted, i.e. gets a freshly
allocated `Linear_Expression_Impl` and the old one is deleted.  The values are the same; only the
ownership pattern differs (observed and replayed by `pplv_c13 --move`).

`std::swap(x, y)` and an unqualified `swap(x, y)` on `C_Polyhedron` / `NNC_Polyhedron` objects do not
reach `Polyhedron::m_swap`: there is no `swap` overload for the derived classes, so overload resolution
picks the generic `std::swap` (copy construction and two assignments).
-/
namespace PPLV.Value.Move

/-- `Linear_Expression::set_representation(r)` when the representation differs
    (`Linear_Expression.cc:168`): `Linear_Expression tmp(*this, r); swap(*this, tmp);` then `~tmp` —
    the row object gets NEW storage with the same coefficients, the old storage is deleted. -/
def Row.setRepresentation (h : Heap) (r : Row) : Heap × Row :=
  let (h₁, c) := Row.copy h r
  (Row.destroy h₁ r, c)

def convertRows : Heap → List Row → Heap × List Row
  | h, [] => (h, [])
  | h, r :: rs =>
    let (h₁, r') := Row.setRepresentation h r
    let (h₂, rs') := convertRows h₁ rs
    (h₂, r' :: rs')

/-- the argument system after each of its rows went through `set_representation` -/
def LinSys.converted (h : Heap) (y : LinSys) : Heap × LinSys :=
  let (h₁, rows) := convertRows h y.rows.impl
  (h₁, { y with rows := ⟨rows, y.rows.cap⟩ })

/-- generic `std::swap<C_Polyhedron>` (`bits/move.h`): `T tmp(std::move(a)); a = std::move(b); b = std::move(tmp);`
    — `C_Polyhedron` has no move operations, so these are the copy constructor and `operator=`. -/
def Poly.stdSwap (h : Heap) (x : Poly) (y : Arg Poly) : Heap × Poly × Option Poly :=
  let (h₁, tmp) := Poly.copy h x
  match y with
  | .self =>
    let (h₂, x₁) := x.assign h₁ .self
    let (h₃, x₂) := x₁.assign h₂ (.other tmp)
    (tmp.destroy h₃, x₂, none)
  | .other q =>
    let (h₂, x₁) := x.assign h₁ (.other q)
    let (h₃, q₁) := q.assign h₂ (.other tmp)
    (tmp.destroy h₃, x₁, some q₁)

end PPLV.Value.Move
