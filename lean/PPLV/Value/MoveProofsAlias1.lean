import PPLV.Value.MoveProofsMerge
import PPLV.Value.MoveProofsRecycle

/-! C13 aliasing at the data level, part 1: insert, add_own_constraints, cmp self -/
namespace PPLV.Value.Move.AliasKit
open PPLV.Value PPLV.Value.Move

theorem cmpHomog_self (x : List Int) : cmpHomog x x = 0 := by
  induction x with
  | nil => simp [cmpHomog]
  | cons a as ih => simp [cmpHomog, ih]

theorem cmpExpr_self (x : List Int) : cmpExpr x x = 0 := by
  simp [cmpExpr, cmpHomog_self]

theorem cmpConstraint_self' : ∀ v, cmpConstraint v v = 0 := by
  intro v; simp [cmpConstraint, cmpExpr_self]

theorem cmpGenerator_self' : ∀ v, cmpGenerator v v = 0 := by
  intro v
  simp only [cmpGenerator, cmpExpr_self]
  simp
  intros
  split <;> simp

end PPLV.Value.Move.AliasKit

namespace C13Proofs
open PPLV.Value PPLV.Value.Move

theorem alias_invariance_insert (K : RowClass) (h : Heap) (x : LinSys) (frame : List Nat)
    (hO : Owns h (x.owned ++ frame)) :
    let a := x.insertConst K h .self
    let c := LinSys.copyWithPending h x
    let b := x.insertConst K c.1 (.other c.2)
    a.2.value a.1 = b.2.value b.1 := by
  intro a c b
  obtain ⟨_, ha, _⟩ := LinSys.insertConst_self_refines K h x frame hO
  obtain ⟨hcO, hcv, hcf⟩ := LinSys.copyWithPending_refines h x frame hO
  have hO2 : Owns c.1 (x.owned ++ c.2.owned ++ frame) := PolyKit.owns_swap12 hcO
  obtain ⟨_, hb, _⟩ := LinSys.insertConst_other_refines K c.1 x c.2 frame hO2
  have hxv : x.value c.1 = x.value h :=
    PolyKit.LinSys.value_frame x hcf (fun a ha => List.mem_append_left _ ha)
  show a.2.value a.1 = b.2.value b.1
  rw [show a.2.value a.1 = _ from ha, show b.2.value b.1 = _ from hb, hxv,
    show c.2.value c.1 = _ from hcv]

end C13Proofs
