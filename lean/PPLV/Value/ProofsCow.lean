import PPLV.Value.Proofs

/-! # C13 — the `Determinate` machine: reference counts are exact, for every history -/
namespace PPLV.Value.Cow
variable {P : Type}

/-- The representation invariant of the handle/heap machine. -/
structure Inv (σ : State P) : Prop where
  nofault : σ.fault = false
  fresh : ∀ a, σ.next ≤ a → σ.heap a = none
  live : ∀ a r, σ.heap a = some r → r.refs = holders σ a ∧ 0 < r.refs
  dead : ∀ a, σ.heap a = none → holders σ a = 0

theorem prep_eq_some {σ : State P} {h a : Nat} : σ.prep h = some a ↔ σ.handles[h]? = some (some a) := by
  simp [State.prep, Option.join_eq_some_iff]

theorem prep_eq_none {σ : State P} {h : Nat} (hh : h < σ.handles.length) :
    σ.prep h = none ↔ σ.handles[h]? = some none := by
  simp only [State.prep, List.getElem?_eq_getElem hh, Option.join_some, Option.some.injEq]

theorem lt_of_prep {σ : State P} {h a : Nat} (hp : σ.prep h = some a) : h < σ.handles.length := by
  rw [prep_eq_some] at hp
  exact (List.getElem?_eq_some_iff.mp hp).1

theorem holders_pos_of_prep {σ : State P} {h a : Nat} (hp : σ.prep h = some a) : 0 < holders σ a := by
  rw [prep_eq_some] at hp
  exact List.count_pos_iff.mpr (List.mem_of_getElem? hp)

/-- a live handle points to a live `Rep` whose counter is the number of its holders -/
theorem Inv.cell {σ : State P} (I : Inv σ) {h a : Nat} (hp : σ.prep h = some a) :
    ∃ r, σ.heap a = some r ∧ r.refs = holders σ a ∧ 0 < r.refs := by
  cases hc : σ.heap a with
  | none => have := I.dead a hc; have := holders_pos_of_prep hp; omega
  | some r => exact ⟨r, rfl, I.live a r hc⟩

theorem holders_setPrep (σ : State P) (h : Nat) (o v : Option Nat) (hh : σ.handles[h]? = some o) (a : Nat) :
    holders (σ.setPrep h v) a + (if o = some a then 1 else 0)
      = holders σ a + (if v = some a then 1 else 0) := by
  obtain ⟨hl, he⟩ := List.getElem?_eq_some_iff.mp hh
  have := count_set_add σ.handles h v (some a) hl
  simp only [he, beq_iff_eq] at this
  simpa [holders, State.setPrep] using this

@[simp] theorem setCell_heap (σ : State P) (a : Nat) (c : Option (Rep P)) (x : Nat) :
    (σ.setCell a c).heap x = if x = a then c else σ.heap x := rfl
@[simp] theorem setCell_handles (σ : State P) (a : Nat) (c : Option (Rep P)) :
    (σ.setCell a c).handles = σ.handles := rfl
@[simp] theorem setCell_next (σ : State P) (a : Nat) (c : Option (Rep P)) : (σ.setCell a c).next = σ.next := rfl
@[simp] theorem setCell_fault (σ : State P) (a : Nat) (c : Option (Rep P)) : (σ.setCell a c).fault = σ.fault := rfl
@[simp] theorem setPrep_heap (σ : State P) (h : Nat) (v : Option Nat) : (σ.setPrep h v).heap = σ.heap := rfl
@[simp] theorem setPrep_next (σ : State P) (h : Nat) (v : Option Nat) : (σ.setPrep h v).next = σ.next := rfl
@[simp] theorem setPrep_fault (σ : State P) (h : Nat) (v : Option Nat) : (σ.setPrep h v).fault = σ.fault := rfl
@[simp] theorem setPrep_handles (σ : State P) (h : Nat) (v : Option Nat) :
    (σ.setPrep h v).handles = σ.handles.set h v := rfl
@[simp] theorem holders_setCell (σ : State P) (a : Nat) (c : Option (Rep P)) (x : Nat) :
    holders (σ.setCell a c) x = holders σ x := rfl

theorem State.ext' {σ τ : State P} (h1 : σ.heap = τ.heap) (h2 : σ.next = τ.next)
    (h3 : σ.handles = τ.handles) (h4 : σ.fault = τ.fault) : σ = τ := by
  cases σ; cases τ; simp_all

/-- `new_reference` on a live cell -/
theorem newRef_eq {σ : State P} {a : Nat} {r : Rep P} (hr : σ.heap a = some r) :
    newRef σ a = σ.setCell a (some { r with refs := r.refs + 1 }) := by
  simp [newRef, hr]

/-- `if (prep->del_reference()) delete prep;` on a live cell with a positive counter -/
theorem release_eq {σ : State P} {a : Nat} {r : Rep P} (hr : σ.heap a = some r) (hpos : 0 < r.refs) :
    release σ a = if r.refs = 1 then σ.setCell a none
                  else σ.setCell a (some { r with refs := r.refs - 1 }) := by
  have h0 : r.refs ≠ 0 := by omega
  by_cases h1 : r.refs = 1
  · simp only [release, delRef, hr, h1, Nat.sub_self, beq_self_eq_true, if_true, free]
    apply State.ext' <;> simp [State.setCell]
    funext x; by_cases hx : x = a <;> simp [hx]
  · have h2 : ¬ (r.refs - 1 = 0) := by omega
    simp [release, delRef, hr, h0, h1, h2]


/-- address of a live cell is below `next` -/
theorem Inv.lt_next {σ : State P} (I : Inv σ) {a : Nat} {r : Rep P} (hr : σ.heap a = some r) : a < σ.next := by
  rcases Nat.lt_or_ge a σ.next with h | h
  · exact h
  · rw [I.fresh a h] at hr; cases hr

theorem Inv.holders_next {σ : State P} (I : Inv σ) : holders σ σ.next = 0 :=
  I.dead _ (I.fresh _ (Nat.le_refl _))

/-- `mutate()` on an unshared representation does nothing -/
theorem mutateAt_unshared {σ : State P} {h a : Nat} {r : Rep P} (hr : σ.heap a = some r) (h1 : ¬ 1 < r.refs) :
    mutateAt σ h a = σ := by
  simp [mutateAt, hr, h1]

/-- `mutate()` on a shared representation: clone, decrement the old counter, count the clone once -/
theorem mutateAt_shared {σ : State P} (I : Inv σ) {h a : Nat} {r : Rep P} (hr : σ.heap a = some r)
    (h1 : 1 < r.refs) :
    mutateAt σ h a =
      { heap := fun x => if x = σ.next then some ⟨1, r.pset⟩
                          else if x = a then some ⟨r.refs - 1, r.pset⟩ else σ.heap x,
        next := σ.next + 1, handles := σ.handles.set h (some σ.next), fault := σ.fault } := by
  have hlt := I.lt_next hr
  have hne : a ≠ σ.next := by omega
  have hne' : σ.next ≠ a := by omega
  have h0 : r.refs ≠ 0 := by omega
  simp only [mutateAt, hr, h1, if_true, alloc, delRef, hne, hne', if_false, h0, newRef, State.setCell,
    State.setPrep]
  apply State.ext' <;> simp
  funext x
  by_cases hx : x = σ.next
  · simp [hx]
  · by_cases hx' : x = a <;> simp [hx, hx']


theorem handles_get_of_prep {σ : State P} {h a : Nat} (hp : σ.prep h = some a) :
    σ.handles[h]? = some (some a) := prep_eq_some.mp hp

/-- `mutate()` preserves the invariant -/
theorem Inv.mutateAt {σ : State P} (I : Inv σ) {h a : Nat} (hp : σ.prep h = some a) :
    Inv (mutateAt σ h a) := by
  obtain ⟨r, hr, hrc, hpos⟩ := I.cell hp
  by_cases h1 : 1 < r.refs
  · rw [mutateAt_shared I hr h1]
    have hlt := I.lt_next hr
    have hH : ∀ x, holders (σ.setPrep h (some σ.next)) x + (if some a = some x then 1 else 0)
        = holders σ x + (if some σ.next = some x then 1 else 0) :=
      fun x => holders_setPrep σ h (some a) (some σ.next) (handles_get_of_prep hp) x
    have hn0 := I.holders_next
    refine ⟨I.nofault, ?_, ?_, ?_⟩
    · intro x hx
      have h1' : x ≠ σ.next := by simp only at hx; omega
      have h2' : x ≠ a := by simp only at hx; omega
      simp only [h1', h2', if_false]
      exact I.fresh x (by simp only at hx; omega)
    · intro x rx hx
      have hHx := hH x
      simp only [holders, setPrep_handles] at hHx ⊢
      simp only [holders] at hn0 hrc
      by_cases e1 : x = σ.next
      · subst e1
        have : a ≠ σ.next := by omega
        simp only [if_true, Option.some.injEq] at hx
        subst hx
        simp only [Option.some.injEq, this, if_false, if_true] at hHx
        simp only; omega
      · by_cases e2 : x = a
        · subst e2
          simp only [e1, if_false, if_true, Option.some.injEq] at hx
          subst hx
          have : ¬ σ.next = x := fun e => e1 e.symm
          simp only [Option.some.injEq, if_true, this, if_false] at hHx
          simp only; omega
        · simp only [e1, e2, if_false] at hx
          have := I.live x rx hx
          have n1 : ¬ a = x := fun e => e2 e.symm
          have n2 : ¬ σ.next = x := fun e => e1 e.symm
          simp only [Option.some.injEq, n1, n2, if_false] at hHx
          simp only [holders] at this
          omega
    · intro x hx
      have hHx := hH x
      simp only [holders, setPrep_handles] at hHx ⊢
      by_cases e1 : x = σ.next
      · simp [e1] at hx
      · by_cases e2 : x = a
        · subst e2; simp [e1] at hx
        · simp only [e1, e2, if_false] at hx
          have := I.dead x hx
          have n1 : ¬ a = x := fun e => e2 e.symm
          have n2 : ¬ σ.next = x := fun e => e1 e.symm
          simp only [Option.some.injEq, n1, n2, if_false] at hHx
          simp only [holders] at this
          omega
  · rw [mutateAt_unshared hr h1]; exact I


theorem set_self_of_get {α : Type} (l : List α) (i : Nat) (v : α) (h : l[i]? = some v) : l.set i v = l := by
  obtain ⟨hl, he⟩ := List.getElem?_eq_some_iff.mp h
  apply List.ext_getElem? ; intro j
  by_cases hj : i = j
  · subst hj; simp [hl, he]
  · simp [hj]

/-- assignment between two handles that already share their representation (in particular
    self-assignment) leaves the whole machine state unchanged -/
theorem step_assign_same {σ : State P} (I : Inv σ) {h y a : Nat} (hh : σ.prep h = some a)
    (hy : σ.prep y = some a) : step σ (.assign h y) = σ := by
  obtain ⟨r, hr, hrc, hpos⟩ := I.cell hh
  have hne : r.refs + 1 ≠ 1 := by omega
  simp only [step, hh, hy, newRef_eq hr]
  rw [release_eq (r := { r with refs := r.refs + 1 }) (by simp) (by simp)]
  simp only [hne, if_false, Nat.add_sub_cancel]
  apply State.ext' <;> simp
  · funext x; by_cases hx : x = a <;> simp [hx, hr]
  · exact set_self_of_get _ _ _ (handles_get_of_prep hh)

/-- assignment between handles with different representations -/
theorem step_assign_diff {σ : State P} (I : Inv σ) {h y ah ay : Nat} (hh : σ.prep h = some ah)
    (hy : σ.prep y = some ay) (hne : ah ≠ ay) {rh ry : Rep P} (hrh : σ.heap ah = some rh)
    (hry : σ.heap ay = some ry) :
    step σ (.assign h y) =
      { heap := fun x => if x = ah then (if rh.refs = 1 then none else some ⟨rh.refs - 1, rh.pset⟩)
                          else if x = ay then some ⟨ry.refs + 1, ry.pset⟩ else σ.heap x,
        next := σ.next, handles := σ.handles.set h (some ay), fault := σ.fault } := by
  have hpos := (I.live ah rh hrh).2
  simp only [step, hh, hy, newRef_eq hry]
  rw [release_eq (r := rh) (by simp [hne, hrh]) hpos]
  by_cases h1 : rh.refs = 1
  · simp only [h1, if_true]
    apply State.ext' <;> simp
    funext x; by_cases hx : x = ah <;> simp [hx]
  · simp only [h1, if_false]
    apply State.ext' <;> simp
    funext x; by_cases hx : x = ah <;> simp [hx]


theorem Inv.mk' {τ : State P} (hf : τ.fault = false) (hfresh : ∀ a, τ.next ≤ a → τ.heap a = none)
    (hc : ∀ a, (∀ r, τ.heap a = some r → r.refs = holders τ a ∧ 0 < r.refs)
              ∧ (τ.heap a = none → holders τ a = 0)) : Inv τ :=
  ⟨hf, hfresh, fun a r h => (hc a).1 r h, fun a h => (hc a).2 h⟩

theorem Inv.step_assign {σ : State P} (I : Inv σ) (h y : Nat) : Inv (step σ (.assign h y)) := by
  cases hh : σ.prep h with
  | none => simp only [step, hh]; exact I
  | some ah =>
    cases hy : σ.prep y with
    | none => simp only [step, hh, hy]; exact I
    | some ay =>
      by_cases hne : ah = ay
      · subst hne; rw [step_assign_same I hh hy]; exact I
      · obtain ⟨rh, hrh, hrhc, hrhp⟩ := I.cell hh
        obtain ⟨ry, hry, hryc, hryp⟩ := I.cell hy
        rw [step_assign_diff I hh hy hne hrh hry]
        have hH : ∀ x, holders (σ.setPrep h (some ay)) x + (if some ah = some x then 1 else 0)
            = holders σ x + (if some ay = some x then 1 else 0) :=
          fun x => holders_setPrep σ h (some ah) (some ay) (handles_get_of_prep hh) x
        refine Inv.mk' (show _ = false from I.nofault) ?_ ?_
        · intro x hx
          have := I.fresh x hx
          have := I.lt_next hrh
          have := I.lt_next hry
          simp only at hx
          have n1 : x ≠ ah := by omega
          have n2 : x ≠ ay := by omega
          simp [n1, n2, I.fresh x hx]
        · intro x
          have hHx := hH x
          have hl := I.live x
          have hd := I.dead x
          simp only [holders, setPrep_handles, Option.some.injEq] at hHx hl hd hrhc hryc ⊢
          by_cases e1 : x = ah
          · subst e1
            have n : ¬ ay = x := fun e => hne e.symm
            simp only [if_true, n, if_false] at hHx ⊢
            constructor
            · intro r hr
              by_cases h1 : rh.refs = 1
              · simp [h1] at hr
              · simp only [h1, if_false, Option.some.injEq] at hr
                subst hr; simp only; omega
            · intro hn
              by_cases h1 : rh.refs = 1
              · omega
              · simp [h1] at hn
          · by_cases e2 : x = ay
            · subst e2
              have n : ¬ ah = x := hne
              simp only [e1, if_false, if_true, n] at hHx ⊢
              constructor
              · intro r hr
                simp only [Option.some.injEq] at hr
                subst hr; simp only; omega
              · intro hn; simp at hn
            · have n1 : ¬ ah = x := fun e => e1 e.symm
              have n2 : ¬ ay = x := fun e => e2 e.symm
              simp only [e1, e2, n1, n2, if_false] at hHx ⊢
              constructor
              · intro r hr; have := hl r hr; omega
              · intro hn; have := hd hn; omega


theorem Inv.writePset {σ : State P} (I : Inv σ) (a : Nat) (f : P → P) (hl : σ.heap a ≠ none) :
    Inv (writePset σ a f) := by
  cases hr : σ.heap a with
  | none => exact absurd hr hl
  | some r =>
    simp only [Cow.writePset, hr]
    refine Inv.mk' (show _ = false from I.nofault) ?_ ?_
    · intro x hx
      have : x ≠ a := by have := I.lt_next hr; simp only [setCell_next] at hx; omega
      simp [this, I.fresh x hx]
    · intro x
      by_cases e : x = a
      · subst e
        have := I.live x r hr
        simp only [setCell_heap, if_true, holders_setCell]
        refine ⟨?_, fun hn => by cases hn⟩
        intro r' hr'; simp only [Option.some.injEq] at hr'; subst hr'; exact this
      · simp only [setCell_heap, e, if_false, holders_setCell]
        exact ⟨I.live x, I.dead x⟩

theorem Inv.step_construct {σ : State P} (I : Inv σ) (h : Nat) (p : P) : Inv (step σ (.construct h p)) := by
  by_cases hc : h < σ.handles.length ∧ σ.prep h = none
  · have hg : σ.handles[h]? = some none := (prep_eq_none hc.1).mp hc.2
    have hH : ∀ x, holders (σ.setPrep h (some σ.next)) x + (if none = some x then 1 else 0)
        = holders σ x + (if some σ.next = some x then 1 else 0) :=
      fun x => holders_setPrep σ h none (some σ.next) hg x
    have hn0 := I.holders_next
    simp only [step, hc, and_self, if_true, alloc, newRef, if_true, State.setCell, State.setPrep]
    refine Inv.mk' (show _ = false from I.nofault) ?_ ?_
    · intro x hx
      simp only at hx
      have : x ≠ σ.next := by omega
      simp [this, I.fresh x (by omega)]
    · intro x
      have hHx := hH x
      simp only [holders, setPrep_handles, Option.some.injEq] at hHx hn0 ⊢
      by_cases e : x = σ.next
      · subst e
        simp only [if_true] at hHx ⊢
        simp only [reduceCtorEq, if_false] at hHx
        constructor
        · intro r hr; simp only [Option.some.injEq] at hr; subst hr; simp only; omega
        · intro hn; simp at hn
      · have n : ¬ σ.next = x := fun e' => e e'.symm
        simp only [e, n, if_false, reduceCtorEq] at hHx ⊢
        have hl := I.live x; have hd := I.dead x
        simp only [holders] at hl hd
        constructor
        · intro r hr; have := hl r hr; omega
        · intro hn; have := hd hn; omega
  · simp only [step, hc, if_false]; exact I

theorem Inv.step_copyCtor {σ : State P} (I : Inv σ) (h y : Nat) : Inv (step σ (.copyCtor h y)) := by
  cases hy : σ.prep y with
  | none => simp only [step, hy]; exact I
  | some ay =>
    by_cases hc : h < σ.handles.length ∧ σ.prep h = none
    · obtain ⟨ry, hry, hryc, hryp⟩ := I.cell hy
      have hg : σ.handles[h]? = some none := (prep_eq_none hc.1).mp hc.2
      have hH : ∀ x, holders (σ.setPrep h (some ay)) x + (if none = some x then 1 else 0)
          = holders σ x + (if some ay = some x then 1 else 0) :=
        fun x => holders_setPrep σ h none (some ay) hg x
      simp only [step, hy, hc, and_self, if_true, newRef_eq hry]
      refine Inv.mk' (show _ = false from I.nofault) ?_ ?_
      · intro x hx
        have : x ≠ ay := by have := I.lt_next hry; simp only [setPrep_next, setCell_next] at hx; omega
        simp [this, I.fresh x hx]
      · intro x
        have hHx := hH x
        simp only [holders, setPrep_handles, Option.some.injEq, reduceCtorEq, if_false] at hHx hryc ⊢
        simp only [setPrep_heap, setCell_heap, setCell_handles]
        by_cases e : x = ay
        · subst e
          simp only [if_true] at hHx ⊢
          constructor
          · intro r hr; simp only [Option.some.injEq] at hr; subst hr; simp only; omega
          · intro hn; simp at hn
        · have n : ¬ ay = x := fun e' => e e'.symm
          simp only [e, n, if_false] at hHx ⊢
          have hl := I.live x; have hd := I.dead x
          simp only [holders] at hl hd
          constructor
          · intro r hr; have := hl r hr; omega
          · intro hn; have := hd hn; omega
    · simp only [step, hy, hc, if_false]; exact I

theorem Inv.step_destroy {σ : State P} (I : Inv σ) (h : Nat) : Inv (step σ (.destroy h)) := by
  cases hh : σ.prep h with
  | none => simp only [step, hh]; exact I
  | some a =>
    obtain ⟨r, hr, hrc, hrp⟩ := I.cell hh
    have hH : ∀ x, holders (σ.setPrep h none) x + (if some a = some x then 1 else 0)
        = holders σ x + (if none = some x then 1 else 0) :=
      fun x => holders_setPrep σ h (some a) none (handles_get_of_prep hh) x
    simp only [step, hh, release_eq hr hrp]
    refine Inv.mk' ?_ ?_ ?_
    · by_cases h1 : r.refs = 1 <;> simp [h1, I.nofault]
    · intro x hx
      have hx' : σ.next ≤ x := by by_cases h1 : r.refs = 1 <;> simpa [h1] using hx
      have : x ≠ a := by have := I.lt_next hr; omega
      by_cases h1 : r.refs = 1 <;> simp [h1, this, I.fresh x hx']
    · intro x
      have hHx := hH x
      simp only [holders, setPrep_handles, Option.some.injEq, reduceCtorEq, if_false] at hHx hrc
      have hl := I.live x; have hd := I.dead x
      simp only [holders] at hl hd
      by_cases h1 : r.refs = 1
      · simp only [h1, if_true, holders, setPrep_handles, setPrep_heap, setCell_heap, setCell_handles]
        by_cases e : x = a
        · subst e
          simp only [if_true] at hHx ⊢
          constructor
          · intro r' hr'; cases hr'
          · intro _; omega
        · have n : ¬ a = x := fun e' => e e'.symm
          simp only [e, n, if_false] at hHx ⊢
          constructor
          · intro r' hr'; have := hl r' hr'; omega
          · intro hn; have := hd hn; omega
      · simp only [h1, if_false, holders, setPrep_handles, setPrep_heap, setCell_heap, setCell_handles]
        by_cases e : x = a
        · subst e
          simp only [if_true] at hHx ⊢
          constructor
          · intro r' hr'; simp only [Option.some.injEq] at hr'; subst hr'; simp only; omega
          · intro hn; simp at hn
        · have n : ¬ a = x := fun e' => e e'.symm
          simp only [e, n, if_false] at hHx ⊢
          constructor
          · intro r' hr'; have := hl r' hr'; omega
          · intro hn; have := hd hn; omega

theorem holders_swap {σ : State P} {h y ah ay : Nat} (hh : σ.prep h = some ah) (hy : σ.prep y = some ay)
    (x : Nat) : holders ((σ.setPrep h (some ay)).setPrep y (some ah)) x = holders σ x := by
  have h1 := holders_setPrep σ h (some ah) (some ay) (handles_get_of_prep hh) x
  have hy' : (σ.setPrep h (some ay)).handles[y]? = some (some ay) := by
    simp only [setPrep_handles, List.getElem?_set]
    by_cases e : h = y
    · subst e; simp [lt_of_prep hh]
    · simp [e, handles_get_of_prep hy]
  have h2 := holders_setPrep (σ.setPrep h (some ay)) y (some ay) (some ah) hy' x
  omega

theorem Inv.step_swap {σ : State P} (I : Inv σ) (h y : Nat) : Inv (step σ (.swap h y)) := by
  cases hh : σ.prep h with
  | none => simp only [step, hh]; exact I
  | some ah =>
    cases hy : σ.prep y with
    | none => simp only [step, hh, hy]; exact I
    | some ay =>
      simp only [step, hh, hy]
      refine Inv.mk' (show _ = false from I.nofault) (fun x hx => I.fresh x hx) ?_
      intro x
      rw [holders_swap hh hy x]
      exact ⟨I.live x, I.dead x⟩

end PPLV.Value.Cow
