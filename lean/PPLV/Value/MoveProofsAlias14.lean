import PPLV.Value.MoveProofsAlias11
import PPLV.Value.MoveProofsAlias13

/-! C13 aliasing, part 14: full-strength `x.intersection_assign(x)` / `x.poly_hull_assign(x)` -/
namespace PPLV.Value.Move.AliasKit
open PPLV.Value PPLV.Value.Move
set_option linter.unusedSimpArgs false

theorem merge_copy_value (K : RowClass) (hK : ∀ v, K.cmp v v = 0) (h h' : Heap) (s t : LinSys) (G : List Nat)
    (hO : Owns h' (s.owned ++ t.owned ++ G)) (hfr : FrameEq h h' s.owned) (hv : t.value h' = s.value h) :
    (s.mergeRowsAssign K h' (.other t)).2.value (s.mergeRowsAssign K h' (.other t)).1
      = { s.value h with firstPending := s.numRows } := by
  have hs : s.value h' = s.value h := CopyKit.value_congr' h h' s hfr
  have hrows : rowValues h' t.rows.impl = rowValues h' s.rows.impl := by
    have := congrArg LinSysV.rows (hv.trans hs.symm)
    simpa [LinSys.value] using this
  rw [mergeRowsAssign_other_same K hK h' s t G hO hrows, hs]

end PPLV.Value.Move.AliasKit

namespace C13Proofs
open PPLV.Value PPLV.Value.Move

/-- `x.intersection_assign(x)` = `x.intersection_assign(copy of x)`, all modelled paths -/
theorem alias_invariance_intersection (h : Heap) (x : Poly) (frame : List Nat)
    (hO : Owns h (x.owned ++ frame)) :
    let a := x.intersectionAssign h .self
    let c := Poly.copy h x
    let b := x.intersectionAssign c.1 (.other c.2)
    a.2.1.value a.1 = b.2.1.value b.1 ∧ a.2.2 = b.2.2 := by
  intro a c b
  obtain ⟨o, f, hs, hd, hn, vc, _⟩ := AliasKit.Poly.copy_facts h x frame hO
  have hfx : FrameEq h c.1 x.owned := PolyKit.FrameEq.left f
  have o' : Owns c.1 (x.owned ++ c.2.owned ++ frame) := o
  refine AliasKit.inter_core2 h c.1 x c.2 frame frame hO o hfx hs hd hn vc (fun _ _ _ hC => ?_)
  have hO2 : Owns c.1 (x.conSys.owned ++ c.2.conSys.owned ++ (x.genSys.owned ++ c.2.genSys.owned ++ frame)) := by
    refine PolyKit.Owns.perm ?_ o'
    apply AliasKit.perm_of_count; intro a; simp only [Poly.owned, List.count_append]; omega
  exact AliasKit.merge_copy_value constraintClass AliasKit.cmpConstraint_self' h c.1 x.conSys c.2.conSys _ hO2
    (PolyKit.FrameEq.mono hfx (fun a ha => by simp [Poly.owned, ha])) (vc hC)

/-- `x.poly_hull_assign(x)` = `x.poly_hull_assign(copy of x)`, all modelled paths -/
theorem alias_invariance_hull (h : Heap) (x : Poly) (frame : List Nat)
    (hO : Owns h (x.owned ++ frame)) :
    let a := x.polyHullAssign h .self
    let c := Poly.copy h x
    let b := x.polyHullAssign c.1 (.other c.2)
    a.2.1.value a.1 = b.2.1.value b.1 ∧ a.2.2 = b.2.2 := by
  intro a c b
  obtain ⟨o, f, hs, hd, hn, _, vg⟩ := AliasKit.Poly.copy_facts h x frame hO
  have hfx : FrameEq h c.1 x.owned := PolyKit.FrameEq.left f
  have o' : Owns c.1 (x.owned ++ c.2.owned ++ frame) := o
  refine AliasKit.hull_core2 h c.1 x c.2 frame frame hO o hfx hs hd hn vg (fun _ _ _ hC => ?_)
  have hO2 : Owns c.1 (x.genSys.owned ++ c.2.genSys.owned ++ (x.conSys.owned ++ c.2.conSys.owned ++ frame)) := by
    refine PolyKit.Owns.perm ?_ o'
    apply AliasKit.perm_of_count; intro a; simp only [Poly.owned, List.count_append]; omega
  exact AliasKit.merge_copy_value generatorClass AliasKit.cmpGenerator_self' h c.1 x.genSys c.2.genSys _ hO2
    (PolyKit.FrameEq.mono hfx (fun a ha => by simp [Poly.owned, ha])) (vg hC)

end C13Proofs
