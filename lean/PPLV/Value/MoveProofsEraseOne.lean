import PPLV.Value.MoveProofsVecThms

/-!
# C13 stage 2 — the repaired `Swapping_Vector::erase(iterator)`

No Mathlib.
-/
namespace PPLV.Value.Move
open OwnsKit

namespace OwnsKit

/-- the repaired loop carries the erased row `b` to the end, keeping the order of the others; any
    fuel `≥` the number of rows behind `b` gives the same result -/
theorem eraseOneLoop_spec (b : Row) : ∀ (tail P : List Row) (k : Nat), tail.length ≤ k →
    eraseOneLoop k (P.length + 1) (P ++ b :: tail) = P ++ tail ++ [b]
  | [], P, k, _ => by
    have hl : (P.length + 1 != (P ++ [b]).length) = false := by simp
    cases k with
    | zero => simp [eraseOneLoop]
    | succ k => unfold eraseOneLoop; rw [hl]; simp
  | x :: t, P, k, hk => by
    cases k with
    | zero => simp at hk
    | succ k =>
      have hl : (P.length + 1 != (P ++ b :: x :: t).length) = true := by simp
      unfold eraseOneLoop
      rw [hl, if_pos rfl]
      have hr := swapIn_rotate P [] t b x
      have e : swapIn (P.length + 1 - 1) (P.length + 1) (P ++ b :: x :: t) = (P ++ [x]) ++ b :: t := by
        simpa using hr
      rw [e]
      have := eraseOneLoop_spec b t (P ++ [x]) k (by simpa using hk)
      have hlen : (P ++ [x]).length = P.length + 1 := by simp
      rw [hlen] at this
      rw [this]
      simp

theorem eraseOne_unfold (h : Heap) (v : SVec) (i : Nat) :
    v.eraseOne h i
      = (destroyRows h ((eraseOneLoop (v.size - (i + 1)) (i + 1) v.impl).drop
            ((eraseOneLoop (v.size - (i + 1)) (i + 1) v.impl).length - 1)),
          ⟨(eraseOneLoop (v.size - (i + 1)) (i + 1) v.impl).take
            ((eraseOneLoop (v.size - (i + 1)) (i + 1) v.impl).length - 1), v.cap⟩, i) := rfl

end OwnsKit
end PPLV.Value.Move

namespace C13Proofs
open PPLV.Value PPLV.Value.Move PPLV.Value.Move.OwnsKit

/-- `erase(itr)` after the repair: order kept, exactly the erased row is freed, the returned position is
the erased one, every other cell keeps its owner; granting the loop more iterations changes nothing
(so `size - (old_i+1)` iterations reach the exit `i = size`). -/
theorem swapping_vector_erase_one (h : Heap) (v : SVec) (i : Nat) (frame : List Nat)
    (hO : Owns h (owned v.impl ++ frame)) (hi : i < v.size) :
    let out := v.eraseOne h i
    out.2.1.impl = v.impl.take i ++ v.impl.drop (i + 1)
    ∧ out.2.1.cap = v.cap
    ∧ out.2.2 = i
    ∧ Owns out.1 (owned (v.impl.take i ++ v.impl.drop (i + 1)) ++ frame)
    ∧ FrameEq h out.1 (owned (v.impl.take i ++ v.impl.drop (i + 1)) ++ frame)
    ∧ (∀ r, v.impl[i]? = some r → out.1.cells r.impl = none)
    ∧ (∀ extra, eraseOneLoop (v.size - (i + 1) + extra) (i + 1) v.impl
                  = eraseOneLoop (v.size - (i + 1)) (i + 1) v.impl) := by
  intro out
  have hil : i < v.impl.length := hi
  have hsz : v.size = v.impl.length := rfl
  have hsplit : v.impl = v.impl.take i ++ v.impl[i] :: v.impl.drop (i + 1) := by
    conv => lhs; rw [← List.take_append_drop i v.impl, List.drop_eq_getElem_cons hil]
  have hP : (v.impl.take i).length = i := by rw [List.length_take]; omega
  have hT : (v.impl.drop (i + 1)).length = v.size - (i + 1) := by rw [List.length_drop, hsz]
  have hloop : ∀ k, v.size - (i + 1) ≤ k →
      eraseOneLoop k (i + 1) v.impl = v.impl.take i ++ v.impl.drop (i + 1) ++ [v.impl[i]] := by
    intro k hk
    have := eraseOneLoop_spec v.impl[i] (v.impl.drop (i + 1)) (v.impl.take i) k (by rw [hT]; exact hk)
    rw [hP, ← hsplit] at this
    exact this
  have hout : out = _ := eraseOne_unfold h v i
  rw [hloop _ (Nat.le_refl _)] at hout
  have hlen : (v.impl.take i ++ v.impl.drop (i + 1) ++ [v.impl[i]]).length - 1
      = (v.impl.take i ++ v.impl.drop (i + 1)).length := by simp
  rw [hlen, List.drop_left, List.take_left] at hout
  have hO' : Owns h (owned [v.impl[i]] ++ (owned (v.impl.take i ++ v.impl.drop (i + 1)) ++ frame)) := by
    refine owns_perm hO ?_
    conv => lhs; rw [hsplit]
    owns_perm_tac
  obtain ⟨d1, d2⟩ := destroyRows_refines h [v.impl[i]] _ hO'
  rw [hout]
  refine ⟨rfl, rfl, rfl, d1, d2, fun r hr => ?_, fun extra => ?_⟩
  · have hr' : r = v.impl[i] := by
      rw [List.getElem?_eq_getElem hil] at hr; exact (Option.some.inj hr).symm
    subst hr'
    apply owns_none_of_not_mem d1
    intro hm
    exact owns_ne_of_mem_append hO' (List.mem_cons_self) hm rfl
  · rw [hloop _ (Nat.le_add_right _ _), hloop _ (Nat.le_refl _)]

end C13Proofs
