import PPLV.Value.MoveProofsMerge
import PPLV.Value.MoveProofsRecycle

/-!
# C13 moving mechanics — agent B toolkit (part 2): ownership / frame lemmas of the `Poly` operations
-/
namespace PPLV.Value.Move.PolyKit
open PPLV.Value.Move

/-! ## reflexivity of the comparison functions -/

theorem cmpHomog_self (x : List Int) : cmpHomog x x = 0 := by
  induction x with
  | nil => simp [cmpHomog]
  | cons a as ih => simp [cmpHomog, ih]

theorem cmpExpr_self (x : List Int) : cmpExpr x x = 0 := by
  simp [cmpExpr, cmpHomog_self]

theorem cmpConstraint_self (v : RowV) : cmpConstraint v v = 0 := by
  simp [cmpConstraint, cmpExpr_self]

theorem cmpGenerator_self (v : RowV) : cmpGenerator v v = 0 := by
  unfold cmpGenerator
  cases hn : v.nnc
  · simp [cmpExpr_self]
  · simp [cmpExpr_self]
    intro _
    split <;> simp_all

theorem constraintClass_cmp_self (v : RowV) : constraintClass.cmp v v = 0 := cmpConstraint_self v
theorem generatorClass_cmp_self (v : RowV) : generatorClass.cmp v v = 0 := cmpGenerator_self v

/-! ## `set_empty`, `set_zero_dim_univ` -/

theorem Poly.setEmpty_owns' (h : Heap) (p : Poly) (F : List Nat) (hO : Owns h (p.owned ++ F)) :
    Owns (p.setEmpty h).1 F ∧ FrameEq h (p.setEmpty h).1 F ∧ (p.setEmpty h).2.owned = [] := by
  have hO' : Owns h (p.conSys.owned ++ (p.genSys.owned ++ F)) := by
    simpa [Poly.owned, List.append_assoc] using hO
  obtain ⟨a1, _, a3, a4⟩ := LinSys.clear_refines h p.conSys _ hO'
  obtain ⟨b1, _, b3, b4⟩ := LinSys.clear_refines (LinSys.clear h p.conSys).1 p.genSys F a1
  refine ⟨b1, FrameEq.trans (FrameEq.right a4) b4, ?_⟩
  show (LinSys.clear h p.conSys).2.owned ++ (LinSys.clear (LinSys.clear h p.conSys).1 p.genSys).2.owned = []
  rw [a3, b3]; rfl

theorem Poly.setEmpty_owns (h : Heap) (p : Poly) (F : List Nat) (hO : Owns h (p.owned ++ F)) :
    Owns (p.setEmpty h).1 ((p.setEmpty h).2.owned ++ F) ∧ FrameEq h (p.setEmpty h).1 F := by
  obtain ⟨a, b, c⟩ := Poly.setEmpty_owns' h p F hO
  rw [c]; exact ⟨a, b⟩

theorem Poly.setZeroDimUniv_owns' (h : Heap) (p : Poly) (F : List Nat) (hO : Owns h (p.owned ++ F)) :
    Owns (p.setZeroDimUniv h).1 F ∧ FrameEq h (p.setZeroDimUniv h).1 F ∧ (p.setZeroDimUniv h).2.owned = [] := by
  have hO' : Owns h (p.conSys.owned ++ (p.genSys.owned ++ F)) := by
    simpa [Poly.owned, List.append_assoc] using hO
  obtain ⟨a1, _, a3, a4⟩ := LinSys.clear_refines h p.conSys _ hO'
  obtain ⟨b1, _, b3, b4⟩ := LinSys.clear_refines (LinSys.clear h p.conSys).1 p.genSys F a1
  refine ⟨b1, FrameEq.trans (FrameEq.right a4) b4, ?_⟩
  show (LinSys.clear h p.conSys).2.owned ++ (LinSys.clear (LinSys.clear h p.conSys).1 p.genSys).2.owned = []
  rw [a3, b3]; rfl

theorem Poly.setZeroDimUniv_owns (h : Heap) (p : Poly) (F : List Nat) (hO : Owns h (p.owned ++ F)) :
    Owns (p.setZeroDimUniv h).1 ((p.setZeroDimUniv h).2.owned ++ F) ∧ FrameEq h (p.setZeroDimUniv h).1 F := by
  obtain ⟨a, b, c⟩ := Poly.setZeroDimUniv_owns' h p F hO
  rw [c]; exact ⟨a, b⟩

/-! ## `Linear_System` operations with a `const&` argument, in frame shape -/

/-- the argument of a `const Linear_System&` parameter is `*this` or owns cells inside the frame `F` -/
def ArgIn (F : List Nat) (y : Arg LinSys) : Prop :=
  match y with
  | .self => True
  | .other q => ∃ rest, F.Perm (q.owned ++ rest)

theorem ArgIn.frame {F : List Nat} {y : Arg LinSys} (A : List Nat) (hy : ArgIn F y) : ArgIn (A ++ F) y := by
  cases y with
  | self => trivial
  | other q =>
    obtain ⟨rest, hp⟩ := hy
    exact ⟨A ++ rest, (List.Perm.append_left A hp).trans (perm_rot A q.owned rest)⟩

theorem ArgIn.perm {F G : List Nat} {y : Arg LinSys} (hp : F.Perm G) (hy : ArgIn F y) : ArgIn G y := by
  cases y with
  | self => trivial
  | other q =>
    obtain ⟨rest, hq⟩ := hy
    exact ⟨rest, hp.symm.trans hq⟩

theorem ArgIn.mem {F : List Nat} {y : Arg LinSys} (hy : ArgIn F y) (x : LinSys) :
    ∀ a ∈ (y.get x).owned, a ∈ x.owned ++ F := by
  intro a ha
  cases y with
  | self => exact List.mem_append_left _ ha
  | other q =>
    obtain ⟨rest, hq⟩ := hy
    exact List.mem_append_right _ (hq.mem_iff.mpr (List.mem_append_left _ ha))

/-- transport of an interface lemma with an extra conclusion -/
theorem lift_other3 {h h' : Heap} {xo xo' yo F rest : List Nat} {P : Prop} (hp : F.Perm (yo ++ rest))
    (hO : Owns h (xo ++ F))
    (H : Owns h (xo ++ yo ++ rest) → Owns h' (xo' ++ yo ++ rest) ∧ P ∧ FrameEq h h' (yo ++ rest)) :
    Owns h' (xo' ++ F) ∧ FrameEq h h' F ∧ P := by
  have h1 : Owns h (xo ++ yo ++ rest) := by
    rw [List.append_assoc]; exact Owns.perm (List.Perm.append_left xo hp) hO
  obtain ⟨h2, hP, h3⟩ := H h1
  refine ⟨?_, FrameEq.perm hp.symm h3, hP⟩
  rw [List.append_assoc] at h2
  exact Owns.perm (List.Perm.append_left xo' hp.symm) h2

theorem LinSys.assignWithPending_owns (h : Heap) (x : LinSys) (y : Arg LinSys) (F : List Nat)
    (hy : ArgIn F y) (hO : Owns h (x.owned ++ F)) :
    Owns (LinSys.assignWithPending h x y).1 ((LinSys.assignWithPending h x y).2.owned ++ F)
    ∧ FrameEq h (LinSys.assignWithPending h x y).1 F
    ∧ (LinSys.assignWithPending h x y).2.value (LinSys.assignWithPending h x y).1 = (y.get x).value h := by
  cases y with
  | self =>
    obtain ⟨a, b, c⟩ := LinSys.assignWithPending_self_refines h x F hO
    exact ⟨a, c, b⟩
  | other q =>
    obtain ⟨rest, hp⟩ := hy
    exact lift_other3 hp hO (fun H => LinSys.assignWithPending_other_refines h x q rest H)

theorem LinSys.insertConst_owns (K : RowClass) (h : Heap) (x : LinSys) (y : Arg LinSys) (F : List Nat)
    (hy : ArgIn F y) (hO : Owns h (x.owned ++ F)) :
    Owns (x.insertConst K h y).1 ((x.insertConst K h y).2.owned ++ F)
    ∧ FrameEq h (x.insertConst K h y).1 F
    ∧ (x.insertConst K h y).2.value (x.insertConst K h y).1 = insertSysV K (x.value h) ((y.get x).value h) := by
  cases y with
  | self =>
    obtain ⟨a, b, c⟩ := LinSys.insertConst_self_refines K h x F hO
    exact ⟨a, c, b⟩
  | other q =>
    obtain ⟨rest, hp⟩ := hy
    exact lift_other3 hp hO (fun H => LinSys.insertConst_other_refines K h x q rest H)

theorem LinSys.insertPendingConst_owns (K : RowClass) (h : Heap) (x : LinSys) (y : Arg LinSys) (F : List Nat)
    (hy : ArgIn F y) (hO : Owns h (x.owned ++ F)) :
    Owns (x.insertPendingConst K h y).1 ((x.insertPendingConst K h y).2.owned ++ F)
    ∧ FrameEq h (x.insertPendingConst K h y).1 F
    ∧ (x.insertPendingConst K h y).2.value (x.insertPendingConst K h y).1
        = insertPendingSysV (x.value h) ((y.get x).value h) := by
  cases y with
  | self =>
    obtain ⟨a, b, c⟩ := LinSys.insertPendingConst_self_refines K h x F hO
    exact ⟨a, c, b⟩
  | other q =>
    obtain ⟨rest, hp⟩ := hy
    exact lift_other3 hp hO (fun H => LinSys.insertPendingConst_other_refines K h x q rest H)

theorem LinSys.mergeRowsAssign_owns (K : RowClass) (hK : ∀ v, K.cmp v v = 0) (h : Heap) (x : LinSys)
    (y : Arg LinSys) (F : List Nat) (hy : ArgIn F y) (hO : Owns h (x.owned ++ F)) :
    Owns (x.mergeRowsAssign K h y).1 ((x.mergeRowsAssign K h y).2.owned ++ F)
    ∧ FrameEq h (x.mergeRowsAssign K h y).1 F := by
  cases y with
  | self =>
    obtain ⟨a, b, _⟩ := LinSys.mergeRowsAssign_self_owns K hK h x F hO
    exact ⟨a, b⟩
  | other q =>
    obtain ⟨rest, hp⟩ := hy
    exact lift_other hp hO (fun H => LinSys.mergeRowsAssign_other_owns K h x q rest H)

/-! ## `Polyhedron::operator=` -/

theorem assign_core (h : Heap) (xc xg : LinSys) (yc yg : Arg LinSys) (bc bg : Bool) (F : List Nat)
    (hyc : ArgIn F yc) (hyg : ArgIn F yg) (hO : Owns h (xc.owned ++ xg.owned ++ F)) :
    let r1 := if bc = true then LinSys.assignWithPending h xc yc else (h, xc)
    let r2 := if bg = true then LinSys.assignWithPending r1.1 xg yg else (r1.1, xg)
    Owns r2.1 (r1.2.owned ++ r2.2.owned ++ F) ∧ FrameEq h r2.1 F
    ∧ (bc = true → r1.2.value r2.1 = (yc.get xc).value h)
    ∧ (bg = true → r2.2.value r2.1 = (yg.get xg).value h) := by
  intro r1 r2
  have hO1 : Owns h (xc.owned ++ (xg.owned ++ F)) := by rw [← List.append_assoc]; exact hO
  -- step 1
  have s1 : Owns r1.1 (r1.2.owned ++ (xg.owned ++ F)) ∧ FrameEq h r1.1 (xg.owned ++ F)
      ∧ (bc = true → r1.2.value r1.1 = (yc.get xc).value h) := by
    by_cases hb : bc = true
    · have e : r1 = LinSys.assignWithPending h xc yc := by simp [r1, hb]
      rw [e]
      obtain ⟨a, b, c⟩ := LinSys.assignWithPending_owns h xc yc _ (ArgIn.frame xg.owned hyc) hO1
      exact ⟨a, b, fun _ => c⟩
    · have e : r1 = (h, xc) := by simp [r1, hb]
      rw [e]
      exact ⟨hO1, FrameEq.refl _ _, fun hh => absurd hh hb⟩
  obtain ⟨a1, f1, v1⟩ := s1
  have hO2 : Owns r1.1 (xg.owned ++ (r1.2.owned ++ F)) := Owns.perm (perm_rot _ _ _) a1
  have hyg' : ArgIn (r1.2.owned ++ F) yg := ArgIn.frame _ hyg
  have s2 : Owns r2.1 (r2.2.owned ++ (r1.2.owned ++ F)) ∧ FrameEq r1.1 r2.1 (r1.2.owned ++ F)
      ∧ (bg = true → r2.2.value r2.1 = (yg.get xg).value r1.1) := by
    by_cases hb : bg = true
    · have e : r2 = LinSys.assignWithPending r1.1 xg yg := by simp [r2, hb]
      rw [e]
      obtain ⟨a, b, c⟩ := LinSys.assignWithPending_owns r1.1 xg yg _ hyg' hO2
      exact ⟨a, b, fun _ => c⟩
    · have e : r2 = (r1.1, xg) := by simp [r2, hb]
      rw [e]
      exact ⟨hO2, FrameEq.refl _ _, fun hh => absurd hh hb⟩
  obtain ⟨a2, f2, v2⟩ := s2
  refine ⟨?_, FrameEq.trans (FrameEq.right f1) (FrameEq.right f2), ?_, ?_⟩
  · rw [List.append_assoc]; exact Owns.perm (perm_rot _ _ _) a2
  · intro hb
    rw [LinSys.value_frame r1.2 f2 (fun a ha => List.mem_append_left _ ha)]
    exact v1 hb
  · intro hb
    rw [v2 hb]
    exact LinSys.value_frame _ f1 (ArgIn.mem hyg xg)

/-- the argument of a `const Polyhedron&` parameter is `*this` or owns cells inside the frame `F` -/
def PArgIn (F : List Nat) (y : Arg Poly) : Prop :=
  match y with
  | .self => True
  | .other q => ∃ rest, F.Perm (q.owned ++ rest)

/-- the member systems of the argument -/
def argCon (y : Arg Poly) : Arg LinSys := match y with | .self => .self | .other q => .other q.conSys
def argGen (y : Arg Poly) : Arg LinSys := match y with | .self => .self | .other q => .other q.genSys

theorem PArgIn.con {F : List Nat} {y : Arg Poly} (hy : PArgIn F y) : ArgIn F (argCon y) := by
  cases y with
  | self => trivial
  | other q =>
    obtain ⟨rest, hp⟩ := hy
    refine ⟨q.genSys.owned ++ rest, ?_⟩
    simpa [Poly.owned, List.append_assoc] using hp

theorem PArgIn.gen {F : List Nat} {y : Arg Poly} (hy : PArgIn F y) : ArgIn F (argGen y) := by
  cases y with
  | self => trivial
  | other q =>
    obtain ⟨rest, hp⟩ := hy
    refine ⟨q.conSys.owned ++ rest, ?_⟩
    refine hp.trans ?_
    simp only [Poly.owned, List.append_assoc]
    exact perm_rot _ _ _

theorem argCon_get (x : Poly) (y : Arg Poly) : (argCon y).get x.conSys = (y.get x).conSys := by
  cases y <;> rfl
theorem argGen_get (x : Poly) (y : Arg Poly) : (argGen y).get x.genSys = (y.get x).genSys := by
  cases y <;> rfl

theorem Poly.assign_eq (h : Heap) (x : Poly) (y : Arg Poly) :
    x.assign h y =
      if (y.get x).markedEmpty = true then ({ x with spaceDim := (y.get x).spaceDim } : Poly).setEmpty h
      else if ((y.get x).spaceDim == 0) = true then ({ x with spaceDim := (y.get x).spaceDim } : Poly).setZeroDimUniv h
      else
        let r1 := if testAny (y.get x).status C_UP = true then LinSys.assignWithPending h x.conSys (argCon y) else (h, x.conSys)
        let r2 := if testAny (y.get x).status G_UP = true then LinSys.assignWithPending r1.1 x.genSys (argGen y) else (r1.1, x.genSys)
        (r2.1, (⟨r1.2, r2.2, if testAny (y.get x).status SAT_C_UP then (y.get x).satC else x.satC,
                   if testAny (y.get x).status SAT_G_UP then (y.get x).satG else x.satG,
                   (y.get x).status, (y.get x).spaceDim⟩ : Poly)) := by
  cases y <;> rfl


theorem Poly.assign_owns' (h : Heap) (x : Poly) (y : Arg Poly) (F : List Nat)
    (hy : PArgIn F y) (hO : Owns h (x.owned ++ F)) :
    Owns (x.assign h y).1 ((x.assign h y).2.owned ++ F) ∧ FrameEq h (x.assign h y).1 F := by
  rw [Poly.assign_eq]
  split
  · exact Poly.setEmpty_owns h _ F hO
  · split
    · exact Poly.setZeroDimUniv_owns h _ F hO
    · have := assign_core h x.conSys x.genSys (argCon y) (argGen y) (testAny (y.get x).status C_UP)
        (testAny (y.get x).status G_UP) F hy.con hy.gen hO
      exact ⟨this.1, this.2.1⟩

theorem Poly.assign_owns (h : Heap) (x : Poly) (y : Arg Poly) (F : List Nat)
    (hy : match y with | .self => True | .other q => ∃ rest, F.Perm (q.owned ++ rest))
    (hO : Owns h (x.owned ++ F)) :
    Owns (x.assign h y).1 ((x.assign h y).2.owned ++ F) ∧ FrameEq h (x.assign h y).1 F :=
  Poly.assign_owns' h x y F hy hO

/-- the value computed by `x = y` when everything of `y` is up to date -/
theorem Poly.assign_value' (h : Heap) (x : Poly) (y : Arg Poly) (F : List Nat)
    (hy : PArgIn F y) (hO : Owns h (x.owned ++ F))
    (hne : (y.get x).markedEmpty = false) (hd : (y.get x).spaceDim ≠ 0)
    (hc : testAny (y.get x).status C_UP = true) (hg : testAny (y.get x).status G_UP = true)
    (hsc : testAny (y.get x).status SAT_C_UP = true) (hsg : testAny (y.get x).status SAT_G_UP = true) :
    (x.assign h y).2.value (x.assign h y).1 = (y.get x).value h := by
  have hd' : ((y.get x).spaceDim == 0) = false := by simpa using hd
  have := assign_core h x.conSys x.genSys (argCon y) (argGen y) (testAny (y.get x).status C_UP)
        (testAny (y.get x).status G_UP) F hy.con hy.gen hO
  obtain ⟨_, _, v1, v2⟩ := this
  have v1 := v1 hc
  have v2 := v2 hg
  rw [argCon_get] at v1
  rw [argGen_get] at v2
  rw [Poly.assign_eq]
  simp only [hne, hd', Bool.false_eq_true, if_false]
  simp only [Poly.value, hsc, hsg, if_true]
  rw [v1, v2]

theorem Poly.assign_value_other (h : Heap) (x q : Poly) (rest : List Nat)
    (hO : Owns h (x.owned ++ q.owned ++ rest))
    (hne : q.markedEmpty = false) (hd : q.spaceDim ≠ 0)
    (hc : testAny q.status C_UP = true) (hg : testAny q.status G_UP = true)
    (hsc : testAny q.status SAT_C_UP = true) (hsg : testAny q.status SAT_G_UP = true) :
    (x.assign h (.other q)).2.value (x.assign h (.other q)).1 = q.value h :=
  Poly.assign_value' h x (.other q) (q.owned ++ rest) ⟨rest, List.Perm.refl _⟩
    (by rw [← List.append_assoc]; exact hO) hne hd hc hg hsc hsg

theorem Poly.assign_value_self (h : Heap) (x : Poly) (F : List Nat)
    (hO : Owns h (x.owned ++ F))
    (hne : x.markedEmpty = false) (hd : x.spaceDim ≠ 0)
    (hc : testAny x.status C_UP = true) (hg : testAny x.status G_UP = true)
    (hsc : testAny x.status SAT_C_UP = true) (hsg : testAny x.status SAT_G_UP = true) :
    (x.assign h .self).2.value (x.assign h .self).1 = x.value h :=
  Poly.assign_value' h x .self F trivial hO hne hd hc hg hsc hsg

/-! ## `intersection_assign`, `poly_hull_assign` -/

theorem con_update_owns {h h' : Heap} (x : Poly) (c' : LinSys) (s : Nat) (F : List Nat)
    (H : Owns h' (c'.owned ++ (x.genSys.owned ++ F)) ∧ FrameEq h h' (x.genSys.owned ++ F)) :
    Owns h' (({ x with conSys := c', status := s } : Poly).owned ++ F) ∧ FrameEq h h' F := by
  refine ⟨?_, FrameEq.right H.2⟩
  show Owns h' (c'.owned ++ x.genSys.owned ++ F)
  rw [List.append_assoc]; exact H.1

theorem gen_update_owns {h h' : Heap} (x : Poly) (g' : LinSys) (s : Nat) (F : List Nat)
    (H : Owns h' (g'.owned ++ (x.conSys.owned ++ F)) ∧ FrameEq h h' (x.conSys.owned ++ F)) :
    Owns h' (({ x with genSys := g', status := s } : Poly).owned ++ F) ∧ FrameEq h h' F := by
  refine ⟨?_, FrameEq.right H.2⟩
  show Owns h' (x.conSys.owned ++ g'.owned ++ F)
  rw [List.append_assoc]; exact Owns.perm (perm_rot _ _ _) H.1

theorem Poly.intersectionAssign_cases (h : Heap) (x : Poly) (y : Arg Poly) :
    ((x.intersectionAssign h y).1 = h ∧ (x.intersectionAssign h y).2.1 = x)
    ∨ ((x.intersectionAssign h y).1 = (x.setEmpty h).1 ∧ (x.intersectionAssign h y).2.1 = (x.setEmpty h).2)
    ∨ (∃ s, (x.intersectionAssign h y).1 = (x.conSys.insertPendingConst constraintClass h (argCon y)).1
          ∧ (x.intersectionAssign h y).2.1 = { x with conSys := (x.conSys.insertPendingConst constraintClass h (argCon y)).2, status := s })
    ∨ (∃ s, (x.intersectionAssign h y).1 = (x.conSys.mergeRowsAssign constraintClass h (argCon y)).1
          ∧ (x.intersectionAssign h y).2.1 = { x with conSys := (x.conSys.mergeRowsAssign constraintClass h (argCon y)).2, status := s })
    ∨ (∃ s, (x.intersectionAssign h y).1 = (x.conSys.insertConst constraintClass h (argCon y)).1
          ∧ (x.intersectionAssign h y).2.1 = { x with conSys := (x.conSys.insertConst constraintClass h (argCon y)).2, status := s }) := by
  cases y <;>
  · unfold Poly.intersectionAssign argCon
    simp only []
    repeat' split
    all_goals first
      | exact Or.inl ⟨rfl, rfl⟩
      | exact Or.inr (Or.inl ⟨rfl, rfl⟩)
      | exact Or.inr (Or.inr (Or.inl ⟨_, rfl, rfl⟩))
      | exact Or.inr (Or.inr (Or.inr (Or.inl ⟨_, rfl, rfl⟩)))
      | exact Or.inr (Or.inr (Or.inr (Or.inr ⟨_, rfl, rfl⟩)))

theorem Poly.intersectionAssign_owns' (h : Heap) (x : Poly) (y : Arg Poly) (F : List Nat)
    (hy : PArgIn F y) (hO : Owns h (x.owned ++ F)) :
    Owns (x.intersectionAssign h y).1 ((x.intersectionAssign h y).2.1.owned ++ F)
    ∧ FrameEq h (x.intersectionAssign h y).1 F := by
  have hO1 : Owns h (x.conSys.owned ++ (x.genSys.owned ++ F)) := by rw [← List.append_assoc]; exact hO
  have hyc : ArgIn (x.genSys.owned ++ F) (argCon y) := ArgIn.frame _ hy.con
  rcases Poly.intersectionAssign_cases h x y with ⟨e1, e2⟩ | ⟨e1, e2⟩ | ⟨s, e1, e2⟩ | ⟨s, e1, e2⟩ | ⟨s, e1, e2⟩
  · rw [e1, e2]; exact ⟨hO, FrameEq.refl _ _⟩
  · rw [e1, e2]; exact Poly.setEmpty_owns h x F hO
  · rw [e1, e2]
    have := LinSys.insertPendingConst_owns constraintClass h x.conSys (argCon y) _ hyc hO1
    exact con_update_owns x _ s F ⟨this.1, this.2.1⟩
  · rw [e1, e2]
    exact con_update_owns x _ s F
      (LinSys.mergeRowsAssign_owns constraintClass constraintClass_cmp_self h x.conSys (argCon y) _ hyc hO1)
  · rw [e1, e2]
    have := LinSys.insertConst_owns constraintClass h x.conSys (argCon y) _ hyc hO1
    exact con_update_owns x _ s F ⟨this.1, this.2.1⟩

theorem Poly.intersectionAssign_owns (h : Heap) (x : Poly) (y : Arg Poly) (F : List Nat)
    (hy : match y with | .self => True | .other q => ∃ rest, F.Perm (q.owned ++ rest))
    (hO : Owns h (x.owned ++ F)) :
    Owns (x.intersectionAssign h y).1 ((x.intersectionAssign h y).2.1.owned ++ F)
    ∧ FrameEq h (x.intersectionAssign h y).1 F :=
  Poly.intersectionAssign_owns' h x y F hy hO

theorem Poly.polyHullAssign_cases (h : Heap) (x : Poly) (y : Arg Poly) :
    ((x.polyHullAssign h y).1 = h ∧ (x.polyHullAssign h y).2.1 = x)
    ∨ ((x.polyHullAssign h y).1 = (x.assign h y).1 ∧ (x.polyHullAssign h y).2.1 = (x.assign h y).2)
    ∨ (∃ s, (x.polyHullAssign h y).1 = (x.genSys.insertPendingConst generatorClass h (argGen y)).1
          ∧ (x.polyHullAssign h y).2.1 = { x with genSys := (x.genSys.insertPendingConst generatorClass h (argGen y)).2, status := s })
    ∨ (∃ s, (x.polyHullAssign h y).1 = (x.genSys.mergeRowsAssign generatorClass h (argGen y)).1
          ∧ (x.polyHullAssign h y).2.1 = { x with genSys := (x.genSys.mergeRowsAssign generatorClass h (argGen y)).2, status := s })
    ∨ (∃ s, (x.polyHullAssign h y).1 = (x.genSys.insertConst generatorClass h (argGen y)).1
          ∧ (x.polyHullAssign h y).2.1 = { x with genSys := (x.genSys.insertConst generatorClass h (argGen y)).2, status := s }) := by
  cases y <;>
  · unfold Poly.polyHullAssign argGen
    simp only []
    repeat' split
    all_goals first
      | exact Or.inl ⟨rfl, rfl⟩
      | exact Or.inr (Or.inl ⟨rfl, rfl⟩)
      | exact Or.inr (Or.inr (Or.inl ⟨_, rfl, rfl⟩))
      | exact Or.inr (Or.inr (Or.inr (Or.inl ⟨_, rfl, rfl⟩)))
      | exact Or.inr (Or.inr (Or.inr (Or.inr ⟨_, rfl, rfl⟩)))

theorem Poly.polyHullAssign_owns' (h : Heap) (x : Poly) (y : Arg Poly) (F : List Nat)
    (hy : PArgIn F y) (hO : Owns h (x.owned ++ F)) :
    Owns (x.polyHullAssign h y).1 ((x.polyHullAssign h y).2.1.owned ++ F)
    ∧ FrameEq h (x.polyHullAssign h y).1 F := by
  have hO1 : Owns h (x.genSys.owned ++ (x.conSys.owned ++ F)) := by
    refine Owns.perm ?_ hO
    simp only [Poly.owned, List.append_assoc]
    exact perm_rot _ _ _
  have hyg : ArgIn (x.conSys.owned ++ F) (argGen y) := ArgIn.frame _ hy.gen
  rcases Poly.polyHullAssign_cases h x y with ⟨e1, e2⟩ | ⟨e1, e2⟩ | ⟨s, e1, e2⟩ | ⟨s, e1, e2⟩ | ⟨s, e1, e2⟩
  · rw [e1, e2]; exact ⟨hO, FrameEq.refl _ _⟩
  · rw [e1, e2]; exact Poly.assign_owns' h x y F hy hO
  · rw [e1, e2]
    have := LinSys.insertPendingConst_owns generatorClass h x.genSys (argGen y) _ hyg hO1
    exact gen_update_owns x _ s F ⟨this.1, this.2.1⟩
  · rw [e1, e2]
    exact gen_update_owns x _ s F
      (LinSys.mergeRowsAssign_owns generatorClass generatorClass_cmp_self h x.genSys (argGen y) _ hyg hO1)
  · rw [e1, e2]
    have := LinSys.insertConst_owns generatorClass h x.genSys (argGen y) _ hyg hO1
    exact gen_update_owns x _ s F ⟨this.1, this.2.1⟩

theorem Poly.polyHullAssign_owns (h : Heap) (x : Poly) (y : Arg Poly) (F : List Nat)
    (hy : match y with | .self => True | .other q => ∃ rest, F.Perm (q.owned ++ rest))
    (hO : Owns h (x.owned ++ F)) :
    Owns (x.polyHullAssign h y).1 ((x.polyHullAssign h y).2.1.owned ++ F)
    ∧ FrameEq h (x.polyHullAssign h y).1 F :=
  Poly.polyHullAssign_owns' h x y F hy hO

/-! ## `add_constraints(const Constraint_System&)` -/

theorem Poly.addConstraints_owns (h : Heap) (x : Poly) (cs : LinSys) (F : List Nat)
    (hcs : ∃ rest, (x.owned ++ F).Perm (cs.owned ++ rest)) (hO : Owns h (x.owned ++ F)) :
    Owns (x.addConstraints h cs).1 ((x.addConstraints h cs).2.1.owned ++ F)
    ∧ FrameEq h (x.addConstraints h cs).1 F := by
  obtain ⟨rest, hp⟩ := hcs
  have hO0 : Owns h (cs.owned ++ rest) := Owns.perm hp hO
  obtain ⟨a1, _, a3⟩ := LinSys.copy_refines h cs rest hO0
  have hO1 : Owns (LinSys.copy h cs).1 (x.owned ++ (LinSys.copy h cs).2.owned ++ F) := by
    refine Owns.perm ?_ a1
    rw [List.append_assoc, List.append_assoc]
    exact (List.Perm.append_left _ hp.symm).trans (perm_rot _ _ _)
  have f1 : FrameEq h (LinSys.copy h cs).1 F := FrameEq.right (FrameEq.perm hp.symm a3)
  obtain ⟨b1, b2, _, _⟩ := C13Proofs.recycled_argument_valid (LinSys.copy h cs).1 x (LinSys.copy h cs).2 F hO1
  have hO2 : Owns (x.addRecycledConstraints (LinSys.copy h cs).1 (LinSys.copy h cs).2).1
      ((x.addRecycledConstraints (LinSys.copy h cs).1 (LinSys.copy h cs).2).2.2.1.owned
        ++ ((x.addRecycledConstraints (LinSys.copy h cs).1 (LinSys.copy h cs).2).2.1.owned ++ F)) := by
    refine Owns.perm ?_ b1
    rw [List.append_assoc]
    exact perm_rot _ _ _
  obtain ⟨c1, c2⟩ := LinSys.destroy_refines _ _ _ hO2
  exact ⟨c1, FrameEq.trans (FrameEq.trans f1 b2) (FrameEq.right c2)⟩

/-! ## `m_swap`, in-place writes -/

theorem Poly.mSwap_eq (x y : Poly) : Poly.mSwap x y = if x.nnc = y.nnc then (y, x) else (x, y) := by
  unfold Poly.mSwap
  by_cases hn : x.nnc = y.nnc
  · simp [hn, LinSys.mSwap, SVec.mSwap, swapM]
  · simp [hn]

theorem Poly.mSwap_owned (x y : Poly) :
    ((Poly.mSwap x y).1.owned ++ (Poly.mSwap x y).2.owned).Perm (x.owned ++ y.owned) := by
  rw [Poly.mSwap_eq]
  split
  · exact List.perm_append_comm
  · exact List.Perm.refl _

/-- an in-place write through row `k` of one of `x`'s systems -/
theorem Poly.writeRow_owns (h : Heap) (x : Poly) (gen : Bool) (k : Nat) (r : Row) (f : List Int → List Int)
    (F : List Nat) (hr : (if gen then x.genSys else x.conSys).rows.impl[k]? = some r)
    (hO : Owns h (x.owned ++ F)) :
    Owns (h.modify r.impl f) (x.owned ++ F) ∧ FrameEq h (h.modify r.impl f) F := by
  have hmem : r.impl ∈ x.owned := by
    have hr' : r ∈ (if gen then x.genSys else x.conSys).rows.impl := List.mem_of_getElem? hr
    have : r.impl ∈ (if gen then x.genSys else x.conSys).owned := by
      simp only [LinSys.owned, Move.owned]; exact List.mem_map_of_mem hr'
    cases gen
    · exact List.mem_append_left _ (by simpa using this)
    · exact List.mem_append_right _ (by simpa using this)
  obtain ⟨a, b, _⟩ := Owns.modify hO (List.mem_append_left F hmem) f
  refine ⟨a, fun c hc => b c ?_⟩
  intro hca
  subst hca
  have := (List.nodup_append.mp (Owns.nodup hO)).2.2 _ hmem _ hc
  exact this rfl

end PPLV.Value.Move.PolyKit
