/-!
# C13 — objects are values

Two executable models (no Mathlib; linked into the native driver `pplv_c13`).

## (a) `Spec`: the value specification of a pool history

A pool maps slot numbers to *values*.  A step reads the values of its argument slots (positions
matter, repetitions allowed: that is aliasing) and writes some destination slots, each with a pure
function of the values read.  A history is the left fold of `step`.  Nothing else exists in the
specification: no identity, no sharing, no representation.  `frame` and `alias_invariance`
(`PPLV/Value/Proofs.lean`) are therefore almost definitional; they are stated so that the harness
tests the real library against a theorem.

## (b) `Cow`: a transliteration of `Determinate<PSET>` (`src/Determinate_defs.hh`, `_inlines.hh`)

A heap of `Rep`s (reference count + point set), handles (`Determinate` objects, each a `Rep*`),
and the operations of the class with the order of increments and decrements of the C++ code.
Every access to a freed `Rep`, every double free, every decrement of a zero counter and every
`delete` of a `Rep` whose counter is not zero (the assertion in `~Rep`) sets the `fault` flag.
-/
namespace PPLV.Value

/-! ## (a) the value specification -/
namespace Spec

/-- a pool: slot ↦ value (total; slots that were never written hold whatever the initial pool holds) -/
abbrev Pool (V : Type) := Nat → V

/-- `pool[i ↦ v]` -/
def upd {V : Type} (p : Pool V) (i : Nat) (v : V) : Pool V := fun j => if j = i then v else p j

/-- One write: destination slot and the pure function computing its new value from the values of
the arguments (`none`: the slot keeps its value, e.g. an operation whose precondition fails). -/
abbrev Write (V : Type) := Nat × (List V → Option V)

/-- A step of a history: argument slots (in argument order, repetitions allowed) and writes. -/
structure Step (V : Type) where
  reads : List Nat
  writes : List (Write V)

/-- perform the writes in order; every function sees the argument values of the *pre*-state -/
def applyWrites {V : Type} (args : List V) : List (Write V) → Pool V → Pool V
  | [], p => p
  | (d, f) :: ws, p => applyWrites args ws (match f args with | some v => upd p d v | none => p)

/-- `step pool (op dst args) = pool[dst ↦ f (pool args)]` -/
def step {V : Type} (p : Pool V) (s : Step V) : Pool V := applyWrites (s.reads.map p) s.writes p

/-- a history is a pure fold -/
def run {V : Type} (p : Pool V) (steps : List (Step V)) : Pool V := steps.foldl step p

/-- slots a step may change -/
def Step.dsts {V : Type} (s : Step V) : List Nat := s.writes.map (·.1)

/-! ### the shapes of step used by the harness -/

/-- `dst := f(args)`: `x.op(y, z)` is `op x [x, y, z] f`; `x.op(x)` is `op x [x, x] f` -/
def op {V : Type} (dst : Nat) (args : List Nat) (f : List V → V) : Step V :=
  ⟨args, [(dst, fun a => some (f a))]⟩
/-- copy construction `new (&d) T(s)` and assignment `d = s` (`d = s` allowed: self-assignment) -/
def copy {V : Type} (d s : Nat) : Step V := ⟨[s], [(d, fun a => a[0]?)]⟩
/-- `swap(a, b)` (`a = b` allowed: self-swap) -/
def swap {V : Type} (a b : Nat) : Step V := ⟨[a, b], [(a, fun v => v[1]?), (b, fun v => v[0]?)]⟩
/-- a const query: reads, writes nothing -/
def query {V : Type} (args : List Nat) : Step V := ⟨args, []⟩
/-- a recycling entry point: `dst := f(args)`, the donor is left in a valid but unspecified state
    `g(args)` -/
def recycle {V : Type} (dst donor : Nat) (args : List Nat) (f g : List V → V) : Step V :=
  ⟨args, [(donor, fun a => some (g a)), (dst, fun a => some (f a))]⟩
/-- construction of slot `d` with value `v` -/
def init {V : Type} (d : Nat) (v : V) : Step V := ⟨[], [(d, fun _ => some v)]⟩

end Spec

/-! ## (b) `Determinate<PSET>` -/
namespace Cow

/-- `class Rep { mutable references_type references; PSET pset; }` -/
structure Rep (P : Type) where
  refs : Nat
  pset : P
deriving DecidableEq, Repr

/-- Machine state.  `heap a = none`: address `a` is not allocated (never was, or freed);
addresses are handed out in increasing order (`next`), never reused — reuse could only matter
for a dangling pointer, and `fault` records every access through one.
`handles[h] = some a`: the `Determinate` object in slot `h` is alive and its `prep` is `a`. -/
structure State (P : Type) where
  heap : Nat → Option (Rep P)
  next : Nat
  handles : List (Option Nat)
  fault : Bool

def State.init (P : Type) (nHandles : Nat) : State P :=
  ⟨fun _ => none, 0, List.replicate nHandles none, false⟩

variable {P : Type}

def State.setCell (σ : State P) (a : Nat) (c : Option (Rep P)) : State P :=
  { σ with heap := fun x => if x = a then c else σ.heap x }
def State.setPrep (σ : State P) (h : Nat) (a : Option Nat) : State P :=
  { σ with handles := σ.handles.set h a }
def State.bad (σ : State P) : State P := { σ with fault := true }

/-- `prep` of a live object -/
def State.prep (σ : State P) (h : Nat) : Option Nat := (σ.handles[h]?).join

/-- `new Rep(pset)`: `references(0)` -/
def alloc (σ : State P) (p : P) : State P × Nat :=
  ({ σ with heap := fun x => if x = σ.next then some ⟨0, p⟩ else σ.heap x, next := σ.next + 1 }, σ.next)

/-- `Rep::new_reference() const { ++references; }` -/
def newRef (σ : State P) (a : Nat) : State P :=
  match σ.heap a with
  | some r => σ.setCell a (some { r with refs := r.refs + 1 })
  | none => σ.bad

/-- `Rep::del_reference() const { return --references == 0; }` (a zero counter would wrap) -/
def delRef (σ : State P) (a : Nat) : State P × Bool :=
  match σ.heap a with
  | some r =>
    if r.refs = 0 then (σ.bad, false)
    else (σ.setCell a (some { r with refs := r.refs - 1 }), r.refs - 1 == 0)
  | none => (σ.bad, false)

/-- `delete prep;` with `~Rep() { PPL_ASSERT(references == 0); }` -/
def free (σ : State P) (a : Nat) : State P :=
  match σ.heap a with
  | some r => if r.refs = 0 then σ.setCell a none else (σ.setCell a none).bad
  | none => σ.bad

/-- `if (prep->del_reference()) delete prep;` -/
def release (σ : State P) (a : Nat) : State P :=
  let (σ₁, z) := delRef σ a
  if z then free σ₁ a else σ₁

/-- `Rep::is_shared() const { return references > 1; }` -/
def isShared (σ : State P) (a : Nat) : Option Bool := (σ.heap a).map (fun r => decide (1 < r.refs))

/-- ```
void mutate() {
  if (prep->is_shared()) {
    Rep* const new_prep = new Rep(prep->pset);
    (void) prep->del_reference();
    new_prep->new_reference();
    prep = new_prep;
  }
}``` -/
def mutateAt (σ : State P) (h a : Nat) : State P :=
  match σ.heap a with
  | none => σ.bad
  | some r =>
    if 1 < r.refs then
      let (σ₁, a') := alloc σ r.pset
      let (σ₂, _) := delRef σ₁ a
      let σ₃ := newRef σ₂ a'
      σ₃.setPrep h (some a')
    else σ

/-- in-place update of the point set behind `a` (what the caller of the non-const `pointset()`
    does with the reference it gets) -/
def writePset (σ : State P) (a : Nat) (f : P → P) : State P :=
  match σ.heap a with
  | some r => σ.setCell a (some { r with pset := f r.pset })
  | none => σ.bad

/-- `const PSET& pointset() const { return prep->pset; }` -/
def readPset (σ : State P) (a : Nat) : Option P := (σ.heap a).map (·.pset)

/-- The operations of `Determinate`, on a pool of object slots.  An operation whose C++
precondition fails (constructing into a live slot, using a dead object) is skipped, so *every*
list of operations is a history. -/
inductive Op (P : Type) where
  /-- `Determinate(const PSET& p) : prep(new Rep(p)) { prep->new_reference(); }` -/
  | construct (h : Nat) (p : P)
  /-- `Determinate(const Determinate& y) : prep(y.prep) { prep->new_reference(); }` -/
  | copyCtor (h y : Nat)
  /-- `operator=(y) { y.prep->new_reference(); if (prep->del_reference()) delete prep; prep = y.prep; }` -/
  | assign (h y : Nat)
  /-- `~Determinate() { if (prep->del_reference()) delete prep; }` -/
  | destroy (h : Nat)
  /-- `m_swap(y) { swap(prep, y.prep); }` -/
  | swap (h y : Nat)
  /-- `pointset()` (non-const: `mutate(); return prep->pset;`) followed by an in-place update -/
  | mutate (h : Nat) (f : P → P)
  /-- `pointset().op(y.pointset())` — `upper_bound_assign`, `meet_assign`, `concatenate_assign`,
      `weakening_assign`, `Binary_Operator_Assign_Lifter`: receiver first, then the const argument -/
  | binop (h y : Nat) (g : P → P → P)

def step (σ : State P) : Op P → State P
  | .construct h p =>
    if h < σ.handles.length ∧ σ.prep h = none then
      let (σ₁, a) := alloc σ p
      (newRef σ₁ a).setPrep h (some a)
    else σ
  | .copyCtor h y =>
    match σ.prep y with
    | some ay =>
      if h < σ.handles.length ∧ σ.prep h = none then (newRef σ ay).setPrep h (some ay) else σ
    | none => σ
  | .assign h y =>
    match σ.prep h, σ.prep y with
    | some ah, some ay =>
      let σ₁ := newRef σ ay
      let σ₂ := release σ₁ ah
      σ₂.setPrep h (some ay)
    | _, _ => σ
  | .destroy h =>
    match σ.prep h with
    | some a => (release σ a).setPrep h none
    | none => σ
  | .swap h y =>
    match σ.prep h, σ.prep y with
    | some ah, some ay => (σ.setPrep h (some ay)).setPrep y (some ah)
    | _, _ => σ
  | .mutate h f =>
    match σ.prep h with
    | some a =>
      let σ₁ := mutateAt σ h a
      match σ₁.prep h with
      | some a' => writePset σ₁ a' f
      | none => σ₁.bad
    | none => σ
  | .binop h y g =>
    match σ.prep h, σ.prep y with
    | some a, some _ =>
      let σ₁ := mutateAt σ h a
      -- `y.pointset()` is evaluated after `this->pointset()` (and `y` may be `*this`)
      match σ₁.prep h, σ₁.prep y with
      | some a', some ay' =>
        match readPset σ₁ ay' with
        | some q => writePset σ₁ a' (fun p => g p q)
        | none => σ₁.bad
      | _, _ => σ₁.bad
    | _, _ => σ

def run (σ : State P) (ops : List (Op P)) : State P := ops.foldl step σ

/-- what is seen through handle `h` (`none`: no live object, or a dangling pointer) -/
def value (σ : State P) (h : Nat) : Option P :=
  match σ.prep h with
  | some a => readPset σ a
  | none => none

/-- number of live handles pointing to `a` -/
def holders (σ : State P) (a : Nat) : Nat := σ.handles.count (some a)

/-! ### the same operations on values (what `Determinate` is meant to implement) -/

/-- abstraction: the pool of values seen through the handles -/
def abs (σ : State P) : Spec.Pool (Option P) := fun h => value σ h

/-- The value-level meaning of an operation, as a `Spec.Step` over `Option P` (`none` = no object).
`n` is the number of slots of the pool. -/
def toSpec (n : Nat) : Op P → Spec.Step (Option P)
  | .construct h p => ⟨[h], [(h, fun a => match a[0]? with
                      | some none => if h < n then some (some p) else none
                      | _ => none)]⟩
  | .copyCtor h y =>
    ⟨[h, y], [(h, fun a => match a[0]?, a[1]? with
                      | some none, some (some v) => if h < n then some (some v) else none
                      | _, _ => none)]⟩
  | .assign h y =>
    ⟨[h, y], [(h, fun a => match a[0]?, a[1]? with
                      | some (some _), some (some v) => some (some v)
                      | _, _ => none)]⟩
  | .destroy h => ⟨[h], [(h, fun _ => some none)]⟩
  | .swap h y =>
    ⟨[h, y], [(h, fun a => match a[0]?, a[1]? with
                      | some (some _), some (some v) => some (some v)
                      | _, _ => none),
              (y, fun a => match a[0]?, a[1]? with
                      | some (some u), some (some _) => some (some u)
                      | _, _ => none)]⟩
  | .mutate h f => ⟨[h], [(h, fun a => match a[0]? with
                      | some (some v) => some (some (f v))
                      | _ => none)]⟩
  | .binop h y g =>
    ⟨[h, y], [(h, fun a => match a[0]?, a[1]? with
                      | some (some u), some (some v) => some (some (g u v))
                      | _, _ => none)]⟩

/-! ### faulty variants (what the proofs exclude; used for non-vacuity and by the mutation notes) -/

/-- `operator=` with the decrement first: `if (prep->del_reference()) delete prep; y.prep->new_reference();` -/
def assignDelFirst (σ : State P) (h y : Nat) : State P :=
  match σ.prep h, σ.prep y with
  | some ah, some ay =>
    let σ₁ := release σ ah
    let σ₂ := newRef σ₁ ay
    σ₂.setPrep h (some ay)
  | _, _ => σ

/-- `operator=` that forgets `y.prep->new_reference()` -/
def assignNoNewRef (σ : State P) (h y : Nat) : State P :=
  match σ.prep h, σ.prep y with
  | some ah, some ay => (release σ ah).setPrep h (some ay)
  | _, _ => σ

/-- `mutate()` that never clones -/
def mutateNoClone (σ : State P) (h : Nat) (f : P → P) : State P :=
  match σ.prep h with
  | some a => writePset σ a f
  | none => σ

end Cow
end PPLV.Value
