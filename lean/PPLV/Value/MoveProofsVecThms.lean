import PPLV.Value.MoveProofsVec

/-!
# C13 stage 2 — `Swapping_Vector`: the final theorems (namespace `C13`)

No Mathlib.
-/
namespace PPLV.Value.Move
open OwnsKit

namespace OwnsKit

/-! ## `erase(first, last)` -/

theorem swapIn_self (i : Nat) (a : List Row) : swapIn i i a = a := by
  unfold swapIn
  cases hi : a[i]? with
  | none => rfl
  | some x =>
    simp only
    obtain ⟨hl, hx⟩ := List.getElem?_eq_some_iff.1 hi
    subst hx
    simp

theorem swapIn_length (i j : Nat) (a : List Row) : (swapIn i j a).length = a.length := by
  unfold swapIn
  split <;> simp

/-- one step of the erase loop: the block of erased rows is rotated past the next tail element -/
theorem swapIn_rotate (P bs rest : List Row) (b x : Row) :
    swapIn P.length (P.length + (b :: bs).length) (P ++ (b :: bs) ++ x :: rest)
      = (P ++ [x]) ++ (bs ++ [b]) ++ rest := by
  have e1 : (P ++ (b :: bs) ++ x :: rest)[P.length]? = some b := by simp
  have e2 : (P ++ (b :: bs) ++ x :: rest)[P.length + (b :: bs).length]? = some x := by
    rw [List.append_assoc, List.getElem?_append_right (by omega)]
    simp
  unfold swapIn
  rw [e1, e2]
  simp only
  have s1 : (P ++ (b :: bs) ++ x :: rest).set P.length x = P ++ (x :: bs) ++ x :: rest := by simp
  rw [s1]
  have s2 : (P ++ (x :: bs) ++ x :: rest).set (P.length + (b :: bs).length) b = P ++ (x :: bs) ++ b :: rest := by
    have hl : (P ++ (x :: bs)).length = P.length + (b :: bs).length := by simp
    rw [← hl, List.set_append_right _ _ (Nat.le_refl _)]
    simp
  rw [s2]
  simp

theorem eraseLoop_spec (k : Nat) : ∀ (n : Nat) (P block tail : List Row), block.length = k → tail.length = n →
    ∃ block', block'.Perm block ∧ eraseLoop k n P.length (P ++ block ++ tail) = P ++ tail ++ block'
  | 0, P, block, tail, _, ht => by
    have : tail = [] := List.eq_nil_of_length_eq_zero ht
    subst this
    exact ⟨block, List.Perm.refl _, by simp [eraseLoop]⟩
  | n + 1, P, block, tail, hb, ht => by
    match tail, ht with
    | x :: tail', ht =>
      have ht' : tail'.length = n := by simpa using ht
      show ∃ block' : List Row, block'.Perm block ∧
        eraseLoop k n (P.length + 1) (swapIn P.length (P.length + k) (P ++ block ++ x :: tail')) = _
      cases block with
      | nil =>
        have hk : k = 0 := by simpa using hb.symm
        subst hk
        show ∃ block' : List Row, block'.Perm [] ∧
          eraseLoop 0 n (P.length + 1) (swapIn P.length P.length (P ++ [] ++ x :: tail')) = _
        rw [swapIn_self]
        obtain ⟨b', hp, he⟩ := eraseLoop_spec 0 n (P ++ [x]) [] tail' rfl ht'
        refine ⟨b', hp, ?_⟩
        have hl : (P ++ [x]).length = P.length + 1 := by simp
        rw [hl] at he
        simpa using he
      | cons b bs =>
        subst hb
        rw [swapIn_rotate]
        obtain ⟨b', hp, he⟩ := eraseLoop_spec (b :: bs).length n (P ++ [x]) (bs ++ [b]) tail' (by simp) ht'
        refine ⟨b', hp.trans (by simp), ?_⟩
        have hl : (P ++ [x]).length = P.length + 1 := by simp
        rw [hl] at he
        rw [he]
        simp

theorem eraseRange_unfold (h : Heap) (v : SVec) (first last : Nat) :
    v.eraseRange h first last
      = (destroyRows h ((eraseLoop (last - first) (v.size - last) first v.impl).drop (v.size - (last - first))),
          ⟨(eraseLoop (last - first) (v.size - last) first v.impl).take (v.size - (last - first)), v.cap⟩) := rfl

/-! ## `erase(iterator)` -/

theorem eraseOneLoopBeforeFix_none : ∀ (fuel i : Nat) (a : List Row), i ≠ a.length → eraseOneLoopBeforeFix fuel i a = none
  | 0, _, _, _ => rfl
  | fuel + 1, i, a, hne => by
    unfold eraseOneLoopBeforeFix
    have : (i != a.length) = true := by simpa using hne
    rw [if_pos this]
    exact eraseOneLoopBeforeFix_none fuel i _ (by rw [swapIn_length]; exact hne)

theorem eraseOneLoopBeforeFix_last (fuel : Nat) (a : List Row) : eraseOneLoopBeforeFix (fuel + 1) a.length a = some a := by
  unfold eraseOneLoopBeforeFix
  simp

end OwnsKit
end PPLV.Value.Move

namespace C13Proofs
open PPLV.Value PPLV.Value.Move PPLV.Value.Move.OwnsKit

/-! ### Swapping_Vector -/

/-- reallocation-by-swap keeps the elements — the same row objects with the same storage, in the same
order, none duplicated, none dropped — and the new tail is default rows -/
theorem swapping_vector_resize_preserves (K : RowClass) (h : Heap) (v : SVec) (n : Nat) (frame : List Nat)
    (hO : Owns h (owned v.impl ++ frame)) (hn : v.size ≤ n) :
    let out := v.resize K h n
    out.2.impl.take v.size = v.impl ∧ out.2.size = n
    ∧ (∀ r ∈ out.2.impl.drop v.size, r.val out.1 = dfltV K)
    ∧ Owns out.1 (owned out.2.impl ++ frame)
    ∧ (∀ a ∈ owned v.impl ++ frame, out.1.cells a = h.cells a) :=
  resize_grow_refines K h v n frame hO hn

theorem swapping_vector_reserve_preserves (K : RowClass) (h : Heap) (v : SVec) (c : Nat) (frame : List Nat)
    (hO : Owns h (owned v.impl ++ frame)) :
    (v.reserve K h c).2.impl = v.impl ∧ Owns (v.reserve K h c).1 (owned v.impl ++ frame)
    ∧ (∀ a ∈ owned v.impl ++ frame, (v.reserve K h c).1.cells a = h.cells a) :=
  reserve_refines K h v c frame hO

theorem swapping_vector_shrink (K : RowClass) (h : Heap) (v : SVec) (n : Nat) (frame : List Nat)
    (hO : Owns h (owned v.impl ++ frame)) (hn : n ≤ v.size) :
    (v.resize K h n).2.impl = v.impl.take n ∧ Owns (v.resize K h n).1 (owned (v.impl.take n) ++ frame) :=
  ⟨(resize_shrink_refines K h v n frame hO hn).1, (resize_shrink_refines K h v n frame hO hn).2.1⟩

theorem swapping_vector_erase_range (h : Heap) (v : SVec) (first last : Nat) (frame : List Nat)
    (hO : Owns h (owned v.impl ++ frame)) (h1 : first ≤ last) (h2 : last ≤ v.size) :
    (v.eraseRange h first last).2.impl = v.impl.take first ++ v.impl.drop last
    ∧ Owns (v.eraseRange h first last).1 (owned (v.impl.take first ++ v.impl.drop last) ++ frame) := by
  have hsz : v.size = v.impl.length := rfl
  have hsplit : v.impl = v.impl.take first ++ (v.impl.drop first).take (last - first) ++ v.impl.drop last := by
    have e1 : v.impl.drop last = (v.impl.drop first).drop (last - first) := by
      rw [List.drop_drop]; congr 1; omega
    rw [e1, List.append_assoc, List.take_append_drop, List.take_append_drop]
  have hP : (v.impl.take first).length = first := by
    rw [List.length_take]; omega
  have hB : ((v.impl.drop first).take (last - first)).length = last - first := by
    rw [List.length_take, List.length_drop]; omega
  have hT : (v.impl.drop last).length = v.size - last := by
    rw [List.length_drop, hsz]
  obtain ⟨b', hp, he⟩ := eraseLoop_spec (last - first) (v.size - last) (v.impl.take first)
    ((v.impl.drop first).take (last - first)) (v.impl.drop last) hB hT
  rw [hP, ← hsplit] at he
  rw [eraseRange_unfold, he]
  have hlen : v.size - (last - first) = (v.impl.take first ++ v.impl.drop last).length := by
    rw [List.length_append, hP, hT]; omega
  rw [hlen, List.drop_left, List.take_left]
  refine ⟨rfl, ?_⟩
  have hO' : Owns h (owned b' ++ (owned (v.impl.take first ++ v.impl.drop last) ++ frame)) := by
    refine owns_perm hO ?_
    have q1 : (owned v.impl ++ frame).Perm
        (owned ((v.impl.drop first).take (last - first)) ++ (owned (v.impl.take first ++ v.impl.drop last) ++ frame)) := by
      conv => lhs; rw [hsplit]
      owns_perm_tac
    exact q1.trans (List.Perm.append_right _ (hp.symm.map _))
  exact (destroyRows_refines h b' _ hO').1

/-- `erase(iterator)` as written never terminates unless the element is the last one -/
theorem swapping_vector_erase_one_before_fix_diverges (fuel : Nat) (h : Heap) (v : SVec) (i : Nat) (hi : i + 1 < v.size) :
    v.eraseOneBeforeFix fuel h i = none := by
  have hne : i + 1 ≠ v.impl.length := Nat.ne_of_lt hi
  unfold SVec.eraseOneBeforeFix
  rw [eraseOneLoopBeforeFix_none fuel (i + 1) v.impl hne]

theorem swapping_vector_erase_one_before_fix_last (fuel : Nat) (h : Heap) (v : SVec) (i : Nat) (hi : i + 1 = v.size) :
    (v.eraseOneBeforeFix (fuel + 1) h i).map (fun o => o.2.impl) = some v.impl.dropLast := by
  have hi' : i + 1 = v.impl.length := hi
  unfold SVec.eraseOneBeforeFix
  rw [hi', eraseOneLoopBeforeFix_last]
  simp [List.dropLast_eq_take]

end C13Proofs
