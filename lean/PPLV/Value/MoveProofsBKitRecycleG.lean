import PPLV.Value.MoveProofsBKitRecycleC

/-!
# C13 moving mechanics — agent B toolkit (part 4): refinement of `Poly.addRecycledGenerators`
-/
set_option linter.unusedSimpArgs false
set_option linter.unusedVariables false
namespace PPLV.Value.Move.PolyKit
open PPLV.Value.Move

theorem mSwap_eq (x y : LinSys) : LinSys.mSwap x y = (y, x) := by
  cases x; cases y; rfl

/-- an owned list with one address singled out: that address occurs nowhere else -/
theorem Owns.notin_of_perm {h : Heap} {l l' : List Nat} {a : Nat} (hO : Owns h l) (hp : l.Perm (a :: l')) :
    a ∉ l' := by
  have := (hp.nodup_iff.mp hO.2.1)
  exact (List.nodup_cons.mp this).1

/-! ## `Row::set_topology` -/

theorem Row.setTopology_refines {h : Heap} {as : List Nat} (hO : Owns h as) (r : Row) (ha : r.impl ∈ as)
    (nnc : Bool) :
    Owns (r.setTopology h nnc).1 as ∧ (r.setTopology h nnc).2.impl = r.impl
    ∧ (r.setTopology h nnc).2.val (r.setTopology h nnc).1 = setTopologyV nnc (r.val h)
    ∧ (∀ b, b ≠ r.impl → (r.setTopology h nnc).1.cells b = h.cells b) := by
  obtain ⟨c, hc⟩ := Owns.read_some hO ha
  unfold Row.setTopology
  by_cases h1 : (r.nnc == nnc) = true
  · simp only [h1, if_true]
    refine ⟨hO, trivial, ?_, fun _ _ => trivial⟩
    simp [setTopologyV, Row.val, h1]
  · by_cases h2 : (!r.nnc) = true
    · simp only [h1, h2, if_true, if_false, Bool.false_eq_true]
      obtain ⟨m1, m2, m3⟩ := Owns.modify hO ha (fun c => resizeCoeffs c (c.length + 1))
      refine ⟨m1, trivial, ?_, m2⟩
      simp [setTopologyV, Row.val, Heap.read, m3, hc, h1, h2]
    · simp only [h1, h2, if_true, if_false, Bool.false_eq_true]
      obtain ⟨m1, m2, m3⟩ := Owns.modify hO ha (fun c => resizeCoeffs c (c.length - 1))
      refine ⟨m1, trivial, ?_, m2⟩
      simp [setTopologyV, Row.val, Heap.read, m3, hc, h1, h2]

/-! ## `has_points` -/

def hasPointsV (rows : List RowV) : Bool := rows.any (fun v => v.tag != 0 && v.coeffs.headD 0 != 0)

theorem hasPoints_eq (h : Heap) (rows : List Row) : hasPoints h rows = hasPointsV (rowValues h rows) := by
  simp only [hasPoints, hasPointsV, rowValues, List.any_map]
  congr 1; funext r
  simp only [Function.comp, Row.val]
  cases h.read r.impl <;> simp

/-! ## `set_zero_dim_univ` -/

def setZeroDimUnivV (p : PolyV) : PolyV := ⟨clearV p.conSys, clearV p.genSys, p.satC, p.satG, 0, 0⟩

theorem value_of_owned_nil {s : LinSys} (ho : s.owned = []) (h h' : Heap) : s.value h' = s.value h :=
  CopyKit.value_congr' h h' s (by rw [ho]; intro a ha; cases ha)

theorem Poly.setZeroDimUniv_refines (h : Heap) (p : Poly) (F : List Nat) (hO : Owns h (p.owned ++ F)) :
    Owns (p.setZeroDimUniv h).1 F ∧ (p.setZeroDimUniv h).2.owned = []
    ∧ (p.setZeroDimUniv h).2.value (p.setZeroDimUniv h).1 = setZeroDimUnivV (p.value h)
    ∧ FrameEq h (p.setZeroDimUniv h).1 F := by
  have e : p.setZeroDimUniv h =
      ((LinSys.clear (LinSys.clear h p.conSys).1 p.genSys).1,
       { p with status := 0, spaceDim := 0, conSys := (LinSys.clear h p.conSys).2,
                genSys := (LinSys.clear (LinSys.clear h p.conSys).1 p.genSys).2 }) := rfl
  rw [e]
  have hO1 : Owns h (p.conSys.owned ++ (p.genSys.owned ++ F)) := by
    simpa [Poly.owned, List.append_assoc] using hO
  have A := LinSys.clear_refines h p.conSys _ hO1
  generalize LinSys.clear h p.conSys = k at A ⊢
  obtain ⟨a1, a2, a3, a4⟩ := A
  have B := LinSys.clear_refines k.1 p.genSys F a1
  generalize LinSys.clear k.1 p.genSys = k' at B ⊢
  obtain ⟨b1, b2, b3, b4⟩ := B
  refine ⟨b1, by simp [Poly.owned, a3, b3], ?_, FrameEq.trans (FrameEq.right a4) b4⟩
  have hg : p.genSys.value k.1 = p.genSys.value h := LinSys.value_frame _ a4 (fun a ha => by simp [ha])
  simp only [Poly.value, setZeroDimUnivV, b2, hg, value_of_owned_nil a3 k.1 k'.1, a2]

/-! ## the row loops of `add_recycled_generators` -/

def stealGenStepV (pending : Bool) (x : LinSysV) (r : RowV) : LinSysV :=
  if pending then insertPendingNoOkV x (setTopologyV x.nnc r)
  else insertNoOkV generatorClass x (setTopologyV x.nnc r)

def stealGenV (pending : Bool) (x : LinSysV) (rows : List RowV) : LinSysV := rows.foldl (stealGenStepV pending) x

theorem stealGen_step (pending : Bool) (k i : Nat) (h : Heap) (x : LinSys) (yrows : List Row) (r : Row)
    (hr : yrows[i]? = some r) :
    stealGenRowsLoop pending (k + 1) i h x yrows =
      stealGenRowsLoop pending k (i + 1)
        (if pending then x.insertPendingRow generatorClass (r.setTopology h x.nnc).1 (r.setTopology h x.nnc).2
          else x.insertRow generatorClass (r.setTopology h x.nnc).1 (r.setTopology h x.nnc).2).1
        (if pending then x.insertPendingRow generatorClass (r.setTopology h x.nnc).1 (r.setTopology h x.nnc).2
          else x.insertRow generatorClass (r.setTopology h x.nnc).1 (r.setTopology h x.nnc).2).2.1
        (yrows.set i
          (if pending then x.insertPendingRow generatorClass (r.setTopology h x.nnc).1 (r.setTopology h x.nnc).2
            else x.insertRow generatorClass (r.setTopology h x.nnc).1 (r.setTopology h x.nnc).2).2.2) := by
  rw [stealGenRowsLoop]
  simp only [hr]

/-- one step on the heap is one step on values -/
theorem stealGen_one (pending : Bool) (h : Heap) (x : LinSys) (r : Row) (G : List Nat)
    (hO : Owns h (x.owned ++ r.impl :: G)) :
    let I := (if pending then x.insertPendingRow generatorClass (r.setTopology h x.nnc).1 (r.setTopology h x.nnc).2
          else x.insertRow generatorClass (r.setTopology h x.nnc).1 (r.setTopology h x.nnc).2)
    Owns I.1 (I.2.1.owned ++ I.2.2.impl :: G)
    ∧ I.2.1.value I.1 = stealGenStepV pending (x.value h) (r.val h)
    ∧ FrameEq h I.1 G := by
  have hmem : r.impl ∈ x.owned ++ r.impl :: G := by simp
  obtain ⟨t1, t2, t3, t4⟩ := Row.setTopology_refines hO r hmem x.nnc
  have hnot : r.impl ∉ x.owned ++ G := Owns.notin_of_perm hO (by permB)
  have hT : FrameEq h (r.setTopology h x.nnc).1 (x.owned ++ G) := by
    intro a ha
    exact t4 a (fun e => hnot (e ▸ ha))
  have hxv : x.value (r.setTopology h x.nnc).1 = x.value h := LinSys.value_frame _ hT (fun a ha => by simp [ha])
  generalize r.setTopology h x.nnc = T at *
  have hO' : Owns T.1 (x.owned ++ T.2.impl :: G) := by rw [t2]; exact t1
  cases pending
  · have B := insertNoOk_refines generatorClass T.1 x T.2 G hO'
    dsimp only at B
    obtain ⟨b1, b2, _, b4⟩ := B
    refine ⟨b1, ?_, FrameEq.trans (FrameEq.right hT) b4⟩
    simp only [Bool.false_eq_true, if_false, stealGenStepV]
    rw [show x.insertRow generatorClass T.1 T.2 = x.insertNoOk generatorClass T.1 T.2 from rfl, b2, hxv, t3]
    rfl
  · have B := insertPendingNoOk_refines generatorClass T.1 x T.2 G hO'
    dsimp only at B
    obtain ⟨b1, b2, _, b4⟩ := B
    refine ⟨b1, ?_, FrameEq.trans (FrameEq.right hT) b4⟩
    simp only [if_true, stealGenStepV]
    rw [show x.insertPendingRow generatorClass T.1 T.2 = x.insertPendingNoOk generatorClass T.1 T.2 from rfl,
      b2, hxv, t3]
    rfl

theorem stealGen_loop (pending : Bool) : ∀ (rest done : List Row) (h : Heap) (x : LinSys) (F : List Nat),
    Owns h (x.owned ++ (Move.owned done ++ Move.owned rest) ++ F) →
    Owns (stealGenRowsLoop pending rest.length done.length h x (done ++ rest)).1
      ((stealGenRowsLoop pending rest.length done.length h x (done ++ rest)).2.1.owned
        ++ Move.owned (stealGenRowsLoop pending rest.length done.length h x (done ++ rest)).2.2 ++ F)
    ∧ (stealGenRowsLoop pending rest.length done.length h x (done ++ rest)).2.1.value
        (stealGenRowsLoop pending rest.length done.length h x (done ++ rest)).1
        = stealGenV pending (x.value h) (rowValues h rest)
    ∧ FrameEq h (stealGenRowsLoop pending rest.length done.length h x (done ++ rest)).1 F := by
  intro rest
  induction rest with
  | nil =>
    intro done h x F hO
    simp only [List.length_nil, stealGenRowsLoop, List.append_nil]
    refine ⟨by simpa using hO, rfl, FrameEq.refl _ _⟩
  | cons r rest ih =>
    intro done h x F hO
    have hr : (done ++ r :: rest)[done.length]? = some r := by simp
    rw [List.length_cons, stealGen_step pending _ _ h x _ r hr]
    have hO1 : Owns h (x.owned ++ r.impl :: (Move.owned done ++ Move.owned rest ++ F)) :=
      Owns.perm (by simp only [owned_cons]; permB) hO
    have S := stealGen_one pending h x r _ hO1
    dsimp only at S
    generalize (if pending then x.insertPendingRow generatorClass (r.setTopology h x.nnc).1 (r.setTopology h x.nnc).2
          else x.insertRow generatorClass (r.setTopology h x.nnc).1 (r.setTopology h x.nnc).2) = I at S ⊢
    obtain ⟨s1, s2, s3⟩ := S
    have hset : (done ++ r :: rest).set done.length I.2.2 = (done ++ [I.2.2]) ++ rest := by simp
    have hlen : done.length + 1 = (done ++ [I.2.2]).length := by simp
    rw [hset, hlen]
    have hO2 : Owns I.1 (I.2.1.owned ++ (Move.owned (done ++ [I.2.2]) ++ Move.owned rest) ++ F) :=
      Owns.perm (by simp only [owned_append, owned_cons, owned_nil]; permB) s1
    obtain ⟨i1, i2, i3⟩ := ih (done ++ [I.2.2]) I.1 I.2.1 F hO2
    refine ⟨i1, ?_, FrameEq.trans (FrameEq.right s3) i3⟩
    rw [i2, s2]
    have hrv : rowValues I.1 rest = rowValues h rest :=
      rowValues_frame rest s3 (fun a ha => by simp [ha])
    rw [hrv]
    simp [stealGenV, rowValues]

end PPLV.Value.Move.PolyKit
