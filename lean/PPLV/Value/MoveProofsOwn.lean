import PPLV.Value.MoveSpec

/-!
# C13 stage 2 — the `Owns` toolkit

Basic facts about the ownership invariant `Owns h as`, frames, and the dependence of values on
the cells they own.  Everything is public in `PPLV.Value.Move.OwnsKit` (and `LinSys.value_congr`
at its interface name).

No Mathlib.
-/
namespace PPLV.Value.Move
namespace OwnsKit

/-! ## heap micro-steps -/

@[simp] theorem alloc_next (h : Heap) (c : List Int) : (h.alloc c).1.next = h.next + 1 := rfl
@[simp] theorem alloc_addr (h : Heap) (c : List Int) : (h.alloc c).2 = h.next := rfl
@[simp] theorem alloc_fault (h : Heap) (c : List Int) : (h.alloc c).1.fault = h.fault := rfl
theorem alloc_cells (h : Heap) (c : List Int) (a : Nat) :
    (h.alloc c).1.cells a = if a = h.next then some c else h.cells a := rfl

theorem free_of_some {h : Heap} {a : Nat} {c : List Int} (hc : h.cells a = some c) :
    h.free a = { h with cells := fun x => if x = a then none else h.cells x } := by
  simp [Heap.free, hc]

theorem modify_of_some {h : Heap} {a : Nat} {c : List Int} (f : List Int → List Int) (hc : h.cells a = some c) :
    h.modify a f = { h with cells := fun x => if x = a then some (f c) else h.cells x } := by
  simp [Heap.modify, hc]

/-! ## `Owns` -/

theorem owns_fault_eq {h : Heap} {as : List Nat} (hO : Owns h as) : h.fault = false := hO.1
theorem owns_nodup {h : Heap} {as : List Nat} (hO : Owns h as) : as.Nodup := hO.2.1
theorem owns_isSome_iff {h : Heap} {as : List Nat} (hO : Owns h as) (a : Nat) :
    (h.cells a).isSome = true ↔ a ∈ as := hO.2.2.1 a
theorem owns_none_of_ge {h : Heap} {as : List Nat} (hO : Owns h as) {a : Nat} (ha : h.next ≤ a) :
    h.cells a = none := hO.2.2.2 a ha

/-- reading an owned cell succeeds -/
theorem owns_read_some {h : Heap} {as : List Nat} (hO : Owns h as) {a : Nat} (ha : a ∈ as) :
    ∃ c, h.cells a = some c := by
  have := ((owns_isSome_iff hO) a).2 ha
  exact Option.isSome_iff_exists.1 this

theorem owns_read_some' {h : Heap} {as : List Nat} (hO : Owns h as) {a : Nat} (ha : a ∈ as) :
    ∃ c, h.read a = some c := (owns_read_some hO) ha

theorem owns_none_of_not_mem {h : Heap} {as : List Nat} (hO : Owns h as) {a : Nat} (ha : a ∉ as) :
    h.cells a = none := by
  have := ((owns_isSome_iff hO) a)
  cases hc : h.cells a with
  | none => rfl
  | some c => exact absurd (this.1 (by simp [hc])) ha

/-- an owned address is below `next` -/
theorem owns_lt_next {h : Heap} {as : List Nat} (hO : Owns h as) {a : Nat} (ha : a ∈ as) : a < h.next := by
  apply Nat.lt_of_not_le
  intro hle
  obtain ⟨c, hc⟩ := (owns_read_some hO) ha
  rw [(owns_none_of_ge hO) hle] at hc
  cases hc

theorem owns_next_not_mem {h : Heap} {as : List Nat} (hO : Owns h as) : h.next ∉ as :=
  fun hm => Nat.lt_irrefl _ ((owns_lt_next hO) hm)

/-- `Owns` does not depend on the order of the list -/
theorem owns_perm {h : Heap} {as bs : List Nat} (hO : Owns h as) (hp : as.Perm bs) : Owns h bs :=
  ⟨hO.1, hp.nodup_iff.1 hO.2.1, fun a => (hO.2.2.1 a).trans hp.mem_iff, hO.2.2.2⟩

theorem owns_perm_iff {h : Heap} {as bs : List Nat} (hp : as.Perm bs) : Owns h as ↔ Owns h bs :=
  ⟨fun hO => (owns_perm hO) hp, fun hO => (owns_perm hO) hp.symm⟩

/-- allocation: the new address is `h.next`, it is fresh, and it joins the owned set -/
theorem owns_alloc {h : Heap} {as : List Nat} (hO : Owns h as) (c : List Int) :
    Owns (h.alloc c).1 (h.next :: as) := by
  refine ⟨hO.1, List.nodup_cons.2 ⟨(owns_next_not_mem hO), hO.2.1⟩, fun a => ?_, fun a ha => ?_⟩
  · rw [alloc_cells]
    by_cases ha : a = h.next
    · simp [ha]
    · simp [ha, (owns_isSome_iff hO)]
  · rw [alloc_cells]
    have h1 : h.next + 1 ≤ a := ha
    have hne : a ≠ h.next := by omega
    simp only [hne, if_false]
    exact (owns_none_of_ge hO) (by omega)

/-- cells other than the new one are untouched by an allocation -/
theorem alloc_cells_of_ne (h : Heap) (c : List Int) {a : Nat} (ha : a ≠ h.next) :
    (h.alloc c).1.cells a = h.cells a := by
  rw [alloc_cells]; simp [ha]

theorem alloc_cells_self (h : Heap) (c : List Int) : (h.alloc c).1.cells h.next = some c := by
  rw [alloc_cells]; simp

theorem owns_alloc_cells_of_mem {h : Heap} {as : List Nat} (hO : Owns h as) (c : List Int) {a : Nat} (ha : a ∈ as) :
    (h.alloc c).1.cells a = h.cells a :=
  alloc_cells_of_ne h c (fun e => (owns_next_not_mem hO) (e ▸ ha))

/-- freeing the head of the owned list -/
theorem owns_free_head {h : Heap} {a : Nat} {as : List Nat} (hO : Owns h (a :: as)) : Owns (h.free a) as := by
  obtain ⟨c, hc⟩ := (owns_read_some hO) (List.mem_cons_self)
  rw [free_of_some hc]
  have hnd := List.nodup_cons.1 hO.2.1
  refine ⟨hO.1, hnd.2, fun x => ?_, fun x hx => ?_⟩
  · show (if x = a then none else h.cells x).isSome = true ↔ x ∈ as
    by_cases hx : x = a
    · subst hx; simp [hnd.1]
    · simp only [hx, if_false]
      rw [(owns_isSome_iff hO)]; simp [hx]
  · show (if x = a then none else h.cells x) = none
    by_cases hxa : x = a
    · simp [hxa]
    · simp only [hxa, if_false]; exact (owns_none_of_ge hO) hx

theorem free_cells_of_ne (h : Heap) {a x : Nat} (hx : x ≠ a) : (h.free a).cells x = h.cells x := by
  unfold Heap.free
  cases h.cells a <;> simp [hx]

@[simp] theorem free_next (h : Heap) (a : Nat) : (h.free a).next = h.next := by
  unfold Heap.free; cases h.cells a <;> rfl

/-- freeing any owned address -/
theorem owns_free {h : Heap} {a : Nat} {as : List Nat} (hO : Owns h as) (ha : a ∈ as) :
    Owns (h.free a) (as.erase a) :=
  owns_free_head ((owns_perm hO) (List.perm_cons_erase ha))

/-- freeing an address in the middle of the owned list -/
theorem owns_free_mid {h : Heap} {a : Nat} {l₁ l₂ : List Nat} (hO : Owns h (l₁ ++ a :: l₂)) :
    Owns (h.free a) (l₁ ++ l₂) :=
  owns_free_head ((owns_perm hO) List.perm_middle)

/-- in-place modification of an owned cell keeps the invariant -/
theorem owns_modify {h : Heap} {a : Nat} {as : List Nat} (hO : Owns h as) (ha : a ∈ as) (f : List Int → List Int) :
    Owns (h.modify a f) as := by
  obtain ⟨c, hc⟩ := (owns_read_some hO) ha
  rw [modify_of_some f hc]
  refine ⟨hO.1, hO.2.1, fun x => ?_, fun x hx => ?_⟩
  · show (if x = a then some (f c) else h.cells x).isSome = true ↔ x ∈ as
    by_cases hx : x = a
    · subst hx; simp [ha]
    · simp only [hx, if_false]; exact (owns_isSome_iff hO) x
  · show (if x = a then some (f c) else h.cells x) = none
    have hx' : h.next ≤ x := hx
    have hne : x ≠ a := fun e => by
      have := (owns_lt_next hO) ha
      omega
    simp only [hne, if_false]; exact (owns_none_of_ge hO) hx

theorem modify_cells_of_ne (h : Heap) (f : List Int → List Int) {a x : Nat} (hx : x ≠ a) :
    (h.modify a f).cells x = h.cells x := by
  unfold Heap.modify
  cases h.cells a <;> simp [hx]

theorem modify_cells_self {h : Heap} {a : Nat} {c : List Int} (f : List Int → List Int) (hc : h.cells a = some c) :
    (h.modify a f).cells a = some (f c) := by
  rw [modify_of_some f hc]; simp

@[simp] theorem modify_next (h : Heap) (a : Nat) (f : List Int → List Int) : (h.modify a f).next = h.next := by
  unfold Heap.modify; cases h.cells a <;> rfl

/-- two different entries of an owned list are different addresses: `a ∈ l₁`, `b ∈ l₂` -/
theorem owns_ne_of_mem_append {h : Heap} {l₁ l₂ : List Nat} (hO : Owns h (l₁ ++ l₂)) {a b : Nat}
    (ha : a ∈ l₁) (hb : b ∈ l₂) : a ≠ b :=
  (List.nodup_append.1 hO.2.1).2.2 a ha b hb

theorem owns_nodup_left {h : Heap} {l₁ l₂ : List Nat} (hO : Owns h (l₁ ++ l₂)) : l₁.Nodup :=
  (List.nodup_append.1 hO.2.1).1

theorem owns_nodup_right {h : Heap} {l₁ l₂ : List Nat} (hO : Owns h (l₁ ++ l₂)) : l₂.Nodup :=
  (List.nodup_append.1 hO.2.1).2.1

/-! ## frames -/

theorem frameEq_refl (h : Heap) (frame : List Nat) : FrameEq h h frame := fun _ _ => rfl

theorem frameEq_trans {h₁ h₂ h₃ : Heap} {frame : List Nat} (h12 : FrameEq h₁ h₂ frame) (h23 : FrameEq h₂ h₃ frame) :
    FrameEq h₁ h₃ frame := fun a ha => (h23 a ha).trans (h12 a ha)

theorem frameEq_mono {h h' : Heap} {frame frame' : List Nat} (hf : FrameEq h h' frame)
    (hsub : ∀ a ∈ frame', a ∈ frame) : FrameEq h h' frame' := fun a ha => hf a (hsub a ha)

theorem frameEq_symm {h h' : Heap} {frame : List Nat} (hf : FrameEq h h' frame) : FrameEq h' h frame :=
  fun a ha => (hf a ha).symm

theorem frameEq_of_forall {h h' : Heap} {frame : List Nat} (hf : ∀ a ∈ frame, h'.cells a = h.cells a) :
    FrameEq h h' frame := hf

theorem frameEq_append_left {h h' : Heap} {l₁ l₂ : List Nat} (hf : FrameEq h h' (l₁ ++ l₂)) : FrameEq h h' l₁ :=
  frameEq_mono hf (fun _ ha => List.mem_append_left _ ha)

theorem frameEq_append_right {h h' : Heap} {l₁ l₂ : List Nat} (hf : FrameEq h h' (l₁ ++ l₂)) : FrameEq h h' l₂ :=
  frameEq_mono hf (fun _ ha => List.mem_append_right _ ha)

theorem frameEq_append {h h' : Heap} {l₁ l₂ : List Nat} (h1 : FrameEq h h' l₁) (h2 : FrameEq h h' l₂) :
    FrameEq h h' (l₁ ++ l₂) := fun a ha => (List.mem_append.1 ha).elim (h1 a) (h2 a)

theorem frameEq_free {h : Heap} {a : Nat} {frame : List Nat} (ha : a ∉ frame) : FrameEq h (h.free a) frame :=
  fun _ hx => free_cells_of_ne h (fun e => ha (e ▸ hx))

theorem frameEq_modify {h : Heap} {a : Nat} {frame : List Nat} (f : List Int → List Int) (ha : a ∉ frame) :
    FrameEq h (h.modify a f) frame :=
  fun _ hx => modify_cells_of_ne h f (fun e => ha (e ▸ hx))

theorem frameEq_alloc {h : Heap} {as frame : List Nat} (hO : Owns h as) (c : List Int)
    (hsub : ∀ a ∈ frame, a ∈ as) : FrameEq h (h.alloc c).1 frame :=
  fun x hx => (owns_alloc_cells_of_mem hO) c (hsub x hx)

/-! ## values only depend on owned cells -/

theorem row_val_congr {h h' : Heap} {r : Row} (hc : h'.cells r.impl = h.cells r.impl) : r.val h' = r.val h := by
  simp [Row.val, Heap.read, hc]

theorem rowValues_congr {h h' : Heap} {rows : List Row} (hf : FrameEq h h' (owned rows)) :
    rowValues h' rows = rowValues h rows := by
  unfold rowValues
  apply List.map_congr_left
  intro r hr
  exact row_val_congr (hf r.impl (List.mem_map_of_mem hr))

theorem mem_owned {rows : List Row} {r : Row} (hr : r ∈ rows) : r.impl ∈ owned rows :=
  List.mem_map_of_mem hr

@[simp] theorem owned_nil : owned [] = [] := rfl
@[simp] theorem owned_cons (r : Row) (rs : List Row) : owned (r :: rs) = r.impl :: owned rs := rfl
@[simp] theorem owned_append (a b : List Row) : owned (a ++ b) = owned a ++ owned b := by simp [owned]
@[simp] theorem owned_length (a : List Row) : (owned a).length = a.length := by simp [owned]
@[simp] theorem rowValues_nil (h : Heap) : rowValues h [] = [] := rfl
@[simp] theorem rowValues_cons (h : Heap) (r : Row) (rs : List Row) :
    rowValues h (r :: rs) = r.val h :: rowValues h rs := rfl
@[simp] theorem rowValues_append (h : Heap) (a b : List Row) :
    rowValues h (a ++ b) = rowValues h a ++ rowValues h b := by simp [rowValues]
@[simp] theorem rowValues_length (h : Heap) (a : List Row) : (rowValues h a).length = a.length := by simp [rowValues]

/-- the `Option`-valued and the total value agree on a live cell -/
theorem row_value_eq_some_val {h : Heap} {r : Row} {c : List Int} (hc : h.cells r.impl = some c) :
    r.value h = some (r.val h) := by
  simp [Row.value, Row.val, Heap.read, hc]

theorem owns_row_value {h : Heap} {as : List Nat} (hO : Owns h as) {r : Row} (hr : r.impl ∈ as) :
    r.value h = some (r.val h) := by
  obtain ⟨c, hc⟩ := (owns_read_some hO) hr
  exact row_value_eq_some_val hc

end OwnsKit

/-- closes goals `l₁.Perm l₂` between `++`/`::`-combinations of the same address lists (by counting) -/
macro "owns_perm_tac" : tactic =>
  `(tactic| (rw [List.perm_iff_count]; intro a;
             simp only [List.count_append, List.count_cons, List.count_nil, List.append_assoc,
               OwnsKit.owned_append, OwnsKit.owned_cons, OwnsKit.owned_nil, LinSys.owned]; omega))

/-- a value only depends on the cells it owns -/
theorem LinSys.value_congr (h h' : Heap) (s : LinSys) (hf : FrameEq h h' s.owned) : s.value h' = s.value h := by
  unfold LinSys.value
  rw [OwnsKit.rowValues_congr hf]

end PPLV.Value.Move
