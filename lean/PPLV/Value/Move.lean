/-!
# C13 stage 2 — the MOVING mechanics of the library, as a heap-with-ownership machine (part 1)

`Swapping_Vector<T>` and `Linear_System<Row>` transliterated from
`src/Swapping_Vector_inlines.hh`, `src/Linear_System_inlines.hh`, `src/Linear_System_templates.hh`.

The heap holds the storage behind `Linear_Expression::impl` (`Linear_Expression_defs.hh:659`), one
cell per `Linear_Expression_Impl` object: the coefficient vector (inhomogeneous term first).  A row
object (`Constraint`, `Generator`, `Congruence`) is the *owner* of exactly one cell: it holds the
`impl` pointer, and `swap(Row&, Row&)` (`Constraint::m_swap`, `Constraint_inlines.hh:564`) exchanges
pointers, never contents.  Default construction allocates a cell, destruction frees it; freeing a
cell twice or touching a freed cell sets `fault`.  Addresses are handed out in increasing order and
never reused (the harness runs the real code under an allocator that never reuses a block either, so
the canonical numbering of addresses is the same on both sides).

No Mathlib (linked into `pplv_c13`).
-/
namespace PPLV.Value.Move

/-! ## the heap of `Linear_Expression_Impl` objects -/

structure Heap where
  cells : Nat → Option (List Int)
  next : Nat
  fault : Bool

def Heap.empty : Heap := ⟨fun _ => none, 0, false⟩

/-- `new Linear_Expression_Impl<Dense_Row>(…)` -/
def Heap.alloc (h : Heap) (c : List Int) : Heap × Nat :=
  ({ h with cells := fun a => if a = h.next then some c else h.cells a, next := h.next + 1 }, h.next)

/-- `delete impl` -/
def Heap.free (h : Heap) (a : Nat) : Heap :=
  match h.cells a with
  | some _ => { h with cells := fun x => if x = a then none else h.cells x }
  | none => { h with fault := true }

/-- in-place update of the coefficients behind `a` (`impl->set_space_dimension(n)` …): the pointer
    does not change -/
def Heap.modify (h : Heap) (a : Nat) (f : List Int → List Int) : Heap :=
  match h.cells a with
  | some c => { h with cells := fun x => if x = a then some (f c) else h.cells x }
  | none => { h with fault := true }

def Heap.read (h : Heap) (a : Nat) : Option (List Int) := h.cells a

/-! ## row objects -/

/-- `Constraint` / `Generator`: `expr` (the `impl` pointer), `kind_`, `topology_`;
    `Congruence`: `expr`, `modulus_` (in `tag`), no topology. -/
structure Row where
  impl : Nat
  /-- `kind_`: 0 = `LINE_OR_EQUALITY`, 1 = `RAY_OR_POINT_OR_INEQUALITY`; for `Congruence`: `modulus_` -/
  tag : Int
  /-- `topology_ == NOT_NECESSARILY_CLOSED` -/
  nnc : Bool
deriving DecidableEq, Repr

/-- what a row denotes: its fields with the coefficients read through the pointer -/
structure RowV where
  coeffs : List Int
  tag : Int
  nnc : Bool
deriving DecidableEq, Repr

/-- The row class `T` of a `Swapping_Vector<T>` / `Linear_System<T>`: what `T()` builds and `compare`. -/
structure RowClass where
  /-- coefficients of a default-constructed row: `[0]` (`Constraint_inlines.hh:120`, `Congruence_inlines.hh:32`),
      `[1]` for `Generator` (`Generator_inlines.hh:113`: the origin) -/
  dfltCell : List Int
  dfltTag : Int
  /-- `int compare(const Row&, const Row&)` on the row values -/
  cmp : RowV → RowV → Int

def Row.value (h : Heap) (r : Row) : Option RowV := (h.read r.impl).map (fun c => ⟨c, r.tag, r.nnc⟩)

/-- `T()` -/
def Row.mkDefault (K : RowClass) (h : Heap) : Heap × Row :=
  let (h₁, a) := h.alloc K.dfltCell
  (h₁, ⟨a, K.dfltTag, false⟩)

/-- `~T()` -/
def Row.destroy (h : Heap) (r : Row) : Heap := h.free r.impl

/-- `T(const T&)`: `expr(c.expr)` clones the impl -/
def Row.copy (h : Heap) (r : Row) : Heap × Row :=
  match h.read r.impl with
  | some c => let (h₁, a) := h.alloc c; (h₁, { r with impl := a })
  | none => let (h₁, a) := h.alloc []; ({ h₁ with fault := true }, { r with impl := a })

/-- `n` default constructions, in index order (`std::vector::resize` / `_M_default_append`) -/
def allocDefaults (K : RowClass) : Nat → Heap → Heap × List Row
  | 0, h => (h, [])
  | n + 1, h =>
    let (h₁, r) := Row.mkDefault K h
    let (h₂, rs) := allocDefaults K n h₁
    (h₂, r :: rs)

/-- destructors of a range, first to last (`std::_Destroy`) -/
def destroyRows (h : Heap) : List Row → Heap
  | [] => h
  | r :: rs => destroyRows (Row.destroy h r) rs

/-- copy construction of a range, first to last (`std::vector(const vector&)`) -/
def copyRows : Heap → List Row → Heap × List Row
  | h, [] => (h, [])
  | h, r :: rs =>
    let (h₁, r') := Row.copy h r
    let (h₂, rs') := copyRows h₁ rs
    (h₂, r' :: rs')

/-! ## `Swapping_Vector<T>` -/

/-- `std::vector<T> impl`: the elements and `impl.capacity()` -/
structure SVec where
  impl : List Row
  cap : Nat
deriving DecidableEq, Repr

def SVec.nil : SVec := ⟨[], 0⟩
def SVec.size (v : SVec) : Nat := v.impl.length

/-- `impl.max_size()` of `std::vector<Constraint>` (24-byte elements, 64-bit `ptrdiff_t`) -/
def maxNumRows : Nat := 384307168202282325

/-- `compute_capacity` (`globals_inlines.hh:90`), speculation factor 2 -/
def computeCapacity (requested maximum : Nat) : Nat :=
  if requested < maximum / 2 then 2 * (requested + 1) else maximum

/-- `swap(a[i], b[i])` for two vectors -/
def swapAt (i : Nat) (a b : List Row) : List Row × List Row :=
  match a[i]?, b[i]? with
  | some x, some y => (a.set i y, b.set i x)
  | _, _ => (a, b)

/-- `for (i = size; i-- > 0; ) swap(new_impl[i], impl[i]);` (`Swapping_Vector_inlines.hh:72`) -/
def stealLoop : Nat → List Row → List Row → List Row × List Row
  | 0, a, b => (a, b)
  | i + 1, a, b =>
    let (a', b') := swapAt i a b
    stealLoop i a' b'

/-- `Swapping_Vector<T>::reserve` (`Swapping_Vector_inlines.hh:60`):
```
if (impl.capacity() < new_capacity) {
  std::vector<T> new_impl;
  new_impl.reserve(compute_capacity(new_capacity, max_num_rows()));
  new_impl.resize(impl.size());
  for (i = impl.size(); i-- > 0; ) swap(new_impl[i], impl[i]);
  swap(impl, new_impl);
}   // ~new_impl: the default rows that were swapped out are destroyed
``` -/
def SVec.reserve (K : RowClass) (h : Heap) (v : SVec) (newCap : Nat) : Heap × SVec :=
  if v.cap < newCap then
    let cc := computeCapacity newCap maxNumRows
    let (h₁, fresh) := allocDefaults K v.size h
    let (newImpl, oldImpl) := stealLoop v.size fresh v.impl
    (destroyRows h₁ oldImpl, ⟨newImpl, cc⟩)
  else (h, v)

/-- `impl.resize(new_size)` of the `std::vector` when no reallocation is needed (the capacity was
    reserved before; if it was not, libstdc++ would reallocate by *copying* — `cap` then grows to
    `new_size`; never reached from `Swapping_Vector`). -/
def stdResize (K : RowClass) (h : Heap) (v : SVec) (n : Nat) : Heap × SVec :=
  if n ≤ v.size then
    (destroyRows h (v.impl.drop n), ⟨v.impl.take n, v.cap⟩)
  else
    let (h₁, fresh) := allocDefaults K (n - v.size) h
    (h₁, ⟨v.impl ++ fresh, max v.cap n⟩)

/-- `Swapping_Vector<T>::resize(new_size)` (`:82`): `reserve(new_size); impl.resize(new_size);` -/
def SVec.resize (K : RowClass) (h : Heap) (v : SVec) (n : Nat) : Heap × SVec :=
  let (h₁, v₁) := v.reserve K h n
  stdResize K h₁ v₁ n

/-- `Swapping_Vector<T>::clear()` (`:53`): `impl.clear()` — the capacity stays -/
def SVec.clear (h : Heap) (v : SVec) : Heap × SVec := (destroyRows h v.impl, ⟨[], v.cap⟩)

/-- `Swapping_Vector<T>::m_swap` (`:115`): `swap(impl, v.impl)` — three pointers of the vector, no element moves -/
def SVec.mSwap (v w : SVec) : SVec × SVec := (w, v)

/-- `~Swapping_Vector` -/
def SVec.destroy (h : Heap) (v : SVec) : Heap := destroyRows h v.impl

/-- `swap(impl[i], impl[j])` inside one vector -/
def swapIn (i j : Nat) (a : List Row) : List Row :=
  match a[i]?, a[j]? with
  | some x, some y => (a.set i y).set j x
  | _, _ => a

/-- `for (i = 0; i < n; ++i, ++first) swap(*first, *(first + k));` (`Swapping_Vector_inlines.hh:218`) -/
def eraseLoop (k : Nat) : Nat → Nat → List Row → List Row
  | 0, _, a => a
  | n + 1, first, a => eraseLoop k n (first + 1) (swapIn first (first + k) a)

/-- `Swapping_Vector<T>::erase(first, last)` (`:208`): the tail is swapped down over the erased
    range, then the last `k` elements (the erased ones) are destroyed. -/
def SVec.eraseRange (h : Heap) (v : SVec) (first last : Nat) : Heap × SVec :=
  let k := last - first
  let n := v.size - last
  let a := eraseLoop k n first v.impl
  (destroyRows h (a.drop (v.size - k)), ⟨a.take (v.size - k), v.cap⟩)

/-- `Swapping_Vector<T>::erase(iterator itr)` (`:193`), the code after the repair of KF-C13-17
(commit 0369f1e: `++i;` inside the loop):
```
const dimension_type old_i = itr - begin();
dimension_type i = old_i; ++i;
while (i != size()) { swap(impl[i-1], impl[i]); ++i; }
impl.pop_back();
return begin() + old_i;
```
The loop: `k` = iterations granted; `size - (old_i + 1)` suffice (`C13.swapping_vector_erase_one`
shows the loop has reached `i = size` then, and that more fuel changes nothing). -/
def eraseOneLoop : Nat → Nat → List Row → List Row
  | 0, _, a => a
  | k + 1, i, a => if i != a.length then eraseOneLoop k (i + 1) (swapIn (i - 1) i a) else a

/-- returns the heap, the vector and the returned position `begin() + old_i` -/
def SVec.eraseOne (h : Heap) (v : SVec) (oldI : Nat) : Heap × SVec × Nat :=
  let a := eraseOneLoop (v.size - (oldI + 1)) (oldI + 1) v.impl
  (destroyRows h (a.drop (a.length - 1)), ⟨a.take (a.length - 1), v.cap⟩, oldI)

/-- The loop BEFORE the repair (`while (i != size()) { swap(impl[i-1], impl[i]); }` — `i` was never
incremented; KF-C13-17, fixed by 0369f1e).  Kept as the historical witness:
`none` = the fuel ran out (the loop did not terminate). -/
def eraseOneLoopBeforeFix : Nat → Nat → List Row → Option (List Row)
  | 0, _, _ => none
  | fuel + 1, i, a => if i != a.length then eraseOneLoopBeforeFix fuel i (swapIn (i - 1) i a) else some a

def SVec.eraseOneBeforeFix (fuel : Nat) (h : Heap) (v : SVec) (oldI : Nat) : Option (Heap × SVec) :=
  match eraseOneLoopBeforeFix fuel (oldI + 1) v.impl with
  | some a => some (destroyRows h (a.drop (a.length - 1)), ⟨a.take (a.length - 1), v.cap⟩)
  | none => none

/-! ## `Linear_System<Row>` (dense representation) -/

structure LinSys where
  rows : SVec
  /-- `space_dimension_` -/
  spaceDim : Nat
  /-- `row_topology == NOT_NECESSARILY_CLOSED` -/
  nnc : Bool
  /-- `index_first_pending` -/
  firstPending : Nat
  sorted : Bool
deriving DecidableEq, Repr

/-- `Linear_System(Topology, Representation)` (`Linear_System_inlines.hh:66`) -/
def LinSys.mk0 (nnc : Bool) : LinSys := ⟨SVec.nil, 0, nnc, 0, true⟩

def LinSys.numRows (s : LinSys) : Nat := s.rows.size
def LinSys.numPendingRows (s : LinSys) : Nat := s.numRows - s.firstPending
def LinSys.hasNoRows (s : LinSys) : Bool := s.rows.impl.isEmpty

/-- `v.resize(n)` with zero padding / truncation -/
def resizeCoeffs (c : List Int) (n : Nat) : List Int :=
  if n ≤ c.length then c.take n else c ++ List.replicate (n - c.length) 0

def swapCoeffs (c : List Int) (i j : Nat) : List Int :=
  match c[i]?, c[j]? with
  | some x, some y => (c.set i y).set j x
  | _, _ => c

/-- the coefficient update of `Constraint::set_space_dimension_no_ok` (`Constraint_inlines.hh:233`,
    same text in `Generator_inlines.hh:231`).  Cell layout: `[b, a₀ … a_{n-1}]`, for NNC rows followed
    by the epsilon coefficient.  (The `strong_normalize()` of the shrinking case, `:250`, is not
    modelled: no modelled caller shrinks a row.) -/
def setSpaceDimCoeffs (nnc : Bool) (sd : Nat) (c : List Int) : List Int :=
  if !nnc then resizeCoeffs c (sd + 1)
  else
    let old := c.length - 2
    if sd > old then swapCoeffs (resizeCoeffs c (sd + 2)) (sd + 1) (old + 1)
    else resizeCoeffs (swapCoeffs c (sd + 1) (old + 1)) (sd + 2)

/-- `r.set_space_dimension_no_ok(sd)` -/
def Row.setSpaceDimNoOk (h : Heap) (r : Row) (sd : Nat) : Heap := h.modify r.impl (setSpaceDimCoeffs r.nnc sd)

/-- `space_dimension()` of a row value -/
def RowV.spaceDim (v : RowV) : Nat := if v.nnc then v.coeffs.length - 2 else v.coeffs.length - 1

/-- `for (i = rows.size(); i-- > 0; ) rows[i].set_space_dimension_no_ok(space_dim);`
    (`Linear_System_inlines.hh:356`) -/
def setSpaceDimRows (sd : Nat) : Nat → Heap → List Row → Heap
  | 0, h, _ => h
  | i + 1, h, rows =>
    match rows[i]? with
    | some r => setSpaceDimRows sd i (r.setSpaceDimNoOk h sd) rows
    | none => setSpaceDimRows sd i { h with fault := true } rows

def LinSys.setSpaceDimNoOk (h : Heap) (s : LinSys) (sd : Nat) : Heap × LinSys :=
  (setSpaceDimRows sd s.rows.size h s.rows.impl, { s with spaceDim := sd })

/-- `swap(rows.back(), r)` -/
def swapBack (rows : List Row) (r : Row) : List Row × Row :=
  match rows.getLast? with
  | some b => (rows.dropLast ++ [r], b)
  | none => (rows, r)

/-- `Linear_System<Row>::insert_pending_no_ok(Row& r, Recycle_Input)` (`Linear_System_templates.hh:257`):
```
r.set_representation(representation());
if (space_dimension() < r.space_dimension()) set_space_dimension_no_ok(r.space_dimension());
else r.set_space_dimension_no_ok(space_dimension());
rows.resize(rows.size() + 1);
swap(rows.back(), r);
```
Returns the heap, the system and the row object `r` of the caller (now holding the default row). -/
def LinSys.insertPendingNoOk (K : RowClass) (h : Heap) (s : LinSys) (r : Row) : Heap × LinSys × Row :=
  let rsd := match r.value h with | some v => v.spaceDim | none => 0
  let (h₁, s₁) :=
    if s.spaceDim < rsd then s.setSpaceDimNoOk h rsd
    else (r.setSpaceDimNoOk h s.spaceDim, s)
  let (h₂, rows₂) := s₁.rows.resize K h₁ (s₁.rows.size + 1)
  let (rows₃, r') := swapBack rows₂.impl r
  (h₂, { s₁ with rows := ⟨rows₃, rows₂.cap⟩ }, r')

/-- `unset_pending_rows()` (`Linear_System_inlines.hh:107`) -/
def LinSys.unsetPendingRows (s : LinSys) : LinSys := { s with firstPending := s.numRows }

/-- `compare(rows[i], rows[j]) <= 0` -/
def rowsLe (K : RowClass) (h : Heap) (a b : Option Row) : Bool :=
  match a, b with
  | some x, some y =>
    match x.value h, y.value h with
    | some u, some v => decide (K.cmp u v ≤ 0)
    | _, _ => false
  | _, _ => false

/-- `Linear_System<Row>::insert_no_ok(Row& r, Recycle_Input)` (`Linear_System_templates.hh:228`) -/
def LinSys.insertNoOk (K : RowClass) (h : Heap) (s : LinSys) (r : Row) : Heap × LinSys × Row :=
  let wasSorted := s.sorted
  let (h₁, s₁, r') := s.insertPendingNoOk K h r
  let s₂ :=
    if wasSorted then
      let n := s₁.numRows
      if n > 1 then { s₁ with sorted := rowsLe K h₁ s₁.rows.impl[n - 2]? s₁.rows.impl[n - 1]? }
      else { s₁ with sorted := true }
    else s₁
  (h₁, s₂.unsetPendingRows, r')

/-- `insert(Row& r, Recycle_Input)` (`:221`) and `insert_pending(Row& r, Recycle_Input)` (`:291`) -/
def LinSys.insertRow (K : RowClass) (h : Heap) (s : LinSys) (r : Row) : Heap × LinSys × Row := s.insertNoOk K h r
def LinSys.insertPendingRow (K : RowClass) (h : Heap) (s : LinSys) (r : Row) : Heap × LinSys × Row :=
  s.insertPendingNoOk K h r

/-- `Linear_System<Row>::clear()` (`Linear_System_inlines.hh:214`): topology and representation stay,
    `space_dimension_ = 0` -/
def LinSys.clear (h : Heap) (s : LinSys) : Heap × LinSys :=
  let (h₁, rows) := s.rows.clear h
  (h₁, { s with rows := rows, firstPending := 0, sorted := true, spaceDim := 0 })

/-- `for (i = 0; i < y.num_rows(); ++i) x.insert_pending(y.rows[i], Recycle_Input());`
    (`Linear_System_templates.hh:312`); `k` = iterations left, `i` = current index. -/
def stealRowsLoop (K : RowClass) : Nat → Nat → Heap → LinSys → List Row → Heap × LinSys × List Row
  | 0, _, h, x, yrows => (h, x, yrows)
  | k + 1, i, h, x, yrows =>
    match yrows[i]? with
    | some r =>
      let (h₁, x₁, r') := x.insertPendingRow K h r
      stealRowsLoop K k (i + 1) h₁ x₁ (yrows.set i r')
    | none => ({ h with fault := true }, x, yrows)

/-- `Linear_System<Row>::insert_pending(Linear_System& y, Recycle_Input)` (`:305`): steal the rows with
    an increasing index, then `y.clear()`.  (`&y == this` would not terminate; the const overloads
    copy first.) -/
def LinSys.insertPendingSys (K : RowClass) (h : Heap) (x y : LinSys) : Heap × LinSys × LinSys :=
  let (h₁, x₁, yrows) := stealRowsLoop K y.numRows 0 h x y.rows.impl
  let (h₂, y₂) := LinSys.clear h₁ { y with rows := ⟨yrows, y.rows.cap⟩ }
  (h₂, x₁, y₂)

/-- `Linear_System<Row>::insert(Linear_System& y, Recycle_Input)` (`:330`) -/
def LinSys.insertSys (K : RowClass) (h : Heap) (x y : LinSys) : Heap × LinSys × LinSys :=
  if y.hasNoRows then (h, x, y)
  else
    let x₁ :=
      if x.sorted then
        if !y.sorted || y.numPendingRows > 0 then { x with sorted := false }
        else
          let n := x.numRows
          if n > 0 then { x with sorted := rowsLe K h x.rows.impl[n - 1]? y.rows.impl[0]? } else x
      else x
    let (h₁, x₂, y₂) := x₁.insertPendingSys K h y
    (h₁, x₂.unsetPendingRows, y₂)

/-- `Linear_System(const Linear_System& y)` (`Linear_System_inlines.hh:121`): pending rows become
    non-pending, `sorted` is dropped if there were any.  (`rows(y.rows)`: a `std::vector` copy has
    capacity = size.) -/
def LinSys.copy (h : Heap) (y : LinSys) : Heap × LinSys :=
  let (h₁, rs) := copyRows h y.rows.impl
  let s : LinSys := ⟨⟨rs, rs.length⟩, y.spaceDim, y.nnc, 0, if y.numPendingRows > 0 then false else y.sorted⟩
  (h₁, s.unsetPendingRows)

/-- `Linear_System(const Linear_System& y, With_Pending)` (`:155`) -/
def LinSys.copyWithPending (h : Heap) (y : LinSys) : Heap × LinSys :=
  let (h₁, rs) := copyRows h y.rows.impl
  (h₁, ⟨⟨rs, rs.length⟩, y.spaceDim, y.nnc, y.firstPending, y.sorted⟩)

/-- `for (i = 0; i < y.num_rows(); ++i) { Row row(y.rows[i], r); swap(rows[i], row); }`
    (`Linear_System_inlines.hh:176`): the copy is swapped in, the default row dies with `row`. -/
def copySwapLoop : Nat → Nat → Heap → List Row → List Row → Heap × List Row
  | 0, _, h, _, rows => (h, rows)
  | k + 1, i, h, yrows, rows =>
    match yrows[i]?, rows[i]? with
    | some yr, some d =>
      let (h₁, c) := Row.copy h yr
      copySwapLoop k (i + 1) (Row.destroy h₁ d) yrows (rows.set i c)
    | _, _ => ({ h with fault := true }, rows)

/-- `Linear_System(const Linear_System& y, Representation r, With_Pending)` (`:167`) -/
def LinSys.copyReprWithPending (K : RowClass) (h : Heap) (y : LinSys) : Heap × LinSys :=
  let (h₁, v) := SVec.nil.resize K h y.numRows
  let (h₂, rs) := copySwapLoop y.numRows 0 h₁ y.rows.impl v.impl
  (h₂, ⟨⟨rs, v.cap⟩, y.spaceDim, y.nnc, y.firstPending, y.sorted⟩)

/-- `~Linear_System` -/
def LinSys.destroy (h : Heap) (s : LinSys) : Heap := s.rows.destroy h

/-- `Linear_System<Row>::m_swap` (`Linear_System_inlines.hh:200`):
```
swap(rows, y.rows); swap(space_dimension_, y.space_dimension_); swap(row_topology, y.row_topology);
swap(index_first_pending, y.index_first_pending); swap(sorted, y.sorted); swap(representation_, y.representation_);
``` -/
def LinSys.mSwap (x y : LinSys) : LinSys × LinSys :=
  let (r₁, r₂) := SVec.mSwap x.rows y.rows
  (⟨r₁, y.spaceDim, y.nnc, y.firstPending, y.sorted⟩, ⟨r₂, x.spaceDim, x.nnc, x.firstPending, x.sorted⟩)

/-- The argument of a `const Linear_System&` parameter: another object, or `*this` itself. -/
inductive Arg (α : Type) where
  | self
  | other (y : α)

def Arg.get {α : Type} (x : α) : Arg α → α
  | .self => x
  | .other y => y

/-- `insert_pending(const Linear_System& y)` (`Linear_System_templates.hh:298`):
    `Linear_System tmp(y, representation(), With_Pending()); insert_pending(tmp, Recycle_Input());` then `~tmp` -/
def LinSys.insertPendingConst (K : RowClass) (h : Heap) (x : LinSys) (y : Arg LinSys) : Heap × LinSys :=
  let (h₁, tmp) := LinSys.copyReprWithPending K h (y.get x)
  let (h₂, x₁, tmp₁) := x.insertPendingSys K h₁ tmp
  (tmp₁.destroy h₂, x₁)

/-- `insert(const Linear_System& y)` (`:323`) -/
def LinSys.insertConst (K : RowClass) (h : Heap) (x : LinSys) (y : Arg LinSys) : Heap × LinSys :=
  let (h₁, tmp) := LinSys.copyReprWithPending K h (y.get x)
  let (h₂, x₁, tmp₁) := x.insertSys K h₁ tmp
  (tmp₁.destroy h₂, x₁)

/-- `assign_with_pending(const Linear_System& y)` (`Linear_System_inlines.hh:193`):
    `Linear_System tmp(y, With_Pending()); swap(*this, tmp);` then `~tmp` (the old rows of `*this`) -/
def LinSys.assignWithPending (h : Heap) (x : LinSys) (y : Arg LinSys) : Heap × LinSys :=
  let (h₁, tmp) := LinSys.copyWithPending h (y.get x)
  let (x₁, tmp₁) := LinSys.mSwap x tmp
  (tmp₁.destroy h₁, x₁)

/-- `operator=(const Linear_System& y)` (`:185`): `Linear_System tmp = y; swap(*this, tmp);` -/
def LinSys.assign (h : Heap) (x : LinSys) (y : Arg LinSys) : Heap × LinSys :=
  let (h₁, tmp) := LinSys.copy h (y.get x)
  let (x₁, tmp₁) := LinSys.mSwap x tmp
  (tmp₁.destroy h₁, x₁)

/-! ### values -/

/-- the value of a row, total (an unreadable cell reads as `[]`; excluded by the ownership invariant) -/
def Row.val (h : Heap) (r : Row) : RowV := ⟨(h.read r.impl).getD [], r.tag, r.nnc⟩

def rowValues (h : Heap) (rows : List Row) : List RowV := rows.map (Row.val h)

/-- the value of a system: its row values in order and the scalar members -/
structure LinSysV where
  rows : List RowV
  spaceDim : Nat
  nnc : Bool
  firstPending : Nat
  sorted : Bool
deriving DecidableEq, Repr

def LinSys.value (h : Heap) (s : LinSys) : LinSysV :=
  ⟨rowValues h s.rows.impl, s.spaceDim, s.nnc, s.firstPending, s.sorted⟩

/-- addresses owned by a list of rows / a system -/
def owned (rows : List Row) : List Nat := rows.map (·.impl)
def LinSys.owned (s : LinSys) : List Nat := Move.owned s.rows.impl

/-- number of live cells among the first `h.next` addresses -/
def Heap.liveCount (h : Heap) : Nat := ((List.range h.next).filter (fun a => (h.cells a).isSome)).length

/-! ### the row classes -/

def sgnI (x : Int) : Int := if x < 0 then -1 else if x > 0 then 1 else 0

/-- `Linear_Expression_Impl::compare` (`Linear_Expression_Impl_templates.hh:154`) on the homogeneous
    parts (position 1 onwards; the two rows may differ in size) -/
def cmpHomog : List Int → List Int → Int
  | [], [] => 0
  | x :: xs, [] => if sgnI x != 0 then 2 * sgnI x else cmpHomog xs []
  | [], y :: ys => if sgnI y != 0 then -2 * sgnI y else cmpHomog [] ys
  | x :: xs, y :: ys => if x < y then -2 else if x > y then 2 else cmpHomog xs ys

def cmpExpr (x y : List Int) : Int :=
  let c := cmpHomog (x.drop 1) (y.drop 1)
  if c != 0 then c
  else
    let a := x.headD 0
    let b := y.headD 0
    if a > b then 1 else if a < b then -1 else 0

/-- `compare(const Constraint&, const Constraint&)` (`Constraint.cc:196`) -/
def cmpConstraint (x y : RowV) : Int :=
  if (x.tag == 0) != (y.tag == 0) then (if y.tag == 0 then 2 else -2)
  else cmpExpr x.coeffs y.coeffs

/-- `compare(const Generator&, const Generator&)` (`Generator.cc:214`) -/
def cmpGenerator (x y : RowV) : Int :=
  if (x.tag == 0) != (y.tag == 0) then (if y.tag == 0 then 2 else -2)
  else if !x.nnc && !y.nnc then cmpExpr x.coeffs y.coeffs
  else
    let hide (v : RowV) : List Int := if v.nnc then v.coeffs.dropLast else v.coeffs
    let eps (v : RowV) : Int := if v.nnc then v.coeffs.getLastD 0 else 0
    let c := cmpExpr (hide x) (hide y)
    if c != 0 then c
    else if x.tag == 0 then 0
    else
      let xray := x.coeffs.headD 0 == 0
      let yray := y.coeffs.headD 0 == 0
      if xray then (if yray then 0 else -1)
      else if yray then 1
      else
        let a := x.coeffs.headD 0
        let b := y.coeffs.headD 0
        if a > b then 1 else if a < b then -1
        else (if eps x > eps y then 1 else if eps x < eps y then -1 else 0)

def constraintClass : RowClass := ⟨[0], 1, cmpConstraint⟩
def generatorClass : RowClass := ⟨[1], 1, cmpGenerator⟩
/-- `Congruence()`: `expr(r)`, `modulus_` default-constructed (0); congruence systems are never sorted -/
def congruenceClass : RowClass := ⟨[0], 0, fun _ _ => 0⟩

end PPLV.Value.Move
