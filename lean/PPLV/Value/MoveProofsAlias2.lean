import PPLV.Value.MoveProofsAlias1

/-! C13 aliasing at the data level, part 2: add_own_constraints -/
namespace PPLV.Value.Move.AliasKit
open PPLV.Value PPLV.Value.Move

/-- permutations of appended lists by counting -/
theorem perm_of_count {as bs : List Nat} (h : ∀ a, as.count a = bs.count a) : as.Perm bs :=
  List.perm_iff_count.mpr h

end PPLV.Value.Move.AliasKit

namespace C13Proofs
open PPLV.Value PPLV.Value.Move

theorem alias_invariance_add_own_constraints (h : Heap) (x : Poly) (frame : List Nat)
    (hO : Owns h (x.owned ++ frame)) :
    let a := x.addConstraints h x.conSys
    let c := LinSys.copy h x.conSys
    let b := x.addRecycledConstraints c.1 c.2
    a.2.1.value a.1 = b.2.1.value b.1 ∧ a.2.2 = b.2.2.2 := by
  intro a c b
  have ha1 : a.1 = b.2.2.1.destroy b.1 := rfl
  have ha2 : a.2.1 = b.2.1 := rfl
  have ha3 : a.2.2 = b.2.2.2 := rfl
  refine ⟨?_, ha3⟩
  have hO1 : Owns h (x.conSys.owned ++ (x.genSys.owned ++ frame)) := by
    rw [← List.append_assoc]; exact hO
  have hcO : Owns c.1 (c.2.owned ++ x.conSys.owned ++ (x.genSys.owned ++ frame)) :=
    (LinSys.copy_refines h x.conSys (x.genSys.owned ++ frame) hO1).1
  have hO2 : Owns c.1 (x.owned ++ c.2.owned ++ frame) := by
    refine PolyKit.Owns.perm ?_ hcO
    apply AliasKit.perm_of_count
    intro a
    simp only [Poly.owned, List.count_append]
    omega
  obtain ⟨hbO, _, _, _⟩ := recycled_argument_valid c.1 x c.2 frame hO2
  have hO3 : Owns b.1 (b.2.2.1.owned ++ (b.2.1.owned ++ frame)) := by
    rw [← List.append_assoc]; exact PolyKit.owns_swap12 hbO
  obtain ⟨_, hdf⟩ := LinSys.destroy_refines b.1 b.2.2.1 (b.2.1.owned ++ frame) hO3
  rw [ha1, ha2]
  exact PolyKit.Poly.value_frame b.2.1 hdf (fun a ha => List.mem_append_left _ ha)

end C13Proofs
