import PPLV.Value.MoveProofsAlias4
import PPLV.Value.MoveProofsAlias5

/-! C13 aliasing, part 11: intersection / hull including the merge path, modulo the value of
    `merge_rows_assign` on a value-equal copy -/
namespace PPLV.Value.Move.AliasKit
open PPLV.Value PPLV.Value.Move
set_option linter.unusedSimpArgs false

theorem inter_core2 (h h' : Heap) (x y : Poly) (F F' : List Nat)
    (hO : Owns h (x.owned ++ F)) (hO' : Owns h' (x.owned ++ y.owned ++ F'))
    (hfr : FrameEq h h' x.owned)
    (hst : y.status = x.status) (hsd : y.spaceDim = x.spaceDim) (hnnc : y.conSys.nnc = x.conSys.nnc)
    (hval : testAny x.status C_UP = true → y.conSys.value h' = x.conSys.value h)
    (hmv : x.canHaveSomethingPending = false → x.conSys.sorted = true → testAny x.status CS_PENDING = false →
      testAny x.status C_UP = true →
      (x.conSys.mergeRowsAssign constraintClass h' (.other y.conSys)).2.value
          (x.conSys.mergeRowsAssign constraintClass h' (.other y.conSys)).1
        = { x.conSys.value h with firstPending := x.conSys.numRows }) :
    (x.intersectionAssign h .self).2.1.value (x.intersectionAssign h .self).1
      = (x.intersectionAssign h' (.other y)).2.1.value (x.intersectionAssign h' (.other y)).1
    ∧ (x.intersectionAssign h .self).2.2 = (x.intersectionAssign h' (.other y)).2.2 := by
  have hxv : x.value h' = x.value h := PolyKit.Poly.value_congr h h' x hfr
  have hO1 : Owns h (x.conSys.owned ++ (x.genSys.owned ++ F)) := by
    rw [← List.append_assoc]; exact hO
  have hO2 : Owns h' (x.conSys.owned ++ y.conSys.owned ++ (x.genSys.owned ++ y.genSys.owned ++ F')) := by
    refine PolyKit.Owns.perm ?_ hO'
    apply perm_of_count; intro a; simp only [Poly.owned, List.count_append]; omega
  have hgv : x.genSys.value h' = x.genSys.value h :=
    PolyKit.LinSys.value_frame x.genSys hfr (fun a ha => by simp [Poly.owned, ha])
  unfold Poly.intersectionAssign
  simp only [Arg.get, Poly.markedEmpty, Poly.nnc, hst, hsd, hnnc, bne_self_eq_false, Bool.or_self,
    Bool.false_eq_true, if_false]
  by_cases hE : testAny x.status EMPTY = true
  · simp only [hE, ↓reduceIte]; exact ⟨hxv.symm, by trivial⟩
  simp only [hE, Bool.false_eq_true, ↓reduceIte]
  by_cases hZ : (x.spaceDim == 0) = true
  · simp only [hZ, ↓reduceIte]; exact ⟨hxv.symm, by trivial⟩
  simp only [hZ, Bool.false_eq_true, ↓reduceIte]
  by_cases hN : (testAny x.status GS_PENDING || !testAny x.status C_UP
          || testAny x.status GS_PENDING || !testAny x.status C_UP) = true
  · simp only [hN, ↓reduceIte]; exact ⟨hxv.symm, by trivial⟩
  simp only [hN, Bool.false_eq_true, ↓reduceIte]
  have hC : testAny x.status C_UP = true := by
    cases hc : testAny x.status C_UP <;> simp [hc] at hN ⊢
  have hyv := hval hC
  by_cases hP : x.canHaveSomethingPending = true
  · simp only [hP, ↓reduceIte]
    obtain ⟨_, va, fa⟩ := LinSys.insertPendingConst_self_refines constraintClass h x.conSys _ hO1
    obtain ⟨_, vb, fb⟩ := LinSys.insertPendingConst_other_refines constraintClass h' x.conSys y.conSys _ hO2
    have g1 := PolyKit.LinSys.value_frame x.genSys fa (fun a ha => by simp [ha])
    have g2 := PolyKit.LinSys.value_frame x.genSys fb (fun a ha => by simp [ha])
    have hcv : x.conSys.value h' = x.conSys.value h :=
      PolyKit.LinSys.value_frame x.conSys hfr (fun a ha => by simp [Poly.owned, ha])
    refine ⟨?_, by trivial⟩
    simp only [Poly.value] at *
    rw [va, vb, g1, g2, hgv, hyv, hcv]
  · simp only [hP, Bool.false_eq_true, ↓reduceIte]
    have hsrt : y.conSys.sorted = x.conSys.sorted := congrArg LinSysV.sorted hyv
    have hcv : x.conSys.value h' = x.conSys.value h :=
      PolyKit.LinSys.value_frame x.conSys hfr (fun a ha => by simp [Poly.owned, ha])
    by_cases hcond : (x.conSys.sorted && x.conSys.sorted && !testAny x.status CS_PENDING) = true
    · simp only [hsrt, hcond, ↓reduceIte]
      have hs1 : x.conSys.sorted = true := by
        cases h1 : x.conSys.sorted <;> simp [h1] at hcond ⊢
      have hs2 : testAny x.status CS_PENDING = false := by
        cases h2 : testAny x.status CS_PENDING <;> simp [h2] at hcond ⊢
      have vb := hmv (by simpa using hP) hs1 hs2 hC
      obtain ⟨_, fa, va⟩ := LinSys.mergeRowsAssign_self_owns constraintClass cmpConstraint_self' h x.conSys _ hO1
      obtain ⟨_, fb⟩ := LinSys.mergeRowsAssign_other_owns constraintClass h' x.conSys y.conSys _ hO2
      have g1 := PolyKit.LinSys.value_frame x.genSys fa (fun a ha => by simp [ha])
      have g2 := PolyKit.LinSys.value_frame x.genSys fb (fun a ha => by simp [ha])
      refine ⟨?_, by trivial⟩
      simp only [Poly.value] at *
      rw [va, vb, g1, g2, hgv]
    · simp only [hsrt, hcond, Bool.false_eq_true, ↓reduceIte]
      obtain ⟨_, va, fa⟩ := LinSys.insertConst_self_refines constraintClass h x.conSys _ hO1
      obtain ⟨_, vb, fb⟩ := LinSys.insertConst_other_refines constraintClass h' x.conSys y.conSys _ hO2
      have g1 := PolyKit.LinSys.value_frame x.genSys fa (fun a ha => by simp [ha])
      have g2 := PolyKit.LinSys.value_frame x.genSys fb (fun a ha => by simp [ha])
      refine ⟨?_, by trivial⟩
      simp only [Poly.value] at *
      rw [va, vb, g1, g2, hgv, hyv, hcv]

theorem hull_core2 (h h' : Heap) (x y : Poly) (F F' : List Nat)
    (hO : Owns h (x.owned ++ F)) (hO' : Owns h' (x.owned ++ y.owned ++ F'))
    (hfr : FrameEq h h' x.owned)
    (hst : y.status = x.status) (hsd : y.spaceDim = x.spaceDim) (hnnc : y.conSys.nnc = x.conSys.nnc)
    (hval : testAny x.status G_UP = true → y.genSys.value h' = x.genSys.value h)
    (hmv : x.canHaveSomethingPending = false → x.genSys.sorted = true → testAny x.status GS_PENDING = false →
      testAny x.status G_UP = true →
      (x.genSys.mergeRowsAssign generatorClass h' (.other y.genSys)).2.value
          (x.genSys.mergeRowsAssign generatorClass h' (.other y.genSys)).1
        = { x.genSys.value h with firstPending := x.genSys.numRows }) :
    (x.polyHullAssign h .self).2.1.value (x.polyHullAssign h .self).1
      = (x.polyHullAssign h' (.other y)).2.1.value (x.polyHullAssign h' (.other y)).1
    ∧ (x.polyHullAssign h .self).2.2 = (x.polyHullAssign h' (.other y)).2.2 := by
  have hxv : x.value h' = x.value h := PolyKit.Poly.value_congr h h' x hfr
  have hO1 : Owns h (x.genSys.owned ++ (x.conSys.owned ++ F)) := by
    refine PolyKit.Owns.perm ?_ hO
    apply perm_of_count; intro a; simp only [Poly.owned, List.count_append]; omega
  have hO2 : Owns h' (x.genSys.owned ++ y.genSys.owned ++ (x.conSys.owned ++ y.conSys.owned ++ F')) := by
    refine PolyKit.Owns.perm ?_ hO'
    apply perm_of_count; intro a; simp only [Poly.owned, List.count_append]; omega
  have hgv : x.conSys.value h' = x.conSys.value h :=
    PolyKit.LinSys.value_frame x.conSys hfr (fun a ha => by simp [Poly.owned, ha])
  unfold Poly.polyHullAssign
  simp only [Arg.get, Poly.markedEmpty, Poly.nnc, hst, hsd, hnnc, bne_self_eq_false, Bool.or_self,
    Bool.false_eq_true, if_false]
  by_cases hE : testAny x.status EMPTY = true
  · simp only [hE, ↓reduceIte]; exact ⟨hxv.symm, by trivial⟩
  simp only [hE, Bool.false_eq_true, ↓reduceIte]
  by_cases hZ : (x.spaceDim == 0) = true
  · simp only [hZ, ↓reduceIte]; exact ⟨hxv.symm, by trivial⟩
  simp only [hZ, Bool.false_eq_true, ↓reduceIte]
  by_cases hN : (testAny x.status CS_PENDING || !testAny x.status G_UP
          || testAny x.status CS_PENDING || !testAny x.status G_UP) = true
  · simp only [hN, ↓reduceIte]; exact ⟨hxv.symm, by trivial⟩
  simp only [hN, Bool.false_eq_true, ↓reduceIte]
  have hC : testAny x.status G_UP = true := by
    cases hc : testAny x.status G_UP <;> simp [hc] at hN ⊢
  have hyv := hval hC
  by_cases hP : x.canHaveSomethingPending = true
  · simp only [hP, ↓reduceIte]
    obtain ⟨_, va, fa⟩ := LinSys.insertPendingConst_self_refines generatorClass h x.genSys _ hO1
    obtain ⟨_, vb, fb⟩ := LinSys.insertPendingConst_other_refines generatorClass h' x.genSys y.genSys _ hO2
    have g1 := PolyKit.LinSys.value_frame x.conSys fa (fun a ha => by simp [ha])
    have g2 := PolyKit.LinSys.value_frame x.conSys fb (fun a ha => by simp [ha])
    have hcv : x.genSys.value h' = x.genSys.value h :=
      PolyKit.LinSys.value_frame x.genSys hfr (fun a ha => by simp [Poly.owned, ha])
    refine ⟨?_, by trivial⟩
    simp only [Poly.value] at *
    rw [va, vb, g1, g2, hgv, hyv, hcv]
  · simp only [hP, Bool.false_eq_true, ↓reduceIte]
    have hsrt : y.genSys.sorted = x.genSys.sorted := congrArg LinSysV.sorted hyv
    have hcv : x.genSys.value h' = x.genSys.value h :=
      PolyKit.LinSys.value_frame x.genSys hfr (fun a ha => by simp [Poly.owned, ha])
    by_cases hcond : (x.genSys.sorted && x.genSys.sorted && !testAny x.status GS_PENDING) = true
    · simp only [hsrt, hcond, ↓reduceIte]
      have hs1 : x.genSys.sorted = true := by
        cases h1 : x.genSys.sorted <;> simp [h1] at hcond ⊢
      have hs2 : testAny x.status GS_PENDING = false := by
        cases h2 : testAny x.status GS_PENDING <;> simp [h2] at hcond ⊢
      have vb := hmv (by simpa using hP) hs1 hs2 hC
      obtain ⟨_, fa, va⟩ := LinSys.mergeRowsAssign_self_owns generatorClass cmpGenerator_self' h x.genSys _ hO1
      obtain ⟨_, fb⟩ := LinSys.mergeRowsAssign_other_owns generatorClass h' x.genSys y.genSys _ hO2
      have g1 := PolyKit.LinSys.value_frame x.conSys fa (fun a ha => by simp [ha])
      have g2 := PolyKit.LinSys.value_frame x.conSys fb (fun a ha => by simp [ha])
      refine ⟨?_, by trivial⟩
      simp only [Poly.value] at *
      rw [va, vb, g1, g2, hgv]
    · simp only [hsrt, hcond, Bool.false_eq_true, ↓reduceIte]
      obtain ⟨_, va, fa⟩ := LinSys.insertConst_self_refines generatorClass h x.genSys _ hO1
      obtain ⟨_, vb, fb⟩ := LinSys.insertConst_other_refines generatorClass h' x.genSys y.genSys _ hO2
      have g1 := PolyKit.LinSys.value_frame x.conSys fa (fun a ha => by simp [ha])
      have g2 := PolyKit.LinSys.value_frame x.conSys fb (fun a ha => by simp [ha])
      refine ⟨?_, by trivial⟩
      simp only [Poly.value] at *
      rw [va, vb, g1, g2, hgv, hyv, hcv]

end PPLV.Value.Move.AliasKit
