import PPLV.Value.MoveProofsAlias8

/-! C13 aliasing, part 9: the row loop of `concatenate_assign` on values -/
namespace PPLV.Value.Move.AliasKit
open PPLV.Value PPLV.Value.Move
set_option linter.unusedSimpArgs false

def shiftV (shift : Nat) (r : RowV) : RowV := { r with coeffs := shiftCoeffs shift r.coeffs }

def concatStepV (pending : Bool) (shift : Nat) (x : LinSysV) (r : RowV) : LinSysV :=
  csInsertV pending x (shiftV shift r)

theorem concatLoop_refines (pending : Bool) (shift : Nat) (frame : List Nat) (rest : List Row) :
    ∀ (done : List Row) (h : Heap) (x : LinSys),
    Owns h (x.owned ++ (owned done ++ (owned rest ++ frame))) →
    Owns (concatLoop pending shift rest.length done.length h x (done ++ rest)).1
      ((concatLoop pending shift rest.length done.length h x (done ++ rest)).2.1.owned
        ++ (owned (concatLoop pending shift rest.length done.length h x (done ++ rest)).2.2 ++ frame))
    ∧ (concatLoop pending shift rest.length done.length h x (done ++ rest)).2.1.value
        (concatLoop pending shift rest.length done.length h x (done ++ rest)).1
      = (rowValues h rest).foldl (concatStepV pending shift) (x.value h)
    ∧ FrameEq h (concatLoop pending shift rest.length done.length h x (done ++ rest)).1 frame := by
  induction rest with
  | nil =>
    intro done h x hO
    simp only [List.length_nil, concatLoop, List.append_nil, rowValues, List.map_nil, List.foldl_nil]
    refine ⟨?_, by trivial, PolyKit.FrameEq.refl _ _⟩
    simpa using hO
  | cons r rest' ih =>
    intro done h x hO
    have hget : (done ++ r :: rest')[done.length]? = some r := by simp
    have hO0 : Owns h (r.impl :: (x.owned ++ (owned done ++ (owned rest' ++ frame)))) :=
      PolyKit.Owns.perm (by alias_perm_tac) hO
    have hnd : r.impl ∉ x.owned ++ (owned done ++ (owned rest' ++ frame)) := (List.nodup_cons.mp hO0.2.1).1
    obtain ⟨m1, m2, _⟩ := PolyKit.Owns.modify hO0 List.mem_cons_self (shiftCoeffs shift)
    have hrv := val_modify hO0 r List.mem_cons_self (shiftCoeffs shift)
    generalize hh0 : h.modify r.impl (shiftCoeffs shift) = h₀ at m1 m2 hrv
    have hfr0 : FrameEq h h₀ (x.owned ++ (owned done ++ (owned rest' ++ frame))) := frame_of_ne m2 hnd
    have hO1 : Owns h₀ (x.owned ++ r.impl :: (owned done ++ (owned rest' ++ frame))) :=
      PolyKit.Owns.perm (by alias_perm_tac) m1
    obtain ⟨c1, c2, c3⟩ := csInsert_refines pending h₀ x r _ hO1
    generalize hst : (if pending then csInsertPendingRow h₀ x r else csInsertRow h₀ x r) = st at c1 c2 c3
    have hstep : concatLoop pending shift (r :: rest').length done.length h x (done ++ r :: rest')
        = concatLoop pending shift rest'.length (done ++ [st.2.2]).length st.1 st.2.1 ((done ++ [st.2.2]) ++ rest') := by
      conv => lhs; rw [List.length_cons]; unfold concatLoop
      simp only [hget, hh0]
      rw [← hst]
      cases pending <;> simp
    rw [hstep]
    have hO2 : Owns st.1 (st.2.1.owned ++ (owned (done ++ [st.2.2]) ++ (owned rest' ++ frame))) :=
      PolyKit.Owns.perm (by alias_perm_tac) c1
    obtain ⟨i1, i2, i3⟩ := ih (done ++ [st.2.2]) st.1 st.2.1 hO2
    refine ⟨i1, ?_, ?_⟩
    · rw [i2, c2]
      have hxv : x.value h₀ = x.value h :=
        PolyKit.LinSys.value_frame x hfr0 (fun a ha => List.mem_append_left _ ha)
      have hr1 : rowValues st.1 rest' = rowValues h₀ rest' :=
        PolyKit.rowValues_frame rest' c3 (fun a ha => by simp [ha])
      have hr2 : rowValues h₀ rest' = rowValues h rest' :=
        PolyKit.rowValues_frame rest' hfr0 (fun a ha => by simp [ha])
      rw [hr1, hr2, hxv, hrv]
      simp only [rowValues, List.map_cons, List.foldl_cons, concatStepV, shiftV]
    · exact PolyKit.FrameEq.trans (PolyKit.FrameEq.mono hfr0 (fun a ha => by simp [ha]))
        (PolyKit.FrameEq.trans (PolyKit.FrameEq.mono c3 (fun a ha => by simp [ha])) i3)

end PPLV.Value.Move.AliasKit
