import PPLV.Lin.Parse
import PPLV.Lattice.Model

/-!
# C13 — observed values and the exact judge of "denotes the same"

The harness prints a description of every pool member; the judge decides whether two descriptions
denote the same value:

* `poly n cs` — a convex polyhedron (C / NNC polyhedra, BD shapes, octagons, boxes): K1 `equivB`
  (proved sound and complete, `PPLV.Lin.equivB_iff`);
* `grid n cgs` — a rational grid by congruences (`none`: the empty grid): K2 `consToGens` + `equivB`
  (`PPLV.Lattice.consToGens_sem`, `equivB_iff`);
* `pset n ds` — a finite set of polyhedra modulo omega-reduction (the value of a powerset element):
  empty and entailed disjuncts are dropped, what remains must match pairwise up to `equivB`;
* `prod a b` — a pair (components after the product's own reduction);
* `text toks` — a syntactic object (expression, constraint, generator, congruence, a system):
  exact equality of the token sequence.
No Mathlib (linked into `pplv_c13`).
-/
namespace PPLV.Value

inductive Value where
  | poly (n : Nat) (cs : List Lin.Con)
  | grid (n : Nat) (cgs : Option (List Lattice.Cg))
  | pset (n : Nat) (ds : List (List Lin.Con))
  | prod (a b : Value)
  | text (toks : List String)
  | unknown
deriving Inhabited

/-- equality of the point sets of two constraint systems over `n` variables -/
def polyEq (n : Nat) (cs ds : List Lin.Con) : Bool := cs == ds || Lin.equivB n cs ds

def gridGens (n : Nat) : Option (List Lattice.Cg) → Lattice.GridGens
  | none => .empty
  | some cgs => Lattice.consToGens n cgs

def gridEq (n : Nat) (a b : Option (List Lattice.Cg)) : Bool :=
  Lattice.equivB (gridGens n a) (gridGens n b)

/-- drop empty disjuncts and disjuncts entailed by another one (of two equal disjuncts the first stays) -/
def omegaReduce (n : Nat) (ds : List (List Lin.Con)) : List (List Lin.Con) :=
  let ne := (ds.filter fun d => !Lin.isEmptyB n d).zipIdx
  ne.filterMap fun (d, i) =>
    if ne.any (fun (e, j) => j != i && Lin.subsetB n d e && (!(Lin.subsetB n e d) || j < i)) then none else some d

def psetEq (n : Nat) (as bs : List (List Lin.Con)) : Bool :=
  as == bs ||
    (let a' := omegaReduce n as
     let b' := omegaReduce n bs
     a'.all (fun a => b'.any (fun b => polyEq n a b)) && b'.all (fun b => a'.any (fun a => polyEq n b a)))

/-- do two observed values denote the same? (`unknown` matches nothing) -/
def valEq : Value → Value → Bool
  | .poly n cs, .poly m ds => n == m && polyEq n cs ds
  | .grid n a, .grid m b => n == m && gridEq n a b
  | .pset n as, .pset m bs => n == m && psetEq n as bs
  | .prod a b, .prod c d => valEq a c && valEq b d
  | .text s, .text t => s == t
  | _, _ => false

/-- `a ⊆ b` for polyhedral values and grids (used for `Determinate::definitely_entails`) -/
def valSubset : Value → Value → Option Bool
  | .poly n cs, .poly m ds => some (n == m && Lin.subsetB n cs ds)
  | .grid n a, .grid m b => some (n == m && Lattice.subsetB (gridGens n a) (gridGens n b))
  | _, _ => none

/-- the value is the empty set -/
def valIsEmpty : Value → Option Bool
  | .poly n cs => some (Lin.isEmptyB n cs)
  | .grid n a => some (gridGens n a).isEmpty
  | _ => none

/-- the value is the whole space -/
def valIsUniv : Value → Option Bool
  | .poly n cs => some (Lin.equivB n cs [])
  | .grid n a => some (Lattice.equivB (gridGens n a) (Lattice.univ n))
  | _ => none

/-- size guard for the exponential fallback of K1 (dimension, rows) -/
def Value.size : Value → Nat
  | .poly n cs => n * cs.length
  | .grid n c => n * (c.map List.length).getD 0
  | .pset n ds => n * (ds.map List.length).foldl (· + ·) 0
  | .prod a b => a.size + b.size
  | .text t => t.length
  | .unknown => 0

end PPLV.Value
