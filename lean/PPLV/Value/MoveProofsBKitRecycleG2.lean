import PPLV.Value.MoveProofsBKitRecycleG

/-!
# C13 moving mechanics — agent B toolkit (part 5): `Poly.addRecycledGenerators` on values
-/
set_option linter.unusedSimpArgs false
set_option linter.unusedVariables false
namespace PPLV.Value.Move.PolyKit
open PPLV.Value.Move

/-- the part of `add_recycled_generators` after the argument has been adjusted -/
def genPost (h₁ : Heap) (x : Poly) (gs₁ : LinSys) : Heap × Poly × LinSys × Exit :=
  if x.markedEmpty then
    if !hasPoints h₁ gs₁.rows.impl then (h₁, x, gs₁, .threw)
    else
      let (g, gs₂) := LinSys.mSwap x.genSys gs₁
      let g₁ := if g.numPendingRows > 0 then { g with firstPending := g.numRows, sorted := false } else g
      (h₁, { x with genSys := g₁, status := resetF (setF x.status G_UP) EMPTY }, gs₂, .wasEmptySwapped)
  else if testAny x.status CS_PENDING || !testAny x.status G_UP then (h₁, x, gs₁, .notModelled)
  else if x.canHaveSomethingPending then
    let (h₂, g, yrows) := stealGenRowsLoop true gs₁.numRows 0 h₁ x.genSys gs₁.rows.impl
    let (h₃, gs₂) := LinSys.clear h₂ { gs₁ with rows := ⟨yrows, gs₁.rows.cap⟩ }
    (h₃, { x with genSys := g, status := setF x.status GS_PENDING }, gs₂, .movedPending)
  else
    let (h₂, g, yrows) := stealGenRowsLoop false gs₁.numRows 0 h₁ x.genSys gs₁.rows.impl
    let (h₃, gs₂) := LinSys.clear h₂ { gs₁ with rows := ⟨yrows, gs₁.rows.cap⟩ }
    (h₃, { x with genSys := g, status := resetF (clearConstraintsUpToDate x.status) G_MIN }, gs₂, .moved)

theorem addRecycledGenerators_eq (h : Heap) (x : Poly) (gs : LinSys) :
    x.addRecycledGenerators h gs =
      if x.nnc || gs.nnc then (h, x, gs, .notModelled)
      else if x.spaceDim < gs.spaceDim then (h, x, gs, .threw)
      else if gs.hasNoRows then (h, x, gs, .noRows)
      else if x.spaceDim == 0 then
        if x.markedEmpty && !hasPoints h gs.rows.impl then (h, x, gs, .threw)
        else ((x.setZeroDimUniv h).1, (x.setZeroDimUniv h).2, gs, .zeroDim)
      else genPost (adjustTopologyAndSpaceDimension h gs x.nnc x.spaceDim).1 x
            (adjustTopologyAndSpaceDimension h gs x.nnc x.spaceDim).2 := rfl

def genPostV (x : PolyV) (gs₁ : LinSysV) : PolyV × Exit :=
  if testAny x.status EMPTY then
    if !hasPointsV gs₁.rows then (x, .threw)
    else
      ({ x with genSys := (if gs₁.numPendingRows > 0 then { gs₁ with firstPending := gs₁.rows.length, sorted := false }
                           else gs₁),
                status := resetF (setF x.status G_UP) EMPTY }, .wasEmptySwapped)
  else if testAny x.status CS_PENDING || !testAny x.status G_UP then (x, .notModelled)
  else if canPendV x.status then
    ({ x with genSys := stealGenV true x.genSys gs₁.rows, status := setF x.status GS_PENDING }, .movedPending)
  else
    ({ x with genSys := stealGenV false x.genSys gs₁.rows,
              status := resetF (clearConstraintsUpToDate x.status) G_MIN }, .moved)

def addRecycledGeneratorsV (x : PolyV) (gs : LinSysV) : PolyV × Exit :=
  if x.conSys.nnc || gs.nnc then (x, .notModelled)
  else if x.spaceDim < gs.spaceDim then (x, .threw)
  else if gs.rows.isEmpty then (x, .noRows)
  else if x.spaceDim == 0 then
    if testAny x.status EMPTY && !hasPointsV gs.rows then (x, .threw) else (setZeroDimUnivV x, .zeroDim)
  else genPostV x (adjustV x.conSys.nnc x.spaceDim gs)

/-- the moving paths of `genPost` -/
theorem genPost_steal (pending : Bool) (h : Heap) (x : Poly) (gs : LinSys) (frame : List Nat)
    (hO : Owns h (x.owned ++ gs.owned ++ frame)) :
    let L := stealGenRowsLoop pending gs.numRows 0 h x.genSys gs.rows.impl
    let K := LinSys.clear L.1 { gs with rows := ⟨L.2.2, gs.rows.cap⟩ }
    Owns K.1 ((x.conSys.owned ++ L.2.1.owned) ++ K.2.owned ++ frame)
    ∧ FrameEq h K.1 frame
    ∧ x.conSys.value K.1 = x.conSys.value h
    ∧ L.2.1.value K.1 = stealGenV pending (x.genSys.value h) (gs.value h).rows := by
  have hO1 : Owns h (x.genSys.owned ++ (Move.owned [] ++ Move.owned gs.rows.impl) ++ (x.conSys.owned ++ frame)) :=
    Owns.perm (by simp only [Poly.owned, LinSys.owned, owned_nil]; permB) hO
  have A := stealGen_loop pending gs.rows.impl [] h x.genSys _ hO1
  simp only [List.length_nil, List.nil_append] at A
  dsimp only
  rw [show gs.numRows = gs.rows.impl.length from rfl]
  generalize stealGenRowsLoop pending gs.rows.impl.length 0 h x.genSys gs.rows.impl = L at A ⊢
  obtain ⟨a1, a2, a3⟩ := A
  have hO2 : Owns L.1 ((({ gs with rows := ⟨L.2.2, gs.rows.cap⟩ } : LinSys)).owned ++ (L.2.1.owned ++ (x.conSys.owned ++ frame))) :=
    Owns.perm (by simp only [LinSys.owned]; permB) a1
  have B := LinSys.clear_refines L.1 { gs with rows := ⟨L.2.2, gs.rows.cap⟩ } _ hO2
  generalize LinSys.clear L.1 { gs with rows := ⟨L.2.2, gs.rows.cap⟩ } = K at B ⊢
  obtain ⟨b1, _, b3, b4⟩ := B
  refine ⟨?_, FrameEq.trans (FrameEq.right a3) (FrameEq.right (FrameEq.right b4)), ?_, ?_⟩
  · rw [b3]; exact Owns.perm (by simp only [List.append_nil]; permB) b1
  · have e1 : x.conSys.value L.1 = x.conSys.value h := LinSys.value_frame _ a3 (fun a ha => by simp [ha])
    have e2 : x.conSys.value K.1 = x.conSys.value L.1 := LinSys.value_frame _ b4 (fun a ha => by simp [ha])
    rw [e2, e1]
  · have e2 : L.2.1.value K.1 = L.2.1.value L.1 := LinSys.value_frame _ b4 (fun a ha => by simp [ha])
    rw [e2, a2]; rfl

theorem genPost_refines (h : Heap) (x : Poly) (gs : LinSys) (frame : List Nat)
    (hO : Owns h (x.owned ++ gs.owned ++ frame)) :
    Owns (genPost h x gs).1 ((genPost h x gs).2.1.owned ++ (genPost h x gs).2.2.1.owned ++ frame)
    ∧ FrameEq h (genPost h x gs).1 frame
    ∧ ((genPost h x gs).2.1.value (genPost h x gs).1, (genPost h x gs).2.2.2) = genPostV (x.value h) (gs.value h) := by
  by_cases c1 : testAny x.status EMPTY = true
  · by_cases c2 : (!hasPoints h gs.rows.impl) = true
    · have ho : genPost h x gs = (h, x, gs, .threw) := by
        simp only [genPost, markedEmpty_eq, c1, c2, if_true]
      have hv : genPostV (x.value h) (gs.value h) = (x.value h, .threw) := by
        have c2' : (!hasPointsV (gs.value h).rows) = true := by
          rw [← c2, hasPoints_eq]; rfl
        simp only [genPostV, pv_status, c1, c2', if_true]
      rw [ho, hv]
      exact ⟨hO, FrameEq.refl _ _, rfl⟩
    · have ho : genPost h x gs =
          (h, { x with
                genSys := (if gs.numPendingRows > 0 then { gs with firstPending := gs.numRows, sorted := false } else gs),
                status := resetF (setF x.status G_UP) EMPTY }, x.genSys, .wasEmptySwapped) := by
        simp only [genPost, markedEmpty_eq, mSwap_eq, c1, c2, if_true, if_false, Bool.false_eq_true]
      have hv : genPostV (x.value h) (gs.value h) =
          (⟨x.conSys.value h,
            (if (gs.value h).numPendingRows > 0 then { gs.value h with firstPending := (gs.value h).rows.length, sorted := false }
              else gs.value h), x.satC, x.satG, resetF (setF x.status G_UP) EMPTY, x.spaceDim⟩, .wasEmptySwapped) := by
        have c2' : ¬ (!hasPointsV (gs.value h).rows) = true := by
          intro hh; apply c2; rw [hasPoints_eq]; exact hh
        simp only [genPostV, pv_status, c1, c2', if_true, if_false, Bool.false_eq_true]
        rfl
      rw [ho, hv]
      refine ⟨?_, FrameEq.refl _ _, ?_⟩
      · have : (if gs.numPendingRows > 0 then ({ gs with firstPending := gs.numRows, sorted := false } : LinSys) else gs).owned
            = gs.owned := by split <;> rfl
        simp only [Poly.owned, this]
        exact Owns.perm (by simp only [Poly.owned]; permB) hO
      · simp only [Poly.value, value_numPending, value_rows_length]
        congr 2
        split <;> rfl
  · by_cases c3 : (testAny x.status CS_PENDING || !testAny x.status G_UP) = true
    · have ho : genPost h x gs = (h, x, gs, .notModelled) := by
        simp only [genPost, markedEmpty_eq, c1, c3, if_true, if_false, Bool.false_eq_true]
      have hv : genPostV (x.value h) (gs.value h) = (x.value h, .notModelled) := by
        simp only [genPostV, pv_status, c1, c3, if_true, if_false, Bool.false_eq_true]
      rw [ho, hv]
      exact ⟨hO, FrameEq.refl _ _, rfl⟩
    · by_cases c4 : canPendV x.status = true
      · have ho : genPost h x gs =
            ((LinSys.clear (stealGenRowsLoop true gs.numRows 0 h x.genSys gs.rows.impl).1
                { gs with rows := ⟨(stealGenRowsLoop true gs.numRows 0 h x.genSys gs.rows.impl).2.2, gs.rows.cap⟩ }).1,
             { x with genSys := (stealGenRowsLoop true gs.numRows 0 h x.genSys gs.rows.impl).2.1,
                      status := setF x.status GS_PENDING },
             (LinSys.clear (stealGenRowsLoop true gs.numRows 0 h x.genSys gs.rows.impl).1
                { gs with rows := ⟨(stealGenRowsLoop true gs.numRows 0 h x.genSys gs.rows.impl).2.2, gs.rows.cap⟩ }).2,
             .movedPending) := by
          simp only [genPost, markedEmpty_eq, canPend_eq, c1, c3, c4, if_true, if_false, Bool.false_eq_true]
        have hv : genPostV (x.value h) (gs.value h) =
            (⟨x.conSys.value h, stealGenV true (x.genSys.value h) (gs.value h).rows, x.satC, x.satG,
              setF x.status GS_PENDING, x.spaceDim⟩, .movedPending) := by
          simp only [genPostV, pv_status, c1, c3, c4, if_true, if_false, Bool.false_eq_true]
          rfl
        obtain ⟨s1, s2, s3, s4⟩ := genPost_steal true h x gs frame hO
        rw [ho, hv]
        refine ⟨s1, s2, ?_⟩
        simp only [Poly.value, s3, s4]
      · have ho : genPost h x gs =
            ((LinSys.clear (stealGenRowsLoop false gs.numRows 0 h x.genSys gs.rows.impl).1
                { gs with rows := ⟨(stealGenRowsLoop false gs.numRows 0 h x.genSys gs.rows.impl).2.2, gs.rows.cap⟩ }).1,
             { x with genSys := (stealGenRowsLoop false gs.numRows 0 h x.genSys gs.rows.impl).2.1,
                      status := resetF (clearConstraintsUpToDate x.status) G_MIN },
             (LinSys.clear (stealGenRowsLoop false gs.numRows 0 h x.genSys gs.rows.impl).1
                { gs with rows := ⟨(stealGenRowsLoop false gs.numRows 0 h x.genSys gs.rows.impl).2.2, gs.rows.cap⟩ }).2,
             .moved) := by
          simp only [genPost, markedEmpty_eq, canPend_eq, c1, c3, c4, if_true, if_false, Bool.false_eq_true]
        have hv : genPostV (x.value h) (gs.value h) =
            (⟨x.conSys.value h, stealGenV false (x.genSys.value h) (gs.value h).rows, x.satC, x.satG,
              resetF (clearConstraintsUpToDate x.status) G_MIN, x.spaceDim⟩, .moved) := by
          simp only [genPostV, pv_status, c1, c3, c4, if_true, if_false, Bool.false_eq_true]
          rfl
        obtain ⟨s1, s2, s3, s4⟩ := genPost_steal false h x gs frame hO
        rw [ho, hv]
        refine ⟨s1, s2, ?_⟩
        simp only [Poly.value, s3, s4]

/-- **refinement of `add_recycled_generators`** -/
theorem addRecycledGenerators_refines (h : Heap) (x : Poly) (gs : LinSys) (frame : List Nat)
    (hO : Owns h (x.owned ++ gs.owned ++ frame)) :
    Owns (x.addRecycledGenerators h gs).1
      ((x.addRecycledGenerators h gs).2.1.owned ++ (x.addRecycledGenerators h gs).2.2.1.owned ++ frame)
    ∧ FrameEq h (x.addRecycledGenerators h gs).1 frame
    ∧ ((x.addRecycledGenerators h gs).2.1.value (x.addRecycledGenerators h gs).1, (x.addRecycledGenerators h gs).2.2.2)
        = addRecycledGeneratorsV (x.value h) (gs.value h) := by
  have hisE : (gs.value h).rows.isEmpty = gs.hasNoRows := value_rows_isEmpty h gs
  rw [addRecycledGenerators_eq]
  by_cases c1 : (x.nnc || gs.nnc) = true
  · have hv : addRecycledGeneratorsV (x.value h) (gs.value h) = (x.value h, .notModelled) := by
      simp only [addRecycledGeneratorsV, pv_nnc, lv_nnc, c1, if_true]
    rw [if_pos c1, hv]; exact ⟨hO, FrameEq.refl _ _, rfl⟩
  rw [if_neg c1]
  by_cases c2 : x.spaceDim < gs.spaceDim
  · have hv : addRecycledGeneratorsV (x.value h) (gs.value h) = (x.value h, .threw) := by
      simp only [addRecycledGeneratorsV, pv_nnc, pv_spaceDim, lv_nnc, lv_spaceDim, c1, c2, if_true, if_false, Bool.false_eq_true]
    rw [if_pos c2, hv]; exact ⟨hO, FrameEq.refl _ _, rfl⟩
  rw [if_neg c2]
  by_cases c3 : gs.hasNoRows = true
  · have hv : addRecycledGeneratorsV (x.value h) (gs.value h) = (x.value h, .noRows) := by
      simp only [addRecycledGeneratorsV, pv_nnc, pv_spaceDim, lv_nnc, lv_spaceDim, hisE, c1, c2, c3, if_true, if_false, Bool.false_eq_true]
    rw [if_pos c3, hv]; exact ⟨hO, FrameEq.refl _ _, rfl⟩
  rw [if_neg c3]
  by_cases c4 : (x.spaceDim == 0) = true
  · rw [if_pos c4]
    by_cases c5 : (x.markedEmpty && !hasPoints h gs.rows.impl) = true
    · have hv : addRecycledGeneratorsV (x.value h) (gs.value h) = (x.value h, .threw) := by
        have c5' : (testAny x.status EMPTY && !hasPointsV (gs.value h).rows) = true := by
          rw [← c5, hasPoints_eq]; rfl
        simp only [addRecycledGeneratorsV, pv_nnc, pv_spaceDim, pv_status, lv_nnc, lv_spaceDim, hisE, c1, c2, c3, c4, c5',
          if_true, if_false, Bool.false_eq_true]
      rw [if_pos c5, hv]; exact ⟨hO, FrameEq.refl _ _, rfl⟩
    · have hv : addRecycledGeneratorsV (x.value h) (gs.value h) = (setZeroDimUnivV (x.value h), .zeroDim) := by
        have c5' : ¬ (testAny x.status EMPTY && !hasPointsV (gs.value h).rows) = true := by
          intro hh; apply c5; rw [hasPoints_eq]; exact hh
        simp only [addRecycledGeneratorsV, pv_nnc, pv_spaceDim, pv_status, lv_nnc, lv_spaceDim, hisE, c1, c2, c3, c4, c5',
          if_true, if_false, Bool.false_eq_true]
      rw [if_neg c5, hv]
      have hO1 : Owns h (x.owned ++ (gs.owned ++ frame)) := by rw [← List.append_assoc]; exact hO
      obtain ⟨z1, z2, z3, z4⟩ := Poly.setZeroDimUniv_refines h x _ hO1
      refine ⟨?_, FrameEq.right z4, ?_⟩
      · dsimp only; rw [z2]; simpa using z1
      · dsimp only; rw [z3]
  · rw [if_neg c4]
    have hv : addRecycledGeneratorsV (x.value h) (gs.value h)
        = genPostV (x.value h) (adjustV x.nnc x.spaceDim (gs.value h)) := by
      simp only [addRecycledGeneratorsV, pv_nnc, pv_spaceDim, pv_status, lv_nnc, lv_spaceDim, hisE, c1, c2, c3, c4,
        if_true, if_false, Bool.false_eq_true]
    rw [hv]
    have hO1 : Owns h (gs.owned ++ (x.owned ++ frame)) := Owns.perm (by permB) hO
    have A := adjust_refines h gs x.nnc x.spaceDim _ hO1
    dsimp only at A
    generalize adjustTopologyAndSpaceDimension h gs x.nnc x.spaceDim = a at A ⊢
    obtain ⟨a1, a2, a3, a4⟩ := A
    have hO2 : Owns a.1 (x.owned ++ a.2.owned ++ frame) := Owns.perm (by permB) a1
    obtain ⟨g1, g2, g3⟩ := genPost_refines a.1 x a.2 frame hO2
    have hxv : x.value a.1 = x.value h := Poly.value_frame x a4 (fun b hb => by simp [hb])
    refine ⟨g1, FrameEq.trans (FrameEq.right a4) g2, ?_⟩
    rw [g3, hxv, a3]

/-! ## the copy constructor in front of `add_recycled_generators` -/

theorem genPostV_congr (x : PolyV) (s t : LinSysV) (hr : s.rows = t.rows) (hn : s.nnc = t.nnc)
    (hd : s.spaceDim = t.spaceDim)
    (hsw : (genPostV x s).2 = .wasEmptySwapped →
      (if s.numPendingRows > 0 then { s with firstPending := s.rows.length, sorted := false } else s)
        = (if t.numPendingRows > 0 then { t with firstPending := t.rows.length, sorted := false } else t)) :
    genPostV x s = genPostV x t := by
  unfold genPostV at hsw ⊢
  rw [hr] at hsw ⊢
  by_cases c1 : testAny x.status EMPTY = true
  · by_cases c2 : (!hasPointsV t.rows) = true
    · simp only [c1, c2, if_true]
    · simp only [c1, c2, if_true, if_false, Bool.false_eq_true] at hsw ⊢
      rw [hsw trivial]
  · simp only [c1, if_false, Bool.false_eq_true]

theorem swapped_eq_aux (s t : LinSysV) (hrows : s.rows = t.rows) (hsn : s.nnc = t.nnc)
    (hsd : s.spaceDim = t.spaceDim) (hsf : s.firstPending = t.rows.length)
    (hss : s.sorted = (if t.rows.length - t.firstPending > 0 then false else t.sorted))
    (hfp : t.firstPending ≤ t.rows.length) :
    (if s.numPendingRows > 0 then { s with firstPending := s.rows.length, sorted := false } else s)
      = (if t.numPendingRows > 0 then { t with firstPending := t.rows.length, sorted := false } else t) := by
  obtain ⟨sr, sdm, sn, sf, ss⟩ := s
  obtain ⟨tr, tdm, tn, tf, ts⟩ := t
  simp only at hrows hsn hsd hsf hss hfp
  subst hrows hsn hsd hsf hss
  simp only [LinSysV.numPendingRows]
  by_cases hp : sr.length - tf > 0
  · simp [hp]
  · have : tf = sr.length := by omega
    simp [hp, this]

theorem copyV_swapped_eq (n : Bool) (sd : Nat) (y : LinSysV) (hfp : y.firstPending ≤ y.rows.length) :
    (if (adjustV n sd (copyV y)).numPendingRows > 0 then
        { adjustV n sd (copyV y) with firstPending := (adjustV n sd (copyV y)).rows.length, sorted := false }
      else adjustV n sd (copyV y))
      = (if (adjustV n sd y).numPendingRows > 0 then
          { adjustV n sd y with firstPending := (adjustV n sd y).rows.length, sorted := false }
        else adjustV n sd y) := by
  apply swapped_eq_aux
  · exact adjustV_rows_congr n sd _ _ rfl rfl
  · simp only [adjustV_nnc]
  · simp only [adjustV_spaceDim]
  · rw [adjustV_firstPending, adjustV_rows_length]; rfl
  · rw [adjustV_sorted, adjustV_sorted, adjustV_rows_length, adjustV_firstPending]; rfl
  · rw [adjustV_firstPending, adjustV_rows_length]; exact hfp

/-- with the copy the receiver gets the same value, unless the argument is ill-formed
    (`index_first_pending > num_rows()`) and is swapped into an empty receiver -/
theorem addRecycledGeneratorsV_copyV (x : PolyV) (gs : LinSysV)
    (hfp : gs.firstPending ≤ gs.rows.length ∨ (addRecycledGeneratorsV x gs).2 ≠ .wasEmptySwapped) :
    addRecycledGeneratorsV x (copyV gs) = addRecycledGeneratorsV x gs := by
  unfold addRecycledGeneratorsV at hfp ⊢
  simp only [copyV_rows, copyV_nnc, copyV_spaceDim] at hfp ⊢
  by_cases c1 : (x.conSys.nnc || gs.nnc) = true
  · simp only [c1, if_true]
  by_cases c2 : x.spaceDim < gs.spaceDim
  · simp only [c1, c2, if_true, if_false, Bool.false_eq_true]
  by_cases c3 : gs.rows.isEmpty = true
  · simp only [c1, c2, c3, if_true, if_false, Bool.false_eq_true]
  by_cases c4 : (x.spaceDim == 0) = true
  · simp only [c1, c2, c3, c4, if_true, if_false, Bool.false_eq_true]
    rfl
  simp only [c1, c2, c3, c4, if_true, if_false, Bool.false_eq_true] at hfp ⊢
  -- symmetric use of the congruence: compare both with the common swapped system
  have key : ∀ s t : LinSysV, s.rows = t.rows → s.nnc = t.nnc → s.spaceDim = t.spaceDim →
      ((genPostV x t).2 = .wasEmptySwapped →
        (if s.numPendingRows > 0 then { s with firstPending := s.rows.length, sorted := false } else s)
          = (if t.numPendingRows > 0 then { t with firstPending := t.rows.length, sorted := false } else t)) →
      genPostV x s = genPostV x t := by
    intro s t hr hn hd hsw
    apply genPostV_congr x s t hr hn hd
    intro he
    apply hsw
    -- the exit does not depend on the flags
    unfold genPostV at he ⊢
    rw [hr] at he
    by_cases d1 : testAny x.status EMPTY = true
    · by_cases d2 : (!hasPointsV t.rows) = true
      · simp only [d1, d2, if_true] at he; cases he
      · simp only [d1, d2, if_true, if_false, Bool.false_eq_true]
    · by_cases d3 : (testAny x.status CS_PENDING || !testAny x.status G_UP) = true
      · simp only [d1, d3, if_true, if_false, Bool.false_eq_true] at he; cases he
      · by_cases d4 : canPendV x.status = true
        · simp only [d1, d3, d4, if_true, if_false, Bool.false_eq_true] at he; cases he
        · simp only [d1, d3, d4, if_true, if_false, Bool.false_eq_true] at he; cases he
  apply key (adjustV x.conSys.nnc x.spaceDim (copyV gs)) (adjustV x.conSys.nnc x.spaceDim gs)
    (adjustV_rows_congr _ _ _ _ rfl rfl) (by simp only [adjustV_nnc]) (by simp only [adjustV_spaceDim])
  intro he
  rcases hfp with hfp | hfp
  · exact copyV_swapped_eq _ _ gs hfp
  · exact absurd he hfp

end PPLV.Value.Move.PolyKit
