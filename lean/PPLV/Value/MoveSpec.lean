import PPLV.Value.MovePoly

/-!
# C13 stage 2 — ownership invariant, value-level specifications, and the pool machine

* `Owns h as`: the addresses `as` are exactly the live cells of `h`, each listed once (nothing is
  owned twice, nothing is leaked), and no micro-step faulted.
* value-level (pure) versions `…V` of the moving functions of `Move.lean` / `MovePoly.lean`: what
  the functions compute on *values*; the refinement lemmas (`MoveProofs*.lean`) say that under the
  ownership invariant the heap functions compute exactly these and keep the invariant.
* `World`: a pool of `Polyhedron` objects over one heap with assignment, swap, intersection, hull
  (aliasing allowed) and arbitrary in-place writes through one object's rows — the machine over
  whose operation sequences `assign_then_independent` is stated.

No Mathlib.
-/
namespace PPLV.Value.Move

/-- the addresses `as` are exactly the live cells (each once), cells at or beyond `next` are free, no fault -/
def Owns (h : Heap) (as : List Nat) : Prop :=
  h.fault = false ∧ as.Nodup ∧ (∀ a, (h.cells a).isSome = true ↔ a ∈ as) ∧ (∀ a, h.next ≤ a → h.cells a = none)

/-- executable version, for the driver and the examples (`bound` ≥ every address that matters) -/
def ownsB (h : Heap) (as : List Nat) : Bool :=
  !h.fault && decide as.Nodup && as.all (fun a => (h.cells a).isSome && a < h.next)
    && (List.range h.next).all (fun a => !(h.cells a).isSome || as.contains a)

/-- cells of `frame` are the same in `h'` as in `h` (an operation did not touch them) -/
def FrameEq (h h' : Heap) (frame : List Nat) : Prop := ∀ a ∈ frame, h'.cells a = h.cells a

/-! ## values -/

def dfltV (K : RowClass) : RowV := ⟨K.dfltCell, K.dfltTag, false⟩

def setSpaceDimV (sd : Nat) (v : RowV) : RowV := { v with coeffs := setSpaceDimCoeffs v.nnc sd v.coeffs }

def setTopologyV (nnc : Bool) (v : RowV) : RowV :=
  if v.nnc == nnc then v
  else if !v.nnc then ⟨resizeCoeffs v.coeffs (v.coeffs.length + 1), v.tag, nnc⟩
  else ⟨resizeCoeffs v.coeffs (v.coeffs.length - 1), v.tag, nnc⟩

def LinSysV.numRows (s : LinSysV) : Nat := s.rows.length
def LinSysV.numPendingRows (s : LinSysV) : Nat := s.rows.length - s.firstPending

def leV (K : RowClass) (a b : Option RowV) : Bool :=
  match a, b with
  | some u, some v => decide (K.cmp u v ≤ 0)
  | _, _ => false

/-- `insert_pending_no_ok(r, Recycle_Input)` on values -/
def insertPendingNoOkV (x : LinSysV) (r : RowV) : LinSysV :=
  if x.spaceDim < r.spaceDim then
    { x with rows := x.rows.map (setSpaceDimV r.spaceDim) ++ [r], spaceDim := r.spaceDim }
  else { x with rows := x.rows ++ [setSpaceDimV x.spaceDim r] }

/-- `insert_no_ok(r, Recycle_Input)` on values -/
def insertNoOkV (K : RowClass) (x : LinSysV) (r : RowV) : LinSysV :=
  let x₁ := insertPendingNoOkV x r
  let n := x₁.rows.length
  let x₂ := if x.sorted then
      (if n > 1 then { x₁ with sorted := leV K x₁.rows[n - 2]? x₁.rows[n - 1]? } else { x₁ with sorted := true })
    else x₁
  { x₂ with firstPending := x₂.rows.length }

/-- the cleared system: `Linear_System::clear()` keeps only the topology -/
def clearV (s : LinSysV) : LinSysV := ⟨[], 0, s.nnc, 0, true⟩

/-- `insert_pending(y, Recycle_Input)` on values: the receiver -/
def insertPendingSysV (x y : LinSysV) : LinSysV := y.rows.foldl insertPendingNoOkV x

/-- `insert(y, Recycle_Input)` on values: the receiver -/
def insertSysV (K : RowClass) (x y : LinSysV) : LinSysV :=
  if y.rows.isEmpty then x
  else
    let x₁ :=
      if x.sorted then
        if !y.sorted || y.numPendingRows > 0 then { x with sorted := false }
        else if x.rows.length > 0 then { x with sorted := leV K x.rows[x.rows.length - 1]? y.rows[0]? } else x
      else x
    let x₂ := insertPendingSysV x₁ y
    { x₂ with firstPending := x₂.rows.length }

/-- what `insert(y, Recycle_Input)` leaves in the argument -/
def insertSysArgV (y : LinSysV) : LinSysV := if y.rows.isEmpty then y else clearV y

/-- `Linear_System(const Linear_System&)` on values -/
def copyV (y : LinSysV) : LinSysV :=
  ⟨y.rows, y.spaceDim, y.nnc, y.rows.length, if y.numPendingRows > 0 then false else y.sorted⟩

def setSpaceDimSysV (sd : Nat) (s : LinSysV) : LinSysV := { s with rows := s.rows.map (setSpaceDimV sd), spaceDim := sd }
def setTopologySysV (nnc : Bool) (s : LinSysV) : LinSysV :=
  if s.nnc == nnc then s else { s with rows := s.rows.map (setTopologyV nnc), nnc := nnc }
def adjustV (nnc : Bool) (sd : Nat) (s : LinSysV) : LinSysV := setSpaceDimSysV sd (setTopologySysV nnc s)

/-- `Linear_System::OK()` (`Linear_System_templates.hh:926`) on values: every row has the system's
    dimension and topology, `index_first_pending <= num_rows()`, and a system flagged `sorted` is sorted
    up to its first pending row (`check_sorted`, `:915`: adjacent comparisons). -/
def checkSortedV (K : RowClass) (s : LinSysV) : Bool :=
  (List.range (s.firstPending - 1)).all (fun i => leV K s.rows[i]? s.rows[i + 1]?)

def okV (K : RowClass) (s : LinSysV) : Bool :=
  s.rows.all (fun v => v.spaceDim == s.spaceDim && v.nnc == s.nnc)
    && decide (s.firstPending ≤ s.rows.length) && (!s.sorted || checkSortedV K s)

structure PolyV where
  conSys : LinSysV
  genSys : LinSysV
  satC : BitMatrix
  satG : BitMatrix
  status : Nat
  spaceDim : Nat
deriving DecidableEq, Repr

def Poly.value (h : Heap) (p : Poly) : PolyV :=
  ⟨p.conSys.value h, p.genSys.value h, p.satC, p.satG, p.status, p.spaceDim⟩

def Poly.owned (p : Poly) : List Nat := p.conSys.owned ++ p.genSys.owned

structure GridCV where
  conSys : CgSysV
  status : Nat
  spaceDim : Nat
deriving DecidableEq, Repr
def GridC.value (h : Heap) (g : GridC) : GridCV := ⟨g.conSys.value h, g.status, g.spaceDim⟩

/-- `Congruence_System::insert(cgs, Recycle_Input)` on values: the receiver -/
def cgInsertSysV (x y : CgSysV) : CgSysV :=
  let sd := max x.spaceDim y.spaceDim
  let pad (v : RowV) : RowV := { v with coeffs := resizeCoeffs v.coeffs (sd + 1) }
  ⟨(if x.spaceDim < y.spaceDim then x.rows.map pad else x.rows) ++ y.rows.map pad, sd⟩

/-! ## the pool machine -/

structure World where
  heap : Heap
  objs : List Poly

def World.owned (w : World) : List Nat := w.objs.flatMap Poly.owned

/-- every cell is owned by exactly one row of exactly one pool member -/
def World.Inv (w : World) : Prop := Owns w.heap w.owned

inductive WOp where
  /-- `x_i = x_j` (`i = j`: self-assignment) -/
  | assign (i j : Nat)
  /-- `swap(x_i, x_j)` (`i = j`: self-swap) -/
  | swap (i j : Nat)
  /-- `x_i.intersection_assign(x_j)` (`i = j` allowed) -/
  | intersect (i j : Nat)
  /-- `x_i.poly_hull_assign(x_j)` (`i = j` allowed) -/
  | hull (i j : Nat)
  /-- `x_i.add_constraints(x_j.con_sys)`: a const reference into another (or the same) pool member -/
  | addConstraintsOf (i j : Nat)
  /-- any in-place update of the coefficients of row `k` of `x_i`'s constraint (`gen = false`) or
      generator system — what every mutator ultimately does to storage it owns -/
  | writeRow (i : Nat) (gen : Bool) (k : Nat) (f : List Int → List Int)
  /-- any update of the scalar members of `x_i` (status flags, saturation matrices) -/
  | setScalars (i : Nat) (status : Nat) (satC satG : BitMatrix)

def argOf (i j : Nat) (objs : List Poly) : Option (Arg Poly) :=
  if i = j then some .self else (objs[j]?).map .other

def World.step (w : World) : WOp → World
  | .assign i j =>
    match w.objs[i]?, argOf i j w.objs with
    | some x, some y => let (h, x') := x.assign w.heap y; ⟨h, w.objs.set i x'⟩
    | _, _ => w
  | .swap i j =>
    match w.objs[i]?, w.objs[j]? with
    | some x, some y =>
      if i = j then w
      else let (x', y') := Poly.mSwap x y; ⟨w.heap, (w.objs.set i x').set j y'⟩
    | _, _ => w
  | .intersect i j =>
    match w.objs[i]?, argOf i j w.objs with
    | some x, some y => let (h, x', _) := x.intersectionAssign w.heap y; ⟨h, w.objs.set i x'⟩
    | _, _ => w
  | .hull i j =>
    match w.objs[i]?, argOf i j w.objs with
    | some x, some y => let (h, x', _) := x.polyHullAssign w.heap y; ⟨h, w.objs.set i x'⟩
    | _, _ => w
  | .addConstraintsOf i j =>
    match w.objs[i]?, w.objs[j]? with
    | some x, some y => let (h, x', _) := x.addConstraints w.heap y.conSys; ⟨h, w.objs.set i x'⟩
    | _, _ => w
  | .writeRow i gen k f =>
    match w.objs[i]? with
    | some x =>
      match (if gen then x.genSys else x.conSys).rows.impl[k]? with
      | some r => ⟨w.heap.modify r.impl f, w.objs⟩
      | none => w
    | none => w
  | .setScalars i st sc sg =>
    match w.objs[i]? with
    | some x => ⟨w.heap, w.objs.set i { x with status := st, satC := sc, satG := sg }⟩
    | none => w

def World.run (w : World) (ops : List WOp) : World := ops.foldl World.step w

/-- the destinations of an operation: the only pool members whose value it may change -/
def WOp.dst : WOp → List Nat
  | .assign i _ => [i]
  | .swap i j => [i, j]
  | .intersect i _ => [i]
  | .hull i _ => [i]
  | .addConstraintsOf i _ => [i]
  | .writeRow i _ _ _ => [i]
  | .setScalars i _ _ _ => [i]

def World.value (w : World) (i : Nat) : Option PolyV := (w.objs[i]?).map (Poly.value w.heap)

end PPLV.Value.Move
