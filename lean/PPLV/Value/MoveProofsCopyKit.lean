import PPLV.Value.MoveSpec
/-!
# C13 stage 2 — proofs [C], part 0: a small ownership toolkit (namespace `CopyKit`)
No Mathlib.
-/
namespace PPLV.Value.Move
namespace CopyKit

/-- permutation goals over `++`/`::` by counting -/
syntax "perm_tac" : tactic
macro_rules
  | `(tactic| perm_tac) => `(tactic|
      (rw [List.perm_iff_count]; intro z;
       simp only [List.count_append, List.count_cons, List.count_nil, List.count_singleton];
       (repeat' split) <;> omega))

theorem perm_test (a b c : List Nat) (x y : Nat) : (a ++ x :: b ++ y :: c).Perm (y :: x :: (c ++ b ++ a)) := by
  perm_tac

/-! ### Owns -/

theorem owns_perm {h : Heap} {as bs : List Nat} (hO : Owns h as) (hp : as.Perm bs) : Owns h bs := by
  obtain ⟨h1, h2, h3, h4⟩ := hO
  exact ⟨h1, hp.nodup_iff.mp h2, fun a => (h3 a).trans hp.mem_iff, h4⟩

theorem owns_nodup {h : Heap} {as : List Nat} (hO : Owns h as) : as.Nodup := hO.2.1

theorem owns_isSome {h : Heap} {as : List Nat} (hO : Owns h as) {a : Nat} (ha : a ∈ as) :
    ∃ c, h.cells a = some c := by
  have := (hO.2.2.1 a).mpr ha
  cases hc : h.cells a with
  | none => simp [hc] at this
  | some c => exact ⟨c, rfl⟩

theorem owns_lt_next {h : Heap} {as : List Nat} (hO : Owns h as) {a : Nat} (ha : a ∈ as) : a < h.next := by
  obtain ⟨c, hc⟩ := owns_isSome hO ha
  by_cases hlt : a < h.next
  · exact hlt
  · have := hO.2.2.2 a (by omega)
    simp [hc] at this

theorem owns_next_notMem {h : Heap} {as : List Nat} (hO : Owns h as) : h.next ∉ as := fun hm =>
  Nat.lt_irrefl _ (owns_lt_next hO hm)

theorem alloc_cells (h : Heap) (c : List Int) (a : Nat) :
    (h.alloc c).1.cells a = if a = h.next then some c else h.cells a := rfl
theorem alloc_snd (h : Heap) (c : List Int) : (h.alloc c).2 = h.next := rfl
theorem alloc_next (h : Heap) (c : List Int) : (h.alloc c).1.next = h.next + 1 := rfl
theorem alloc_fault (h : Heap) (c : List Int) : (h.alloc c).1.fault = h.fault := rfl

theorem owns_alloc {h : Heap} {as : List Nat} (hO : Owns h as) (c : List Int) :
    Owns (h.alloc c).1 (h.next :: as) := by
  have hn := owns_next_notMem hO
  obtain ⟨h1, h2, h3, h4⟩ := hO
  refine ⟨h1, List.nodup_cons.mpr ⟨hn, h2⟩, ?_, ?_⟩
  · intro a
    rw [alloc_cells]
    by_cases ha : a = h.next
    · simp [ha]
    · simp [ha, h3 a]
  · intro a ha
    rw [alloc_cells, alloc_next] at *
    have : a ≠ h.next := by omega
    simp [this]; exact h4 a (by omega)

theorem alloc_frame {h : Heap} {as : List Nat} (hO : Owns h as) (c : List Int) :
    ∀ a ∈ as, (h.alloc c).1.cells a = h.cells a := by
  intro a ha
  rw [alloc_cells]
  have : a ≠ h.next := fun e => owns_next_notMem hO (e ▸ ha)
  simp [this]

theorem free_cells {h : Heap} {a : Nat} {c : List Int} (hc : h.cells a = some c) (x : Nat) :
    (h.free a).cells x = if x = a then none else h.cells x := by
  unfold Heap.free; rw [hc]
theorem free_next {h : Heap} {a : Nat} : (h.free a).next = h.next := by
  unfold Heap.free; split <;> rfl
theorem free_fault {h : Heap} {a : Nat} {c : List Int} (hc : h.cells a = some c) :
    (h.free a).fault = h.fault := by
  unfold Heap.free; rw [hc]

theorem owns_free {h : Heap} {a : Nat} {as : List Nat} (hO : Owns h (a :: as)) :
    Owns (h.free a) as ∧ ∀ x ∈ as, (h.free a).cells x = h.cells x := by
  obtain ⟨c, hc⟩ := owns_isSome hO List.mem_cons_self
  obtain ⟨h1, h2, h3, h4⟩ := hO
  have hna : a ∉ as := (List.nodup_cons.mp h2).1
  refine ⟨⟨by rw [free_fault hc]; exact h1, (List.nodup_cons.mp h2).2, ?_, ?_⟩, ?_⟩
  · intro x
    rw [free_cells hc]
    by_cases hx : x = a
    · subst hx; simp [hna]
    · simp [hx, h3 x]
  · intro x hx
    rw [free_cells hc]
    rw [free_next] at hx
    split
    · rfl
    · exact h4 x hx
  · intro x hx
    rw [free_cells hc]
    have : x ≠ a := fun e => hna (e ▸ hx)
    simp [this]

theorem modify_cells {h : Heap} {a : Nat} {c : List Int} (hc : h.cells a = some c) (f : List Int → List Int) (x : Nat) :
    (h.modify a f).cells x = if x = a then some (f c) else h.cells x := by
  unfold Heap.modify; rw [hc]
theorem modify_next {h : Heap} {a : Nat} {f : List Int → List Int} : (h.modify a f).next = h.next := by
  unfold Heap.modify; split <;> rfl
theorem modify_fault {h : Heap} {a : Nat} {c : List Int} (hc : h.cells a = some c) (f : List Int → List Int) :
    (h.modify a f).fault = h.fault := by
  unfold Heap.modify; rw [hc]

theorem owns_modify {h : Heap} {a : Nat} {as : List Nat} (hO : Owns h as) (ha : a ∈ as) (f : List Int → List Int) :
    Owns (h.modify a f) as ∧ (∀ x, x ≠ a → (h.modify a f).cells x = h.cells x)
    ∧ (h.modify a f).cells a = (h.cells a).map f := by
  obtain ⟨c, hc⟩ := owns_isSome hO ha
  obtain ⟨h1, h2, h3, h4⟩ := hO
  refine ⟨⟨by rw [modify_fault hc]; exact h1, h2, ?_, ?_⟩, ?_, ?_⟩
  · intro x
    rw [modify_cells hc]
    by_cases hx : x = a
    · subst hx; simp [ha]
    · simp [hx, h3 x]
  · intro x hx
    rw [modify_cells hc]
    rw [modify_next] at hx
    have := h4 x hx
    split
    · next e => subst e; rw [hc] at this; cases this
    · exact this
  · intro x hx
    rw [modify_cells hc]; simp [hx]
  · rw [modify_cells hc, hc]; simp

/-! ### FrameEq -/

theorem frameEq_refl (h : Heap) (f : List Nat) : FrameEq h h f := fun _ _ => rfl
theorem frameEq_trans {h₁ h₂ h₃ : Heap} {f : List Nat} (a : FrameEq h₁ h₂ f) (b : FrameEq h₂ h₃ f) :
    FrameEq h₁ h₃ f := fun x hx => (b x hx).trans (a x hx)
theorem frameEq_mono {h₁ h₂ : Heap} {f g : List Nat} (a : FrameEq h₁ h₂ f) (hs : ∀ x ∈ g, x ∈ f) :
    FrameEq h₁ h₂ g := fun x hx => a x (hs x hx)

/-! ### rows -/

theorem owned_cons (r : Row) (rs : List Row) : owned (r :: rs) = r.impl :: owned rs := rfl
theorem owned_nil : owned [] = [] := rfl
theorem owned_append (a b : List Row) : owned (a ++ b) = owned a ++ owned b := by simp [owned]
theorem owned_length (a : List Row) : (owned a).length = a.length := by simp [owned]
theorem mem_owned_of_mem {r : Row} {rs : List Row} (h : r ∈ rs) : r.impl ∈ owned rs :=
  List.mem_map_of_mem h
theorem mem_owned_of_getElem? {r : Row} {rs : List Row} {i : Nat} (h : rs[i]? = some r) : r.impl ∈ owned rs :=
  mem_owned_of_mem (List.mem_of_getElem? h)

theorem owned_set (rs : List Row) (i : Nat) (r : Row) : owned (rs.set i r) = (owned rs).set i r.impl := by
  simp [owned, List.map_set]

theorem val_congr {h h' : Heap} {r : Row} (e : h'.cells r.impl = h.cells r.impl) : r.val h' = r.val h := by
  simp [Row.val, Heap.read, e]

theorem rowValues_congr {h h' : Heap} {rows : List Row}
    (e : ∀ a ∈ owned rows, h'.cells a = h.cells a) : rowValues h' rows = rowValues h rows := by
  unfold rowValues
  apply List.map_congr_left
  intro r hr
  exact val_congr (e _ (mem_owned_of_mem hr))

theorem value_congr' (h h' : Heap) (s : LinSys) (hf : FrameEq h h' s.owned) : s.value h' = s.value h := by
  unfold LinSys.value
  rw [rowValues_congr (fun a ha => hf a ha)]

/-- replacing one element: the new element and the old list are a permutation of the old element and the new list -/
theorem perm_set {α : Type} [DecidableEq α] (l : List α) (i : Nat) (d x : α) (hd : l[i]? = some d) :
    (x :: l).Perm (d :: l.set i x) := by
  induction l generalizing i with
  | nil => simp at hd
  | cons a l ih =>
    cases i with
    | zero =>
      simp at hd; subst hd
      simp only [List.set_cons_zero]
      exact List.Perm.swap _ _ _
    | succ i =>
      simp at hd
      simp only [List.set_cons_succ]
      have := ih i hd
      exact (List.Perm.swap a x l).trans ((this.cons a).trans (List.Perm.swap d a _))

theorem nodup_impl_ne {rows : List Row} (hn : (owned rows).Nodup) {i j : Nat} {r r' : Row}
    (hi : rows[i]? = some r) (hj : rows[j]? = some r') (hij : i ≠ j) : r.impl ≠ r'.impl := by
  have hp := List.pairwise_iff_getElem.mp hn
  have hil : i < rows.length := (List.getElem?_eq_some_iff.mp hi).1
  have hjl : j < rows.length := (List.getElem?_eq_some_iff.mp hj).1
  have ei : (owned rows)[i]'(by rw [owned_length]; exact hil) = r.impl := by
    simp [owned, (List.getElem?_eq_some_iff.mp hi).2]
  have ej : (owned rows)[j]'(by rw [owned_length]; exact hjl) = r'.impl := by
    simp [owned, (List.getElem?_eq_some_iff.mp hj).2]
  rcases Nat.lt_or_gt_of_ne hij with hlt | hlt
  · have := hp i j (by rw [owned_length]; exact hil) (by rw [owned_length]; exact hjl) hlt
    rw [ei, ej] at this; exact this
  · have := hp j i (by rw [owned_length]; exact hjl) (by rw [owned_length]; exact hil) hlt
    rw [ei, ej] at this; exact fun e => this e.symm

/-! ### `Row.copy` -/

theorem rowCopy_spec {h : Heap} {as : List Nat} (hO : Owns h as) {r : Row} (hr : r.impl ∈ as) :
    Owns (Row.copy h r).1 ((Row.copy h r).2.impl :: as)
    ∧ (Row.copy h r).2.val (Row.copy h r).1 = r.val h
    ∧ (∀ a ∈ as, (Row.copy h r).1.cells a = h.cells a)
    ∧ (Row.copy h r).2.tag = r.tag ∧ (Row.copy h r).2.nnc = r.nnc := by
  obtain ⟨c, hc⟩ := owns_isSome hO hr
  have e : Row.copy h r = ((h.alloc c).1, { r with impl := h.next }) := by
    unfold Row.copy Heap.read; rw [hc]; rfl
  rw [e]
  refine ⟨owns_alloc hO c, ?_, alloc_frame hO c, rfl, rfl⟩
  simp [Row.val, Heap.read, alloc_cells, hc]

/-! ### `copyRows` -/

theorem copyRows_spec (rows : List Row) : ∀ (h : Heap) (as : List Nat), Owns h as → (∀ r ∈ rows, r.impl ∈ as) →
    Owns (copyRows h rows).1 (owned (copyRows h rows).2 ++ as)
    ∧ rowValues (copyRows h rows).1 (copyRows h rows).2 = rowValues h rows
    ∧ (∀ a ∈ as, (copyRows h rows).1.cells a = h.cells a)
    ∧ (copyRows h rows).2.length = rows.length := by
  induction rows with
  | nil => intro h as hO _; exact ⟨by simpa [copyRows, owned] using hO, rfl, fun _ _ => rfl, rfl⟩
  | cons r rs ih =>
    intro h as hO hm
    obtain ⟨c1, c2, c3, _, _⟩ := rowCopy_spec hO (hm r List.mem_cons_self)
    have e : copyRows h (r :: rs) = ((copyRows (Row.copy h r).1 rs).1, (Row.copy h r).2 :: (copyRows (Row.copy h r).1 rs).2) := rfl
    rw [e]
    obtain ⟨i1, i2, i3, i4⟩ := ih (Row.copy h r).1 ((Row.copy h r).2.impl :: as) c1
      (fun x hx => List.mem_cons_of_mem _ (hm x (List.mem_cons_of_mem _ hx)))
    refine ⟨?_, ?_, ?_, ?_⟩
    · refine owns_perm i1 ?_
      simp only [owned_cons]
      perm_tac
    · simp only [rowValues, List.map_cons] at *
      rw [i2]
      congr 1
      · rw [val_congr (i3 _ List.mem_cons_self), c2]
      · apply List.map_congr_left
        intro x hx
        exact val_congr (c3 _ (hm x (List.mem_cons_of_mem _ hx)))
    · intro a ha
      rw [i3 a (List.mem_cons_of_mem _ ha), c3 a ha]
    · simp [i4]

end CopyKit
end PPLV.Value.Move
