import PPLV.Value.MoveProofsAlias2

/-! C13 aliasing, part 6: value-level refinement of the topology adjustment (rows, systems) -/
namespace PPLV.Value.Move.AliasKit
open PPLV.Value PPLV.Value.Move

theorem val_modify {h : Heap} {as : List Nat} (hO : Owns h as) (r : Row) (ha : r.impl ∈ as)
    (f : List Int → List Int) :
    r.val (h.modify r.impl f) = { r.val h with coeffs := f (r.val h).coeffs } := by
  obtain ⟨c, hc⟩ := PolyKit.Owns.read_some hO ha
  obtain ⟨_, _, h3⟩ := PolyKit.Owns.modify hO ha f
  simp [Row.val, Heap.read, h3, hc]

theorem Row.setTopology_refines {h : Heap} {as : List Nat} (hO : Owns h as) (r : Row) (ha : r.impl ∈ as)
    (nnc : Bool) :
    Owns (r.setTopology h nnc).1 as ∧ (r.setTopology h nnc).2.impl = r.impl
    ∧ (r.setTopology h nnc).2.val (r.setTopology h nnc).1 = setTopologyV nnc (r.val h)
    ∧ (∀ b, b ≠ r.impl → (r.setTopology h nnc).1.cells b = h.cells b) := by
  unfold Row.setTopology setTopologyV
  have hn : (r.val h).nnc = r.nnc := rfl
  by_cases h1 : (r.nnc == nnc) = true
  · simp only [hn, h1, ↓reduceIte]
    exact ⟨hO, by trivial, by trivial, fun _ _ => by trivial⟩
  · simp only [hn, h1, Bool.false_eq_true, ↓reduceIte]
    by_cases h2 : (!r.nnc) = true
    · simp only [h2, ↓reduceIte]
      obtain ⟨m1, m2, _⟩ := PolyKit.Owns.modify hO ha (fun c => resizeCoeffs c (c.length + 1))
      refine ⟨m1, by trivial, ?_, m2⟩
      have := val_modify hO r ha (fun c => resizeCoeffs c (c.length + 1))
      simp only [Row.val, Heap.read] at this ⊢
      simpa using this
    · simp only [h2, Bool.false_eq_true, ↓reduceIte]
      obtain ⟨m1, m2, _⟩ := PolyKit.Owns.modify hO ha (fun c => resizeCoeffs c (c.length - 1))
      refine ⟨m1, by trivial, ?_, m2⟩
      have := val_modify hO r ha (fun c => resizeCoeffs c (c.length - 1))
      simp only [Row.val, Heap.read] at this ⊢
      simpa using this

end PPLV.Value.Move.AliasKit
