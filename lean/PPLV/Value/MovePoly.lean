import PPLV.Value.Move
import PPLV.Value.Model

/-!
# C13 stage 2 — the MOVING mechanics (part 2): systems, `Polyhedron`, `Grid`, `Pointset_Powerset`

Transliterated from `Constraint_System.cc`, `Congruence_System.cc`, `Linear_System_templates.hh`
(`merge_rows_assign`), `Polyhedron_public.cc` (`add_recycled_constraints`, `add_recycled_generators`,
`add_constraints`, `add_generators`, `intersection_assign`, `poly_hull_assign`), `Polyhedron_chdims.cc`
(`concatenate_assign`, constraint part), `Polyhedron_inlines.hh` (`m_swap`), `Polyhedron_nonpublic.cc`
(copy constructor, `operator=`), `Grid_public.cc` (`add_recycled_congruences`),
`Pointset_Powerset_templates.hh` (`add_disjunct`), `Powerset_inlines.hh` (`m_swap`).

The lazy conversions (`process_pending_*`, `update_constraints`, `minimize`) belong to C01's model;
the functions here return `Exit.notModelled` when the code would run one (the harness brings the
receiver into a state where they are not needed before it journals the call).
-/
namespace PPLV.Value.Move

/-! ## `Constraint_System` / `Generator_System` wrappers -/

/-- `Constraint::set_topology` (`Constraint_inlines.hh:82`) / `Generator::set_topology` (`Generator_inlines.hh:75`) -/
def Row.setTopology (h : Heap) (r : Row) (nnc : Bool) : Heap × Row :=
  if r.nnc == nnc then (h, r)
  else if !r.nnc then (h.modify r.impl (fun c => resizeCoeffs c (c.length + 1)), { r with nnc := nnc })
  else (h.modify r.impl (fun c => resizeCoeffs c (c.length - 1)), { r with nnc := nnc })

/-- `for (i = num_rows(); i-- > 0; ) rows[i].set_topology(t);` (`Linear_System_inlines.hh:253`) -/
def setTopologyRows (nnc : Bool) : Nat → Heap → List Row → Heap × List Row
  | 0, h, rows => (h, rows)
  | i + 1, h, rows =>
    match rows[i]? with
    | some r => let (h₁, r') := r.setTopology h nnc; setTopologyRows nnc i h₁ (rows.set i r')
    | none => setTopologyRows nnc i { h with fault := true } rows

/-- `Linear_System<Row>::set_topology` (`Linear_System_inlines.hh:249`) -/
def LinSys.setTopology (h : Heap) (s : LinSys) (nnc : Bool) : Heap × LinSys :=
  if s.nnc == nnc then (h, s)
  else
    let (h₁, rows) := setTopologyRows nnc s.rows.size h s.rows.impl
    (h₁, { s with rows := ⟨rows, s.rows.cap⟩, nnc := nnc })

/-- the topology adjustment at the head of `Constraint_System::insert(Constraint& c, Recycle_Input)`
    and `insert_pending(Constraint& c, Recycle_Input)` (`Constraint_System.cc:138`, `:164`) -/
def csAdjustTopology (h : Heap) (s : LinSys) (c : Row) : Heap × LinSys × Row :=
  if s.nnc != c.nnc then
    if !s.nnc then let (h₁, s₁) := s.setTopology h true; (h₁, s₁, c)
    else let (h₁, c₁) := c.setTopology h true; (h₁, s, c₁)
  else (h, s, c)

/-- `Constraint_System::insert(Constraint& c, Recycle_Input)` (`Constraint_System.cc:138`) -/
def csInsertRow (h : Heap) (s : LinSys) (c : Row) : Heap × LinSys × Row :=
  let (h₁, s₁, c₁) := csAdjustTopology h s c
  s₁.insertRow constraintClass h₁ c₁

/-- `Constraint_System::insert_pending(Constraint& c, Recycle_Input)` (`Constraint_System.cc:164`) -/
def csInsertPendingRow (h : Heap) (s : LinSys) (c : Row) : Heap × LinSys × Row :=
  let (h₁, s₁, c₁) := csAdjustTopology h s c
  s₁.insertPendingRow constraintClass h₁ c₁

/-- `Constraint_System::insert(const Constraint& r)` (`:132`): `Constraint tmp = r; insert(tmp, Recycle_Input());` then `~tmp` -/
def csInsertRowConst (h : Heap) (s : LinSys) (c : Row) : Heap × LinSys :=
  let (h₁, tmp) := Row.copy h c
  let (h₂, s₁, tmp₁) := csInsertRow h₁ s tmp
  (Row.destroy h₂ tmp₁, s₁)

/-- `Constraint_System::adjust_topology_and_space_dimension` (`Constraint_System.cc:55`) for the cases
    without row removal: `sys.set_topology(new_topology); sys.set_space_dimension(new_space_dim);` -/
def adjustTopologyAndSpaceDimension (h : Heap) (s : LinSys) (nnc : Bool) (sd : Nat) : Heap × LinSys :=
  let (h₁, s₁) := s.setTopology h nnc
  s₁.setSpaceDimNoOk h₁ sd

/-! ## `merge_rows_assign` -/

/-- `Row copy(y[yi], space_dimension(), representation())`: a copy resized to the receiver's dimension -/
def Row.copyDim (h : Heap) (r : Row) (sd : Nat) : Heap × Row :=
  let (h₁, c) := Row.copy h r
  (c.setSpaceDimNoOk h₁ sd, c)

/-- `tmp.resize(tmp.size() + 1); swap(tmp.back(), r);` — returns `tmp` and what is left in `r` -/
def pushSwap (K : RowClass) (h : Heap) (tmp : SVec) (r : Row) : Heap × SVec × Row :=
  let (h₁, t₁) := tmp.resize K h (tmp.size + 1)
  let (rows, r') := swapBack t₁.impl r
  (h₁, ⟨rows, t₁.cap⟩, r')

/-- The merging loop of `Linear_System<Row>::merge_rows_assign(const Linear_System& y)`
    (`Linear_System_templates.hh:73`).  `ys = none`: `y` is `*this`, so `y[yi]` reads the receiver's own
    rows (some of which have already been swapped out).  `fuel` = `x_num_rows + y_num_rows + 1`. -/
def mergeLoop (K : RowClass) (sd : Nat) (ys : Option (List Row)) :
    Nat → Nat → Nat → Heap → List Row → SVec → Heap × List Row × SVec
  | 0, _, _, h, xs, tmp => (h, xs, tmp)
  | fuel + 1, xi, yi, h, xs, tmp =>
    let yrows := match ys with | some l => l | none => xs
    let nx := xs.length
    let ny := match ys with | some l => l.length | none => nx
    if xi < nx ∧ yi < ny then
      match xs[xi]?, yrows[yi]? with
      | some xr, some yr =>
        let comp : Int := match xr.value h, yr.value h with
          | some u, some v => K.cmp u v
          | _, _ => 0
        if comp ≤ 0 then
          let (h₁, tmp₁, left) := pushSwap K h tmp xr
          mergeLoop K sd ys fuel (xi + 1) (if comp = 0 then yi + 1 else yi) h₁ (xs.set xi left) tmp₁
        else
          let (h₁, c) := Row.copyDim h yr sd
          let (h₂, tmp₁, left) := pushSwap K h₁ tmp c
          mergeLoop K sd ys fuel xi (yi + 1) (Row.destroy h₂ left) xs tmp₁
      | _, _ => ({ h with fault := true }, xs, tmp)
    else if xi < nx then
      match xs[xi]? with
      | some xr =>
        let (h₁, tmp₁, left) := pushSwap K h tmp xr
        mergeLoop K sd ys fuel (xi + 1) yi h₁ (xs.set xi left) tmp₁
      | none => ({ h with fault := true }, xs, tmp)
    else if yi < ny then
      match yrows[yi]? with
      | some yr =>
        let (h₁, c) := Row.copyDim h yr sd
        let (h₂, tmp₁, left) := pushSwap K h₁ tmp c
        mergeLoop K sd ys fuel xi (yi + 1) (Row.destroy h₂ left) xs tmp₁
      | none => ({ h with fault := true }, xs, tmp)
    else (h, xs, tmp)

/-- `Linear_System<Row>::merge_rows_assign(const Linear_System& y)` (`Linear_System_templates.hh:55`):
    `tmp.reserve(compute_capacity(x.rows.size() + y.rows.size(), max))`, the loop, `swap(tmp, rows)`
    (the old vector dies with `tmp`), `unset_pending_rows()`. -/
def LinSys.mergeRowsAssign (K : RowClass) (h : Heap) (x : LinSys) (y : Arg LinSys) : Heap × LinSys :=
  let ys : Option (List Row) := match y with | .self => none | .other s => some s.rows.impl
  let ny := match y with | .self => x.numRows | .other s => s.numRows
  let (h₀, tmp₀) := SVec.nil.reserve K h (computeCapacity (x.numRows + ny) maxNumRows)
  let (h₁, xs, tmp) := mergeLoop K x.spaceDim ys (x.numRows + ny + 1) 0 0 h₀ x.rows.impl tmp₀
  let x₁ : LinSys := { x with rows := tmp }
  (destroyRows h₁ xs, x₁.unsetPendingRows)

/-! ## `Polyhedron` -/

/-- `Bit_Matrix`: rows of set-bit indices and the number of columns; a plain value (a `Bit_Row` owns
    its limbs directly, nothing is shared) -/
structure BitMatrix where
  rows : List (List Nat)
  cols : Nat
deriving DecidableEq, Repr

def BitMatrix.empty : BitMatrix := ⟨[], 0⟩

/-- `Polyhedron::Status` flag bits (`Ph_Status_idefs.hh:152`) -/
def EMPTY : Nat := 1
def C_UP : Nat := 2
def G_UP : Nat := 4
def C_MIN : Nat := 8
def G_MIN : Nat := 16
def SAT_C_UP : Nat := 32
def SAT_G_UP : Nat := 64
def CS_PENDING : Nat := 128
def GS_PENDING : Nat := 256

def testAny (flags m : Nat) : Bool := (flags &&& m) != 0
def setF (flags m : Nat) : Nat := flags ||| m
def resetF (flags m : Nat) : Nat := flags &&& (511 ^^^ m)

structure Poly where
  conSys : LinSys
  genSys : LinSys
  satC : BitMatrix
  satG : BitMatrix
  status : Nat
  spaceDim : Nat
deriving DecidableEq, Repr

/-- `topology()` = `con_sys.topology()` -/
def Poly.nnc (p : Poly) : Bool := p.conSys.nnc
def Poly.markedEmpty (p : Poly) : Bool := testAny p.status EMPTY
/-- `can_have_something_pending()` (`Polyhedron_inlines.hh:180`) -/
def Poly.canHaveSomethingPending (p : Poly) : Bool :=
  testAny p.status C_MIN && testAny p.status G_MIN && (testAny p.status SAT_C_UP || testAny p.status SAT_G_UP)

/-- `clear_constraints_up_to_date()` (`Polyhedron_inlines.hh:280`) / `clear_generators_up_to_date()` (`:290`) -/
def clearConstraintsUpToDate (f : Nat) : Nat :=
  resetF (resetF (resetF (resetF (resetF f CS_PENDING) C_MIN) SAT_C_UP) SAT_G_UP) C_UP
def clearGeneratorsUpToDate (f : Nat) : Nat :=
  resetF (resetF (resetF (resetF (resetF f GS_PENDING) G_MIN) SAT_C_UP) SAT_G_UP) G_UP

/-- `Polyhedron::set_empty()` (`Polyhedron_nonpublic.cc:726`) -/
def Poly.setEmpty (h : Heap) (p : Poly) : Heap × Poly :=
  let (h₁, c) := p.conSys.clear h
  let (h₂, g) := p.genSys.clear h₁
  (h₂, { p with status := EMPTY, conSys := c, genSys := g, satC := BitMatrix.empty, satG := BitMatrix.empty })

/-- `Polyhedron::set_zero_dim_univ()` (`Polyhedron_nonpublic.cc:718`) -/
def Poly.setZeroDimUniv (h : Heap) (p : Poly) : Heap × Poly :=
  let (h₁, c) := p.conSys.clear h
  let (h₂, g) := p.genSys.clear h₁
  (h₂, { p with status := 0, spaceDim := 0, conSys := c, genSys := g })

/-- `std::swap(a, b)` of two members -/
def swapM {α : Type} (a b : α) : α × α := (b, a)

/-- `Polyhedron::m_swap` (`Polyhedron_inlines.hh:100`): throws on a topology mismatch, then
```
swap(con_sys, y.con_sys); swap(gen_sys, y.gen_sys); swap(sat_c, y.sat_c);
swap(sat_g, y.sat_g);     swap(status, y.status);   swap(space_dim, y.space_dim);
``` -/
def Poly.mSwap (x y : Poly) : Poly × Poly :=
  if x.nnc != y.nnc then (x, y)
  else
    let (c₁, c₂) := LinSys.mSwap x.conSys y.conSys
    let (g₁, g₂) := LinSys.mSwap x.genSys y.genSys
    let (sc₁, sc₂) := swapM x.satC y.satC
    let (sg₁, sg₂) := swapM x.satG y.satG
    let (st₁, st₂) := swapM x.status y.status
    let (d₁, d₂) := swapM x.spaceDim y.spaceDim
    (⟨c₁, g₁, sc₁, sg₁, st₁, d₁⟩, ⟨c₂, g₂, sc₂, sg₂, st₂, d₂⟩)

/-- `Polyhedron(const Polyhedron& y, Complexity_Class)` (`Polyhedron_nonpublic.cc:74`): only the
    descriptions that are up to date are copied; the others are empty systems of the same topology -/
def Poly.copy (h : Heap) (y : Poly) : Heap × Poly :=
  let (h₁, c) := if testAny y.status C_UP then LinSys.assignWithPending h (LinSys.mk0 y.nnc) (.other y.conSys)
                 else (h, LinSys.mk0 y.nnc)
  let (h₂, g) := if testAny y.status G_UP then LinSys.assignWithPending h₁ (LinSys.mk0 y.nnc) (.other y.genSys)
                 else (h₁, LinSys.mk0 y.nnc)
  (h₂, ⟨c, g, if testAny y.status SAT_C_UP then y.satC else BitMatrix.empty,
        if testAny y.status SAT_G_UP then y.satG else BitMatrix.empty, y.status, y.spaceDim⟩)

/-- `Polyhedron::operator=` (`Polyhedron_nonpublic.cc:327`): member-wise, not copy-and-swap -/
def Poly.assign (h : Heap) (x : Poly) (y : Arg Poly) : Heap × Poly :=
  let yv := y.get x
  let x₀ := { x with spaceDim := yv.spaceDim }
  if yv.markedEmpty then x₀.setEmpty h
  else if x₀.spaceDim == 0 then x₀.setZeroDimUniv h
  else
    -- with `y` = `*this` the argument of the member assignments is the receiver's own member
    let (h₁, c) := if testAny yv.status C_UP then
        LinSys.assignWithPending h x₀.conSys (match y with | .self => .self | .other q => .other q.conSys)
      else (h, x₀.conSys)
    let (h₂, g) := if testAny yv.status G_UP then
        LinSys.assignWithPending h₁ x₀.genSys (match y with | .self => .self | .other q => .other q.genSys)
      else (h₁, x₀.genSys)
    (h₂, { x₀ with status := yv.status, conSys := c, genSys := g,
                   satC := if testAny yv.status SAT_C_UP then yv.satC else x₀.satC,
                   satG := if testAny yv.status SAT_G_UP then yv.satG else x₀.satG })

/-- `~Polyhedron` -/
def Poly.destroy (h : Heap) (p : Poly) : Heap := p.genSys.destroy (p.conSys.destroy h)

/-- which path of an entry point was taken -/
inductive Exit where
  | threw | noRows | zeroDim | markedEmpty | wasEmptySwapped | movedPending | moved | notModelled
deriving DecidableEq, Repr

/-- `gs.has_points()`: some row is neither a line nor a ray -/
def hasPoints (h : Heap) (rows : List Row) : Bool :=
  rows.any (fun r => r.tag != 0 && (match h.read r.impl with | some c => c.headD 0 != 0 | none => false))

/-- a zero-dimensional constraint is a tautology (`Constraint::is_tautological` on `[b]` / `[b, eps]`) -/
def zeroDimTautology (h : Heap) (r : Row) : Bool :=
  match h.read r.impl with
  | some c =>
    let b := c.headD 0
    if r.tag == 0 then b == 0
    else if !r.nnc then b ≥ 0
    else
      let e := c.getD 1 0
      if e == 0 then b ≥ 0 else if e < 0 then b > 0 else b ≥ 0
  | none => false

/-- `Polyhedron::add_recycled_constraints(Constraint_System& cs)` (`Polyhedron_public.cc:1560`).
    Returns the heap, the receiver, the ARGUMENT as the call leaves it, and the path taken. -/
def Poly.addRecycledConstraints (h : Heap) (x : Poly) (cs : LinSys) : Heap × Poly × LinSys × Exit :=
  -- NC receiver, NNC system: the strict-inequality scan and the row-removing adjustment are not modelled
  if !x.nnc && cs.nnc then (h, x, cs, .notModelled)
  else if x.spaceDim < cs.spaceDim then (h, x, cs, .threw)
  else if cs.hasNoRows then (h, x, cs, .noRows)
  else if x.spaceDim == 0 then
    -- `if (cs.begin() != cs.end()) status.set_empty();` — the iterator skips tautologies
    ((h, if cs.rows.impl.all (zeroDimTautology h) then x else { x with status := EMPTY }, cs, .zeroDim))
  else if x.markedEmpty then (h, x, cs, .markedEmpty)
  else if testAny x.status GS_PENDING || !testAny x.status C_UP then (h, x, cs, .notModelled)
  else
    let (h₁, cs₁) := adjustTopologyAndSpaceDimension h cs x.nnc x.spaceDim
    if x.canHaveSomethingPending then
      let (h₂, c, cs₂) := x.conSys.insertPendingSys constraintClass h₁ cs₁
      (h₂, { x with conSys := c, status := setF x.status CS_PENDING }, cs₂, .movedPending)
    else
      let (h₂, c, cs₂) := x.conSys.insertSys constraintClass h₁ cs₁
      (h₂, { x with conSys := c, status := clearGeneratorsUpToDate (resetF x.status C_MIN) }, cs₂, .moved)

/-- `Polyhedron::add_constraints(const Constraint_System& cs)` (`:1640`):
    `Constraint_System cs_copy = cs; add_recycled_constraints(cs_copy);` then `~cs_copy`.
    The `const` argument is not an output: it is not touched. -/
def Poly.addConstraints (h : Heap) (x : Poly) (cs : LinSys) : Heap × Poly × Exit :=
  let (h₁, cp) := LinSys.copy h cs
  let (h₂, x₁, cp₁, e) := x.addRecycledConstraints h₁ cp
  (cp₁.destroy h₂, x₁, e)

/-- the row loops of `add_recycled_generators` (`Polyhedron_public.cc:1714`, `:1727`):
    `gs.sys.rows[i].set_topology(topology()); gen_sys.insert[_pending](gs.sys.rows[i], Recycle_Input());`
    (`Generator_System::insert*` with equal topologies is `sys.insert*`) -/
def stealGenRowsLoop (pending : Bool) : Nat → Nat → Heap → LinSys → List Row → Heap × LinSys × List Row
  | 0, _, h, x, yrows => (h, x, yrows)
  | k + 1, i, h, x, yrows =>
    match yrows[i]? with
    | some r =>
      let (h₀, r₀) := r.setTopology h x.nnc
      let (h₁, x₁, r') := if pending then x.insertPendingRow generatorClass h₀ r₀ else x.insertRow generatorClass h₀ r₀
      stealGenRowsLoop pending k (i + 1) h₁ x₁ (yrows.set i r')
    | none => ({ h with fault := true }, x, yrows)

/-- `Polyhedron::add_recycled_generators(Generator_System& gs)` (`Polyhedron_public.cc:1647`), for
    necessarily closed polyhedra (`add_corresponding_closure_points` is not modelled). -/
def Poly.addRecycledGenerators (h : Heap) (x : Poly) (gs : LinSys) : Heap × Poly × LinSys × Exit :=
  if x.nnc || gs.nnc then (h, x, gs, .notModelled)
  else if x.spaceDim < gs.spaceDim then (h, x, gs, .threw)
  else if gs.hasNoRows then (h, x, gs, .noRows)
  else if x.spaceDim == 0 then
    if x.markedEmpty && !hasPoints h gs.rows.impl then (h, x, gs, .threw)
    else let (h₁, x₁) := x.setZeroDimUniv h; (h₁, x₁, gs, .zeroDim)
  else
    let (h₁, gs₁) := adjustTopologyAndSpaceDimension h gs x.nnc x.spaceDim
    if x.markedEmpty then
      -- `minimize()` returns false at once
      if !hasPoints h₁ gs₁.rows.impl then (h₁, x, gs₁, .threw)
      else
        let (g, gs₂) := LinSys.mSwap x.genSys gs₁
        let g₁ := if g.numPendingRows > 0 then { g with firstPending := g.numRows, sorted := false } else g
        (h₁, { x with genSys := g₁, status := resetF (setF x.status G_UP) EMPTY }, gs₂, .wasEmptySwapped)
    else if testAny x.status CS_PENDING || !testAny x.status G_UP then (h₁, x, gs₁, .notModelled)
    else if x.canHaveSomethingPending then
      let (h₂, g, yrows) := stealGenRowsLoop true gs₁.numRows 0 h₁ x.genSys gs₁.rows.impl
      let (h₃, gs₂) := LinSys.clear h₂ { gs₁ with rows := ⟨yrows, gs₁.rows.cap⟩ }
      (h₃, { x with genSys := g, status := setF x.status GS_PENDING }, gs₂, .movedPending)
    else
      let (h₂, g, yrows) := stealGenRowsLoop false gs₁.numRows 0 h₁ x.genSys gs₁.rows.impl
      let (h₃, gs₂) := LinSys.clear h₂ { gs₁ with rows := ⟨yrows, gs₁.rows.cap⟩ }
      (h₃, { x with genSys := g, status := resetF (clearConstraintsUpToDate x.status) G_MIN }, gs₂, .moved)

/-- `Polyhedron::add_generators(const Generator_System& gs)` (`:1738`) -/
def Poly.addGenerators (h : Heap) (x : Poly) (gs : LinSys) : Heap × Poly × Exit :=
  let (h₁, cp) := LinSys.copy h gs
  let (h₂, x₁, cp₁, e) := x.addRecycledGenerators h₁ cp
  (cp₁.destroy h₂, x₁, e)

/-- The system part of `Polyhedron::intersection_assign(const Polyhedron& y)` (`Polyhedron_public.cc:2024`)
    once both constraint systems are up to date (`:2066` onwards); `y = .self` is `x.intersection_assign(x)`. -/
def Poly.intersectionAssign (h : Heap) (x : Poly) (y : Arg Poly) : Heap × Poly × Exit :=
  let yv := y.get x
  if x.nnc != yv.nnc || x.spaceDim != yv.spaceDim then (h, x, .threw)
  else if x.markedEmpty then (h, x, .markedEmpty)
  else if yv.markedEmpty then let (h₁, x₁) := x.setEmpty h; (h₁, x₁, .markedEmpty)
  else if x.spaceDim == 0 then (h, x, .zeroDim)
  else if testAny x.status GS_PENDING || !testAny x.status C_UP
          || testAny yv.status GS_PENDING || !testAny yv.status C_UP then (h, x, .notModelled)
  else
    let ycs : Arg LinSys := match y with | .self => .self | .other q => .other q.conSys
    if x.canHaveSomethingPending then
      let (h₁, c) := x.conSys.insertPendingConst constraintClass h ycs
      (h₁, { x with conSys := c, status := setF x.status CS_PENDING }, .movedPending)
    else
      let (h₁, c) :=
        if x.conSys.sorted && yv.conSys.sorted && !testAny yv.status CS_PENDING
        then x.conSys.mergeRowsAssign constraintClass h ycs
        else x.conSys.insertConst constraintClass h ycs
      (h₁, { x with conSys := c, status := resetF (clearGeneratorsUpToDate x.status) C_MIN }, .moved)

/-- The system part of `Polyhedron::poly_hull_assign(const Polyhedron& y)` (`Polyhedron_public.cc:2613`)
    once both generator systems are up to date (`:2653` onwards). -/
def Poly.polyHullAssign (h : Heap) (x : Poly) (y : Arg Poly) : Heap × Poly × Exit :=
  let yv := y.get x
  if x.nnc != yv.nnc || x.spaceDim != yv.spaceDim then (h, x, .threw)
  else if yv.markedEmpty then (h, x, .markedEmpty)
  else if x.markedEmpty then let (h₁, x₁) := x.assign h y; (h₁, x₁, .markedEmpty)
  else if x.spaceDim == 0 then (h, x, .zeroDim)
  else if testAny x.status CS_PENDING || !testAny x.status G_UP
          || testAny yv.status CS_PENDING || !testAny yv.status G_UP then (h, x, .notModelled)
  else
    let ygs : Arg LinSys := match y with | .self => .self | .other q => .other q.genSys
    if x.canHaveSomethingPending then
      let (h₁, g) := x.genSys.insertPendingConst generatorClass h ygs
      (h₁, { x with genSys := g, status := setF x.status GS_PENDING }, .movedPending)
    else
      let (h₁, g) :=
        if x.genSys.sorted && yv.genSys.sorted && !testAny yv.status GS_PENDING
        then x.genSys.mergeRowsAssign generatorClass h ygs
        else x.genSys.insertConst generatorClass h ygs
      (h₁, { x with genSys := g, status := resetF (clearConstraintsUpToDate x.status) G_MIN }, .moved)

/-- `expr.shift_space_dimensions(Variable(0), n)`: `n` zero coefficients after the inhomogeneous term -/
def shiftCoeffs (n : Nat) (c : List Int) : List Int := c.take 1 ++ List.replicate n 0 ++ c.drop 1

/-- `for (i = 0; i < added_rows; ++i) { cs.sys.rows[i].shift_space_dimensions(Variable(0), space_dim);
    con_sys.insert[_pending](cs.sys.rows[i], Recycle_Input()); }` (`Polyhedron_chdims.cc:244`, `:288`) -/
def concatLoop (pending : Bool) (shift : Nat) : Nat → Nat → Heap → LinSys → List Row → Heap × LinSys × List Row
  | 0, _, h, x, yrows => (h, x, yrows)
  | k + 1, i, h, x, yrows =>
    match yrows[i]? with
    | some r =>
      let h₀ := h.modify r.impl (shiftCoeffs shift)
      let (h₁, x₁, r') := if pending then csInsertPendingRow h₀ x r else csInsertRow h₀ x r
      concatLoop pending shift k (i + 1) h₁ x₁ (yrows.set i r')
    | none => ({ h with fault := true }, x, yrows)

/-- The constraint-system part of `Polyhedron::concatenate_assign(const Polyhedron& y)`
    (`Polyhedron_chdims.cc:184`) for non-empty operands of positive dimension whose constraints are up to
    date: `Constraint_System cs = y.constraints();` is taken BEFORE the receiver's system is widened
    (`:219` vs `:239`), which is what makes `x.concatenate_assign(x)` safe.  The generator / saturation
    part of the pending branch is not modelled (the result's `gen_sys`, `sat_*` are left as they were). -/
def Poly.concatenateAssignCons (h : Heap) (x : Poly) (y : Arg Poly) : Heap × LinSys × Exit :=
  let yv := y.get x
  if x.nnc != yv.nnc then (h, x.conSys, .threw)
  else if x.markedEmpty || yv.markedEmpty then (h, x.conSys, .markedEmpty)
  else if yv.spaceDim == 0 || x.spaceDim == 0 then (h, x.conSys, .zeroDim)
  else if testAny x.status GS_PENDING || !testAny x.status C_UP
          || testAny yv.status GS_PENDING || !testAny yv.status C_UP then
    (h, x.conSys, .notModelled)
  else
    let (h₁, cs) := LinSys.copy h yv.conSys
    let added := cs.numRows
    let (h₂, c) := x.conSys.setSpaceDimNoOk h₁ (x.conSys.spaceDim + yv.spaceDim)
    let pending := x.canHaveSomethingPending
    let (h₃, c₁, yrows) := concatLoop pending x.spaceDim added 0 h₂ c cs.rows.impl
    let (h₄, cs₁) := LinSys.clear h₃ { cs with rows := ⟨yrows, cs.rows.cap⟩ }
    (cs₁.destroy h₄, c₁, if pending then .movedPending else .moved)

/-! ## `Congruence_System` and `Grid::add_recycled_congruences` -/

/-- `Congruence_System`: `Swapping_Vector<Congruence> rows; dimension_type space_dimension_;` -/
structure CgSys where
  rows : SVec
  spaceDim : Nat
deriving DecidableEq, Repr

/-- `Congruence::set_space_dimension(n)` (`Congruence_inlines.hh:78`) -/
def cgRowSetSpaceDim (h : Heap) (r : Row) (sd : Nat) : Heap := h.modify r.impl (fun c => resizeCoeffs c (sd + 1))

/-- `Congruence_System::set_space_dimension` (`Congruence_System.cc:92`) -/
def cgSetSpaceDimRows (sd : Nat) : Nat → Heap → List Row → Heap
  | 0, h, _ => h
  | i + 1, h, rows =>
    match rows[i]? with
    | some r => cgSetSpaceDimRows sd i (cgRowSetSpaceDim h r sd) rows
    | none => cgSetSpaceDimRows sd i { h with fault := true } rows

def CgSys.setSpaceDim (h : Heap) (s : CgSys) (sd : Nat) : Heap × CgSys :=
  if s.spaceDim != sd then (cgSetSpaceDimRows sd s.rows.size h s.rows.impl, { s with spaceDim := sd })
  else (h, s)

/-- `for (i = cgs_num_rows; i-- > 0; ) { cgs.rows[i].set_space_dimension(space_dimension());
    swap(cgs.rows[i], rows[old_num_rows + i]); }` (`Congruence_System.cc:154`) -/
def cgStealLoop (sd old : Nat) : Nat → Heap → List Row → List Row → Heap × List Row × List Row
  | 0, h, xs, ys => (h, xs, ys)
  | i + 1, h, xs, ys =>
    match ys[i]?, xs[old + i]? with
    | some yr, some xr => cgStealLoop sd old i (cgRowSetSpaceDim h yr sd) (xs.set (old + i) yr) (ys.set i xr)
    | _, _ => ({ h with fault := true }, xs, ys)

/-- `Congruence_System::clear()` (`Congruence_System_inlines.hh:159`) -/
def CgSys.clear (h : Heap) (s : CgSys) : Heap × CgSys :=
  let (h₁, rows) := s.rows.clear h
  (h₁, ⟨rows, 0⟩)

/-- `Congruence_System::insert(Congruence_System& cgs, Recycle_Input)` (`Congruence_System.cc:147`) -/
def CgSys.insertSys (h : Heap) (x y : CgSys) : Heap × CgSys × CgSys :=
  let old := x.rows.size
  let n := y.rows.size
  let (h₁, x₁) := if x.spaceDim < y.spaceDim then x.setSpaceDim h y.spaceDim else (h, x)
  let (h₂, rows) := x₁.rows.resize congruenceClass h₁ (old + n)
  let (h₃, xs, ys) := cgStealLoop x₁.spaceDim old n h₂ rows.impl y.rows.impl
  let (h₄, y₁) := CgSys.clear h₃ { y with rows := ⟨ys, y.rows.cap⟩ }
  (h₄, { x₁ with rows := ⟨xs, rows.cap⟩ }, y₁)

/-- `Congruence_System(const Congruence_System&)`: member-wise -/
def CgSys.copy (h : Heap) (y : CgSys) : Heap × CgSys :=
  let (h₁, rs) := copyRows h y.rows.impl
  (h₁, ⟨⟨rs, rs.length⟩, y.spaceDim⟩)

def CgSys.destroy (h : Heap) (s : CgSys) : Heap := s.rows.destroy h
def CgSys.owned (s : CgSys) : List Nat := Move.owned s.rows.impl

structure CgSysV where
  rows : List RowV
  spaceDim : Nat
deriving DecidableEq, Repr
def CgSys.value (h : Heap) (s : CgSys) : CgSysV := ⟨rowValues h s.rows.impl, s.spaceDim⟩

/-- the members of `Grid` that `add_recycled_congruences` touches -/
structure GridC where
  conSys : CgSys
  status : Nat
  spaceDim : Nat
deriving DecidableEq, Repr

/-- `Grid::add_recycled_congruences(Congruence_System& cgs)` (`Grid_public.cc:1339`).  In the
    zero-dimensional case only the ARGUMENT is modelled (it is not touched). -/
def GridC.addRecycledCongruences (h : Heap) (x : GridC) (cgs : CgSys) : Heap × GridC × CgSys × Exit :=
  if x.spaceDim < cgs.spaceDim then (h, x, cgs, .threw)
  else if cgs.rows.impl.isEmpty then (h, x, cgs, .noRows)
  else if testAny x.status EMPTY then (h, x, cgs, .markedEmpty)
  else if x.spaceDim == 0 then (h, x, cgs, .zeroDim)
  else if !testAny x.status C_UP then (h, x, cgs, .notModelled)
  else
    let (h₁, c, cgs₁) := x.conSys.insertSys h cgs
    (h₁, { x with conSys := c, status := resetF (resetF (resetF x.status C_MIN) G_MIN) G_UP }, cgs₁, .moved)

/-- `Grid::add_congruences(const Congruence_System& cgs)`: `Congruence_System cgs_copy = cgs;
    add_recycled_congruences(cgs_copy);` (`Grid_inlines.hh`) -/
def GridC.addCongruences (h : Heap) (x : GridC) (cgs : CgSys) : Heap × GridC × Exit :=
  let (h₁, cp) := CgSys.copy h cgs
  let (h₂, x₁, cp₁, e) := x.addRecycledCongruences h₁ cp
  (cp₁.destroy h₂, x₁, e)

/-! ## `Pointset_Powerset<PSET>` on the `Determinate` machine of `PPLV.Value.Cow` -/
namespace PS
open PPLV.Value

/-- `Powerset<D>`: `std::list<D> sequence` (the handle slots of the disjuncts, in order), `reduced`;
    `Pointset_Powerset`: `space_dim` -/
structure Pset where
  seq : List Nat
  reduced : Bool
  spaceDim : Nat
deriving DecidableEq, Repr

/-- `Pointset_Powerset<PSET>::add_disjunct(const PSET& ph)` (`Pointset_Powerset_templates.hh:44`):
    `x.sequence.push_back(Determinate<PSET>(ph)); x.reduced = false;` — the temporary `Determinate` (slot
    `tmp`) is built from a COPY of `ph`, copy-constructed into the new list node (slot `node`;
    `Determinate` declares a copy constructor, hence has no move constructor), and destroyed. -/
def addDisjunct {P : Type} (σ : Cow.State P) (x : Pset) (ph : P) (tmp node : Nat) : Cow.State P × Pset :=
  let σ₁ := Cow.step σ (.construct tmp ph)
  let σ₂ := Cow.step σ₁ (.copyCtor node tmp)
  let σ₃ := Cow.step σ₂ (.destroy tmp)
  (σ₃, { x with seq := x.seq ++ [node], reduced := false })

/-- `Pointset_Powerset<PSET>::m_swap` (`Pointset_Powerset_inlines.hh:202`) over `Powerset<D>::m_swap`
    (`Powerset_inlines.hh:126`): `std::swap(sequence, y.sequence)` relinks the list heads — no
    `Determinate` is copied, no reference count changes -/
def mSwap (x y : Pset) : Pset × Pset := (y, x)

/-- the disjuncts seen through a powerset -/
def value {P : Type} (σ : Cow.State P) (x : Pset) : List (Option P) := x.seq.map (Cow.value σ)

end PS

end PPLV.Value.Move
