import PPLV.Value.MoveRepr
import PPLV.Value.MoveProofsSys
import PPLV.Value.MoveProofsCopyKit

/-!
# C13 stage 2 — `Congruence_System` recycling (`Grid::add_recycled_congruences`) and the
representation change of a recycled argument

No Mathlib.
-/
namespace PPLV.Value.Move
open OwnsKit

namespace OwnsKit

/-! ## representation change -/

theorem setRepresentation_spec {h : Heap} {r : Row} {as : List Nat} (hO : Owns h (r.impl :: as)) :
    (Row.setRepresentation h r).2 = { r with impl := h.next }
    ∧ Owns (Row.setRepresentation h r).1 (h.next :: as)
    ∧ (Row.setRepresentation h r).2.val (Row.setRepresentation h r).1 = r.val h
    ∧ (∀ a ∈ as, (Row.setRepresentation h r).1.cells a = h.cells a)
    ∧ (Row.setRepresentation h r).1.next = h.next + 1 := by
  obtain ⟨c, hc⟩ := owns_read_some hO List.mem_cons_self
  have e : Row.setRepresentation h r = ((h.alloc c).1.free r.impl, { r with impl := h.next }) := by
    unfold Row.setRepresentation Row.copy Heap.read
    rw [hc]; rfl
  rw [e]
  have hA : Owns (h.alloc c).1 (r.impl :: h.next :: as) :=
    owns_perm (owns_alloc hO c) (List.Perm.swap _ _ _)
  have hne : h.next ≠ r.impl := fun e => owns_next_not_mem hO (e ▸ List.mem_cons_self)
  refine ⟨rfl, owns_free_head hA, ?_, fun a ha => ?_, by simp⟩
  · simp only [Row.val, Heap.read]
    rw [free_cells_of_ne _ hne, alloc_cells_self, hc]
  · have hna : a ≠ r.impl := fun e => (List.nodup_cons.1 (owns_nodup hO)).1 (e ▸ ha)
    rw [free_cells_of_ne _ hna, owns_alloc_cells_of_mem hO c (List.mem_cons_of_mem _ ha)]

theorem convertRows_cons (h : Heap) (r : Row) (rs : List Row) :
    convertRows h (r :: rs)
      = ((convertRows (Row.setRepresentation h r).1 rs).1,
          (Row.setRepresentation h r).2 :: (convertRows (Row.setRepresentation h r).1 rs).2) := rfl

theorem convertRows_spec : ∀ (rows : List Row) (h : Heap) (as : List Nat), Owns h (owned rows ++ as) →
    Owns (convertRows h rows).1 (owned (convertRows h rows).2 ++ as)
    ∧ rowValues (convertRows h rows).1 (convertRows h rows).2 = rowValues h rows
    ∧ (∀ r ∈ (convertRows h rows).2, h.next ≤ r.impl)
    ∧ (∀ a ∈ as, (convertRows h rows).1.cells a = h.cells a)
  | [], h, as, hO => ⟨hO, rfl, fun _ hr => (by cases hr), fun _ _ => rfl⟩
  | r :: rs, h, as, hO => by
    have hO' : Owns h (r.impl :: (owned rs ++ as)) := hO
    obtain ⟨s1, s2, s3, s4, s5⟩ := setRepresentation_spec hO'
    have hO1 : Owns (Row.setRepresentation h r).1 (owned rs ++ h.next :: as) :=
      owns_perm s2 (by owns_perm_tac)
    obtain ⟨i1, i2, i3, i4⟩ := convertRows_spec rs (Row.setRepresentation h r).1 (h.next :: as) hO1
    rw [convertRows_cons]
    refine ⟨?_, ?_, fun x hx => ?_, fun a ha => ?_⟩
    · refine owns_perm i1 ?_
      rw [s1]
      owns_perm_tac
    · simp only [rowValues_cons]
      rw [i2]
      congr 1
      · have hi : (Row.setRepresentation h r).2.impl = h.next := by rw [s1]
        have hv : (Row.setRepresentation h r).2.val (convertRows (Row.setRepresentation h r).1 rs).1
            = (Row.setRepresentation h r).2.val (Row.setRepresentation h r).1 :=
          row_val_congr (by rw [hi]; exact i4 h.next List.mem_cons_self)
        rw [hv, s3]
      · exact rowValues_congr (fun a ha => s4 a (List.mem_append_left _ ha))
    · rcases List.mem_cons.1 hx with rfl | hx
      · rw [s1]; exact Nat.le_refl _
      · have := i3 x hx
        omega
    · rw [i4 a (List.mem_cons_of_mem _ ha), s4 a (List.mem_append_right _ ha)]

/-! ## `Congruence_System::set_space_dimension` over all rows -/

/-- zero padding / truncation of a congruence row to space dimension `sd` -/
def padV (sd : Nat) (v : RowV) : RowV := { v with coeffs := resizeCoeffs v.coeffs (sd + 1) }

theorem cgInsertSysV_eq (x y : CgSysV) :
    cgInsertSysV x y
      = ⟨(if x.spaceDim < y.spaceDim then x.rows.map (padV (max x.spaceDim y.spaceDim)) else x.rows)
          ++ y.rows.map (padV (max x.spaceDim y.spaceDim)), max x.spaceDim y.spaceDim⟩ := rfl

theorem cgSetSpaceDimRows_succ (sd i : Nat) (h : Heap) (rows : List Row) (hi : i < rows.length) :
    cgSetSpaceDimRows sd (i + 1) h rows = cgSetSpaceDimRows sd i (cgRowSetSpaceDim h rows[i] sd) rows := by
  show (match rows[i]? with
    | some r => cgSetSpaceDimRows sd i (cgRowSetSpaceDim h r sd) rows
    | none => cgSetSpaceDimRows sd i { h with fault := true } rows) = _
  rw [List.getElem?_eq_getElem hi]

theorem cgSetSpaceDimRows_spec (sd : Nat) (rows : List Row) (as : List Nat) (hsub : ∀ r ∈ rows, r.impl ∈ as)
    (hnd : (owned rows).Nodup) : ∀ (i : Nat) (h : Heap), i ≤ rows.length → Owns h as →
    Owns (cgSetSpaceDimRows sd i h rows) as
    ∧ (∀ a, (∀ j (_ : j < i) (hjl : j < rows.length), rows[j].impl ≠ a) → (cgSetSpaceDimRows sd i h rows).cells a = h.cells a)
    ∧ (∀ j (_ : j < i) (hjl : j < rows.length),
        rows[j].val (cgSetSpaceDimRows sd i h rows) = padV sd (rows[j].val h))
  | 0, h, _, hO => ⟨hO, fun _ _ => rfl, fun j hj => absurd hj (Nat.not_lt_zero _)⟩
  | i + 1, h, hi, hO => by
    have hil : i < rows.length := hi
    rw [cgSetSpaceDimRows_succ sd i h rows hil]
    have hmem : rows[i].impl ∈ as := hsub _ (List.getElem_mem hil)
    have hO0 : Owns (cgRowSetSpaceDim h rows[i] sd) as := owns_modify hO hmem _
    obtain ⟨i1, i2, i3⟩ := cgSetSpaceDimRows_spec sd rows as hsub hnd i (cgRowSetSpaceDim h rows[i] sd) (by omega) hO0
    refine ⟨i1, fun a ha => ?_, fun j hj hjl => ?_⟩
    · rw [i2 a (fun j hj hjl => ha j (by omega) hjl)]
      exact modify_cells_of_ne h _ (fun e => ha i (by omega) hil e.symm)
    · by_cases hji : j < i
      · rw [i3 j hji hjl]
        congr 1
        apply row_val_congr
        exact modify_cells_of_ne h _ (nodup_owned_ne hnd hjl hil (by omega))
      · have hje : j = i := by omega
        subst hje
        obtain ⟨c, hc⟩ := owns_read_some hO hmem
        have h1 : (cgSetSpaceDimRows sd j (cgRowSetSpaceDim h rows[j] sd) rows).cells rows[j].impl
            = some (resizeCoeffs c (sd + 1)) := by
          rw [i2 _ (fun k hk hkl => nodup_owned_ne hnd hkl hil (by omega))]
          exact modify_cells_self _ hc
        simp [Row.val, Heap.read, h1, hc, padV]

theorem cgSetSpaceDimRows_full (sd : Nat) (rows : List Row) (as : List Nat) (h : Heap) (hsub : ∀ r ∈ rows, r.impl ∈ as)
    (hnd : (owned rows).Nodup) (hO : Owns h as) :
    Owns (cgSetSpaceDimRows sd rows.length h rows) as
    ∧ (∀ a, a ∉ owned rows → (cgSetSpaceDimRows sd rows.length h rows).cells a = h.cells a)
    ∧ rowValues (cgSetSpaceDimRows sd rows.length h rows) rows = (rowValues h rows).map (padV sd) := by
  obtain ⟨i1, i2, i3⟩ := cgSetSpaceDimRows_spec sd rows as hsub hnd rows.length h (Nat.le_refl _) hO
  refine ⟨i1, fun a ha => i2 a (fun j _ hjl e => ha (e ▸ mem_owned (List.getElem_mem hjl))), ?_⟩
  unfold rowValues
  rw [List.map_map]
  apply List.map_congr_left
  intro r hr
  obtain ⟨j, hj, rfl⟩ := List.getElem_of_mem hr
  exact i3 j hj hj

/-- the loop only reads the rows below `i` -/
theorem cgSetSpaceDimRows_congr (sd : Nat) : ∀ (i : Nat) (h : Heap) (rows rows' : List Row),
    (∀ j, j < i → rows[j]? = rows'[j]?) → cgSetSpaceDimRows sd i h rows = cgSetSpaceDimRows sd i h rows'
  | 0, _, _, _, _ => rfl
  | i + 1, h, rows, rows', hr => by
    unfold cgSetSpaceDimRows
    rw [hr i (Nat.lt_succ_self i)]
    cases rows'[i]? with
    | none => exact cgSetSpaceDimRows_congr sd i _ rows rows' (fun j hj => hr j (by omega))
    | some r => exact cgSetSpaceDimRows_congr sd i _ rows rows' (fun j hj => hr j (by omega))

/-! ## the stealing loop of `Congruence_System::insert(cgs, Recycle_Input)` -/

theorem cgStealLoop_spec (sd old : Nat) : ∀ (i : Nat) (h : Heap) (xs ys : List Row),
    i ≤ ys.length → old + i ≤ xs.length →
    (cgStealLoop sd old i h xs ys).1 = cgSetSpaceDimRows sd i h ys
    ∧ (cgStealLoop sd old i h xs ys).2.1.length = xs.length
    ∧ (cgStealLoop sd old i h xs ys).2.2.length = ys.length
    ∧ (∀ j, (cgStealLoop sd old i h xs ys).2.1[j]? = if old ≤ j ∧ j < old + i then ys[j - old]? else xs[j]?)
    ∧ (∀ j, (cgStealLoop sd old i h xs ys).2.2[j]? = if j < i then xs[old + j]? else ys[j]?)
  | 0, h, xs, ys, _, _ => by
    refine ⟨rfl, rfl, rfl, fun j => ?_, fun j => ?_⟩
    · have hn : ¬ (old ≤ j ∧ j < old + 0) := by omega
      rw [if_neg hn]; rfl
    · simp [cgStealLoop]
  | i + 1, h, xs, ys, hy, hx => by
    have hyl : i < ys.length := hy
    have hxl : old + i < xs.length := hx
    have e : cgStealLoop sd old (i + 1) h xs ys
        = cgStealLoop sd old i (cgRowSetSpaceDim h ys[i] sd) (xs.set (old + i) ys[i]) (ys.set i xs[old + i]) := by
      show (match ys[i]?, xs[old + i]? with
        | some yr, some xr => cgStealLoop sd old i (cgRowSetSpaceDim h yr sd) (xs.set (old + i) yr) (ys.set i xr)
        | _, _ => ({ h with fault := true }, xs, ys)) = _
      rw [List.getElem?_eq_getElem hyl, List.getElem?_eq_getElem hxl]
    obtain ⟨i1, i2, i3, i4, i5⟩ := cgStealLoop_spec sd old i (cgRowSetSpaceDim h ys[i] sd)
      (xs.set (old + i) ys[i]) (ys.set i xs[old + i]) (by simp; omega) (by simp; omega)
    rw [e]
    refine ⟨?_, by simpa using i2, by simpa using i3, fun j => ?_, fun j => ?_⟩
    · rw [i1, cgSetSpaceDimRows_succ sd i h ys hyl]
      apply cgSetSpaceDimRows_congr
      intro j hj
      rw [List.getElem?_set_ne (by omega)]
    · rw [i4 j]
      by_cases h1 : old ≤ j ∧ j < old + i
      · have h2 : old ≤ j ∧ j < old + (i + 1) := by omega
        rw [if_pos h1, if_pos h2, List.getElem?_set_ne (by omega)]
      · rw [if_neg h1]
        by_cases h3 : j = old + i
        · have h2 : old ≤ j ∧ j < old + (i + 1) := by omega
          rw [if_pos h2]
          subst h3
          have : old + i - old = i := by omega
          rw [this, List.getElem?_set_self hxl, List.getElem?_eq_getElem hyl]
        · have h2 : ¬ (old ≤ j ∧ j < old + (i + 1)) := by omega
          rw [if_neg h2, List.getElem?_set_ne (by omega)]
    · rw [i5 j]
      by_cases h1 : j < i
      · have h2 : j < i + 1 := by omega
        rw [if_pos h1, if_pos h2, List.getElem?_set_ne (by omega)]
      · rw [if_neg h1]
        by_cases h3 : j = i
        · subst h3
          rw [if_pos (Nat.lt_succ_self j), List.getElem?_set_self hyl, List.getElem?_eq_getElem hxl]
        · have h2 : ¬ j < i + 1 := by omega
          rw [if_neg h2, List.getElem?_set_ne (by omega)]

/-- the loop moves all rows of `ys` behind `xr` and hands the default rows `ds` back -/
theorem cgStealLoop_full (sd : Nat) (h : Heap) (xr ds ys : List Row) (hl : ds.length = ys.length) :
    cgStealLoop sd xr.length ys.length h (xr ++ ds) ys
      = (cgSetSpaceDimRows sd ys.length h ys, xr ++ ys, ds) := by
  obtain ⟨i1, i2, i3, i4, i5⟩ := cgStealLoop_spec sd xr.length ys.length h (xr ++ ds) ys (Nat.le_refl _)
    (by simp [hl])
  have e1 : (cgStealLoop sd xr.length ys.length h (xr ++ ds) ys).2.1 = xr ++ ys := by
    apply List.ext_getElem?
    intro j
    rw [i4 j]
    by_cases h1 : xr.length ≤ j ∧ j < xr.length + ys.length
    · rw [if_pos h1, List.getElem?_append_right h1.1]
    · rw [if_neg h1]
      by_cases h2 : j < xr.length
      · rw [List.getElem?_append_left h2, List.getElem?_append_left h2]
      · rw [List.getElem?_eq_none (by simp; omega), List.getElem?_eq_none (by simp; omega)]
  have e2 : (cgStealLoop sd xr.length ys.length h (xr ++ ds) ys).2.2 = ds := by
    apply List.ext_getElem?
    intro j
    rw [i5 j]
    by_cases h1 : j < ys.length
    · rw [if_pos h1, List.getElem?_append_right (by omega)]
      congr 1; omega
    · rw [if_neg h1, List.getElem?_eq_none (by omega), List.getElem?_eq_none (by omega)]
  exact Prod.ext i1 (Prod.ext e1 e2)

/-! ## the pieces of `Congruence_System::insert(cgs, Recycle_Input)` -/

/-- the dimension adjustment of the receiver -/
def cgAdjust (h : Heap) (x y : CgSys) : Heap × CgSys :=
  if x.spaceDim < y.spaceDim then x.setSpaceDim h y.spaceDim else (h, x)

theorem cgInsertSys_unfold (h : Heap) (x y : CgSys) :
    x.insertSys h y
      = ((CgSys.clear
            (cgStealLoop (cgAdjust h x y).2.spaceDim x.rows.size y.rows.size
              ((cgAdjust h x y).2.rows.resize congruenceClass (cgAdjust h x y).1 (x.rows.size + y.rows.size)).1
              ((cgAdjust h x y).2.rows.resize congruenceClass (cgAdjust h x y).1 (x.rows.size + y.rows.size)).2.impl
              y.rows.impl).1
            { y with rows := ⟨(cgStealLoop (cgAdjust h x y).2.spaceDim x.rows.size y.rows.size
              ((cgAdjust h x y).2.rows.resize congruenceClass (cgAdjust h x y).1 (x.rows.size + y.rows.size)).1
              ((cgAdjust h x y).2.rows.resize congruenceClass (cgAdjust h x y).1 (x.rows.size + y.rows.size)).2.impl
              y.rows.impl).2.2, y.rows.cap⟩ }).1,
         { (cgAdjust h x y).2 with rows := ⟨(cgStealLoop (cgAdjust h x y).2.spaceDim x.rows.size y.rows.size
              ((cgAdjust h x y).2.rows.resize congruenceClass (cgAdjust h x y).1 (x.rows.size + y.rows.size)).1
              ((cgAdjust h x y).2.rows.resize congruenceClass (cgAdjust h x y).1 (x.rows.size + y.rows.size)).2.impl
              y.rows.impl).2.1,
              ((cgAdjust h x y).2.rows.resize congruenceClass (cgAdjust h x y).1 (x.rows.size + y.rows.size)).2.cap⟩ },
         (CgSys.clear
            (cgStealLoop (cgAdjust h x y).2.spaceDim x.rows.size y.rows.size
              ((cgAdjust h x y).2.rows.resize congruenceClass (cgAdjust h x y).1 (x.rows.size + y.rows.size)).1
              ((cgAdjust h x y).2.rows.resize congruenceClass (cgAdjust h x y).1 (x.rows.size + y.rows.size)).2.impl
              y.rows.impl).1
            { y with rows := ⟨(cgStealLoop (cgAdjust h x y).2.spaceDim x.rows.size y.rows.size
              ((cgAdjust h x y).2.rows.resize congruenceClass (cgAdjust h x y).1 (x.rows.size + y.rows.size)).1
              ((cgAdjust h x y).2.rows.resize congruenceClass (cgAdjust h x y).1 (x.rows.size + y.rows.size)).2.impl
              y.rows.impl).2.2, y.rows.cap⟩ }).2) := rfl

theorem cgAdjust_spec (h : Heap) (x y : CgSys) (frame : List Nat) (hO : Owns h (x.owned ++ y.owned ++ frame)) :
    Owns (cgAdjust h x y).1 (x.owned ++ y.owned ++ frame)
    ∧ (cgAdjust h x y).2 = ⟨x.rows, max x.spaceDim y.spaceDim⟩
    ∧ rowValues (cgAdjust h x y).1 x.rows.impl
        = (if x.spaceDim < y.spaceDim then (rowValues h x.rows.impl).map (padV (max x.spaceDim y.spaceDim))
           else rowValues h x.rows.impl)
    ∧ (∀ a ∈ y.owned ++ frame, (cgAdjust h x y).1.cells a = h.cells a) := by
  unfold cgAdjust
  by_cases hlt : x.spaceDim < y.spaceDim
  · have hmax : max x.spaceDim y.spaceDim = y.spaceDim := by omega
    have hne : (x.spaceDim != y.spaceDim) = true := by simp; omega
    have e : x.setSpaceDim h y.spaceDim
        = (cgSetSpaceDimRows y.spaceDim x.rows.impl.length h x.rows.impl, ⟨x.rows, y.spaceDim⟩) := by
      unfold CgSys.setSpaceDim
      rw [if_pos hne]; rfl
    rw [if_pos hlt, if_pos hlt, hmax, e]
    have hnd : (owned x.rows.impl).Nodup := (List.nodup_append.1 (owns_nodup_left hO)).1
    obtain ⟨i1, i2, i3⟩ := cgSetSpaceDimRows_full y.spaceDim x.rows.impl _ h
      (fun r hr => List.mem_append_left _ (List.mem_append_left _ (mem_owned hr))) hnd hO
    refine ⟨i1, rfl, i3, fun a ha => i2 a (fun hm => ?_)⟩
    have hO' : Owns h (x.owned ++ (y.owned ++ frame)) := by rw [← List.append_assoc]; exact hO
    exact owns_ne_of_mem_append hO' hm ha rfl
  · have hmax : max x.spaceDim y.spaceDim = x.spaceDim := by omega
    rw [if_neg hlt, if_neg hlt, hmax]
    exact ⟨hO, rfl, rfl, fun _ _ => rfl⟩

end OwnsKit

/-! ## interface lemmas -/

theorem cgInsertSys_refines (h : Heap) (x y : CgSys) (frame : List Nat)
    (hO : Owns h (x.owned ++ y.owned ++ frame)) :
    let out := x.insertSys h y
    Owns out.1 (out.2.1.owned ++ frame)
    ∧ out.2.1.value out.1 = cgInsertSysV (x.value h) (y.value h)
    ∧ out.2.2.value out.1 = ⟨[], 0⟩ ∧ out.2.2.owned = []
    ∧ FrameEq h out.1 frame := by
  intro out
  have hout : out = _ := cgInsertSys_unfold h x y
  obtain ⟨a1, a2, a3, a4⟩ := cgAdjust_spec h x y frame hO
  generalize cgAdjust h x y = p at a1 a2 a3 a4 hout
  obtain ⟨h1, x1⟩ := p
  simp only at a1 a2 a3 a4 hout
  subst a2
  simp only at hout
  -- resize
  have hO1 : Owns h1 (owned x.rows.impl ++ (y.owned ++ frame)) := by
    rw [← List.append_assoc]; exact a1
  obtain ⟨g1, g2, _, g4, g5⟩ :=
    resize_grow_refines congruenceClass h1 x.rows (x.rows.size + y.rows.size) (y.owned ++ frame) hO1 (Nat.le_add_right _ _)
  generalize x.rows.resize congruenceClass h1 (x.rows.size + y.rows.size) = q at g1 g2 g4 g5 hout
  obtain ⟨h2, ⟨impl2, cap2⟩⟩ := q
  simp only at g1 g2 g4 g5 hout
  have himpl : impl2 = x.rows.impl ++ impl2.drop x.rows.size := by
    conv => lhs; rw [← List.take_append_drop x.rows.size impl2, g1]
  have hdl : (impl2.drop x.rows.size).length = y.rows.impl.length := by
    have : impl2.length = x.rows.size + y.rows.size := g2
    rw [List.length_drop, this]
    show x.rows.size + y.rows.impl.length - x.rows.size = _
    omega
  generalize impl2.drop x.rows.size = ds at himpl hdl
  subst himpl
  -- the stealing loop
  have hsteal := cgStealLoop_full (max x.spaceDim y.spaceDim) h2 x.rows.impl ds y.rows.impl hdl
  simp only [SVec.size] at hout
  rw [hsteal] at hout
  simp only at hout
  have hO2 : Owns h2 (owned (x.rows.impl ++ ds) ++ (owned y.rows.impl ++ frame)) := g4
  have hndy : (owned y.rows.impl).Nodup := (List.nodup_append.1 (owns_nodup_right hO2)).1
  obtain ⟨s1, s2, s3⟩ := cgSetSpaceDimRows_full (max x.spaceDim y.spaceDim) y.rows.impl _ h2
    (fun r hr => List.mem_append_right _ (List.mem_append_left _ (mem_owned hr))) hndy hO2
  generalize cgSetSpaceDimRows (max x.spaceDim y.spaceDim) y.rows.impl.length h2 y.rows.impl = h3 at s1 s2 s3 hout
  -- clear
  have hO3 : Owns h3 (owned (⟨ds, y.rows.cap⟩ : SVec).impl ++ (owned (x.rows.impl ++ y.rows.impl) ++ frame)) := by
    refine owns_perm s1 ?_
    owns_perm_tac
  obtain ⟨_, c1, c2⟩ := Move.clear_refines h3 ⟨ds, y.rows.cap⟩ _ hO3
  rw [hout]
  refine ⟨c1, ?_, rfl, rfl, fun a ha => ?_⟩
  · show (⟨rowValues (SVec.clear h3 ⟨ds, y.rows.cap⟩).1 (x.rows.impl ++ y.rows.impl), max x.spaceDim y.spaceDim⟩ : CgSysV) = _
    rw [cgInsertSysV_eq]
    have e1 : rowValues (SVec.clear h3 ⟨ds, y.rows.cap⟩).1 (x.rows.impl ++ y.rows.impl)
        = rowValues h3 (x.rows.impl ++ y.rows.impl) := rowValues_congr (frameEq_append_left c2)
    have hxy : ∀ a ∈ owned x.rows.impl, a ∉ owned y.rows.impl := by
      intro a ha hm
      exact owns_ne_of_mem_append hO2 (by simp [ha]) (List.mem_append_left _ hm) rfl
    have e2 : rowValues h3 x.rows.impl = rowValues h1 x.rows.impl := by
      have : rowValues h3 x.rows.impl = rowValues h2 x.rows.impl :=
        rowValues_congr (fun a ha => s2 a (hxy a ha))
      rw [this]
      exact rowValues_congr (fun a ha => g5 a (List.mem_append_left _ ha))
    have e3 : rowValues h2 y.rows.impl = rowValues h y.rows.impl := by
      have : rowValues h2 y.rows.impl = rowValues h1 y.rows.impl :=
        rowValues_congr (fun a ha => g5 a (List.mem_append_right _ (List.mem_append_left _ ha)))
      rw [this]
      exact rowValues_congr (fun a ha => a4 a (List.mem_append_left _ ha))
    rw [e1, rowValues_append, e2, s3, e3, a3]
    rfl
  · show (SVec.clear h3 ⟨ds, y.rows.cap⟩).1.cells a = h.cells a
    rw [c2 a (List.mem_append_right _ ha)]
    have hay : a ∉ owned y.rows.impl := fun hm =>
      owns_ne_of_mem_append hO (List.mem_append_right _ hm) ha rfl
    rw [s2 a hay, g5 a (List.mem_append_right _ (List.mem_append_right _ ha)), a4 a (List.mem_append_right _ ha)]

theorem CgSys.copy_refines (h : Heap) (y : CgSys) (frame : List Nat) (hO : Owns h (y.owned ++ frame)) :
    let out := CgSys.copy h y
    Owns out.1 (out.2.owned ++ y.owned ++ frame) ∧ out.2.value out.1 = y.value h
    ∧ FrameEq h out.1 (y.owned ++ frame) := by
  intro out
  obtain ⟨i1, i2, i3, _⟩ := CopyKit.copyRows_spec y.rows.impl h (y.owned ++ frame) hO
    (fun r hr => List.mem_append_left _ (mem_owned hr))
  refine ⟨?_, ?_, i3⟩
  · show Owns (copyRows h y.rows.impl).1 (Move.owned (copyRows h y.rows.impl).2 ++ y.owned ++ frame)
    rw [List.append_assoc]; exact i1
  · show (⟨rowValues (copyRows h y.rows.impl).1 (copyRows h y.rows.impl).2, y.spaceDim⟩ : CgSysV) = _
    rw [i2]; rfl

/-- representation change: same values, all storage new, old storage deleted -/
theorem convertRows_refines (h : Heap) (rows : List Row) (frame : List Nat) (hO : Owns h (owned rows ++ frame)) :
    let out := convertRows h rows
    Owns out.1 (owned out.2 ++ frame) ∧ rowValues out.1 out.2 = rowValues h rows
    ∧ (∀ r ∈ out.2, h.next ≤ r.impl) ∧ FrameEq h out.1 frame :=
  convertRows_spec rows h frame hO

/-! ## `Grid::add_recycled_congruences` -/

namespace OwnsKit

/-- the early exits of `Grid::add_recycled_congruences`: they only look at the argument's dimension and
    whether it has rows -/
def cgGuardExit (x : GridC) (sd : Nat) (emp : Bool) : Option Exit :=
  if x.spaceDim < sd then some .threw
  else if emp then some .noRows
  else if testAny x.status EMPTY then some .markedEmpty
  else if x.spaceDim == 0 then some .zeroDim
  else if !testAny x.status C_UP then some .notModelled
  else none

theorem addRecycledCongruences_cases (h : Heap) (x : GridC) (cgs : CgSys) :
    (∃ e, e ≠ Exit.moved ∧ cgGuardExit x cgs.spaceDim cgs.rows.impl.isEmpty = some e
        ∧ x.addRecycledCongruences h cgs = (h, x, cgs, e))
    ∨ (cgGuardExit x cgs.spaceDim cgs.rows.impl.isEmpty = none
        ∧ x.addRecycledCongruences h cgs
          = ((x.conSys.insertSys h cgs).1,
              { x with conSys := (x.conSys.insertSys h cgs).2.1,
                       status := resetF (resetF (resetF x.status C_MIN) G_MIN) G_UP },
              (x.conSys.insertSys h cgs).2.2, .moved)) := by
  unfold GridC.addRecycledCongruences cgGuardExit
  by_cases c1 : x.spaceDim < cgs.spaceDim
  · left; exact ⟨.threw, by decide, by simp [c1], by simp [c1]⟩
  · by_cases c2 : cgs.rows.impl.isEmpty = true
    · left; exact ⟨.noRows, by decide, by simp [c1, c2], by simp [c1, c2]⟩
    · by_cases c3 : testAny x.status EMPTY = true
      · left; exact ⟨.markedEmpty, by decide, by simp [c1, c2, c3], by simp [c1, c2, c3]⟩
      · by_cases c4 : (x.spaceDim == 0) = true
        · left; exact ⟨.zeroDim, by decide, by simp [c1, c2, c3, c4], by simp [c1, c2, c3, c4]⟩
        · by_cases c5 : (!testAny x.status C_UP) = true
          · left; exact ⟨.notModelled, by decide, by simp [c1, c2, c3, c4, c5], by simp [c1, c2, c3, c4, c5]⟩
          · right
            rw [if_neg c1, if_neg c2, if_neg c3, if_neg c4, if_neg c5,
              if_neg c1, if_neg c2, if_neg c3, if_neg c4, if_neg c5]
            exact ⟨rfl, rfl⟩

theorem addCongruences_unfold (h : Heap) (x : GridC) (cgs : CgSys) :
    x.addCongruences h cgs
      = ((x.addRecycledCongruences (CgSys.copy h cgs).1 (CgSys.copy h cgs).2).2.2.1.destroy
            (x.addRecycledCongruences (CgSys.copy h cgs).1 (CgSys.copy h cgs).2).1,
         (x.addRecycledCongruences (CgSys.copy h cgs).1 (CgSys.copy h cgs).2).2.1,
         (x.addRecycledCongruences (CgSys.copy h cgs).1 (CgSys.copy h cgs).2).2.2.2) := rfl

theorem cgSys_value_congr {h h' : Heap} {s : CgSys} (hf : FrameEq h h' s.owned) : s.value h' = s.value h := by
  unfold CgSys.value
  rw [rowValues_congr hf]

theorem copy_guard (h : Heap) (x : GridC) (cgs : CgSys) :
    cgGuardExit x (CgSys.copy h cgs).2.spaceDim (CgSys.copy h cgs).2.rows.impl.isEmpty
      = cgGuardExit x cgs.spaceDim cgs.rows.impl.isEmpty := by
  have hl : (copyRows h cgs.rows.impl).2.length = cgs.rows.impl.length := by
    generalize cgs.rows.impl = rows
    induction rows generalizing h with
    | nil => rfl
    | cons r rs ih =>
      show ((Row.copy h r).2 :: (copyRows (Row.copy h r).1 rs).2).length = _
      simp [ih]
  have he : (CgSys.copy h cgs).2.rows.impl.isEmpty = cgs.rows.impl.isEmpty := by
    show (copyRows h cgs.rows.impl).2.isEmpty = _
    generalize (copyRows h cgs.rows.impl).2 = a at hl
    generalize cgs.rows.impl = b at hl
    cases a <;> cases b <;> simp_all
  rw [he]
  rfl

theorem owned_eq_nil {rows : List Row} (ho : owned rows = []) : rows = [] := List.map_eq_nil_iff.1 ho

end OwnsKit
end PPLV.Value.Move

namespace C13Proofs
open PPLV.Value PPLV.Value.Move PPLV.Value.Move.OwnsKit

/-- `gr.add_recycled_congruences(cgs)` and `gr.add_congruences(cgs)` give the receiver the same value -/
theorem recycled_congruences_eq_copy (h : Heap) (x : GridC) (cgs : CgSys) (frame : List Nat)
    (hO : Owns h (x.conSys.owned ++ cgs.owned ++ frame)) :
    (x.addRecycledCongruences h cgs).2.1.value (x.addRecycledCongruences h cgs).1
      = (x.addCongruences h cgs).2.1.value (x.addCongruences h cgs).1
    ∧ (x.addRecycledCongruences h cgs).2.2.2 = (x.addCongruences h cgs).2.2 := by
  have hOc : Owns h (cgs.owned ++ (x.conSys.owned ++ frame)) := owns_perm hO (by unfold CgSys.owned; owns_perm_tac)
  obtain ⟨k1, k2, k3⟩ := CgSys.copy_refines h cgs (x.conSys.owned ++ frame) hOc
  have hg := copy_guard h x cgs
  rw [addCongruences_unfold]
  generalize CgSys.copy h cgs = p at k1 k2 k3 hg
  obtain ⟨h1, cp⟩ := p
  simp only at k1 k2 k3 hg ⊢
  have hxf : FrameEq h h1 x.conSys.owned := frameEq_append_left (frameEq_append_right k3)
  rcases addRecycledCongruences_cases h x cgs with ⟨e, _, ge, he⟩ | ⟨ge, he⟩
  · rw [← hg] at ge
    rcases addRecycledCongruences_cases h1 x cp with ⟨e', _, ge', he'⟩ | ⟨ge', _⟩
    · have : e' = e := by rw [ge'] at ge; exact Option.some.inj ge
      subst this
      rw [he, he']
      refine ⟨?_, rfl⟩
      show (⟨x.conSys.value h, x.status, x.spaceDim⟩ : GridCV) = ⟨x.conSys.value (cp.destroy h1), x.status, x.spaceDim⟩
      have hd := (destroyRows_refines h1 cp.rows.impl _ (by rw [← List.append_assoc]; exact k1)).2
      have : FrameEq h (cp.destroy h1) x.conSys.owned :=
        frameEq_trans hxf (frameEq_append_left (frameEq_append_right hd))
      rw [cgSys_value_congr this]
    · rw [ge'] at ge; cases ge
  · rw [← hg] at ge
    rcases addRecycledCongruences_cases h1 x cp with ⟨e', _, ge', _⟩ | ⟨_, he'⟩
    · rw [ge'] at ge; cases ge
    · rw [he, he']
      refine ⟨?_, rfl⟩
      obtain ⟨_, l2, _, _, _⟩ := cgInsertSys_refines h x.conSys cgs frame hO
      have hO1 : Owns h1 (x.conSys.owned ++ cp.owned ++ (cgs.owned ++ frame)) :=
        owns_perm k1 (by unfold CgSys.owned; owns_perm_tac)
      obtain ⟨_, r2, _, r4, _⟩ := cgInsertSys_refines h1 x.conSys cp (cgs.owned ++ frame) hO1
      have hnil : (x.conSys.insertSys h1 cp).2.2.rows.impl = [] := owned_eq_nil r4
      have hd : (x.conSys.insertSys h1 cp).2.2.destroy (x.conSys.insertSys h1 cp).1 = (x.conSys.insertSys h1 cp).1 := by
        unfold CgSys.destroy SVec.destroy
        rw [hnil]; rfl
      rw [hd]
      show (⟨(x.conSys.insertSys h cgs).2.1.value (x.conSys.insertSys h cgs).1, _, x.spaceDim⟩ : GridCV)
        = ⟨(x.conSys.insertSys h1 cp).2.1.value (x.conSys.insertSys h1 cp).1, _, x.spaceDim⟩
      rw [l2, r2, k2, cgSys_value_congr hxf]

/-- the argument of `Grid::add_recycled_congruences` afterwards: untouched, or (rows moved) the EMPTY
congruence system of space dimension 0 owning no storage; nothing leaked, nothing owned twice -/
theorem recycled_congruences_argument_valid (h : Heap) (x : GridC) (cgs : CgSys) (frame : List Nat)
    (hO : Owns h (x.conSys.owned ++ cgs.owned ++ frame)) :
    let out := x.addRecycledCongruences h cgs
    Owns out.1 (out.2.1.conSys.owned ++ out.2.2.1.owned ++ frame) ∧ FrameEq h out.1 frame
    ∧ (out.2.2.2 = .moved → out.2.2.1.value out.1 = ⟨[], 0⟩ ∧ out.2.2.1.owned = [])
    ∧ (out.2.2.2 ≠ .moved → out.2.2.1 = cgs) := by
  intro out
  rcases addRecycledCongruences_cases h x cgs with ⟨e, hne, _, he⟩ | ⟨_, he⟩
  · have hout : out = (h, x, cgs, e) := he
    rw [hout]
    exact ⟨hO, frameEq_refl h frame, fun hm => absurd hm hne, fun _ => rfl⟩
  · have hout : out = _ := he
    obtain ⟨l1, _, l3, l4, l5⟩ := cgInsertSys_refines h x.conSys cgs frame hO
    rw [hout]
    simp only at l1 l3 l4 l5 ⊢
    refine ⟨?_, l5, fun _ => ⟨l3, l4⟩, fun hm => absurd rfl hm⟩
    rw [l4, List.append_nil]
    exact l1

/-- a sparse system recycled into a dense polyhedron: the converted argument has the same value, so the
receiver gets the same value as without conversion (only the storage is new) -/
theorem converted_same_value (h : Heap) (y : LinSys) (frame : List Nat) (hO : Owns h (y.owned ++ frame)) :
    let out := y.converted h
    Owns out.1 (out.2.owned ++ frame) ∧ out.2.value out.1 = y.value h
    ∧ (∀ a ∈ out.2.owned, h.next ≤ a) ∧ FrameEq h out.1 frame := by
  intro out
  obtain ⟨c1, c2, c3, c4⟩ := convertRows_refines h y.rows.impl frame hO
  have hout : out = ((convertRows h y.rows.impl).1, { y with rows := ⟨(convertRows h y.rows.impl).2, y.rows.cap⟩ }) := rfl
  rw [hout]
  refine ⟨c1, ?_, fun a ha => ?_, c4⟩
  · show (⟨rowValues _ (convertRows h y.rows.impl).2, y.spaceDim, y.nnc, y.firstPending, y.sorted⟩ : LinSysV) = _
    rw [c2]; rfl
  · obtain ⟨r, hr, rfl⟩ := List.mem_map.1 ha
    exact c3 r hr

end C13Proofs
