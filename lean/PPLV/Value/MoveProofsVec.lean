import PPLV.Value.MoveProofsOwn

/-!
# C13 stage 2 — `Swapping_Vector`: refinement lemmas (reserve / resize / clear / destroy)

No Mathlib.
-/
namespace PPLV.Value.Move
open OwnsKit

namespace OwnsKit

/-! ## `destroyRows` -/

theorem destroyRows_spec : ∀ (rows : List Row) (h : Heap) (frame : List Nat), Owns h (owned rows ++ frame) →
    Owns (destroyRows h rows) frame
    ∧ (∀ a, a ∉ owned rows → (destroyRows h rows).cells a = h.cells a)
    ∧ (destroyRows h rows).next = h.next
  | [], h, frame, hO => ⟨hO, fun _ _ => rfl, rfl⟩
  | r :: rs, h, frame, hO => by
    have hO' : Owns h (r.impl :: (owned rs ++ frame)) := hO
    have h0 := owns_free_head hO'
    obtain ⟨i1, i2, i3⟩ := destroyRows_spec rs (h.free r.impl) frame h0
    refine ⟨i1, fun a ha => ?_, ?_⟩
    · have hne : a ≠ r.impl := fun e => ha (by simp [e])
      have hnm : a ∉ owned rs := fun e => ha (by simp [e])
      show (destroyRows (h.free r.impl) rs).cells a = _
      rw [i2 a hnm, free_cells_of_ne h hne]
    · show (destroyRows (h.free r.impl) rs).next = _
      rw [i3, free_next]

/-! ## `allocDefaults` -/

theorem allocDefaults_succ (K : RowClass) (n : Nat) (h : Heap) :
    allocDefaults K (n + 1) h
      = ((allocDefaults K n (h.alloc K.dfltCell).1).1,
          ⟨h.next, K.dfltTag, false⟩ :: (allocDefaults K n (h.alloc K.dfltCell).1).2) := rfl

theorem allocDefaults_spec (K : RowClass) : ∀ (n : Nat) (h : Heap) (as : List Nat), Owns h as →
    (allocDefaults K n h).2.length = n
    ∧ Owns (allocDefaults K n h).1 (owned (allocDefaults K n h).2 ++ as)
    ∧ (∀ a, a < h.next → (allocDefaults K n h).1.cells a = h.cells a)
    ∧ (∀ r ∈ (allocDefaults K n h).2, r.val (allocDefaults K n h).1 = dfltV K)
    ∧ h.next ≤ (allocDefaults K n h).1.next
  | 0, h, as, hO => ⟨rfl, hO, fun _ _ => rfl, fun _ hr => (by cases hr), Nat.le_refl _⟩
  | n + 1, h, as, hO => by
    have hA := owns_alloc hO K.dfltCell
    obtain ⟨i1, i2, i3, i4, i5⟩ := allocDefaults_spec K n (h.alloc K.dfltCell).1 (h.next :: as) hA
    rw [allocDefaults_succ]
    simp only [alloc_next] at i3 i5
    refine ⟨by simp [i1], ?_, fun a ha => ?_, fun r hr => ?_, ?_⟩
    rotate_right
    · show h.next ≤ (allocDefaults K n (h.alloc K.dfltCell).1).1.next
      omega
    · refine owns_perm i2 ?_
      simp only [owned_cons, List.cons_append]
      exact List.perm_middle
    · rw [i3 a (by omega), alloc_cells_of_ne h _ (by omega)]
    · rcases List.mem_cons.1 hr with rfl | hr
      · simp only [Row.val, Heap.read, dfltV]
        rw [i3 h.next (by omega), alloc_cells_self]; rfl
      · exact i4 r hr

/-! ## the stealing loop of `reserve` -/

theorem swapAt_of_lt {i : Nat} {a b : List Row} (ha : i < a.length) (hb : i < b.length) :
    swapAt i a b = (a.set i b[i], b.set i a[i]) := by
  simp [swapAt, List.getElem?_eq_getElem ha, List.getElem?_eq_getElem hb]

theorem stealLoop_getElem? : ∀ (i : Nat) (a b : List Row), a.length = b.length → i ≤ a.length →
    (stealLoop i a b).1.length = a.length ∧ (stealLoop i a b).2.length = a.length
    ∧ (∀ j, (stealLoop i a b).1[j]? = if j < i then b[j]? else a[j]?)
    ∧ (∀ j, (stealLoop i a b).2[j]? = if j < i then a[j]? else b[j]?)
  | 0, a, b, hl, _ => by simp [stealLoop, hl]
  | i + 1, a, b, hl, hi => by
    have ha : i < a.length := hi
    have hb : i < b.length := hl ▸ hi
    have e : stealLoop (i + 1) a b = stealLoop i (a.set i b[i]) (b.set i a[i]) := by
      show (match swapAt i a b with | (a', b') => stealLoop i a' b') = _
      rw [swapAt_of_lt ha hb]
    obtain ⟨i1, i2, i3, i4⟩ := stealLoop_getElem? i (a.set i b[i]) (b.set i a[i]) (by simp [hl]) (by simp; omega)
    rw [e]
    refine ⟨by simpa using i1, by simpa using i2, fun j => ?_, fun j => ?_⟩
    · rw [i3 j]
      by_cases h1 : j < i
      · have : j < i + 1 := by omega
        have hne : i ≠ j := by omega
        simp [h1, this, hne]
      · by_cases h2 : j = i
        · subst h2; simp [hb, ha]
        · have : ¬ j < i + 1 := by omega
          have hne : i ≠ j := fun e => h2 e.symm
          simp [h1, this, hne]
    · rw [i4 j]
      by_cases h1 : j < i
      · have : j < i + 1 := by omega
        have hne : i ≠ j := by omega
        simp [h1, this, hne]
      · by_cases h2 : j = i
        · subst h2; simp [hb, ha]
        · have : ¬ j < i + 1 := by omega
          have hne : i ≠ j := fun e => h2 e.symm
          simp [h1, this, hne]

/-- the loop of `reserve` exchanges the two vectors -/
theorem stealLoop_full (n : Nat) (a b : List Row) (ha : a.length = n) (hb : b.length = n) :
    stealLoop n a b = (b, a) := by
  obtain ⟨i1, i2, i3, i4⟩ := stealLoop_getElem? n a b (ha.trans hb.symm) (by omega)
  have e1 : (stealLoop n a b).1 = b := by
    apply List.ext_getElem?
    intro j
    rw [i3 j]
    by_cases hj : j < n
    · simp [hj]
    · simp only [hj, if_false]
      rw [List.getElem?_eq_none (by omega), List.getElem?_eq_none (by omega)]
  have e2 : (stealLoop n a b).2 = a := by
    apply List.ext_getElem?
    intro j
    rw [i4 j]
    by_cases hj : j < n
    · simp [hj]
    · simp only [hj, if_false]
      rw [List.getElem?_eq_none (by omega), List.getElem?_eq_none (by omega)]
  exact Prod.ext e1 e2

theorem reserve_of_lt (K : RowClass) (h : Heap) (v : SVec) (c : Nat) (hc : v.cap < c) :
    v.reserve K h c
      = (destroyRows (allocDefaults K v.size h).1 (allocDefaults K v.size h).2,
          ⟨v.impl, computeCapacity c maxNumRows⟩) := by
  have hlen : (allocDefaults K v.size h).2.length = v.size := by
    clear hc
    generalize v.size = n
    induction n generalizing h with
    | zero => rfl
    | succ n ih => rw [allocDefaults_succ]; simp [ih]
  have hs := stealLoop_full v.size (allocDefaults K v.size h).2 v.impl hlen rfl
  unfold SVec.reserve
  simp only [hc, if_true]
  show (destroyRows (allocDefaults K v.size h).1 (stealLoop v.size (allocDefaults K v.size h).2 v.impl).2,
    (⟨(stealLoop v.size (allocDefaults K v.size h).2 v.impl).1, _⟩ : SVec)) = _
  rw [hs]

theorem reserve_of_not_lt (K : RowClass) (h : Heap) (v : SVec) (c : Nat) (hc : ¬ v.cap < c) :
    v.reserve K h c = (h, v) := by
  unfold SVec.reserve
  simp [hc]

theorem resize_eq (K : RowClass) (h : Heap) (v : SVec) (n : Nat) :
    v.resize K h n = stdResize K (v.reserve K h n).1 (v.reserve K h n).2 n := rfl

end OwnsKit

/-! ## the interface lemmas -/

theorem destroyRows_refines (h : Heap) (rows : List Row) (frame : List Nat) (hO : Owns h (owned rows ++ frame)) :
    Owns (destroyRows h rows) frame ∧ FrameEq h (destroyRows h rows) frame := by
  obtain ⟨i1, i2, _⟩ := destroyRows_spec rows h frame hO
  exact ⟨i1, fun a ha => i2 a (fun hm => owns_ne_of_mem_append hO hm ha rfl)⟩

theorem reserve_refines (K : RowClass) (h : Heap) (v : SVec) (c : Nat) (frame : List Nat)
    (hO : Owns h (owned v.impl ++ frame)) :
    (v.reserve K h c).2.impl = v.impl ∧ Owns (v.reserve K h c).1 (owned v.impl ++ frame)
    ∧ (∀ a ∈ owned v.impl ++ frame, (v.reserve K h c).1.cells a = h.cells a) := by
  by_cases hc : v.cap < c
  · rw [reserve_of_lt K h v c hc]
    obtain ⟨_, i2, i3, _, _⟩ := allocDefaults_spec K v.size h _ hO
    obtain ⟨j1, j2⟩ := destroyRows_refines _ _ _ i2
    exact ⟨rfl, j1, fun a ha => (j2 a ha).trans (i3 a (owns_lt_next hO ha))⟩
  · rw [reserve_of_not_lt K h v c hc]
    exact ⟨rfl, hO, fun _ _ => rfl⟩

theorem resize_grow_refines (K : RowClass) (h : Heap) (v : SVec) (n : Nat) (frame : List Nat)
    (hO : Owns h (owned v.impl ++ frame)) (hn : v.size ≤ n) :
    (v.resize K h n).2.impl.take v.size = v.impl ∧ (v.resize K h n).2.size = n
    ∧ (∀ r ∈ (v.resize K h n).2.impl.drop v.size, r.val (v.resize K h n).1 = dfltV K)
    ∧ Owns (v.resize K h n).1 (owned (v.resize K h n).2.impl ++ frame)
    ∧ (∀ a ∈ owned v.impl ++ frame, (v.resize K h n).1.cells a = h.cells a) := by
  obtain ⟨r1, r2, r3⟩ := reserve_refines K h v n frame hO
  rw [resize_eq]
  generalize v.reserve K h n = p at r1 r2 r3
  obtain ⟨h1, ⟨impl1, cap1⟩⟩ := p
  simp only at r1 r2 r3
  subst r1
  have hsz : (⟨v.impl, cap1⟩ : SVec).size = v.size := rfl
  unfold stdResize
  simp only [hsz]
  by_cases hle : n ≤ v.size
  · have hEq : n = v.size := Nat.le_antisymm hle hn
    have hsz' : v.impl.length = v.size := rfl
    simp only [hle, if_true]
    subst hEq
    have hd : v.impl.drop v.size = [] := List.drop_eq_nil_of_le (Nat.le_refl _)
    have ht : v.impl.take v.size = v.impl := List.take_of_length_le (Nat.le_refl _)
    rw [hd, ht]
    exact ⟨ht, rfl, fun r hr => by simp [hd] at hr, r2, r3⟩
  · simp only [hle, if_false]
    obtain ⟨i1, i2, i3, i4, _⟩ := allocDefaults_spec K (n - v.size) h1 _ r2
    have hsz' : v.impl.length = v.size := rfl
    refine ⟨by simp [← hsz'], ?_, fun r hr => ?_, ?_, fun a ha => ?_⟩
    · show (v.impl ++ _).length = n
      rw [List.length_append, i1, hsz']
      omega
    · rw [← hsz', List.drop_left] at hr
      exact i4 r hr
    · refine owns_perm i2 ?_
      simp only [owned_append]
      rw [← List.append_assoc]
      exact List.Perm.append_right _ List.perm_append_comm
    · rw [i3 a (owns_lt_next r2 ha)]
      exact r3 a ha

theorem resize_shrink_refines (K : RowClass) (h : Heap) (v : SVec) (n : Nat) (frame : List Nat)
    (hO : Owns h (owned v.impl ++ frame)) (hn : n ≤ v.size) :
    (v.resize K h n).2.impl = v.impl.take n
    ∧ Owns (v.resize K h n).1 (owned (v.impl.take n) ++ frame)
    ∧ (∀ a ∈ owned (v.impl.take n) ++ frame, (v.resize K h n).1.cells a = h.cells a) := by
  obtain ⟨r1, r2, r3⟩ := reserve_refines K h v n frame hO
  rw [resize_eq]
  generalize v.reserve K h n = p at r1 r2 r3
  obtain ⟨h1, ⟨impl1, cap1⟩⟩ := p
  simp only at r1 r2 r3
  subst r1
  have hsz : (⟨v.impl, cap1⟩ : SVec).size = v.size := rfl
  unfold stdResize
  rw [if_pos (show n ≤ (⟨v.impl, cap1⟩ : SVec).size from hn)]
  have hperm : (owned v.impl ++ frame).Perm (owned (v.impl.drop n) ++ (owned (v.impl.take n) ++ frame)) := by
    conv => lhs; rw [← List.take_append_drop n v.impl]
    simp only [owned_append]
    rw [← List.append_assoc]
    exact List.Perm.append_right _ List.perm_append_comm
  obtain ⟨j1, j2⟩ := destroyRows_refines h1 _ _ (owns_perm r2 hperm)
  exact ⟨rfl, j1, fun a ha => (j2 a ha).trans (r3 a (hperm.mem_iff.2 (List.mem_append_right _ ha)))⟩

theorem clear_refines (h : Heap) (v : SVec) (frame : List Nat) (hO : Owns h (owned v.impl ++ frame)) :
    (v.clear h).2.impl = [] ∧ Owns (v.clear h).1 frame ∧ FrameEq h (v.clear h).1 frame := by
  obtain ⟨i1, i2⟩ := destroyRows_refines h v.impl frame hO
  exact ⟨rfl, i1, i2⟩

end PPLV.Value.Move
