import PPLV.Value.MoveProofsBKitRecycleG2

/-!
# C13 moving mechanics — recycled insertion and swap (agent B)
-/
set_option linter.unusedSimpArgs false
set_option linter.unusedVariables false
namespace C13Proofs
open PPLV.Value PPLV.Value.Move PPLV.Value.Move.PolyKit

/-! ### swap -/

theorem linsys_swap_exchanges (x y : LinSys) : LinSys.mSwap x y = (y, x) := by
  cases x; cases y; rfl

theorem self_swap_identity (x : Poly) : (Poly.mSwap x x).1 = x ∧ (Poly.mSwap x x).2 = x := by
  simp [Poly.mSwap, linsys_swap_exchanges, swapM]

theorem swap_exchanges_values (h : Heap) (x y : Poly) (ht : x.nnc = y.nnc) :
    (Poly.mSwap x y).1 = y ∧ (Poly.mSwap x y).2 = x
    ∧ (Poly.mSwap x y).1.value h = y.value h ∧ (Poly.mSwap x y).2.value h = x.value h
    ∧ (Poly.mSwap x y).1.owned = y.owned ∧ (Poly.mSwap x y).2.owned = x.owned := by
  have hs : Poly.mSwap x y = (y, x) := by
    simp [Poly.mSwap, ht, linsys_swap_exchanges, swapM]
  simp [hs]

/-! ### recycled insertion at the `Linear_System` level -/

theorem recycled_insert_eq_copy_insert (K : RowClass) (h : Heap) (x y : LinSys) (frame : List Nat)
    (hO : Owns h (x.owned ++ y.owned ++ frame)) :
    (x.insertSys K h y).2.1.value (x.insertSys K h y).1
      = (x.insertConst K h (.other y)).2.value (x.insertConst K h (.other y)).1 := by
  have h1 := (insertSys_refines K h x y frame hO).2.1
  have h2 := (LinSys.insertConst_other_refines K h x y frame hO).2.1
  rw [h1, h2]

theorem recycled_insert_pending_eq_copy_insert (K : RowClass) (h : Heap) (x y : LinSys) (frame : List Nat)
    (hO : Owns h (x.owned ++ y.owned ++ frame)) :
    (x.insertPendingSys K h y).2.1.value (x.insertPendingSys K h y).1
      = (x.insertPendingConst K h (.other y)).2.value (x.insertPendingConst K h (.other y)).1 := by
  have h1 := (insertPendingSys_refines K h x y frame hO).2.1
  have h2 := (LinSys.insertPendingConst_other_refines K h x y frame hO).2.1
  rw [h1, h2]

theorem recycled_argument_valid_linsys (K : RowClass) (h : Heap) (x y : LinSys) (frame : List Nat)
    (hO : Owns h (x.owned ++ y.owned ++ frame)) :
    let out := x.insertSys K h y
    Owns out.1 (out.2.1.owned ++ out.2.2.owned ++ frame) ∧ FrameEq h out.1 frame
    ∧ (y.hasNoRows = true → out.2.2 = y)
    ∧ (y.hasNoRows = false → out.2.2.value out.1 = ⟨[], 0, y.nnc, 0, true⟩ ∧ out.2.2.owned = []
        ∧ okV K (out.2.2.value out.1) = true) := by
  have A := insertSys_refines K h x y frame hO
  dsimp only at A ⊢
  obtain ⟨a1, _, a3, a4, a5, a6⟩ := A
  refine ⟨a1, a6, a4, fun hne => ?_⟩
  have hv : (x.insertSys K h y).2.2.value (x.insertSys K h y).1 = ⟨[], 0, y.nnc, 0, true⟩ := by
    rw [a3]
    have : (y.value h).rows.isEmpty = false := by rw [value_rows_isEmpty, hne]
    simp [insertSysArgV, this, clearV]
    rfl
  exact ⟨hv, a5 hne, by rw [hv]; exact okV_clear K _⟩

/-! ### `add_recycled_constraints` -/

theorem recycled_argument_valid (h : Heap) (x : Poly) (cs : LinSys) (frame : List Nat)
    (hO : Owns h (x.owned ++ cs.owned ++ frame)) :
    let out := x.addRecycledConstraints h cs
    Owns out.1 (out.2.1.owned ++ out.2.2.1.owned ++ frame)
    ∧ FrameEq h out.1 frame
    ∧ ((out.2.2.2 = .moved ∨ out.2.2.2 = .movedPending) →
        out.2.2.1.value out.1 = ⟨[], 0, x.nnc, 0, true⟩ ∧ out.2.2.1.owned = []
        ∧ okV constraintClass (out.2.2.1.value out.1) = true)
    ∧ (out.2.2.2 ≠ .moved → out.2.2.2 ≠ .movedPending →
        out.2.2.1 = cs ∧ out.2.2.1.value out.1 = cs.value h) := by
  have A := addRecycledConstraints_refines h x cs frame hO
  dsimp only at A ⊢
  obtain ⟨a1, a2, _, a4, a5⟩ := A
  refine ⟨a1, a2, fun hm => ?_, fun h1 h2 => ?_⟩
  · obtain ⟨v, o⟩ := a4 hm
    exact ⟨v, o, by rw [v]; exact okV_clear _ _⟩
  · obtain ⟨e1, e2⟩ := a5 h1 h2
    exact ⟨e1, by rw [e1, e2]⟩

/-- `add_constraints` = copy, recycle the copy, destroy what is left of the copy -/
theorem addConstraints_unfold (h : Heap) (x : Poly) (cs : LinSys) :
    x.addConstraints h cs =
      ((x.addRecycledConstraints (LinSys.copy h cs).1 (LinSys.copy h cs).2).2.2.1.destroy
          (x.addRecycledConstraints (LinSys.copy h cs).1 (LinSys.copy h cs).2).1,
       (x.addRecycledConstraints (LinSys.copy h cs).1 (LinSys.copy h cs).2).2.1,
       (x.addRecycledConstraints (LinSys.copy h cs).1 (LinSys.copy h cs).2).2.2.2) := rfl

theorem recycled_constraints_eq_copy (h : Heap) (x : Poly) (cs : LinSys) (frame : List Nat)
    (hO : Owns h (x.owned ++ cs.owned ++ frame)) :
    (x.addRecycledConstraints h cs).2.1.value (x.addRecycledConstraints h cs).1
      = (x.addConstraints h cs).2.1.value (x.addConstraints h cs).1
    ∧ (x.addRecycledConstraints h cs).2.2.2 = (x.addConstraints h cs).2.2 := by
  have r3 := (addRecycledConstraints_refines h x cs frame hO).2.2.1
  have hO1 : Owns h (cs.owned ++ (x.owned ++ frame)) := Owns.perm (by permB) hO
  have C := LinSys.copy_refines h cs _ hO1
  dsimp only at C
  rw [addConstraints_unfold]
  generalize LinSys.copy h cs = c at C ⊢
  obtain ⟨c1, c2, c3⟩ := C
  have hO2 : Owns c.1 (x.owned ++ c.2.owned ++ (cs.owned ++ frame)) := Owns.perm (by permB) c1
  have R := addRecycledConstraints_refines c.1 x c.2 _ hO2
  dsimp only at R
  generalize x.addRecycledConstraints c.1 c.2 = r at R ⊢
  obtain ⟨q1, _, q3, _, _⟩ := R
  have hxv : x.value c.1 = x.value h :=
    Poly.value_frame x c3 (fun a ha => by simp [ha])
  rw [hxv, c2, addRecycledConstraintsV_copyV, ← r3] at q3
  have hO3 : Owns r.1 (r.2.2.1.owned ++ (r.2.1.owned ++ (cs.owned ++ frame))) := Owns.perm (by permB) q1
  have D := (LinSys.destroy_refines r.1 r.2.2.1 _ hO3).2
  have hd : r.2.1.value (r.2.2.1.destroy r.1) = r.2.1.value r.1 :=
    Poly.value_frame _ D (fun a ha => by simp [ha])
  dsimp only
  rw [hd]
  exact ⟨(congrArg Prod.fst q3).symm, (congrArg Prod.snd q3).symm⟩

/-! ### `add_recycled_generators` -/

theorem addGenerators_unfold (h : Heap) (x : Poly) (gs : LinSys) :
    x.addGenerators h gs =
      ((x.addRecycledGenerators (LinSys.copy h gs).1 (LinSys.copy h gs).2).2.2.1.destroy
          (x.addRecycledGenerators (LinSys.copy h gs).1 (LinSys.copy h gs).2).1,
       (x.addRecycledGenerators (LinSys.copy h gs).1 (LinSys.copy h gs).2).2.1,
       (x.addRecycledGenerators (LinSys.copy h gs).1 (LinSys.copy h gs).2).2.2.2) := rfl

/-- `ph.add_recycled_generators(gs)` vs `ph.add_generators(gs)`.

The unrestricted statement (`recycled_generators_eq_copy` of the scaffold) is FALSE for an ill-formed
argument with `index_first_pending > num_rows()` that is swapped into a marked-empty receiver
(exit `wasEmptySwapped`): the recycled call installs the argument's own `index_first_pending`, the copy
constructor has normalised it to `num_rows()`.  Concretely: `x` marked empty, NC, space dimension 1, no
rows; `gs` = the single point `[1, 0]`, `firstPending = 5`: the recycled call leaves
`genSys.firstPending = 5`, the copying call `genSys.firstPending = 1`.
The statement holds as soon as `gs.firstPending ≤ gs.numRows` (part of `Linear_System::OK()`), or on
every other exit. -/
theorem recycled_generators_eq_copy_partial (h : Heap) (x : Poly) (gs : LinSys) (frame : List Nat)
    (hO : Owns h (x.owned ++ gs.owned ++ frame))
    (hfp : gs.firstPending ≤ gs.numRows ∨ (x.addRecycledGenerators h gs).2.2.2 ≠ .wasEmptySwapped) :
    (x.addRecycledGenerators h gs).2.1.value (x.addRecycledGenerators h gs).1
      = (x.addGenerators h gs).2.1.value (x.addGenerators h gs).1
    ∧ (x.addRecycledGenerators h gs).2.2.2 = (x.addGenerators h gs).2.2 := by
  have r3 := (addRecycledGenerators_refines h x gs frame hO).2.2
  have hfp' : (gs.value h).firstPending ≤ (gs.value h).rows.length
      ∨ (addRecycledGeneratorsV (x.value h) (gs.value h)).2 ≠ .wasEmptySwapped := by
    rcases hfp with hfp | hfp
    · left; rw [value_rows_length]; exact hfp
    · right; rw [← r3]; exact hfp
  have hO1 : Owns h (gs.owned ++ (x.owned ++ frame)) := Owns.perm (by permB) hO
  have C := LinSys.copy_refines h gs _ hO1
  dsimp only at C
  rw [addGenerators_unfold]
  generalize LinSys.copy h gs = c at C ⊢
  obtain ⟨c1, c2, c3⟩ := C
  have hO2 : Owns c.1 (x.owned ++ c.2.owned ++ (gs.owned ++ frame)) := Owns.perm (by permB) c1
  have R := addRecycledGenerators_refines c.1 x c.2 _ hO2
  generalize x.addRecycledGenerators c.1 c.2 = r at R ⊢
  obtain ⟨q1, _, q3⟩ := R
  have hxv : x.value c.1 = x.value h :=
    Poly.value_frame x c3 (fun a ha => by simp [ha])
  rw [hxv, c2, addRecycledGeneratorsV_copyV _ _ hfp', ← r3] at q3
  have hO3 : Owns r.1 (r.2.2.1.owned ++ (r.2.1.owned ++ (gs.owned ++ frame))) := Owns.perm (by permB) q1
  have D := (LinSys.destroy_refines r.1 r.2.2.1 _ hO3).2
  have hd : r.2.1.value (r.2.2.1.destroy r.1) = r.2.1.value r.1 :=
    Poly.value_frame _ D (fun a ha => by simp [ha])
  dsimp only
  rw [hd]
  exact ⟨(congrArg Prod.fst q3).symm, (congrArg Prod.snd q3).symm⟩

/-! ### the unrestricted `recycled_generators_eq_copy` is false -/

/-- the counterexample to the unrestricted `recycled_generators_eq_copy` -/
def cexHeap : Heap := (Heap.empty.alloc [1, 0]).1
def cexPoly : Poly := ⟨LinSys.mk0 false, LinSys.mk0 false, BitMatrix.empty, BitMatrix.empty, EMPTY, 1⟩
def cexGs : LinSys := ⟨⟨[⟨0, 1, false⟩], 1⟩, 1, false, 5, true⟩

theorem cex_owns : Owns cexHeap (cexPoly.owned ++ cexGs.owned ++ []) := by
  refine ⟨rfl, by decide, fun a => ?_, fun a ha => ?_⟩
  · by_cases h0 : a = 0
    · subst h0; decide
    · have : cexHeap.cells a = none := by simp [cexHeap, Heap.alloc, Heap.empty, h0]
      simp [this, cexPoly, cexGs, Poly.owned, LinSys.owned, Move.owned, LinSys.mk0, SVec.nil, h0]
  · have h0 : a ≠ 0 := by
      have : cexHeap.next = 1 := rfl
      omega
    simp [cexHeap, Heap.alloc, Heap.empty, h0]

theorem recycled_generators_eq_copy_counterexample :
    ∃ (h : Heap) (x : Poly) (gs : LinSys) (frame : List Nat), Owns h (x.owned ++ gs.owned ++ frame) ∧
      ¬ ((x.addRecycledGenerators h gs).2.1.value (x.addRecycledGenerators h gs).1
          = (x.addGenerators h gs).2.1.value (x.addGenerators h gs).1
        ∧ (x.addRecycledGenerators h gs).2.2.2 = (x.addGenerators h gs).2.2) := by
  refine ⟨cexHeap, cexPoly, cexGs, [], cex_owns, fun hh => ?_⟩
  have h1 := congrArg (fun v => v.genSys.firstPending) hh.1
  have e1 : ((cexPoly.addRecycledGenerators cexHeap cexGs).2.1.value
      (cexPoly.addRecycledGenerators cexHeap cexGs).1).genSys.firstPending = 5 := by decide
  have e2 : ((cexPoly.addGenerators cexHeap cexGs).2.1.value
      (cexPoly.addGenerators cexHeap cexGs).1).genSys.firstPending = 1 := by decide
  simp only [e1, e2] at h1
  omega

end C13Proofs
