import PPLV.Value.MovePoly
import PPLV.Value.ProofsRefine

/-!
# C13 stage 2 — `Pointset_Powerset` on the `Determinate` machine: `add_disjunct` copies, `m_swap` relinks

No Mathlib.
-/
namespace PPLV.Value.Move
namespace PsetKit
open PPLV.Value PPLV.Value.Cow

variable {P : Type}

theorem prep_setCell (σ : Cow.State P) (a : Nat) (c : Option (Cow.Rep P)) (k : Nat) :
    (σ.setCell a c).prep k = σ.prep k := rfl

theorem prep_alloc (σ : Cow.State P) (p : P) (k : Nat) : (Cow.alloc σ p).1.prep k = σ.prep k := rfl

theorem handles_alloc (σ : Cow.State P) (p : P) : (Cow.alloc σ p).1.handles = σ.handles := rfl

theorem heap_alloc (σ : Cow.State P) (p : P) (x : Nat) :
    (Cow.alloc σ p).1.heap x = if x = σ.next then some ⟨0, p⟩ else σ.heap x := rfl

/-- `Determinate(const PSET&)` into a dead slot -/
theorem step_construct_eq {σ : Cow.State P} {h : Nat} (p : P) (hl : h < σ.handles.length) (hd : σ.prep h = none) :
    Cow.step σ (.construct h p)
      = ((Cow.alloc σ p).1.setCell σ.next (some ⟨1, p⟩)).setPrep h (some σ.next) := by
  have hc : h < σ.handles.length ∧ σ.prep h = none := ⟨hl, hd⟩
  have hr : (Cow.alloc σ p).1.heap σ.next = some ⟨0, p⟩ := by simp [heap_alloc]
  show (if h < σ.handles.length ∧ σ.prep h = none then
      (Cow.newRef (Cow.alloc σ p).1 (Cow.alloc σ p).2).setPrep h (some (Cow.alloc σ p).2) else σ) = _
  rw [if_pos hc]
  show (Cow.newRef (Cow.alloc σ p).1 σ.next).setPrep h (some σ.next) = _
  rw [newRef_eq hr]

/-- `Determinate(const Determinate&)` into a dead slot -/
theorem step_copyCtor_eq {σ : Cow.State P} {h y a : Nat} {r : Cow.Rep P} (hl : h < σ.handles.length)
    (hd : σ.prep h = none) (hy : σ.prep y = some a) (hr : σ.heap a = some r) :
    Cow.step σ (.copyCtor h y) = (σ.setCell a (some { r with refs := r.refs + 1 })).setPrep h (some a) := by
  have hc : h < σ.handles.length ∧ σ.prep h = none := ⟨hl, hd⟩
  simp only [Cow.step, hy, hc, and_self, if_true, newRef_eq hr]

/-- `~Determinate()` of a handle that shares its representation -/
theorem step_destroy_eq {σ : Cow.State P} {h a : Nat} {r : Cow.Rep P} (hp : σ.prep h = some a)
    (hr : σ.heap a = some r) (h2 : 1 < r.refs) :
    Cow.step σ (.destroy h) = (σ.setCell a (some { r with refs := r.refs - 1 })).setPrep h none := by
  have h1 : ¬ r.refs = 1 := by omega
  simp only [Cow.step, hp, release_eq hr (by omega : 0 < r.refs), h1, if_false]

end PsetKit
end PPLV.Value.Move

namespace C13Proofs
open PPLV.Value PPLV.Value.Move PPLV.Value.Move.PsetKit

/-- `add_disjunct(ph)`: the new disjunct holds a COPY of `ph` in a representation of its own
(reference count 1: exactly one handle, the new list node), no other handle changes its value, the
temporary is gone, and the machine invariant (exact counters, no use after free) is kept -/
theorem add_disjunct_copies {P : Type} (σ : Cow.State P) (x : PS.Pset) (ph : P) (tmp node : Nat)
    (hI : Cow.Inv σ) (ht : tmp < σ.handles.length) (hn : node < σ.handles.length) (hne : tmp ≠ node)
    (htd : σ.prep tmp = none) (hnd : σ.prep node = none) (hx : node ∉ x.seq ∧ tmp ∉ x.seq) :
    let out := PS.addDisjunct σ x ph tmp node
    Cow.Inv out.1
    ∧ Cow.value out.1 node = some ph
    ∧ Cow.value out.1 tmp = none
    ∧ (∀ k, k ≠ node → k ≠ tmp → Cow.value out.1 k = Cow.value σ k)
    ∧ (∃ a, out.1.prep node = some a ∧ Cow.holders out.1 a = 1)
    ∧ PS.value out.1 out.2 = PS.value σ x ++ [some ph]
    ∧ out.2.reduced = false := by
  intro out
  -- the three micro-steps, explicitly
  let σ₁ := ((Cow.alloc σ ph).1.setCell σ.next (some ⟨1, ph⟩)).setPrep tmp (some σ.next)
  have e1 : Cow.step σ (.construct tmp ph) = σ₁ := step_construct_eq ph ht htd
  have l1 : σ₁.handles.length = σ.handles.length := by simp [σ₁, handles_alloc]
  have p1t : σ₁.prep tmp = some σ.next :=
    Cow.prep_setPrep_self _ tmp _ (by simpa [handles_alloc] using ht)
  have p1n : σ₁.prep node = none := by
    show (Cow.State.setPrep _ tmp _).prep node = none
    rw [Cow.prep_setPrep_other _ tmp node _ (fun e => hne e.symm)]
    exact hnd
  have c1 : σ₁.heap σ.next = some ⟨1, ph⟩ := by simp [σ₁]
  let σ₂ := (σ₁.setCell σ.next (some ⟨2, ph⟩)).setPrep node (some σ.next)
  have e2 : Cow.step σ₁ (.copyCtor node tmp) = σ₂ := step_copyCtor_eq (by rw [l1]; exact hn) p1n p1t c1
  have l2 : σ₂.handles.length = σ.handles.length := by simp [σ₂, l1]
  have p2t : σ₂.prep tmp = some σ.next := by
    show (Cow.State.setPrep _ node _).prep tmp = _
    rw [Cow.prep_setPrep_other _ node tmp _ hne]
    exact p1t
  have c2 : σ₂.heap σ.next = some ⟨2, ph⟩ := by simp [σ₂]
  let σ₃ := (σ₂.setCell σ.next (some ⟨1, ph⟩)).setPrep tmp none
  have e3 : Cow.step σ₂ (.destroy tmp) = σ₃ := step_destroy_eq p2t c2 (Nat.lt_succ_self 1)
  have hout : out = (σ₃, { x with seq := x.seq ++ [node], reduced := false }) := by
    show (Cow.step (Cow.step (Cow.step σ (.construct tmp ph)) (.copyCtor node tmp)) (.destroy tmp),
      ({ x with seq := x.seq ++ [node], reduced := false } : PS.Pset)) = _
    rw [e1, e2, e3]
  -- facts about the final state
  have I3 : Cow.Inv σ₃ := by
    rw [← e3, ← e2, ← e1]
    exact ((hI.step _).step _).step _
  have c3 : σ₃.heap σ.next = some ⟨1, ph⟩ := by simp [σ₃]
  have p3n : σ₃.prep node = some σ.next := by
    show (Cow.State.setPrep _ tmp _).prep node = _
    rw [Cow.prep_setPrep_other _ tmp node _ (fun e => hne e.symm), prep_setCell]
    exact Cow.prep_setPrep_self _ node _ (by simpa [l1] using hn)
  have p3t : σ₃.prep tmp = none :=
    Cow.prep_setPrep_self _ tmp _ (by simpa [l2] using ht)
  have p3k : ∀ k, k ≠ node → k ≠ tmp → σ₃.prep k = σ.prep k := by
    intro k hkn hkt
    show (Cow.State.setPrep _ tmp _).prep k = _
    rw [Cow.prep_setPrep_other _ tmp k _ hkt, prep_setCell]
    show (Cow.State.setPrep _ node _).prep k = _
    rw [Cow.prep_setPrep_other _ node k _ hkn, prep_setCell]
    show (Cow.State.setPrep _ tmp _).prep k = _
    rw [Cow.prep_setPrep_other _ tmp k _ hkt, prep_setCell, prep_alloc]
  have h3 : ∀ b, b ≠ σ.next → σ₃.heap b = σ.heap b := by
    intro b hb
    simp [σ₃, σ₂, σ₁, hb, heap_alloc]
  have vnode : Cow.value σ₃ node = some ph := by
    simp [Cow.value, p3n, Cow.readPset, c3]
  have vtmp : Cow.value σ₃ tmp = none := Cow.value_of_prep_none p3t
  have vk : ∀ k, k ≠ node → k ≠ tmp → Cow.value σ₃ k = Cow.value σ k := by
    intro k hkn hkt
    unfold Cow.value
    rw [p3k k hkn hkt]
    cases hp : σ.prep k with
    | none => rfl
    | some b =>
      have hb : b ≠ σ.next := hI.prep_ne_next hp
      simp only [Cow.readPset, h3 b hb]
  rw [hout]
  refine ⟨I3, vnode, vtmp, vk, ⟨σ.next, p3n, ?_⟩, ?_, rfl⟩
  · have := (I3.live σ.next _ c3).1
    exact this.symm
  · show (x.seq ++ [node]).map (Cow.value σ₃) = x.seq.map (Cow.value σ) ++ [some ph]
    rw [List.map_append, List.map_singleton, vnode]
    congr 1
    apply List.map_congr_left
    intro k hk
    exact vk k (fun e => hx.1 (e ▸ hk)) (fun e => hx.2 (e ▸ hk))

theorem powerset_swap_exchanges {P : Type} (σ : Cow.State P) (x y : PS.Pset) :
    PS.mSwap x y = (y, x) ∧ PS.value σ (PS.mSwap x y).1 = PS.value σ y ∧ PS.value σ (PS.mSwap x y).2 = PS.value σ x :=
  ⟨rfl, rfl, rfl⟩

theorem powerset_self_swap_identity (x : PS.Pset) : PS.mSwap x x = (x, x) := rfl

end C13Proofs
