import PPLV.Value.MoveProofsAlias9
import PPLV.Value.MoveProofsAlias3

/-! C13 aliasing, part 10: `x.concatenate_assign(x)` -/
namespace PPLV.Value.Move.AliasKit
open PPLV.Value PPLV.Value.Move
set_option linter.unusedSimpArgs false

/-- `concatenate_assign` after `Constraint_System cs = y.constraints();` -/
def concatTail (pending : Bool) (shift newsd : Nat) (h₁ : Heap) (xc cs : LinSys) : Heap × LinSys :=
  let (h₂, c) := xc.setSpaceDimNoOk h₁ newsd
  let (h₃, c₁, yrows) := concatLoop pending shift cs.numRows 0 h₂ c cs.rows.impl
  let (h₄, cs₁) := LinSys.clear h₃ { cs with rows := ⟨yrows, cs.rows.cap⟩ }
  (cs₁.destroy h₄, c₁)

theorem adjust_same_topology (h : Heap) (s : LinSys) (sd : Nat) :
    adjustTopologyAndSpaceDimension h s s.nnc sd = s.setSpaceDimNoOk h sd := by
  simp [adjustTopologyAndSpaceDimension, LinSys.setTopology]

theorem concatTail_value (pending : Bool) (shift newsd : Nat) (h₁ : Heap) (xc cs : LinSys) (G : List Nat)
    (hO : Owns h₁ (xc.owned ++ (cs.owned ++ G))) :
    (concatTail pending shift newsd h₁ xc cs).2.value (concatTail pending shift newsd h₁ xc cs).1
      = (cs.value h₁).rows.foldl (concatStepV pending shift) (setSpaceDimSysV newsd (xc.value h₁)) := by
  obtain ⟨a1, a2, a3, a4⟩ := adjust_refines h₁ xc xc.nnc newsd _ hO
  rw [adjust_same_topology] at a1 a2 a3 a4
  have a3' : (xc.setSpaceDimNoOk h₁ newsd).2.value (xc.setSpaceDimNoOk h₁ newsd).1
      = setSpaceDimSysV newsd (xc.value h₁) := by
    rw [a3]; simp [adjustV, setTopologySysV, LinSys.value]
  unfold concatTail
  generalize xc.setSpaceDimNoOk h₁ newsd = p at a1 a2 a3 a3' a4
  have hO2 : Owns p.1 (p.2.owned ++ (owned [] ++ (owned cs.rows.impl ++ G))) := by
    simpa [LinSys.owned] using a1
  obtain ⟨l1, l2, l3⟩ := concatLoop_refines pending shift G cs.rows.impl [] p.1 p.2 hO2
  have hnum : cs.numRows = cs.rows.impl.length := rfl
  simp only [List.nil_append, List.length_nil] at l1 l2 l3
  simp only [hnum]
  generalize concatLoop pending shift cs.rows.impl.length 0 p.1 p.2 cs.rows.impl = q at l1 l2 l3
  have hO3 : Owns q.1 (LinSys.owned { cs with rows := ⟨q.2.2, cs.rows.cap⟩ } ++ (q.2.1.owned ++ G)) :=
    PolyKit.Owns.perm (by alias_perm_tac) l1
  obtain ⟨k1, _, k3, k4⟩ := LinSys.clear_refines q.1 _ _ hO3
  generalize LinSys.clear q.1 { cs with rows := ⟨q.2.2, cs.rows.cap⟩ } = w at k1 k3 k4
  have hO4 : Owns w.1 (w.2.owned ++ (q.2.1.owned ++ G)) := by rw [k3]; simpa using k1
  obtain ⟨_, d2⟩ := LinSys.destroy_refines w.1 w.2 _ hO4
  show q.2.1.value (w.2.destroy w.1) = _
  rw [PolyKit.LinSys.value_frame q.2.1 d2 (fun a ha => List.mem_append_left _ ha),
    PolyKit.LinSys.value_frame q.2.1 k4 (fun a ha => List.mem_append_left _ ha), l2, a3']
  have : rowValues p.1 cs.rows.impl = (cs.value h₁).rows :=
    PolyKit.rowValues_frame cs.rows.impl a4 (fun a ha => List.mem_append_left _ ha)
  rw [this]

theorem Poly.concatenateAssignCons_eq (h : Heap) (x : Poly) (y : Arg Poly) :
    x.concatenateAssignCons h y =
      if x.nnc != (y.get x).nnc then (h, x.conSys, .threw)
      else if x.markedEmpty || (y.get x).markedEmpty then (h, x.conSys, .markedEmpty)
      else if (y.get x).spaceDim == 0 || x.spaceDim == 0 then (h, x.conSys, .zeroDim)
      else if testAny x.status GS_PENDING || !testAny x.status C_UP
              || testAny (y.get x).status GS_PENDING || !testAny (y.get x).status C_UP then
        (h, x.conSys, .notModelled)
      else
        ((concatTail x.canHaveSomethingPending x.spaceDim (x.conSys.spaceDim + (y.get x).spaceDim)
            (LinSys.copy h (y.get x).conSys).1 x.conSys (LinSys.copy h (y.get x).conSys).2).1,
         (concatTail x.canHaveSomethingPending x.spaceDim (x.conSys.spaceDim + (y.get x).spaceDim)
            (LinSys.copy h (y.get x).conSys).1 x.conSys (LinSys.copy h (y.get x).conSys).2).2,
         if x.canHaveSomethingPending then .movedPending else .moved) := rfl

theorem concat_core (h h' : Heap) (x y : Poly) (F F' : List Nat)
    (hO : Owns h (x.owned ++ F)) (hO' : Owns h' (x.owned ++ y.owned ++ F'))
    (hfr : FrameEq h h' x.owned)
    (hst : y.status = x.status) (hsd : y.spaceDim = x.spaceDim) (hnnc : y.conSys.nnc = x.conSys.nnc)
    (hval : testAny x.status C_UP = true → y.conSys.value h' = x.conSys.value h) :
    (x.concatenateAssignCons h .self).2.1.value (x.concatenateAssignCons h .self).1
      = (x.concatenateAssignCons h' (.other y)).2.1.value (x.concatenateAssignCons h' (.other y)).1
    ∧ (x.concatenateAssignCons h .self).2.2 = (x.concatenateAssignCons h' (.other y)).2.2 := by
  have hcv : x.conSys.value h' = x.conSys.value h :=
    PolyKit.LinSys.value_frame x.conSys hfr (fun a ha => by simp [Poly.owned, ha])
  rw [Poly.concatenateAssignCons_eq, Poly.concatenateAssignCons_eq]
  simp only [Arg.get, Poly.markedEmpty, Poly.nnc, hst, hsd, hnnc, bne_self_eq_false, Bool.or_self,
    Bool.false_eq_true, if_false]
  by_cases hE : testAny x.status EMPTY = true
  · simp only [hE, ↓reduceIte]; exact ⟨hcv.symm, by trivial⟩
  simp only [hE, Bool.false_eq_true, ↓reduceIte]
  by_cases hZ : (x.spaceDim == 0) = true
  · simp only [hZ, ↓reduceIte]; exact ⟨hcv.symm, by trivial⟩
  simp only [hZ, Bool.false_eq_true, ↓reduceIte]
  by_cases hN : (testAny x.status GS_PENDING || !testAny x.status C_UP
          || testAny x.status GS_PENDING || !testAny x.status C_UP) = true
  · simp only [hN, ↓reduceIte]; exact ⟨hcv.symm, by trivial⟩
  simp only [hN, Bool.false_eq_true, ↓reduceIte]
  have hC : testAny x.status C_UP = true := by
    cases hc : testAny x.status C_UP <;> simp [hc] at hN ⊢
  have hyv := hval hC
  refine ⟨?_, by trivial⟩
  -- self
  have hO1 : Owns h (x.conSys.owned ++ (x.genSys.owned ++ F)) := by
    rw [← List.append_assoc]; exact hO
  obtain ⟨p1, p2, p3⟩ := LinSys.copy_refines h x.conSys _ hO1
  generalize LinSys.copy h x.conSys = cp at p1 p2 p3
  have hT1 : Owns cp.1 (x.conSys.owned ++ (cp.2.owned ++ (x.genSys.owned ++ F))) :=
    PolyKit.Owns.perm (by alias_perm_tac) p1
  rw [concatTail_value _ _ _ _ _ _ _ hT1]
  -- other
  have hO2 : Owns h' (y.conSys.owned ++ (x.conSys.owned ++ (x.genSys.owned ++ y.genSys.owned ++ F'))) :=
    PolyKit.Owns.perm (by alias_perm_tac) hO'
  obtain ⟨r1, r2, r3⟩ := LinSys.copy_refines h' y.conSys _ hO2
  generalize LinSys.copy h' y.conSys = cq at r1 r2 r3
  have hT2 : Owns cq.1 (x.conSys.owned ++ (cq.2.owned ++ (y.conSys.owned ++ (x.genSys.owned ++ y.genSys.owned ++ F')))) :=
    PolyKit.Owns.perm (by alias_perm_tac) r1
  rw [concatTail_value _ _ _ _ _ _ _ hT2]
  have e1 : x.conSys.value cp.1 = x.conSys.value h :=
    PolyKit.LinSys.value_frame x.conSys p3 (fun a ha => List.mem_append_left _ ha)
  have e2 : x.conSys.value cq.1 = x.conSys.value h' :=
    PolyKit.LinSys.value_frame x.conSys r3 (fun a ha => by simp [ha])
  rw [p2, r2, e1, e2, hcv, hyv]

end PPLV.Value.Move.AliasKit

namespace C13Proofs
open PPLV.Value PPLV.Value.Move

theorem alias_invariance_concatenate (h : Heap) (x : Poly) (frame : List Nat)
    (hO : Owns h (x.owned ++ frame)) :
    let a := x.concatenateAssignCons h .self
    let c := Poly.copy h x
    let b := x.concatenateAssignCons c.1 (.other c.2)
    a.2.1.value a.1 = b.2.1.value b.1 ∧ a.2.2 = b.2.2 := by
  intro a c b
  obtain ⟨o, f, hs, hd, hn, vc, _⟩ := AliasKit.Poly.copy_facts h x frame hO
  exact AliasKit.concat_core h c.1 x c.2 frame frame hO o (PolyKit.FrameEq.left f) hs hd hn vc

end C13Proofs
