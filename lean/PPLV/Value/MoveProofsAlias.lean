import PPLV.Value.MoveProofsAlias4
import PPLV.Value.MoveProofsAlias5
import PPLV.Value.MoveProofsAlias10
import PPLV.Value.MoveProofsAlias14

/-!
# C13 moving mechanics — aliasing at the data level (agent B): umbrella module

`C13Proofs.alias_invariance_insert` (Alias1), `alias_invariance_add_own_constraints` (Alias2),
`alias_invariance_intersection_partial` (Alias4), `alias_invariance_hull_partial` (Alias5),
`alias_invariance_concatenate` (Alias10), and the full-strength `alias_invariance_intersection`,
`alias_invariance_hull` without the `hmerge` hypothesis (Alias14).
-/
