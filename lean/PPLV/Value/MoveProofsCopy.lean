import PPLV.Value.MoveProofsSys
import PPLV.Value.MoveProofsCopyKit
/-!
# C13 stage 2 — proofs [C], part 1: copies, assignment, const overloads
-/
namespace PPLV.Value.Move


namespace CopyKit

theorem copySwapLoop_spec (yrows : List Row) (as : List Nat) (hm : ∀ r ∈ yrows, r.impl ∈ as) :
    ∀ (k i : Nat) (h : Heap) (rows : List Row), i + k = yrows.length → rows.length = yrows.length →
    Owns h (owned rows ++ as) →
    Owns (copySwapLoop k i h yrows rows).1 (owned (copySwapLoop k i h yrows rows).2 ++ as)
    ∧ (copySwapLoop k i h yrows rows).2.length = rows.length
    ∧ (∀ j, j < i → (copySwapLoop k i h yrows rows).2[j]? = rows[j]?)
    ∧ (∀ j, i ≤ j → ((copySwapLoop k i h yrows rows).2[j]?).map (Row.val (copySwapLoop k i h yrows rows).1)
          = (yrows[j]?).map (Row.val h))
    ∧ (∀ a ∈ as, (copySwapLoop k i h yrows rows).1.cells a = h.cells a)
    ∧ (∀ j r, j < i → rows[j]? = some r → (copySwapLoop k i h yrows rows).1.cells r.impl = h.cells r.impl) := by
  intro k
  induction k with
  | zero =>
    intro i h rows hik hl hO
    have e : copySwapLoop 0 i h yrows rows = (h, rows) := rfl
    rw [e]
    refine ⟨hO, rfl, fun _ _ => rfl, ?_, fun _ _ => rfl, fun _ _ _ _ => rfl⟩
    intro j hj
    have h1 : rows[j]? = none := List.getElem?_eq_none (by omega)
    have h2 : yrows[j]? = none := List.getElem?_eq_none (by omega)
    simp [h1, h2]
  | succ k ih =>
    intro i h rows hik hl hO
    have hiy : i < yrows.length := by omega
    have hir : i < rows.length := by omega
    have hy : yrows[i]? = some yrows[i] := List.getElem?_eq_getElem hiy
    have hd : rows[i]? = some rows[i] := List.getElem?_eq_getElem hir
    generalize yrows[i] = yr at hy
    generalize rows[i] = d at hd
    have hyr : yr.impl ∈ as := hm yr (List.mem_of_getElem? hy)
    obtain ⟨c1, c2, c3, _, _⟩ := rowCopy_spec hO (List.mem_append_right _ hyr)
    have e : copySwapLoop (k + 1) i h yrows rows
        = copySwapLoop k (i + 1) (Row.destroy (Row.copy h yr).1 d) yrows (rows.set i (Row.copy h yr).2) := by
      simp only [copySwapLoop, hy, hd]
    rw [e]
    have hdo : (owned rows)[i]? = some d.impl := by simp [owned, hd]
    have hO1 : Owns (Row.copy h yr).1 (d.impl :: (owned (rows.set i (Row.copy h yr).2) ++ as)) := by
      refine owns_perm c1 ?_
      rw [owned_set]
      have := (perm_set (owned rows) i d.impl (Row.copy h yr).2.impl hdo).append_right as
      simpa using this
    obtain ⟨f1, f2⟩ := owns_free hO1
    obtain ⟨i1, i2, i3, i4, i5, i6⟩ := ih (i + 1) (Row.destroy (Row.copy h yr).1 d) (rows.set i (Row.copy h yr).2)
      (by omega) (by simp [hl]) f1
    have hset : ∀ j, j ≠ i → (rows.set i (Row.copy h yr).2)[j]? = rows[j]? := by
      intro j hj; rw [List.getElem?_set]; simp [Ne.symm hj]
    have hseti : (rows.set i (Row.copy h yr).2)[i]? = some (Row.copy h yr).2 := by
      rw [List.getElem?_set]; simp [hir]
    -- cells of `as` are untouched by copy + destroy
    have has : ∀ a ∈ as, (Row.destroy (Row.copy h yr).1 d).cells a = h.cells a := by
      intro a ha
      rw [show Row.destroy (Row.copy h yr).1 d = (Row.copy h yr).1.free d.impl from rfl,
        f2 a (List.mem_append_right _ ha), c3 a (List.mem_append_right _ ha)]
    refine ⟨i1, by rw [i2]; simp, ?_, ?_, ?_, ?_⟩
    · intro j hj
      rw [i3 j (by omega), hset j (by omega)]
    · intro j hj
      by_cases hji : j = i
      · subst hji
        rw [i3 j (by omega), hseti, hy]
        simp only [Option.map_some]
        congr 1
        rw [← c2]
        have m1 : (Row.copy h yr).2.impl ∈ owned (rows.set j (Row.copy h yr).2) ++ as :=
          List.mem_append_left _ (mem_owned_of_getElem? hseti)
        rw [val_congr (i6 j _ (by omega) hseti)]
        exact val_congr (f2 _ m1)
      · rw [i4 j (by omega)]
        cases hyj : yrows[j]? with
        | none => rfl
        | some r =>
          simp only [Option.map_some]
          congr 1
          exact val_congr (has _ (hm r (List.mem_of_getElem? hyj)))
    · intro a ha
      rw [i5 a ha, has a ha]
    · intro j r hj hr
      have hr' : (rows.set i (Row.copy h yr).2)[j]? = some r := by rw [hset j (by omega)]; exact hr
      rw [i6 j r (by omega) hr']
      rw [show Row.destroy (Row.copy h yr).1 d = (Row.copy h yr).1.free d.impl from rfl,
        f2 _ (List.mem_append_left _ (mem_owned_of_getElem? hr')),
        c3 _ (List.mem_append_left _ (mem_owned_of_getElem? hr))]

end CopyKit

open CopyKit

theorem LinSys.copy_refines (h : Heap) (y : LinSys) (frame : List Nat) (hO : Owns h (y.owned ++ frame)) :
    let out := LinSys.copy h y
    Owns out.1 (out.2.owned ++ y.owned ++ frame) ∧ out.2.value out.1 = copyV (y.value h)
    ∧ FrameEq h out.1 (y.owned ++ frame) := by
  intro out
  have hm : ∀ r ∈ y.rows.impl, r.impl ∈ y.owned ++ frame :=
    fun r hr => List.mem_append_left _ (mem_owned_of_mem hr)
  obtain ⟨c1, c2, c3, c4⟩ := copyRows_spec y.rows.impl h _ hO hm
  refine ⟨?_, ?_, ?_⟩
  · show Owns (copyRows h y.rows.impl).1 (Move.owned (copyRows h y.rows.impl).2 ++ y.owned ++ frame)
    simpa [List.append_assoc] using c1
  · show LinSysV.mk (rowValues (copyRows h y.rows.impl).1 (copyRows h y.rows.impl).2) y.spaceDim y.nnc
      (copyRows h y.rows.impl).2.length (if y.numPendingRows > 0 then false else y.sorted) = _
    rw [c2, c4]
    simp only [LinSys.value, copyV, LinSys.numRows, SVec.size, LinSysV.numPendingRows,
      LinSys.numPendingRows, rowValues, List.length_map]
    congr 1
  · exact c3

theorem LinSys.copyWithPending_refines (h : Heap) (y : LinSys) (frame : List Nat) (hO : Owns h (y.owned ++ frame)) :
    let out := LinSys.copyWithPending h y
    Owns out.1 (out.2.owned ++ y.owned ++ frame) ∧ out.2.value out.1 = y.value h
    ∧ FrameEq h out.1 (y.owned ++ frame) := by
  intro out
  have hm : ∀ r ∈ y.rows.impl, r.impl ∈ y.owned ++ frame :=
    fun r hr => List.mem_append_left _ (mem_owned_of_mem hr)
  obtain ⟨c1, c2, c3, c4⟩ := copyRows_spec y.rows.impl h _ hO hm
  refine ⟨?_, ?_, ?_⟩
  · show Owns (copyRows h y.rows.impl).1 (Move.owned (copyRows h y.rows.impl).2 ++ y.owned ++ frame)
    simpa [List.append_assoc] using c1
  · show LinSysV.mk (rowValues (copyRows h y.rows.impl).1 (copyRows h y.rows.impl).2) _ _ _ _ = _
    rw [c2]; rfl
  · exact c3

theorem LinSys.copyReprWithPending_refines (K : RowClass) (h : Heap) (y : LinSys) (frame : List Nat)
    (hO : Owns h (y.owned ++ frame)) :
    let out := LinSys.copyReprWithPending K h y
    Owns out.1 (out.2.owned ++ y.owned ++ frame) ∧ out.2.value out.1 = y.value h
    ∧ FrameEq h out.1 (y.owned ++ frame) := by
  intro out
  have hm : ∀ r ∈ y.rows.impl, r.impl ∈ y.owned ++ frame :=
    fun r hr => List.mem_append_left _ (mem_owned_of_mem hr)
  obtain ⟨_, r2, _, r4, r5⟩ := resize_grow_refines K h SVec.nil y.numRows (y.owned ++ frame)
    (by simpa [SVec.nil, Move.owned] using hO) (Nat.zero_le _)
  generalize hR : SVec.nil.resize K h y.numRows = R at r2 r4 r5
  have r5' : ∀ a ∈ y.owned ++ frame, R.1.cells a = h.cells a := by
    intro a ha; exact r5 a (by simpa [SVec.nil, Move.owned] using ha)
  obtain ⟨l1, l2, _, l4, l5, _⟩ := copySwapLoop_spec y.rows.impl (y.owned ++ frame) hm y.numRows 0 R.1 R.2.impl
    (by simp [LinSys.numRows, SVec.size]) (by simpa [LinSys.numRows, SVec.size] using r2) r4
  have eo : out = ((copySwapLoop y.numRows 0 R.1 y.rows.impl R.2.impl).1,
      ⟨⟨(copySwapLoop y.numRows 0 R.1 y.rows.impl R.2.impl).2, R.2.cap⟩, y.spaceDim, y.nnc, y.firstPending, y.sorted⟩) := by
    simp only [out, LinSys.copyReprWithPending, hR]
  rw [eo]
  generalize copySwapLoop y.numRows 0 R.1 y.rows.impl R.2.impl = L at l1 l2 l4 l5
  refine ⟨?_, ?_, ?_⟩
  · show Owns L.1 (Move.owned L.2 ++ y.owned ++ frame)
    simpa [List.append_assoc] using l1
  · show LinSysV.mk (rowValues L.1 L.2) _ _ _ _ = LinSysV.mk (rowValues h y.rows.impl) _ _ _ _
    congr 1
    have : rowValues L.1 L.2 = rowValues R.1 y.rows.impl := by
      apply List.ext_getElem?
      intro j
      simp only [rowValues, List.getElem?_map]
      exact l4 j (Nat.zero_le _)
    rw [this]
    exact rowValues_congr (fun a ha => r5' a (List.mem_append_left _ ha))
  · intro a ha
    show L.1.cells a = h.cells a
    rw [l5 a ha, r5' a ha]

/-- `x = y` / `x.assign_with_pending(y)` for two different objects -/
theorem LinSys.assignWithPending_other_refines (h : Heap) (x y : LinSys) (frame : List Nat)
    (hO : Owns h (x.owned ++ y.owned ++ frame)) :
    let out := LinSys.assignWithPending h x (.other y)
    Owns out.1 (out.2.owned ++ y.owned ++ frame) ∧ out.2.value out.1 = y.value h
    ∧ FrameEq h out.1 (y.owned ++ frame) := by
  intro out
  have eo : out = (x.destroy (LinSys.copyWithPending h y).1, (LinSys.copyWithPending h y).2) := rfl
  rw [eo]
  obtain ⟨c1, c2, c3⟩ := LinSys.copyWithPending_refines h y (x.owned ++ frame) (owns_perm hO (by perm_tac))
  generalize LinSys.copyWithPending h y = C at c1 c2 c3
  obtain ⟨d1, d2⟩ := LinSys.destroy_refines C.1 x (C.2.owned ++ y.owned ++ frame) (owns_perm c1 (by perm_tac))
  refine ⟨d1, ?_, ?_⟩
  · show C.2.value (x.destroy C.1) = y.value h
    rw [← c2]
    exact value_congr' _ _ _ (frameEq_mono d2 (by intro a ha; grind))
  · exact frameEq_trans (frameEq_mono c3 (by intro a ha; grind)) (frameEq_mono d2 (by intro a ha; grind))

/-- self-assignment: new storage, same value -/
theorem LinSys.assignWithPending_self_refines (h : Heap) (x : LinSys) (frame : List Nat)
    (hO : Owns h (x.owned ++ frame)) :
    let out := LinSys.assignWithPending h x .self
    Owns out.1 (out.2.owned ++ frame) ∧ out.2.value out.1 = x.value h ∧ FrameEq h out.1 frame := by
  intro out
  have eo : out = (x.destroy (LinSys.copyWithPending h x).1, (LinSys.copyWithPending h x).2) := rfl
  rw [eo]
  obtain ⟨c1, c2, c3⟩ := LinSys.copyWithPending_refines h x frame hO
  generalize LinSys.copyWithPending h x = C at c1 c2 c3
  obtain ⟨d1, d2⟩ := LinSys.destroy_refines C.1 x (C.2.owned ++ frame) (owns_perm c1 (by perm_tac))
  refine ⟨d1, ?_, ?_⟩
  · show C.2.value (x.destroy C.1) = x.value h
    rw [← c2]
    exact value_congr' _ _ _ (frameEq_mono d2 (by intro a ha; grind))
  · exact frameEq_trans (frameEq_mono c3 (by intro a ha; grind)) (frameEq_mono d2 (by intro a ha; grind))

theorem LinSys.insertConst_other_refines (K : RowClass) (h : Heap) (x y : LinSys) (frame : List Nat)
    (hO : Owns h (x.owned ++ y.owned ++ frame)) :
    let out := x.insertConst K h (.other y)
    Owns out.1 (out.2.owned ++ y.owned ++ frame)
    ∧ out.2.value out.1 = insertSysV K (x.value h) (y.value h)
    ∧ FrameEq h out.1 (y.owned ++ frame) := by
  intro out
  have eo : out = ((x.insertSys K (LinSys.copyReprWithPending K h y).1 (LinSys.copyReprWithPending K h y).2).2.2.destroy
      (x.insertSys K (LinSys.copyReprWithPending K h y).1 (LinSys.copyReprWithPending K h y).2).1,
      (x.insertSys K (LinSys.copyReprWithPending K h y).1 (LinSys.copyReprWithPending K h y).2).2.1) := rfl
  rw [eo]
  obtain ⟨c1, c2, c3⟩ := LinSys.copyReprWithPending_refines K h y (x.owned ++ frame) (owns_perm hO (by perm_tac))
  generalize LinSys.copyReprWithPending K h y = C at c1 c2 c3
  obtain ⟨s1, s2, _, _, _, s6⟩ := insertSys_refines K C.1 x C.2 (y.owned ++ frame) (owns_perm c1 (by perm_tac))
  have hx : x.value C.1 = x.value h := value_congr' _ _ _ (frameEq_mono c3 (by intro a ha; grind))
  rw [hx, c2] at s2
  generalize x.insertSys K C.1 C.2 = S at s1 s2 s6
  obtain ⟨d1, d2⟩ := LinSys.destroy_refines S.1 S.2.2 (S.2.1.owned ++ y.owned ++ frame) (owns_perm s1 (by perm_tac))
  refine ⟨d1, ?_, ?_⟩
  · show S.2.1.value (S.2.2.destroy S.1) = _
    rw [← s2]
    exact value_congr' _ _ _ (frameEq_mono d2 (by intro a ha; grind))
  · exact frameEq_trans (frameEq_trans (frameEq_mono c3 (by intro a ha; grind)) s6)
      (frameEq_mono d2 (by intro a ha; grind))

theorem LinSys.insertConst_self_refines (K : RowClass) (h : Heap) (x : LinSys) (frame : List Nat)
    (hO : Owns h (x.owned ++ frame)) :
    let out := x.insertConst K h .self
    Owns out.1 (out.2.owned ++ frame)
    ∧ out.2.value out.1 = insertSysV K (x.value h) (x.value h)
    ∧ FrameEq h out.1 frame := by
  intro out
  have eo : out = ((x.insertSys K (LinSys.copyReprWithPending K h x).1 (LinSys.copyReprWithPending K h x).2).2.2.destroy
      (x.insertSys K (LinSys.copyReprWithPending K h x).1 (LinSys.copyReprWithPending K h x).2).1,
      (x.insertSys K (LinSys.copyReprWithPending K h x).1 (LinSys.copyReprWithPending K h x).2).2.1) := rfl
  rw [eo]
  obtain ⟨c1, c2, c3⟩ := LinSys.copyReprWithPending_refines K h x frame hO
  generalize LinSys.copyReprWithPending K h x = C at c1 c2 c3
  obtain ⟨s1, s2, _, _, _, s6⟩ := insertSys_refines K C.1 x C.2 frame (owns_perm c1 (by perm_tac))
  have hx : x.value C.1 = x.value h := value_congr' _ _ _ (frameEq_mono c3 (by intro a ha; grind))
  rw [hx, c2] at s2
  generalize x.insertSys K C.1 C.2 = S at s1 s2 s6
  obtain ⟨d1, d2⟩ := LinSys.destroy_refines S.1 S.2.2 (S.2.1.owned ++ frame) (owns_perm s1 (by perm_tac))
  refine ⟨d1, ?_, ?_⟩
  · show S.2.1.value (S.2.2.destroy S.1) = _
    rw [← s2]
    exact value_congr' _ _ _ (frameEq_mono d2 (by intro a ha; grind))
  · exact frameEq_trans (frameEq_trans (frameEq_mono c3 (by intro a ha; grind)) s6)
      (frameEq_mono d2 (by intro a ha; grind))

theorem LinSys.insertPendingConst_other_refines (K : RowClass) (h : Heap) (x y : LinSys) (frame : List Nat)
    (hO : Owns h (x.owned ++ y.owned ++ frame)) :
    let out := x.insertPendingConst K h (.other y)
    Owns out.1 (out.2.owned ++ y.owned ++ frame)
    ∧ out.2.value out.1 = insertPendingSysV (x.value h) (y.value h)
    ∧ FrameEq h out.1 (y.owned ++ frame) := by
  intro out
  have eo : out = ((x.insertPendingSys K (LinSys.copyReprWithPending K h y).1 (LinSys.copyReprWithPending K h y).2).2.2.destroy
      (x.insertPendingSys K (LinSys.copyReprWithPending K h y).1 (LinSys.copyReprWithPending K h y).2).1,
      (x.insertPendingSys K (LinSys.copyReprWithPending K h y).1 (LinSys.copyReprWithPending K h y).2).2.1) := rfl
  rw [eo]
  obtain ⟨c1, c2, c3⟩ := LinSys.copyReprWithPending_refines K h y (x.owned ++ frame) (owns_perm hO (by perm_tac))
  generalize LinSys.copyReprWithPending K h y = C at c1 c2 c3
  obtain ⟨s1, s2, _, s4, s6⟩ := insertPendingSys_refines K C.1 x C.2 (y.owned ++ frame) (owns_perm c1 (by perm_tac))
  have hx : x.value C.1 = x.value h := value_congr' _ _ _ (frameEq_mono c3 (by intro a ha; grind))
  rw [hx, c2] at s2
  generalize x.insertPendingSys K C.1 C.2 = S at s1 s2 s4 s6
  obtain ⟨d1, d2⟩ := LinSys.destroy_refines S.1 S.2.2 (S.2.1.owned ++ y.owned ++ frame)
    (by rw [s4]; simpa [List.append_assoc] using s1)
  refine ⟨d1, ?_, ?_⟩
  · show S.2.1.value (S.2.2.destroy S.1) = _
    rw [← s2]
    exact value_congr' _ _ _ (frameEq_mono d2 (by intro a ha; grind))
  · exact frameEq_trans (frameEq_trans (frameEq_mono c3 (by intro a ha; grind)) s6)
      (frameEq_mono d2 (by intro a ha; grind))

theorem LinSys.insertPendingConst_self_refines (K : RowClass) (h : Heap) (x : LinSys) (frame : List Nat)
    (hO : Owns h (x.owned ++ frame)) :
    let out := x.insertPendingConst K h .self
    Owns out.1 (out.2.owned ++ frame)
    ∧ out.2.value out.1 = insertPendingSysV (x.value h) (x.value h)
    ∧ FrameEq h out.1 frame := by
  intro out
  have eo : out = ((x.insertPendingSys K (LinSys.copyReprWithPending K h x).1 (LinSys.copyReprWithPending K h x).2).2.2.destroy
      (x.insertPendingSys K (LinSys.copyReprWithPending K h x).1 (LinSys.copyReprWithPending K h x).2).1,
      (x.insertPendingSys K (LinSys.copyReprWithPending K h x).1 (LinSys.copyReprWithPending K h x).2).2.1) := rfl
  rw [eo]
  obtain ⟨c1, c2, c3⟩ := LinSys.copyReprWithPending_refines K h x frame hO
  generalize LinSys.copyReprWithPending K h x = C at c1 c2 c3
  obtain ⟨s1, s2, _, s4, s6⟩ := insertPendingSys_refines K C.1 x C.2 frame (owns_perm c1 (by perm_tac))
  have hx : x.value C.1 = x.value h := value_congr' _ _ _ (frameEq_mono c3 (by intro a ha; grind))
  rw [hx, c2] at s2
  generalize x.insertPendingSys K C.1 C.2 = S at s1 s2 s4 s6
  obtain ⟨d1, d2⟩ := LinSys.destroy_refines S.1 S.2.2 (S.2.1.owned ++ frame)
    (by rw [s4]; simpa [List.append_assoc] using s1)
  refine ⟨d1, ?_, ?_⟩
  · show S.2.1.value (S.2.2.destroy S.1) = _
    rw [← s2]
    exact value_congr' _ _ _ (frameEq_mono d2 (by intro a ha; grind))
  · exact frameEq_trans (frameEq_trans (frameEq_mono c3 (by intro a ha; grind)) s6)
      (frameEq_mono d2 (by intro a ha; grind))

end PPLV.Value.Move
