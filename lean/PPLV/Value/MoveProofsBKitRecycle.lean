import PPLV.Value.MoveProofsBKit1

/-!
# C13 moving mechanics — agent B toolkit (part 2): value-level description of
`add_recycled_constraints` / `add_recycled_generators` and their refinement
-/
namespace PPLV.Value.Move.PolyKit
open PPLV.Value.Move

/-! ## small value facts -/

theorem value_rows_isEmpty (h : Heap) (s : LinSys) : (s.value h).rows.isEmpty = s.hasNoRows := by
  simp [LinSys.value, rowValues, LinSys.hasNoRows]

theorem value_rows_length (h : Heap) (s : LinSys) : (s.value h).rows.length = s.numRows := by
  simp [LinSys.value, rowValues, LinSys.numRows, SVec.size]

theorem value_numPending (h : Heap) (s : LinSys) : (s.value h).numPendingRows = s.numPendingRows := by
  simp [LinSysV.numPendingRows, LinSys.numPendingRows, value_rows_length]
  rfl

theorem hasNoRows_of_owned_eq {s t : LinSys} (ho : s.owned = t.owned) : s.hasNoRows = t.hasNoRows := by
  have hl : s.rows.impl.length = t.rows.impl.length := by
    have := congrArg List.length ho
    simpa [LinSys.owned, Move.owned] using this
  simp only [LinSys.hasNoRows]
  cases hs : s.rows.impl <;> cases ht : t.rows.impl <;> simp_all

theorem okV_clear (K : RowClass) (n : Bool) : okV K ⟨[], 0, n, 0, true⟩ = true := by
  simp [okV, checkSortedV]

theorem adjustV_nnc (n : Bool) (sd : Nat) (s : LinSysV) : (adjustV n sd s).nnc = n := by
  simp only [adjustV, setSpaceDimSysV, setTopologySysV]
  split
  · next hc => simpa using hc
  · rfl

theorem adjustV_rows_length (n : Bool) (sd : Nat) (s : LinSysV) : (adjustV n sd s).rows.length = s.rows.length := by
  simp only [adjustV, setSpaceDimSysV, setTopologySysV]
  split <;> simp

theorem adjustV_firstPending (n : Bool) (sd : Nat) (s : LinSysV) : (adjustV n sd s).firstPending = s.firstPending := by
  simp only [adjustV, setSpaceDimSysV, setTopologySysV]
  split <;> rfl

theorem adjustV_sorted (n : Bool) (sd : Nat) (s : LinSysV) : (adjustV n sd s).sorted = s.sorted := by
  simp only [adjustV, setSpaceDimSysV, setTopologySysV]
  split <;> rfl

theorem adjustV_spaceDim (n : Bool) (sd : Nat) (s : LinSysV) : (adjustV n sd s).spaceDim = sd := by
  simp only [adjustV, setSpaceDimSysV]

/-- the rows of the adjusted system only depend on the rows and topology of the input -/
theorem adjustV_rows_congr (n : Bool) (sd : Nat) (s t : LinSysV) (hr : s.rows = t.rows) (hn : s.nnc = t.nnc) :
    (adjustV n sd s).rows = (adjustV n sd t).rows := by
  simp only [adjustV, setSpaceDimSysV, setTopologySysV, hn]
  split <;> simp [hr]

/-! ## the copy constructor does not change what a recycling insertion does to the receiver -/

theorem copyV_rows (y : LinSysV) : (copyV y).rows = y.rows := rfl
theorem copyV_nnc (y : LinSysV) : (copyV y).nnc = y.nnc := rfl
theorem copyV_spaceDim (y : LinSysV) : (copyV y).spaceDim = y.spaceDim := rfl

theorem insertPendingSysV_congr (x y z : LinSysV) (hr : y.rows = z.rows) :
    insertPendingSysV x y = insertPendingSysV x z := by
  simp [insertPendingSysV, hr]

theorem insertSysV_congr (K : RowClass) (x y z : LinSysV) (hr : y.rows = z.rows)
    (hf : (!y.sorted || decide (y.numPendingRows > 0)) = (!z.sorted || decide (z.numPendingRows > 0))) :
    insertSysV K x y = insertSysV K x z := by
  simp only [insertSysV, hr, insertPendingSysV_congr _ y z hr]
  simp only [Bool.or_eq_true, decide_eq_true_eq, Bool.not_eq_true'] at *
  have hf' : (y.sorted = false ∨ y.numPendingRows > 0) ↔ (z.sorted = false ∨ z.numPendingRows > 0) := by
    have := hf
    constructor
    · intro hy
      have : (!y.sorted || decide (y.numPendingRows > 0)) = true := by
        rcases hy with hy | hy <;> simp [hy]
      rw [hf] at this; simpa using this
    · intro hz
      have : (!z.sorted || decide (z.numPendingRows > 0)) = true := by
        rcases hz with hz | hz <;> simp [hz]
      rw [← hf] at this; simpa using this
  simp only [hf']

theorem copyV_flag (y : LinSysV) :
    (!(copyV y).sorted || decide ((copyV y).numPendingRows > 0)) = (!y.sorted || decide (y.numPendingRows > 0)) := by
  simp only [copyV, LinSysV.numPendingRows]
  by_cases hp : y.rows.length - y.firstPending > 0 <;> simp [hp]

theorem insertSysV_copyV (K : RowClass) (x y : LinSysV) : insertSysV K x (copyV y) = insertSysV K x y :=
  insertSysV_congr K x _ _ rfl (copyV_flag y)

theorem insertPendingSysV_copyV (x y : LinSysV) : insertPendingSysV x (copyV y) = insertPendingSysV x y :=
  insertPendingSysV_congr x _ _ rfl

theorem adjustV_flag (n : Bool) (sd : Nat) (y : LinSysV) :
    (!(adjustV n sd y).sorted || decide ((adjustV n sd y).numPendingRows > 0))
      = (!y.sorted || decide (y.numPendingRows > 0)) := by
  simp [LinSysV.numPendingRows, adjustV_sorted, adjustV_rows_length, adjustV_firstPending]

theorem insertSysV_adjust_copyV (K : RowClass) (n : Bool) (sd : Nat) (x y : LinSysV) :
    insertSysV K x (adjustV n sd (copyV y)) = insertSysV K x (adjustV n sd y) :=
  insertSysV_congr K x _ _ (adjustV_rows_congr n sd _ _ rfl rfl) (by rw [adjustV_flag, adjustV_flag, copyV_flag])

theorem insertPendingSysV_adjust_copyV (n : Bool) (sd : Nat) (x y : LinSysV) :
    insertPendingSysV x (adjustV n sd (copyV y)) = insertPendingSysV x (adjustV n sd y) :=
  insertPendingSysV_congr x _ _ (adjustV_rows_congr n sd _ _ rfl rfl)

/-! ## `add_recycled_constraints` on values -/

def zeroDimTautologyV (v : RowV) : Bool :=
  let b := v.coeffs.headD 0
  if v.tag == 0 then b == 0
  else if !v.nnc then b ≥ 0
  else
    let e := v.coeffs.getD 1 0
    if e == 0 then b ≥ 0 else if e < 0 then b > 0 else b ≥ 0

def canPendV (st : Nat) : Bool :=
  testAny st C_MIN && testAny st G_MIN && (testAny st SAT_C_UP || testAny st SAT_G_UP)

def addRecycledConstraintsV (x : PolyV) (cs : LinSysV) : PolyV × Exit :=
  if !x.conSys.nnc && cs.nnc then (x, .notModelled)
  else if x.spaceDim < cs.spaceDim then (x, .threw)
  else if cs.rows.isEmpty then (x, .noRows)
  else if x.spaceDim == 0 then
    ((if cs.rows.all zeroDimTautologyV then x else { x with status := EMPTY }), .zeroDim)
  else if testAny x.status EMPTY then (x, .markedEmpty)
  else if testAny x.status GS_PENDING || !testAny x.status C_UP then (x, .notModelled)
  else
    let cs₁ := adjustV x.conSys.nnc x.spaceDim cs
    if canPendV x.status then
      ({ x with conSys := insertPendingSysV x.conSys cs₁, status := setF x.status CS_PENDING }, .movedPending)
    else
      ({ x with conSys := insertSysV constraintClass x.conSys cs₁,
                status := clearGeneratorsUpToDate (resetF x.status C_MIN) }, .moved)

theorem addRecycledConstraintsV_copyV (x : PolyV) (cs : LinSysV) :
    addRecycledConstraintsV x (copyV cs) = addRecycledConstraintsV x cs := by
  simp [addRecycledConstraintsV, copyV_rows, copyV_nnc, copyV_spaceDim,
    insertSysV_adjust_copyV, insertPendingSysV_adjust_copyV]

theorem zeroDimTautology_eq {h : Heap} (r : Row) {c : List Int} (hc : h.cells r.impl = some c) :
    zeroDimTautology h r = zeroDimTautologyV (r.val h) := by
  simp [zeroDimTautology, zeroDimTautologyV, Row.val, Heap.read, hc]

theorem zeroDim_all_eq {h : Heap} {as : List Nat} (hO : Owns h as) (rows : List Row)
    (hs : ∀ a ∈ Move.owned rows, a ∈ as) :
    rows.all (zeroDimTautology h) = (rowValues h rows).all zeroDimTautologyV := by
  induction rows with
  | nil => rfl
  | cons r rs ih =>
    have hr : r.impl ∈ as := hs _ (by simp)
    obtain ⟨c, hc⟩ := Owns.read_some hO hr
    have ih' := ih (fun a ha => hs a (by simp [ha]))
    simp only [rowValues] at ih'
    simp only [List.all_cons, rowValues, List.map_cons, zeroDimTautology_eq r hc, ih']

end PPLV.Value.Move.PolyKit
