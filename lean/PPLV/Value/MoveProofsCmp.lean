import PPLV.Value.MoveSpec
/-!
# C13 stage 2 — proofs [C], part 4: the row comparisons are reflexive (`compare(r, r) == 0`),
the hypothesis `hK` of the `merge_rows_assign` aliasing lemmas, for the three row classes.
-/
namespace PPLV.Value.Move

theorem cmpHomog_self (l : List Int) : cmpHomog l l = 0 := by
  induction l with
  | nil => simp [cmpHomog]
  | cons x xs ih => simp [cmpHomog, ih]

theorem cmpExpr_self (l : List Int) : cmpExpr l l = 0 := by
  simp [cmpExpr, cmpHomog_self]

theorem cmpConstraint_self (v : RowV) : cmpConstraint v v = 0 := by
  simp [cmpConstraint, cmpExpr_self]

theorem cmpGenerator_self (v : RowV) : cmpGenerator v v = 0 := by
  unfold cmpGenerator
  simp only [bne_self_eq_false, Bool.false_eq_true, if_false, cmpExpr_self]
  simp only [gt_iff_lt, Int.lt_irrefl, if_false]
  repeat' split
  all_goals rfl

theorem constraintClass_cmp_self (v : RowV) : constraintClass.cmp v v = 0 := cmpConstraint_self v
theorem generatorClass_cmp_self (v : RowV) : generatorClass.cmp v v = 0 := cmpGenerator_self v
theorem congruenceClass_cmp_self (v : RowV) : congruenceClass.cmp v v = 0 := rfl

end PPLV.Value.Move
