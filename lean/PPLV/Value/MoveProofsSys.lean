import PPLV.Value.MoveProofsVec

/-!
# C13 stage 2 — `Linear_System`: refinement of the single-row recycling insertions

`insert_pending_no_ok(Row&, Recycle_Input)` / `insert_no_ok(Row&, Recycle_Input)`, `clear()`, `~Linear_System`,
and the system moves `insert_pending(y, Recycle_Input)` / `insert(y, Recycle_Input)`.

No Mathlib.
-/
namespace PPLV.Value.Move
open OwnsKit

namespace OwnsKit

/-! ## `set_space_dimension_no_ok` over all rows -/

theorem owned_getElem (rows : List Row) (j : Nat) (hj : j < rows.length) :
    (owned rows)[j]'(by simpa using hj) = rows[j].impl := by
  simp [owned]

theorem nodup_owned_ne {rows : List Row} (hnd : (owned rows).Nodup) {i j : Nat} (hi : i < rows.length)
    (hj : j < rows.length) (hij : i ≠ j) : rows[i].impl ≠ rows[j].impl := by
  intro e
  have hi' : i < (owned rows).length := by simpa using hi
  have hj' : j < (owned rows).length := by simpa using hj
  have hp : List.Pairwise (· ≠ ·) (owned rows) := hnd
  rw [List.pairwise_iff_getElem] at hp
  rcases Nat.lt_or_gt_of_ne hij with hlt | hgt
  · exact hp i j hi' hj' hlt (by rw [owned_getElem rows i hi, owned_getElem rows j hj]; exact e)
  · exact hp j i hj' hi' hgt (by rw [owned_getElem rows i hi, owned_getElem rows j hj]; exact e.symm)

theorem setSpaceDimRows_succ (sd i : Nat) (h : Heap) (rows : List Row) (hi : i < rows.length) :
    setSpaceDimRows sd (i + 1) h rows = setSpaceDimRows sd i (rows[i].setSpaceDimNoOk h sd) rows := by
  show (match rows[i]? with
    | some r => setSpaceDimRows sd i (r.setSpaceDimNoOk h sd) rows
    | none => setSpaceDimRows sd i { h with fault := true } rows) = _
  rw [List.getElem?_eq_getElem hi]

theorem setSpaceDimRows_spec (sd : Nat) (rows : List Row) (as : List Nat) (hsub : ∀ r ∈ rows, r.impl ∈ as)
    (hnd : (owned rows).Nodup) : ∀ (i : Nat) (h : Heap), i ≤ rows.length → Owns h as →
    Owns (setSpaceDimRows sd i h rows) as
    ∧ (∀ a, (∀ j (_ : j < i) (hjl : j < rows.length), rows[j].impl ≠ a) → (setSpaceDimRows sd i h rows).cells a = h.cells a)
    ∧ (∀ j (_ : j < i) (hjl : j < rows.length),
        rows[j].val (setSpaceDimRows sd i h rows) = setSpaceDimV sd (rows[j].val h))
  | 0, h, _, hO => ⟨hO, fun _ _ => rfl, fun j hj => absurd hj (Nat.not_lt_zero _)⟩
  | i + 1, h, hi, hO => by
    have hil : i < rows.length := hi
    rw [setSpaceDimRows_succ sd i h rows hil]
    have hmem : rows[i].impl ∈ as := hsub _ (List.getElem_mem hil)
    have hO0 : Owns (rows[i].setSpaceDimNoOk h sd) as := owns_modify hO hmem _
    obtain ⟨i1, i2, i3⟩ := setSpaceDimRows_spec sd rows as hsub hnd i (rows[i].setSpaceDimNoOk h sd) (by omega) hO0
    refine ⟨i1, fun a ha => ?_, fun j hj hjl => ?_⟩
    · rw [i2 a (fun j hj hjl => ha j (by omega) hjl)]
      exact modify_cells_of_ne h _ (fun e => ha i (by omega) hil e.symm)
    · by_cases hji : j < i
      · rw [i3 j hji hjl]
        congr 1
        apply row_val_congr
        exact modify_cells_of_ne h _ (nodup_owned_ne hnd hjl hil (by omega))
      · have hje : j = i := by omega
        subst hje
        obtain ⟨c, hc⟩ := owns_read_some hO hmem
        have h1 : (setSpaceDimRows sd j (rows[j].setSpaceDimNoOk h sd) rows).cells rows[j].impl
            = some (setSpaceDimCoeffs rows[j].nnc sd c) := by
          rw [i2 _ (fun k hk hkl => nodup_owned_ne hnd hkl hil (by omega))]
          exact modify_cells_self _ hc
        simp [Row.val, Heap.read, h1, hc, setSpaceDimV]

theorem setSpaceDimRows_full (sd : Nat) (rows : List Row) (as : List Nat) (h : Heap) (hsub : ∀ r ∈ rows, r.impl ∈ as)
    (hnd : (owned rows).Nodup) (hO : Owns h as) :
    Owns (setSpaceDimRows sd rows.length h rows) as
    ∧ (∀ a, a ∉ owned rows → (setSpaceDimRows sd rows.length h rows).cells a = h.cells a)
    ∧ rowValues (setSpaceDimRows sd rows.length h rows) rows = (rowValues h rows).map (setSpaceDimV sd) := by
  obtain ⟨i1, i2, i3⟩ := setSpaceDimRows_spec sd rows as hsub hnd rows.length h (Nat.le_refl _) hO
  refine ⟨i1, fun a ha => i2 a (fun j _ hjl e => ha (e ▸ mem_owned (List.getElem_mem hjl))), ?_⟩
  unfold rowValues
  rw [List.map_map]
  apply List.map_congr_left
  intro r hr
  obtain ⟨j, hj, rfl⟩ := List.getElem_of_mem hr
  exact i3 j hj hj

/-! ## the pieces of `insert_pending_no_ok` -/

/-- `r.space_dimension()` as read by `insert_pending_no_ok` -/
def rsdOf (h : Heap) (r : Row) : Nat := match r.value h with | some v => v.spaceDim | none => 0

/-- the dimension adjustment at the start of `insert_pending_no_ok` -/
def adjustStep (h : Heap) (s : LinSys) (r : Row) : Heap × LinSys :=
  if s.spaceDim < rsdOf h r then s.setSpaceDimNoOk h (rsdOf h r) else (r.setSpaceDimNoOk h s.spaceDim, s)

theorem insertPendingNoOk_unfold (K : RowClass) (h : Heap) (s : LinSys) (r : Row) :
    s.insertPendingNoOk K h r
      = (((adjustStep h s r).2.rows.resize K (adjustStep h s r).1 ((adjustStep h s r).2.rows.size + 1)).1,
          { (adjustStep h s r).2 with
            rows := ⟨(swapBack ((adjustStep h s r).2.rows.resize K (adjustStep h s r).1
                        ((adjustStep h s r).2.rows.size + 1)).2.impl r).1,
                     ((adjustStep h s r).2.rows.resize K (adjustStep h s r).1
                        ((adjustStep h s r).2.rows.size + 1)).2.cap⟩ },
          (swapBack ((adjustStep h s r).2.rows.resize K (adjustStep h s r).1
                        ((adjustStep h s r).2.rows.size + 1)).2.impl r).2) := rfl

theorem insertPendingNoOkV_rest (x : LinSysV) (v : RowV) :
    insertPendingNoOkV x v
      = ⟨(insertPendingNoOkV x v).rows, (insertPendingNoOkV x v).spaceDim, x.nnc, x.firstPending, x.sorted⟩ := by
  unfold insertPendingNoOkV
  split <;> rfl

theorem adjustStep_spec (h : Heap) (s : LinSys) (r : Row) (frame : List Nat)
    (hO : Owns h (s.owned ++ r.impl :: frame)) :
    Owns (adjustStep h s r).1 (s.owned ++ r.impl :: frame)
    ∧ (adjustStep h s r).2 = { s with spaceDim := (insertPendingNoOkV (s.value h) (r.val h)).spaceDim }
    ∧ rowValues (adjustStep h s r).1 s.rows.impl ++ [r.val (adjustStep h s r).1]
        = (insertPendingNoOkV (s.value h) (r.val h)).rows
    ∧ FrameEq h (adjustStep h s r).1 frame := by
  have hrm : r.impl ∈ s.owned ++ r.impl :: frame := by simp
  have hrsd : rsdOf h r = (r.val h).spaceDim := by
    unfold rsdOf; rw [owns_row_value hO hrm]
  have hrn : r.impl ∉ s.owned := fun hm =>
    owns_ne_of_mem_append hO hm (List.mem_cons_self) rfl
  have hfn : ∀ a ∈ frame, a ≠ r.impl := by
    intro a ha e
    have hnd := owns_nodup_right hO
    exact (List.nodup_cons.1 hnd).1 (e ▸ ha)
  unfold adjustStep
  rw [hrsd]
  by_cases hlt : s.spaceDim < (r.val h).spaceDim
  · rw [if_pos hlt]
    obtain ⟨i1, i2, i3⟩ := setSpaceDimRows_full (r.val h).spaceDim s.rows.impl _ h
      (fun r' hr' => List.mem_append_left _ (mem_owned hr')) (owns_nodup_left hO) hO
    have hV : insertPendingNoOkV (s.value h) (r.val h)
        = { s.value h with rows := (s.value h).rows.map (setSpaceDimV (r.val h).spaceDim) ++ [r.val h],
                           spaceDim := (r.val h).spaceDim } := by
      unfold insertPendingNoOkV
      rw [if_pos (show (s.value h).spaceDim < (r.val h).spaceDim from hlt)]
    rw [hV]
    refine ⟨i1, rfl, ?_, fun a ha => ?_⟩
    · show rowValues (setSpaceDimRows _ s.rows.impl.length h s.rows.impl) s.rows.impl ++ [_] = _
      have e2 : r.val (setSpaceDimRows (r.val h).spaceDim s.rows.impl.length h s.rows.impl) = r.val h :=
        row_val_congr (i2 r.impl hrn)
      rw [i3]
      show _ ++ [r.val (setSpaceDimRows (r.val h).spaceDim s.rows.impl.length h s.rows.impl)] = _
      rw [e2]
      rfl
    · exact i2 a (fun hm => owns_ne_of_mem_append hO hm (List.mem_cons_of_mem _ ha) rfl)
  · rw [if_neg hlt]
    have hV : insertPendingNoOkV (s.value h) (r.val h)
        = { s.value h with rows := (s.value h).rows ++ [setSpaceDimV (s.value h).spaceDim (r.val h)] } := by
      unfold insertPendingNoOkV
      rw [if_neg (show ¬ (s.value h).spaceDim < (r.val h).spaceDim from hlt)]
    rw [hV]
    obtain ⟨c, hc⟩ := owns_read_some hO hrm
    refine ⟨owns_modify hO hrm _, rfl, ?_, fun a ha => modify_cells_of_ne h _ (hfn a ha)⟩
    · show rowValues (h.modify r.impl _) s.rows.impl ++ [r.val (h.modify r.impl _)] = rowValues h s.rows.impl ++ [_]
      rw [rowValues_congr (frameEq_modify _ hrn)]
      congr 2
      simp [Row.val, Heap.read, modify_cells_self _ hc, hc, setSpaceDimV, LinSys.value]

theorem eq_append_singleton_of_take {α : Type} (l a : List α) (n : Nat) (ht : l.take n = a) (hl : l.length = n + 1) :
    ∃ d, l = a ++ [d] := by
  have hd : (l.drop n).length = 1 := by simp [hl]
  match hdd : l.drop n, hd with
  | [d], _ => exact ⟨d, by rw [← ht, ← hdd, List.take_append_drop]⟩

theorem swapBack_concat (l : List Row) (d r : Row) : swapBack (l ++ [d]) r = (l ++ [r], d) := by
  simp [swapBack]

/-- `rows.resize(rows.size() + 1); swap(rows.back(), r);` -/
theorem pushStep_spec (K : RowClass) (h : Heap) (v : SVec) (r : Row) (frame : List Nat)
    (hO : Owns h (owned v.impl ++ r.impl :: frame)) :
    ∃ d, (v.resize K h (v.size + 1)).2.impl = v.impl ++ [d]
      ∧ d.val (v.resize K h (v.size + 1)).1 = dfltV K
      ∧ Owns (v.resize K h (v.size + 1)).1 (owned (v.impl ++ [r]) ++ d.impl :: frame)
      ∧ (∀ a ∈ owned v.impl ++ r.impl :: frame, (v.resize K h (v.size + 1)).1.cells a = h.cells a) := by
  obtain ⟨g1, g2, g3, g4, g5⟩ := resize_grow_refines K h v (v.size + 1) (r.impl :: frame) hO (Nat.le_succ _)
  obtain ⟨d, hd⟩ := eq_append_singleton_of_take _ _ _ g1 g2
  refine ⟨d, hd, ?_, ?_, g5⟩
  · apply g3
    rw [hd]
    have : v.size = v.impl.length := rfl
    rw [this, List.drop_left]
    simp
  · rw [hd] at g4
    refine owns_perm g4 ?_
    simp only [owned_append, owned_cons, owned_nil, List.append_assoc, List.singleton_append]
    apply List.Perm.append_left
    exact List.Perm.swap _ _ _

end OwnsKit

/-! ## interface lemmas -/

theorem insertPendingNoOk_refines (K : RowClass) (h : Heap) (s : LinSys) (r : Row) (frame : List Nat)
    (hO : Owns h (s.owned ++ r.impl :: frame)) :
    let out := s.insertPendingNoOk K h r
    Owns out.1 (out.2.1.owned ++ out.2.2.impl :: frame)
    ∧ out.2.1.value out.1 = insertPendingNoOkV (s.value h) (r.val h)
    ∧ out.2.2.val out.1 = dfltV K
    ∧ FrameEq h out.1 frame := by
  intro out
  obtain ⟨a1, a2, a3, a4⟩ := adjustStep_spec h s r frame hO
  have hout : out = _ := insertPendingNoOk_unfold K h s r
  generalize adjustStep h s r = p at a1 a2 a3 a4 hout
  obtain ⟨h1, s1⟩ := p
  simp only at a1 a2 a3 a4 hout
  have hrows : s1.rows = s.rows := by rw [a2]
  rw [hrows] at hout
  have hO1 : Owns h1 (owned s.rows.impl ++ r.impl :: frame) := a1
  obtain ⟨d, p1, p2, p3, p4⟩ := pushStep_spec K h1 s.rows r frame hO1
  rw [p1, swapBack_concat] at hout
  simp only at hout
  rw [hout]
  refine ⟨p3, ?_, p2, ?_⟩
  · show (⟨rowValues _ (s.rows.impl ++ [r]), s1.spaceDim, s1.nnc, s1.firstPending, s1.sorted⟩ : LinSysV) = _
    rw [insertPendingNoOkV_rest, ← a3, a2]
    have e1 : rowValues (s.rows.resize K h1 (s.rows.size + 1)).1 (s.rows.impl ++ [r])
        = rowValues h1 s.rows.impl ++ [r.val h1] := by
      have : FrameEq h1 (s.rows.resize K h1 (s.rows.size + 1)).1 (owned (s.rows.impl ++ [r])) := by
        intro a ha
        apply p4
        simp only [owned_append, owned_cons, owned_nil, List.mem_append, List.mem_singleton] at ha
        rcases ha with ha | ha
        · exact List.mem_append_left _ ha
        · exact List.mem_append_right _ (ha ▸ List.mem_cons_self)
      rw [rowValues_congr this]
      simp
    rw [e1]
    rfl
  · intro a ha
    show (s.rows.resize K h1 (s.rows.size + 1)).1.cells a = h.cells a
    rw [p4 a (List.mem_append_right _ (List.mem_cons_of_mem _ ha))]
    exact a4 a ha

end PPLV.Value.Move

/-! # part 2: `insert_no_ok`, `clear`, destructor, system moves -/

namespace PPLV.Value.Move
open OwnsKit

namespace OwnsKit

/-! ## comparisons read the same values -/

theorem rowsLe_eq_leV (K : RowClass) (h : Heap) (a b : Option Row)
    (ha : ∀ r, a = some r → ∃ c, h.cells r.impl = some c) (hb : ∀ r, b = some r → ∃ c, h.cells r.impl = some c) :
    rowsLe K h a b = leV K (a.map (Row.val h)) (b.map (Row.val h)) := by
  cases a with
  | none => rfl
  | some x =>
    cases b with
    | none => rfl
    | some y =>
      obtain ⟨c, hc⟩ := ha x rfl
      obtain ⟨c', hc'⟩ := hb y rfl
      simp [rowsLe, leV, row_value_eq_some_val hc, row_value_eq_some_val hc']

theorem live_getElem? {h : Heap} {as : List Nat} (hO : Owns h as) {rows : List Row} (hsub : ∀ r ∈ rows, r.impl ∈ as)
    (i : Nat) : ∀ r, rows[i]? = some r → ∃ c, h.cells r.impl = some c := by
  intro r hr
  exact owns_read_some hO (hsub r (List.mem_of_getElem? hr))

theorem rowValues_getElem? (h : Heap) (rows : List Row) (i : Nat) :
    (rowValues h rows)[i]? = (rows[i]?).map (Row.val h) := by
  simp [rowValues]

/-! ## `insert_no_ok` -/

/-- the `sorted` bookkeeping of `insert_no_ok` -/
def noOkFlag (K : RowClass) (ws : Bool) (h₁ : Heap) (s₁ : LinSys) : LinSys :=
  if ws then
    (if s₁.numRows > 1 then
      { s₁ with sorted := rowsLe K h₁ s₁.rows.impl[s₁.numRows - 2]? s₁.rows.impl[s₁.numRows - 1]? }
     else { s₁ with sorted := true })
  else s₁

def noOkFlagV (K : RowClass) (ws : Bool) (x₁ : LinSysV) : LinSysV :=
  let n := x₁.rows.length
  let x₂ := if ws then
      (if n > 1 then { x₁ with sorted := leV K x₁.rows[n - 2]? x₁.rows[n - 1]? } else { x₁ with sorted := true })
    else x₁
  { x₂ with firstPending := x₂.rows.length }

theorem insertNoOk_unfold (K : RowClass) (h : Heap) (s : LinSys) (r : Row) :
    s.insertNoOk K h r
      = ((s.insertPendingNoOk K h r).1,
          (noOkFlag K s.sorted (s.insertPendingNoOk K h r).1 (s.insertPendingNoOk K h r).2.1).unsetPendingRows,
          (s.insertPendingNoOk K h r).2.2) := rfl

theorem insertNoOkV_unfold (K : RowClass) (x : LinSysV) (r : RowV) :
    insertNoOkV K x r = noOkFlagV K x.sorted (insertPendingNoOkV x r) := rfl

theorem noOkFlag_rows (K : RowClass) (ws : Bool) (h₁ : Heap) (s₁ : LinSys) :
    (noOkFlag K ws h₁ s₁).unsetPendingRows.rows = s₁.rows := by
  unfold noOkFlag LinSys.unsetPendingRows
  cases ws
  · rfl
  · by_cases hn : s₁.numRows > 1 <;> simp [hn]

theorem noOkFlag_value (K : RowClass) (ws : Bool) (h₁ : Heap) (s₁ : LinSys) (as : List Nat) (hO : Owns h₁ as)
    (hsub : ∀ r ∈ s₁.rows.impl, r.impl ∈ as) :
    (noOkFlag K ws h₁ s₁).unsetPendingRows.value h₁ = noOkFlagV K ws (s₁.value h₁) := by
  have hle := rowsLe_eq_leV K h₁ s₁.rows.impl[s₁.numRows - 2]? s₁.rows.impl[s₁.numRows - 1]?
    (live_getElem? hO hsub _) (live_getElem? hO hsub _)
  have hlen : (s₁.value h₁).rows.length = s₁.numRows := by
    simp [LinSys.value, LinSys.numRows, SVec.size]
  unfold noOkFlag noOkFlagV
  simp only [hlen]
  cases ws
  · simp [LinSys.value, LinSys.unsetPendingRows, LinSys.numRows, SVec.size]
  · by_cases hn : s₁.numRows > 1
    · simp only [hn, if_true, hle]
      simp [LinSys.value, LinSys.unsetPendingRows, LinSys.numRows, SVec.size, rowValues_getElem?]
    · simp only [hn, if_false]
      simp [LinSys.value, LinSys.unsetPendingRows, LinSys.numRows, SVec.size]

end OwnsKit

theorem insertNoOk_refines (K : RowClass) (h : Heap) (s : LinSys) (r : Row) (frame : List Nat)
    (hO : Owns h (s.owned ++ r.impl :: frame)) :
    let out := s.insertNoOk K h r
    Owns out.1 (out.2.1.owned ++ out.2.2.impl :: frame)
    ∧ out.2.1.value out.1 = insertNoOkV K (s.value h) (r.val h)
    ∧ out.2.2.val out.1 = dfltV K
    ∧ FrameEq h out.1 frame := by
  intro out
  obtain ⟨p1, p2, p3, p4⟩ := insertPendingNoOk_refines K h s r frame hO
  have hout : out = _ := insertNoOk_unfold K h s r
  generalize s.insertPendingNoOk K h r = q at p1 p2 p3 p4 hout
  obtain ⟨h1, s1, r'⟩ := q
  simp only at p1 p2 p3 p4 hout
  rw [hout]
  refine ⟨?_, ?_, p3, p4⟩
  · show Owns h1 (owned (noOkFlag K s.sorted h1 s1).unsetPendingRows.rows.impl ++ r'.impl :: frame)
    rw [noOkFlag_rows]
    exact p1
  · show (noOkFlag K s.sorted h1 s1).unsetPendingRows.value h1 = _
    rw [noOkFlag_value K s.sorted h1 s1 _ p1 (fun r hr => List.mem_append_left _ (mem_owned hr)), p2,
      insertNoOkV_unfold]
    rfl

/-! ## `clear`, destructor -/

theorem LinSys.clear_refines (h : Heap) (s : LinSys) (frame : List Nat) (hO : Owns h (s.owned ++ frame)) :
    Owns (LinSys.clear h s).1 frame ∧ (LinSys.clear h s).2.value (LinSys.clear h s).1 = clearV (s.value h)
    ∧ (LinSys.clear h s).2.owned = [] ∧ FrameEq h (LinSys.clear h s).1 frame := by
  obtain ⟨_, i1, i2⟩ := Move.clear_refines h s.rows frame hO
  exact ⟨i1, rfl, rfl, i2⟩

theorem LinSys.destroy_refines (h : Heap) (s : LinSys) (frame : List Nat) (hO : Owns h (s.owned ++ frame)) :
    Owns (s.destroy h) frame ∧ FrameEq h (s.destroy h) frame :=
  destroyRows_refines h s.rows.impl frame hO

/-! ## `insert_pending(y, Recycle_Input)` -/

namespace OwnsKit

theorem stealRowsLoop_step (K : RowClass) (pre post : List Row) (r : Row) (h : Heap) (x : LinSys) :
    stealRowsLoop K (r :: post).length pre.length h x (pre ++ r :: post)
      = stealRowsLoop K post.length (pre ++ [(x.insertPendingNoOk K h r).2.2]).length (x.insertPendingNoOk K h r).1
          (x.insertPendingNoOk K h r).2.1 ((pre ++ [(x.insertPendingNoOk K h r).2.2]) ++ post) := by
  have e1 : (pre ++ r :: post)[pre.length]? = some r := by simp
  rw [List.length_cons, stealRowsLoop]
  simp [LinSys.insertPendingRow]

theorem stealRowsLoop_spec (K : RowClass) : ∀ (post pre : List Row) (h : Heap) (x : LinSys) (frame : List Nat),
    Owns h (x.owned ++ owned (pre ++ post) ++ frame) →
    Owns (stealRowsLoop K post.length pre.length h x (pre ++ post)).1
      ((stealRowsLoop K post.length pre.length h x (pre ++ post)).2.1.owned
        ++ owned (stealRowsLoop K post.length pre.length h x (pre ++ post)).2.2 ++ frame)
    ∧ (stealRowsLoop K post.length pre.length h x (pre ++ post)).2.1.value
        (stealRowsLoop K post.length pre.length h x (pre ++ post)).1
        = (rowValues h post).foldl insertPendingNoOkV (x.value h)
    ∧ FrameEq h (stealRowsLoop K post.length pre.length h x (pre ++ post)).1 frame
  | [], pre, h, x, frame, hO => by
    simp only [List.length_nil, stealRowsLoop, List.append_nil] at *
    exact ⟨hO, rfl, frameEq_refl h frame⟩
  | r :: post, pre, h, x, frame, hO => by
    rw [stealRowsLoop_step]
    have hO' : Owns h (x.owned ++ r.impl :: (owned pre ++ owned post ++ frame)) := by
      refine owns_perm hO ?_
      owns_perm_tac
    obtain ⟨p1, p2, _, p4⟩ := insertPendingNoOk_refines K h x r _ hO'
    generalize x.insertPendingNoOk K h r = q at p1 p2 p4
    obtain ⟨h1, x1, r'⟩ := q
    simp only at p1 p2 p4 ⊢
    have hO1 : Owns h1 (x1.owned ++ owned ((pre ++ [r']) ++ post) ++ frame) := by
      refine owns_perm p1 ?_
      owns_perm_tac
    obtain ⟨i1, i2, i3⟩ := stealRowsLoop_spec K post (pre ++ [r']) h1 x1 frame hO1
    refine ⟨i1, ?_, frameEq_trans (frameEq_append_right p4) i3⟩
    rw [i2, p2]
    have : rowValues h1 post = rowValues h post :=
      rowValues_congr (frameEq_append_right (frameEq_append_left p4))
    rw [this]
    rfl

theorem insertPendingSys_unfold (K : RowClass) (h : Heap) (x y : LinSys) :
    x.insertPendingSys K h y
      = ((LinSys.clear (stealRowsLoop K y.numRows 0 h x y.rows.impl).1
            { y with rows := ⟨(stealRowsLoop K y.numRows 0 h x y.rows.impl).2.2, y.rows.cap⟩ }).1,
         (stealRowsLoop K y.numRows 0 h x y.rows.impl).2.1,
         (LinSys.clear (stealRowsLoop K y.numRows 0 h x y.rows.impl).1
            { y with rows := ⟨(stealRowsLoop K y.numRows 0 h x y.rows.impl).2.2, y.rows.cap⟩ }).2) := rfl

end OwnsKit

theorem insertPendingSys_refines (K : RowClass) (h : Heap) (x y : LinSys) (frame : List Nat)
    (hO : Owns h (x.owned ++ y.owned ++ frame)) :
    let out := x.insertPendingSys K h y
    Owns out.1 (out.2.1.owned ++ frame)
    ∧ out.2.1.value out.1 = insertPendingSysV (x.value h) (y.value h)
    ∧ out.2.2.value out.1 = clearV (y.value h) ∧ out.2.2.owned = []
    ∧ FrameEq h out.1 frame := by
  intro out
  have hout : out = _ := insertPendingSys_unfold K h x y
  have hO0 : Owns h (x.owned ++ owned ([] ++ y.rows.impl) ++ frame) := hO
  obtain ⟨i1, i2, i3⟩ := stealRowsLoop_spec K y.rows.impl [] h x frame hO0
  have e0 : stealRowsLoop K y.rows.impl.length ([] : List Row).length h x ([] ++ y.rows.impl)
      = stealRowsLoop K y.numRows 0 h x y.rows.impl := rfl
  rw [e0] at i1 i2 i3
  generalize stealRowsLoop K y.numRows 0 h x y.rows.impl = q at i1 i2 i3 hout
  obtain ⟨h1, x1, yrows⟩ := q
  simp only at i1 i2 i3 hout
  have hO1 : Owns h1 ((⟨⟨yrows, y.rows.cap⟩, y.spaceDim, y.nnc, y.firstPending, y.sorted⟩ : LinSys).owned
      ++ (x1.owned ++ frame)) := by
    refine owns_perm i1 ?_
    owns_perm_tac
  obtain ⟨c1, c2, c3, c4⟩ := LinSys.clear_refines h1 _ _ hO1
  rw [hout]
  refine ⟨c1, ?_, c2, c3, frameEq_trans i3 (frameEq_append_right c4)⟩
  show x1.value _ = _
  rw [LinSys.value_congr h1 _ x1 (frameEq_append_left c4), i2]
  rfl

/-! ## `insert(y, Recycle_Input)` -/

namespace OwnsKit

/-- the `sorted` bookkeeping at the start of `insert(y, Recycle_Input)` -/
def insertSysFlag (K : RowClass) (h : Heap) (x y : LinSys) : LinSys :=
  if x.sorted then
    if !y.sorted || y.numPendingRows > 0 then { x with sorted := false }
    else
      if x.numRows > 0 then { x with sorted := rowsLe K h x.rows.impl[x.numRows - 1]? y.rows.impl[0]? } else x
  else x

def insertSysFlagV (K : RowClass) (x y : LinSysV) : LinSysV :=
  if x.sorted then
    if !y.sorted || y.numPendingRows > 0 then { x with sorted := false }
    else if x.rows.length > 0 then { x with sorted := leV K x.rows[x.rows.length - 1]? y.rows[0]? } else x
  else x

theorem insertSys_unfold (K : RowClass) (h : Heap) (x y : LinSys) (hy : y.hasNoRows = false) :
    x.insertSys K h y
      = (((insertSysFlag K h x y).insertPendingSys K h y).1,
          ((insertSysFlag K h x y).insertPendingSys K h y).2.1.unsetPendingRows,
          ((insertSysFlag K h x y).insertPendingSys K h y).2.2) := by
  unfold LinSys.insertSys
  simp only [hy]
  rfl

theorem insertSysV_unfold (K : RowClass) (x y : LinSysV) (hy : y.rows.isEmpty = false) :
    insertSysV K x y
      = { insertPendingSysV (insertSysFlagV K x y) y with
          firstPending := (insertPendingSysV (insertSysFlagV K x y) y).rows.length } := by
  unfold insertSysV
  simp only [hy]
  rfl

theorem insertSysFlag_rows (K : RowClass) (h : Heap) (x y : LinSys) : (insertSysFlag K h x y).rows = x.rows := by
  unfold insertSysFlag
  repeat' split
  all_goals rfl

theorem insertSysFlag_value (K : RowClass) (h : Heap) (x y : LinSys) (as : List Nat) (hO : Owns h as)
    (hx : ∀ r ∈ x.rows.impl, r.impl ∈ as) (hy : ∀ r ∈ y.rows.impl, r.impl ∈ as) :
    (insertSysFlag K h x y).value h = insertSysFlagV K (x.value h) (y.value h) := by
  have hle := rowsLe_eq_leV K h x.rows.impl[x.numRows - 1]? y.rows.impl[0]?
    (live_getElem? hO hx _) (live_getElem? hO hy _)
  have hlen : (x.value h).rows.length = x.numRows := by
    simp [LinSys.value, LinSys.numRows, SVec.size]
  have hpend : (y.value h).numPendingRows = y.numPendingRows := by
    simp [LinSys.value, LinSysV.numPendingRows, LinSys.numPendingRows, LinSys.numRows, SVec.size]
  unfold insertSysFlag insertSysFlagV
  rw [hlen, hpend]
  have hs : (x.value h).sorted = x.sorted := rfl
  have hys : (y.value h).sorted = y.sorted := rfl
  rw [hs, hys]
  by_cases h1 : x.sorted = true
  · simp only [h1, if_true]
    by_cases h2 : (!y.sorted || decide (y.numPendingRows > 0)) = true
    · simp only [h2, if_true]; rfl
    · simp only [h2]
      by_cases h3 : x.numRows > 0
      · simp only [h3, if_true, hle]
        simp [LinSys.value, rowValues_getElem?]
      · simp [h3]
  · simp [h1]

end OwnsKit

theorem insertSys_refines (K : RowClass) (h : Heap) (x y : LinSys) (frame : List Nat)
    (hO : Owns h (x.owned ++ y.owned ++ frame)) :
    let out := x.insertSys K h y
    Owns out.1 (out.2.1.owned ++ out.2.2.owned ++ frame)
    ∧ out.2.1.value out.1 = insertSysV K (x.value h) (y.value h)
    ∧ out.2.2.value out.1 = insertSysArgV (y.value h)
    ∧ (y.hasNoRows = true → out.2.2 = y) ∧ (y.hasNoRows = false → out.2.2.owned = [])
    ∧ FrameEq h out.1 frame := by
  intro out
  have hemp : (y.value h).rows.isEmpty = y.hasNoRows := by
    simp [LinSys.value, LinSys.hasNoRows, rowValues]
  by_cases hy : y.hasNoRows = true
  · have hout : out = (h, x, y) := by
      show x.insertSys K h y = _
      unfold LinSys.insertSys
      simp [hy]
    rw [hout]
    refine ⟨hO, ?_, ?_, fun _ => rfl, fun hn => ?_, frameEq_refl h frame⟩
    · show x.value h = _
      unfold insertSysV
      simp [hemp, hy]
    · show y.value h = _
      unfold insertSysArgV
      simp [hemp, hy]
    · rw [hy] at hn; cases hn
  · have hy' : y.hasNoRows = false := by simpa using hy
    have hout : out = _ := insertSys_unfold K h x y hy'
    have hOf : Owns h ((insertSysFlag K h x y).owned ++ y.owned ++ frame) := by
      show Owns h (owned (insertSysFlag K h x y).rows.impl ++ y.owned ++ frame)
      rw [insertSysFlag_rows]; exact hO
    obtain ⟨p1, p2, p3, p4, p5⟩ := insertPendingSys_refines K h (insertSysFlag K h x y) y frame hOf
    generalize (insertSysFlag K h x y).insertPendingSys K h y = q at p1 p2 p3 p4 p5 hout
    obtain ⟨h1, x1, y1⟩ := q
    simp only at p1 p2 p3 p4 p5 hout
    rw [hout]
    refine ⟨?_, ?_, ?_, fun hn => ?_, fun _ => p4, p5⟩
    · show Owns h1 (x1.owned ++ y1.owned ++ frame)
      rw [p4]; simpa using p1
    · show x1.unsetPendingRows.value h1 = _
      rw [insertSysV_unfold K _ _ (by rw [hemp]; exact hy')]
      rw [← insertSysFlag_value K h x y _ hO
        (fun r hr => List.mem_append_left _ (List.mem_append_left _ (mem_owned hr)))
        (fun r hr => List.mem_append_left _ (List.mem_append_right _ (mem_owned hr))), ← p2]
      simp [LinSys.value, LinSys.unsetPendingRows, LinSys.numRows, SVec.size]
    · show y1.value h1 = _
      rw [p3]
      unfold insertSysArgV
      simp [hemp, hy']
    · rw [hy'] at hn; cases hn

end PPLV.Value.Move
