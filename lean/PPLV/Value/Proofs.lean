import PPLV.Value.Model

/-! # C13 — proofs about the value specification and about the `Determinate` machine -/
namespace PPLV.Value

/-! ## (a) the value specification -/
namespace Spec
variable {V : Type}

theorem upd_same (p : Pool V) (i : Nat) (v : V) : upd p i v i = v := by simp [upd]
theorem upd_other (p : Pool V) (i j : Nat) (v : V) (h : j ≠ i) : upd p i v j = p j := by simp [upd, h]
theorem upd_self (p : Pool V) (i : Nat) : upd p i (p i) = p := by
  funext j; by_cases h : j = i <;> simp [upd, h]

theorem applyWrites_frame (args : List V) (ws : List (Write V)) (p : Pool V) (i : Nat)
    (h : ∀ w ∈ ws, w.1 ≠ i) : applyWrites args ws p i = p i := by
  induction ws generalizing p with
  | nil => rfl
  | cons w ws ih =>
    obtain ⟨d, f⟩ := w
    have hd : d ≠ i := h (d, f) (by simp)
    have hws : ∀ w ∈ ws, w.1 ≠ i := fun w hw => h w (by simp [hw])
    simp only [applyWrites]
    rw [ih _ hws]
    cases f args with
    | none => rfl
    | some v => exact upd_other p d i v (Ne.symm hd)

/-- **frame**: a step changes no slot outside its destinations -/
theorem frame (p : Pool V) (s : Step V) (i : Nat) (h : i ∉ s.dsts) : step p s i = p i := by
  apply applyWrites_frame
  intro w hw hi
  exact h (by simp only [Step.dsts, List.mem_map]; exact ⟨w, hw, hi⟩)

/-- frame rule for whole histories -/
theorem frame_run (p : Pool V) (steps : List (Step V)) (i : Nat) (h : ∀ s ∈ steps, i ∉ s.dsts) :
    run p steps i = p i := by
  induction steps generalizing p with
  | nil => rfl
  | cons s ss ih =>
    simp only [run, List.foldl_cons]
    have := ih (step p s) (fun s' hs' => h s' (by simp [hs']))
    simp only [run] at this
    rw [this, frame p s i (h s (by simp))]

/-- **alias invariance**: the effect of a step depends on the argument *values* only, not on which
slots they are read from -/
theorem alias_invariance (p : Pool V) (s s' : Step V) (hw : s.writes = s'.writes)
    (hr : s.reads.map p = s'.reads.map p) : step p s = step p s' := by
  simp only [step, hw, hr]

/-- `x.op(x)` = `x.op(c)` for any slot `c` holding an equal value -/
theorem op_self_eq_op_copy (p : Pool V) (x c : Nat) (f : List V → V) (hc : p c = p x) :
    step p (op x [x, x] f) = step p (op x [x, c] f) :=
  alias_invariance p _ _ rfl (by simp [op, hc])

/-- one object in two argument positions = two equal copies -/
theorem op_two_positions (p : Pool V) (x y c : Nat) (f : List V → V) (hc : p c = p y) :
    step p (op x [x, y, y] f) = step p (op x [x, y, c] f) :=
  alias_invariance p _ _ rfl (by simp [op, hc])

/-- general form: replacing every argument slot by a slot holding an equal value -/
theorem op_args_congr (p : Pool V) (d : Nat) (args args' : List Nat) (f : List V → V)
    (h : args.map p = args'.map p) : step p (op d args f) = step p (op d args' f) :=
  alias_invariance p _ _ rfl h

theorem op_value (p : Pool V) (d : Nat) (args : List Nat) (f : List V → V) :
    step p (op d args f) d = f (args.map p) := by
  simp [step, op, applyWrites, upd]

theorem copy_value (p : Pool V) (d s : Nat) : step p (copy d s) d = p s := by
  simp [step, copy, applyWrites, upd]

theorem swap_value (p : Pool V) (a b : Nat) :
    step p (swap a b) a = p b ∧ step p (swap a b) b = p a := by
  by_cases h : a = b
  · subst h; simp [step, swap, applyWrites, upd]
  · simp [step, swap, applyWrites, upd, h]

/-- self-assignment is the identity -/
theorem self_copy (p : Pool V) (x : Nat) : step p (copy x x) = p := by
  simp only [step, copy, applyWrites, List.map_cons, List.map_nil, List.getElem?_cons_zero]
  exact upd_self p x

/-- self-swap is the identity -/
theorem self_swap (p : Pool V) (x : Nat) : step p (swap x x) = p := by
  funext j
  by_cases h : j = x <;> simp [step, swap, applyWrites, upd, h]

/-- a const query changes nothing -/
theorem query_id (p : Pool V) (args : List Nat) : step p (query args) = p := rfl

theorem applyWrites_congr (args : List V) (ws : List (Write V)) (p q : Pool V) (d : Nat)
    (hd : p d = q d) : applyWrites args ws p d = applyWrites args ws q d := by
  induction ws generalizing p q with
  | nil => exact hd
  | cons w ws ih =>
    obtain ⟨e, f⟩ := w
    simp only [applyWrites]
    apply ih
    cases f args with
    | none => exact hd
    | some v => by_cases h : d = e <;> simp [upd, h, hd]

/-- the result written by a step depends only on the values read -/
theorem step_congr (p q : Pool V) (s : Step V) (d : Nat) (hr : s.reads.map p = s.reads.map q)
    (hd : p d = q d) : step p s d = step q s d := by
  simp only [step, hr]
  exact applyWrites_congr _ _ p q d hd

end Spec

/-! ## (b) `Determinate` -/
namespace Cow
variable {P : Type}

/-- additive form of `List.count_set` -/
theorem count_set_add {α : Type} [BEq α] [LawfulBEq α] (l : List α) (i : Nat) (v b : α) (hi : i < l.length) :
    (l.set i v).count b + (if l[i] == b then 1 else 0) = l.count b + (if v == b then 1 else 0) := by
  induction l generalizing i with
  | nil => simp at hi
  | cons x l ih =>
    cases i with
    | zero =>
      simp only [List.set_cons_zero, List.count_cons, List.getElem_cons_zero]
      omega
    | succ i =>
      have hi' : i < l.length := by simpa using hi
      have := ih i hi'
      simp only [List.set_cons_succ, List.count_cons, List.getElem_cons_succ]
      omega

theorem two_le_count {α : Type} [BEq α] [LawfulBEq α] (l : List α) (i j : Nat) (x : α) (hij : i ≠ j)
    (hi : l[i]? = some x) (hj : l[j]? = some x) : 2 ≤ l.count x := by
  induction l generalizing i j with
  | nil => simp at hi
  | cons y l ih =>
    cases i with
    | zero =>
      cases j with
      | zero => exact absurd rfl hij
      | succ j =>
        simp only [List.getElem?_cons_zero, Option.some.injEq] at hi
        simp only [List.getElem?_cons_succ] at hj
        have : 0 < l.count x := List.count_pos_iff.mpr (List.mem_of_getElem? hj)
        simp only [List.count_cons, hi, beq_self_eq_true, ite_true]
        omega
    | succ i =>
      cases j with
      | zero =>
        simp only [List.getElem?_cons_zero, Option.some.injEq] at hj
        simp only [List.getElem?_cons_succ] at hi
        have : 0 < l.count x := List.count_pos_iff.mpr (List.mem_of_getElem? hi)
        simp only [List.count_cons, hj, beq_self_eq_true, ite_true]
        omega
      | succ j =>
        simp only [List.getElem?_cons_succ] at hi hj
        have := ih i j (by omega) hi hj
        simp only [List.count_cons]
        omega

end Cow
end PPLV.Value
