import PPLV.Value.MoveProofsAlias12

/-! C13 aliasing, part 13: value of `merge_rows_assign(y)` for a value-equal `y`, in any heap -/
namespace PPLV.Value.Move.AliasKit
open PPLV.Value PPLV.Value.Move
set_option linter.unusedSimpArgs false

theorem mergeRowsAssign_other_same (K : RowClass) (hK : ∀ v, K.cmp v v = 0) (h : Heap) (x y : LinSys)
    (frame : List Nat) (hO : Owns h (x.owned ++ y.owned ++ frame))
    (hv : rowValues h y.rows.impl = rowValues h x.rows.impl) :
    (x.mergeRowsAssign K h (.other y)).2.value (x.mergeRowsAssign K h (.other y)).1
      = { x.value h with firstPending := x.numRows } := by
  obtain ⟨r1, r2, r3⟩ := reserve_refines K h SVec.nil (computeCapacity (x.numRows + y.numRows) maxNumRows)
    (x.owned ++ y.owned ++ frame) (by simpa [SVec.nil, Move.owned] using hO)
  unfold LinSys.mergeRowsAssign
  simp only
  generalize SVec.nil.reserve K h (computeCapacity (x.numRows + y.numRows) maxNumRows) = R at r1 r2 r3
  have r1' : R.2.impl = [] := r1
  have hfr0 : FrameEq h R.1 (x.owned ++ y.owned ++ frame) := fun a ha => r3 a (by simpa [SVec.nil] using ha)
  have hO1 : Owns R.1 (owned [] ++ (owned x.rows.impl ++ (owned [] ++ (y.owned ++ frame)))) := by
    refine PolyKit.Owns.perm ?_ r2
    simp only [SVec.nil]
    alias_perm_tac
  have hv1 : rowValues R.1 y.rows.impl = rowValues R.1 x.rows.impl := by
    rw [PolyKit.rowValues_frame y.rows.impl hfr0 (fun a ha => by simp [LinSys.owned, ha]),
      PolyKit.rowValues_frame x.rows.impl hfr0 (fun a ha => by simp [LinSys.owned, ha])]
    exact hv
  obtain ⟨m1, m2, m3⟩ := mergeLoop_same K hK x.spaceDim (y.owned ++ frame) x.rows.impl y.rows.impl
    (x.numRows + y.numRows + 1) [] [] [] R.1 R.2 (by simp [LinSys.numRows, SVec.size]; omega) rfl rfl r1' hv1
    (fun r hr => by simp [LinSys.owned, Move.owned]; exact Or.inl ⟨r, hr, rfl⟩) hO1
  simp only [List.nil_append, List.length_nil] at m1 m2 m3
  generalize mergeLoop K x.spaceDim (some y.rows.impl) (x.numRows + y.numRows + 1) 0 0 R.1 x.rows.impl R.2 = M
    at m1 m2 m3
  obtain ⟨_, d2⟩ := destroyRows_refines M.1 M.2.1 _ m2
  have hrows : rowValues (destroyRows M.1 M.2.1) x.rows.impl = rowValues h x.rows.impl := by
    rw [PolyKit.rowValues_frame x.rows.impl d2 (fun a ha => by simp [ha]),
      PolyKit.rowValues_frame x.rows.impl m3 (fun a ha => by simp [ha]),
      PolyKit.rowValues_frame x.rows.impl hfr0 (fun a ha => by simp [LinSys.owned, ha])]
  simp only [LinSys.value, LinSys.unsetPendingRows, LinSys.numRows, SVec.size, m1, hrows]

end PPLV.Value.Move.AliasKit
